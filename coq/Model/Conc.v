(* Model/Conc.v — the concurrent core (DESIGN.md 3.6): threads are sequences of
   atomic segments (one per lock-protected block), a schedule picks which
   thread moves.  Three protocols:
   (a) the lock graph computed from the generated lock table (Gen/Locks.v),
   (b) creating / registering / releasing output directories (BuildDirs under
       the creation lock), on the routines of Model/BuildDirs.v themselves,
   (c) the finished flag of a builder (FileBuilder._lock). *)
From Coq Require Import List String Ascii Bool Arith.
From FB.Base Require Import PyVal Fs.
From FB.Gen Require Import Locks.
From FB.Model Require Import Types BuildDirs.
Import ListNotations.
Open Scope list_scope.

(* ------------------------------------------------------------------ (a) lock graph *)
Fixpoint mem_s (s : string) (l : list string) : bool :=
  match l with [] => false | x :: r => String.eqb s x || mem_s s r end.
Definition union_s (a b : list string) : list string := fold_left (fun acc x => if mem_s x acc then acc else acc ++ [x]) b a.

(* "Class.method" has method name [m] *)
Fixpoint after_dot (s : string) : string :=
  match s with
  | EmptyString => EmptyString
  | String c r => if Ascii.eqb c "."%char then r else after_dot r
  end.

(* locks a call of the name [m] may acquire, following calls by name (conservative:
   any method of that name in any class), to depth [fuel] *)
Fixpoint acquires (fuel : nat) (m : string) : list string :=
  match fuel with
  | O => []
  | S f =>
      fold_left (fun acc e =>
                   if String.eqb (after_dot (fst e)) m then
                     let own := match find (fun d => String.eqb (fst d) (fst e)) direct_locks with
                                | Some d => snd d | None => [] end in
                     fold_left (fun a c => union_s a (acquires f c)) (snd e) (union_s acc own)
                   else acc) calls []
  end.

Definition lock_depth : nat := 6.

(* edges L -> L' : L' may be acquired while L is held *)
Definition lock_edges : list (string * string) :=
  flat_map (fun e => match e with (_, l, callees, later) =>
     map (fun l' => (l, l')) (fold_left (fun a c => union_s a (acquires lock_depth c)) callees later) end) held_calls.

Definition all_locks : list string :=
  fold_left (fun acc e => union_s acc (snd e)) direct_locks [].

Definition succs (l : string) : list string :=
  fold_left (fun acc e => if String.eqb (fst e) l then union_s acc [snd e] else acc) lock_edges [].

Fixpoint reach (fuel : nat) (front seen : list string) : list string :=
  match fuel with
  | O => seen
  | S f =>
      let next := fold_left (fun acc l => union_s acc (succs l)) front [] in
      let fresh := filter (fun l => negb (mem_s l seen)) next in
      match fresh with [] => seen | _ => reach f fresh (union_s seen fresh) end
  end.

(* no lock can be (transitively) acquired while it is itself held *)
Definition lock_graph_acyclic : bool :=
  forallb (fun l => negb (mem_s l (reach (List.length all_locks) (succs l) (succs l)))) all_locks.

(* the segments the protocol models below are single critical sections in the code *)
Definition holds_while (fn lock : string) (callee : string) : bool :=
  existsb (fun e => match e with (f, l, cs, _) => String.eqb f fn && String.eqb l lock && mem_s callee cs end) held_calls.

Definition segments_justified : bool :=
  (* decide + mkdir + register under the creation lock *)
  holds_while "FileBuilder._build_file" "BuildDirs._creation_lock" "_prepare_file_creation" &&
  holds_while "FileBuilder._build_file" "BuildDirs._creation_lock" "started_building_file" &&
  holds_while "FileBuilder._apply_cached_suboperations" "BuildDirs._creation_lock" "_make_dirs" &&
  holds_while "FileBuilder._apply_cached_suboperations" "BuildDirs._creation_lock" "started_building_file" &&
  (* releasing reservations under the creation lock *)
  existsb (fun e => match e with (f, l, _, later) =>
     String.eqb f "BuildDirs.error_building_file" && String.eqb l "BuildDirs._creation_lock" && mem_s "BuildDirs._lock" later end) held_calls &&
  (* claims are check-and-insert under one lock *)
  holds_while "Cache.start_building_file" "Cache._files_lock" "_assert_doesnt_have_norm_cased_file" &&
  holds_while "Cache.start_subbuild" "Cache._subbuilds_lock" "_assert_doesnt_have_subbuild" &&
  holds_while "Cache.use_cached_operation" "Cache._files_lock" "_assert_no_repeats" &&
  holds_while "Cache.use_cached_operation" "Cache._files_lock" "_use_cached_operation" &&
  (* the finished flag is re-read and the record appended under the builder's lock *)
  holds_while "FileBuilder._append_suboperation" "FileBuilder._lock" "_assert_not_finished" &&
  holds_while "FileBuilder._append_suboperation" "FileBuilder._lock" "append".

(* ------------------------------------------------------------------ (b) output directories *)
(* abstract state: BuildDirs + the directories present on disk; [base] are the
   directories that exist independently of the build *)
Record dstate := { d_bd : bdirs; d_disk : list path }.

Definition vexists (base : list path) (s : dstate) (d : path) : bool :=
  mem_path d base || in_counts (d_bd s) d.

(* _dirs_to_make: the ancestors of the file that do not exist virtually, outermost first *)
Fixpoint dirs_to_make_c (base : list path) (s : dstate) (d : path) : list path :=
  if vexists base s d then [] else
  match d with
  | [] => []
  | _ :: up => dirs_to_make_c base s up ++ [d]
  end.

(* one critical section: decide, mkdir, register *)
Definition seg_start (base : list path) (s : dstate) (p : path) : dstate :=
  let ds := dirs_to_make_c base s (dirname p) in
  let disk := fold_left (fun acc d => add_path d acc) ds (d_disk s) in
  let '(b, _) := bd_started (d_bd s) p ds in
  {| d_bd := b; d_disk := disk |}.

(* one critical section: release the reservations of a failed file *)
Definition seg_fail (s : dstate) (p : path) : option dstate :=
  match bd_error (d_bd s) p with
  | Some b => Some {| d_bd := b; d_disk := d_disk s |}
  | None => None
  end.

(* a thread builds one leaf file and succeeds or fails *)
Record thread := { t_path : path; t_ok : bool }.
Inductive tstep := TStart | TEnd | TDone.
(* configuration: shared state + program counter of every thread *)
Definition config := (dstate * list (thread * tstep))%type.

Definition step_thread (base : list path) (s : dstate) (t : thread) (pc : tstep) : option (dstate * tstep) :=
  match pc with
  | TStart => Some (seg_start base s (t_path t), TEnd)
  | TEnd => if t_ok t then Some (s, TDone)
            else match seg_fail s (t_path t) with Some s' => Some (s', TDone) | None => None end
  | TDone => Some (s, TDone)
  end.

Fixpoint update_nth {A} (n : nat) (x : A) (l : list A) : list A :=
  match n, l with
  | _, [] => []
  | O, _ :: r => x :: r
  | S k, y :: r => y :: update_nth k x r
  end.

(* run a schedule: each entry names the thread that moves (out of range or finished: no-op) *)
Fixpoint run_sched (base : list path) (sched : list nat) (c : config) : option config :=
  match sched with
  | [] => Some c
  | i :: rest =>
      let '(s, ts) := c in
      match nth_error ts i with
      | None => run_sched base rest c
      | Some (t, pc) =>
          match step_thread base s t pc with
          | None => None
          | Some (s', pc') => run_sched base rest (s', update_nth i (t, pc') ts)
          end
      end
  end.

Definition all_done (c : config) : bool := forallb (fun tp => match snd tp with TDone => true | _ => false end) (snd c).

Definition init_config (ts : list thread) : config :=
  ({| d_bd := bd_init [] []; d_disk := [] |}, map (fun t => (t, TStart)) ts).

(* the sequential run: thread 0 to completion, then thread 1, ... *)
Definition seq_sched (n : nat) : list nat := flat_map (fun i => [i; i]) (seq 0 n).

(* what clean / commit / the next build depend on *)
Definition same_set (a b : list path) : bool :=
  forallb (fun p => mem_path p b) a && forallb (fun p => mem_path p a) b.
Definition cnt_same (a b : list (path * nat)) : bool :=
  forallb (fun e => match cnt_get b (fst e) with Some n => Nat.eqb n (snd e) | None => false end) a &&
  forallb (fun e => match cnt_get a (fst e) with Some n => Nat.eqb n (snd e) | None => false end) b.
Definition dstate_equiv (a b : dstate) : bool :=
  same_set (bd_created (d_bd a)) (bd_created (d_bd b)) &&
  same_set (bd_err_created (d_bd a)) (bd_err_created (d_bd b)) &&
  cnt_same (bd_counts (d_bd a)) (bd_counts (d_bd b)) &&
  same_set (d_disk a) (d_disk b).

(* the protocol WITHOUT the creation lock: deciding + mkdir, and registering, are separate
   segments, and a decision in between sees the directory on disk (os.path.isdir) *)
Inductive ustep := UDecide | URegister (ds : list path) | UEnd | UDone.

Definition vexists_u (base : list path) (s : dstate) (d : path) : bool :=
  mem_path d base || in_counts (d_bd s) d ||
  (mem_path d (d_disk s) && negb (mem_path d (bd_err_created (d_bd s)))).

Fixpoint dirs_to_make_u (base : list path) (s : dstate) (d : path) : list path :=
  if vexists_u base s d then [] else
  match d with
  | [] => []
  | _ :: up => dirs_to_make_u base s up ++ [d]
  end.

Definition ustep_thread (base : list path) (s : dstate) (t : thread) (pc : ustep) : option (dstate * ustep) :=
  match pc with
  | UDecide =>
      let ds := dirs_to_make_u base s (dirname (t_path t)) in
      Some ({| d_bd := d_bd s; d_disk := fold_left (fun acc d => add_path d acc) ds (d_disk s) |}, URegister ds)
  | URegister ds =>
      let '(b, _) := bd_started (d_bd s) (t_path t) ds in Some ({| d_bd := b; d_disk := d_disk s |}, UEnd)
  | UEnd => if t_ok t then Some (s, UDone)
            else match seg_fail s (t_path t) with Some s' => Some (s', UDone) | None => None end
  | UDone => Some (s, UDone)
  end.

Fixpoint urun_sched (base : list path) (sched : list nat) (c : dstate * list (thread * ustep)) : option (dstate * list (thread * ustep)) :=
  match sched with
  | [] => Some c
  | i :: rest =>
      let '(s, ts) := c in
      match nth_error ts i with
      | None => urun_sched base rest c
      | Some (t, pc) =>
          match ustep_thread base s t pc with
          | None => None
          | Some (s', pc') => urun_sched base rest (s', update_nth i (t, pc') ts)
          end
      end
  end.

Definition uinit (ts : list thread) : dstate * list (thread * ustep) :=
  ({| d_bd := bd_init [] []; d_disk := [] |}, map (fun t => (t, UDecide)) ts).

(* ------------------------------------------------------------------ (c) finished flag *)
Record bstate := { b_finished : bool; b_subs : list nat }.     (* records identified by a number *)
Inductive fstep :=
| FCheck (r : nat)        (* _assert_not_finished at the start of a public method *)
| FAppend (r : nat)       (* with _lock: _assert_not_finished(); suboperations.append(r) *)
| FClose.                 (* with _lock: is_finished = True *)
(* result of a straggler's call: None = still running, Some true = returned normally, Some false = RuntimeError *)
Definition fstep_run (s : bstate) (res : option bool) (st : fstep) : bstate * option bool :=
  match st with
  | FClose => ({| b_finished := true; b_subs := b_subs s |}, res)
  | FCheck _ => match res with
                | Some _ => (s, res)
                | None => if b_finished s then (s, Some false) else (s, None)
                end
  | FAppend r => match res with
                 | Some _ => (s, res)
                 | None => if b_finished s then (s, Some false)
                           else ({| b_finished := false; b_subs := b_subs s ++ [r] |}, Some true)
                 end
  end.
Definition frun (l : list fstep) : bstate * option bool :=
  fold_left (fun acc st => fstep_run (fst acc) (snd acc) st) l ({| b_finished := false; b_subs := [] |}, None).
