(* Model/Alias.v — the by-value boundary (C11): a heap of Python objects; user
   code holds some roots, the cache records hold others; a value crossing an
   API edge is copied according to the edge's kind (generated table Gen/Edges.v);
   user code may mutate in place anything it can reach. *)
From Coq Require Import List String ZArith Bool Arith.
From FB.Gen Require Import Edges.
Import ListNotations.
Open Scope list_scope.

Definition loc := nat.
Inductive hval :=
| HAtom (z : Z)                          (* immutable: None, bool, int, float, str *)
| HList (l : list loc)
| HDict (d : list (string * loc)).

Definition children (v : hval) : list loc :=
  match v with HAtom _ => [] | HList l => l | HDict d => map snd d end.

(* the heap: location i holds [nth i h]; allocation appends *)
Definition heap := list hval.
Definition hget (h : heap) (l : loc) : option hval := nth_error h l.
Definition hset (h : heap) (l : loc) (v : hval) : heap :=
  (fix go (i : nat) (h : heap) : heap :=
     match h with
     | [] => []
     | x :: r => if Nat.eqb i l then v :: r else x :: go (S i) r
     end) 0 h.
Definition halloc (h : heap) (v : hval) : heap * loc := (h ++ [v], List.length h).

Inductive reach (h : heap) : loc -> loc -> Prop :=
| reach_refl : forall l, l < List.length h -> reach h l l
| reach_step : forall l v c l', hget h l = Some v -> In c (children v) -> reach h c l' -> reach h l l'.

(* copy.deepcopy / JsonUtil.sanitize: a fresh copy of everything reachable
   (values are finite trees; fuel bounds the depth) *)
Fixpoint deep_copy (fuel : nat) (h : heap) (l : loc) : heap * loc :=
  match fuel with
  | O => halloc h (HAtom 0)
  | S f =>
      match hget h l with
      | None => halloc h (HAtom 0)
      | Some (HAtom z) => halloc h (HAtom z)
      | Some (HList cs) =>
          let '(h', cs') := fold_left (fun acc c => let '(hh, out) := acc in
                                                     let '(hh', c') := deep_copy f hh c in (hh', out ++ [c']))
                                      cs (h, []) in
          halloc h' (HList cs')
      | Some (HDict d) =>
          let '(h', d') := fold_left (fun acc kc => let '(hh, out) := acc in
                                                      let '(hh', c') := deep_copy f hh (snd kc) in (hh', out ++ [(fst kc, c')]))
                                      d (h, []) in
          halloc h' (HDict d')
      end
  end.

(* list(x) / dict(x): a fresh top-level object sharing the children *)
Definition shallow_copy (h : heap) (l : loc) : heap * loc :=
  match hget h l with
  | Some v => halloc h v
  | None => halloc h (HAtom 0)
  end.

Definition cross (k : edge_kind) (fuel : nat) (h : heap) (l : loc) : heap * loc :=
  match k with
  | Deep => deep_copy fuel h l
  | Shallow => shallow_copy h l
  | Alias => (h, l)
  end.

Record astate := { a_heap : heap; a_user : list loc; a_rec : list loc }.

Inductive astep :=
| SMutate (l : loc) (v : hval)       (* user code stores v into object l in place *)
| SNew (v : hval)                    (* user code builds a new object *)
| SIn (l : loc)                      (* a user value enters a record (argument, callee's return value) *)
| SOut (r : loc).                    (* a record value is handed to user code (arguments to the callee, return value, query result) *)

(* a step is legal when user code only touches what it can reach *)
Definition user_reach (s : astate) (l : loc) : Prop := exists u, In u (a_user s) /\ reach (a_heap s) u l.
Definition rec_reach (s : astate) (l : loc) : Prop := exists r, In r (a_rec s) /\ reach (a_heap s) r l.

Definition legal (s : astate) (st : astep) : Prop :=
  match st with
  | SMutate l v => user_reach s l /\ (forall c, In c (children v) -> user_reach s c) /\
                   (exists old, hget (a_heap s) l = Some old /\ match old with HAtom _ => False | _ => True end)
  | SNew v => forall c, In c (children v) -> user_reach s c
  | SIn l => user_reach s l
  | SOut r => rec_reach s r
  end.

Definition astep_run (kin kout : edge_kind) (fuel : nat) (s : astate) (st : astep) : astate :=
  match st with
  | SMutate l v => {| a_heap := hset (a_heap s) l v; a_user := a_user s; a_rec := a_rec s |}
  | SNew v => let '(h, l) := halloc (a_heap s) v in {| a_heap := h; a_user := l :: a_user s; a_rec := a_rec s |}
  | SIn l => let '(h, c) := cross kin fuel (a_heap s) l in {| a_heap := h; a_user := a_user s; a_rec := c :: a_rec s |}
  | SOut r => let '(h, c) := cross kout fuel (a_heap s) r in {| a_heap := h; a_user := c :: a_user s; a_rec := a_rec s |}
  end.

(* no object is reachable from both sides *)
Definition separated (s : astate) : Prop := forall l, user_reach s l -> rec_reach s l -> False.

(* every pointer in the heap points into the heap *)
Definition heap_closed (h : heap) : Prop :=
  forall l v c, hget h l = Some v -> In c (children v) -> c < List.length h.

(* depth of the structure below l is below the fuel (values are finite trees) *)
Inductive depth_le (h : heap) : nat -> loc -> Prop :=
| depth_intro : forall n l v, hget h l = Some v -> (forall c, In c (children v) -> depth_le h n c) -> depth_le h (S n) l.

Definition all_deep : bool := forallb (fun e => match snd e with Deep => true | _ => false end) edges.
