(* Model/PathNorm.v — FileBuilder._sanitize_filename on POSIX:
   str(os.path.abspath(os.fsdecode(filename))), i.e. posixpath.abspath =
   normpath(join(cwd, path)).  os.fsdecode (bytes / PathLike to str) is the
   identity on the text and is not modelled. *)
From Coq Require Import List String Ascii Bool Arith.
Import ListNotations.
Open Scope string_scope.

(* path.split('/') *)
Fixpoint split_on_slash (s : string) (cur : string) : list string :=
  match s with
  | EmptyString => [cur]
  | String c r =>
      if Ascii.eqb c "/"%char then cur :: split_on_slash r ""
      else split_on_slash r (cur ++ String c "")
  end.
Definition split_slash (s : string) : list string := split_on_slash s "".

Fixpoint join_slash (l : list string) : string :=
  match l with
  | [] => ""
  | [x] => x
  | x :: r => x ++ "/" ++ join_slash r
  end.

Definition starts_with (p s : string) : bool := String.prefix p s.

(* number of leading slashes kept by normpath: 0, 1 or 2 *)
Definition initial_slashes (s : string) : nat :=
  if starts_with "/" s then
    if starts_with "//" s && negb (starts_with "///" s) then 2 else 1
  else 0.

(* the component loop of posixpath.normpath; [acc] is new_comps reversed *)
Fixpoint norm_loop (rooted : bool) (comps : list string) (acc : list string) : list string :=
  match comps with
  | [] => rev acc
  | c :: r =>
      if String.eqb c "" || String.eqb c "." then norm_loop rooted r acc
      else if negb (String.eqb c "..") then norm_loop rooted r (c :: acc)
      else match acc with
           | [] => if rooted then norm_loop rooted r acc else norm_loop rooted r (c :: acc)
           | top :: acc' => if String.eqb top ".." then norm_loop rooted r (c :: acc)
                            else norm_loop rooted r acc'
           end
  end.

Definition norm_comps (rooted : bool) (comps : list string) : list string := norm_loop rooted comps [].

Definition slashes (n : nat) : string := match n with 0 => "" | 1 => "/" | _ => "//" end.

Definition normpath (s : string) : string :=
  if String.eqb s "" then "." else
  let n := initial_slashes s in
  let body := join_slash (norm_comps (negb (Nat.eqb n 0)) (split_slash s)) in
  let r := slashes n ++ body in
  if String.eqb r "" then "." else r.

(* posixpath.join(cwd, p) for a single p *)
Definition path_join (cwd p : string) : string :=
  if starts_with "/" p then p
  else if String.eqb cwd "" then p
  else if String.eqb (substring (String.length cwd - 1) 1 cwd) "/" then cwd ++ p
  else cwd ++ "/" ++ p.

Definition abspath (cwd s : string) : string :=
  normpath (if starts_with "/" s then s else path_join cwd s).

Fixpoint no_slash (s : string) : bool :=
  match s with
  | EmptyString => true
  | String c r => negb (Ascii.eqb c "/"%char) && no_slash r
  end.
