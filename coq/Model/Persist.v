(* Model/Persist.v — cache.py: Cache.write / Cache.read_immutable and the
   per-field (de)serialisation of operation records.  The text layer
   (json.dumps(sort_keys=True) + gzip + json.load) is modelled by its effect on
   values: [json_text_roundtrip] = sanitize, then sort every dict by key. *)
From Coq Require Import List String Ascii NArith ZArith Bool Arith.
From FB.Base Require Import PyVal Fs.
From FB.Gen Require Import JsonUtilGen.
From FB.Model Require Import Types Monad CreatedFiles BuildDirs SimpleOps Builder.
Import ListNotations.
Open Scope list_scope.
Open Scope string_scope.

(* ---- paths as strings ---- *)
Fixpoint split_slash_aux (s : string) (cur : string) (acc : list string) : list string :=
  match s with
  | EmptyString => cur :: acc
  | String c r =>
      if Ascii.eqb c "/"%char then split_slash_aux r "" (cur :: acc)
      else split_slash_aux r (cur ++ String c "") acc
  end.
(* "/a/b" -> ["b"; "a"];  "" -> [] *)
Definition str_path (s : string) : path :=
  match s with
  | EmptyString => []
  | String _ r => split_slash_aux r "" []      (* skip the leading "/" *)
  end.

Definition cmp_name (c : cmpmode) : string := match c with METADATA => "METADATA" | HASH => "HASH" end.
Definition cmp_of_name (s : string) : option cmpmode :=
  if String.eqb s "METADATA" then Some METADATA else if String.eqb s "HASH" then Some HASH else None.
Definition err_name (c : errclass) : string :=
  match c with
  | XFileNotFound => "FileNotFoundError" | XNotADirectory => "NotADirectoryError"
  | XIsADirectory => "IsADirectoryError" | XFileExists => "FileExistsError" | XOSError => "OSError"
  end.
Definition err_of_name (s : string) : option errclass :=
  if String.eqb s "FileNotFoundError" then Some XFileNotFound
  else if String.eqb s "NotADirectoryError" then Some XNotADirectory
  else if String.eqb s "IsADirectoryError" then Some XIsADirectory
  else if String.eqb s "FileExistsError" then Some XFileExists
  else if String.eqb s "OSError" then Some XOSError else None.

Definition pstr_path (p : path) : pyval := PStr (path_str p).

Definition query_name (q : query) : string :=
  match q with
  | QExists _ => "exists" | QIsFile _ => "is_file" | QIsDir _ => "is_dir" | QListDir _ => "list_dir"
  | QWalk _ _ => "walk" | QGetSize _ => "get_size" | QRead _ _ => "read"
  end.
Definition query_args (q : query) : list pyval :=
  match q with
  | QExists p | QIsFile p | QIsDir p | QListDir p | QGetSize p => [pstr_path p]
  | QWalk p td => [pstr_path p; PBool td]
  | QRead p c => [pstr_path p; PStr (cmp_name c)]
  end.
Definition query_of (nm : string) (args : list pyval) : option query :=
  match args with
  | [PStr s] =>
      let p := str_path s in
      if String.eqb nm "exists" then Some (QExists p)
      else if String.eqb nm "is_file" then Some (QIsFile p)
      else if String.eqb nm "is_dir" then Some (QIsDir p)
      else if String.eqb nm "list_dir" then Some (QListDir p)
      else if String.eqb nm "get_size" then Some (QGetSize p)
      else None
  | [PStr s; PBool td] => if String.eqb nm "walk" then Some (QWalk (str_path s) td) else None
  | [PStr s; PStr c] =>
      if String.eqb nm "read" then option_map (QRead (str_path s)) (cmp_of_name c) else None
  | _ => None
  end.

(* ---- _operation_to_json ---- *)
Fixpoint op_to_json (o : op) : pyval :=
  match o with
  | OSimple q ret_ ex =>
      PDict ([(PStr "args", PList (query_args q)); (PStr "returnValue", ret_); (PStr "type", PStr (query_name q))]
             ++ match ex with Some c => [(PStr "exceptionType", PStr (err_name c))] | None => [] end)
  | OBuildFile p c fname a k subs ret_ cmpres raised sf =>
      PDict ([(PStr "args", a); (PStr "funcName", PStr fname); (PStr "kwargs", k); (PStr "returnValue", ret_);
              (PStr "suboperations", PList (map op_to_json subs))]
             ++ (if raised then [(PStr "raised", PBool true)] else [])
             ++ (if sf then [(PStr "setupFailed", PBool true)] else [])
             ++ [(PStr "type", PStr "build_file"); (PStr "filename", pstr_path p);
                 (PStr "fileComparison", PStr (cmp_name c)); (PStr "fileComparisonResult", cmpres)])
  | OSubbuild fname a k subs ret_ raised sf =>
      PDict ([(PStr "args", a); (PStr "funcName", PStr fname); (PStr "kwargs", k); (PStr "returnValue", ret_);
              (PStr "suboperations", PList (map op_to_json subs))]
             ++ (if raised then [(PStr "raised", PBool true)] else [])
             ++ (if sf then [(PStr "setupFailed", PBool true)] else [])
             ++ [(PStr "type", PStr "subbuild")])
  end.

(* ---- the text layer ---- *)
Fixpoint sort_deep (v : pyval) : pyval :=
  match v with
  | PList l => PList (map sort_deep l)
  | PTuple l => PTuple (map sort_deep l)
  | PDict d => PDict (sort_items (map (fun kv => match kv with (k, x) => (k, sort_deep x) end) d))
  | _ => v
  end.
Definition json_text_roundtrip (v : pyval) : option pyval := option_map sort_deep (sanitize v).

(* ---- _operation_from_json ----
   [conv v] interprets v both as one operation (fst) and as a list of
   operations (snd), so that the recursion stays structural. *)
Definition dget (k : string) (d : list (pyval * (pyval * (option op * option (list op))))) :=
  (fix go l := match l with
               | [] => None
               | (PStr k', x) :: r => if String.eqb k k' then Some x else go r
               | _ :: r => go r
               end) d.

Definition sequence {A} (l : list (option A)) : option (list A) :=
  fold_right (fun o acc => match o, acc with Some x, Some r => Some (x :: r) | _, _ => None end) (Some []) l.

Fixpoint conv (v : pyval) : option op * option (list op) :=
  match v with
  | PList l => (None, sequence (map (fun x => fst (conv x)) l))
  | PDict d =>
      let cd := map (fun kv => match kv with (k, x) => (k, (x, conv x)) end) d in
      let raw k := option_map fst (dget k cd) in
      let flag k := match raw k with Some (PBool b) => b | _ => false end in
      (match raw "type" with
       | Some (PStr ty) =>
           if String.eqb ty "build_file" then
             match raw "filename", raw "fileComparison", raw "funcName", raw "args", raw "kwargs",
                   dget "suboperations" cd, raw "returnValue", raw "fileComparisonResult" with
             | Some (PStr fnm), Some (PStr cn), Some (PStr fname), Some a, Some k,
               Some (_, (_, Some subs)), Some r, Some cr =>
                 match cmp_of_name cn with
                 | Some c => Some (OBuildFile (str_path fnm) c fname a k subs r cr (flag "raised") (flag "setupFailed"))
                 | None => None
                 end
             | _, _, _, _, _, _, _, _ => None
             end
           else if String.eqb ty "subbuild" then
             match raw "funcName", raw "args", raw "kwargs", dget "suboperations" cd, raw "returnValue" with
             | Some (PStr fname), Some a, Some k, Some (_, (_, Some subs)), Some r =>
                 Some (OSubbuild fname a k subs r (flag "raised") (flag "setupFailed"))
             | _, _, _, _, _ => None
             end
           else
             match raw "args", raw "returnValue" with
             | Some (PList args), Some r =>
                 match query_of ty args with
                 | Some q =>
                     match raw "exceptionType" with
                     | None => Some (OSimple q r None)
                     | Some (PStr en) => option_map (fun c => OSimple q r (Some c)) (err_of_name en)
                     | Some PNone => Some (OSimple q r None)
                     | Some _ => None
                     end
                 | None => None
                 end
             | _, _ => None
             end
       | _ => None
       end, None)
  | _ => (None, None)
  end.

Definition op_of_json (v : pyval) : option op := fst (conv v).

(* registration order of _operation_from_json: children first, then the node *)
Fixpoint register_parsed (c : cache) (o : op) : cache :=
  match o with
  | OSimple _ _ _ => c
  | OBuildFile p _ _ _ _ subs _ _ _ sf =>
      let c1 := fold_left register_parsed subs c in
      if sf then c1 else cache_with c1 (files_set (c_files c1) p (Some o)) (c_subs c1) (c_dirs c1) (c_built c1)
  | OSubbuild f a k subs _ _ sf =>
      let c1 := fold_left register_parsed subs c in
      if sf then c1 else cache_with c1 (c_files c1) (subs_set (c_subs c1) (subbuild_key f a k) (Some o)) (c_dirs c1) (c_built c1)
  end.

Inductive readres := ReadOk (c : cache) | ReadRuntime | ReadMalformed.

Definition top_get (k : string) (d : list (pyval * pyval)) : option pyval := assoc_get (PStr k) d.

(* Cache.read_immutable on the JSON value held by the file *)
Definition cache_of_json (j : option pyval) : readres :=
  match j with
  | None => ReadRuntime                                   (* not gzip / truncated / not JSON *)
  | Some (PDict d) =>
      match top_get "software" d with
      | Some (PStr s) =>
          if negb (String.eqb s "file_builder") then ReadRuntime else
          match top_get "cacheFileVersion" d with
          | None => ReadMalformed                         (* KeyError *)
          | Some ver =>
              if negb (is_equal ver PNone) then ReadRuntime else
              match top_get "rootOperations" d, top_get "buildName" d, top_get "createdDirs" d,
                    top_get "funcVersions" d, top_get "operationVersions" d with
              | Some (PList roots), Some (PStr nm), Some (PList dirs), Some fv, Some _ =>
                  match sequence (map op_of_json roots),
                        sequence (map (fun x => match x with PStr s => Some (str_path s) | _ => None end) dirs) with
                  | Some ops, Some ds =>
                      let c0 := {| c_name := nm; c_files := []; c_subs := []; c_dirs := fold_left (fun acc p => add_path p acc) ds [];
                                   c_fvers := fv; c_built := [] |} in
                      ReadOk (fold_left register_parsed ops c0)
                  | _, _ => ReadMalformed
                  end
              | _, _, _, _, _ => ReadMalformed
              end
          end
      | _ => ReadRuntime
      end
  | Some _ => ReadRuntime
  end.

(* ---- Cache.write ---- *)
Fixpoint list_same {A} (f : A -> A -> bool) (a b : list A) : bool :=
  match a, b with
  | [], [] => true
  | x :: a', y :: b' => f x y && list_same f a' b'
  | _, _ => false
  end.
Definition query_eqb (a b : query) : bool :=
  String.eqb (query_name a) (query_name b) && list_same pyval_same (query_args a) (query_args b).
Definition oerr_eqb (a b : option errclass) : bool :=
  match a, b with None, None => true | Some x, Some y => errclass_eqb x y | _, _ => false end.

Fixpoint op_eqb (a b : op) {struct a} : bool :=
  let subs_eqb :=
    fix go (xs ys : list op) : bool :=
      match xs, ys with
      | [], [] => true
      | x :: xs', y :: ys' => op_eqb x y && go xs' ys'
      | _, _ => false
      end in
  match a, b with
  | OSimple q r e, OSimple q' r' e' => query_eqb q q' && pyval_same r r' && oerr_eqb e e'
  | OBuildFile p c f a1 k1 s r cr ra sf, OBuildFile p' c' f' a1' k1' s' r' cr' ra' sf' =>
      path_eqb p p' && cmp_eqb c c' && String.eqb f f' && pyval_same a1 a1' && pyval_same k1 k1' &&
      subs_eqb s s' && pyval_same r r' && pyval_same cr cr' && Bool.eqb ra ra' && Bool.eqb sf sf'
  | OSubbuild f a1 k1 s r ra sf, OSubbuild f' a1' k1' s' r' ra' sf' =>
      String.eqb f f' && pyval_same a1 a1' && pyval_same k1 k1' && subs_eqb s s' && pyval_same r r' &&
      Bool.eqb ra ra' && Bool.eqb sf sf'
  | _, _ => false
  end.

(* None = an entry is still in progress (AttributeError in write) *)
Definition cache_operations (c : cache) : option (list op) :=
  sequence (map snd (c_files c) ++ map snd (c_subs c)).

Definition root_operations (ops : list op) : list op :=
  let non_root := flat_map op_subs ops in
  filter (fun o => negb (existsb (op_eqb o) non_root)) ops.

Definition cache_to_json (c : cache) : option pyval :=
  match cache_operations c with
  | None => None
  | Some ops =>
      json_text_roundtrip
        (PDict [(PStr "buildName", PStr (c_name c)); (PStr "cacheFileVersion", PNone);
                (PStr "createdDirs", PList (map pstr_path (c_dirs c)));
                (PStr "funcVersions", c_fvers c); (PStr "operationVersions", PDict []);
                (PStr "rootOperations", PList (map op_to_json (root_operations ops)));
                (PStr "software", PStr "file_builder")])
  end.

Definition empty_cache (nm : string) (fv : pyval) : cache :=
  {| c_name := nm; c_files := []; c_subs := []; c_dirs := []; c_fvers := fv; c_built := [] |}.

(* created_files(): insertion order of the files dict *)
Definition cache_created_files (c : cache) : list path :=
  flat_map (fun e => match snd e with Some o => if op_raised o then [] else [fst e] | None => [] end) (c_files c).
