(* Model/Monad.v — state + exception monad over [world]: Python's implicit
   state and try/except, made explicit. *)
From Coq Require Import List String NArith Arith Bool.
From FB.Base Require Import PyVal Fs.
From FB.Model Require Import Types.
Import ListNotations.

Definition M (A : Type) : Type := world -> world * (A + exn).

Definition ret {A} (a : A) : M A := fun w => (w, inl a).
Definition raise {A} (e : exn) : M A := fun w => (w, inr e).
Definition bind {A B} (m : M A) (f : A -> M B) : M B :=
  fun w => match m w with
           | (w', inl a) => f a w'
           | (w', inr e) => (w', inr e)
           end.
(* try: m  except Exception as e: h e *)
Definition catch {A} (m : M A) (h : exn -> M A) : M A :=
  fun w => match m w with
           | (w', inl a) => (w', inl a)
           | (w', inr e) => h e w'
           end.
(* try: m  finally: fin   (fin cannot fail in the modelled code) *)
Definition finally {A} (m : M A) (fin : M unit) : M A :=
  fun w => match m w with
           | (w', r) => match fin w' with
                        | (w'', inl _) => (w'', r)
                        | (w'', inr e) => (w'', inr e)
                        end
           end.
Definition get : M world := fun w => (w, inl w).
Definition put (w : world) : M unit := fun _ => (w, inl tt).
Definition modify (f : world -> world) : M unit := fun w => (f w, inl tt).
Definition attempt {A} (m : M A) : M (A + exn) :=
  fun w => match m w with (w', r) => (w', inl r) end.

Declare Scope m_scope.
Delimit Scope m_scope with m.
Notation "x <- m ;; k" := (bind m (fun x => k)) (at level 61, m at next level, right associativity) : m_scope.
Notation "m ;;; k" := (bind m (fun _ => k)) (at level 61, right associativity) : m_scope.
Open Scope m_scope.

Fixpoint mapM_ {A} (f : A -> M unit) (l : list A) : M unit :=
  match l with
  | [] => ret tt
  | x :: r => f x ;;; mapM_ f r
  end.

(* field updates *)
Definition set_fs (f : fsT) (w : world) : world :=
  {| w_fs := f; w_clock := w_clock w; w_nextid := w_nextid w; w_old := w_old w; w_new := w_new w;
     w_bd := w_bd w; w_backups := w_backups w; w_lost := w_lost w; w_hash := w_hash w;
     w_cachefile := w_cachefile w; w_log := w_log w; w_faults := w_faults w; w_effects := w_effects w |}.
Definition set_new (c : cache) (w : world) : world :=
  {| w_fs := w_fs w; w_clock := w_clock w; w_nextid := w_nextid w; w_old := w_old w; w_new := c;
     w_bd := w_bd w; w_backups := w_backups w; w_lost := w_lost w; w_hash := w_hash w;
     w_cachefile := w_cachefile w; w_log := w_log w; w_faults := w_faults w; w_effects := w_effects w |}.
Definition set_bd (b : bdirs) (w : world) : world :=
  {| w_fs := w_fs w; w_clock := w_clock w; w_nextid := w_nextid w; w_old := w_old w; w_new := w_new w;
     w_bd := b; w_backups := w_backups w; w_lost := w_lost w; w_hash := w_hash w;
     w_cachefile := w_cachefile w; w_log := w_log w; w_faults := w_faults w; w_effects := w_effects w |}.
Definition set_backups (b : list (path * fnode)) (w : world) : world :=
  {| w_fs := w_fs w; w_clock := w_clock w; w_nextid := w_nextid w; w_old := w_old w; w_new := w_new w;
     w_bd := w_bd w; w_backups := b; w_lost := w_lost w; w_hash := w_hash w;
     w_cachefile := w_cachefile w; w_log := w_log w; w_faults := w_faults w; w_effects := w_effects w |}.
Definition set_lost (l : list path) (w : world) : world :=
  {| w_fs := w_fs w; w_clock := w_clock w; w_nextid := w_nextid w; w_old := w_old w; w_new := w_new w;
     w_bd := w_bd w; w_backups := w_backups w; w_lost := l; w_hash := w_hash w;
     w_cachefile := w_cachefile w; w_log := w_log w; w_faults := w_faults w; w_effects := w_effects w |}.
Definition set_hash (h : list (path * (pyval * bool))) (w : world) : world :=
  {| w_fs := w_fs w; w_clock := w_clock w; w_nextid := w_nextid w; w_old := w_old w; w_new := w_new w;
     w_bd := w_bd w; w_backups := w_backups w; w_lost := w_lost w; w_hash := h;
     w_cachefile := w_cachefile w; w_log := w_log w; w_faults := w_faults w; w_effects := w_effects w |}.
Definition set_log (l : list logentry) (w : world) : world :=
  {| w_fs := w_fs w; w_clock := w_clock w; w_nextid := w_nextid w; w_old := w_old w; w_new := w_new w;
     w_bd := w_bd w; w_backups := w_backups w; w_lost := w_lost w; w_hash := w_hash w;
     w_cachefile := w_cachefile w; w_log := l; w_faults := w_faults w; w_effects := w_effects w |}.
Definition set_clock (c n : N) (w : world) : world :=
  {| w_fs := w_fs w; w_clock := c; w_nextid := n; w_old := w_old w; w_new := w_new w;
     w_bd := w_bd w; w_backups := w_backups w; w_lost := w_lost w; w_hash := w_hash w;
     w_cachefile := w_cachefile w; w_log := w_log w; w_faults := w_faults w; w_effects := w_effects w |}.
Definition set_effects (n : nat) (w : world) : world :=
  {| w_fs := w_fs w; w_clock := w_clock w; w_nextid := w_nextid w; w_old := w_old w; w_new := w_new w;
     w_bd := w_bd w; w_backups := w_backups w; w_lost := w_lost w; w_hash := w_hash w;
     w_cachefile := w_cachefile w; w_log := w_log w; w_faults := w_faults w; w_effects := n |}.

Definition log (e : logentry) : M unit := modify (fun w => set_log (e :: w_log w) w).

(* every mutating system call goes through [effect]: it is numbered, can be made
   to fail by the fault list (C14), and is logged (C02/C03 frame reasoning) *)
Definition effect (what : string) (p : path) (f : fsT -> fsT + oserr) : M unit :=
  fun w =>
    let n := w_effects w in
    let w1 := set_effects (S n) w in
    if existsb (Nat.eqb n) (w_faults w) then (w1, inr (XOS XOSError))
    else match f (w_fs w1) with
         | inl fs' => (set_log (LEffect what p :: w_log w1) (set_fs fs' w1), inl tt)
         | inr e => (w1, inr (XOS (err_of e)))
         end.

(* a mutating call that may fail after having changed the tree (os.makedirs) *)
Definition effect_p (what : string) (p : path) (f : fsT -> fsT * option oserr) : M unit :=
  fun w =>
    let n := w_effects w in
    let w1 := set_effects (S n) w in
    if existsb (Nat.eqb n) (w_faults w) then (w1, inr (XOS XOSError))
    else match f (w_fs w1) with
         | (fs', None) => (set_log (LEffect what p :: w_log w1) (set_fs fs' w1), inl tt)
         | (fs', Some e) => (set_log (LEffect what p :: w_log w1) (set_fs fs' w1), inr (XOS (err_of e)))
         end.

Definition is_os (e : exn) : bool := match e with XOS _ => true | _ => false end.
Definition is_os_class (c : errclass) (e : exn) : bool :=
  match e with XOS c' => errclass_eqb c c' | _ => false end.
