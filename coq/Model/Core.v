(* Model/Core.v — the cache logic of file_builder over the SPECIFICATION's tree.
   Like Spec/Ref.v, the state is the visible tree T (previous outputs, cache
   file and emptied created directories already gone) — but build_file and
   subbuild first try to serve the call from the previous build's records, with
   the lookup and replay conditions of file_builder.py (_build_file_cache_lookup,
   _subbuild_cache_lookup, _is_*_operation_cached), evaluated on T and on a
   scratch copy of T instead of BuildDirs / CreatedFiles.  The old outputs that
   are still on disk but not visible are kept aside ([k_stale]); a hit moves them
   into T unchanged (same bytes, mtime, inode).
   Core is "the implementation with an ideal virtual file system"; C01 is proved
   as Core == Ref (Proofs/CoreLaws.v), and Core is tied to the implementation by
   the same correspondence runs as the mechanism model. *)
From Coq Require Import List String NArith ZArith Bool Arith.
From FB.Base Require Import PyVal Fs.
From FB.Gen Require Import JsonUtilGen.
From FB.Spec Require Import Prog Ref.
From FB.Model Require Import Types SimpleOps Builder Persist.
Import ListNotations.
Open Scope list_scope.

Record kstate := {
  k_fs : fsT;                          (* T: the visible tree *)
  k_stale : list (path * fnode);       (* previous outputs still on disk, not visible *)
  k_staledirs : list path;             (* previous build's directories still on disk, not visible *)
  k_claimedF : list path;
  k_claimedS : list pyval;
  k_need : list path;
  k_made : list path;
  k_clock : N;
  k_nextid : N;
  k_log : list logentry;               (* newest first *)
  k_cachefile : path;
  k_old : cache;                       (* records of the previous committed build *)
  k_vers : pyval;                      (* versions of this build *)
  k_newF : list (path * op);           (* records of this build, in registration order *)
  k_newS : list (pyval * op);
}.

Definition ks_with (s : kstate) fs stale cf cs need made clock nextid lg nf ns : kstate :=
  {| k_fs := fs; k_stale := stale; k_staledirs := k_staledirs s; k_claimedF := cf; k_claimedS := cs; k_need := need; k_made := made;
     k_clock := clock; k_nextid := nextid; k_log := lg; k_cachefile := k_cachefile s; k_old := k_old s;
     k_vers := k_vers s; k_newF := nf; k_newS := ns |}.

Definition klog (e : logentry) (s : kstate) : kstate :=
  ks_with s (k_fs s) (k_stale s) (k_claimedF s) (k_claimedS s) (k_need s) (k_made s) (k_clock s) (k_nextid s)
          (e :: k_log s) (k_newF s) (k_newS s).

Fixpoint stale_get (l : list (path * fnode)) (p : path) : option fnode :=
  match l with [] => None | (q, f) :: r => if path_eqb q p then Some f else stale_get r p end.
Fixpoint stale_del (l : list (path * fnode)) (p : path) : list (path * fnode) :=
  match l with [] => [] | (q, f) :: r => if path_eqb q p then stale_del r p else (q, f) :: stale_del r p end.

(* the regular file physically at p: a visible one, or a stale previous output *)
Definition phys (fs : fsT) (stale : list (path * fnode)) (p : path) : option fnode :=
  match lookup fs p with
  | Some (NFile f) => Some f
  | Some NDir => None
  | None => stale_get stale p
  end.

(* comparison results of a file node *)
Definition cmp_of (c : cmpmode) (f : fnode) : pyval :=
  match c with
  | METADATA => PDict [(PStr "size", PInt (Z.of_nat (String.length (f_bytes f))));
                       (PStr "timeNs", PInt (Z.of_N (f_mtime f)))]
  | HASH => hash_of (f_bytes f)
  end.

Definition kversion_equal (s : kstate) (fname : string) : bool :=
  is_equal (func_version (k_old s) fname) (py_dict_get (PStr fname) (k_vers s)).

(* what a query RECORDS (the raw result of the executor): like the plain answer, except that
   read records the comparison result; the class for an absent path follows the path walk *)
Definition record_answer (fs : fsT) (q : query) : pyval + errclass :=
  match q with
  | QRead p c =>
      match lookup fs p with
      | Some (NFile f) => inl (cmp_of c f)
      | Some NDir => inr XIsADirectory
      | None => inr (match stat_err fs p with EOTHER => XOSError | _ => XFileNotFound end)
      end
  | _ => spec_answer_raw fs q
  end.

Definition record_of (q : query) (a : pyval + errclass) : op :=
  match a with inl v => OSimple q v None | inr c => OSimple q PNone (Some c) end.

(* scratch state of a replay: a copy of the tree, the directories made and targets needed so far *)
Record rstate' := { rp_fs : fsT; rp_need : list path; rp_made : list path; rp_claimedF : list path; rp_claimedS : list pyval }.

Definition rp_prune (r : rstate') (p : path) : rstate' :=
  let need := del_path p (rp_need r) in
  let dead := filter (fun d => is_ancestor d p && negb (existsb (is_ancestor d) need)) (rp_made r) in
  {| rp_fs := fold_left try_rmdir (deepest_first dead) (rp_fs r); rp_need := need;
     rp_made := filter (fun d => negb (mem_path d dead)) (rp_made r);
     rp_claimedF := rp_claimedF r; rp_claimedS := rp_claimedS r |}.

(* answers given during a replay *)
Definition replay_answer (r : rstate') (q : query) : pyval + errclass := record_answer (rp_fs r) q.

(* anything physically at p: visible, a stale output, or a stale directory *)
Definition phys_exists (s : kstate) (p : path) : bool :=
  lexists (k_fs s) p || match stale_get (k_stale s) p with Some _ => true | None => false end || mem_path p (k_staledirs s).

(* _is_*_operation_cached on the scratch copy.  Returns the updated scratch state. *)
Fixpoint kreplay (s : kstate) (o : op) (r : rstate') {struct o} : option rstate' :=
  let subs_ok :=
    fix go (subs : list op) (r : rstate') {struct subs} : option rstate' :=
      match subs with
      | [] => Some r
      | x :: rest => match kreplay s x r with Some r' => go rest r' | None => None end
      end in
  match o with
  | OSimple q ret_ ex =>
      match replay_answer r q, ex with
      | inl v, None => if is_equal v ret_ then Some r else None
      | inr c, Some c' => if is_equal PNone ret_ && errclass_eqb c c' then Some r else None
      | _, _ => None
      end
  | OBuildFile p c fname _ _ subs _ cmpres raised sf =>
      if negb (kversion_equal s fname) then None else
      if sf then None else
      (* the output recorded must be on disk, unchanged; a failure must have left the path free *)
      let onpath := phys (k_fs s) (k_stale s) p in
      if (if raised then negb (phys_exists s p)
          else match onpath with Some f => is_equal cmpres (cmp_of c f) | None => false end)
      then
        if mem_path p (rp_claimedF r) || path_eqb p (k_cachefile s) then None else
        match missing_dirs (rp_fs r) (k_cachefile s) (dirname p) with
        | inr _ => None
        | inl dirs =>
            match mkdir_all (rp_fs r) dirs with
            | inr _ => None
            | inl fs1 =>
                let r1 := {| rp_fs := try_remove fs1 p; rp_need := p :: rp_need r; rp_made := rp_made r ++ dirs;
                             rp_claimedF := rp_claimedF r; rp_claimedS := rp_claimedS r |} in
                match subs_ok subs r1 with
                | None => None
                | Some r2 =>
                    if raised then Some (rp_prune r2 p)
                    else match onpath with
                         | Some f => Some {| rp_fs := upd p (Some (NFile f)) (rp_fs r2); rp_need := rp_need r2;
                                             rp_made := rp_made r2; rp_claimedF := rp_claimedF r2; rp_claimedS := rp_claimedS r2 |}
                         | None => None
                         end
                end
            end
        end
      else None
  | OSubbuild fname a k subs _ raised sf =>
      if negb (kversion_equal s fname) || sf then None else
      if existsb (py_eq (subbuild_key fname a k)) (rp_claimedS r) then None else
      subs_ok subs r
  end.

Fixpoint kreplay_list (s : kstate) (subs : list op) (r : rstate') : option rstate' :=
  match subs with
  | [] => Some r
  | x :: rest => match kreplay s x r with Some r' => kreplay_list s rest r' | None => None end
  end.

(* keys claimed by adopting a cached subtree (Cache._use_cached_operation) *)
Fixpoint tree_claims (o : op) : list path * list pyval :=
  match o with
  | OSimple _ _ _ => ([], [])
  | OBuildFile p _ _ _ _ subs _ _ _ sf =>
      let rest := fold_left (fun acc x => let c := tree_claims x in (fst acc ++ fst c, snd acc ++ snd c)) subs ([], []) in
      if sf then rest else (p :: fst rest, snd rest)
  | OSubbuild f a k subs _ _ sf =>
      let rest := fold_left (fun acc x => let c := tree_claims x in (fst acc ++ fst c, snd acc ++ snd c)) subs ([], []) in
      if sf then rest else (fst rest, subbuild_key f a k :: snd rest)
  end.

(* the non-raised outputs of a cached subtree: they leave the stale store when the tree is adopted *)
Fixpoint tree_outputs (o : op) : list path :=
  match o with
  | OSimple _ _ _ => []
  | OBuildFile p _ _ _ _ subs _ _ raised _ => (if raised then [] else [p]) ++ flat_map tree_outputs subs
  | OSubbuild _ _ _ subs _ _ _ => flat_map tree_outputs subs
  end.

Definition start_replay (s : kstate) : rstate' :=
  {| rp_fs := k_fs s; rp_need := k_need s; rp_made := k_made s; rp_claimedF := k_claimedF s; rp_claimedS := k_claimedS s |}.

(* records registered by adopting a cached subtree (Cache._use_cached_operation), in its order *)
Fixpoint tree_regs (o : op) : list (path * op) * list (pyval * op) :=
  match o with
  | OSimple _ _ _ => ([], [])
  | OBuildFile p _ _ _ _ subs _ _ _ sf =>
      let rest := fold_left (fun acc x => let c := tree_regs x in (fst acc ++ fst c, snd acc ++ snd c)) subs ([], []) in
      if sf then rest else ((p, o) :: fst rest, snd rest)
  | OSubbuild f a k subs _ _ sf =>
      let rest := fold_left (fun acc x => let c := tree_regs x in (fst acc ++ fst c, snd acc ++ snd c)) subs ([], []) in
      if sf then rest else (fst rest, (subbuild_key f a k, o) :: snd rest)
  end.

(* adopt the scratch copy: the tree, the claims and the records of the subtree *)
Definition adopt (s : kstate) (r : rstate') (o : op) : kstate :=
  let cl := tree_claims o in
  let regs := tree_regs o in
  let stale' := fold_left stale_del (tree_outputs o) (k_stale s) in
  ks_with s (rp_fs r) stale' (fst cl ++ k_claimedF s) (snd cl ++ k_claimedS s) (rp_need r) (rp_made r)
          (k_clock s) (k_nextid s) (k_log s) (k_newF s ++ fst regs) (k_newS s ++ snd regs).

Definition app_op (subs : list op) (o : option op) : list op :=
  match o with Some x => subs ++ [x] | None => subs end.

(* [subs]: the records appended to the current builder so far *)
Fixpoint core_run (pr : prog) (target : option path) (pending : option string) (subs : list op) (s : kstate) {struct pr}
  : kstate * (outcome * option string * list op) :=
  match pr with
  | Ret v => (s, (inl v, pending, subs))
  | Raise e => (s, (inr e, pending, subs))
  | Ask stale q k =>
      if stale then core_run (k (inr (XRuntime RFinished))) target pending subs s else
      let o := record_of q (record_answer (k_fs s) q) in
      match spec_answer (k_fs s) q with
      | inl v => core_run (k (inl v)) target pending (subs ++ [o]) (klog (LAnswer q (inl v)) s)
      | inr c => core_run (k (inr (XOS c))) target pending (subs ++ [o]) (klog (LAnswer q (inr c)) s)
      end
  | Write c k =>
      match target with
      | None => core_run k target pending subs s
      | Some p =>
          if path_ok p then
            core_run k target (Some c) subs
                     (ks_with s (k_fs s) (k_stale s) (k_claimedF s) (k_claimedS s) (k_need s) (k_made s)
                              (N.succ (k_clock s)) (k_nextid s) (k_log s) (k_newF s) (k_newS s))
          else (s, (inr (XOS XOSError), pending, subs))
      end
  | BuildFile stale p c fname a kw fn k =>
      if stale then core_run (k (inr (XRuntime RFinished))) target pending subs s else
      match sanitize a, sanitize kw with
      | Some sa, Some skw =>
          let mk sb ret_ cmpres raised sf := OBuildFile p c fname sa skw sb ret_ cmpres raised sf in
          let sfail (e : exn) := core_run (k (inr e)) target pending (subs ++ [mk [] PNone PNone true true]) s in
          if mem_path p (k_claimedF s) then sfail (XRuntime RDupFile) else
          if path_eqb p (k_cachefile s) then sfail (XRuntime RCacheFileTarget) else
          if isdir (k_fs s) p then sfail (XOS XIsADirectory) else
          match missing_dirs (k_fs s) (k_cachefile s) (dirname p) with
          | inr c' => sfail (XOS c')
          | inl dirs =>
              match mkdir_all (k_fs s) dirs with
              | inr e => sfail (XOS (err_of e))
              | inl fs1 =>
                  (* directories exist from here on; the target is reserved *)
                  let s0 := ks_with s fs1 (k_stale s) (k_claimedF s) (k_claimedS s) (p :: k_need s) (k_made s ++ dirs)
                                    (k_clock s) (k_nextid s) (k_log s) (k_newF s) (k_newS s) in
                  (* _build_file_cache_lookup *)
                  let hit :=
                    match cache_get_file (k_old s) p with
                    | Some (OBuildFile p' c' fname' a' k' subs' ret' cmpres' raised' sf') =>
                        if raised' then None else
                        if negb (String.eqb fname' fname) then None else
                        if negb (kversion_equal s fname) then None else
                        if negb (is_equal a' sa) || negb (is_equal k' skw) then None else
                        match phys (k_fs s0) (k_stale s0) p with
                        | Some f =>
                            if negb (is_equal cmpres' (cmp_of c' f)) then None else
                            match kreplay_list s0 subs' (start_replay s0) with
                            | Some r => Some (f, subs', ret', r)
                            | None => None
                            end
                        | None => None
                        end
                    | _ => None
                    end in
                  match hit with
                  | Some (f, subs', ret', r) =>
                      let o := mk subs' ret' (cmp_of c f) false false in
                      let s1 := adopt s0 r o in
                      let s2 := ks_with s1 (upd p (Some (NFile f)) (k_fs s1)) (stale_del (k_stale s1) p)
                                        (k_claimedF s1) (k_claimedS s1) (k_need s1) (k_made s1)
                                        (k_clock s1) (k_nextid s1) (k_log s1) (k_newF s1) (k_newS s1) in
                      core_run (k (inl ret')) target pending (subs ++ [o]) s2
                  | None =>
                      (* claim, drop whatever regular file is there, run the function *)
                      let s1 := klog (LInvoke fname (Some p) sa skw)
                                     (ks_with s0 (try_remove (k_fs s0) p) (stale_del (k_stale s0) p)
                                              (p :: k_claimedF s0) (k_claimedS s0) (k_need s0) (k_made s0)
                                              (k_clock s0) (k_nextid s0) (k_log s0) (k_newF s0) (k_newS s0)) in
                      let '(s2, (res, pend, bsubs)) := core_run (fn p sa skw) (Some p) None [] s1 in
                      let fail (e : exn) :=
                        let o := mk bsubs PNone PNone true false in
                        let need := del_path p (k_need s2) in
                        let dead := filter (fun d => is_ancestor d p && negb (existsb (is_ancestor d) need)) (k_made s2) in
                        let s3 := ks_with s2 (fold_left try_rmdir (deepest_first dead) (k_fs s2)) (k_stale s2)
                                          (k_claimedF s2) (k_claimedS s2) need
                                          (filter (fun d => negb (mem_path d dead)) (k_made s2))
                                          (k_clock s2) (k_nextid s2) (k_log s2) (k_newF s2 ++ [(p, o)]) (k_newS s2) in
                        core_run (k (inr e)) target pending (subs ++ [o]) s3 in
                      match res with
                      | inr e => fail e
                      | inl v =>
                          match sanitize v with
                          | None => fail XType
                          | Some sv =>
                              match pend with
                              | None => fail (if path_ok p then XRuntime RNotCreated else XOS XOSError)
                              | Some bytes =>
                                  match write_file (k_fs s2) p bytes None (k_clock s2) (k_nextid s2) with
                                  | inl fs3 =>
                                      let cmp := match lookup fs3 p with Some (NFile f) => cmp_of c f | _ => PNone end in
                                      let o := mk bsubs sv cmp false false in
                                      core_run (k (inl sv)) target pending (subs ++ [o])
                                               (ks_with s2 fs3 (k_stale s2) (k_claimedF s2) (k_claimedS s2) (k_need s2) (k_made s2)
                                                        (k_clock s2) (N.succ (k_nextid s2)) (k_log s2) (k_newF s2 ++ [(p, o)]) (k_newS s2))
                                  | inr e => fail (XOS (err_of e))
                                  end
                              end
                          end
                      end
                  end
              end
          end
      | _, _ => core_run (k (inr XType)) target pending subs s
      end
  | Subbuild stale fname a kw fn k =>
      if stale then core_run (k (inr (XRuntime RFinished))) target pending subs s else
      match sanitize a, sanitize kw with
      | Some sa, Some skw =>
          let mk sb ret_ raised sf := OSubbuild fname sa skw sb ret_ raised sf in
          let key := subbuild_key fname sa skw in
          if existsb (py_eq key) (k_claimedS s) then
            core_run (k (inr (XRuntime RDupSubbuild))) target pending (subs ++ [mk [] PNone true true]) s
          else
          let hit :=
            match subs_get (c_subs (k_old s)) key with
            | Some (Some (OSubbuild f' a' k' subs' ret' raised' sf')) =>
                if raised' then None else
                if negb (kversion_equal s fname) then None else
                match kreplay_list s subs' (start_replay s) with
                | Some r => Some (subs', ret', r)
                | None => None
                end
            | _ => None
            end in
          match hit with
          | Some (subs', ret', r) =>
              let o := mk subs' ret' false false in
              let s1 := adopt s r o in
              core_run (k (inl ret')) target pending (subs ++ [o]) s1
          | None =>
              let s1 := klog (LInvoke fname None sa skw)
                             (ks_with s (k_fs s) (k_stale s) (k_claimedF s) (key :: k_claimedS s) (k_need s) (k_made s)
                                      (k_clock s) (k_nextid s) (k_log s) (k_newF s) (k_newS s)) in
              let '(s2, (res, _, bsubs)) := core_run (fn sa skw) None None [] s1 in
              let fin (r : outcome) (o : op) :=
                core_run (k r) target pending (subs ++ [o])
                         (ks_with s2 (k_fs s2) (k_stale s2) (k_claimedF s2) (k_claimedS s2) (k_need s2) (k_made s2)
                                  (k_clock s2) (k_nextid s2) (k_log s2) (k_newF s2) (k_newS s2 ++ [(key, o)])) in
              match res with
              | inr e => fin (inr e) (mk bsubs PNone true false)
              | inl v =>
                  match sanitize v with
                  | None => fin (inr XType) (mk bsubs PNone true false)
                  | Some sv => fin (inl sv) (mk bsubs sv false false)
                  end
              end
          end
      | _, _ => core_run (k (inr XType)) target pending subs s
      end
  end.
