(* Model/CreatedFiles.v — created_files.py (after the D1 repair), routine by
   routine.  KeyError is the explicit result [None]. *)
From Coq Require Import List String Bool Arith.
From FB.Base Require Import PyVal Fs.
From FB.Model Require Import Types.
Import ListNotations.
Open Scope list_scope.

Fixpoint sub_get (l : list (path * list name)) (p : path) : option (list name) :=
  match l with [] => None | (q, ns) :: r => if path_eqb q p then Some ns else sub_get r p end.
Fixpoint sub_set (l : list (path * list name)) (p : path) (ns : list name) : list (path * list name) :=
  match l with
  | [] => [(p, ns)]
  | (q, m) :: r => if path_eqb q p then (q, ns) :: r else (q, m) :: sub_set r p ns
  end.
Fixpoint sub_del (l : list (path * list name)) (p : path) : list (path * list name) :=
  match l with [] => [] | (q, m) :: r => if path_eqb q p then sub_del r p else (q, m) :: sub_del r p end.
Fixpoint del_str (s : string) (l : list string) : list string :=
  match l with [] => [] | x :: r => if String.eqb s x then del_str s r else x :: del_str s r end.

Definition cf_with (c : cfiles) files dirs sub counts : cfiles :=
  {| cf_files := files; cf_dirs := dirs; cf_sub := sub; cf_counts := counts |}.

(* _add_to_subfiles(filename) *)
Definition cf_add_to_subfiles (c : cfiles) (p : path) : cfiles :=
  match p with
  | [] => c
  | n :: d =>
      let cur := match sub_get (cf_sub c) d with Some ns => ns | None => [] end in
      let cur' := if mem_str n cur then cur else cur ++ [n] in
      cf_with c (cf_files c) (cf_dirs c) (sub_set (cf_sub c) d cur') (cf_counts c)
  end.

(* _remove_from_subfiles(filename): None = KeyError *)
Definition cf_remove_from_subfiles (c : cfiles) (p : path) : option cfiles :=
  match p with
  | [] => Some c
  | n :: d =>
      match sub_get (cf_sub c) d with
      | None => None
      | Some ns =>
          if negb (mem_str n ns) then None else
          let ns' := del_str n ns in
          Some (cf_with c (cf_files c) (cf_dirs c)
                  (match ns' with [] => sub_del (cf_sub c) d | _ => sub_set (cf_sub c) d ns' end)
                  (cf_counts c))
      end
  end.

(* started_building_file(filename): walk over the proper ancestors of filename *)
Fixpoint cf_started_from (c : cfiles) (parent : path) : cfiles :=
  let count := match cnt_get (cf_counts c) parent with Some n => n | None => 0 end in
  let c1 := cf_with c (cf_files c) (cf_dirs c) (cf_sub c) (cnt_set (cf_counts c) parent (S count)) in
  if Nat.ltb 0 count then c1 else
  let c2 := cf_add_to_subfiles (cf_with c1 (cf_files c1) (add_path parent (cf_dirs c1)) (cf_sub c1) (cf_counts c1)) parent in
  match parent with
  | [] => c2
  | _ :: d => cf_started_from c2 d
  end.

Definition cf_started (c : cfiles) (filename : path) : cfiles :=
  match filename with [] => c | _ :: d => cf_started_from c d end.

Definition cf_finished (c : cfiles) (filename : path) : cfiles :=
  cf_add_to_subfiles (cf_with c (add_path filename (cf_files c)) (cf_dirs c) (cf_sub c) (cf_counts c)) filename.

Fixpoint cf_error_from (c : cfiles) (parent : path) : option cfiles :=
  match cnt_get (cf_counts c) parent with
  | None => None                                       (* KeyError *)
  | Some n =>
      let count := n - 1 in
      if Nat.ltb 0 count then Some (cf_with c (cf_files c) (cf_dirs c) (cf_sub c) (cnt_set (cf_counts c) parent count))
      else
        if negb (mem_path parent (cf_dirs c)) then None else    (* set.remove KeyError *)
        let c1 := cf_with c (cf_files c) (del_path parent (cf_dirs c)) (cf_sub c) (cnt_del (cf_counts c) parent) in
        match cf_remove_from_subfiles c1 parent with
        | None => None
        | Some c2 => match parent with [] => Some c2 | _ :: d => cf_error_from c2 d end
        end
  end.

Definition cf_error (c : cfiles) (filename : path) : option cfiles :=
  match filename with [] => Some c | _ :: d => cf_error_from c d end.

Definition cf_has_file (c : option cfiles) (p : path) : bool :=
  match c with Some c => mem_path p (cf_files c) | None => false end.
Definition cf_has_dir (c : option cfiles) (p : path) : bool :=
  match c with Some c => mem_path p (cf_dirs c) | None => false end.
Definition cf_list_dir (c : cfiles) (p : path) : list name :=
  match sub_get (cf_sub c) p with Some ns => ns | None => [] end.
