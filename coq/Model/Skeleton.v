(* Model/Skeleton.v — comparing the control skeleton generated from the current
   source (Gen/Decisions.v, Gen/Sites.v, Gen/Order.v) with the baseline the model
   was aligned with; the "no effect before the last validation" check of C15. *)
From Coq Require Import List String Bool Arith.
From FB.Gen Require Import Decisions Sites Order.
From FB.Model Require Import DecisionsModel SitesModel.
Import ListNotations.
Open Scope list_scope.

Fixpoint dexpr_eqb (a b : dexpr) {struct a} : bool :=
  let list_eqb :=
    fix go (xs ys : list dexpr) : bool :=
      match xs, ys with
      | [], [] => true
      | x :: xs', y :: ys' => dexpr_eqb x y && go xs' ys'
      | _, _ => false
      end in
  match a, b with
  | DAtom x, DAtom y => String.eqb x y
  | DNot x, DNot y => dexpr_eqb x y
  | DAnd x, DAnd y => list_eqb x y
  | DOr x, DOr y => list_eqb x y
  | _, _ => false
  end.

Fixpoint strs_eqb (a b : list string) : bool :=
  match a, b with
  | [], [] => true
  | x :: a', y :: b' => String.eqb x y && strs_eqb a' b'
  | _, _ => false
  end.

Definition ditem_eqb (a b : ditem) : bool :=
  match a, b with
  | DTest k d, DTest k' d' => String.eqb k k' && dexpr_eqb d d'
  | DFor i, DFor i' => String.eqb i i'
  | DTry, DTry | DFinally, DFinally => true
  | DExcept c, DExcept c' => strs_eqb c c'
  | DRaise c, DRaise c' => String.eqb c c'
  | DBody h, DBody h' => String.eqb h h'
  | _, _ => false
  end.

Fixpoint ditems_eqb (a b : list ditem) : bool :=
  match a, b with
  | [], [] => true
  | x :: a', y :: b' => ditem_eqb x y && ditems_eqb a' b'
  | _, _ => false
  end.

Definition find_fn {A} (n : string) (l : list (string * A)) : option A :=
  option_map snd (find (fun e => String.eqb (fst e) n) l).

(* the functions of [names] whose decision skeleton differs from the baseline (or is missing) *)
Definition decision_mismatches (names : list string) : list string :=
  filter (fun n => match find_fn n decisions, find_fn n decisions_model with
                   | Some a, Some b => negb (ditems_eqb a b)
                   | _, _ => true
                   end) names.

Definition site_eqb (a b : string * string * nat * list string) : bool :=
  match a, b with (f, p, k, g), (f', p', k', g') => String.eqb f f' && String.eqb p p' && Nat.eqb k k' && strs_eqb g g' end.

(* mutating call sites that appeared or changed guards, and sites that disappeared *)
Definition site_mismatches : list (string * string * nat * list string) :=
  filter (fun s => negb (existsb (site_eqb s) sites_model)) sites ++
  filter (fun s => negb (existsb (site_eqb s) sites)) sites_model.

(* C15: in build_versioned and clean no effect precedes a validation *)
Fixpoint no_effect_before_validation (l : list (action * string)) : bool :=
  match l with
  | [] => true
  | (AEffect, _) :: r => forallb (fun a => match fst a with AValidate => false | _ => true end) r && no_effect_before_validation r
  | _ :: r => no_effect_before_validation r
  end.

Definition order_ok : bool := forallb (fun e => no_effect_before_validation (snd e)) order.

(* ---- order of calls inside selected routines (Gen/Order.v call_order) ---- *)
Fixpoint index_of (s : string) (l : list string) : option nat :=
  match l with
  | [] => None
  | x :: r => if String.eqb s x then Some 0 else option_map S (index_of s r)
  end.
Definition before (fn a b : string) : bool :=
  match find_fn fn call_order with
  | Some l => match index_of a l, index_of b l with
              | Some i, Some j => Nat.ltb i j
              | _, _ => false
              end
  | None => false
  end.
(* the claim of an output path precedes moving the old file aside (C08, thread half) *)
Definition claim_before_backup : bool := before "FileBuilder._build_file" "start_building_file" "back_up_and_remove".
(* a failed output is deleted before its directory reservations are released (C09) *)
Definition remove_before_release : bool := before "FileBuilder._handle_error_building_file" "_try_to_remove_file" "error_building_file".
(* the cache file is moved aside and rewritten only after the root function returned (C16) *)
Definition cache_replaced_after_success : bool :=
  before "FileBuilder._build" "func" "back_up_and_remove" && before "FileBuilder._build" "back_up_and_remove" "write" &&
  before "FileBuilder._build" "write" "_commit".
