(* Model/CoreCache.v — what a committed Core build leaves for the next one: the cache
   made of the records registered during the build (Cache.write of the new cache) and the
   tree with the cache file in place. *)
From Coq Require Import List String NArith ZArith Bool Arith.
From FB.Base Require Import PyVal Fs.
From FB.Gen Require Import JsonUtilGen.
From FB.Spec Require Import Prog Ref Oracle.
From FB.Model Require Import Types SimpleOps Builder Persist Dsl Core CoreOracle.
Import ListNotations.
Open Scope list_scope.

Definition cache_of_state (nm : string) (s : kstate) : cache :=
  {| c_name := nm;
     c_files := fold_left (fun acc e => files_set acc (fst e) (Some (snd e))) (k_newF s) [];
     c_subs := fold_left (fun acc e => subs_set acc (fst e) (Some (snd e))) (k_newS s) [];
     c_dirs := k_made s; c_fvers := k_vers s; c_built := [] |}.

(* the tree the next build starts from when nothing else touches it *)
Definition next_fs (cf : path) (s : kstate) : fsT := upd cf (Some (NFile cache_marker)) (k_fs s).
