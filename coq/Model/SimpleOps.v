(* Model/SimpleOps.v — simple_operation_executor.py (after the D2/D9 repair),
   routine by routine, in the state+exception monad. *)
From Coq Require Import List String NArith ZArith Bool Arith.
From FB.Base Require Import PyVal Fs.
From FB.Model Require Import Types Monad CreatedFiles BuildDirs.
Import ListNotations.
Open Scope list_scope.
Open Scope m_scope.

Definition walk_fuel : nat := 32.

(* textual form of a path as user code sees it (sandbox prefix stripped) *)
Definition path_str (p : path) : string :=
  fold_left (fun acc n => (acc ++ "/" ++ n)%string) (rev p) ""%string.

(* ---- Cache queries used here ---- *)
Definition cache_has_file (c : cache) (p : path) : bool :=
  match files_get (c_files c) p with Some _ => true | None => false end.
Definition cache_get_file (c : cache) (p : path) : option op :=
  match files_get (c_files c) p with Some o => o | None => None end.
Definition cache_created_file (c : cache) (p : path) : bool :=
  match cache_get_file c p with Some o => negb (op_raised o) | None => false end.

Definition is_cache_file (p : path) : M bool := fun w => (w, inl (path_eqb p (w_cachefile w))).

(* ---- BuildDirs, lifted ---- *)
Definition m_is_removed (d : path) : M bool :=
  fun w => match is_removed (w_fs w) (w_bd w) d with
           | ScanOk b r => (set_bd b w, inl r)
           | ScanErr b e => (set_bd b w, inr (XOS (err_of e)))
           | ScanFuel => (w, inr (XCrash "scan fuel"))
           end.
Definition m_handle_dir_exists (d : path) : M unit :=
  modify (fun w => set_bd (handle_dir_exists (w_bd w) d) w).

(* ---- comparison results (real file system) ---- *)
Definition hash_of (bytes : string) : pyval := PStr ("sha256:" ++ bytes)%string.

Definition file_metadata (p : path) : M pyval :=
  fun w => match lookup (w_fs w) p with
           | Some (NFile f) =>
               (w, inl (PDict [(PStr "size", PInt (Z.of_nat (String.length (f_bytes f))));
                               (PStr "timeNs", PInt (Z.of_N (f_mtime f)))]))
           | Some NDir => (w, inr (XOS XIsADirectory))
           | None => (w, inr (XOS (err_of (stat_err (w_fs w) p))))
           end.

Fixpoint hash_get (l : list (path * (pyval * bool))) (p : path) : option (pyval * bool) :=
  match l with [] => None | (q, e) :: r => if path_eqb q p then Some e else hash_get r p end.

Definition file_hash (p : path) : M pyval :=
  fun w =>
    let is_built := cache_has_file (w_new w) p in
    let fresh :=
      match lookup (w_fs w) p with
      | Some (NFile f) =>
          let h := hash_of (f_bytes f) in
          (set_hash ((p, (h, is_built)) :: w_hash w) w, inl h)
      | Some NDir => (w, inr (XOS XIsADirectory))
      | None => (w, inr (XOS (err_of (stat_err (w_fs w) p))))
      end in
    match hash_get (w_hash w) p with
    | Some (h, b) =>
        if Bool.eqb b is_built then
          if isfile (w_fs w) p then (w, inl h)
          else if isdir (w_fs w) p then (w, inr (XOS XIsADirectory))
          else (w, inr (XOS XFileNotFound))
        else fresh
    | None => fresh
    end.

Definition file_comparison_result (p : path) (c : cmpmode) : M pyval :=
  match c with METADATA => file_metadata p | HASH => file_hash p end.

(* ---- the virtual view ---- *)
Definition is_file_no_read (p : path) (cf : option cfiles) : M (option bool) :=
  fun w =>
    if cf_has_file cf p then (w, inl (Some true))
    else if cf_has_dir cf p then (w, inl (Some false))
    else if path_eqb p (w_cachefile w) then (w, inl (Some false))
    else if cache_has_file (w_new w) p then
      (w, inl (match cache_get_file (w_new w) p with None => Some false | Some _ => None end))
    else if cache_created_file (w_old w) p then (w, inl (Some false))
    else (w, inl None).

Definition m_is_file (p : path) (cf : option cfiles) : M bool :=
  r <- is_file_no_read p cf ;;
  match r with
  | Some b => ret b
  | None =>
      w <- get ;;
      if isfile (w_fs w) p then m_handle_dir_exists (dirname p) ;;; ret true
      else ret false
  end.

Definition m_is_dir (p : path) (cf : option cfiles) : M bool :=
  if cf_has_dir cf p then ret true
  else if cf_has_file cf p then ret false
  else
    r <- m_is_removed p ;;
    if r then ret false else
    w <- get ;;
    if isdir (w_fs w) p then m_handle_dir_exists p ;;; ret true
    else ret false.

Definition m_exists (p : path) (cf : option cfiles) : M bool :=
  f <- m_is_file p cf ;;
  if f then ret true else m_is_dir p cf.

Definition m_get_size (p : path) (cf : option cfiles) : M pyval :=
  e <- m_exists p cf ;;
  if negb e then raise (XOS XFileNotFound) else
  w <- get ;;
  match lookup (w_fs w) p with
  | Some (NFile f) => ret (PInt (Z.of_nat (String.length (f_bytes f))))
  | Some NDir => ret (PInt (-1))          (* size of a directory inode: unspecified, see DESIGN A *)
  | None => raise (XOS (err_of (stat_err (w_fs w) p)))
  end.

Definition m_read (p : path) (c : cmpmode) (cf : option cfiles) : M pyval :=
  nr <- is_file_no_read p cf ;;
  (match nr with
   | Some false =>
       d <- m_is_dir p cf ;;
       if d then raise (XOS XIsADirectory) else raise (XOS XFileNotFound)
   | _ => ret tt
   end) ;;;
  result <- catch (file_comparison_result p c)
                  (fun e =>
                     if is_os_class XFileNotFound e || is_os_class XNotADirectory e then raise (XOS XFileNotFound)
                     else if is_os_class XIsADirectory e then
                       d <- m_is_dir p cf ;;
                       if d then raise (XOS XIsADirectory) else raise (XOS XFileNotFound)
                     else raise e) ;;
  (if cf_has_file cf p then ret tt else m_handle_dir_exists (dirname p)) ;;;
  ret result.

Definition m_assert_is_dir (p : path) (cf : option cfiles) : M unit :=
  d <- m_is_dir p cf ;;
  if d then ret tt else
  f <- m_is_file p cf ;;
  if f then raise (XOS XNotADirectory) else raise (XOS XFileNotFound).

Definition list_dir_superset (d : path) (cf : option cfiles) : M (list name) :=
  fun w =>
    let go (names : list name) :=
      let extra := match cf with
                   | Some c => filter (fun n => negb (mem_str n names)) (cf_list_dir c d)
                   | None => [] end in
      (w, inl (sort_strs (names ++ extra))) in
    match listdir (w_fs w) d with
    | inr e =>
        (* during a replay a directory may exist only in the overlay *)
        if (oserr_eqb e ENOENT || oserr_eqb e ENOTDIR) && cf_has_dir cf d then go []
        else (w, inr (XOS (err_of e)))
    | inl names => go names
    end.

Fixpoint filterM (f : name -> M bool) (l : list name) : M (list name) :=
  match l with
  | [] => ret []
  | n :: r => b <- f n ;; rest <- filterM f r ;; ret (if b then n :: rest else rest)
  end.

Definition m_list_dir (d : path) (cf : option cfiles) : M pyval :=
  m_assert_is_dir d cf ;;;
  sup <- list_dir_superset d cf ;;
  names <- filterM (fun n => m_exists (n :: d) cf) sup ;;
  ret (PList (map PStr names)).

(* classify the entries of a directory: (subdirs, subfiles) *)
Fixpoint classify (d : path) (cf : option cfiles) (l : list name) : M (list name * list name) :=
  match l with
  | [] => ret ([], [])
  | n :: r =>
      f <- m_is_file (n :: d) cf ;;
      isd <- (if f then ret false else m_is_dir (n :: d) cf) ;;
      rest <- classify d cf r ;;
      ret (if f then (fst rest, n :: snd rest)
           else if isd then (n :: fst rest, snd rest) else rest)
  end.

Definition walk_entry (d : path) (subdirs subfiles : list name) : pyval :=
  PTuple [PStr (path_str d); PList (map PStr subdirs); PList (map PStr subfiles)].

Fixpoint append_walk (fuel : nat) (d : path) (top_down : bool) (cf : option cfiles) : M (list pyval) :=
  match fuel with
  | O => raise (XCrash "walk fuel")
  | S fuel' =>
      sup <- catch (list_dir_superset d cf) (fun e => if is_os e then ret [] else raise e) ;;
      cls <- classify d cf sup ;;
      let subdirs := fst cls in
      let subfiles := snd cls in
      below <- (fix go (ds : list name) : M (list pyval) :=
                  match ds with
                  | [] => ret []
                  | n :: r => a <- append_walk fuel' (n :: d) top_down cf ;; b <- go r ;; ret (a ++ b)
                  end) subdirs ;;
      ret (if top_down then walk_entry d subdirs subfiles :: below
           else below ++ [walk_entry d subdirs subfiles])
  end.

Definition m_walk (d : path) (top_down : bool) (cf : option cfiles) : M pyval :=
  isd <- m_is_dir d cf ;;
  if isd then r <- append_walk walk_fuel d top_down cf ;; ret (PList r)
  else ret (PList []).

(* SimpleOperationExecutor.exec *)
Definition exec_query (q : query) (cf : option cfiles) : M pyval :=
  match q with
  | QExists p => b <- m_exists p cf ;; ret (PBool b)
  | QIsFile p => b <- m_is_file p cf ;; ret (PBool b)
  | QIsDir p => b <- m_is_dir p cf ;; ret (PBool b)
  | QListDir p => m_list_dir p cf
  | QWalk p td => m_walk p td cf
  | QGetSize p => m_get_size p cf
  | QRead p c => m_read p c cf
  end.
