(* Model/CoreOracle.v — a whole build of the Core model from the actual pre-state of
   a step, and its observation in the format of Spec/Oracle.v (for the correspondence
   runs: the implementation must agree with Core exactly, log included). *)
From Coq Require Import List String NArith ZArith Bool Arith.
From FB.Base Require Import PyVal Fs.
From FB.Gen Require Import JsonUtilGen.
From FB.Spec Require Import Prog Ref Oracle.
From FB.Model Require Import Types Monad SimpleOps Builder Persist Build Run Dsl Core.
Import ListNotations.
Open Scope list_scope.

Record core_result := {
  cr_outcome : outcome;
  cr_tree : fsT;
  cr_log : list logentry;
  cr_state : option kstate;
}.

Definition core_build (fs : fsT) (cachefile : path) (old : cache) (svers : pyval) (clock nextid : N) (root : prog)
  : core_result :=
  let pv := prev_of_cache old in
  let t0 := ref_clean fs cachefile pv in
  let stale := flat_map (fun p => match lookup fs p with Some (NFile f) => [(p, f)] | _ => [] end) (pv_outputs pv) in
  let staledirs := filter (fun d => isdir fs d && negb (isdir t0 d)) (pv_dirs pv) in
  let bad e := {| cr_outcome := inr e; cr_tree := t0; cr_log := []; cr_state := None |} in
  match missing_dirs t0 cachefile (dirname cachefile) with
  | inr c => bad (XOS c)
  | inl dirs =>
      match mkdir_all t0 dirs with
      | inr e => bad (XOS (err_of e))
      | inl t1 =>
          let s0 := {| k_fs := t1; k_stale := stale; k_staledirs := staledirs; k_claimedF := []; k_claimedS := [];
                       k_need := []; k_made := dirs; k_clock := clock; k_nextid := nextid;
                       k_log := [LInvoke "<root>" None PNone PNone]; k_cachefile := cachefile; k_old := old;
                       k_vers := svers; k_newF := []; k_newS := [] |} in
          let '(s1, (res, _, _)) := core_run root None None [] s0 in
          {| cr_outcome := res; cr_tree := k_fs s1; cr_log := rev (k_log s1); cr_state := Some s1 |}
      end
  end.

Definition core_build_req (w : world) (cachefile : path) (nm : string) (vers : pyval) (root : prog) : step_req :=
  let refuse (s : string) := {| sq_result := s; sq_log := []; sq_tree := Some (red_tree (w_fs w) cachefile) |} in
  match sanitize vers with
  | None => refuse "err:TypeError"
  | Some svers =>
      let go (old : cache) :=
        let cr := core_build (w_fs w) cachefile old svers (w_clock w) (w_nextid w) root in
        match cr_outcome cr with
        | inl v =>
            {| sq_result := show_outcome (inl v);
               sq_log := flat_map show_log1 (cr_log cr);
               sq_tree := Some (red_tree (upd cachefile (Some (NFile cache_marker)) (cr_tree cr)) cachefile) |}
        | inr e =>
            {| sq_result := show_outcome (inr e); sq_log := flat_map show_log1 (cr_log cr); sq_tree := None |}
        end in
      match lookup (w_fs w) cachefile with
      | Some (NFile f) =>
          match cache_of_json (f_json f) with
          | ReadOk c => if String.eqb (c_name c) nm then go c else refuse "err:RuntimeError"
          | ReadRuntime => refuse "err:RuntimeError"
          | ReadMalformed => refuse "err:Crash"
          end
      | Some NDir => refuse "err:IsADirectoryError"
      | None => go (empty_cache nm svers)
      end
  end.

(* requirements of Core for every step of a history (pre-states threaded by the mechanism model) *)
Fixpoint core_history (cachefile : path) (nm : string) (h : list hstep) (w : world) : list step_req :=
  match h with
  | [] => []
  | HMutate ops :: r =>
      let w' := fold_left apply_fsop ops w in
      {| sq_result := "mutated"; sq_log := []; sq_tree := None |} :: core_history cachefile nm r w'
  | HBuild vers root :: r =>
      let req := core_build_req w cachefile nm vers root in
      let '(w', _) := run_build cachefile nm vers root w in
      req :: core_history cachefile nm r w'
  | HClean n :: r =>
      let '(w', _) := m_clean cachefile n w in
      {| sq_result := "mutated"; sq_log := []; sq_tree := None |} :: core_history cachefile nm r w'
  end.

(* exact agreement: same result, same log, same tree (where constrained) *)
Definition step_exact (req : step_req) (got : string * list string * list string) : bool :=
  let '(res, lg, tree) := got in
  String.eqb (sq_result req) "mutated" ||
  (String.eqb res (sq_result req) && str_list_eqb lg (sq_log req) &&
   match sq_tree req with Some t => str_list_eqb t tree | None => true end).

Definition first_bad_exact (reqs : list step_req) (got : list (string * list string * list string)) : option nat :=
  (fix go (i : nat) (r : list step_req) (g : list (string * list string * list string)) : option nat :=
     match r, g with
     | [], [] => None
     | x :: r', y :: g' => if step_exact x y then go (S i) r' g' else Some i
     | _, _ => Some i
     end) 0 reqs got.
