(* Model/Types.v — operation records, caches, exceptions (operation.py, cache.py
   data) and the world the sequential model threads through. *)
From Coq Require Import List String NArith Bool Arith.
From FB.Base Require Import PyVal Fs.
Import ListNotations.

Inductive cmpmode := METADATA | HASH.
Definition cmp_eqb (a b : cmpmode) : bool :=
  match a, b with METADATA, METADATA | HASH, HASH => true | _, _ => false end.

(* exception_type_str of a SimpleOperation / class of an OSError *)
Inductive errclass := XFileNotFound | XNotADirectory | XIsADirectory | XFileExists | XOSError.
Definition errclass_eqb (a b : errclass) : bool :=
  match a, b with
  | XFileNotFound, XFileNotFound | XNotADirectory, XNotADirectory | XIsADirectory, XIsADirectory
  | XFileExists, XFileExists | XOSError, XOSError => true
  | _, _ => false
  end.
Definition err_of (e : oserr) : errclass :=
  match e with
  | ENOENT => XFileNotFound | ENOTDIR => XNotADirectory | EISDIR => XIsADirectory
  | EEXIST => XFileExists | ENOTEMPTY => XOSError | EOTHER => XOSError
  end.

Inductive rtkind := RDupFile | RDupSubbuild | RCacheFileTarget | RNotCreated | RFinished
                  | RBadCache | RBuildName.

Inductive exn :=
| XUser (n : nat)                 (* an exception object raised by user code *)
| XRuntime (k : rtkind)
| XType
| XOS (c : errclass)
| XCrash (what : string).          (* KeyError / AttributeError inside the package *)

Inductive query :=
| QExists (p : path) | QIsFile (p : path) | QIsDir (p : path) | QListDir (p : path)
| QWalk (p : path) (top_down : bool) | QGetSize (p : path) | QRead (p : path) (c : cmpmode).

Inductive op :=
| OSimple (q : query) (ret : pyval) (ex : option errclass)
| OBuildFile (p : path) (c : cmpmode) (fname : string) (args kwargs : pyval) (subs : list op)
             (ret : pyval) (cmpres : pyval) (raised setup_failed : bool)
| OSubbuild (fname : string) (args kwargs : pyval) (subs : list op)
            (ret : pyval) (raised setup_failed : bool).

Definition op_raised (o : op) : bool :=
  match o with
  | OSimple _ _ _ => false
  | OBuildFile _ _ _ _ _ _ _ _ r _ => r
  | OSubbuild _ _ _ _ _ r _ => r
  end.
Definition op_setup_failed (o : op) : bool :=
  match o with
  | OSimple _ _ _ => false
  | OBuildFile _ _ _ _ _ _ _ _ _ s => s
  | OSubbuild _ _ _ _ _ _ s => s
  end.
Definition op_subs (o : op) : list op :=
  match o with
  | OSimple _ _ _ => []
  | OBuildFile _ _ _ _ _ s _ _ _ _ => s
  | OSubbuild _ _ _ s _ _ _ => s
  end.
Definition op_ret (o : op) : pyval :=
  match o with
  | OSimple _ r _ => r
  | OBuildFile _ _ _ _ _ _ r _ _ _ => r
  | OSubbuild _ _ _ _ r _ _ => r
  end.

(* dict<str, Operation|None>: None = claimed, in progress *)
Record cache := {
  c_name : string;
  c_files : list (path * option op);
  c_subs : list (pyval * option op);      (* key = to_hashable [func_name, args, kwargs] *)
  c_dirs : list path;
  c_fvers : pyval;                        (* dict name -> version *)
  c_built : list path;                    (* files passed to start_building_file, in order *)
}.

Fixpoint files_get (l : list (path * option op)) (p : path) : option (option op) :=
  match l with
  | [] => None
  | (q, o) :: r => if path_eqb q p then Some o else files_get r p
  end.
Fixpoint files_set (l : list (path * option op)) (p : path) (o : option op) : list (path * option op) :=
  match l with
  | [] => [(p, o)]
  | (q, o') :: r => if path_eqb q p then (q, o) :: r else (q, o') :: files_set r p o
  end.
Fixpoint subs_get (l : list (pyval * option op)) (k : pyval) : option (option op) :=
  match l with
  | [] => None
  | (q, o) :: r => if py_eq q k then Some o else subs_get r k
  end.
Fixpoint subs_set (l : list (pyval * option op)) (k : pyval) (o : option op) : list (pyval * option op) :=
  match l with
  | [] => [(k, o)]
  | (q, o') :: r => if py_eq q k then (q, o) :: r else (q, o') :: subs_set r k o
  end.

Fixpoint mem_path (p : path) (l : list path) : bool :=
  match l with [] => false | q :: r => path_eqb q p || mem_path p r end.
Fixpoint del_path (p : path) (l : list path) : list path :=
  match l with [] => [] | q :: r => if path_eqb q p then del_path p r else q :: del_path p r end.
Definition add_path (p : path) (l : list path) : list path :=
  if mem_path p l then l else l ++ [p].

Fixpoint cnt_get (l : list (path * nat)) (p : path) : option nat :=
  match l with [] => None | (q, n) :: r => if path_eqb q p then Some n else cnt_get r p end.
Fixpoint cnt_set (l : list (path * nat)) (p : path) (n : nat) : list (path * nat) :=
  match l with
  | [] => [(p, n)]
  | (q, m) :: r => if path_eqb q p then (q, n) :: r else (q, m) :: cnt_set r p n
  end.
Fixpoint cnt_del (l : list (path * nat)) (p : path) : list (path * nat) :=
  match l with [] => [] | (q, m) :: r => if path_eqb q p then cnt_del r p else (q, m) :: cnt_del r p end.

(* BuildDirs *)
Record bdirs := {
  bd_counts : list (path * nat);
  bd_created : list path;
  bd_err_created : list path;
  bd_removed : list path;
  bd_exists : list path;
  bd_maybe : list path;
  bd_removed_files : list path;
}.

(* CreatedFiles *)
Record cfiles := {
  cf_files : list path;
  cf_dirs : list path;
  cf_sub : list (path * list name);
  cf_counts : list (path * nat);
}.
Definition cf_empty : cfiles := {| cf_files := []; cf_dirs := []; cf_sub := []; cf_counts := [] |}.

(* what user code and the harness can observe, in order *)
Inductive logentry :=
| LInvoke (fname : string) (target : option path) (args kwargs : pyval)
| LAnswer (q : query) (r : pyval + errclass)
| LEffect (what : string) (p : path).

(* content of a regular file as far as the package can tell: opaque bytes, or a
   gzip stream holding junk or a JSON value (the cache file) *)
Record world := {
  w_fs : fsT;
  w_clock : N;                      (* logical time stamped on user writes *)
  w_nextid : N;                     (* next inode identity *)
  w_old : cache;
  w_new : cache;
  w_bd : bdirs;
  w_backups : list (path * fnode);  (* FileBackups._backups, oldest first *)
  w_lost : list path;               (* directories renamed into the temp area (never restored) *)
  w_hash : list (path * (pyval * bool));
  w_cachefile : path;
  w_log : list logentry;            (* newest first *)
  w_faults : list nat;              (* ordinals of mutating calls that must fail *)
  w_effects : nat;                  (* number of mutating calls made so far *)
}.
