(* Model/Build.v — FileBuilder.build_versioned / _build / _set_created_dirs /
   _commit / _roll_back / clean. *)
From Coq Require Import List String NArith ZArith Bool Arith.
From FB.Base Require Import PyVal Fs.
From FB.Gen Require Import JsonUtilGen.
From FB.Model Require Import Types Monad CreatedFiles BuildDirs SimpleOps Builder Persist.
Import ListNotations.
Open Scope list_scope.
Open Scope m_scope.

(* _create_dirs *)
Definition create_dirs (dirs : list path) : M unit :=
  mapM_ (fun d => catch (effect "mkdir" d (fun fs => mkdir fs d))
                        (fun e => if is_os e then ret tt else raise e))
        (sort_shortest_first dirs).

Definition union_paths (a b : list path) : list path := fold_left (fun acc p => add_path p acc) b a.

(* _set_created_dirs(cache_file_created_dirs) -> norm_cased_error_created_dirs *)
Definition set_created_dirs (ccd : list path) : M (list path) :=
  w <- get ;;
  let created := bd_created (w_bd w) in
  let extra := filter (fun d => negb (mem_path d created)) ccd in
  let err := fold_left (fun acc d => del_path d acc) extra (bd_err_created (w_bd w)) in
  let c := w_new w in
  put (set_new (cache_with c (c_files c) (c_subs c) (union_paths (c_dirs c) (created ++ extra)) (c_built c)) w) ;;;
  ret err.

(* _commit *)
Definition commit (err_dirs : list path) : M unit :=
  w <- get ;;
  mapM_ (fun f =>
           vf <- m_is_file f None ;;
           icf <- is_cache_file f ;;
           if negb vf && negb icf then try_to_remove_file f else ret tt)
        (cache_created_files (w_old w)) ;;;
  extra <- (fix go (ds : list path) : M (list path) :=
              match ds with
              | [] => ret []
              | d :: r => vd <- m_is_dir d None ;; rest <- go r ;; ret (if vd then rest else d :: rest)
              end) (c_dirs (w_old w)) ;;
  remove_empty_dirs (union_paths err_dirs extra).

(* _roll_back *)
Definition roll_back (ccd : list path) : M unit :=
  w <- get ;;
  let created := bd_created (w_bd w) ++ ccd in
  let all := union_paths (union_paths [] created) (bd_err_created (w_bd w)) in
  let dirs_to_remove := filter (fun d => negb (mem_path d (c_dirs (w_old w)))) all in
  mapM_ try_to_remove_file (c_built (w_new w)) ;;;
  remove_empty_dirs dirs_to_remove ;;;
  restore_all ;;;
  create_dirs (c_dirs (w_old w)).

(* Cache.write(cache_filename): gzip.open creates the file, then the text is written *)
Definition write_cache : M unit :=
  w <- get ;;
  match cache_to_json (w_new w) with
  | None => raise (XCrash "AttributeError in Cache.write")
  | Some j =>
      let p := w_cachefile w in
      effect "create_cache" p (fun fs => write_file fs p "" None (w_clock w) (w_nextid w)) ;;;
      modify (fun w => set_clock (w_clock w) (N.succ (w_nextid w)) w) ;;;
      effect "write_cache" p (fun fs => write_file fs p "<cache>" (Some j) (w_clock w) (w_nextid w))
  end.

Inductive build_result :=
| Refused (e : exn)                 (* rejected before anything happened *)
| Done (r : outcome).               (* the root function ran (or directory setup failed): committed or rolled back *)

(* the state of a build that has just been accepted *)
Definition start_world (w : world) (cachefile : path) (old : cache) (nm : string) (vers : pyval) : world :=
  {| w_fs := w_fs w; w_clock := w_clock w; w_nextid := w_nextid w;
     w_old := old; w_new := empty_cache nm vers;
     w_bd := bd_init (c_dirs old) (cache_created_files old ++ [cachefile]);
     w_backups := []; w_lost := []; w_hash := []; w_cachefile := cachefile;
     w_log := w_log w; w_faults := w_faults w; w_effects := w_effects w |}.

(* build_versioned after argument type checks (those are the subject of C15's
   order table): [vers] is the versions dict, [root] the root function applied
   to its arguments. *)
Definition m_build (cachefile : path) (nm : string) (vers : pyval) (root : body) (w : world)
  : world * build_result :=
  match sanitize vers with
  | None => (w, Refused XType)
  | Some svers =>
      let accept (old : cache) :=
        let w0 := start_world w cachefile old nm svers in
        (* _build *)
        match make_dirs (dirname cachefile) w0 with
        | (w1, inr e) =>
            match roll_back [] w1 with
            | (w2, inl _) => (w2, Done (inr e))
            | (w2, inr e') => (w2, Done (inr e'))
            end
        | (w1, inl ccd) =>
            let w1' := set_log (LInvoke "<root>" None PNone PNone :: w_log w1) w1 in
            let '(w2, (res, _)) := root w1' in
            let rollback (e : exn) (w : world) :=
              match roll_back ccd w with
              | (w', inl _) => (w', Done (inr e))
              | (w', inr e') => (w', Done (inr e'))
              end in
            match res with
            | inr e => rollback e w2
            | inl v =>
                let pre :=
                  err <- set_created_dirs ccd ;;
                  w <- get ;;
                  (if isfile (w_fs w) cachefile then b <- back_up_and_remove cachefile ;; ret tt else ret tt) ;;;
                  ret err in
                match pre w2 with
                | (w3, inr e) => rollback e w3
                | (w3, inl err) =>
                    match write_cache w3 with
                    | (w4, inr e) =>
                        (* a partially written cache file is removed before rolling back *)
                        match try_to_remove_file cachefile w4 with
                        | (w5, _) => rollback e w5
                        end
                    | (w4, inl _) =>
                        match commit err w4 with
                        | (w5, inl _) => (w5, Done (inl v))
                        | (w5, inr e) => (w5, Done (inr e))
                        end
                    end
                end
            end
        end in
      match lookup (w_fs w) cachefile with
      | Some (NFile f) =>
          match cache_of_json (f_json f) with
          | ReadOk old =>
              if String.eqb (c_name old) nm then accept old else (w, Refused (XRuntime RBuildName))
          | ReadRuntime => (w, Refused (XRuntime RBadCache))
          | ReadMalformed => (w, Refused (XCrash "malformed cache"))
          end
      | Some NDir => (w, Refused (XOS XIsADirectory))
      | None => accept (empty_cache nm svers)
      end
  end.

(* the temporary directory of FileBackups is deleted on exit: whatever is still
   in the backup area is gone *)
Definition end_build (w : world) : world := set_lost [] (set_backups [] w).

(* FileBuilder.clean(cache_filename, build_name) *)
Definition m_clean (cachefile : path) (nm : option string) (w : world) : world * build_result :=
  match lookup (w_fs w) cachefile with
  | None => (w, Done (inl PNone))
  | Some NDir => (w, Refused (XOS XIsADirectory))
  | Some (NFile f) =>
      match cache_of_json (f_json f) with
      | ReadRuntime => (w, Refused (XRuntime RBadCache))
      | ReadMalformed => (w, Refused (XCrash "malformed cache"))
      | ReadOk c =>
          if match nm with Some n => negb (String.eqb (c_name c) n) | None => false end
          then (w, Refused (XRuntime RBuildName)) else
          match (mapM_ try_to_remove_file (cache_created_files c) ;;;
                 try_to_remove_file cachefile ;;;
                 remove_empty_dirs (c_dirs c)) w with
          | (w', inl _) => (w', Done (inl PNone))
          | (w', inr e) => (w', Done (inr e))
          end
      end
  end.
