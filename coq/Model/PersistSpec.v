(* Model/PersistSpec.v — vocabulary for the persistence theorems (C16):
   well-formed records, the normal form a record has after the write/read
   cycle, and closedness of a cache. Definitions only. *)
From Coq Require Import List String Ascii NArith ZArith Bool Arith.
From FB.Base Require Import PyVal Fs.
From FB.Gen Require Import JsonUtilGen.
From FB.Spec Require Import JsonSpec.
From FB.Model Require Import Types Monad SimpleOps Builder Persist PathNorm.
Import ListNotations.
Open Scope list_scope.

(* a component the textual form can carry: non-empty, no "/" *)
Definition comp_wf (n : name) : bool := negb (String.eqb n "") && no_slash n.
Definition path_wf (p : path) : bool := forallb comp_wf p.

Definition query_wf (q : query) : bool :=
  match q with
  | QExists p | QIsFile p | QIsDir p | QListDir p | QWalk p _ | QGetSize p | QRead p _ => path_wf p
  end.

(* value after json.dumps(sort_keys=True) / json.load *)
Definition norm_val (v : pyval) : pyval :=
  match sanitize v with Some s => sort_deep s | None => v end.

Fixpoint op_wf (o : op) : bool :=
  match o with
  | OSimple q r _ => query_wf q && sanitized_t r
  | OBuildFile p _ _ a k subs r cr _ _ =>
      path_wf p && sanitized a && sanitized k && sanitized r && sanitized cr && forallb op_wf subs
  | OSubbuild _ a k subs r _ _ =>
      sanitized a && sanitized k && sanitized r && forallb op_wf subs
  end.

Fixpoint norm_op (o : op) : op :=
  match o with
  | OSimple q r e => OSimple q (norm_val r) e
  | OBuildFile p c f a k subs r cr ra sf =>
      OBuildFile p c f (norm_val a) (norm_val k) (map norm_op subs) (norm_val r) (norm_val cr) ra sf
  | OSubbuild f a k subs r ra sf =>
      OSubbuild f (norm_val a) (norm_val k) (map norm_op subs) (norm_val r) ra sf
  end.

(* the write/read cycle of one record *)
Definition rt_op (o : op) : option op :=
  match json_text_roundtrip (op_to_json o) with Some j => op_of_json j | None => None end.

(* same record up to JSON equality of the values it carries *)
Fixpoint op_equiv (a b : op) {struct a} : bool :=
  let subs_equiv :=
    fix go (xs ys : list op) : bool :=
      match xs, ys with
      | [], [] => true
      | x :: xs', y :: ys' => op_equiv x y && go xs' ys'
      | _, _ => false
      end in
  match a, b with
  | OSimple q r e, OSimple q' r' e' => query_eqb q q' && is_equal r r' && oerr_eqb e e'
  | OBuildFile p c f a1 k1 s r cr ra sf, OBuildFile p' c' f' a1' k1' s' r' cr' ra' sf' =>
      path_eqb p p' && cmp_eqb c c' && String.eqb f f' && is_equal a1 a1' && is_equal k1 k1' &&
      subs_equiv s s' && is_equal r r' && is_equal cr cr' && Bool.eqb ra ra' && Bool.eqb sf sf'
  | OSubbuild f a1 k1 s r ra sf, OSubbuild f' a1' k1' s' r' ra' sf' =>
      String.eqb f f' && is_equal a1 a1' && is_equal k1 k1' && subs_equiv s s' && is_equal r r' &&
      Bool.eqb ra ra' && Bool.eqb sf sf'
  | _, _ => false
  end.
