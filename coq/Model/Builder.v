(* Model/Builder.v — file_builder.py: the instance methods of FileBuilder that
   implement build_file*, subbuild and the queries, and file_backups.py.
   Written routine by routine after the Python; user functions are abstract
   "bodies" (state transformers producing an outcome and the list of
   suboperation records they appended). *)
From Coq Require Import List String NArith ZArith Bool Arith.
From FB.Base Require Import PyVal Fs.
From FB.Gen Require Import JsonUtilGen.
From FB.Model Require Import Types Monad CreatedFiles BuildDirs SimpleOps.
Import ListNotations.
Open Scope list_scope.
Open Scope m_scope.

Definition outcome : Type := pyval + exn.
(* a user function body: runs in the world, yields its outcome and the
   suboperations recorded on its builder, in order *)
Definition body : Type := world -> world * (outcome * list op).

Definition room_fuel : nat := 32.

(* ------------------------------------------------------------------ Cache (mutable, new) *)
Definition cache_with (c : cache) files subs dirs built : cache :=
  {| c_name := c_name c; c_files := files; c_subs := subs; c_dirs := dirs; c_fvers := c_fvers c; c_built := built |}.

Definition subbuild_key (fname : string) (args kwargs : pyval) : pyval :=
  to_hashable (PList [PStr fname; args; kwargs]).

Definition new_assert_no_file (p : path) : M unit :=
  w <- get ;; if cache_has_file (w_new w) p then raise (XRuntime RDupFile) else ret tt.
Definition new_start_building_file (p : path) : M unit :=
  new_assert_no_file p ;;;
  modify (fun w => let c := w_new w in
                   set_new (cache_with c (files_set (c_files c) p None) (c_subs c) (c_dirs c) (c_built c ++ [p])) w).
Fixpoint files_del (l : list (path * option op)) (p : path) : list (path * option op) :=
  match l with
  | [] => []
  | (q, o) :: r => if path_eqb q p then files_del r p else (q, o) :: files_del r p
  end.
(* abort_building_file: undo start_building_file *)
Definition new_abort_building_file (p : path) : M unit :=
  modify (fun w => let c := w_new w in
                   set_new (cache_with c (files_del (c_files c) p) (c_subs c) (c_dirs c) (del_path p (c_built c))) w).
Definition new_finish_building_file (p : path) (o : op) : M unit :=
  modify (fun w => let c := w_new w in
                   set_new (cache_with c (files_set (c_files c) p (Some o)) (c_subs c) (c_dirs c) (c_built c)) w).
Definition cache_has_subbuild (c : cache) (k : pyval) : bool :=
  match subs_get (c_subs c) k with Some _ => true | None => false end.
Definition new_assert_no_subbuild (k : pyval) : M unit :=
  w <- get ;; if cache_has_subbuild (w_new w) k then raise (XRuntime RDupSubbuild) else ret tt.
Definition new_start_subbuild (k : pyval) : M unit :=
  new_assert_no_subbuild k ;;;
  modify (fun w => let c := w_new w in
                   set_new (cache_with c (c_files c) (subs_set (c_subs c) k None) (c_dirs c) (c_built c)) w).
Definition new_finish_subbuild (k : pyval) (o : op) : M unit :=
  modify (fun w => let c := w_new w in
                   set_new (cache_with c (c_files c) (subs_set (c_subs c) k (Some o)) (c_dirs c) (c_built c)) w).

(* _assert_no_repeats *)
Fixpoint assert_no_repeats (c : cache) (o : op) : bool :=   (* true = no repeat *)
  match o with
  | OSimple _ _ _ => true
  | OBuildFile p _ _ _ _ subs _ _ _ sf =>
      (sf || negb (cache_has_file c p)) && forallb (assert_no_repeats c) subs
  | OSubbuild f a k subs _ _ sf =>
      (sf || negb (cache_has_subbuild c (subbuild_key f a k))) && forallb (assert_no_repeats c) subs
  end.

(* _use_cached_operation *)
Fixpoint register_op (c : cache) (o : op) : cache :=
  match o with
  | OSimple _ _ _ => c
  | OBuildFile p _ _ _ _ subs _ _ _ sf =>
      let c1 := if sf then c else cache_with c (files_set (c_files c) p (Some o)) (c_subs c) (c_dirs c) (c_built c) in
      fold_left register_op subs c1
  | OSubbuild f a k subs _ _ sf =>
      let c1 := if sf then c else cache_with c (c_files c) (subs_set (c_subs c) (subbuild_key f a k) (Some o)) (c_dirs c) (c_built c) in
      fold_left register_op subs c1
  end.

Definition new_use_cached_operation (o : op) : M unit :=
  w <- get ;;
  if assert_no_repeats (w_new w) o then put (set_new (register_op (w_new w) o) w)
  else raise (XRuntime (match o with OSubbuild _ _ _ _ _ _ _ => RDupSubbuild | _ => RDupFile end)).

(* ------------------------------------------------------------------ FileBackups *)
(* back_up_and_remove(filename) -> whether a regular file was moved *)
Definition back_up_and_remove (p : path) : M bool :=
  effect "makedirs_tmp" p (fun fs => inl fs) ;;;
  fun w =>
    let n := w_effects w in
    let w1 := set_effects (S n) w in
    if existsb (Nat.eqb n) (w_faults w) then (w1, inr (XOS XOSError)) else
    match rename_out (w_fs w1) p with
    | inr ENOENT => (w1, inl false)
    | inr e => (w1, inr (XOS (err_of e)))
    | inl (fs', NDir) => (set_log (LEffect "rename_dir_out" p :: w_log w1) (set_lost (w_lost w1 ++ [p]) (set_fs fs' w1)), inl false)
    | inl (fs', NFile f) =>
        (set_log (LEffect "rename_out" p :: w_log w1) (set_backups (w_backups w1 ++ [(p, f)]) (set_fs fs' w1)), inl true)
    end.

(* restore_all: failures are logged and skipped *)
Definition restore_one (pf : path * fnode) : M unit :=
  let '(p, f) := pf in
  w <- get ;;
  if isdir (w_fs w) p then ret tt else
  catch (effect_p "makedirs" (dirname p) (fun fs => makedirs_p fs (dirname p)) ;;;
         effect "replace" p (fun fs => replace_in fs p f))
        (fun e => if is_os e then ret tt else raise e).

Definition restore_all : M unit :=
  w <- get ;;
  put (set_backups [] w) ;;;
  mapM_ restore_one (w_backups w).

(* ------------------------------------------------------------------ small helpers *)
Definition try_to_remove_file (p : path) : M unit :=
  w <- get ;;
  if isfile (w_fs w) p then
    catch (effect "remove" p (fun fs => remove fs p)) (fun e => if is_os e then ret tt else raise e)
  else ret tt.

Definition noneable_cmp (p : path) (c : cmpmode) : M pyval :=
  catch (file_comparison_result p c)
        (fun e => if is_os_class XFileNotFound e || is_os_class XIsADirectory e || is_os_class XNotADirectory e
                  then ret PNone else raise e).

Definition func_version (c : cache) (fname : string) : pyval := py_dict_get (PStr fname) (c_fvers c).

Definition version_equal (fname : string) : M bool :=
  w <- get ;; ret (is_equal (func_version (w_old w) fname) (func_version (w_new w) fname)).

(* _is_build_file_cached(operation) *)
Definition is_build_file_cached (p : path) (c : cmpmode) (cmpres : pyval) : M bool :=
  cur <- noneable_cmp p c ;; ret (is_equal cmpres cur).

(* _dirs_to_make(dir_, created_files): outermost first *)
Fixpoint dirs_to_make (parent : path) (cf : option cfiles) : M (list path) :=
  isd <- m_is_dir parent cf ;;
  isf <- (if isd then ret false else m_is_file parent cf) ;;
  if isf then raise (XOS XNotADirectory) else
  if isd then ret [] else
  icf <- is_cache_file parent ;;
  if icf then raise (XOS XNotADirectory) else
  match parent with
  | [] => raise (XOS XFileNotFound)
  | _ :: d => r <- dirs_to_make d cf ;; ret (r ++ [parent])
  end.

(* sorted(dirs, key=lambda d: -len(d)) / key=len : stable insertion sort on the
   length of the textual path *)
Definition plen (p : path) : nat := String.length (path_str p).
Definition sort_longest_first (l : list path) : list path := sort_by (fun a b => Nat.leb (plen b) (plen a)) l.
Definition sort_shortest_first (l : list path) : list path := sort_by (fun a b => Nat.leb (plen a) (plen b)) l.

(* _remove_empty_dirs *)
Definition remove_empty_dirs (dirs : list path) : M unit :=
  mapM_ (fun d => catch (effect "rmdir" d (fun fs => rmdir fs d))
                        (fun e => if is_os e then ret tt else raise e))
        (sort_longest_first dirs).


(* _make_dirs(dir_): returns the directories that had to be made; when a step
   fails with an OSError, the directories created so far are removed again *)
Definition make_one_dir (parent : path) : M bool :=       (* true = mkdir succeeded *)
  w <- get ;;
  (if isfile (w_fs w) parent && cache_created_file (w_old w) parent
   then b <- back_up_and_remove parent ;; ret tt else ret tt) ;;;
  catch (effect "mkdir" parent (fun fs => mkdir fs parent) ;;; ret true)
        (fun e => if is_os_class XFileExists e then ret false else raise e).

Fixpoint make_dirs_loop (ds made : list path) : M unit :=
  match ds with
  | [] => ret tt
  | d :: r =>
      res <- attempt (make_one_dir d) ;;
      match res with
      | inl b => make_dirs_loop r (if b then made ++ [d] else made)
      | inr e => if is_os e then remove_empty_dirs made ;;; raise e else raise e
      end
  end.

Definition make_dirs (d : path) : M (list path) :=
  ds <- dirs_to_make d None ;;
  make_dirs_loop ds [] ;;;
  ret ds.

(* _make_room(dir_, make_room_filename) *)
Fixpoint make_room (fuel : nat) (d : path) : M unit :=
  match fuel with
  | O => raise (XCrash "make_room fuel")
  | S fuel' =>
      w <- get ;;
      match listdir (w_fs w) d with
      | inr e => raise (XOS (err_of e))
      | inl names =>
          mapM_ (fun n =>
                   let a := n :: d in
                   w' <- get ;;
                   if isdir (w_fs w') a then
                     vd <- m_is_dir a None ;;
                     if vd then raise (XOS XIsADirectory) else make_room fuel' a
                   else
                     vf <- m_is_file a None ;;
                     if vf then raise (XOS XIsADirectory) else
                     b <- back_up_and_remove a ;; ret tt) names ;;;
          catch (effect "rmdir" d (fun fs => rmdir fs d))
                (fun e => if is_os e then raise (XOS XIsADirectory) else raise e)
      end
  end.

(* _prepare_file_creation *)
Definition prepare_file_creation (p : path) : M (list path) :=
  w <- get ;;
  (if isdir (w_fs w) p then
     vd <- m_is_dir p None ;;
     if vd then raise (XOS XIsADirectory) else make_room room_fuel p
   else ret tt) ;;;
  make_dirs (dirname p).

Definition m_bd_started (p : path) (created : list path) : M (list path) :=
  fun w => let '(b, l) := bd_started (w_bd w) p created in (set_bd b w, inl l).
Definition m_bd_error (p : path) : M unit :=
  fun w => match bd_error (w_bd w) p with
           | Some b => (set_bd b w, inl tt)
           | None => (w, inr (XCrash "KeyError in BuildDirs.error_building_file"))
           end.

(* ------------------------------------------------------------------ replay (is ... cached) *)
Definition is_simple_operation_cached (q : query) (ret_ : pyval) (ex : option errclass) (cf : cfiles) : M bool :=
  r <- attempt (exec_query q (Some cf)) ;;
  match r with
  | inl v => ret (is_equal v ret_ && match ex with None => true | Some _ => false end)
  | inr (XOS c) => ret (is_equal PNone ret_ && match ex with Some c' => errclass_eqb c c' | None => false end)
  | inr e => raise e
  end.

(* _is_build_file_operation_cached / _is_subbuild_operation_cached /
   _are_suboperations_cached: one structural recursion over the record tree.
   Returns the updated CreatedFiles together with the verdict. *)
Fixpoint is_op_cached (o : op) (cf : cfiles) {struct o} : M (bool * cfiles) :=
  let subs_cached :=
    fix go (subs : list op) (cf : cfiles) {struct subs} : M (bool * cfiles) :=
      match subs with
      | [] => ret (true, cf)
      | s :: rest =>
          r <- is_op_cached s cf ;;
          if fst r then go rest (snd r) else ret (false, snd r)
      end in
  match o with
  | OSimple q ret_ ex => b <- is_simple_operation_cached q ret_ ex cf ;; ret (b, cf)
  | OBuildFile p c fname _ _ subs _ cmpres raised sf =>
      (* a path that is claimed (possibly in progress: its contents are not final) or the cache file:
         _build_file would raise; checked before the file is looked at *)
      w0 <- get ;;
      if cache_has_file (w_new w0) p || path_eqb p (w_cachefile w0) then ret (false, cf) else
      ve <- version_equal fname ;;
      if negb ve then ret (false, cf) else
      ok <- (if raised then ret true else is_build_file_cached p c cmpres) ;;
      if negb ok then ret (false, cf) else
      w <- get ;;
      if raised && lexists (w_fs w) p then ret (false, cf) else
      if sf then ret (false, cf) else
      d <- attempt (dirs_to_make (dirname p) (Some cf)) ;;
      match d with
      | inr e => if is_os e then ret (false, cf) else raise e
      | inl _ =>
          let cf1 := cf_started cf p in
          r <- subs_cached subs cf1 ;;
          if negb (fst r) then ret (false, snd r) else
          if raised then
            match cf_error (snd r) p with
            | Some cf2 => ret (true, cf2)
            | None => raise (XCrash "KeyError in CreatedFiles.error_building_file")
            end
          else ret (true, cf_finished (snd r) p)
      end
  | OSubbuild fname a k subs _ raised sf =>
      ve <- version_equal fname ;;
      if negb ve || sf then ret (false, cf) else
      w <- get ;;
      if cache_has_subbuild (w_new w) (subbuild_key fname a k) then ret (false, cf) else
      subs_cached subs cf
  end.

Fixpoint are_subs_cached (subs : list op) (cf : cfiles) : M (bool * cfiles) :=
  match subs with
  | [] => ret (true, cf)
  | s :: rest =>
      r <- is_op_cached s cf ;;
      if fst r then are_subs_cached rest (snd r) else ret (false, snd r)
  end.

(* _build_file_cache_lookup *)
Definition build_file_cache_lookup (p : path) (fname : string) (args kwargs : pyval) : M (option op) :=
  w <- get ;;
  match cache_get_file (w_old w) p with
  | Some (OBuildFile p' c' fname' a' k' subs' ret' cmpres' raised' sf') =>
      if raised' then ret None else
      if negb (String.eqb fname' fname) then ret None else
      ve <- version_equal fname ;;
      if negb ve then ret None else
      if negb (is_equal a' args) then ret None else
      if negb (is_equal k' kwargs) then ret None else
      ok <- is_build_file_cached p' c' cmpres' ;;
      if negb ok then ret None else
      r <- are_subs_cached subs' cf_empty ;;
      if fst r then ret (Some (OBuildFile p' c' fname' a' k' subs' ret' cmpres' raised' sf')) else ret None
  | _ => ret None
  end.

(* _subbuild_cache_lookup *)
Definition subbuild_cache_lookup (key : pyval) (fname : string) : M (option op) :=
  w <- get ;;
  match subs_get (c_subs (w_old w)) key with
  | Some (Some (OSubbuild f' a' k' subs' ret' raised' sf')) =>
      if raised' then ret None else
      ve <- version_equal fname ;;
      if negb ve then ret None else
      r <- are_subs_cached subs' cf_empty ;;
      if fst r then ret (Some (OSubbuild f' a' k' subs' ret' raised' sf')) else ret None
  | _ => ret None
  end.

(* _apply_cached_suboperations *)
Fixpoint apply_cached_subs_of (o : op) {struct o} : M unit :=
  let go :=
    fix go (subs : list op) : M unit :=
      match subs with
      | [] => ret tt
      | s :: rest =>
          (match s with
           | OBuildFile p _ _ _ _ _ _ _ false _ =>
               created <- make_dirs (dirname p) ;;
               locked <- m_bd_started p created ;;
               catch (apply_cached_subs_of s) (fun e => m_bd_error p ;;; raise e)
           | OSimple _ _ _ => ret tt
           | _ => apply_cached_subs_of s
           end) ;;; go rest
      end in
  match o with
  | OSimple _ _ _ => ret tt
  | OBuildFile _ _ _ _ _ subs _ _ _ _ => go subs
  | OSubbuild _ _ _ subs _ _ _ => go subs
  end.

(* ------------------------------------------------------------------ build_file *)
Definition sanitize_m (v : pyval) : M pyval :=
  match sanitize v with Some s => ret s | None => raise XType end.

(* FileBuilder._build_file + _rebuild_file + the wrapper in
   build_file_with_comparison.  Returns the outcome seen by the caller and the
   record appended to the caller's suboperations (None when the argument
   types were rejected before a record existed). *)
Definition m_build_file (p : path) (c : cmpmode) (fname : string) (args kwargs : pyval)
           (fn : path -> pyval -> pyval -> body) : world -> world * (outcome * option op) :=
  fun w0 =>
  match sanitize args, sanitize kwargs with
  | Some sargs, Some skw =>
      let mkop subs ret_ cmpres raised sf := OBuildFile p c fname sargs skw subs ret_ cmpres raised sf in
      (* setup: everything before the user function is called *)
      let setup : M (option (op + exn * op)) :=       (* Some (inl o) = served from the cache *)
        new_assert_no_file p ;;;
        icf <- is_cache_file p ;;
        (if icf then raise (XRuntime RCacheFileTarget) else ret tt) ;;;
        created <- prepare_file_creation p ;;
        locked <- m_bd_started p created ;;
        catch
          (cached <- build_file_cache_lookup p fname sargs skw ;;
           reused <-
             (match cached with
              | None => ret None
              | Some co =>
                  cmp <- noneable_cmp p c ;;
                  match cmp with
                  | PNone => ret None
                  | _ =>
                      apply_cached_subs_of co ;;;
                      let o := mkop (op_subs co) (op_ret co) cmp false false in
                      (* a failure of use_cached_operation leaves the fields copied from
                         the cached record in place *)
                      r <- attempt (new_use_cached_operation o) ;;
                      match r with
                      | inl _ => ret (Some (inl o))
                      | inr e => ret (Some (inr (e, mkop (op_subs co) (op_ret co) cmp true true)))
                      end
                  end
              end) ;;
           match reused with
           | Some (inl o) => ret (Some (inl o))
           | Some (inr eo) => m_bd_error p ;;; ret (Some (inr eo))
           | None =>
               (* claim first, then move whatever is there out of the way; release the claim
                  again if that fails *)
               new_start_building_file p ;;;
               catch (w <- get ;;
                      if isfile (w_fs w) p then b <- back_up_and_remove p ;; ret tt else ret tt)
                     (fun e => new_abort_building_file p ;;; raise e) ;;;
               ret None
           end)
          (fun e => m_bd_error p ;;; raise e) in
      match setup w0 with
      | (w1, inr e) =>
          (* setup failed: the record is marked raised + setup_failed *)
          (w1, (inr e, Some (mkop [] PNone PNone true true)))
      | (w1, inl (Some (inl o))) => (w1, (inl (op_ret o), Some o))
      | (w1, inl (Some (inr (e, o)))) => (w1, (inr e, Some o))
      | (w1, inl None) =>
          (* _rebuild_file *)
          let w2 := set_log (LInvoke fname (Some p) sargs skw :: w_log w1) w1 in
          let '(w3, (res, subs)) := fn p sargs skw w2 in
          let fail (e : exn) (w : world) :=
            (* _handle_error_building_file *)
            let o := mkop subs PNone PNone true false in
            match (try_to_remove_file p ;;; m_bd_error p ;;; new_finish_building_file p o) w with
            | (w', inl _) => (w', (inr e, Some o))
            | (w', inr e') => (w', (inr e', Some (mkop subs PNone PNone true false)))
            end in
          match res with
          | inr e => fail e w3
          | inl v =>
              match sanitize v with
              | None => fail XType w3
              | Some sv =>
                  match noneable_cmp p c w3 with
                  | (w4, inr e) => fail e w4
                  | (w4, inl PNone) => fail (XRuntime RNotCreated) w4
                  | (w4, inl cmp) =>
                      let o := mkop subs sv cmp false false in
                      match new_finish_building_file p o w4 with
                      | (w5, _) => (w5, (inl sv, Some o))
                      end
                  end
              end
          end
      end
  | _, _ => (w0, (inr XType, None))
  end.

(* ------------------------------------------------------------------ subbuild *)
Definition m_subbuild (fname : string) (args kwargs : pyval) (fn : pyval -> pyval -> body)
  : world -> world * (outcome * option op) :=
  fun w0 =>
  match sanitize args, sanitize kwargs with
  | Some sargs, Some skw =>
      let mkop subs ret_ raised sf := OSubbuild fname sargs skw subs ret_ raised sf in
      let key := subbuild_key fname sargs skw in
      let setup : M (option (op + exn * op)) :=
        new_assert_no_subbuild key ;;;
        cached <- subbuild_cache_lookup key fname ;;
        match cached with
        | Some co =>
            apply_cached_subs_of co ;;;
            let o := mkop (op_subs co) (op_ret co) false false in
            r <- attempt (new_use_cached_operation o) ;;
            match r with
            | inl _ => ret (Some (inl o))
            | inr e => ret (Some (inr (e, mkop (op_subs co) (op_ret co) true true)))
            end
        | None => new_start_subbuild key ;;; ret None
        end in
      match setup w0 with
      | (w1, inr e) => (w1, (inr e, Some (mkop [] PNone true true)))
      | (w1, inl (Some (inl o))) => (w1, (inl (op_ret o), Some o))
      | (w1, inl (Some (inr (e, o)))) => (w1, (inr e, Some o))
      | (w1, inl None) =>
          let w2 := set_log (LInvoke fname None sargs skw :: w_log w1) w1 in
          let '(w3, (res, subs)) := fn sargs skw w2 in
          let finish (r : outcome) (o : op) :=
            match new_finish_subbuild key o w3 with (w4, _) => (w4, (r, Some o)) end in
          match res with
          | inr e => finish (inr e) (mkop subs PNone true false)
          | inl v =>
              match sanitize v with
              | None => finish (inr XType) (mkop subs PNone true false)
              | Some sv => finish (inl sv) (mkop subs sv false false)
              end
          end
      end
  | _, _ => (w0, (inr XType, None))
  end.

(* ------------------------------------------------------------------ queries *)
(* _exec_simple_operation: the record is appended whatever happens *)
Definition m_query (q : query) : world -> world * (outcome * option op) :=
  fun w0 =>
    match exec_query q None w0 with
    | (w1, inl v) => (w1, (inl v, Some (OSimple q v None)))
    | (w1, inr (XOS c)) => (w1, (inr (XOS c), Some (OSimple q PNone (Some c))))
    | (w1, inr e) => (w1, (inr e, Some (OSimple q PNone None)))
    end.
