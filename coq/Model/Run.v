(* Model/Run.v — driving the model with a strategy tree. *)
From Coq Require Import List String NArith Bool.
From FB.Base Require Import PyVal Fs.
From FB.Spec Require Import Prog.
From FB.Model Require Import Types Monad Builder Build.
Import ListNotations.
Open Scope list_scope.

Definition app_op (subs : list op) (o : option op) : list op :=
  match o with Some x => subs ++ [x] | None => subs end.

(* what user code sees: read_text hands out the content, not the comparison
   result that is recorded *)
Definition query_path (q : query) : path :=
  match q with
  | QExists p | QIsFile p | QIsDir p | QListDir p | QWalk p _ | QGetSize p | QRead p _ => p
  end.

(* Which OSError subclass a query raises for a path with an over-long component
   is left unspecified (observed as plain OSError on every side). *)
Definition canon_err (q : query) (r : outcome) : outcome :=
  match r with
  | inr (XOS _) => if path_ok (query_path q) then r else inr (XOS XOSError)
  | _ => r
  end.

Definition user_answer (q : query) (r : outcome) (w : world) : outcome :=
  let r' := canon_err q r in
  match q, r' with
  | QRead p _, inl _ =>
      match lookup (w_fs w) p with
      | Some (NFile f) => inl (PStr (f_bytes f))
      | _ => r'
      end
  | _, _ => r'
  end.

Definition log_answer (q : query) (r : outcome) (w : world) : world :=
  match r with
  | inl v => set_log (LAnswer q (inl v) :: w_log w) w
  | inr (XOS c) => set_log (LAnswer q (inr c) :: w_log w) w
  | inr _ => w
  end.

(* [target]: the output of the innermost build_file function being run;
   [subs]: the suboperations recorded so far on the current builder *)
Fixpoint run (pr : prog) (target : option path) (subs : list op) (w : world) {struct pr}
  : world * (outcome * list op) :=
  match pr with
  | Ret v => (w, (inl v, subs))
  | Raise e => (w, (inr e, subs))
  | Ask stale q k =>
      if stale then run (k (inr (XRuntime RFinished))) target subs w else
      let '(w1, (r, o)) := m_query q w in
      let r' := user_answer q r w1 in
      run (k r') target (app_op subs o) (log_answer q r' w1)
  | Write c k =>
      match target with
      | None => run k target subs w
      | Some p =>
          let clock := N.succ (w_clock w) in
          match write_file (w_fs w) p c None clock (w_nextid w) with
          | inl fs' => run k target subs (set_clock clock (N.succ (w_nextid w)) (set_fs fs' w))
          | inr e => (w, (inr (XOS (err_of e)), subs))     (* open() raises inside user code *)
          end
      end
  | BuildFile stale p c fname a kw fn k =>
      if stale then run (k (inr (XRuntime RFinished))) target subs w else
      let '(w1, (r, o)) :=
        m_build_file p c fname a kw (fun p' sa skw w' => run (fn p' sa skw) (Some p') [] w') w in
      run (k r) target (app_op subs o) w1
  | Subbuild stale fname a kw fn k =>
      if stale then run (k (inr (XRuntime RFinished))) target subs w else
      let '(w1, (r, o)) :=
        m_subbuild fname a kw (fun sa skw w' => run (fn sa skw) None [] w') w in
      run (k r) target (app_op subs o) w1
  end.

Definition run_build (cachefile : path) (nm : string) (vers : pyval) (root : prog) (w : world)
  : world * build_result :=
  let '(w', r) := m_build cachefile nm vers (fun w0 => run root None [] w0) w in
  (end_build w', r).
