(* Model/Run.v — driving the model with a strategy tree. *)
From Coq Require Import List String NArith Bool.
From FB.Base Require Import PyVal Fs.
From FB.Spec Require Import Prog.
From FB.Model Require Import Types Monad Builder Build.
Import ListNotations.
Open Scope list_scope.

Definition app_op (subs : list op) (o : option op) : list op :=
  match o with Some x => subs ++ [x] | None => subs end.

(* [target]: the output of the innermost build_file function being run;
   [subs]: the suboperations recorded so far on the current builder *)
Fixpoint run (pr : prog) (target : option path) (subs : list op) (w : world) {struct pr}
  : world * (outcome * list op) :=
  match pr with
  | Ret v => (w, (inl v, subs))
  | Raise e => (w, (inr e, subs))
  | Ask stale q k =>
      if stale then run (k (inr (XRuntime RFinished))) target subs w else
      let '(w1, (r, o)) := m_query q w in
      run (k r) target (app_op subs o) w1
  | Write c k =>
      match target with
      | None => run k target subs w
      | Some p =>
          let clock := N.succ (w_clock w) in
          match write_file (w_fs w) p c None clock (w_nextid w) with
          | inl fs' => run k target subs (set_clock clock (N.succ (w_nextid w)) (set_fs fs' w))
          | inr _ => run k target subs w
          end
      end
  | BuildFile stale p c fname a kw fn k =>
      if stale then run (k (inr (XRuntime RFinished))) target subs w else
      let '(w1, (r, o)) :=
        m_build_file p c fname a kw (fun p' sa skw w' => run (fn p' sa skw) (Some p') [] w') w in
      run (k r) target (app_op subs o) w1
  | Subbuild stale fname a kw fn k =>
      if stale then run (k (inr (XRuntime RFinished))) target subs w else
      let '(w1, (r, o)) :=
        m_subbuild fname a kw (fun sa skw w' => run (fn sa skw) None [] w') w in
      run (k r) target (app_op subs o) w1
  end.

Definition run_build (cachefile : path) (nm : string) (vers : pyval) (root : prog) (w : world)
  : world * build_result :=
  let '(w', r) := m_build cachefile nm vers (fun w0 => run root None [] w0) w in
  (end_build w', r).
