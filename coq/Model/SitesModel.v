(* Baseline of Gen/Sites.v the model was last aligned with (tools/accept_gen.py). *)
From Coq Require Import List String.
Import ListNotations.
Open Scope string_scope.

Definition sites_model : list (string * string * nat * list string) := [
  ("Cache.write", "gzip.open(w)", 1, []);
  ("FileBackups.__enter__", "tempfile.mkdtemp", 1, []);
  ("FileBackups.__exit__", "shutil.rmtree", 1, []);
  ("FileBackups.back_up_and_remove", "os.makedirs", 1, []);
  ("FileBackups.back_up_and_remove", "os.rename", 1, ["try"]);
  ("FileBackups.restore_all", "os.makedirs", 1, ["for"; "try"]);
  ("FileBackups.restore_all", "os.replace", 1, ["for"; "try"]);
  ("FileBuilder._make_dirs", "os.mkdir", 1, ["try"; "for"; "try"]);
  ("FileBuilder._make_room", "os.rmdir", 1, ["try"]);
  ("FileBuilder._ensure_dir_case", "os.rename", 1, ["not FileBuilder._has_case(dir_)"]);
  ("FileBuilder._try_to_remove_file", "os.remove", 1, ["os.path.isfile(filename)"; "try"]);
  ("FileBuilder._remove_empty_dirs", "os.rmdir", 1, ["for"; "try"]);
  ("FileBuilder._create_dirs", "os.mkdir", 1, ["for"; "try"])
].
