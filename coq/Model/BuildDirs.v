(* Model/BuildDirs.v — build_dirs.py, routine by routine.  The routines read
   the real file system (listdir / isfile / isdir) but never change it, so they
   are pure functions of the tree.  [None] is a KeyError. *)
From Coq Require Import List String Bool Arith.
From FB.Base Require Import PyVal Fs.
From FB.Model Require Import Types.
Import ListNotations.
Open Scope list_scope.

Definition bd_with (b : bdirs) counts created err removed exists_ maybe rfiles : bdirs :=
  {| bd_counts := counts; bd_created := created; bd_err_created := err; bd_removed := removed;
     bd_exists := exists_; bd_maybe := maybe; bd_removed_files := rfiles |}.

Definition bd_init (old_dirs old_files : list path) : bdirs :=
  {| bd_counts := []; bd_created := []; bd_err_created := []; bd_removed := []; bd_exists := [];
     bd_maybe := fold_left (fun acc p => add_path p acc) old_dirs [];
     bd_removed_files := fold_left (fun acc p => add_path p acc) old_files [] |}.

Definition in_counts (b : bdirs) (p : path) : bool :=
  match cnt_get (bd_counts b) p with Some _ => true | None => false end.

(* _handle_dir_exists: second loop *)
Fixpoint hde2 (b : bdirs) (p : path) : bdirs :=
  if mem_path p (bd_exists b) then b else
  let b' := bd_with b (bd_counts b) (bd_created b) (bd_err_created b) (bd_removed b)
                    (add_path p (bd_exists b)) (bd_maybe b) (bd_removed_files b) in
  match p with [] => b' | _ :: d => hde2 b' d end.

(* _handle_dir_exists: first loop, then the second *)
Fixpoint handle_dir_exists (b : bdirs) (p : path) : bdirs :=
  if mem_path p (bd_exists b) || in_counts b p then hde2 b p else
  let b' := bd_with b (bd_counts b) (bd_created b) (bd_err_created b) (del_path p (bd_removed b))
                    (add_path p (bd_exists b)) (del_path p (bd_maybe b)) (del_path p (bd_removed_files b)) in
  match p with [] => b' | _ :: d => handle_dir_exists b' d end.

(* _check_maybe_removed_dir; fuel bounds the recursion (each call removes one
   element of _maybe_removed_dirs, see Proofs).  Result None = an OSError other
   than the two handled classes escaped from os.listdir, or fuel ran out. *)
Inductive scanres := ScanOk (b : bdirs) (removed : bool) | ScanErr (b : bdirs) (e : oserr) | ScanFuel.

Fixpoint check_maybe (fuel : nat) (fs : fsT) (b : bdirs) (d : path) : scanres :=
  match fuel with
  | O => ScanFuel
  | S fuel' =>
      let b0 := bd_with b (bd_counts b) (bd_created b) (bd_err_created b) (bd_removed b)
                        (bd_exists b) (del_path d (bd_maybe b)) (bd_removed_files b) in
      match listdir fs d with
      | inr ENOENT =>
          ScanOk (bd_with b0 (bd_counts b0) (bd_created b0) (bd_err_created b0) (add_path d (bd_removed b0))
                          (bd_exists b0) (bd_maybe b0) (bd_removed_files b0)) true
      | inr ENOTDIR => ScanOk (handle_dir_exists b0 (dirname d)) false
      | inr e => ScanErr b0 e
      | inl names =>
          (fix loop (ns : list name) (b1 : bdirs) : scanres :=
             match ns with
             | [] => ScanOk (bd_with b1 (bd_counts b1) (bd_created b1) (bd_err_created b1) (add_path d (bd_removed b1))
                                      (bd_exists b1) (bd_maybe b1) (bd_removed_files b1)) true
             | n :: rest =>
                 let a := n :: d in
                 if mem_path a (bd_removed b1) then
                   if isfile fs a then ScanOk (handle_dir_exists b1 d) false else loop rest b1
                 else if mem_path a (bd_removed_files b1) then
                   if isdir fs a then ScanOk (handle_dir_exists b1 a) false else loop rest b1
                 else if mem_path a (bd_maybe b1) then
                   match check_maybe fuel' fs b1 a with
                   | ScanOk b2 true => loop rest b2
                   | r => r
                   end
                 else
                   ScanOk (if isdir fs a then handle_dir_exists b1 a else handle_dir_exists b1 d) false
             end) names b0
      end
  end.

(* is_removed_norm_case *)
Definition is_removed (fs : fsT) (b : bdirs) (d : path) : scanres :=
  if in_counts b d then ScanOk b false
  else if mem_path d (bd_removed b) then ScanOk b true
  else if negb (mem_path d (bd_maybe b)) then ScanOk b false
  else check_maybe (S (List.length (bd_maybe b))) fs b d.

(* started_building_file(filename, created_dirs) -> locked_created_dirs *)
Fixpoint bd_started_from (b : bdirs) (created_dirs : list path) (parent : path) (acc : list path)
  : bdirs * list path :=
  let count := match cnt_get (bd_counts b) parent with Some n => n | None => 0 end in
  let b1 := bd_with b (cnt_set (bd_counts b) parent (S count)) (bd_created b) (bd_err_created b)
                    (bd_removed b) (bd_exists b) (bd_maybe b) (bd_removed_files b) in
  if Nat.ltb 0 count then (b1, acc) else
  let '(b2, acc2) :=
    if mem_path parent created_dirs then
      (bd_with b1 (bd_counts b1) (add_path parent (bd_created b1)) (del_path parent (bd_err_created b1))
               (bd_removed b1) (bd_exists b1) (bd_maybe b1) (del_path parent (bd_removed_files b1)),
       acc ++ [parent])
    else (b1, acc) in
  match parent with
  | [] => (b2, acc2)
  | _ :: d => bd_started_from b2 created_dirs d acc2
  end.

Definition bd_started (b : bdirs) (filename : path) (created_dirs : list path) : bdirs * list path :=
  let b0 := bd_with b (bd_counts b) (bd_created b) (bd_err_created b) (bd_removed b) (bd_exists b)
                    (bd_maybe b) (del_path filename (bd_removed_files b)) in
  match filename with
  | [] => (b0, [])
  | _ :: d => bd_started_from b0 created_dirs d []
  end.

Fixpoint bd_error_from (b : bdirs) (parent : path) : option bdirs :=
  match cnt_get (bd_counts b) parent with
  | None => None                                   (* KeyError *)
  | Some n =>
      let count := n - 1 in
      if Nat.ltb 0 count then
        Some (bd_with b (cnt_set (bd_counts b) parent count) (bd_created b) (bd_err_created b)
                      (bd_removed b) (bd_exists b) (bd_maybe b) (bd_removed_files b))
      else
        let b1 := bd_with b (cnt_del (bd_counts b) parent) (bd_created b) (bd_err_created b)
                          (bd_removed b) (bd_exists b) (bd_maybe b) (bd_removed_files b) in
        let b2 :=
          if mem_path parent (bd_created b1) then
            bd_with b1 (bd_counts b1) (del_path parent (bd_created b1)) (add_path parent (bd_err_created b1))
                    (bd_removed b1) [] (add_path parent (bd_maybe b1)) (bd_removed_files b1)
          else b1 in
        match parent with [] => Some b2 | _ :: d => bd_error_from b2 d end
  end.

Definition bd_error (b : bdirs) (filename : path) : option bdirs :=
  match filename with [] => Some b | _ :: d => bd_error_from b d end.
