(* Model/Dsl.v — helpers used by the Gallina text the harness emits for DSL
   programs, histories (external mutations, builds, clean) and canonical
   observations.  The Python twins are in harness/dsl.py. *)
From Coq Require Import List String Ascii NArith ZArith Bool Arith.
From FB.Base Require Import PyVal Fs.
From FB.Spec Require Import Prog.
From FB.Model Require Import Types Monad SimpleOps Builder Persist Build Run.
Import ListNotations.
Open Scope list_scope.
Open Scope string_scope.

Fixpoint join (sep : string) (l : list string) : string :=
  match l with
  | [] => ""
  | [x] => x
  | x :: r => x ++ sep ++ join sep r
  end.

Fixpoint show_val (v : pyval) : string :=
  match v with
  | PNone => "N"
  | PBool true => "T"
  | PBool false => "F"
  | PInt z => int_repr z
  | PFloat f => "f" ++ float_repr f
  | PStr s => "'" ++ s ++ "'"
  | PList l => "[" ++ join "," (map show_val l) ++ "]"
  | PTuple l => "(" ++ join "," (map show_val l) ++ ")"
  | PDict d =>
      (* dictionaries are compared with ==: the order of the keys is not an observation *)
      "{" ++ join "," (map (fun kv => fst kv ++ ":" ++ snd kv)
                           (sort_by (fun a b => str_leb (fst a) (fst b))
                                    (map (fun kv => match kv with (k, x) => (show_val k, show_val x) end) d))) ++ "}"
  | POther n => "<obj>"
  end.

Definition exn_class (e : exn) : string :=
  match e with
  | XUser n => "User" ++ int_repr (Z.of_nat n)
  | XRuntime _ => "RuntimeError"
  | XType => "TypeError"
  | XOS c => err_name c
  | XCrash w => "Crash"
  end.

Definition show_outcome (o : outcome) : string :=
  match o with inl v => "ok:" ++ show_val v | inr e => "err:" ++ exn_class e end.

Definition is_ok (o : outcome) : bool := match o with inl _ => true | inr _ => false end.
Definition is_true_o (o : outcome) : bool := match o with inl (PBool true) => true | _ => false end.
Definition val_of (o : outcome) : pyval := match o with inl v => v | inr _ => PNone end.
Definition contains_o (o : outcome) (n : string) : bool :=
  match o with inl (PList l) => existsb (fun x => match x with PStr s => String.eqb s n | _ => false end) l | _ => false end.
Definition eq_o (o : outcome) (v : pyval) : bool :=
  match o with inl x => pyval_same x v | inr _ => false end.
Definition arg_n (a : pyval) (i : nat) : pyval := nth i (py_seq a) PNone.

(* ---- histories ---- *)
Inductive fsop :=
| FWrite (p : path) (bytes : string)           (* create or overwrite, new mtime *)
| FTouch (p : path)                             (* new mtime only *)
| FRewriteSameMeta (p : path) (bytes : string)  (* same size expected, mtime kept *)
| FRm (p : path)
| FMkdir (p : path)
| FRmtree (p : path)
| FCorruptCache (p : path) (j : option pyval)   (* replace the content of the cache file *)
| FNewerVersion (p : path).                     (* a cache file written by a newer format version *)

Definition tick (w : world) : world := set_clock (N.succ (w_clock w)) (w_nextid w) w.

Definition rmtree (fs : fsT) (p : path) : fsT := upd p None (drop_below fs p).

Definition apply_fsop (w : world) (o : fsop) : world :=
  match o with
  | FWrite p b =>
      let w1 := tick w in
      match makedirs_p (w_fs w1) (dirname p) with
      | (fs1, None) =>
          match write_file fs1 p b None (w_clock w1) (w_nextid w1) with
          | inl fs2 => set_clock (w_clock w1) (N.succ (w_nextid w1)) (set_fs fs2 w1)
          | inr _ => set_fs fs1 w1
          end
      | (fs1, Some _) => set_fs fs1 w1
      end
  | FTouch p =>
      let w1 := tick w in
      match lookup (w_fs w1) p with
      | Some (NFile f) => set_fs (upd p (Some (NFile {| f_bytes := f_bytes f; f_mtime := w_clock w1; f_id := f_id f; f_json := f_json f |})) (w_fs w1)) w1
      | _ => w1
      end
  | FRewriteSameMeta p b =>
      match lookup (w_fs w) p with
      | Some (NFile f) => set_fs (upd p (Some (NFile {| f_bytes := b; f_mtime := f_mtime f; f_id := f_id f; f_json := None |})) (w_fs w)) w
      | _ => w
      end
  | FRm p => match remove (w_fs w) p with inl fs' => set_fs fs' w | inr _ => w end
  | FMkdir p => set_fs (fst (makedirs_p (w_fs w) p)) w
  | FRmtree p => match p with [] => w | _ => set_fs (rmtree (w_fs w) p) w end
  | FCorruptCache p j =>
      match lookup (w_fs w) p with
      | Some (NFile f) => set_fs (upd p (Some (NFile {| f_bytes := "<corrupt>"; f_mtime := f_mtime f; f_id := f_id f; f_json := j |})) (w_fs w)) w
      | _ => w
      end
  | FNewerVersion p =>
      match lookup (w_fs w) p with
      | Some (NFile f) =>
          let j := match f_json f with
                   | Some (PDict d) => Some (PDict (assoc_set (PStr "cacheFileVersion") (PInt 2) d))
                   | x => x end in
          set_fs (upd p (Some (NFile {| f_bytes := "<newer>"; f_mtime := f_mtime f; f_id := f_id f; f_json := j |})) (w_fs w)) w
      | _ => w
      end
  end.

Definition init_world : world :=
  {| w_fs := []; w_clock := 0; w_nextid := 1;
     w_old := empty_cache "" (PDict []); w_new := empty_cache "" (PDict []);
     w_bd := BuildDirs.bd_init [] []; w_backups := []; w_lost := []; w_hash := [];
     w_cachefile := []; w_log := []; w_faults := []; w_effects := 0 |}.

(* ordinals of the mutating library calls that must fail (C14) *)
Definition with_faults (l : list nat) (w : world) : world :=
  {| w_fs := w_fs w; w_clock := w_clock w; w_nextid := w_nextid w; w_old := w_old w; w_new := w_new w;
     w_bd := w_bd w; w_backups := w_backups w; w_lost := w_lost w; w_hash := w_hash w;
     w_cachefile := w_cachefile w; w_log := w_log w; w_faults := l; w_effects := w_effects w |}.

(* ---- canonical observations ---- *)
Definition show_path (p : path) : string := path_str p.

(* every path of the store that exists, sorted by text, with its description;
   [prev] is the tree before the step (for the same-inode class) *)
Definition all_paths (fs : fsT) : list path :=
  (fix dd (l : list path) : list path :=
     match l with [] => [] | p :: r => if mem_path p r then dd r else p :: dd r end)
    (filter (fun p => lexists fs p && negb (path_eqb p [])) (map fst fs)).

Definition show_node (prev fs : fsT) (cachefile : path) (p : path) : string :=
  match lookup fs p with
  | Some NDir => show_path p ++ "|D"
  | Some (NFile f) =>
      if path_eqb p cachefile then show_path p ++ "|CACHE"
      else show_path p ++ "|F|" ++ f_bytes f ++ "|" ++ int_repr (Z.of_N (f_mtime f)) ++ "|" ++
           (match lookup prev p with
            | Some (NFile g) => if N.eqb (f_id g) (f_id f) then "same" else "new"
            | _ => "new" end)
  | None => ""
  end.

Definition show_tree (prev fs : fsT) (cachefile : path) : list string :=
  sort_strs (map (show_node prev fs cachefile) (all_paths fs)).

Definition show_query (q : query) : string :=
  query_name q ++ "(" ++ join "," (map show_val (query_args q)) ++ ")".

Definition show_log1 (e : logentry) : list string :=
  match e with
  | LInvoke f t a k => ["invoke " ++ f ++ " " ++ match t with Some p => show_path p | None => "-" end
                        ++ " " ++ show_val a ++ " " ++ show_val k]
  | LAnswer q (inl v) => ["answer " ++ show_query q ++ " = " ++ show_val v]
  | LAnswer q (inr c) => ["answer " ++ show_query q ++ " ! " ++ err_name c]
  | LEffect _ _ => []
  end.

(* log entries added since [before] (w_log is newest first) *)
Definition new_log (before after : world) : list logentry :=
  rev (firstn (List.length (w_log after) - List.length (w_log before)) (w_log after)).

Definition show_result (r : build_result) : string :=
  match r with
  | Refused e => "err:" ++ exn_class e
  | Done o => show_outcome o
  end.

Definition observe (before after : world) (cachefile : path) (r : build_result) : list string :=
  ([show_result r] ++ flat_map show_log1 (new_log before after) ++ ["--tree"] ++
   show_tree (w_fs before) (w_fs after) cachefile)%list.

Inductive hstep :=
| HMutate (ops : list fsop)
| HBuild (vers : pyval) (root : prog)
| HClean (nm : option string).

(* run a history; one observation per step *)
Fixpoint run_history (cachefile : path) (nm : string) (h : list hstep) (w : world) : list (list string) :=
  match h with
  | [] => []
  | HMutate ops :: r =>
      let w' := fold_left apply_fsop ops w in
      (["mutated"] ++ ["--tree"] ++ show_tree (w_fs w) (w_fs w') cachefile)%list :: run_history cachefile nm r w'
  | HBuild vers root :: r =>
      let '(w', res) := run_build cachefile nm vers root w in
      observe w w' cachefile res :: run_history cachefile nm r w'
  | HClean n :: r =>
      let '(w', res) := m_clean cachefile n w in
      observe w w' cachefile res :: run_history cachefile nm r w'
  end.

Definition str_list_eqb (a b : list string) : bool := list_same String.eqb a b.

(* index of the first step whose observation differs, or None *)
Definition first_diff (got want : list (list string)) : option nat :=
  (fix go (i : nat) (g w : list (list string)) : option nat :=
     match g, w with
     | [], [] => None
     | x :: g', y :: w' => if str_list_eqb x y then go (S i) g' w' else Some i
     | _, _ => Some i
     end) 0 got want.
