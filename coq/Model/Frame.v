(* Model/Frame.v — vocabulary of the frame / rollback theorems (C02, C03, C10):
   the set of paths a build may legitimately touch. Definitions only. *)
From Coq Require Import List String NArith Bool.
From FB.Base Require Import PyVal Fs.
From FB.Gen Require Import JsonUtilGen.
From FB.Spec Require Import Prog.
From FB.Model Require Import Types Monad Builder Persist Build Run.
Import ListNotations.
Open Scope list_scope.

(* every path passed to build_file anywhere in the strategy tree satisfies P *)
Inductive AllTargets (P : path -> Prop) : prog -> Prop :=
| AT_Ret : forall v, AllTargets P (Ret v)
| AT_Raise : forall e, AllTargets P (Raise e)
| AT_Ask : forall s q k, (forall o, AllTargets P (k o)) -> AllTargets P (Ask s q k)
| AT_Write : forall c k, AllTargets P k -> AllTargets P (Write c k)
| AT_BuildFile : forall s p c f a kw fn k,
    P p -> (forall p' a' k', AllTargets P (fn p' a' k')) -> (forall o, AllTargets P (k o)) ->
    AllTargets P (BuildFile s p c f a kw fn k)
| AT_Subbuild : forall s f a kw fn k,
    (forall a' k', AllTargets P (fn a' k')) -> (forall o, AllTargets P (k o)) ->
    AllTargets P (Subbuild s f a kw fn k).

(* the previous committed build as m_build reads it from the cache file *)
Definition old_cache_of (fs : fsT) (cf : path) (nm : string) (svers : pyval) : cache :=
  match lookup fs cf with
  | Some (NFile f) => match cache_of_json (f_json f) with ReadOk old => old | _ => empty_cache nm svers end
  | _ => empty_cache nm svers
  end.

(* paths whose regular files a build may create, overwrite, move or delete *)
Definition Managed (P : path -> Prop) (old : cache) (cf : path) (p : path) : Prop :=
  P p \/ In p (cache_created_files old) \/ p = cf.

(* the looser variant: every path the previous build registered, also for failed calls *)
Definition ManagedL (P : path -> Prop) (old : cache) (cf : path) (p : path) : Prop :=
  P p \/ In p (map fst (c_files old)) \/ p = cf.
