(* Properties/C06.v — version changes invalidate exactly the function and its
   transitive callers.  About the lookup and replay routines of Model/Builder.v
   (_build_file_cache_lookup, _subbuild_cache_lookup, _is_*_operation_cached);
   proofs in Proofs/ReplayLaws.v. *)
From Coq Require Import List String Bool ZArith.
Open Scope Z_scope. Open Scope string_scope. Open Scope list_scope.
From FB.Base Require Import PyVal Fs.
From FB.Gen Require Import JsonUtilGen.
From FB.Spec Require Import JsonSpec.
From FB.Model Require Import Types Monad CreatedFiles SimpleOps Builder.
From FB.Proofs Require Import JsonLaws ReplayLaws.
From FB.Proofs Require CacheGenLaws.   (* T1g: the model routines are equal to the translation of the source (Gen/CacheGen.v) *)
From FB.Proofs Require OpsGenLaws.   (* T1g: build_file*, subbuild, queries, cache validation of file_builder.py = Model/Builder.v (Gen/OpsGen.v) *)
Import ListNotations.

(* a call of a function whose version differs (as JSON values; absent = None) is never served from the cache *)
Theorem C06_changed_function_missed_file : forall p f a k w w' r,
  is_equal (func_version (w_old w) f) (func_version (w_new w) f) = false ->
  build_file_cache_lookup p f a k w = (w', inl r) -> r = None.
Proof. exact version_miss_file. Qed.

Theorem C06_changed_function_missed_subbuild : forall key f w w' r,
  is_equal (func_version (w_old w) f) (func_version (w_new w) f) = false ->
  subbuild_cache_lookup key f w = (w', inl r) -> r = None.
Proof. exact version_miss_subbuild. Qed.

(* ... and neither is any record whose subtree contains a record of that function:
   every operation that transitively called it is re-executed *)
Theorem C06_transitive_callers_missed : forall f o cf w w' b cf',
  is_equal (func_version (w_old w) f) (func_version (w_new w) f) = false ->
  mentions f o = true -> is_op_cached o cf w = (w', inl (b, cf')) -> b = false.
Proof. exact version_miss_callers. Qed.

(* absent means None *)
Theorem C06_absent_is_none : forall c f, assoc_get (PStr f) (py_items (c_fvers c)) = None -> func_version c f = PNone.
Proof. intros c f H. unfold func_version, py_dict_get. rewrite H. reflexivity. Qed.

(* the comparison is JSON equality: key order irrelevant, 1 = 1.0, True <> 1 *)
Theorem C06_json_equal_versions :
  is_equal (PDict [(PStr "a", PInt 1); (PStr "b", PInt 2)]) (PDict [(PStr "b", PInt 2); (PStr "a", PInt 1)]) = true /\
  is_equal (PInt 1) (PFloat (FFin false 1%positive 0)) = true /\ is_equal (PBool true) (PInt 1) = false /\
  is_equal PNone (PInt 0) = false.
Proof. repeat split; reflexivity. Qed.

(* the decision only looks at is_equal of the two versions: symmetric in old/new *)
Theorem C06_version_test_symmetric : forall a b, sanitized_t a = true -> sanitized_t b = true -> is_equal a b = is_equal b a.
Proof. exact is_equal_sym. Qed.
