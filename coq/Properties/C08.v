(* Properties/C08.v — at most one execution per output file and per subbuild
   key in a build (sequential half; the thread half is in C08conc below the
   line).  About Model/Builder.v and Model/Run.v; proofs in Proofs/ReplayLaws.v. *)
From Coq Require Import List String Bool.
From FB.Base Require Import PyVal Fs.
From FB.Gen Require Import JsonUtilGen.
From FB.Spec Require Import Prog.
From FB.Model Require Import Types Monad CreatedFiles SimpleOps Builder Run.
From FB.Proofs Require Import ReplayLaws.
From FB.Proofs Require CacheGenLaws.   (* T1g: the model routines are equal to the translation of the source (Gen/CacheGen.v) *)
From FB.Proofs Require OpsGenLaws.   (* T1g: build_file*, subbuild, queries, cache validation of file_builder.py = Model/Builder.v (Gen/OpsGen.v) *)
Import ListNotations.

(* a second build_file for a claimed path raises RuntimeError, the function is not applied ([fn] does not
   occur in the result), and the world is unchanged: output, return value and record of the first call
   are not disturbed; the rejected attempt is recorded on the caller as failed in setup *)
Theorem C08_duplicate_file_rejected : forall p c f a kw fn w sa skw,
  sanitize a = Some sa -> sanitize kw = Some skw -> cache_has_file (w_new w) p = true ->
  m_build_file p c f a kw fn w = (w, (inr (XRuntime RDupFile), Some (OBuildFile p c f sa skw [] PNone PNone true true))).
Proof. exact dup_file_rejected. Qed.

Theorem C08_duplicate_subbuild_rejected : forall f a kw fn w sa skw,
  sanitize a = Some sa -> sanitize kw = Some skw ->
  cache_has_subbuild (w_new w) (subbuild_key f sa skw) = true ->
  m_subbuild f a kw fn w = (w, (inr (XRuntime RDupSubbuild), Some (OSubbuild f sa skw [] PNone true true))).
Proof. exact dup_subbuild_rejected. Qed.

(* the claim of a successful call (fresh or served from the cache) is in place afterwards ... *)
Theorem C08_claimed_after_success : forall p c f a kw fn w w' v o,
  (forall p' a' k' u u' r', fn p' a' k' u = (u', r') -> claims_le u u') ->
  m_build_file p c f a kw fn w = (w', (inl v, Some o)) -> cache_has_file (w_new w') p = true.
Proof. exact claimed_after_success. Qed.

(* ... and claims are never dropped while any user code runs, whatever it does: so the duplicate
   rule applies at the same level, in nested functions and after caught failures *)
Theorem C08_claims_only_grow : forall pr target subs w w' r, run pr target subs w = (w', r) -> claims_le w w'.
Proof. exact run_claims_mono. Qed.

(* a rejected attempt is never itself served from the cache, nor is any record containing one:
   callers that caught the rejection are re-executed in later builds *)
Theorem C08_rejected_never_served : forall o cf w w' b cf',
  has_sf o = true -> is_op_cached o cf w = (w', inl (b, cf')) -> b = false.
Proof. exact never_served_sf. Qed.

Theorem C08_lookup_serves_no_failure : forall p f a k w w' o,
  build_file_cache_lookup p f a k w = (w', inl (Some o)) ->
  cache_get_file (w_old w) p = Some o /\ op_raised o = false /\ forallb (fun s => negb (has_sf s)) (op_subs o) = true.
Proof. exact lookup_never_raised. Qed.

Theorem C08_sublookup_serves_no_failure : forall key f w w' o,
  subbuild_cache_lookup key f w = (w', inl (Some o)) ->
  subs_get (c_subs (w_old w)) key = Some (Some o) /\ op_raised o = false /\ forallb (fun s => negb (has_sf s)) (op_subs o) = true.
Proof. exact sublookup_never_raised. Qed.

(* ---- thread half (label: partial, at lock granularity) ---- *)
From FB.Model Require Import Conc Skeleton.
From FB.Proofs Require Import ClaimLaws FsLemmas ConcLaws.

(* claiming a path is one critical section (check and insert under Cache._files_lock; likewise for
   subbuild keys and for reused subtrees), so however the threads interleave their claims reach the
   lock in some order: of n+1 threads claiming the same unclaimed path exactly the first passes *)
Theorem C08_claim_exclusive : forall n s (p : path), claimed path path_eqb s p = false ->
  snd (run_claims path path_eqb s (repeat p (S n))) = true :: repeat false n.
Proof. intros. apply claim_exclusive; [exact path_eqb_eq | assumption]. Qed.

Theorem C08_claimed_at_most_once : forall ks s (p : path),
  List.length (filter (fun kb => path_eqb (fst kb) p && snd kb) (combine ks (snd (run_claims path path_eqb s ks)))) <= 1.
Proof. intros. apply claim_at_most_once. exact path_eqb_eq. Qed.

Theorem C08_claims_are_critical_sections : segments_justified = true.
Proof. exact (proj2 table_checks). Qed.

(* the first call is not disturbed: in _build_file the claim precedes moving the old file aside
   (computed on the call order generated from the current source) *)
Theorem C08_claim_precedes_backup : claim_before_backup = true.
Proof. vm_compute. reflexivity. Qed.
