(* Properties/C18.v — JSON helper laws, stated about the functions GENERATED
   from /repo/file_builder/json_util.py (Gen/JsonUtilGen.v).  Statements only;
   every proof is `exact <lemma of Proofs/JsonLaws.v>`. *)
From Coq Require Import List String ZArith Bool.
From FB.Base Require Import PyVal.
From FB.Spec Require Import JsonSpec.
From FB.Gen Require Import JsonUtilGen.
From FB.Proofs Require Import JsonLaws.
Import ListNotations.

(* sanitize accepts exactly the JSON values and rejects everything else (TypeError = None) *)
Theorem C18_sanitize_accepts_iff : forall v, (exists w, sanitize v = Some w) <-> jsonable v = true.
Proof. exact sanitize_some_iff. Qed.

Corollary C18_sanitize_rejects : forall v, jsonable v = false -> sanitize v = None.
Proof.
  intros v H. destruct (sanitize v) as [w|] eqn:E; [|reflexivity].
  assert (jsonable v = true) by (apply sanitize_some_iff; eauto). congruence.
Qed.

(* the result is a possible value of json.loads(json.dumps(_)): only dict/list/str/int/float/bool/None,
   string keys, no tuples *)
Theorem C18_sanitize_sanitized : forall v w, sanitize v = Some w -> sanitized w = true.
Proof. exact sanitize_sanitized. Qed.

Theorem C18_sanitize_idempotent : forall v w, sanitize v = Some w -> sanitize w = Some w.
Proof. exact sanitize_idem. Qed.

Theorem C18_sanitize_fixes_sanitized : forall w, sanitized w = true -> sanitize w = Some w.
Proof. exact sanitize_fixed. Qed.

(* JSON equality is an equivalence on sanitized values (tuples allowed) *)
Theorem C18_is_equal_refl : forall a, sanitized_t a = true -> is_equal a a = true.
Proof. exact is_equal_refl. Qed.

Theorem C18_is_equal_sym : forall a b, sanitized_t a = true -> sanitized_t b = true -> is_equal a b = is_equal b a.
Proof. exact is_equal_sym. Qed.

Theorem C18_is_equal_trans : forall a b c,
  sanitized_t a = true -> sanitized_t b = true -> sanitized_t c = true ->
  pv_wf a = true -> pv_wf b = true -> pv_wf c = true ->
  is_equal a b = true -> is_equal b c = true -> is_equal a c = true.
Proof. exact is_equal_trans. Qed.

(* booleans never equal numbers; 1 equals 1.0; lists equal tuples *)
Theorem C18_bool_num : forall b z f,
  is_equal (PBool b) (PInt z) = false /\ is_equal (PInt z) (PBool b) = false /\
  is_equal (PBool b) (PFloat f) = false /\ is_equal (PFloat f) (PBool b) = false.
Proof. exact is_equal_bool_num. Qed.

Theorem C18_int_float : forall z f,
  is_equal (PInt z) (PFloat f) = int_fl_eqb z f /\ is_equal (PFloat f) (PInt z) = int_fl_eqb z f.
Proof. exact is_equal_int_float. Qed.

Theorem C18_one_is_one_point_zero : is_equal (PInt 1) (PFloat (FFin false 1 0)) = true.
Proof. reflexivity. Qed.

Theorem C18_list_tuple : forall l v,
  is_equal (PTuple l) v = is_equal (PList l) v /\ is_equal v (PTuple l) = is_equal v (PList l).
Proof. exact is_equal_list_tuple. Qed.

(* equal hashable forms iff JSON-equal *)
Theorem C18_hashable_iff : forall a b, sanitized a = true -> sanitized b = true ->
  py_eq (to_hashable a) (to_hashable b) = is_equal a b.
Proof. exact hashable_iff. Qed.

(* non-vacuity: a concrete nested value meets every hypothesis *)
Example C18_nonvacuous :
  let v := PDict [(PStr "b", PList [PInt 1; PFloat (FFin false 3 (-1))]); (PStr "a", PDict [(PStr "x", PBool true)])] in
  sanitized v = true /\ sanitized_t v = true /\ pv_wf v = true /\ jsonable (PTuple [v; PDict [(PInt 1, PNone)]]) = true.
Proof. vm_compute. repeat split. Qed.
