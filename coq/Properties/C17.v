(* Properties/C17.v — finished builders are fenced off.  Sequential half: a
   call on a finished builder (the model's [stale] calls) raises RuntimeError,
   records nothing and leaves the world unchanged.  Race half (label: partial,
   at lock granularity): for any interleaving of a straggler call's steps with
   the owner's close, the call returned normally iff its record is part of the
   operation's record.  Proofs in Proofs/ConcLaws.v. *)
From Coq Require Import List String Bool.
From FB.Base Require Import PyVal Fs.
From FB.Spec Require Import Prog.
From FB.Model Require Import Types Monad Builder Run Conc.
From FB.Proofs Require Import ConcLaws.
From FB.Proofs Require OpsGenLaws.   (* T1g: build_file*, subbuild, queries, cache validation of file_builder.py = Model/Builder.v (Gen/OpsGen.v) *)
Import ListNotations.

(* sequential: the three kinds of calls on a finished builder *)
Theorem C17_fenced_query : forall q k target subs w,
  run (Ask true q k) target subs w = run (k (inr (XRuntime RFinished))) target subs w.
Proof. reflexivity. Qed.

Theorem C17_fenced_build_file : forall p c f a kw fn k target subs w,
  run (BuildFile true p c f a kw fn k) target subs w = run (k (inr (XRuntime RFinished))) target subs w.
Proof. reflexivity. Qed.

Theorem C17_fenced_subbuild : forall f a kw fn k target subs w,
  run (Subbuild true f a kw fn k) target subs w = run (k (inr (XRuntime RFinished))) target subs w.
Proof. reflexivity. Qed.

(* race: one straggler call recording r, steps [check; append-under-lock], against close-under-lock *)
Theorem C17_linearizable : forall r l, only_r r l ->
  (snd (frun l) = Some true <-> In r (b_subs (fst (frun l)))).
Proof. exact finished_linearizable. Qed.

Theorem C17_fenced_after_close : forall r l1 l2, only_r r l1 -> only_r r l2 ->
  snd (frun l1) = None -> (exists st, In st l2 /\ st <> FClose) ->
  snd (frun (l1 ++ FClose :: l2)) = Some false /\ ~ In r (b_subs (fst (frun (l1 ++ FClose :: l2)))).
Proof. exact finished_fenced. Qed.

Theorem C17_recorded_at_most_once : forall r l, only_r r l ->
  List.count_occ PeanoNat.Nat.eq_dec (b_subs (fst (frun l))) r <= 1.
Proof. exact finished_no_duplicates. Qed.

(* the two critical sections are single `with self._lock` blocks in the code *)
Theorem C17_segments_are_critical_sections : segments_justified = true.
Proof. exact (proj2 table_checks). Qed.
