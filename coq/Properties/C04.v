(* Properties/C04.v — the virtual file-system view (label: partial).
   MAIN THEOREMS (Proofs/View*.v, 3400 lines, on the mechanism model = build_dirs.py /
   simple_operation_executor.py routine by routine):
   * the VIEW of a world is defined semantically (ViewDefs.v: a regular file is hidden when it
     is the cache file, an old output not rebuilt, or a target in progress; a directory is
     dead when it is a candidate of the previous build, not reserved by this build, and
     everything physically in it is hidden or dead), without the caches of BuildDirs;
   * C04_scan_sound: under the invariant BInv the cached, state-changing scan
     (_check_maybe_removed_dir / is_removed_norm_case) decides exactly `dead`, never runs out
     of fuel, and its cache updates preserve BInv and the view;
   * C04_answers_are_posix_answers_on_the_view: every live query (exists, is_file, is_dir,
     list_dir, walk, get_size; read: exec_query_view) answers - value or error class - what
     the ordinary POSIX answer on the view tree is, and leaves the view unchanged;
   * the consistency laws of the property on the view (exists = is_file or is_dir; list_dir =
     the names that exist; the parent of anything that exists is a directory);
   * C04_view_at_build_start_is_the_cleaned_tree: BInv holds when user code starts, and the
     view then IS the reference tree ref_clean (previous outputs, cache file and emptied
     created directories gone), entry by entry.
   * C04_every_answer_during_a_build (Proofs/ViewX*.v): the stronger invariant XInv (counting
     law of BuildDirs relative to the live targets) holds in EVERY world reachable by running
     any program - success and failure paths of build_file, failing _make_dirs, _make_room,
     subbuild, and cache hits (validation, adoption of a recorded subtree, registration:
     ViewH*.v, ViewR*.v) - so every query asked at any point of a fault-free build answers like
     POSIX on the view, for every well-formed previous cache (WfCache: successful file records
     carry a comparison result, recorded targets have creatable names; holds of the empty
     cache, is kept for the new cache along every run and survives the write/read cycle:
     ViewR6-R8.v);
   * C04_overlay_answers: during the validation of cached results (overlay of created files)
     exists / is_file / is_dir / list_dir answer like POSIX on the overlay tree;
     C04_overlay_answers_all (Proofs/ViewH2.v, SimB2.v, SimG7.v, SimK1-3.v): every query kind against an overlay, walk,
     read and get_size included; for get_size the POSIX form needs "every overlay directory asked about is physically
     a directory": C04_overlay_get_size_of_an_overlay_only_directory shows the model (and the code: os.path.getsize on
     the physical path) raising FileNotFoundError there - a directory's size is not an observation the property
     defines, the effect is a lost cache hit (SimK3.v), never a wrong answer to user code.
   Side conditions: creatable names (no over-long component), trees shallower than the walk
   fuel (model artefact), a well-formed previous cache (old_ok), no injected fault.
   Those parts, and the tie to the code, are decided by T2/T3 (every answer of every
   generated history is compared with the reference answer). *)
From Coq Require Import List String Bool.
From FB.Base Require Import PyVal Fs.
From FB.Model Require Import Types Monad CreatedFiles BuildDirs SimpleOps Builder.
From FB.Spec Require Import Ref.
From FB.Model Require Import Build.
From FB.Spec Require Import Prog.
From FB.Model Require Import Run Frame.
From FB.Model Require Core.
From FB.Proofs Require Import ReplayLaws ViewDefs ViewLemmas ViewScan ViewQueries ViewAnswers ViewInit ViewClean ViewXDefs ViewXOld ViewXRun ViewXSetup ViewXReach ViewOverlay ViewOverlay2 ViewR2 ViewR3 ViewR9 CmpLaws SimK1.
(* T1g: Model/BuildDirs.v and Model/CreatedFiles.v are equal to the translation of build_dirs.py / created_files.py
   (Gen/BookGen.v, regenerated on every run); a change of those sources that the model does not follow breaks this import *)
From FB.Proofs Require BookGenLaws.
From FB.Proofs Require ExecGenLaws.   (* T1g: the model routines are equal to the translation of the source (Gen/ExecGen.v) *)
From FB.Proofs Require OpsGenLaws.   (* T1g: build_file*, subbuild, queries, cache validation of file_builder.py = Model/Builder.v (Gen/OpsGen.v) *)
Import ListNotations.
Open Scope m_scope.

Theorem C04_scan_sound : forall w, BInv w -> forall d,
  match is_removed (w_fs w) (w_bd w) d with
  | ScanOk b' r => (isdir (w_fs w) d = true -> r = dead w d) /\ good w (set_bd b' w)
  | ScanErr b' e =>
      lookup (w_fs w) d = None /\ absent_err (w_fs w) d = EOTHER /\ e = EOTHER /\ path_ok d = false /\
      mem_path d (bd_maybe (w_bd w)) = true /\ good w (set_bd b' w)
  | ScanFuel => False
  end.
Proof. exact is_removed_sound. Qed.

Theorem C04_answers_are_posix_answers_on_the_view : forall w q, BInv w ->
  path_ok (spec_query_path q) = true ->
  (forall p c, q <> QRead p c) ->
  (forall p td, q = QWalk p td -> vdir w p = true -> maxlen (w_fs w) < walk_fuel + List.length p) ->
  yields (exec_query q None) w (to_res (spec_answer (view_fs w) q)).
Proof. exact exec_query_spec_answer. Qed.

Theorem C04_view_exists_is_file_or_dir : forall w p, visible w p = vfile w p || vdir w p.
Proof. exact view_exists_file_or_dir. Qed.

Theorem C04_view_list_dir_is_the_names_that_exist : forall w d n, BInv w ->
  In n (children (view_fs w) d) <-> visible w (n :: d) = true.
Proof. exact view_list_dir_names. Qed.

Theorem C04_view_parent_of_what_exists_is_a_directory : forall w n d, BInv w ->
  visible w (n :: d) = true -> vdir w d = true.
Proof. exact view_parent_is_dir. Qed.

Theorem C04_invariant_holds_when_user_code_starts : forall w cachefile old nm vers,
  fs_wf (w_fs w) -> old_ok old cachefile -> BInv (start_world w cachefile old nm vers).
Proof. exact BInv_start_world. Qed.

Theorem C04_view_at_build_start_is_the_cleaned_tree : forall w cachefile old nm vers,
  fs_wf (w_fs w) -> old_ok old cachefile ->
  forall p, lookup (view_fs (start_world w cachefile old nm vers)) p =
            lookup (ref_clean (w_fs w) cachefile (pv0 old nm)) p.
Proof. exact view_start_is_ref_clean. Qed.

Theorem C04_every_answer_during_a_build : forall w0 cachefile old nm vers pr subs q wq,
  fs_wf (w_fs w0) -> old_ok old cachefile -> norec old -> w_faults w0 = [] ->
  AskAt pr None subs (start_world w0 cachefile old nm vers) q wq ->
  path_ok (spec_query_path q) = true ->
  (forall p c, q <> QRead p c) ->
  (forall p td, q = QWalk p td -> vdir wq p = true -> maxlen (w_fs wq) < walk_fuel + List.length p) ->
  BInv wq /\ yields (exec_query q None) wq (to_res (spec_answer (view_fs wq) q)).
Proof. exact reachable_answers_view. Qed.

Theorem C04_every_answer_during_any_build : forall w0 cachefile old nm vers pr subs q wq,
  fs_wf (w_fs w0) -> old_ok old cachefile -> WfCache old -> w_faults w0 = [] ->
  isdir (w_fs w0) cachefile = false -> maxlen (w_fs w0) < walk_fuel ->
  AllTargets tgtP pr ->
  AskAt pr None subs (start_world w0 cachefile old nm vers) q wq ->
  path_ok (spec_query_path q) = true ->
  (forall p c, q <> QRead p c) ->
  BInv wq /\ yields (exec_query q None) wq (to_res (spec_answer (view_fs wq) q)).
Proof. exact reachable_answers_view_all. Qed.

Theorem C04_overlay_answers : forall w c q, BInv w -> CInv w c ->
  pok w (spec_query_path q) ->
  (forall d, q = QListDir d -> forall n, In n (cf_list_dir c d) -> pok w (n :: d)) ->
  match q with QExists _ | QIsFile _ | QIsDir _ | QListDir _ => True | _ => False end ->
  yields (exec_query q (Some c)) w (to_res (spec_answer_raw (overlay_fs w c) q)).
Proof. exact exec_query_overlay. Qed.

(* every query kind against an overlay (validation of cached results) *)
Theorem C04_overlay_answers_all : forall w c q, BInv w -> CInv w c ->
  path_ok (spec_query_path q) = true ->
  (forall p, mem_path p (cf_dirs c) = true \/ mem_path p (cf_files c) = true -> path_ok p = true) ->
  (forall d td, q = QWalk d td -> odir w c d = true -> (maxlen (overlay_fs w c) < walk_fuel + List.length d)%nat) ->
  (forall p, q = QGetSize p -> mem_path p (cf_dirs c) = true -> isdir (w_fs w) p = true) ->
  (forall p cm, q = QRead p cm -> cm = METADATA \/ hash_ok w \/ HashOk w) ->
  yields (exec_query q (Some c)) w (to_res (Core.record_answer (overlay_fs w c) q)).
Proof. exact overlay_answers_all. Qed.

(* the one place where the POSIX form fails: get_size of a directory that exists only in the overlay *)
Theorem C04_overlay_get_size_of_an_overlay_only_directory : exists w c p,
  BInv w /\ CInv w c /\ path_ok p = true /\
  ~ yields (m_get_size p (Some c)) w (to_res (spec_answer_raw (overlay_fs w c) (QGetSize p))).
Proof. exact overlay_get_size_dir_counterexample. Qed.

Theorem C04_queries_read_only : forall q cf w w' r, exec_query q cf w = (w', r) -> same_but_view w w'.
Proof. exact query_footprint. Qed.

Theorem C04_exists_is_file_or_dir : forall p cf,
  m_exists p cf = (f <- m_is_file p cf ;; if f then ret true else m_is_dir p cf).
Proof. reflexivity. Qed.

Theorem C04_list_dir_requires_dir_and_filters_by_exists : forall d cf,
  m_list_dir d cf =
  (m_assert_is_dir d cf ;;;
   sup <- list_dir_superset d cf ;;
   names <- filterM (fun n => m_exists (n :: d) cf) sup ;;
   ret (PList (map PStr names))).
Proof. reflexivity. Qed.

Theorem C04_assert_is_dir_classes : forall p cf,
  m_assert_is_dir p cf =
  (d <- m_is_dir p cf ;;
   if d then ret tt else
   f <- m_is_file p cf ;;
   if f then raise (XOS XNotADirectory) else raise (XOS XFileNotFound)).
Proof. reflexivity. Qed.

Theorem C04_get_size_requires_exists : forall p cf w w' r,
  m_exists p cf w = (w', inl false) -> m_get_size p cf w = (w', r) -> r = inr (XOS XFileNotFound).
Proof.
  intros p cf w w' r He H. unfold m_get_size, bind in H. rewrite He in H. cbn in H. inversion H. reflexivity.
Qed.

(* the cache file is never a file in the view; an output in progress is not a file *)
Theorem C04_cache_file_invisible : forall p w, path_eqb p (w_cachefile w) = true ->
  cf_has_file None p = false -> is_file_no_read p None w = (w, inl (Some false)).
Proof. intros p w H _. unfold is_file_no_read. cbn [cf_has_file cf_has_dir]. rewrite H. reflexivity. Qed.

Theorem C04_in_progress_invisible : forall p w,
  path_eqb p (w_cachefile w) = false -> files_get (c_files (w_new w)) p = Some None ->
  is_file_no_read p None w = (w, inl (Some false)).
Proof.
  intros p w H1 H2. unfold is_file_no_read. cbn [cf_has_file cf_has_dir]. rewrite H1.
  unfold cache_has_file, cache_get_file. rewrite H2. reflexivity.
Qed.
