(* Properties/C04.v — the virtual file-system view (label: partial).  Proved:
   queries are read-only (they change nothing but BuildDirs bookkeeping and the
   hash memo — in particular not the tree, the caches or the log), and the
   mutual consistency of the answers holds by construction of the routines:
   exists is is_file-or-is_dir, list_dir filters its candidates with exists and
   requires is_dir, read / list_dir / get_size raise exactly when the
   corresponding predicate is false.  NOT yet a theorem: that the answers equal
   the ordinary POSIX answers on the reference tree (Spec/Ref.v) in every
   reachable world (the BuildDirs / CreatedFiles refinement); that is decided on
   the implementation by T3 (every answer is compared with the reference answer)
   and through the Core model (exact agreement on all generated histories). *)
From Coq Require Import List String Bool.
From FB.Base Require Import PyVal Fs.
From FB.Model Require Import Types Monad CreatedFiles BuildDirs SimpleOps Builder.
From FB.Proofs Require Import ReplayLaws.
Import ListNotations.
Open Scope m_scope.

Theorem C04_queries_read_only : forall q cf w w' r, exec_query q cf w = (w', r) -> same_but_view w w'.
Proof. exact query_footprint. Qed.

Theorem C04_exists_is_file_or_dir : forall p cf,
  m_exists p cf = (f <- m_is_file p cf ;; if f then ret true else m_is_dir p cf).
Proof. reflexivity. Qed.

Theorem C04_list_dir_requires_dir_and_filters_by_exists : forall d cf,
  m_list_dir d cf =
  (m_assert_is_dir d cf ;;;
   sup <- list_dir_superset d cf ;;
   names <- filterM (fun n => m_exists (n :: d) cf) sup ;;
   ret (PList (map PStr names))).
Proof. reflexivity. Qed.

Theorem C04_assert_is_dir_classes : forall p cf,
  m_assert_is_dir p cf =
  (d <- m_is_dir p cf ;;
   if d then ret tt else
   f <- m_is_file p cf ;;
   if f then raise (XOS XNotADirectory) else raise (XOS XFileNotFound)).
Proof. reflexivity. Qed.

Theorem C04_get_size_requires_exists : forall p cf w w' r,
  m_exists p cf w = (w', inl false) -> m_get_size p cf w = (w', r) -> r = inr (XOS XFileNotFound).
Proof.
  intros p cf w w' r He H. unfold m_get_size, bind in H. rewrite He in H. cbn in H. inversion H. reflexivity.
Qed.

(* the cache file is never a file in the view; an output in progress is not a file *)
Theorem C04_cache_file_invisible : forall p w, path_eqb p (w_cachefile w) = true ->
  cf_has_file None p = false -> is_file_no_read p None w = (w, inl (Some false)).
Proof. intros p w H _. unfold is_file_no_read. cbn [cf_has_file cf_has_dir]. rewrite H. reflexivity. Qed.

Theorem C04_in_progress_invisible : forall p w,
  path_eqb p (w_cachefile w) = false -> files_get (c_files (w_new w)) p = Some None ->
  is_file_no_read p None w = (w, inl (Some false)).
Proof.
  intros p w H1 H2. unfold is_file_no_read. cbn [cf_has_file cf_has_dir]. rewrite H1.
  unfold cache_has_file, cache_get_file. rewrite H2. reflexivity.
Qed.
