(* Properties/C02.v — rollback (label: partial), about the mechanism model.
   C02_rollback_state (Proofs/RollbackDirs*.v): when a build raises — any program, any raise
   point, any previous cache — afterwards (1) the regular files are EXACTLY those of the
   pre-state, same nodes (bytes, modification time, inode): previous outputs, the cache
   file, overwritten foreign files are back and nothing the failed build wrote remains;
   (2) every directory was there before, or was recorded as created by the previous build,
   or is an ancestor that such a reappearing recorded directory needs; (3) no directory is
   lost.  C02_same_exception: the exception that leaves build() is the one the root program
   raised.  Side conditions: no injected fault; a well-formed tree; creatable names (no
   over-long component); A2: no target is a proper ancestor of another target / the cache
   file / a recorded target; A1w: a pre-state file that is an ancestor of such a path is not
   (an ancestor of) a recorded directory (fails only for tampered caches:
   RollbackDirsEx.v).  C02_rollback_restores_every_regular_file is the first half under the
   older, stronger condition A (Proofs/RollbackLaws.v).
   Also: files outside the managed set keep their node under any outcome and ANY fault; a
   refused build changes nothing.  NOT a theorem: the rollback under injected faults (C14),
   and that the next build behaves as if the failed one had never run (T3: twin histories). *)
From Coq Require Import List String Bool.
From FB.Base Require Import PyVal Fs.
From FB.Gen Require Import JsonUtilGen.
From FB.Spec Require Import Prog.
From FB.Model Require Import Types Monad Builder Persist Build Run Frame.
From FB.Proofs Require Import FrameLaws CleanLaws RollbackLaws RollbackDirsMain.
(* T1g: Model/BuildDirs.v and Model/CreatedFiles.v are equal to the translation of build_dirs.py / created_files.py
   (Gen/BookGen.v, regenerated on every run); a change of those sources that the model does not follow breaks this import *)
From FB.Proofs Require BookGenLaws.
From FB.Proofs Require CacheGenLaws.   (* T1g: the model routines are equal to the translation of the source (Gen/CacheGen.v) *)
From FB.Proofs Require DriverGenLaws.   (* T1g: _build, _roll_back, _commit, clean, _make_dirs, _make_room, FileBackups = Model/Build.v, Builder.v (Gen/DriverGen.v) *)
Import ListNotations.

Theorem C02_rollback_state : forall cf nm vers svers root w w' e (P : path -> Prop),
  w_faults w = [] ->
  sanitize vers = Some svers ->
  AllTargets P root ->
  fs_wf (w_fs w) ->
  (forall p f, lookup (w_fs w) p = Some (NFile f) -> path_ok p = true) ->
  (forall a t, (P t \/ t = cf \/ In t (cache_targets (old_cache_of (w_fs w) cf nm svers))) ->
     below a t = true -> ~ P a) ->
  (forall a f t r, lookup (w_fs w) a = Some (NFile f) ->
     (P t \/ t = cf \/ In t (cache_targets (old_cache_of (w_fs w) cf nm svers))) -> below a t = true ->
     In r (c_dirs (old_cache_of (w_fs w) cf nm svers)) -> a <> r /\ below a r = false) ->
  (forall d, In d (c_dirs (old_cache_of (w_fs w) cf nm svers)) -> path_ok d = true) ->
  run_build cf nm vers root w = (w', Done (inr e)) ->
  (forall p f, lookup (w_fs w') p = Some (NFile f) <-> lookup (w_fs w) p = Some (NFile f)) /\
  (forall d, isdir (w_fs w') d = true ->
     isdir (w_fs w) d = true \/ In d (c_dirs (old_cache_of (w_fs w) cf nm svers)) \/
     exists r, In r (c_dirs (old_cache_of (w_fs w) cf nm svers)) /\ below d r = true /\ isdir (w_fs w') r = true) /\
  (forall d, isdir (w_fs w) d = true -> isdir (w_fs w') d = true).
Proof. exact rollback_leaves_nothing_new. Qed.

Theorem C02_rollback_restores_every_regular_file : forall cf nm vers svers root w w' e (P : path -> Prop),
  w_faults w = [] ->
  sanitize vers = Some svers ->
  AllTargets P root ->
  fs_wf (w_fs w) ->
  (forall p f, lookup (w_fs w) p = Some (NFile f) -> path_ok p = true) ->
  (forall a t, (P t \/ t = cf \/ In t (cache_targets (old_cache_of (w_fs w) cf nm svers))) ->
     below a t = true -> (forall f, lookup (w_fs w) a <> Some (NFile f)) /\ ~ P a) ->
  (forall d, In d (c_dirs (old_cache_of (w_fs w) cf nm svers)) -> path_ok d = true) ->
  run_build cf nm vers root w = (w', Done (inr e)) ->
  forall p f, lookup (w_fs w) p = Some (NFile f) -> lookup (w_fs w') p = Some (NFile f).
Proof. exact rollback_restores_files. Qed.

Theorem C02_partial_unmanaged_files_survive_failure : forall cf nm vers svers root w w' e (P : path -> Prop),
  sanitize vers = Some svers -> AllTargets P root ->
  run_build cf nm vers root w = (w', Done (inr e)) ->
  forall p f, ~ Managed P (old_cache_of (w_fs w) cf nm svers) cf p ->
    (lookup (w_fs w) p = Some (NFile f) <-> lookup (w_fs w') p = Some (NFile f)).
Proof.
  intros cf nm vers svers root w w' e P Hs Ht H p f Hn. split; intro L.
  - eapply build_preserves_foreign_files_tight; eauto.
  - eapply build_creates_no_foreign_files; eauto.
Qed.

Theorem C02_refused_build_changes_nothing : forall cf nm vers root w w' e,
  m_build cf nm vers root w = (w', Refused e) -> w' = w.
Proof. exact build_refused_no_effect. Qed.
