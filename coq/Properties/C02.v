(* Properties/C02.v — rollback (label: partial).
   MAIN THEOREM (C02_rollback_restores_every_regular_file): if a build of the mechanism
   model raises — any program, any raise point, any previous cache — every regular file
   of the pre-state is there afterwards with the same node (bytes, modification time,
   inode): previous outputs, the cache file, overwritten foreign files included.  Side
   conditions (Proofs/RollbackLaws.v): no injected fault; a well-formed tree; creatable
   names (no over-long component) for the files of the pre-state and the directories the
   old cache recorded; (A) neither a regular file of the pre-state nor a target is a
   proper ancestor of a target, of the cache file or of a recorded target — i.e. the
   file<->directory swaps are NOT covered by the theorem (they are decided on the
   implementation by T2/T3).
   Also proved: whatever a build does — commit or rollback, any fault — regular files
   outside the managed set keep their node and none appears, and a refused build changes
   nothing.  NOT a theorem: that no directory made by the failed build remains, and that
   the next build behaves as if the failed one had never run (T3: snapshot oracle, twin
   histories). *)
From Coq Require Import List String Bool.
From FB.Base Require Import PyVal Fs.
From FB.Gen Require Import JsonUtilGen.
From FB.Spec Require Import Prog.
From FB.Model Require Import Types Monad Builder Persist Build Run Frame.
From FB.Proofs Require Import FrameLaws CleanLaws RollbackLaws.
Import ListNotations.

Theorem C02_rollback_restores_every_regular_file : forall cf nm vers svers root w w' e (P : path -> Prop),
  w_faults w = [] ->
  sanitize vers = Some svers ->
  AllTargets P root ->
  fs_wf (w_fs w) ->
  (forall p f, lookup (w_fs w) p = Some (NFile f) -> path_ok p = true) ->
  (forall a t, (P t \/ t = cf \/ In t (cache_targets (old_cache_of (w_fs w) cf nm svers))) ->
     below a t = true -> (forall f, lookup (w_fs w) a <> Some (NFile f)) /\ ~ P a) ->
  (forall d, In d (c_dirs (old_cache_of (w_fs w) cf nm svers)) -> path_ok d = true) ->
  run_build cf nm vers root w = (w', Done (inr e)) ->
  forall p f, lookup (w_fs w) p = Some (NFile f) -> lookup (w_fs w') p = Some (NFile f).
Proof. exact rollback_restores_files. Qed.

Theorem C02_partial_unmanaged_files_survive_failure : forall cf nm vers svers root w w' e (P : path -> Prop),
  sanitize vers = Some svers -> AllTargets P root ->
  run_build cf nm vers root w = (w', Done (inr e)) ->
  forall p f, ~ Managed P (old_cache_of (w_fs w) cf nm svers) cf p ->
    (lookup (w_fs w) p = Some (NFile f) <-> lookup (w_fs w') p = Some (NFile f)).
Proof.
  intros cf nm vers svers root w w' e P Hs Ht H p f Hn. split; intro L.
  - eapply build_preserves_foreign_files_tight; eauto.
  - eapply build_creates_no_foreign_files; eauto.
Qed.

Theorem C02_refused_build_changes_nothing : forall cf nm vers root w w' e,
  m_build cf nm vers root w = (w', Refused e) -> w' = w.
Proof. exact build_refused_no_effect. Qed.
