(* Properties/C02.v — rollback (label: partial).  Proved here: whatever a build
   does — commit or rollback, any program, any fault — regular files outside the
   managed set keep their node and none appears (so a rolled-back build cannot
   have damaged or left behind anything foreign), and a refused build changes
   nothing.  NOT yet a theorem: that the managed files (previous outputs, cache
   file, overwritten targets) are back with identical bytes and mtime after a
   rollback, and that no directory made by the failed build remains; these are
   decided on the implementation by T2 (model) and T3 (snapshot oracle, twin
   histories). *)
From Coq Require Import List String Bool.
From FB.Base Require Import PyVal Fs.
From FB.Gen Require Import JsonUtilGen.
From FB.Spec Require Import Prog.
From FB.Model Require Import Types Monad Builder Persist Build Run Frame.
From FB.Proofs Require Import FrameLaws CleanLaws.
Import ListNotations.

Theorem C02_partial_unmanaged_files_survive_failure : forall cf nm vers svers root w w' e (P : path -> Prop),
  sanitize vers = Some svers -> AllTargets P root ->
  run_build cf nm vers root w = (w', Done (inr e)) ->
  forall p f, ~ Managed P (old_cache_of (w_fs w) cf nm svers) cf p ->
    (lookup (w_fs w) p = Some (NFile f) <-> lookup (w_fs w') p = Some (NFile f)).
Proof.
  intros cf nm vers svers root w w' e P Hs Ht H p f Hn. split; intro L.
  - eapply build_preserves_foreign_files_tight; eauto.
  - eapply build_creates_no_foreign_files; eauto.
Qed.

Theorem C02_refused_build_changes_nothing : forall cf nm vers root w w' e,
  m_build cf nm vers root w = (w', Refused e) -> w' = w.
Proof. exact build_refused_no_effect. Qed.
