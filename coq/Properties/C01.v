(* Properties/C01.v — cache transparency (label: partial until the Core simulation
   theorem is in place; see DESIGN.md 0.3).  Collected here are the theorems the
   transparency argument rests on and that are already proved about the
   mechanism model: deciding hit or miss has no side effect; a hit does not call
   the function and serves the recorded value; nothing that failed (raised or
   rejected in setup) is ever served; a changed version is never served, nor any
   caller above it; foreign files are never touched; a refused build changes
   nothing.  The equality with the from-scratch execution itself is decided on
   the implementation by T3 against Spec/Ref.v on every step of every generated
   history, and by exact agreement with the Core model (Model/Core.v: the cache
   logic on the reference tree). *)
From Coq Require Import List String Bool.
From FB.Base Require Import PyVal Fs.
From FB.Gen Require Import JsonUtilGen.
From FB.Spec Require Import Prog.
From FB.Model Require Import Types Monad CreatedFiles SimpleOps Builder Persist Build Run Frame.
From FB.Proofs Require Import ReplayLaws BuildFileLaws FrameLaws CleanLaws.
Import ListNotations.

Theorem C01_lookup_has_no_side_effect : forall p f a k w w' r,
  build_file_cache_lookup p f a k w = (w', r) -> same_but_view w w'.
Proof. exact lookup_footprint. Qed.

Theorem C01_sublookup_has_no_side_effect : forall key f w w' r,
  subbuild_cache_lookup key f w = (w', r) -> same_but_view w w'.
Proof. exact sublookup_footprint. Qed.

Theorem C01_hit_serves_recorded_value_without_calling : forall p c f a kw fn fn' w w' res,
  m_build_file p c f a kw fn w = (w', res) ->
  invocations (w_log w') = invocations (w_log w) ->
  (forall p' a' k' u u' r, fn p' a' k' u = (u', r) -> invocations (w_log u) <= invocations (w_log u')) ->
  m_build_file p c f a kw fn' w = (w', res).
Proof. exact bf_hit_independent_of_fn. Qed.

Theorem C01_failures_never_served : forall o cf w w' b cf',
  has_sf o = true -> is_op_cached o cf w = (w', inl (b, cf')) -> b = false.
Proof. exact never_served_sf. Qed.

Theorem C01_changed_version_never_served : forall f o cf w w' b cf',
  is_equal (func_version (w_old w) f) (func_version (w_new w) f) = false ->
  mentions f o = true -> is_op_cached o cf w = (w', inl (b, cf')) -> b = false.
Proof. exact version_miss_callers. Qed.

Theorem C01_foreign_files_untouched : forall cf nm vers svers root w w' r (P : path -> Prop),
  sanitize vers = Some svers -> AllTargets P root -> run_build cf nm vers root w = (w', r) ->
  forall p f, lookup (w_fs w) p = Some (NFile f) ->
    ~ Managed P (old_cache_of (w_fs w) cf nm svers) cf p -> lookup (w_fs w') p = Some (NFile f).
Proof. exact build_preserves_foreign_files_tight. Qed.
