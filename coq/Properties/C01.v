(* Properties/C01.v — cache transparency.
   MAIN THEOREM (C01_build_transparent): a build of the Core model (Model/Core.v: the
   cache logic of file_builder.py — lookup, replay, adoption of recorded subtrees — on
   the reference tree) and the from-scratch build of Spec/Ref.v, started on the same
   tree with the same previous cache, have the same outcome (value or exception), final
   trees that are equal up to modification time / inode of regular files, and the log of
   the Core build (functions invoked, answers given) is a subsequence of the reference
   log — for every program, every tree and every previous cache, under these
   hypotheses, all defined in Spec/Faithful.v and shown satisfiable in
   Proofs/CoreLaws7.v / CoreLawsEx.v:
     Obeys / Respects   names denote functions; build_file functions do not distinguish
                        JSON-equal arguments (documented obligations of user code)
     cache_wf           shape of the registered records (what Cache guarantees)
     faithful_cache     every servable record of the previous build is a trace of its
                        function.  This is NOT an assumption for histories that start without
                        a cache: C01_every_build_of_a_history_is_transparent (CoreNext*.v)
                        proves that every build re-establishes it (in the deep form
                        deep_cache), for any number of builds.  Exempt (cache_tame): records
                        with a rejected attempt inside (never served anyway) and two shapes in
                        which only FAILED nested targets lie below/above another target
     kp_init / kp_new   the METADATA assumption (size + mtime determine content) and
                        injectivity of the hash (the model's hash_of is injective)
   Core is tied to the implementation by exact correspondence (result, invocation log,
   answers, tree) on every generated history (T2, Model/CoreOracle.v); the step from the
   mechanism model (BuildDirs/CreatedFiles counters) to Core is NOT a theorem.
   The other theorems are about the mechanism model: deciding hit or miss has no side
   effect; a hit does not call the function; nothing that failed or was rejected is ever
   served; a changed version is never served, nor any caller above it; foreign files are
   never touched. *)
From Coq Require Import List String Bool NArith.
From FB.Base Require Import PyVal Fs.
From FB.Gen Require Import JsonUtilGen.
From FB.Spec Require Import Prog.
From FB.Model Require Import Types Monad CreatedFiles SimpleOps Builder Persist Build Run Frame.
From FB.Spec Require Import Ref Oracle Faithful.
From FB.Model Require Import Core CoreOracle CoreCache.
From FB.Model Require Import PersistSpec.
From FB.Proofs Require Import ReplayLaws BuildFileLaws FrameLaws CleanLaws CoreLaws2 CoreLaws5 CoreLaws6 CoreLaws7 CoreNextDefs CoreNextThm ViewDefs ViewInit ViewXDefs ViewXRun ViewR2 ViewR3 ViewK3 ViewK4 ViewK8 HashMemoInv HashMemoRun SimA0 SimAMain SimC0 SimC12 SimC13 SimD4 SimD9 SimE3 SimG1 SimG5 SimG6 SimC14 SimC15 SimD5 SimD7 SimF6 SimF8 SimJ4 SimJ10 SimM3 SimM6 SimN3 SimR2 SimS2 CacheRTOpen RollbackLaws RollbackDirsLaws.
(* T1g: Model/BuildDirs.v and Model/CreatedFiles.v are equal to the translation of build_dirs.py / created_files.py
   (Gen/BookGen.v, regenerated on every run); a change of those sources that the model does not follow breaks this import *)
From FB.Proofs Require BookGenLaws.
From FB.Proofs Require ExecGenLaws.   (* T1g: the model routines are equal to the translation of the source (Gen/ExecGen.v) *)
From FB.Proofs Require CacheGenLaws.   (* T1g: the model routines are equal to the translation of the source (Gen/CacheGen.v) *)
From FB.Proofs Require OpsGenLaws.   (* T1g: build_file*, subbuild, queries, cache validation of file_builder.py = Model/Builder.v (Gen/OpsGen.v) *)
From FB.Proofs Require DriverGenLaws.   (* T1g: _build, _roll_back, _commit, clean, _make_dirs, _make_room, FileBackups = Model/Build.v, Builder.v (Gen/DriverGen.v) *)
Import ListNotations.

Theorem C01_build_transparent : forall (kp : kappa) (F : ftable) fs cf old vers clock nextid root,
  Obeys F root -> Respects F -> cache_wf old -> faithful_cache kp F old vers ->
  kp_init kp fs -> kp_new kp clock -> fs_wf fs ->
  let cr := core_build fs cf old vers clock nextid root in
  let rr := ref_build fs cf (prev_of_cache old) clock nextid root in
  cr_outcome cr = rr_outcome rr /\ tree_equiv (cr_tree cr) (rr_tree rr) /\ sublog (cr_log cr) (rr_log rr).
Proof. exact build_transparent. Qed.

(* the same for any sub-program from any pair of related states (the induction behind it) *)
Theorem C01_run_transparent : forall kp F old vers clock0 pr,
  Respects F -> cache_wf old -> faithful_cache kp F old vers -> kp_new kp clock0 -> Obeys F pr ->
  forall tgt pend subs s r s' out pend' subs' r' out_r pend_r,
    sim s r -> KInv kp old vers clock0 s -> RInv' tgt r -> sublog (k_log s) (r_log r) ->
    core_run pr tgt pend subs s = (s', (out, pend', subs')) ->
    ref_run pr tgt pend r = (r', (out_r, pend_r)) ->
    out = out_r /\ pend' = pend_r /\ sim s' r' /\ sublog (k_log s') (r_log r') /\
    KInv kp old vers clock0 s' /\ RInv' tgt r'.
Proof. exact T1_full. Qed.

(* ANY NUMBER OF BUILDS, starting without a cache: every build of the chain is transparent.  No
   hypothesis about caches or the content oracle is left: chain_ok contains only the obligations of
   user code (Obeys, Respects, RespectsS, WfArgs: names denote functions that do not distinguish
   JSON-equal arguments; coherent: a function whose version is unchanged is unchanged), the exemption
   cache_tame (decidable: cache_tameb; it excludes records with a rejected attempt inside and the
   two shapes with failed targets below/above other targets that Spec/Faithful.v does not cover), and
   the time/content assumption (clocks do not run backwards, no file is newer than the start of the
   build: METADATA's size+mtime then determine content) - CoreNextThm.v *)
Theorem C01_every_build_of_a_history_is_transparent : forall cf nm vers0 fs l F0,
  (forall g, lookup fs cf <> Some (NFile g)) ->
  chain_ok cf nm F0 0 fs (empty_cache nm vers0) l -> chain_transparent cf nm fs (empty_cache nm vers0) l.
Proof. exact chain_from_empty. Qed.

(* THE MECHANISM MODEL AGAINST CORE (Proofs/SimA*.v, SimB*.v, ViewK*.v): for a build whose previous cache holds
   no operation records (every first build) the user code run by the mechanism model - the model that is proved
   equal to the translation of the Python - and the Core build have the same outcome, the same visible log, and
   the view of the final world equals Core's tree up to mtime/inode of the files written in this build.  Side
   conditions on the program: creatable shallow targets, no target below its own function's target (NoNest), no
   target an ancestor of / below a previous output (TargetsClear, TargetsApart), queries on creatable paths without
   get_size of directories (QueriesOk), arguments with floats in normal form (WfArgs).  For arbitrary previous
   caches see C01_mechanism_transparent below (SimC*.v glue the run-level simulation of SimA*.v with the replay
   correspondence is_op_cached = kreplay of SimB*.v). *)
Theorem C01_mechanism_first_build_agrees_with_core : forall w cachefile old nm svers root w1 w2 r l,
  norec old -> fs_wf (w_fs w) -> old_ok old cachefile -> WfCache old -> old_keys_ok old -> w_faults w = [] ->
  path_ok (dirname cachefile) = true -> isdir (w_fs w) cachefile = false -> (maxlen (w_fs w) < walk_fuel)%nat ->
  vdir (Build.start_world w cachefile old nm svers) (dirname cachefile) = true ->
  AllTargets tgtP root -> NoNest [] root -> QueriesOk root -> WfArgs root ->
  TargetsClear old root -> TargetsApart old root ->
  make_dirs (dirname cachefile) (Build.start_world w cachefile old nm svers) = (w1, inl []) ->
  run root None [] (set_log (LInvoke "<root>"%string None PNone PNone :: w_log w1) w1) = (w2, (r, l)) ->
  let cr := core_build (w_fs w) cachefile old svers (w_clock w) (w_nextid w) root in
  cr_outcome cr = r /\
  (exists L0, vis_log (w_log w2) = rev (cr_log cr) ++ L0) /\
  trel (c_built (w_new w2)) (view_fs w2) (cr_tree cr).
Proof. exact build_agree_norec. Qed.

(* CACHE TRANSPARENCY FOR THE MECHANISM MODEL (Proofs/SimC13.v mech_C01 = SimC12.build_agree_okc composed with
   build_transparent): the user code run by the mechanism model - proved equal to the translation of the Python
   source - has the outcome of the from-scratch reference build of Spec/Ref.v, a visible log that is a subsequence of
   the reference log, and a view equal to the reference tree up to mtime/inode; for every previous cache of the class
   okc (decidable: okcb) - faithful, well formed, METADATA comparisons and reads only, no recorded get_size, no nested
   record that raised, recorded mtimes not after the start of the build - and every program satisfying the side
   conditions.  Up to the return of the root function; C01_mechanism_first_build_whole_build (SimD4.v) covers the whole
   call including the commit for every first build; for later builds with a previous cache of the class okc
   C01_mechanism_later_build_whole_build (SimD9.v, SimE3.v) does the same.  That the class is re-established by every build is proved for its
   static part (SimC14/15) and checked by computation on a 4-build history (SimCEx.v). *)
Theorem C01_mechanism_transparent : forall (kp : kappa) (F : ftable) w cachefile old nm svers root w1 w2 r l,
  Obeys F root -> Respects F ->
  kp_init kp (w_fs w) -> kp_new kp (w_clock w) ->
  cache_wf old -> faithful_cache kp F old svers -> okc (w_clock w) old ->
  old_ok old cachefile -> WfCache old -> old_keys_ok old ->
  fs_wf (w_fs w) -> w_faults w = [] ->
  path_ok (dirname cachefile) = true -> isdir (w_fs w) cachefile = false -> (maxlen (w_fs w) < walk_fuel)%nat ->
  vdir (Build.start_world w cachefile old nm svers) (dirname cachefile) = true ->
  AllTargets tgtP root -> NoNest [] root -> QueriesOk root -> WfArgs root -> CmpMeta root ->
  TargetsClear old root -> TargetsApart old root ->
  make_dirs (dirname cachefile) (Build.start_world w cachefile old nm svers) = (w1, inl []) ->
  run root None [] (set_log (LInvoke "<root>"%string None PNone PNone :: w_log w1) w1) = (w2, (r, l)) ->
  let rr := ref_build (w_fs w) cachefile (prev_of_cache old) (w_clock w) (w_nextid w) root in
  r = rr_outcome rr /\
  (exists Lb L0, vis_log (w_log w2) = rev Lb ++ L0 /\ sublog Lb (rr_log rr)) /\
  tree_equiv (view_fs w2) (rr_tree rr).
Proof. exact mech_C01. Qed.

(* the WHOLE build() call of a first build (no cache file yet), commit included: the value returned is the reference
   value and the tree it leaves equals the reference tree (every path except the cache file) up to mtime/inode; any
   comparison mode (METADATA or HASH) for outputs and reads (SimG1-6.v) *)
Theorem C01_mechanism_first_build_whole_build : forall (kp : kappa) (F : ftable) w cachefile nm vers svers root (P : path -> Prop) w' v,
  let old := empty_cache nm svers in
  lookup (w_fs w) cachefile = None ->
  sanitize vers = Some svers ->
  Obeys F root -> Respects F -> kp_init kp (w_fs w) -> kp_new kp (w_clock w) ->
  cache_wf old -> faithful_cache kp F old svers -> old_ok old cachefile ->
  fs_wf (w_fs w) -> w_faults w = [] ->
  path_ok (dirname cachefile) = true -> (maxlen (w_fs w) < walk_fuel)%nat ->
  vdir (Build.start_world w cachefile old nm svers) (dirname cachefile) = true ->
  AllTargets tgtP root -> NoNest [] root -> QueriesOkP root -> WfArgs root ->
  AllTargets P root -> (forall p, P p -> tgtP p) ->
  (forall a t, (P t \/ t = cachefile) -> below a t = true -> (forall f, lookup (w_fs w) a <> Some (NFile f)) /\ ~ P a) ->
  run_build cachefile nm vers root w = (w', Done (inl v)) ->
  let rr := ref_build (w_fs w) cachefile (prev_of_cache old) (w_clock w) (w_nextid w) root in
  rr_outcome rr = inl v /\
  forall p, p <> cachefile -> node_equiv (lookup (w_fs w') p) (lookup (rr_tree rr) p).
Proof. exact mech_commit_first_build_anycmp. Qed.

(* the same for a LATER build, whose previous cache is in the class okc (what a committed build of this package writes):
   whole call, commit included (SimD5-9.v; the statement about directories given up by failed nested builds that
   SimD9 left open is proved in SimE1-3.v: err_dead).  The class is okcH (SimJ4.v: okc with HASH comparison results
   allowed in build_file records and recorded reads; decidable, okcHb_sound); outputs and reads of the program may use
   either comparison mode (SimG1-7.v, SimJ1-10.v: hits served from HASH records, by the invariant HInv). *)
Theorem C01_mechanism_later_build_whole_build : forall (kp : kappa) (F : ftable) w cachefile nm vers svers root (P : path -> Prop) w' v,
  let old := old_cache_of (w_fs w) cachefile nm svers in
  let rr := ref_build (w_fs w) cachefile (prev_of_cache old) (w_clock w) (w_nextid w) root in
  sanitize vers = Some svers ->
  (* user obligations *)
  Obeys F root -> Respects F ->
  (* content / time *)
  kp_init kp (w_fs w) -> kp_new kp (w_clock w) ->
  (* the previous cache *)
  cache_wf old -> faithful_cache kp F old svers -> okcH (w_clock w) old ->
  old_ok old cachefile -> WfCache old -> cache_created_file old cachefile = false ->
  (* the world *)
  fs_wf (w_fs w) -> w_faults w = [] ->
  path_ok (dirname cachefile) = true -> isdir (w_fs w) cachefile = false -> (maxlen (w_fs w) < walk_fuel)%nat ->
  vdir (Build.start_world w cachefile old nm svers) (dirname cachefile) = true ->
  (* the program *)
  AllTargets tgtP root -> NoNest [] root -> QueriesOkP root -> WfArgs root ->
  TargetsClear old root -> TargetsApart old root ->
  (* the targets *)
  AllTargets P root -> (forall p, P p -> tgtP p) ->
  (forall a t, (P t \/ t = cachefile \/ In t (cache_targets old)) ->
     below a t = true -> (forall f, lookup (w_fs w) a <> Some (NFile f)) /\ ~ P a) ->
  (forall d, In d (c_dirs old) -> path_ok d = true) ->
  run_build cachefile nm vers root w = (w', Done (inl v)) ->
  rr_outcome rr = inl v /\
  forall p, p <> cachefile -> node_equiv (lookup (w_fs w') p) (lookup (rr_tree rr) p).
Proof. exact mech_commit3_hash. Qed.

(* the class okcH contains okc *)
Theorem C01_okc_in_okcH : forall c0 old, okc c0 old -> okcH c0 old.
Proof. exact okc_okcH. Qed.

(* THE CLASS IS PRESERVED (Proofs/SimD5-7.v, SimF1-6.v, SimJ11-13.v, SimM1-3.v; class okcH, programs free to use HASH): the cache at the end of the root function of a build whose
   previous cache is in okcH is again in okcH (for programs in which no function catches the exception of a nested call),
   so the theorem above applies to the next build as far as the class is concerned. *)
Theorem C01_mechanism_class_preserved : forall w cachefile old nm svers root w1 w2 v l c1,
  okcH (w_clock w) old -> fs_wf (w_fs w) -> old_ok old cachefile -> WfCache old -> old_keys_ok old -> w_faults w = [] ->
  path_ok (dirname cachefile) = true -> isdir (w_fs w) cachefile = false -> (maxlen (w_fs w) < walk_fuel)%nat ->
  vdir (Build.start_world w cachefile old nm svers) (dirname cachefile) = true ->
  AllTargets tgtP root -> NoNest [] root -> QueriesOkP root -> WfArgs root ->
  TargetsClear old root -> TargetsApart old root -> RkNew old [] root ->
  (* no function catches the exception of a nested call *)
  NoCatch root ->
  make_dirs (dirname cachefile) (Build.start_world w cachefile old nm svers) = (w1, inl []) ->
  (* the root function returns *)
  run root None [] (set_log (LInvoke "<root>"%string None PNone PNone :: w_log w1) w1) = (w2, (inl v, l)) ->
  (* no regular file of the pre-state is newer than the clock; the next build does not start
     before the root function has returned *)
  (forall p f, lookup (w_fs w) p = Some (NFile f) -> (f_mtime f <= w_clock w)%N) ->
  (w_clock w2 <= c1)%N ->
  okcH c1 (w_new w2).
Proof. exact okcH_next_closed. Qed.

(* ANY NUMBER OF BUILDS, partial (Proofs/SimF7-9.v, SimM4-6.v): for a list of successive builds starting without a cache file,
   every build returns the reference value and leaves the reference tree; for builds after the first no hypothesis
   about the class, WfCache, cache_wf or "the cache file is not an output" is left (they come from the previous build).
   The read-back is no longer a hypothesis (Proofs/SimH*.v: the committed cache is writable and the cache file holds its
   serialisation; SimN1-3.v: hence the cache the next build reads is the normal form of the cache the previous build
   held): chainN asks per step only that the next tree agrees with the previous final tree at the cache file, that the
   clock does not run backwards, prog_paths_wf, and SideH - which still contains faithful_cache of the cache read
   (SimN3.next_faithful_statement: not proved) - the ONE hypothesis about the previous cache left per build.
   Towards it (SimT1-2.v): faithful_op / faithful_sub_at are invariant under the record relation of the simulation
   (follows_rel), faithful_cache transfers along a lookup-level link of caches (faithful_cache_transfer,
   next_faithful_partial); invariance under the read-back normal form norm_op is FALSE as Spec/Faithful.v states
   faithfulness (recorded return values are compared by Leibniz equality, norm_val sorts dict keys:
   norm_op_invariance_refuted) - a strictness of the specification, to be restated up to JSON equality.
   old_ok is assumed of no cache (SimR1-2.v, SimS1-2.v: chainS asks SideH only under old_ok of the cache read, which the
   previous build supplies; adopted old outputs are regular files of the starting tree: SimS1.run_adopted). *)
Theorem C01_mechanism_chain_partial : forall cf nm l b, path_wf cf = true ->
  lookup (w_fs (b_w b)) cf = None ->
  (old_ok (b_old cf nm b) cf -> SideH cf nm b) -> prog_paths_wf (b_root b) ->
  chainS cf nm b l -> Forall (good cf nm) (b :: l).
Proof. exact mech_chain_hash_ok2. Qed.

(* the hypotheses are satisfiable: a content oracle read off the tree, and a concrete instance
   (a previous cache, a tree on which the replay succeeds) *)
Theorem C01_oracle_exists : forall fs clock,
  (forall p f, lookup fs p = Some (NFile f) -> (f_mtime f <= clock)%N) ->
  kp_init (kp_of fs) fs /\ kp_new (kp_of fs) clock.
Proof. intros fs clock H. split; [apply kp_of_init | apply kp_of_new; exact H]. Qed.

Theorem C01_lookup_has_no_side_effect : forall p f a k w w' r,
  build_file_cache_lookup p f a k w = (w', r) -> same_but_view w w'.
Proof. exact lookup_footprint. Qed.

Theorem C01_sublookup_has_no_side_effect : forall key f w w' r,
  subbuild_cache_lookup key f w = (w', r) -> same_but_view w w'.
Proof. exact sublookup_footprint. Qed.

Theorem C01_hit_serves_recorded_value_without_calling : forall p c f a kw fn fn' w w' res,
  m_build_file p c f a kw fn w = (w', res) ->
  invocations (w_log w') = invocations (w_log w) ->
  (forall p' a' k' u u' r, fn p' a' k' u = (u', r) -> invocations (w_log u) <= invocations (w_log u')) ->
  m_build_file p c f a kw fn' w = (w', res).
Proof. exact bf_hit_independent_of_fn. Qed.

Theorem C01_failures_never_served : forall o cf w w' b cf',
  has_sf o = true -> is_op_cached o cf w = (w', inl (b, cf')) -> b = false.
Proof. exact never_served_sf. Qed.

Theorem C01_changed_version_never_served : forall f o cf w w' b cf',
  is_equal (func_version (w_old w) f) (func_version (w_new w) f) = false ->
  mentions f o = true -> is_op_cached o cf w = (w', inl (b, cf')) -> b = false.
Proof. exact version_miss_callers. Qed.

Theorem C01_foreign_files_untouched : forall cf nm vers svers root w w' r (P : path -> Prop),
  sanitize vers = Some svers -> AllTargets P root -> run_build cf nm vers root w = (w', r) ->
  forall p f, lookup (w_fs w) p = Some (NFile f) ->
    ~ Managed P (old_cache_of (w_fs w) cf nm svers) cf p -> lookup (w_fs w') p = Some (NFile f).
Proof. exact build_preserves_foreign_files_tight. Qed.
