(* Properties/C12.v — clean removes exactly what the last build created.
   Statements about the model's FileBuilder.clean (Model/Build.v m_clean) and
   the reference clean (Spec/Ref.v); proofs in Proofs/CleanLaws.v. *)
From Coq Require Import List String Bool NArith.
Open Scope N_scope. Open Scope string_scope. Open Scope list_scope.
From FB.Base Require Import PyVal Fs.
From FB.Spec Require Import Prog Ref Oracle.
From FB.Gen Require Import JsonUtilGen.
From FB.Model Require Import Types Monad SimpleOps Builder Persist Build Run Frame.
From FB.Proofs Require Import CleanLaws FrameLaws RollbackDirsLaws ViewDefs ViewInit ViewXDefs ViewXRun ViewR2 ViewR3 CommitDirs2Main CommitDirs3Main.
(* T1g: Model/BuildDirs.v and Model/CreatedFiles.v are equal to the translation of build_dirs.py / created_files.py
   (Gen/BookGen.v, regenerated on every run); a change of those sources that the model does not follow breaks this import *)
From FB.Proofs Require BookGenLaws.
From FB.Proofs Require CacheGenLaws.   (* T1g: the model routines are equal to the translation of the source (Gen/CacheGen.v) *)
From FB.Proofs Require DriverGenLaws.   (* T1g: _build, _roll_back, _commit, clean, _make_dirs, _make_room, FileBackups = Model/Build.v, Builder.v (Gen/DriverGen.v) *)
Import ListNotations.

(* the model's clean computes the reference clean of what the cache file records
   (no injected faults): outputs, then the cache file, then the recorded
   directories that are empty, deepest first *)
(* build, then clean: every regular file and every directory left was there before the build, same
   node - no exception clause.  Proved for builds whose previous cache holds no operation records
   (first builds); for arbitrary previous caches relative to the cache-hit statements of
   CommitDirs2Run.v (Proofs/CommitDirs2*.v).  The read-back equalities are what C16_cache_roundtrip
   gives. *)
(* the same for ARBITRARY well-formed previous caches (Proofs/CommitDirs3*.v) *)
Theorem C12_build_then_clean_restores_the_tree_any_cache : forall cf nm vers svers root w w' v (P : path -> Prop) nm' f c',
  w_faults w = [] -> sanitize vers = Some svers -> AllTargets P root -> fs_wf (w_fs w) ->
  (forall a t, (P t \/ t = cf \/ In t (cache_targets (old_cache_of (w_fs w) cf nm svers))) ->
     below a t = true -> (forall f, lookup (w_fs w) a <> Some (NFile f)) /\ ~ P a) ->
  (forall d, In d (c_dirs (old_cache_of (w_fs w) cf nm svers)) -> path_ok d = true) ->
  WfCache (old_cache_of (w_fs w) cf nm svers) -> old_ok (old_cache_of (w_fs w) cf nm svers) cf ->
  (forall p, P p -> tgtP p) -> isdir (w_fs w) cf = false -> (maxlen (w_fs w) < walk_fuel)%nat ->
  path_ok (dirname cf) = true ->
  vdir (start_world w cf (old_cache_of (w_fs w) cf nm svers) nm svers) (dirname cf) = true ->
  run_build cf nm vers root w = (w', Done (inl v)) ->
  w_faults w' = [] ->
  lookup (w_fs w') cf = Some (NFile f) -> cache_of_json (f_json f) = ReadOk c' ->
  cache_created_files c' = cache_created_files (w_new w') -> c_dirs c' = c_dirs (w_new w') ->
  (match nm' with Some n => String.eqb (c_name c') n | None => true end) = true ->
  exists w'', m_clean cf nm' w' = (w'', Done (inl PNone)) /\
    (forall p g, lookup (w_fs w'') p = Some (NFile g) -> lookup (w_fs w) p = Some (NFile g)) /\
    (forall d, lookup (w_fs w'') d = Some NDir -> lookup (w_fs w) d = Some NDir).
Proof. exact build_then_clean_exact_wf. Qed.

Theorem C12_build_then_clean_restores_the_tree : forall cf nm vers svers root w w' v (P : path -> Prop) nm' f c',
  w_faults w = [] -> sanitize vers = Some svers -> AllTargets P root -> fs_wf (w_fs w) ->
  (forall a t, (P t \/ t = cf \/ In t (cache_targets (old_cache_of (w_fs w) cf nm svers))) ->
     below a t = true -> (forall f, lookup (w_fs w) a <> Some (NFile f)) /\ ~ P a) ->
  (forall d, In d (c_dirs (old_cache_of (w_fs w) cf nm svers)) -> path_ok d = true) ->
  norec (old_cache_of (w_fs w) cf nm svers) ->
  old_ok (old_cache_of (w_fs w) cf nm svers) cf ->
  path_ok (dirname cf) = true ->
  vdir (start_world w cf (old_cache_of (w_fs w) cf nm svers) nm svers) (dirname cf) = true ->
  run_build cf nm vers root w = (w', Done (inl v)) ->
  w_faults w' = [] ->
  lookup (w_fs w') cf = Some (NFile f) -> cache_of_json (f_json f) = ReadOk c' ->
  cache_created_files c' = cache_created_files (w_new w') -> c_dirs c' = c_dirs (w_new w') ->
  (match nm' with Some n => String.eqb (c_name c') n | None => true end) = true ->
  exists w'', m_clean cf nm' w' = (w'', Done (inl PNone)) /\
    (forall p g, lookup (w_fs w'') p = Some (NFile g) -> lookup (w_fs w) p = Some (NFile g)) /\
    (forall d, lookup (w_fs w'') d = Some NDir -> lookup (w_fs w) d = Some NDir).
Proof. exact build_then_clean_exact. Qed.

Theorem C12_exact : forall cf nm w f c,
  w_faults w = [] ->
  lookup (w_fs w) cf = Some (NFile f) -> cache_of_json (f_json f) = ReadOk c ->
  (match nm with Some n => String.eqb (c_name c) n | None => true end) = true ->
  exists w', m_clean cf nm w = (w', Done (inl PNone)) /\ w_fs w' = ref_clean (w_fs w) cf (prev_of_cache c).
Proof. exact clean_exact. Qed.

(* ... and nothing else: *)
Theorem C12_frame : forall fs cf pv p,
  ~ In p (pv_outputs pv) -> p <> cf -> ~ In p (pv_dirs pv) -> lookup (ref_clean fs cf pv) p = lookup fs p.
Proof. exact ref_clean_frame. Qed.

Theorem C12_creates_nothing : forall fs cf pv p, lookup fs p = None -> lookup (ref_clean fs cf pv) p = None.
Proof. exact ref_clean_no_new. Qed.

(* a regular file is either untouched (same bytes, mtime, inode) or it was a recorded output / the cache file *)
Theorem C12_files : forall fs cf pv p f, lookup fs p = Some (NFile f) ->
  lookup (ref_clean fs cf pv) p = Some (NFile f) \/
  (lookup (ref_clean fs cf pv) p = None /\ (In p (pv_outputs pv) \/ p = cf)).
Proof. exact ref_clean_files. Qed.

(* a directory disappears only if the build recorded it as created and it is empty afterwards *)
Theorem C12_dirs : forall fs cf pv p, lookup fs p = Some NDir ->
  lookup (ref_clean fs cf pv) p = Some NDir \/
  (lookup (ref_clean fs cf pv) p = None /\ In p (pv_dirs pv) /\ forall n, lookup (ref_clean fs cf pv) (n :: p) = None).
Proof. exact ref_clean_dirs. Qed.

(* recorded outputs go away even if modified since (whatever their bytes) *)
Theorem C12_removes_outputs : forall fs cf pv p, In p (pv_outputs pv) -> isfile fs p = true -> lookup (ref_clean fs cf pv) p = None.
Proof. exact ref_clean_removes_outputs. Qed.

Theorem C12_removes_cache : forall fs cf pv, isfile fs cf = true -> lookup (ref_clean fs cf pv) cf = None.
Proof. exact ref_clean_removes_cache. Qed.

Theorem C12_no_cache_noop : forall cf nm w, lookup (w_fs w) cf = None -> m_clean cf nm w = (w, Done (inl PNone)).
Proof. exact clean_no_cache_noop. Qed.

Theorem C12_idempotent : forall cf nm w f c,
  w_faults w = [] -> lookup (w_fs w) cf = Some (NFile f) -> cache_of_json (f_json f) = ReadOk c ->
  (match nm with Some n => String.eqb (c_name c) n | None => true end) = true ->
  forall w', m_clean cf nm w = (w', Done (inl PNone)) -> m_clean cf nm w' = (w', Done (inl PNone)).
Proof. exact clean_idempotent. Qed.

(* non-vacuity: a tree with an output, a foreign file in a created directory and the cache file *)
Example C12_nonvacuous :
  let fs := upd ["o"; "D"] (Some (NFile {| f_bytes := "x"; f_mtime := 1; f_id := 1; f_json := None |}))
           (upd ["foreign"; "D"] (Some (NFile {| f_bytes := "F"; f_mtime := 2; f_id := 2; f_json := None |}))
           (upd ["D"] (Some NDir) (upd ["E"] (Some NDir)
           (upd ["cache"] (Some (NFile {| f_bytes := ""; f_mtime := 3; f_id := 3; f_json := None |})) [])))) in
  let pv := {| pv_name := "n"; pv_outputs := [["o"; "D"]]; pv_dirs := [["D"]; ["E"]] |} in
  let fs' := ref_clean fs ["cache"] pv in
  lookup fs' ["o"; "D"] = None /\ lookup fs' ["cache"] = None /\ lookup fs' ["E"] = None /\
  lookup fs' ["D"] = Some NDir /\ isfile fs' ["foreign"; "D"] = true.
Proof. vm_compute. repeat split. Qed.
