(* Properties/C15.v — refused calls have no side effects.  The model's
   build_versioned / clean either refuse with the world literally unchanged, or
   accept; which of the two depends only on the versions argument and on what is
   at the cache path.  (Argument type checks precede everything: Gen/Order.v.) *)
From Coq Require Import List String Bool NArith.
Open Scope N_scope. Open Scope string_scope. Open Scope list_scope.
From FB.Base Require Import PyVal Fs.
From FB.Gen Require Import JsonUtilGen.
From FB.Spec Require Import Prog.
From FB.Model Require Import Types Monad Persist Build.
From FB.Proofs Require Import CleanLaws.
From FB.Proofs Require CacheGenLaws.   (* T1g: the model routines are equal to the translation of the source (Gen/CacheGen.v) *)
From FB.Proofs Require DriverGenLaws.   (* T1g: _build, _roll_back, _commit, clean, _make_dirs, _make_room, FileBackups = Model/Build.v, Builder.v (Gen/DriverGen.v) *)
Import ListNotations.

Theorem C15_build_refused_no_effect : forall cf nm vers root w w' e,
  m_build cf nm vers root w = (w', Refused e) -> w' = w.
Proof. exact build_refused_no_effect. Qed.

(* refusal is decided by the versions and the cache path alone ... *)
Theorem C15_build_refused_iff : forall cf nm vers root w e,
  (exists w', m_build cf nm vers root w = (w', Refused e)) <-> build_refusal cf nm vers (w_fs w) = Some e.
Proof. exact build_refused_iff. Qed.

(* ... and the user function plays no role: it is not called *)
Theorem C15_no_user_function_called : forall cf nm vers root root' w e,
  build_refusal cf nm vers (w_fs w) = Some e -> m_build cf nm vers root w = m_build cf nm vers root' w.
Proof. exact build_refused_ignores_root. Qed.

Theorem C15_clean_refused_no_effect : forall cf nm w w' e, m_clean cf nm w = (w', Refused e) -> w' = w.
Proof. exact clean_refused_no_effect. Qed.

(* the refusal classes of the statement *)
Example C15_classes :
  let dirfs := upd ["cache"] (Some NDir) [] in
  let junk := upd ["cache"] (Some (NFile {| f_bytes := "not gzip"; f_mtime := 0; f_id := 1; f_json := None |})) [] in
  let other := upd ["cache"] (Some (NFile {| f_bytes := ""; f_mtime := 0; f_id := 1;
                    f_json := Some (PDict [(PStr "software", PStr "other")]) |})) [] in
  build_refusal ["cache"] "n" (PDict []) dirfs = Some (XOS XIsADirectory) /\
  build_refusal ["cache"] "n" (PDict []) junk = Some (XRuntime RBadCache) /\
  build_refusal ["cache"] "n" (PDict []) other = Some (XRuntime RBadCache) /\
  build_refusal ["cache"] "n" (PDict [(PStr "f", POther 0)]) [] = Some XType /\
  build_refusal ["cache"] "n" (PDict []) [] = None.
Proof. vm_compute. repeat split. Qed.
