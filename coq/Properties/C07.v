(* Properties/C07.v — cache identity is JSON equality of name, path and
   arguments.  The value half is about the generated json_util functions and
   the key construction of Model/Builder.v (Cache.subbuild_key); the path half
   is about the model of os.path.abspath in Model/PathNorm.v. *)
From Coq Require Import List String ZArith Bool.
From FB.Base Require Import PyVal.
From FB.Spec Require Import JsonSpec.
From FB.Gen Require Import JsonUtilGen.
From FB.Model Require Import Builder PathNorm.
From FB.Proofs Require Import JsonLaws PathNormLaws.
From FB.Proofs Require CacheGenLaws.   (* T1g: the model routines are equal to the translation of the source (Gen/CacheGen.v) *)
Import ListNotations.
Open Scope string_scope.
Open Scope list_scope.

(* two subbuild calls address the same cache entry (equal dictionary keys) iff
   same function name and JSON-equal sanitized arguments *)
Theorem C07_subbuild_key_iff : forall f1 a1 k1 f2 a2 k2,
  sanitized a1 = true -> sanitized k1 = true -> sanitized a2 = true -> sanitized k2 = true ->
  py_eq (subbuild_key f1 a1 k1) (subbuild_key f2 a2 k2) =
  (String.eqb f1 f2 && is_equal a1 a2 && is_equal k1 k2)%bool.
Proof. exact subbuild_key_iff. Qed.

(* ... for the arguments the caller passed, after the JSON round trip *)
Corollary C07_subbuild_key_args : forall f1 a1 k1 f2 a2 k2 sa1 sk1 sa2 sk2,
  sanitize a1 = Some sa1 -> sanitize k1 = Some sk1 -> sanitize a2 = Some sa2 -> sanitize k2 = Some sk2 ->
  py_eq (subbuild_key f1 sa1 sk1) (subbuild_key f2 sa2 sk2) =
  (String.eqb f1 f2 && is_equal sa1 sa2 && is_equal sk1 sk2)%bool.
Proof.
  intros. apply subbuild_key_iff; eauto using sanitize_sanitized.
Qed.

(* what JSON equality means: tuples = lists, key order irrelevant, list order relevant, 1 = 1.0, bool <> number *)
Theorem C07_tuples_are_lists : forall l, sanitize (PTuple l) = sanitize (PList l).
Proof. reflexivity. Qed.

Theorem C07_key_order_irrelevant :
  is_equal (PDict [(PStr "a", PInt 1); (PStr "b", PInt 2)]) (PDict [(PStr "b", PInt 2); (PStr "a", PInt 1)]) = true.
Proof. reflexivity. Qed.

Theorem C07_list_order_relevant : is_equal (PList [PInt 1; PInt 2]) (PList [PInt 2; PInt 1]) = false.
Proof. reflexivity. Qed.

Theorem C07_non_string_keys_stringified :
  sanitize (PDict [(PInt 1, PNone); (PBool true, PNone); (PNone, PNone)]) =
  Some (PDict [(PStr "1", PNone); (PStr "true", PNone); (PStr "null", PNone)]).
Proof. reflexivity. Qed.

(* path spellings: _sanitize_filename = abspath.  Normalisation is idempotent
   (so a normalised absolute path names itself), and redundant separators, "."
   and "x/.." components do not change the entry a path refers to. *)
Theorem C07_abspath_idempotent : forall cwd s,
  starts_with "/" cwd = true -> abspath cwd (abspath cwd s) = abspath cwd s.
Proof. exact abspath_idem. Qed.

Theorem C07_redundant_separator : forall rooted pre post,
  norm_comps rooted (pre ++ "" :: post) = norm_comps rooted (pre ++ post).
Proof. exact norm_comps_skip_empty. Qed.

Theorem C07_dot_component : forall rooted pre post,
  norm_comps rooted (pre ++ "." :: post) = norm_comps rooted (pre ++ post).
Proof. exact norm_comps_skip_dot. Qed.

Theorem C07_dotdot_component : forall rooted pre x post,
  x <> "" -> x <> "." -> x <> ".." ->
  norm_comps rooted (pre ++ x :: ".." :: post) = norm_comps rooted (pre ++ post).
Proof. exact norm_comps_dotdot. Qed.

(* split and join are inverse on component lists, so the component-level laws
   above are laws of the path strings *)
Theorem C07_split_join : forall l, l <> [] -> Forall (fun c => no_slash c = true) l ->
  split_slash (join_slash l) = l.
Proof. exact split_join. Qed.
