(* Properties/C03.v — foreign files are never modified or deleted.  About the
   whole model of a build (Model/Run.v run_build: setup, user code as any
   strategy tree, commit or rollback, injected faults included) and about clean.
   Proofs in Proofs/FrameLaws.v and Proofs/CleanLaws.v.
   Directory half (Proofs/SimL1-2.v over CommitDirs*, RollbackDirs*, SimI2, CleanLaws; fault-free):
   C03_foreign_directories_survive - after a raised or refused build every directory of the pre-state is still there,
   after a committed build every directory the previous cache does not record as created; C03_no_foreign_directory_appears
   - a directory that was not there before is one the new cache records (commit) / one the previous cache recorded or an
   ancestor it needs (rollback) / does not exist (refusal); C03_clean_foreign_directories - clean removes a directory only
   if the cache records it as created and nothing is left in it.  The side conditions per outcome are the definitions
   side_survive / side_appear of SimL1.v (condition A etc.).  Label partial: under faults only the file half is proved;
   "a recorded directory goes only when empty" for committed builds is proved relative to fs_wf of the final tree
   (SimL2.v). *)
From Coq Require Import List String Bool.
From FB.Base Require Import PyVal Fs.
From FB.Gen Require Import JsonUtilGen.
From FB.Spec Require Import Prog Ref.
From FB.Model Require Import Types Monad Builder Persist Build Run Frame.
From FB.Proofs Require Import FrameLaws CleanLaws SimL1.
(* T1g: Model/BuildDirs.v and Model/CreatedFiles.v are equal to the translation of build_dirs.py / created_files.py
   (Gen/BookGen.v, regenerated on every run); a change of those sources that the model does not follow breaks this import *)
From FB.Proofs Require BookGenLaws.
From FB.Proofs Require DriverGenLaws.   (* T1g: _build, _roll_back, _commit, clean, _make_dirs, _make_room, FileBackups = Model/Build.v, Builder.v (Gen/DriverGen.v) *)
Import ListNotations.

(* A regular file other than the cache file, the paths passed to build_file in this build (P: any set
   containing them) and the output files recorded by the previous committed build is, after the
   build, the very same node: same bytes, same modification time, same inode — whether the build
   committed, rolled back or was refused, for every program, pre-state and fault set. *)
Theorem C03_foreign_files_untouched : forall cf nm vers svers root w w' r (P : path -> Prop),
  sanitize vers = Some svers ->
  AllTargets P root ->
  run_build cf nm vers root w = (w', r) ->
  forall p f, lookup (w_fs w) p = Some (NFile f) ->
    ~ Managed P (old_cache_of (w_fs w) cf nm svers) cf p ->
    lookup (w_fs w') p = Some (NFile f).
Proof. exact build_preserves_foreign_files_tight. Qed.

(* ... and no regular file appears at an unmanaged path *)
Theorem C03_no_foreign_files_created : forall cf nm vers svers root w w' r (P : path -> Prop),
  sanitize vers = Some svers ->
  AllTargets P root ->
  run_build cf nm vers root w = (w', r) ->
  forall p f, lookup (w_fs w') p = Some (NFile f) ->
    ~ Managed P (old_cache_of (w_fs w) cf nm svers) cf p ->
    lookup (w_fs w) p = Some (NFile f).
Proof. exact build_creates_no_foreign_files. Qed.

(* clean: a file is untouched or it was a recorded output / the cache file; a directory disappears
   only if the build recorded it as created and it is empty afterwards *)
Theorem C03_clean_files : forall fs cf pv p f, lookup fs p = Some (NFile f) ->
  lookup (ref_clean fs cf pv) p = Some (NFile f) \/
  (lookup (ref_clean fs cf pv) p = None /\ (In p (pv_outputs pv) \/ p = cf)).
Proof. exact ref_clean_files. Qed.

Theorem C03_clean_dirs : forall fs cf pv p, lookup fs p = Some NDir ->
  lookup (ref_clean fs cf pv) p = Some NDir \/
  (lookup (ref_clean fs cf pv) p = None /\ In p (pv_dirs pv) /\ forall n, lookup (ref_clean fs cf pv) (n :: p) = None).
Proof. exact ref_clean_dirs. Qed.

(* the directory half, mechanism model, every outcome of a build *)
Theorem C03_foreign_directories_survive : forall cf nm vers svers root w w' r (P : path -> Prop),
  w_faults w = [] -> sanitize vers = Some svers -> AllTargets P root ->
  run_build cf nm vers root w = (w', r) ->
  side_survive P cf (old_cache_of (w_fs w) cf nm svers) (w_fs w) r ->
  forall d, lookup (w_fs w) d = Some NDir ->
    match r with
    | Done (inl _) => ~ In d (c_dirs (old_cache_of (w_fs w) cf nm svers))   (* committed: not recorded as created *)
    | _ => True                                                            (* raised, refused: every directory *)
    end ->
    lookup (w_fs w') d = Some NDir.
Proof. exact foreign_directories_survive. Qed.

Theorem C03_no_foreign_directory_appears : forall cf nm vers svers root w w' r (P : path -> Prop),
  w_faults w = [] -> sanitize vers = Some svers -> AllTargets P root ->
  run_build cf nm vers root w = (w', r) ->
  side_appear P cf (old_cache_of (w_fs w) cf nm svers) (w_fs w) r ->
  forall d, lookup (w_fs w') d = Some NDir -> lookup (w_fs w) d <> Some NDir ->
    match r with
    | Done (inl _) => In d (c_dirs (w_new w'))
    | Done (inr _) =>
        In d (c_dirs (old_cache_of (w_fs w) cf nm svers)) \/
        exists r0, In r0 (c_dirs (old_cache_of (w_fs w) cf nm svers)) /\ below d r0 = true /\
                   lookup (w_fs w') r0 = Some NDir
    | Refused _ => False
    end.
Proof. exact no_foreign_directory_appears. Qed.

Theorem C03_clean_foreign_directories : forall cf nm w w' r, w_faults w = [] -> m_clean cf nm w = (w', r) ->
  forall d, lookup (w_fs w) d = Some NDir ->
    lookup (w_fs w') d = Some NDir \/
    (lookup (w_fs w') d = None /\
     (exists f c, lookup (w_fs w) cf = Some (NFile f) /\ cache_of_json (f_json f) = ReadOk c /\ In d (c_dirs c)) /\
     forall n, lookup (w_fs w') (n :: d) = None).
Proof. exact clean_foreign_directories. Qed.

(* non-vacuity: the set of targets of a concrete program *)
Example C03_nonvacuous :
  AllTargets (fun p => p = ["o"; "D"]%string)
    (BuildFile false ["o"; "D"]%string METADATA "f" (PTuple []) (PDict []) (fun _ _ _ => Write "x" (Ret PNone)) (fun o => Ret PNone)).
Proof. constructor; [reflexivity| intros; repeat constructor | intros; constructor]. Qed.
