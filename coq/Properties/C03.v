(* Properties/C03.v — foreign files are never modified or deleted.  About the
   whole model of a build (Model/Run.v run_build: setup, user code as any
   strategy tree, commit or rollback, injected faults included) and about clean.
   Proofs in Proofs/FrameLaws.v and Proofs/CleanLaws.v.
   Directory half: label partial (see below). *)
From Coq Require Import List String Bool.
From FB.Base Require Import PyVal Fs.
From FB.Gen Require Import JsonUtilGen.
From FB.Spec Require Import Prog Ref.
From FB.Model Require Import Types Monad Builder Persist Build Run Frame.
From FB.Proofs Require Import FrameLaws CleanLaws.
(* T1g: Model/BuildDirs.v and Model/CreatedFiles.v are equal to the translation of build_dirs.py / created_files.py
   (Gen/BookGen.v, regenerated on every run); a change of those sources that the model does not follow breaks this import *)
From FB.Proofs Require BookGenLaws.
From FB.Proofs Require DriverGenLaws.   (* T1g: _build, _roll_back, _commit, clean, _make_dirs, _make_room, FileBackups = Model/Build.v, Builder.v (Gen/DriverGen.v) *)
Import ListNotations.

(* A regular file other than the cache file, the paths passed to build_file in this build (P: any set
   containing them) and the output files recorded by the previous committed build is, after the
   build, the very same node: same bytes, same modification time, same inode — whether the build
   committed, rolled back or was refused, for every program, pre-state and fault set. *)
Theorem C03_foreign_files_untouched : forall cf nm vers svers root w w' r (P : path -> Prop),
  sanitize vers = Some svers ->
  AllTargets P root ->
  run_build cf nm vers root w = (w', r) ->
  forall p f, lookup (w_fs w) p = Some (NFile f) ->
    ~ Managed P (old_cache_of (w_fs w) cf nm svers) cf p ->
    lookup (w_fs w') p = Some (NFile f).
Proof. exact build_preserves_foreign_files_tight. Qed.

(* ... and no regular file appears at an unmanaged path *)
Theorem C03_no_foreign_files_created : forall cf nm vers svers root w w' r (P : path -> Prop),
  sanitize vers = Some svers ->
  AllTargets P root ->
  run_build cf nm vers root w = (w', r) ->
  forall p f, lookup (w_fs w') p = Some (NFile f) ->
    ~ Managed P (old_cache_of (w_fs w) cf nm svers) cf p ->
    lookup (w_fs w) p = Some (NFile f).
Proof. exact build_creates_no_foreign_files. Qed.

(* clean: a file is untouched or it was a recorded output / the cache file; a directory disappears
   only if the build recorded it as created and it is empty afterwards *)
Theorem C03_clean_files : forall fs cf pv p f, lookup fs p = Some (NFile f) ->
  lookup (ref_clean fs cf pv) p = Some (NFile f) \/
  (lookup (ref_clean fs cf pv) p = None /\ (In p (pv_outputs pv) \/ p = cf)).
Proof. exact ref_clean_files. Qed.

Theorem C03_clean_dirs : forall fs cf pv p, lookup fs p = Some NDir ->
  lookup (ref_clean fs cf pv) p = Some NDir \/
  (lookup (ref_clean fs cf pv) p = None /\ In p (pv_dirs pv) /\ forall n, lookup (ref_clean fs cf pv) (n :: p) = None).
Proof. exact ref_clean_dirs. Qed.

(* non-vacuity: the set of targets of a concrete program *)
Example C03_nonvacuous :
  AllTargets (fun p => p = ["o"; "D"]%string)
    (BuildFile false ["o"; "D"]%string METADATA "f" (PTuple []) (PDict []) (fun _ _ _ => Write "x" (Ret PNone)) (fun o => Ret PNone)).
Proof. constructor; [reflexivity| intros; repeat constructor | intros; constructor]. Qed.
