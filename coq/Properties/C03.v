(* Properties/C03.v — foreign files are never modified or deleted.  About the
   whole model of a build (Model/Run.v run_build: setup, user code as any
   strategy tree, commit or rollback, injected faults included) and about clean.
   Proofs in Proofs/FrameLaws.v and Proofs/CleanLaws.v.
   Directory half (Proofs/SimL1-2.v over CommitDirs*, RollbackDirs*, SimI2, CleanLaws; fault-free):
   C03_foreign_directories_survive - after a raised or refused build every directory of the pre-state is still there,
   after a committed build every directory the previous cache does not record as created; C03_no_foreign_directory_appears
   - a directory that was not there before is one the new cache records (commit) / one the previous cache recorded or an
   ancestor it needs (rollback) / does not exist (refusal); C03_clean_foreign_directories - clean removes a directory only
   if the cache records it as created and nothing is left in it.  The side conditions per outcome are the definitions
   side_survive / side_appear of SimL1.v (condition A etc.).  Under ANY fault set and for any outcome (SimP1.v, SimP3.v):
   C03_trees_stay_well_formed and C03_build_makes_only_related_directories - a directory in the final tree was there
   before, is recorded by the previous cache, or is a proper ancestor of a target of this build / of the previous cache /
   of the cache file.  C03_committed_directory_with_foreign_content_survives: a committed build keeps every directory
   that has a foreign file or an unrecorded directory below it.  Label partial: "every foreign directory survives" is
   proved fault-free only. *)
From Coq Require Import List String Bool.
From FB.Base Require Import PyVal Fs.
From FB.Gen Require Import JsonUtilGen.
From FB.Spec Require Import Prog Ref.
From FB.Model Require Import Types Monad Builder Persist Build Run Frame.
From FB.Proofs Require Import FrameLaws CleanLaws RollbackLaws RollbackDirsLaws SimL1 SimP1 SimP3.
(* T1g: Model/BuildDirs.v and Model/CreatedFiles.v are equal to the translation of build_dirs.py / created_files.py
   (Gen/BookGen.v, regenerated on every run); a change of those sources that the model does not follow breaks this import *)
From FB.Proofs Require BookGenLaws.
From FB.Proofs Require DriverGenLaws.   (* T1g: _build, _roll_back, _commit, clean, _make_dirs, _make_room, FileBackups = Model/Build.v, Builder.v (Gen/DriverGen.v) *)
Import ListNotations.

(* A regular file other than the cache file, the paths passed to build_file in this build (P: any set
   containing them) and the output files recorded by the previous committed build is, after the
   build, the very same node: same bytes, same modification time, same inode — whether the build
   committed, rolled back or was refused, for every program, pre-state and fault set. *)
Theorem C03_foreign_files_untouched : forall cf nm vers svers root w w' r (P : path -> Prop),
  sanitize vers = Some svers ->
  AllTargets P root ->
  run_build cf nm vers root w = (w', r) ->
  forall p f, lookup (w_fs w) p = Some (NFile f) ->
    ~ Managed P (old_cache_of (w_fs w) cf nm svers) cf p ->
    lookup (w_fs w') p = Some (NFile f).
Proof. exact build_preserves_foreign_files_tight. Qed.

(* ... and no regular file appears at an unmanaged path *)
Theorem C03_no_foreign_files_created : forall cf nm vers svers root w w' r (P : path -> Prop),
  sanitize vers = Some svers ->
  AllTargets P root ->
  run_build cf nm vers root w = (w', r) ->
  forall p f, lookup (w_fs w') p = Some (NFile f) ->
    ~ Managed P (old_cache_of (w_fs w) cf nm svers) cf p ->
    lookup (w_fs w) p = Some (NFile f).
Proof. exact build_creates_no_foreign_files. Qed.

(* clean: a file is untouched or it was a recorded output / the cache file; a directory disappears
   only if the build recorded it as created and it is empty afterwards *)
Theorem C03_clean_files : forall fs cf pv p f, lookup fs p = Some (NFile f) ->
  lookup (ref_clean fs cf pv) p = Some (NFile f) \/
  (lookup (ref_clean fs cf pv) p = None /\ (In p (pv_outputs pv) \/ p = cf)).
Proof. exact ref_clean_files. Qed.

Theorem C03_clean_dirs : forall fs cf pv p, lookup fs p = Some NDir ->
  lookup (ref_clean fs cf pv) p = Some NDir \/
  (lookup (ref_clean fs cf pv) p = None /\ In p (pv_dirs pv) /\ forall n, lookup (ref_clean fs cf pv) (n :: p) = None).
Proof. exact ref_clean_dirs. Qed.

(* the directory half, mechanism model, every outcome of a build *)
Theorem C03_foreign_directories_survive : forall cf nm vers svers root w w' r (P : path -> Prop),
  w_faults w = [] -> sanitize vers = Some svers -> AllTargets P root ->
  run_build cf nm vers root w = (w', r) ->
  side_survive P cf (old_cache_of (w_fs w) cf nm svers) (w_fs w) r ->
  forall d, lookup (w_fs w) d = Some NDir ->
    match r with
    | Done (inl _) => ~ In d (c_dirs (old_cache_of (w_fs w) cf nm svers))   (* committed: not recorded as created *)
    | _ => True                                                            (* raised, refused: every directory *)
    end ->
    lookup (w_fs w') d = Some NDir.
Proof. exact foreign_directories_survive. Qed.

Theorem C03_no_foreign_directory_appears : forall cf nm vers svers root w w' r (P : path -> Prop),
  w_faults w = [] -> sanitize vers = Some svers -> AllTargets P root ->
  run_build cf nm vers root w = (w', r) ->
  side_appear P cf (old_cache_of (w_fs w) cf nm svers) (w_fs w) r ->
  forall d, lookup (w_fs w') d = Some NDir -> lookup (w_fs w) d <> Some NDir ->
    match r with
    | Done (inl _) => In d (c_dirs (w_new w'))
    | Done (inr _) =>
        In d (c_dirs (old_cache_of (w_fs w) cf nm svers)) \/
        exists r0, In r0 (c_dirs (old_cache_of (w_fs w) cf nm svers)) /\ below d r0 = true /\
                   lookup (w_fs w') r0 = Some NDir
    | Refused _ => False
    end.
Proof. exact no_foreign_directory_appears. Qed.

Theorem C03_clean_foreign_directories : forall cf nm w w' r, w_faults w = [] -> m_clean cf nm w = (w', r) ->
  forall d, lookup (w_fs w) d = Some NDir ->
    lookup (w_fs w') d = Some NDir \/
    (lookup (w_fs w') d = None /\
     (exists f c, lookup (w_fs w) cf = Some (NFile f) /\ cache_of_json (f_json f) = ReadOk c /\ In d (c_dirs c)) /\
     forall n, lookup (w_fs w') (n :: d) = None).
Proof. exact clean_foreign_directories. Qed.

(* any program, any fault set, any outcome *)
Theorem C03_trees_stay_well_formed : forall cf nm vers root w w' r,
  fs_wf (w_fs w) -> run_build cf nm vers root w = (w', r) -> fs_wf (w_fs w').
Proof. exact run_build_wf. Qed.

Theorem C03_build_makes_only_related_directories : forall cf nm vers svers root w w' r (P : path -> Prop),
  sanitize vers = Some svers -> AllTargets P root -> fs_wf (w_fs w) ->
  run_build cf nm vers root w = (w', r) ->
  forall d, lookup (w_fs w') d = Some NDir ->
    lookup (w_fs w) d = Some NDir \/
    In d (c_dirs (old_cache_of (w_fs w) cf nm svers)) \/
    exists t, (P t \/ t = cf \/ In t (cache_targets (old_cache_of (w_fs w) cf nm svers))) /\ below d t = true.
Proof. exact build_makes_only_related_directories. Qed.

Theorem C03_committed_directory_with_foreign_content_survives :
  forall cf nm vers svers root w w' v (P : path -> Prop),
  w_faults w = [] -> sanitize vers = Some svers -> AllTargets P root ->
  fs_wf (w_fs w) ->
  CondA P cf (old_cache_of (w_fs w) cf nm svers) (w_fs w) ->
  dirs_ok (old_cache_of (w_fs w) cf nm svers) ->
  run_build cf nm vers root w = (w', Done (inl v)) ->
  forall d q, below d q = true ->
    ((exists f, lookup (w_fs w) q = Some (NFile f) /\ ~ Managed P (old_cache_of (w_fs w) cf nm svers) cf q) \/
     (lookup (w_fs w) q = Some NDir /\ ~ In q (c_dirs (old_cache_of (w_fs w) cf nm svers)))) ->
    lookup (w_fs w') d = Some NDir.
Proof. exact committed_directory_with_foreign_content_survives. Qed.

(* non-vacuity: the set of targets of a concrete program *)
Example C03_nonvacuous :
  AllTargets (fun p => p = ["o"; "D"]%string)
    (BuildFile false ["o"; "D"]%string METADATA "f" (PTuple []) (PDict []) (fun _ _ _ => Write "x" (Ret PNone)) (fun o => Ret PNone)).
Proof. constructor; [reflexivity| intros; repeat constructor | intros; constructor]. Qed.
