(* Properties/C09.v — thread-safety at protocol level (label: partial, see
   DESIGN.md): (a) no deadlock from the lock order of the GENERATED lock table,
   (b) creating / registering / releasing output directories under the creation
   lock is serializable, on the very routines of Model/BuildDirs.v that the
   sequential model uses, for any number of threads and any schedule,
   (c) without the lock a directory is lost.  Proofs in Proofs/ConcLaws.v. *)
From Coq Require Import List String Bool.
From FB.Base Require Import PyVal Fs.
From FB.Gen Require Import Locks.
From FB.Model Require Import Types BuildDirs Conc.
From FB.Proofs Require Import ConcLaws.
(* T1g: Model/BuildDirs.v and Model/CreatedFiles.v are equal to the translation of build_dirs.py / created_files.py
   (Gen/BookGen.v, regenerated on every run); a change of those sources that the model does not follow breaks this import *)
From FB.Proofs Require BookGenLaws.
From FB.Proofs Require CacheGenLaws.   (* T1g: the model routines are equal to the translation of the source (Gen/CacheGen.v) *)
Import ListNotations.

(* computed on the current lock table: the lock graph has no cycle, and every critical section the
   protocol below treats as one atomic segment is a single `with` block in the code *)
Theorem C09_lock_table : lock_graph_acyclic = true /\ segments_justified = true.
Proof. exact table_checks. Qed.

(* threads that acquire locks only along the edges of that graph cannot deadlock *)
Theorem C09_no_deadlock : forall ws, disciplined ws -> ~ deadlocked ws.
Proof. exact no_deadlock. Qed.

(* any interleaving of the critical sections of threads that each build one file (succeeding or
   failing) ends, once all are done, with the same reservation counters, created set, removed-again
   set and directories on disk as running the threads one after another *)
Theorem C09_dirs_serializable : forall base ts sched c,
  base_closed base -> NoDup (map t_path ts) ->
  run_sched base sched (init_config ts) = Some c -> all_done c = true ->
  exists c', run_sched base (seq_sched (List.length ts)) (init_config ts) = Some c' /\
             all_done c' = true /\ dstate_equiv (fst c) (fst c') = true.
Proof. exact dirs_serializable. Qed.

(* no schedule makes error_building_file raise KeyError *)
Theorem C09_no_key_error : forall base ts sched, run_sched base sched (init_config ts) <> None.
Proof. exact dirs_no_key_error. Qed.

(* why the creation lock is needed: with mkdir and registration as separate segments there is a
   schedule after which a directory exists on disk but nobody recorded it as created *)
Theorem C09_unlocked_loses_directory :
  exists ts sched c, urun_sched [] sched (uinit ts) = Some c /\
    forallb (fun tp => match snd tp with UDone => true | _ => false end) (snd c) = true /\
    mem_path ["N"%string] (bd_created (d_bd (fst c))) = false /\
    mem_path ["N"%string] (d_disk (fst c)) = true.
Proof. exact unlocked_loses_directory. Qed.
