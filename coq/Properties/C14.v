(* Properties/C14.v — internal OS errors (label: partial).  In the model every
   mutating library call goes through Monad.effect / effect_p /
   Builder.back_up_and_remove, which consult the fault set; proved here: an
   injected fault surfaces as an OSError outcome of that call and leaves the tree
   as it was, and the frame theorem of C03 holds for EVERY fault set (so whatever
   failed, foreign files are intact).  The post-state for the managed files
   (rollback restores / caught errors leak nothing) is decided by T2 with the same
   fault ordinal in model and implementation and by the T3 oracles. *)
From Coq Require Import List String Bool Arith.
From FB.Base Require Import PyVal Fs.
From FB.Gen Require Import JsonUtilGen.
From FB.Spec Require Import Prog.
From FB.Model Require Import Types Monad Builder Persist Build Run Frame.
From FB.Proofs Require Import FrameLaws.
Import ListNotations.

(* a faulted mutating call raises OSError, changes only the call counter *)
Theorem C14_fault_surfaces : forall what p f w,
  existsb (Nat.eqb (w_effects w)) (w_faults w) = true ->
  effect what p f w = (set_effects (S (w_effects w)) w, inr (XOS XOSError)).
Proof. intros what p f w H. unfold effect. rewrite H. reflexivity. Qed.

Theorem C14_fault_leaves_tree : forall what p f w w' r,
  existsb (Nat.eqb (w_effects w)) (w_faults w) = true -> effect what p f w = (w', r) -> w_fs w' = w_fs w.
Proof. intros what p f w w' r H E. rewrite (C14_fault_surfaces what p f w H) in E. inversion E; subst. reflexivity. Qed.

(* whatever faults are injected, foreign files are intact after the build *)
Theorem C14_foreign_files_intact_under_faults : forall faults cf nm vers svers root w w' r (P : path -> Prop),
  w_faults w = faults ->
  sanitize vers = Some svers -> AllTargets P root ->
  run_build cf nm vers root w = (w', r) ->
  forall p f, lookup (w_fs w) p = Some (NFile f) ->
    ~ Managed P (old_cache_of (w_fs w) cf nm svers) cf p -> lookup (w_fs w') p = Some (NFile f).
Proof. intros faults cf nm vers svers root w w' r P _. apply build_preserves_foreign_files_tight. Qed.
