(* Properties/C14.v — internal OS errors (label: partial).  In the model every mutating
   library call goes through Monad.effect / effect_p / Builder.back_up_and_remove, which
   consult the fault set.  Proved: an injected fault surfaces as an OSError outcome of that
   call and leaves the tree as it was; the frame theorem of C03 holds for EVERY fault set;
   and C14_rollback_under_faults (Proofs/RollbackFaults*.v): for ANY set of injected faults
   (mkdir, makedirs, rename, replace, rmdir, remove, both effects of the cache write), if the
   build fails and no fault falls inside the undo itself (removal of a partial cache file +
   _roll_back), the regular files afterwards are exactly those of the pre-state, same nodes
   (side conditions as in C02: creatable names, condition A).  RollbackFaultsEx.v: a fault
   inside restore_all does lose a file (so that hypothesis cannot be dropped; no
   implementation can restore a file when the restoring call fails), and with TWO faults (cache
   write and removal of the partial file) a truncated cache file remains - outside the
   single-fault quantifier of the property.  NOT theorems: the directory half under faults,
   and the caught-error clause (virtual view and final tree consistent with the call having
   failed): T2 with the same fault ordinal in model and implementation, T3 oracles. *)
From Coq Require Import List String Bool Arith.
From FB.Base Require Import PyVal Fs.
From FB.Gen Require Import JsonUtilGen.
From FB.Spec Require Import Prog.
From FB.Model Require Import Types Monad Builder Persist Build Run Frame.
From FB.Proofs Require Import FrameLaws RollbackFaultsLaws RollbackFaultsMain RollbackFaults2Main SimP2.
From FB.Proofs Require CacheGenLaws.   (* T1g: the model routines are equal to the translation of the source (Gen/CacheGen.v) *)
From FB.Proofs Require DriverGenLaws.   (* T1g: _build, _roll_back, _commit, clean, _make_dirs, _make_room, FileBackups = Model/Build.v, Builder.v (Gen/DriverGen.v) *)
Import ListNotations.

(* a faulted mutating call raises OSError, changes only the call counter *)
Theorem C14_fault_surfaces : forall what p f w,
  existsb (Nat.eqb (w_effects w)) (w_faults w) = true ->
  effect what p f w = (set_effects (S (w_effects w)) w, inr (XOS XOSError)).
Proof. intros what p f w H. unfold effect. rewrite H. reflexivity. Qed.

Theorem C14_fault_leaves_tree : forall what p f w w' r,
  existsb (Nat.eqb (w_effects w)) (w_faults w) = true -> effect what p f w = (w', r) -> w_fs w' = w_fs w.
Proof. intros what p f w w' r H E. rewrite (C14_fault_surfaces what p f w H) in E. inversion E; subst. reflexivity. Qed.

Theorem C14_rollback_under_faults : forall cf nm vers svers root w w' e (P : path -> Prop),
  sanitize vers = Some svers ->
  AllTargets P root ->
  fs_wf (w_fs w) ->
  (forall p f, lookup (w_fs w) p = Some (NFile f) -> path_ok p = true) ->
  (forall a t, (P t \/ t = cf \/ In t (cache_targets (old_cache_of (w_fs w) cf nm svers))) ->
     below a t = true -> (forall f, lookup (w_fs w) a <> Some (NFile f)) /\ ~ P a) ->
  (forall d, In d (c_dirs (old_cache_of (w_fs w) cf nm svers)) -> path_ok d = true) ->
  run_build cf nm vers root w = (w', Done (inr e)) ->
  exists ccd wx,
    undo_entry cf nm svers (fun w0 => run root None [] w0) w (old_cache_of (w_fs w) cf nm svers) = Some (ccd, wx) /\
    ((forall n, In n (w_faults w) -> n < w_effects wx) ->
     forall p f, lookup (w_fs w') p = Some (NFile f) <-> lookup (w_fs w) p = Some (NFile f)).
Proof. exact rollback_restores_files_faults. Qed.

(* ... and no directory is lost (that no directory made by the failed build remains is FALSE under
   faults that hit the clean-up rmdir: RollbackFaults2Dirs.v has the computed worlds; rmdir/remove/replace
   are not among the calls the property speaks of - "create directories, move files aside, write the cache") *)
Theorem C14_rollback_keeps_directories_under_faults : forall cf nm vers svers root w w' e (P : path -> Prop),
  sanitize vers = Some svers ->
  AllTargets P root ->
  fs_wf (w_fs w) ->
  (forall p f, lookup (w_fs w) p = Some (NFile f) -> path_ok p = true) ->
  (forall a t, (P t \/ t = cf \/ In t (cache_targets (old_cache_of (w_fs w) cf nm svers))) ->
     below a t = true -> (forall f, lookup (w_fs w) a <> Some (NFile f)) /\ ~ P a) ->
  (forall d, In d (c_dirs (old_cache_of (w_fs w) cf nm svers)) -> path_ok d = true) ->
  run_build cf nm vers root w = (w', Done (inr e)) ->
  exists ccd wx,
    undo_entry cf nm svers (fun w0 => run root None [] w0) w (old_cache_of (w_fs w) cf nm svers) = Some (ccd, wx) /\
    ((forall n, In n (w_faults w) -> n < w_effects wx) ->
     forall d, isdir (w_fs w) d = true -> isdir (w_fs w') d = true).
Proof. exact rollback_keeps_dirs_faults. Qed.

(* whatever faults are injected, foreign files are intact after the build *)
Theorem C14_foreign_files_intact_under_faults : forall faults cf nm vers svers root w w' r (P : path -> Prop),
  w_faults w = faults ->
  sanitize vers = Some svers -> AllTargets P root ->
  run_build cf nm vers root w = (w', r) ->
  forall p f, lookup (w_fs w) p = Some (NFile f) ->
    ~ Managed P (old_cache_of (w_fs w) cf nm svers) cf p -> lookup (w_fs w') p = Some (NFile f).
Proof. intros faults cf nm vers svers root w w' r P _. apply build_preserves_foreign_files_tight. Qed.

(* the state after a failed build under any fault set that does not hit the undo itself (Proofs/SimP2.v): the tree is
   well formed, every path holds what it held or was absent and is now a (leaked, empty-of-files) directory; that a
   directory CAN leak under two faults is exhibited in RollbackFaults2Ex.v *)
Theorem C14_rollback_state_under_faults : forall cf nm vers svers root w w' e (P : path -> Prop),
  sanitize vers = Some svers ->
  AllTargets P root ->
  fs_wf (w_fs w) ->
  (forall p f, lookup (w_fs w) p = Some (NFile f) -> path_ok p = true) ->
  (forall a t, (P t \/ t = cf \/ In t (cache_targets (old_cache_of (w_fs w) cf nm svers))) ->
     below a t = true -> (forall f, lookup (w_fs w) a <> Some (NFile f)) /\ ~ P a) ->
  (forall d, In d (c_dirs (old_cache_of (w_fs w) cf nm svers)) -> path_ok d = true) ->
  run_build cf nm vers root w = (w', Done (inr e)) ->
  exists ccd wx,
    undo_entry cf nm svers (fun w0 => run root None [] w0) w (old_cache_of (w_fs w) cf nm svers) = Some (ccd, wx) /\
    ((forall n, In n (w_faults w) -> (n < w_effects wx)%nat) ->
     fs_wf (w_fs w') /\
     (forall p, same_or_leaked (w_fs w) (w_fs w') p) /\
     (forall d, lookup (w_fs w) d = None -> lookup (w_fs w') d = Some NDir ->
        forall q, below d q = true ->
          lookup (w_fs w') q = None \/ (lookup (w_fs w) q = None /\ lookup (w_fs w') q = Some NDir))).
Proof. exact rollback_state_faults. Qed.
