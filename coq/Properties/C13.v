(* Properties/C13.v — comparison modes.  HASH results are equal iff the bytes are equal (the
   model's hash is injective; SHA-256 collision freedom is the trusted counterpart), METADATA
   results iff size and mtime are equal; the comparison routines return exactly these results
   for the file on disk.  The hash memo: C13_memo_invariant_along_every_run
   (Proofs/HashMemo*.v) - the invariant HInv (HashOk + "no entry keyed built for a path that is
   not claimed") holds from the world in which a build starts user code through the run of
   EVERY program; hence (C13_recorded_hash_of_a_rebuilt_output, C13_recorded_hash_of_a_read)
   the HASH result recorded for every rebuilt output is the hash of the file as its function
   left it, and every recorded HASH read carries the hash of the bytes the reader saw.
   History: with the code as first pinned this invariant was FALSE (defect D15, found by this
   proof attempt; HashMemoEx.v keeps the old replay routine and the failing run as
   documentation and the repaired runs as regression examples). *)
From Coq Require Import List String NArith ZArith Bool.
From FB.Base Require Import PyVal Fs.
From FB.Gen Require Import JsonUtilGen.
From FB.Spec Require Import Prog.
From FB.Model Require Import Types Monad SimpleOps Builder Persist Build Run.
From FB.Proofs Require Import CmpLaws BuildFileLaws HashMemoInv HashMemoRun.
From FB.Proofs Require ExecGenLaws.   (* T1g: the model routines are equal to the translation of the source (Gen/ExecGen.v) *)
From FB.Proofs Require OpsGenLaws.   (* T1g: build_file*, subbuild, queries, cache validation of file_builder.py = Model/Builder.v (Gen/OpsGen.v) *)
Import ListNotations.

(* the test every cache decision applies to comparison results is JSON equality *)
Theorem C13_hash_tracks_content : forall b1 b2, is_equal (hash_of b1) (hash_of b2) = true <-> b1 = b2.
Proof. exact hash_equal_iff. Qed.

Theorem C13_metadata_tracks_size_and_mtime : forall s1 t1 s2 t2,
  is_equal (meta_of s1 t1) (meta_of s2 t2) = true <-> s1 = s2 /\ t1 = t2.
Proof. exact meta_equal_iff. Qed.

(* in particular a pure timestamp change is invisible to HASH and a same-size
   same-mtime rewrite is invisible to METADATA (the documented weakness) *)
Corollary C13_hash_ignores_mtime : forall b, is_equal (hash_of b) (hash_of b) = true.
Proof. intro b. apply hash_equal_iff. reflexivity. Qed.

(* what the two routines return for the file on disk *)
Theorem C13_metadata_result : forall p w w' r, file_metadata p w = (w', r) ->
  w' = w /\
  match lookup (w_fs w) p with
  | Some (NFile f) => r = inl (meta_of (String.length (f_bytes f)) (f_mtime f))
  | Some NDir => r = inr (XOS XIsADirectory)
  | None => r = inr (XOS (err_of (stat_err (w_fs w) p)))
  end.
Proof. exact file_metadata_spec. Qed.

(* the hash memo is transparent under its invariant, and the routine keeps the invariant *)
Theorem C13_memo_transparent : forall p w w' r, HashOk w -> file_hash p w = (w', r) ->
  HashOk w' /\ w_fs w' = w_fs w /\ w_new w' = w_new w /\
  match lookup (w_fs w) p with
  | Some (NFile f) => r = inl (hash_of (f_bytes f))
  | Some NDir => r = inr (XOS XIsADirectory)
  | None => (exists e, r = inr (XOS e))
  end.
Proof. exact file_hash_spec. Qed.

Theorem C13_memo_invariant_along_every_run : forall pr target subs w w' r,
  HInv w -> old_keys_ok (w_old w) -> TSA target w -> run pr target subs w = (w', r) -> HInv w'.
Proof. exact run_HInv. Qed.

Theorem C13_memo_invariant_from_build_start : forall cf f nm svers w root old w1 ccd w2 res,
  cache_of_json (f_json f) = ReadOk old ->
  make_dirs (dirname cf) (start_world w cf old nm svers) = (w1, inl ccd) ->
  run root None [] (set_log (LInvoke "<root>" None PNone PNone :: w_log w1) w1) = (w2, res) ->
  HInv w2.
Proof. exact build_from_cache_file_HInv. Qed.

Theorem C13_recorded_hash_of_a_rebuilt_output : forall p f sa skw (fn : path -> pyval -> pyval -> prog) w w1 w' v o,
  HInv w -> old_keys_ok (w_old w) ->
  bf_setup p HASH f sa skw w = (w1, inl None) ->
  bf_rebuild p HASH f sa skw (fun p' a k w0 => run (fn p' a k) (Some p') [] w0) w1 = (w', (inl v, Some o)) ->
  exists fl subs, lookup (w_fs w') p = Some (NFile fl) /\
                  o = OBuildFile p HASH f sa skw subs v (hash_of (f_bytes fl)) false false.
Proof. exact every_rebuilt_output_hash. Qed.

Theorem C13_recorded_hash_of_a_read : forall p w w1 v o,
  HashOk w -> m_query (QRead p HASH) w = (w1, (inl v, o)) ->
  exists fl, lookup (w_fs w) p = Some (NFile fl) /\ lookup (w_fs w1) p = Some (NFile fl) /\
             v = hash_of (f_bytes fl) /\
             o = Some (OSimple (QRead p HASH) (hash_of (f_bytes fl)) None) /\
             user_answer (QRead p HASH) (inl v) w1 = inl (PStr (f_bytes fl)).
Proof. exact read_records_hash_of_bytes_seen. Qed.

Example C13_nonvacuous : HashOk {| w_fs := []; w_clock := 0; w_nextid := 1;
     w_old := {| c_name := ""; c_files := []; c_subs := []; c_dirs := []; c_fvers := PDict []; c_built := [] |};
     w_new := {| c_name := ""; c_files := []; c_subs := []; c_dirs := []; c_fvers := PDict []; c_built := [] |};
     w_bd := BuildDirs.bd_init [] []; w_backups := []; w_lost := []; w_hash := [];
     w_cachefile := []; w_log := []; w_faults := []; w_effects := 0 |}.
Proof. intros p h b f H. discriminate. Qed.
