(* Properties/C13.v — comparison modes.  HASH results are equal iff the bytes
   are equal (the model's hash is injective; SHA-256 collision freedom is the
   trusted counterpart), METADATA results iff size and mtime are equal; the
   comparison routines return exactly these results for the file on disk, the
   hash memo included as long as its invariant holds. *)
From Coq Require Import List String NArith ZArith Bool.
From FB.Base Require Import PyVal Fs.
From FB.Gen Require Import JsonUtilGen.
From FB.Model Require Import Types Monad SimpleOps Builder.
From FB.Proofs Require Import CmpLaws.
Import ListNotations.

(* the test every cache decision applies to comparison results is JSON equality *)
Theorem C13_hash_tracks_content : forall b1 b2, is_equal (hash_of b1) (hash_of b2) = true <-> b1 = b2.
Proof. exact hash_equal_iff. Qed.

Theorem C13_metadata_tracks_size_and_mtime : forall s1 t1 s2 t2,
  is_equal (meta_of s1 t1) (meta_of s2 t2) = true <-> s1 = s2 /\ t1 = t2.
Proof. exact meta_equal_iff. Qed.

(* in particular a pure timestamp change is invisible to HASH and a same-size
   same-mtime rewrite is invisible to METADATA (the documented weakness) *)
Corollary C13_hash_ignores_mtime : forall b, is_equal (hash_of b) (hash_of b) = true.
Proof. intro b. apply hash_equal_iff. reflexivity. Qed.

(* what the two routines return for the file on disk *)
Theorem C13_metadata_result : forall p w w' r, file_metadata p w = (w', r) ->
  w' = w /\
  match lookup (w_fs w) p with
  | Some (NFile f) => r = inl (meta_of (String.length (f_bytes f)) (f_mtime f))
  | Some NDir => r = inr (XOS XIsADirectory)
  | None => r = inr (XOS (err_of (stat_err (w_fs w) p)))
  end.
Proof. exact file_metadata_spec. Qed.

(* the hash memo is transparent under its invariant, and the routine keeps the invariant *)
Theorem C13_memo_transparent : forall p w w' r, HashOk w -> file_hash p w = (w', r) ->
  HashOk w' /\ w_fs w' = w_fs w /\ w_new w' = w_new w /\
  match lookup (w_fs w) p with
  | Some (NFile f) => r = inl (hash_of (f_bytes f))
  | Some NDir => r = inr (XOS XIsADirectory)
  | None => (exists e, r = inr (XOS e))
  end.
Proof. exact file_hash_spec. Qed.

Example C13_nonvacuous : HashOk {| w_fs := []; w_clock := 0; w_nextid := 1;
     w_old := {| c_name := ""; c_files := []; c_subs := []; c_dirs := []; c_fvers := PDict []; c_built := [] |};
     w_new := {| c_name := ""; c_files := []; c_subs := []; c_dirs := []; c_fvers := PDict []; c_built := [] |};
     w_bd := BuildDirs.bd_init [] []; w_backups := []; w_lost := []; w_hash := [];
     w_cachefile := []; w_log := []; w_faults := []; w_effects := 0 |}.
Proof. intros p h b f H. discriminate. Qed.
