(* Properties/C10.v — the build_file contract, about Model/Builder.v m_build_file
   (FileBuilder.build_file_with_comparison + _build_file + _rebuild_file).  Proofs in
   Proofs/BuildFileLaws.v (the call itself) and Proofs/CommitDirs*.v (the end of the build):
   C10_state_after_a_committed_build - after a build that commits (any program, fault-free,
   condition A of C02), the cache file holds the new cache; a path built by this build is a
   regular file iff its record is not a failure (failed targets leave no file); a path served
   from the old cache holds exactly the pre-state node; old outputs the new cache does not
   hold are gone; every other path is untouched; every recorded directory exists, every
   pre-existing directory is still there unless the old cache had recorded it;
   C10_parents_of_failed_targets_removed_when_empty;
   C10_no_unrecorded_directory_survives / C10_made_directories_are_the_recorded_ones (Proofs/CommitDirs3Main.v,
   SimI1-2.v): a directory that is there after a committed build and was not there before is recorded as created
   in the new cache (so no directory made for a failed output survives unless a recorded output needs it), wherever
   the cache file lies.  Label: partial - not proved: the same for targets with a non-creatable component (stated:
   SimI2.no_unrecorded_directory_survives_any_target_statement; true on all computed histories of SimIEx.v), faults,
   and that the file holds what its function wrote (C13 covers the recorded comparison result). *)
From Coq Require Import List String Bool.
From FB.Base Require Import PyVal Fs.
From FB.Gen Require Import JsonUtilGen.
From FB.Spec Require Import JsonSpec.
From FB.Spec Require Import Prog.
From FB.Model Require Import Types Monad BuildDirs SimpleOps Builder Persist Build Run Frame.
From FB.Proofs Require Import BuildFileLaws FrameLaws RollbackLaws CommitDirsMain CommitDirs2File CommitDirs2FileMain RollbackDirsLaws ViewDefs ViewInit ViewXDefs ViewXRun ViewR2 ViewR3 CommitDirs2Main CommitDirs3Main SimI2.
(* T1g: Model/BuildDirs.v and Model/CreatedFiles.v are equal to the translation of build_dirs.py / created_files.py
   (Gen/BookGen.v, regenerated on every run); a change of those sources that the model does not follow breaks this import *)
From FB.Proofs Require BookGenLaws.
From FB.Proofs Require OpsGenLaws.   (* T1g: build_file*, subbuild, queries, cache validation of file_builder.py = Model/Builder.v (Gen/OpsGen.v) *)
From FB.Proofs Require DriverGenLaws.   (* T1g: _build, _roll_back, _commit, clean, _make_dirs, _make_room, FileBackups = Model/Build.v, Builder.v (Gen/DriverGen.v) *)
Import ListNotations.

Theorem C10_state_after_a_committed_build : forall cf nm vers svers root w w' v (P : path -> Prop),
  w_faults w = [] ->
  sanitize vers = Some svers ->
  AllTargets P root ->
  fs_wf (w_fs w) ->
  (forall a t, (P t \/ t = cf \/ In t (cache_targets (old_cache_of (w_fs w) cf nm svers))) ->
     below a t = true -> (forall f, lookup (w_fs w) a <> Some (NFile f)) /\ ~ P a) ->
  (forall d, In d (c_dirs (old_cache_of (w_fs w) cf nm svers)) -> path_ok d = true) ->
  run_build cf nm vers root w = (w', Done (inl v)) ->
  CommitPost (w_fs w) (old_cache_of (w_fs w) cf nm svers) cf w'.
Proof. exact commit_leaves. Qed.

(* every output built by a committed build is a regular file whose recorded comparison result is that of
   the file on disk (any previous cache) *)
Theorem C10_built_files_are_what_was_recorded : forall cf nm vers svers root w w' v (P : path -> Prop),
  w_faults w = [] ->
  sanitize vers = Some svers ->
  AllTargets P root ->
  fs_wf (w_fs w) ->
  (forall a t, (P t \/ t = cf \/ In t (cache_targets (old_cache_of (w_fs w) cf nm svers))) ->
     below a t = true -> (forall f, lookup (w_fs w) a <> Some (NFile f)) /\ ~ P a) ->
  (forall d, In d (c_dirs (old_cache_of (w_fs w) cf nm svers)) -> path_ok d = true) ->
  run_build cf nm vers root w = (w', Done (inl v)) ->
  forall p o, cache_get_file (w_new w') p = Some o -> In p (c_built (w_new w')) -> op_raised o = false ->
    exists g, lookup (w_fs w') p = Some (NFile g) /\ CmpOK o g.
Proof. exact built_files_recorded. Qed.

Theorem C10_parents_of_failed_targets_removed_when_empty : forall fs0 old cf w',
  CommitPost fs0 old cf w' ->
  forall d, In d (bd_err_created (w_bd w')) -> ~ In d (c_dirs (w_new w')) ->
    lookup (w_fs w') d = Some NDir ->
    lookup fs0 d = Some NDir \/ exists n, lookup (w_fs w') (n :: d) <> None.
Proof. exact failed_parents_removed_when_empty. Qed.

(* non-JSON arguments are rejected before anything happens; no record is made *)
Theorem C10_type_error_first : forall p c f a kw fn w,
  sanitize a = None \/ sanitize kw = None -> m_build_file p c f a kw fn w = (w, (inr XType, None)).
Proof. exact bf_type_error. Qed.

(* the function is applied to the (normalised) path and the round-tripped arguments only *)
Theorem C10_function_receives_sanitized_arguments : forall p c f a kw fn fn' w sa skw,
  sanitize a = Some sa -> sanitize kw = Some skw ->
  (forall u, fn p sa skw u = fn' p sa skw u) ->
  m_build_file p c f a kw fn w = m_build_file p c f a kw fn' w.
Proof. exact bf_fn_sees_sanitized_args. Qed.

(* success after running the function: the target is a regular file, the value is JSON-normalised
   and is the value of the record *)
Theorem C10_success : forall p c f a kw fn w w' v o,
  m_build_file p c f a kw fn w = (w', (inl v, Some o)) ->
  invocations (w_log w) < invocations (w_log w') ->
  body_log_mono (fun u => fn p (match sanitize a with Some s => s | None => PNone end)
                               (match sanitize kw with Some s => s | None => PNone end) u) ->
  isfile (w_fs w') p = true /\ sanitized v = true /\ op_ret o = v /\ op_raised o = false /\ op_setup_failed o = false.
Proof. exact bf_invoked_success_file. Qed.

(* failure after running the function (raise, non-JSON value, file not created): the target does not
   exist afterwards and the record is marked raised (not "failed in setup") *)
Theorem C10_failure_leaves_no_target : forall p c f a kw fn w w' e o,
  w_faults w = [] ->
  (forall p' a' k' u u' r, fn p' a' k' u = (u', r) -> w_faults u' = w_faults u /\ invocations (w_log u) <= invocations (w_log u')) ->
  m_build_file p c f a kw fn w = (w', (inr e, Some o)) ->
  invocations (w_log w) < invocations (w_log w') ->
  isfile (w_fs w') p = false /\ op_raised o = true /\ op_setup_failed o = false.
Proof. exact bf_failure_target_absent. Qed.

(* the exception the function raised is the one that propagates (unless releasing the directory
   reservations crashes, which C09_no_key_error excludes at protocol level) *)
Theorem C10_user_exception_propagates : forall p c f a kw fn w sa skw w1 u' e0 subs,
  sanitize a = Some sa -> sanitize kw = Some skw ->
  bf_setup p c f sa skw w = (w1, inl None) ->
  fn p sa skw (bf_invoke_world p f sa skw w1) = (u', (inr e0, subs)) ->
  exists w' e,
    m_build_file p c f a kw fn w = (w', (inr e, Some (OBuildFile p c f sa skw subs PNone PNone true false))) /\
    (e = e0 \/ (bd_error (w_bd u') p = None /\ e = bd_key_error)).
Proof. exact bf_user_exception_propagates. Qed.

(* writing to the cache file is refused with the world unchanged *)
Theorem C10_cache_file_target_rejected : forall p c f a kw fn w sa skw,
  sanitize a = Some sa -> sanitize kw = Some skw -> cache_has_file (w_new w) p = false -> p = w_cachefile w ->
  m_build_file p c f a kw fn w = (w, (inr (XRuntime RCacheFileTarget), Some (OBuildFile p c f sa skw [] PNone PNone true true))).
Proof. exact bf_cache_file_target_rejected. Qed.

(* clause (b1), third alternative: after a committed build (fault-free, condition A, creatable targets; any place of
   the cache file, any well-formed previous cache) a directory that was not there before is one the new cache records
   as created - the build leaves no directory of its own making that clean would not remove *)
Theorem C10_no_unrecorded_directory_survives : forall cf nm vers svers root w w' v (P : path -> Prop),
  w_faults w = [] ->
  sanitize vers = Some svers ->
  AllTargets P root ->
  fs_wf (w_fs w) ->
  (forall a t, (P t \/ t = cf \/ In t (cache_targets (old_cache_of (w_fs w) cf nm svers))) ->
     below a t = true -> (forall f, lookup (w_fs w) a <> Some (NFile f)) /\ ~ P a) ->
  (forall d, In d (c_dirs (old_cache_of (w_fs w) cf nm svers)) -> path_ok d = true) ->
  WfCache (old_cache_of (w_fs w) cf nm svers) ->
  old_ok (old_cache_of (w_fs w) cf nm svers) cf ->
  (forall p, P p -> tgtP p) ->
  (maxlen (w_fs w) < walk_fuel)%nat -> (List.length (dirname cf) < walk_fuel)%nat ->
  run_build cf nm vers root w = (w', Done (inl v)) ->
  forall d, lookup (w_fs w') d = Some NDir -> lookup (w_fs w) d <> Some NDir -> In d (c_dirs (w_new w')).
Proof. exact no_unrecorded_directory_survives. Qed.

Theorem C10_made_directories_are_the_recorded_ones : forall cf nm vers svers root w w' v (P : path -> Prop),
  w_faults w = [] -> sanitize vers = Some svers -> AllTargets P root -> fs_wf (w_fs w) ->
  (forall a t, (P t \/ t = cf \/ In t (cache_targets (old_cache_of (w_fs w) cf nm svers))) ->
     below a t = true -> (forall f, lookup (w_fs w) a <> Some (NFile f)) /\ ~ P a) ->
  (forall d, In d (c_dirs (old_cache_of (w_fs w) cf nm svers)) -> path_ok d = true) ->
  WfCache (old_cache_of (w_fs w) cf nm svers) -> old_ok (old_cache_of (w_fs w) cf nm svers) cf ->
  (forall p, P p -> tgtP p) -> (maxlen (w_fs w) < walk_fuel)%nat -> (List.length (dirname cf) < walk_fuel)%nat ->
  run_build cf nm vers root w = (w', Done (inl v)) ->
  forall d, lookup (w_fs w) d <> Some NDir ->
    (lookup (w_fs w') d = Some NDir <-> In d (c_dirs (w_new w'))).
Proof. exact made_directories_are_the_recorded_ones. Qed.
