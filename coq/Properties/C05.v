(* Properties/C05.v — cache effectiveness.
   MAIN THEOREM (C05_unchanged_rebuild_hits_everything, Proofs/CoreRebuild*.v, on the Core
   model): after a committed build in which every call succeeded and which did not find a
   regular file of somebody else at a target path, the same build on the tree it left
   (nothing changed) returns the same value, re-runs NO function (its log is the root entry
   followed by the root-level answers of the first build) and leaves every node of the
   tree identical — same bytes, modification time and inode: outputs are put back, not
   rewritten.  Holds for any previous cache of the first build (which may itself have mixed
   hits and fresh runs), and for any number of further rebuilds (C05_every_further_rebuild).
   NOT covered by the theorem (decided by T2/T3 on the implementation): builds containing
   failed calls ("re-runs only calls that raised"), and the frame clause about unobserved
   paths; Proofs/CoreRebuildOpen.v refutes two naive general statements of those clauses
   with concrete programs (a function whose record contains a rejected attempt is re-run
   by every build and rewrites its output, so METADATA readers of that output re-run too;
   a foreign file planted below a directory the previous build created keeps that directory
   from being cleaned away, which the program observes) — both behaviours are what the
   property's text allows.
   On the mechanism model: a call served from the cache does not run the function at all,
   the value served is the recorded one, lookups never change the tree, the caches or the
   log. *)
From Coq Require Import List String Bool.
From FB.Base Require Import PyVal Fs.
From FB.Gen Require Import JsonUtilGen.
From FB.Model Require Import Types Monad CreatedFiles SimpleOps Builder.
From FB.Spec Require Import JsonSpec Prog Ref Oracle.
From FB.Model Require Import Persist Core CoreOracle CoreCache.
From FB.Proofs Require Import ReplayLaws BuildFileLaws CoreRebuildDefs CoreRebuildMain CoreRebuildIter.
From Coq Require Import NArith.
From FB.Proofs Require SimO1 SimO2 SimO3 SimQ3.
(* T1g: Model/BuildDirs.v and Model/CreatedFiles.v are equal to the translation of build_dirs.py / created_files.py
   (Gen/BookGen.v, regenerated on every run); a change of those sources that the model does not follow breaks this import *)
From FB.Proofs Require BookGenLaws.
From FB.Proofs Require ExecGenLaws.   (* T1g: the model routines are equal to the translation of the source (Gen/ExecGen.v) *)
From FB.Proofs Require CacheGenLaws.   (* T1g: the model routines are equal to the translation of the source (Gen/CacheGen.v) *)
From FB.Proofs Require OpsGenLaws.   (* T1g: build_file*, subbuild, queries, cache validation of file_builder.py = Model/Builder.v (Gen/OpsGen.v) *)
Import ListNotations.

Theorem C05_unchanged_rebuild_hits_everything : forall fs cf old vers clock nextid root nm v s1 clock' nextid',
  let cr1 := core_build fs cf old vers clock nextid root in
  cr_outcome cr1 = inl v -> cr_state cr1 = Some s1 ->
  fs_wf fs -> isdir fs cf = false -> sanitized vers = true ->
  records_clean s1 = true -> records_distinct s1 = true -> no_foreign_targets fs cf old s1 ->
  let cr2 := core_build (next_fs cf s1) cf (cache_of_state nm s1) vers clock' nextid' root in
  cr_outcome cr2 = inl v /\
  cr_log cr2 = LInvoke "<root>" None PNone PNone :: build_top fs cf old vers clock nextid root /\
  (forall p, lookup (cr_tree cr2) p = lookup (cr_tree cr1) p).
Proof. exact rebuild_hits_all. Qed.

Theorem C05_unchanged_rebuild_runs_no_function : forall fs cf old vers clock nextid root nm v s1 clock' nextid',
  let cr1 := core_build fs cf old vers clock nextid root in
  cr_outcome cr1 = inl v -> cr_state cr1 = Some s1 ->
  fs_wf fs -> isdir fs cf = false -> sanitized vers = true ->
  records_clean s1 = true -> records_distinct s1 = true -> no_foreign_targets fs cf old s1 ->
  let cr2 := core_build (next_fs cf s1) cf (cache_of_state nm s1) vers clock' nextid' root in
  exists answers, cr_log cr2 = LInvoke "<root>" None PNone PNone :: answers /\ forallb is_answer answers = true.
Proof. exact rebuild_runs_nothing. Qed.

(* no invocation logged => the result does not depend on the function: it was not called *)
Theorem C05_hit_does_not_call_function : forall p c f a kw fn fn' w w' res,
  m_build_file p c f a kw fn w = (w', res) ->
  invocations (w_log w') = invocations (w_log w) ->
  (forall p' a' k' u u' r, fn p' a' k' u = (u', r) -> invocations (w_log u) <= invocations (w_log u')) ->
  m_build_file p c f a kw fn' w = (w', res).
Proof. exact bf_hit_independent_of_fn. Qed.

Theorem C05_subbuild_hit_does_not_call_function : forall f a kw fn fn' w w' res,
  m_subbuild f a kw fn w = (w', res) ->
  invocations (w_log w') = invocations (w_log w) ->
  (forall a' k' u u' r, fn a' k' u = (u', r) -> invocations (w_log u) <= invocations (w_log u')) ->
  m_subbuild f a kw fn' w = (w', res).
Proof. exact sb_hit_independent_of_fn. Qed.

(* the value returned is the value of the record that is attached to the caller *)
Theorem C05_served_value_is_recorded_value : forall p c f a kw fn w w' v o,
  m_build_file p c f a kw fn w = (w', (inl v, Some o)) -> op_ret o = v /\ op_raised o = false /\ op_setup_failed o = false.
Proof. exact bf_result_is_record_value. Qed.

(* failures are never cached: a lookup never returns a raised record *)
Theorem C05_failures_not_cached : forall p f a k w w' o, build_file_cache_lookup p f a k w = (w', inl (Some o)) ->
  cache_get_file (w_old w) p = Some o /\ op_raised o = false /\ forallb (fun s => negb (has_sf s)) (op_subs o) = true.
Proof. exact lookup_never_raised. Qed.

(* deciding hit or miss is read-only: only BuildDirs bookkeeping and the hash memo may change *)
Theorem C05_lookup_read_only : forall p f a k w w' r, build_file_cache_lookup p f a k w = (w', r) -> same_but_view w w'.
Proof. exact lookup_footprint. Qed.

Theorem C05_replay_read_only : forall o cf w w' r, is_op_cached o cf w = (w', r) -> same_but_view w w'.
Proof. exact replay_footprint. Qed.

(* THE MECHANISM MODEL (Proofs/SimO1-3.v = the simulation mechanism ~ Core of SimJ9.v composed with the Core theorem
   above): a rebuild by the mechanism model - the model proved equal to the translation of the Python - whose previous
   cache and tree are those a committed all-successful build left (the tree agrees with Core's next tree away from the
   cache file, which is a regular file; the cache read has the same lookups, directories and versions as Core's next
   cache, in any order: SimQ1-3.v core_build_invariance - Core cannot tell them apart) returns the recorded value and its visible log holds the root invocation and
   answers only: no function runs.  MechBuildHyps bundles the hypotheses of SimJ9.build_agree_hash (class okcH, program
   side conditions). *)
Theorem C05_mechanism_unchanged_rebuild_runs_no_function :
  forall (fs : Fs.fsT) (cf : Fs.path) (old0 : Types.cache) (svers : PyVal.pyval) (clock nextid : N)
         (root : Prog.prog) (v : PyVal.pyval) (s1 : Core.kstate),
       CoreOracle.cr_outcome (CoreOracle.core_build fs cf old0 svers clock nextid root) = inl v ->
       CoreOracle.cr_state (CoreOracle.core_build fs cf old0 svers clock nextid root) = Some s1 ->
       Fs.fs_wf fs ->
       Fs.isdir fs cf = false ->
       JsonSpec.sanitized svers = true ->
       CoreRebuildDefs.records_clean s1 = true ->
       CoreRebuildDefs.records_distinct s1 = true ->
       CoreRebuildDefs.no_foreign_targets fs cf old0 s1 ->
       forall (w : Types.world) (old : Types.cache) (nm0 nm : string) (w1 w2 : Types.world)
         (r : Builder.outcome) (l : list Types.op),
       (forall p : Fs.path, p <> cf -> Fs.lookup (Types.w_fs w) p = Fs.lookup (CoreCache.next_fs cf s1) p) ->
       Fs.isfile (Types.w_fs w) cf = true ->
       NoDup (map fst (Types.c_files old)) ->
       (forall p : Fs.path,
        SimpleOps.cache_get_file old p = SimpleOps.cache_get_file (CoreCache.cache_of_state nm0 s1) p) ->
       (forall k : PyVal.pyval,
        Types.subs_get (Types.c_subs old) k = Types.subs_get (Types.c_subs (CoreCache.cache_of_state nm0 s1)) k) ->
       Types.c_dirs old = Types.c_dirs (CoreCache.cache_of_state nm0 s1) ->
       Types.c_fvers old = Types.c_fvers (CoreCache.cache_of_state nm0 s1) ->
       SimO1.MechBuildHyps w cf old nm svers root w1 w2 r l ->
       r = inl v /\
       (exists answers : list Types.logentry,
          ViewK3.vis_log (Types.w_log w2) =
          rev (Types.LInvoke "<root>"%string None PyVal.PNone PyVal.PNone :: answers) ++ ViewK3.vis_log (Types.w_log w1) /\
          forallb CoreRebuildDefs.is_answer answers = true).
Proof. exact SimQ3.mech_rebuild_runs_no_function_closed. Qed.

(* ... and rewrites nothing: every node of the mechanism's view is the node of the tree the first build left (same bytes,
   mtime, inode), when no file of that tree is newer than the clock *)
Theorem C05_mechanism_unchanged_rebuild_rewrites_nothing :
  forall (fs : Fs.fsT) (cf : Fs.path) (old0 : Types.cache) (svers : PyVal.pyval) (clock nextid : N)
         (root : Prog.prog) (v : PyVal.pyval) (s1 : Core.kstate),
       CoreOracle.cr_outcome (CoreOracle.core_build fs cf old0 svers clock nextid root) = inl v ->
       CoreOracle.cr_state (CoreOracle.core_build fs cf old0 svers clock nextid root) = Some s1 ->
       Fs.fs_wf fs ->
       Fs.isdir fs cf = false ->
       JsonSpec.sanitized svers = true ->
       CoreRebuildDefs.records_clean s1 = true ->
       CoreRebuildDefs.records_distinct s1 = true ->
       CoreRebuildDefs.no_foreign_targets fs cf old0 s1 ->
       forall (w : Types.world) (old : Types.cache) (nm0 nm : string) (w1 w2 : Types.world)
         (r : Builder.outcome) (l : list Types.op),
       (forall p : Fs.path, p <> cf -> Fs.lookup (Types.w_fs w) p = Fs.lookup (CoreCache.next_fs cf s1) p) ->
       Fs.isfile (Types.w_fs w) cf = true ->
       NoDup (map fst (Types.c_files old)) ->
       (forall p : Fs.path,
        SimpleOps.cache_get_file old p = SimpleOps.cache_get_file (CoreCache.cache_of_state nm0 s1) p) ->
       (forall k : PyVal.pyval,
        Types.subs_get (Types.c_subs old) k = Types.subs_get (Types.c_subs (CoreCache.cache_of_state nm0 s1)) k) ->
       Types.c_dirs old = Types.c_dirs (CoreCache.cache_of_state nm0 s1) ->
       Types.c_fvers old = Types.c_fvers (CoreCache.cache_of_state nm0 s1) ->
       SimO1.MechBuildHyps w cf old nm svers root w1 w2 r l ->
       SimO1.FilesOld (CoreOracle.cr_tree (CoreOracle.core_build fs cf old0 svers clock nextid root)) (Types.w_clock w) ->
       forall p : Fs.path,
       Fs.lookup (ViewDefs.view_fs w2) p =
       Fs.lookup (CoreOracle.cr_tree (CoreOracle.core_build fs cf old0 svers clock nextid root)) p.
Proof. exact SimQ3.mech_rebuild_tree_identical_closed. Qed.
