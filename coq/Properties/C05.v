(* Properties/C05.v — cache effectiveness (label: partial): what is proved here
   is that a call served from the cache does not run the function at all, that
   the value served is the recorded one, and that lookups never change the tree,
   the caches or the log (so deciding "hit or miss" has no side effect).  That
   the lookup succeeds whenever nothing observed has changed is the content of
   the simulation theorem of C01 (Core model) and is exercised by T2/T3. *)
From Coq Require Import List String Bool.
From FB.Base Require Import PyVal Fs.
From FB.Gen Require Import JsonUtilGen.
From FB.Model Require Import Types Monad CreatedFiles SimpleOps Builder.
From FB.Proofs Require Import ReplayLaws BuildFileLaws.
Import ListNotations.

(* no invocation logged => the result does not depend on the function: it was not called *)
Theorem C05_hit_does_not_call_function : forall p c f a kw fn fn' w w' res,
  m_build_file p c f a kw fn w = (w', res) ->
  invocations (w_log w') = invocations (w_log w) ->
  (forall p' a' k' u u' r, fn p' a' k' u = (u', r) -> invocations (w_log u) <= invocations (w_log u')) ->
  m_build_file p c f a kw fn' w = (w', res).
Proof. exact bf_hit_independent_of_fn. Qed.

Theorem C05_subbuild_hit_does_not_call_function : forall f a kw fn fn' w w' res,
  m_subbuild f a kw fn w = (w', res) ->
  invocations (w_log w') = invocations (w_log w) ->
  (forall a' k' u u' r, fn a' k' u = (u', r) -> invocations (w_log u) <= invocations (w_log u')) ->
  m_subbuild f a kw fn' w = (w', res).
Proof. exact sb_hit_independent_of_fn. Qed.

(* the value returned is the value of the record that is attached to the caller *)
Theorem C05_served_value_is_recorded_value : forall p c f a kw fn w w' v o,
  m_build_file p c f a kw fn w = (w', (inl v, Some o)) -> op_ret o = v /\ op_raised o = false /\ op_setup_failed o = false.
Proof. exact bf_result_is_record_value. Qed.

(* failures are never cached: a lookup never returns a raised record *)
Theorem C05_failures_not_cached : forall p f a k w w' o, build_file_cache_lookup p f a k w = (w', inl (Some o)) ->
  cache_get_file (w_old w) p = Some o /\ op_raised o = false /\ forallb (fun s => negb (has_sf s)) (op_subs o) = true.
Proof. exact lookup_never_raised. Qed.

(* deciding hit or miss is read-only: only BuildDirs bookkeeping and the hash memo may change *)
Theorem C05_lookup_read_only : forall p f a k w w' r, build_file_cache_lookup p f a k w = (w', r) -> same_but_view w w'.
Proof. exact lookup_footprint. Qed.

Theorem C05_replay_read_only : forall o cf w w' r, is_op_cached o cf w = (w', r) -> same_but_view w w'.
Proof. exact replay_footprint. Qed.
