(* Properties/C16.v — cache persistence is faithful.
   Record level (Proofs/PersistLaws.v): every field of every record survives the write/read
   cycle (Cache.write / Cache.read_immutable as modelled in Model/Persist.v); values come
   back JSON-equal.
   Cache level (C16_cache_roundtrip, Proofs/CacheRT*.v): a cache whose tables hold a
   well-formed forest (`writable`: no entry in progress, records well formed, legal
   directory names, sanitized versions — what a committed build records) is written, read
   back as ReadOk c' with the same build name, JSON-equal versions, the same created
   directories, the same forest (every record normalised: op_equiv), the derived tables
   (file by path, subbuild by key) those of the forest entry by entry, and c' is a fixed
   point of a second cycle.  Refusals: Proofs/CacheRTRefuse.v (wrong software / version /
   shape -> ReadRuntime or ReadMalformed; m_build / m_clean then refuse with the world
   untouched).  C16_committed_cache_is_writable / C16_committed_cache_is_writable_next
   (Proofs/SimH1-17.v): the cache a committed build of the mechanism model holds - a first build, and a build that
   starts from the cache file of such a build - satisfies `writable`, its tables are those of its forest, and the
   cache file it leaves holds cache_to_json of it: the hypotheses of C16_cache_roundtrip hold of every cache the
   library writes in a fault-free history (prog_paths_wf: legal paths in the program). *)
From Coq Require Import List String Bool ZArith.
Open Scope Z_scope. Open Scope string_scope. Open Scope list_scope.
From FB.Base Require Import PyVal Fs.
From FB.Gen Require Import JsonUtilGen.
From FB.Spec Require Import JsonSpec.
From FB.Spec Require Import Prog.
From FB.Model Require Import Types Monad SimpleOps Builder PathNorm Persist PersistSpec Build Run.
From FB.Proofs Require Import JsonLaws PersistLaws CacheRTDefs CacheRTLaws CacheRTTables CacheRTCycle CacheRTForest CacheRTMain CacheRTOpen SimH7 SimH17.
From Coq Require Import Permutation.
From FB.Proofs Require CacheGenLaws.   (* T1g: the model routines are equal to the translation of the source (Gen/CacheGen.v) *)
Import ListNotations.

Theorem C16_cache_roundtrip : forall c roots, writable c roots ->
  exists j c',
    cache_to_json c = Some j /\ cache_of_json (Some j) = ReadOk c' /\
    c_name c' = c_name c /\
    c_fvers c' = norm_val (c_fvers c) /\ is_equal (c_fvers c) (c_fvers c') = true /\
    (forall p, mem_path p (c_dirs c') = mem_path p (c_dirs c)) /\
    (paths_nodup (c_dirs c) = true -> c_dirs c' = c_dirs c) /\
    c_built c' = [] /\
    c' = tables_of (c_name c') (c_fvers c') (c_dirs c') (map norm_op roots) /\
    all2 op_equiv roots (map norm_op roots) = true /\
    (forest_good roots -> cache_forest c' = Some (map norm_op roots)) /\
    c_files c' = map norm_fentry (c_files (tables_of (c_name c) (c_fvers c) (c_dirs c) roots)) /\
    c_subs c' = map norm_sentry (c_subs (tables_of (c_name c) (c_fvers c) (c_dirs c) roots)) /\
    (tables_from_forest c roots ->
       (forall p, cache_get_file c' p = option_map norm_op (cache_get_file c p)) /\
       (forall p, cache_created_file c' p = cache_created_file c p) /\
       (forall k, subs_get (c_subs c') k = option_map (option_map norm_op) (subs_get (c_subs c) k))) /\
    (tables_perm_forest c roots ->
       Permutation (c_files c') (map norm_fentry (c_files c)) /\
       Permutation (c_subs c') (map norm_sentry (c_subs c))) /\
    (forest_good roots ->
       exists j', cache_to_json c' = Some j' /\ cache_of_json (Some j') = ReadOk c').
Proof. exact cache_roundtrip. Qed.

(* writing a well-formed record, passing it through the text layer and parsing
   it gives the same record with every value in normal form ... *)
Theorem C16_record_roundtrip : forall o, op_wf o = true -> rt_op o = Some (norm_op o).
Proof. exact rt_op_norm. Qed.

(* ... which is the same record up to JSON equality of the values: paths, names, comparison
   modes, nesting, failure markers and exception types are literally preserved *)
Theorem C16_roundtrip_equivalent : forall o, op_wf o = true -> op_equiv o (norm_op o) = true.
Proof. exact norm_op_equiv. Qed.

(* a record that was read from a cache file survives further cycles unchanged *)
Theorem C16_read_records_are_fixed_points : forall o, op_wf o = true -> rt_op (norm_op o) = Some (norm_op o).
Proof. exact rt_op_norm_fixed. Qed.

Theorem C16_values_json_equal : forall v, sanitized_t v = true -> is_equal v (norm_val v) = true.
Proof. exact norm_val_equal. Qed.

(* output paths with any legal name (non-empty components without "/") survive *)
Theorem C16_paths : forall p, path_wf p = true -> str_path (path_str p) = p.
Proof. exact path_roundtrip. Qed.

Theorem C16_queries : forall q, query_wf q = true -> query_of (query_name q) (query_args q) = Some q.
Proof. exact query_roundtrip. Qed.

(* non-vacuity: a nested record with unicode names, a tuple-carrying walk result, a failure marker *)
Example C16_nonvacuous :
  let o := OSubbuild "s" (PList [PInt 1]) (PDict [(PStr "k", PFloat (FFin false 3%positive (-1)))])
             [OSimple (QWalk ["d e"] true) (PList [PTuple [PStr "/d e"; PList []; PList [PStr "o"]]]) None;
              OBuildFile ["o"; "d e"] HASH "f" (PList []) (PDict []) [] PNone PNone true false;
              OSimple (QRead ["x"] METADATA) PNone (Some XFileNotFound)]
             (PDict [(PStr "b", PInt 2); (PStr "a", PNone)]) false false in
  op_wf o = true /\ rt_op o = Some (norm_op o) /\ op_eqb o (norm_op o) = false.
Proof. vm_compute. repeat split. Qed.

(* the hypotheses of the round-trip theorem hold of the cache every committed first build holds, and the cache file
   is its serialisation *)
Theorem C16_committed_cache_is_writable :
  forall cf nm vers svers root w w' v,
    sanitize vers = Some svers -> path_wf cf = true -> prog_paths_wf root ->
    fs_wf (w_fs w) -> w_faults w = [] -> lookup (w_fs w) cf = None ->
    run_build cf nm vers root w = (w', Done (inl v)) ->
    let c := w_new w' in
    exists roots,
      writable c roots /\ tables_perm_forest c roots /\
      (forall p, files_get (c_files c) p =
                 files_get (c_files (tables_of (c_name c) (c_fvers c) (c_dirs c) roots)) p) /\
      forest_good roots /\ paths_nodup (c_dirs c) = true /\
      exists f, lookup (w_fs w') cf = Some (NFile f) /\ f_json f = cache_to_json c.
Proof. exact committed_cache_wf. Qed.

(* ... and of the cache of a build that starts from the cache file of such a build: inherited along a history *)
Theorem C16_committed_cache_is_writable_next :
  forall cf nm vers svers root w w' v f0 c0 roots0,
    sanitize vers = Some svers -> path_wf cf = true -> prog_paths_wf root ->
    fs_wf (w_fs w) -> w_faults w = [] ->
    lookup (w_fs w) cf = Some (NFile f0) -> f_json f0 = cache_to_json c0 ->
    writable c0 roots0 -> forest_good roots0 -> c_name c0 = nm ->
    run_build cf nm vers root w = (w', Done (inl v)) ->
    let c := w_new w' in
    exists roots,
      writable c roots /\ tables_perm_forest c roots /\
      (forall p, files_get (c_files c) p =
                 files_get (c_files (tables_of (c_name c) (c_fvers c) (c_dirs c) roots)) p) /\
      forest_good roots /\ paths_nodup (c_dirs c) = true /\
      exists f, lookup (w_fs w') cf = Some (NFile f) /\ f_json f = cache_to_json c.
Proof. exact committed_cache_wf_next. Qed.
