(* Properties/C16.v — cache persistence is faithful: every field of every
   record survives the write/read cycle (Cache.write / Cache.read_immutable as
   modelled in Model/Persist.v); values come back JSON-equal. *)
From Coq Require Import List String Bool ZArith.
Open Scope Z_scope. Open Scope string_scope. Open Scope list_scope.
From FB.Base Require Import PyVal Fs.
From FB.Gen Require Import JsonUtilGen.
From FB.Spec Require Import JsonSpec.
From FB.Model Require Import Types SimpleOps Persist PersistSpec.
From FB.Proofs Require Import PersistLaws.
Import ListNotations.

(* writing a well-formed record, passing it through the text layer and parsing
   it gives the same record with every value in normal form ... *)
Theorem C16_record_roundtrip : forall o, op_wf o = true -> rt_op o = Some (norm_op o).
Proof. exact rt_op_norm. Qed.

(* ... which is the same record up to JSON equality of the values: paths, names, comparison
   modes, nesting, failure markers and exception types are literally preserved *)
Theorem C16_roundtrip_equivalent : forall o, op_wf o = true -> op_equiv o (norm_op o) = true.
Proof. exact norm_op_equiv. Qed.

(* a record that was read from a cache file survives further cycles unchanged *)
Theorem C16_read_records_are_fixed_points : forall o, op_wf o = true -> rt_op (norm_op o) = Some (norm_op o).
Proof. exact rt_op_norm_fixed. Qed.

Theorem C16_values_json_equal : forall v, sanitized_t v = true -> is_equal v (norm_val v) = true.
Proof. exact norm_val_equal. Qed.

(* output paths with any legal name (non-empty components without "/") survive *)
Theorem C16_paths : forall p, path_wf p = true -> str_path (path_str p) = p.
Proof. exact path_roundtrip. Qed.

Theorem C16_queries : forall q, query_wf q = true -> query_of (query_name q) (query_args q) = Some q.
Proof. exact query_roundtrip. Qed.

(* non-vacuity: a nested record with unicode names, a tuple-carrying walk result, a failure marker *)
Example C16_nonvacuous :
  let o := OSubbuild "s" (PList [PInt 1]) (PDict [(PStr "k", PFloat (FFin false 3%positive (-1)))])
             [OSimple (QWalk ["d e"] true) (PList [PTuple [PStr "/d e"; PList []; PList [PStr "o"]]]) None;
              OBuildFile ["o"; "d e"] HASH "f" (PList []) (PDict []) [] PNone PNone true false;
              OSimple (QRead ["x"] METADATA) PNone (Some XFileNotFound)]
             (PDict [(PStr "b", PInt 2); (PStr "a", PNone)]) false false in
  op_wf o = true /\ rt_op o = Some (norm_op o) /\ op_eqb o (norm_op o) = false.
Proof. vm_compute. repeat split. Qed.
