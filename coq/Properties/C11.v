(* Properties/C11.v — values cross the API by value.  A heap model of Python
   objects (Model/Alias.v): user code holds some roots, the cache records
   others; a value crossing an API edge is copied according to the kind of the
   edge, which is GENERATED from file_builder.py (Gen/Edges.v: copy.deepcopy /
   JsonUtil.sanitize = Deep, list()/dict()/slices = Shallow, anything else =
   Alias).  Proofs in Proofs/AliasLaws.v. *)
From Coq Require Import List String ZArith Bool.
From FB.Gen Require Import Edges.
From FB.Model Require Import Alias.
From FB.Proofs Require Import AliasLaws.
Import ListNotations.

(* computed on the current table: every value-carrying edge of the API copies deeply *)
Theorem C11_all_edges_deep : all_deep = true.
Proof. exact edges_all_deep. Qed.

(* a deep copy is made of new objects only and old objects reach what they reached before *)
Theorem C11_deep_copy_fresh : forall fuel h l h' c,
  heap_closed h -> depth_le h fuel l -> deep_copy fuel h l = (h', c) ->
  (exists ext, h' = h ++ ext) /\ heap_closed h' /\ List.length h <= c < List.length h' /\
  (forall x, reach h' c x -> List.length h <= x) /\
  (forall a x, a < List.length h -> reach h' a x -> reach h a x).
Proof. exact deep_copy_fresh. Qed.

(* ... and has the same shape as the original (same atoms, same keys, same nesting) *)
Theorem C11_deep_copy_same_shape : forall fuel h l h' c,
  heap_closed h -> depth_le h fuel l -> deep_copy fuel h l = (h', c) -> same_shape h l h' c.
Proof. exact deep_copy_same_shape. Qed.

(* separation is an invariant of every legal step when both directions copy deeply: no object is
   ever reachable both from user code and from the records *)
Theorem C11_separation_invariant : forall fuel s st, good s -> legal s st -> good (astep_run Deep Deep fuel s st).
Proof. exact deep_step_preserves. Qed.

Theorem C11_separation_all_reachable : forall fuel l s, good s -> all_legal Deep Deep fuel s l -> good (run_steps Deep Deep fuel s l).
Proof. exact deep_runs_good. Qed.

(* whatever user code does to the values it holds — mutating in place, building new objects from them —
   the objects the records hold keep their contents *)
Theorem C11_mutation_invisible : forall fuel s st r x,
  good s -> legal s st -> (match st with SMutate _ _ | SNew _ => True | _ => False end) ->
  In r (a_rec s) -> reach (a_heap s) r x ->
  hget (a_heap (astep_run Deep Deep fuel s st)) x = hget (a_heap s) x.
Proof. exact records_unchanged_by_user. Qed.

(* why every edge must be Deep: through an Alias edge a user mutation changes a record ... *)
Theorem C11_alias_edge_breaks : exists s st1 st2 r,
  good s /\ In r (a_rec s) /\ legal s st1 /\ legal (astep_run Deep Alias 5 s st1) st2 /\
  hget (a_heap (astep_run Deep Alias 5 (astep_run Deep Alias 5 s st1) st2)) r <> hget (a_heap s) r.
Proof. exact alias_out_breaks. Qed.

(* ... and through a Shallow edge it changes a nested object of a record *)
Theorem C11_shallow_edge_breaks : exists s st1 st2 r x,
  good s /\ In r (a_rec s) /\ reach (a_heap s) r x /\ legal s st1 /\ legal (astep_run Deep Shallow 5 s st1) st2 /\
  hget (a_heap (astep_run Deep Shallow 5 (astep_run Deep Shallow 5 s st1) st2)) x <> hget (a_heap s) x.
Proof. exact shallow_out_breaks. Qed.
