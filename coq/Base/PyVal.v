(* Base/PyVal.v — the universe of Python values that cross file-builder's API,
   Python's == on it, and the small vocabulary the json_util translator emits.
   Definitions only (proofs live in Proofs/), so the model still runs when a
   proof breaks. *)
From Coq Require Import List String Ascii ZArith Bool Arith.
From Coq Require DecimalString.
Import ListNotations.
Open Scope string_scope.

(* Floats: no NaN (documented exclusion). Finite non-zero values are
   (-1)^neg * m * 2^e with m odd (canonical form, [fl_wf]). *)
Inductive fl : Type :=
| FZero (neg : bool)
| FInf (neg : bool)
| FFin (neg : bool) (m : positive) (e : Z).

Inductive pyval : Type :=
| PNone
| PBool (b : bool)
| PInt (z : Z)
| PFloat (f : fl)
| PStr (s : string)
| PList (l : list pyval)
| PTuple (l : list pyval)
| PDict (d : list (pyval * pyval))      (* insertion order *)
| POther (n : nat).                      (* any non-JSON object *)

(* ---------- induction principle for the nested type ---------- *)
Section PyvalInd.
  Variable P : pyval -> Prop.
  Hypothesis HNone : P PNone.
  Hypothesis HBool : forall b, P (PBool b).
  Hypothesis HInt : forall z, P (PInt z).
  Hypothesis HFloat : forall f, P (PFloat f).
  Hypothesis HStr : forall s, P (PStr s).
  Hypothesis HList : forall l, Forall P l -> P (PList l).
  Hypothesis HTuple : forall l, Forall P l -> P (PTuple l).
  Hypothesis HDict : forall d, Forall (fun kv => P (fst kv) /\ P (snd kv)) d -> P (PDict d).
  Hypothesis HOther : forall n, P (POther n).

  Fixpoint pyval_ind' (v : pyval) : P v :=
    match v with
    | PNone => HNone
    | PBool b => HBool b
    | PInt z => HInt z
    | PFloat f => HFloat f
    | PStr s => HStr s
    | PList l => HList l
        ((fix go (l : list pyval) : Forall P l :=
            match l with
            | [] => Forall_nil _
            | x :: xs => Forall_cons _ (pyval_ind' x) (go xs)
            end) l)
    | PTuple l => HTuple l
        ((fix go (l : list pyval) : Forall P l :=
            match l with
            | [] => Forall_nil _
            | x :: xs => Forall_cons _ (pyval_ind' x) (go xs)
            end) l)
    | PDict d => HDict d
        ((fix go (d : list (pyval * pyval)) : Forall (fun kv => P (fst kv) /\ P (snd kv)) d :=
            match d with
            | [] => Forall_nil _
            | (k, v) :: xs => Forall_cons (k, v) (conj (pyval_ind' k) (pyval_ind' v)) (go xs)
            end) d)
    | POther n => HOther n
    end.
End PyvalInd.

(* ---------- classes ---------- *)
Inductive pyclass := CNone | CBool | CInt | CFloat | CStr | CList | CTuple | CDict | COther.

Definition class_of (v : pyval) : pyclass :=
  match v with
  | PNone => CNone | PBool _ => CBool | PInt _ => CInt | PFloat _ => CFloat
  | PStr _ => CStr | PList _ => CList | PTuple _ => CTuple | PDict _ => CDict
  | POther _ => COther
  end.

Definition pyclass_eqb (a b : pyclass) : bool :=
  match a, b with
  | CNone, CNone | CBool, CBool | CInt, CInt | CFloat, CFloat | CStr, CStr
  | CList, CList | CTuple, CTuple | CDict, CDict | COther, COther => true
  | _, _ => false
  end.

(* isinstance(v, T) for the built-in T used by json_util; bool is a subclass
   of int in Python.  Subclasses of built-ins are outside the universe. *)
Definition isinstance (v : pyval) (c : pyclass) : bool :=
  match c, v with
  | CInt, PBool _ => true
  | _, _ => pyclass_eqb (class_of v) c
  end.

(* ---------- numbers ---------- *)
Definition fl_eqb (a b : fl) : bool :=
  match a, b with
  | FZero _, FZero _ => true                      (* -0.0 == 0.0 *)
  | FInf n1, FInf n2 => Bool.eqb n1 n2
  | FFin n1 m1 e1, FFin n2 m2 e2 => Bool.eqb n1 n2 && Pos.eqb m1 m2 && Z.eqb e1 e2
  | _, _ => false
  end.

Definition fl_wf (f : fl) : bool :=
  match f with
  | FFin _ m _ => match m with xO _ => false | _ => true end
  | _ => true
  end.

(* exact comparison int == float *)
Definition int_fl_eqb (z : Z) (f : fl) : bool :=
  match f with
  | FZero _ => Z.eqb z 0
  | FInf _ => false
  | FFin neg m e =>
      (0 <=? e)%Z && Z.eqb z ((if neg then -1 else 1) * Z.pos m * 2 ^ e)%Z
  end.

Definition bool_z (b : bool) : Z := if b then 1%Z else 0%Z.

(* Python == on the universe.  Identity for POther (objects without __eq__). *)
Fixpoint py_eq (a b : pyval) {struct a} : bool :=
  let seq_eq :=
    fix go (xs ys : list pyval) : bool :=
      match xs, ys with
      | [], [] => true
      | x :: xs', y :: ys' => py_eq x y && go xs' ys'
      | _, _ => false
      end in
  match a, b with
  | PNone, PNone => true
  | PBool x, PBool y => Bool.eqb x y
  | PBool x, PInt y => Z.eqb (bool_z x) y
  | PInt x, PBool y => Z.eqb x (bool_z y)
  | PBool x, PFloat y => int_fl_eqb (bool_z x) y
  | PFloat x, PBool y => int_fl_eqb (bool_z y) x
  | PInt x, PInt y => Z.eqb x y
  | PInt x, PFloat y => int_fl_eqb x y
  | PFloat x, PInt y => int_fl_eqb y x
  | PFloat x, PFloat y => fl_eqb x y
  | PStr x, PStr y => String.eqb x y
  | PList x, PList y => seq_eq x y
  | PTuple x, PTuple y => seq_eq x y
  | PDict x, PDict y =>
      (* same length; every key of x is found in y (by ==) with an == value *)
      Nat.eqb (List.length x) (List.length y) &&
      (fix go (kvs : list (pyval * pyval)) : bool :=
         match kvs with
         | [] => true
         | (k, v) :: rest =>
             (fix find (ys : list (pyval * pyval)) : bool :=
                match ys with
                | [] => false
                | (k', v') :: ys' => if py_eq k k' then py_eq v v' else find ys'
                end) y && go rest
         end) x
  | POther x, POther y => Nat.eqb x y
  | _, _ => false
  end.

(* ---------- containers ---------- *)
Definition py_seq (v : pyval) : list pyval :=
  match v with PList l | PTuple l => l | _ => [] end.

Definition py_items (v : pyval) : list (pyval * pyval) :=
  match v with PDict d => d | _ => [] end.

Definition py_len (v : pyval) : nat :=
  match v with
  | PList l | PTuple l => List.length l
  | PDict d => List.length d
  | PStr s => String.length s
  | _ => 0
  end.

Fixpoint assoc_get (k : pyval) (d : list (pyval * pyval)) : option pyval :=
  match d with
  | [] => None
  | (k', v) :: rest => if py_eq k k' then Some v else assoc_get k rest
  end.

Definition py_dict_mem (k : pyval) (v : pyval) : bool :=
  match assoc_get k (py_items v) with Some _ => true | None => false end.

(* d[k]; totalised with PNone when absent (every generated use is guarded by
   a preceding `in` test or iterates the dict's own keys) *)
Definition py_dict_get (k : pyval) (v : pyval) : pyval :=
  match assoc_get k (py_items v) with Some x => x | None => PNone end.

(* d[k] = v : update in place keeps the position, otherwise append *)
Fixpoint assoc_set (k v : pyval) (d : list (pyval * pyval)) : list (pyval * pyval) :=
  match d with
  | [] => [(k, v)]
  | (k', v') :: rest => if py_eq k k' then (k', v) :: rest else (k', v') :: assoc_set k v rest
  end.

(* ---------- strings: Python orders str by code point; for UTF-8 byte strings
   bytewise order coincides with code point order ---------- *)
Fixpoint str_ltb (a b : string) : bool :=
  match a, b with
  | EmptyString, EmptyString => false
  | EmptyString, String _ _ => true
  | String _ _, EmptyString => false
  | String c a', String d b' =>
      let x := nat_of_ascii c in let y := nat_of_ascii d in
      if Nat.ltb x y then true else if Nat.ltb y x then false else str_ltb a' b'
  end.

Definition str_leb (a b : string) : bool := negb (str_ltb b a).

Fixpoint insert_by {A} (leb : A -> A -> bool) (x : A) (l : list A) : list A :=
  match l with
  | [] => [x]
  | y :: ys => if leb x y then x :: l else y :: insert_by leb x ys
  end.

Definition sort_by {A} (leb : A -> A -> bool) (l : list A) : list A :=
  fold_right (insert_by leb) [] l.

Definition sort_strs : list string -> list string := sort_by str_leb.

Definition key_str (k : pyval) : string :=
  match k with PStr s => s | _ => "" end.

(* sorted(d.items()) by (string) key; stable insertion sort *)
Definition sort_items (d : list (pyval * pyval)) : list (pyval * pyval) :=
  sort_by (fun a b => str_leb (key_str (fst a)) (key_str (fst b))) d.

(* ---------- repr ---------- *)
Definition int_repr (z : Z) : string :=
  DecimalString.NilZero.string_of_int (Z.to_int z).

(* repr(float) for the floats the harness generates: zeros, infinities,
   integral values below 10^16 and multiples of 1/8 with a short expansion.
   Anything else gets an injective placeholder that no Python string equals;
   the generators never produce such floats as dictionary keys (stated in the
   trusted base). *)
Definition pos_frac8_repr (n : Z) : string :=
  (* n / 8 printed exactly, n > 0 not a multiple of 8 *)
  let q := (n / 8)%Z in
  let r := (n mod 8)%Z in
  let frac := match r with
              | 1 => "125" | 2 => "25" | 3 => "375" | 4 => "5"
              | 5 => "625" | 6 => "75" | 7 => "875" | _ => "0"
              end%Z in
  int_repr q ++ "." ++ frac.

Definition float_repr (f : fl) : string :=
  match f with
  | FZero false => "0.0"
  | FZero true => "-0.0"
  | FInf false => "inf"
  | FInf true => "-inf"
  | FFin neg m e =>
      let sign := if neg then "-" else "" in
      if (0 <=? e)%Z && (Z.pos m * 2 ^ e <? 10 ^ 16)%Z then
        sign ++ int_repr (Z.pos m * 2 ^ e) ++ ".0"
      else if (-3 <=? e)%Z && (e <? 0)%Z && (Z.pos m <? 10 ^ 15)%Z then
        sign ++ pos_frac8_repr (Z.pos m * 2 ^ (e + 3))
      else
        sign ++ "<float " ++ int_repr (Z.pos m) ++ "*2**" ++ int_repr e ++ ">"
  end.

(* comparisons with float('inf') / -float('inf') and self-inequality (NaN) *)
Definition fl_is_nan (f : fl) : bool := false.
Definition fl_is_posinf (f : fl) : bool := match f with FInf false => true | _ => false end.
Definition fl_is_neginf (f : fl) : bool := match f with FInf true => true | _ => false end.

(* bool(x) for the keys _key_to_str tests *)
Definition py_truth (v : pyval) : bool :=
  match v with
  | PBool b => b
  | PNone => false
  | PInt z => negb (Z.eqb z 0)
  | PFloat (FZero _) => false
  | PFloat _ => true
  | PStr s => negb (String.eqb s "")
  | PList l | PTuple l => negb (Nat.eqb (List.length l) 0)
  | PDict d => negb (Nat.eqb (List.length d) 0)
  | POther _ => true
  end.

(* option helpers used by generated code (TypeError = None) *)
Definition obind {A B} (o : option A) (f : A -> option B) : option B :=
  match o with Some a => f a | None => None end.

(* ---------- structural equality (exact types, sign of zero) ---------- *)
Definition fl_same (a b : fl) : bool :=
  match a, b with
  | FZero n1, FZero n2 => Bool.eqb n1 n2
  | FInf n1, FInf n2 => Bool.eqb n1 n2
  | FFin n1 m1 e1, FFin n2 m2 e2 => Bool.eqb n1 n2 && Pos.eqb m1 m2 && Z.eqb e1 e2
  | _, _ => false
  end.

Fixpoint pyval_same (a b : pyval) {struct a} : bool :=
  let seq_same :=
    fix go (xs ys : list pyval) : bool :=
      match xs, ys with
      | [], [] => true
      | x :: xs', y :: ys' => pyval_same x y && go xs' ys'
      | _, _ => false
      end in
  match a, b with
  | PNone, PNone => true
  | PBool x, PBool y => Bool.eqb x y
  | PInt x, PInt y => Z.eqb x y
  | PFloat x, PFloat y => fl_same x y
  | PStr x, PStr y => String.eqb x y
  | PList x, PList y => seq_same x y
  | PTuple x, PTuple y => seq_same x y
  | PDict x, PDict y =>
      (fix go (xs ys : list (pyval * pyval)) : bool :=
         match xs, ys with
         | [], [] => true
         | (k, v) :: xs', (k', v') :: ys' => pyval_same k k' && pyval_same v v' && go xs' ys'
         | _, _ => false
         end) x y
  | POther x, POther y => Nat.eqb x y
  | _, _ => false
  end.

Definition opt_same (a b : option pyval) : bool :=
  match a, b with
  | None, None => true
  | Some x, Some y => pyval_same x y
  | _, _ => false
  end.

(* strings with arbitrary bytes, written by the harness *)
Definition bytes_str (l : list nat) : string :=
  fold_right (fun n s => String (ascii_of_nat n) s) EmptyString l.

(* indices of the failing entries of a list of boolean checks *)
Definition failing (l : list bool) : list nat :=
  (fix go (i : nat) (l : list bool) : list nat :=
     match l with
     | [] => []
     | b :: r => if b then go (S i) r else i :: go (S i) r
     end) 0 l.
