(* Base/Fs.v — the file system as file-builder sees it: exactly the os / os.path
   calls the package makes, with their POSIX result classes.  Paths are lists of
   components relative to a sandbox root, INNERMOST COMPONENT FIRST, so that
   os.path.dirname is [tl] and every walk towards the root is structural.
   The store is a log (association list, first match wins): frame properties
   of updates are one-line lemmas.  Definitions only. *)
From Coq Require Import List String Ascii NArith Bool Arith.
From FB.Base Require Import PyVal.
Import ListNotations.

Definition name := string.
Definition path := list name.            (* [] is the sandbox root, a foreign directory *)

(* f_json: the JSON value a gzip-JSON file (the cache file) holds; None for any
   other content (plain bytes, truncated or corrupted gzip, gzip of non-JSON) *)
Record fnode := { f_bytes : string; f_mtime : N; f_id : N; f_json : option pyval }.
Inductive node := NFile (f : fnode) | NDir.

Definition fsT := list (path * option node).

Inductive oserr := ENOENT | ENOTDIR | EISDIR | EEXIST | ENOTEMPTY | EOTHER.

Definition oserr_eqb (a b : oserr) : bool :=
  match a, b with
  | ENOENT, ENOENT | ENOTDIR, ENOTDIR | EISDIR, EISDIR | EEXIST, EEXIST
  | ENOTEMPTY, ENOTEMPTY | EOTHER, EOTHER => true
  | _, _ => false
  end.

Fixpoint path_eqb (a b : path) : bool :=
  match a, b with
  | [], [] => true
  | x :: a', y :: b' => String.eqb x y && path_eqb a' b'
  | _, _ => false
  end.

Definition dirname (p : path) : path := tl p.

Fixpoint raw_lookup (fs : fsT) (p : path) : option node :=
  match fs with
  | [] => None
  | (q, n) :: r => if path_eqb q p then n else raw_lookup r p
  end.

Definition lookup (fs : fsT) (p : path) : option node :=
  match p with [] => Some NDir | _ => raw_lookup fs p end.

Definition upd (p : path) (n : option node) (fs : fsT) : fsT := (p, n) :: fs.

(* a component longer than 255 bytes cannot be created or stat'ed *)
Definition name_ok (n : name) : bool := Nat.leb (String.length n) 255.
Definition path_ok (p : path) : bool := forallb name_ok p.

Definition isfile (fs : fsT) (p : path) : bool :=
  match lookup fs p with Some (NFile _) => true | _ => false end.
Definition isdir (fs : fsT) (p : path) : bool :=
  match lookup fs p with Some NDir => true | _ => false end.
Definition lexists (fs : fsT) (p : path) : bool :=
  match lookup fs p with Some _ => true | None => false end.

(* error class of a failing stat/open/listdir/mkdir on an absent path: the path
   walk stops at the first component that cannot be resolved: ENOTDIR when it
   hangs below a regular file, EOTHER (ENAMETOOLONG) when its name is over-long,
   ENOENT otherwise *)
Fixpoint absent_err (fs : fsT) (p : path) : oserr :=
  match p with
  | [] => ENOENT
  | n :: d =>
      match lookup fs d with
      | Some (NFile _) => ENOTDIR
      | Some NDir => if name_ok n then ENOENT else EOTHER
      | None => absent_err fs d
      end
  end.

Definition stat_err (fs : fsT) (p : path) : oserr := absent_err fs p.

(* suffix test: q lies strictly below p *)
Fixpoint below (p q : path) : bool :=
  match q with
  | [] => false
  | _ :: d => path_eqb d p || below p d
  end.

Fixpoint mem_str (s : string) (l : list string) : bool :=
  match l with [] => false | x :: r => String.eqb s x || mem_str s r end.

Fixpoint dedup (l : list string) : list string :=
  match l with
  | [] => []
  | x :: r => if mem_str x r then dedup r else x :: dedup r
  end.

(* names of the direct children of p (sorted: the package sorts or treats
   listings as sets everywhere it matters) *)
Definition children (fs : fsT) (p : path) : list name :=
  sort_strs (dedup (flat_map (fun e =>
     match fst e with
     | n :: d => if path_eqb d p && lexists fs (n :: d) then [n] else []
     | [] => []
     end) fs)).

Definition listdir (fs : fsT) (p : path) : list name + oserr :=
  match lookup fs p with
  | Some NDir => inl (children fs p)
  | Some (NFile _) => inr ENOTDIR
  | None => inr (stat_err fs p)
  end.

(* ---- mutating calls ---- *)
Definition mkdir (fs : fsT) (p : path) : fsT + oserr :=
  match p with
  | [] => inr EEXIST
  | n :: d =>
      match lookup fs p with
      | Some _ => inr EEXIST
      | None =>
          match lookup fs d with
          | Some NDir => if name_ok n then inl (upd p (Some NDir) fs) else inr EOTHER
          | Some (NFile _) => inr ENOTDIR
          | None => inr (stat_err fs p)
          end
      end
  end.

Definition rmdir (fs : fsT) (p : path) : fsT + oserr :=
  match p with
  | [] => inr EOTHER
  | _ =>
      match lookup fs p with
      | Some NDir => match children fs p with
                     | [] => inl (upd p None fs)
                     | _ => inr ENOTEMPTY
                     end
      | Some (NFile _) => inr ENOTDIR
      | None => inr (stat_err fs p)
      end
  end.

Definition remove (fs : fsT) (p : path) : fsT + oserr :=
  match lookup fs p, p with
  | Some (NFile _), _ :: _ => inl (upd p None fs)
  | Some _, _ => inr EISDIR
  | None, _ => inr (stat_err fs p)
  end.

(* all stored paths strictly below p, marked absent (used when a directory is
   renamed away as a whole) *)
Definition drop_below (fs : fsT) (p : path) : fsT :=
  fold_right (fun e acc => if below p (fst e) then upd (fst e) None acc else acc) fs fs.

(* os.rename(p, <fresh path in the backup area>): returns the node that moved *)
Definition rename_out (fs : fsT) (p : path) : (fsT * node) + oserr :=
  match lookup fs p, p with
  | Some (NFile f), _ :: _ => inl (upd p None fs, NFile f)
  | Some NDir, _ :: _ => inl (upd p None (drop_below fs p), NDir)
  | Some _, [] => inr EOTHER
  | None, _ => inr (stat_err fs p)
  end.

(* os.replace(<backup>, p) for a regular file *)
Definition replace_in (fs : fsT) (p : path) (f : fnode) : fsT + oserr :=
  match p with
  | [] => inr EISDIR
  | n :: d =>
      match lookup fs p with
      | Some NDir => inr EISDIR
      | _ =>
          match lookup fs d with
          | Some NDir => if name_ok n then inl (upd p (Some (NFile f)) fs) else inr EOTHER
          | Some (NFile _) => inr ENOTDIR
          | None => inr (stat_err fs p)
          end
      end
  end.

(* os.makedirs(d, exist_ok=True): the directories made before a failure stay *)
Fixpoint makedirs_p (fs : fsT) (p : path) : fsT * option oserr :=
  match lookup fs p with
  | Some NDir => (fs, None)
  | Some (NFile _) => (fs, Some EEXIST)
  | None =>
      match p with
      | [] => (fs, None)
      | n :: d =>
          match makedirs_p fs d with
          | (fs', None) => match mkdir fs' p with inl fs'' => (fs'', None) | inr e => (fs', Some e) end
          | (fs', Some e) => (fs', Some e)
          end
      end
  end.

Definition makedirs (fs : fsT) (p : path) : fsT + oserr :=
  match makedirs_p fs p with (fs', None) => inl fs' | (_, Some e) => inr e end.

(* open(p, 'w') + write + close by user code or by Cache.write: creates or
   overwrites a regular file; [id] is the identity of a newly created inode *)
Definition write_file (fs : fsT) (p : path) (bytes : string) (json : option pyval) (mtime id : N) : fsT + oserr :=
  match p with
  | [] => inr EISDIR
  | n :: d =>
      match lookup fs p with
      | Some NDir => inr EISDIR
      | Some (NFile f) => inl (upd p (Some (NFile {| f_bytes := bytes; f_mtime := mtime; f_id := f_id f; f_json := json |})) fs)
      | None =>
          match lookup fs d with
          | Some NDir => if name_ok n then inl (upd p (Some (NFile {| f_bytes := bytes; f_mtime := mtime; f_id := id; f_json := json |})) fs)
                         else inr EOTHER
          | Some (NFile _) => inr ENOTDIR
          | None => inr (stat_err fs p)
          end
      end
  end.

(* ---- well-formedness: whatever exists has a directory as parent ---- *)
Definition fs_wf (fs : fsT) : Prop :=
  forall p n, lookup fs p = Some n -> lookup fs (dirname p) = Some NDir.

(* all paths mentioned by the store (a finite support for extensional equality) *)
Definition support (fs : fsT) : list path := map fst fs.
