(* Proofs/SimM4.v — the class okcH (SimJ4) and the JSON write/read cycle, and the shape conditions
   of the new cache, for programs that may compare by HASH.
     okcH_readback   : SimF7.okc_readback for okcH (entry by entry normal form keeps the class)
     okcH_roundtrip  : SimF7.okc_roundtrip for okcH
     new_cache_wfH   : SimF9.new_cache_wf for a previous cache in okcH (QueriesOkP, no CmpMeta) *)
From Coq Require Import List String Ascii NArith ZArith Bool Arith Lia.
From FB.Base Require Import PyVal Fs.
From FB.Gen Require Import JsonUtilGen.
From FB.Spec Require Import JsonSpec Prog Ref Oracle Faithful.
From FB.Model Require Import Types Monad CreatedFiles BuildDirs SimpleOps Builder Persist PersistSpec Build Run Frame Core CoreOracle.

From FB.Proofs Require Import FsLemmas JsonLaws PersistLaws CacheRTDefs CacheRTTables CacheRTMain ReplayLaws BuildFileLaws CoreLaws1 CoreLaws2 CoreLaws3 CoreLaws4
     CoreNextRegs CoreNextState
     HashMemoInv ViewDefs ViewLemmas ViewInit ViewXDefs ViewH4 ViewH6 ViewR2 ViewR3 ViewR8 ViewK3 ViewK4 ViewK8
     SimA0 SimA2Base SimAMain SimB2 SimB7 SimB9 SimB11 SimC0 SimC5 SimC12 SimC14 SimC15 SimD5 SimD7 SimF1 SimF3 SimF4 SimF7 SimF9
     SimG5 SimJ4 SimJ9 SimJ13 SimM3.
Import ListNotations.
Open Scope list_scope.

Lemma subs_staticH_norm : forall c c' c1 p0 subs, (forall p, cache_created_file c' p = cache_created_file c p) ->
  subs_staticH c c1 p0 subs = true -> subs_staticH c' c1 p0 (map norm_op subs) = true.
Proof.
  intros c c' c1 p0 subs Hc H. unfold subs_staticH in *.
  apply andb_true_iff in H. destruct H as [H H7]. apply andb_true_iff in H. destruct H as [H H6].
  apply andb_true_iff in H. destruct H as [H H5]. apply andb_true_iff in H. destruct H as [H H4].
  apply andb_true_iff in H. destruct H as [H H3]. apply andb_true_iff in H. destruct H as [H1 H2].
  assert (Ha : forallb SimF7.argsok (flat_map nodes subs) = true).
  { rewrite forallb_forall in *. intros x Hx. exact (SimF7.node_static_argsok _ _ _ (H3 x Hx)). }
  rewrite (fb_map _ (rec_ok true (ostack p0)) subs (fun x _ => rec_ok_norm true x _)), H1.
  rewrite (fb_map _ SimC0.calm subs (fun x _ => calm_norm' x)), H2.
  rewrite (flat_nodes_norm subs (fun x _ => nodes_norm x)).
  rewrite (fb_map_imp (node_static c' c1) (node_static c c1) _ (fun x _ K => node_static_norm c c' c1 x Hc K) H3).
  rewrite (flat_map_norm regp subs (fun x _ => regp_norm x)), H4, H5.
  rewrite (cll_norm subs Ha), H6.
  rewrite (fb_map _ wfrec subs (fun x _ => wfrec_norm x)), H7. reflexivity.
Qed.

Lemma frec_staticH_norm : forall c c' c1 p rec, (forall p, cache_created_file c' p = cache_created_file c p) ->
  frec_staticH c c1 p rec = true -> frec_staticH c' c1 p (norm_op rec) = true.
Proof.
  intros c c' c1 p [q r e|p' c0 f a k subs r cr ra sf|f a k subs r ra sf] Hc H; cbn [norm_op frec_staticH] in *; try reflexivity.
  apply andb_true_iff in H. destruct H as [H1 H2]. rewrite H1. cbn [andb].
  destruct ra; [reflexivity|]. cbn [orb] in *.
  apply andb_true_iff in H2. destruct H2 as [H2 H5]. rewrite pnone_norm, H2. cbn [andb].
  exact (subs_staticH_norm c c' c1 (Some p) subs Hc H5).
Qed.

Lemma srec_staticH_norm : forall c c' c1 q rec, (forall p, cache_created_file c' p = cache_created_file c p) ->
  srec_staticH c c1 q rec = true -> srec_staticH c' c1 q (norm_op rec) = true.
Proof.
  intros c c' c1 q [q0 r e|p' c0 f a k subs r cr ra sf|f a k subs r ra sf] Hc H; cbn [norm_op srec_staticH] in *; try reflexivity.
  destruct ra; [reflexivity|]. cbn [orb] in *.
  apply andb_true_iff in H. destruct H as [H H7]. apply andb_true_iff in H. destruct H as [H H6].
  apply andb_true_iff in H. destruct H as [H W2]. apply andb_true_iff in H. destruct H as [H W1].
  apply andb_true_iff in H. destruct H as [H S2]. apply andb_true_iff in H. destruct H as [H1 S1].
  destruct (norm_args a S1 W1) as [A1 A2]. destruct (norm_args k S2 W2) as [B1 B2].
  assert (Ha : forallb SimF7.argsok (flat_map nodes subs) = true).
  { unfold subs_staticH in H1. apply andb_true_iff in H1. destruct H1 as [H1 _]. apply andb_true_iff in H1. destruct H1 as [H1 _].
    apply andb_true_iff in H1. destruct H1 as [H1 _]. apply andb_true_iff in H1. destruct H1 as [H1 _].
    apply andb_true_iff in H1. destruct H1 as [_ H3].
    rewrite forallb_forall in *. intros x Hx. exact (SimF7.node_static_argsok _ _ _ (H3 x Hx)). }
  rewrite (subs_staticH_norm c c' c1 None subs Hc H1), A1, A2, B1, B2, (subbuild_key_norm f a k S1 S2), H6, (cll_norm subs Ha), H7.
  reflexivity.
Qed.

(* ------------------------------------------------------------------ the class *)
Theorem okcH_readback : forall c c' c1,
  (forall p, cache_get_file c' p = option_map norm_op (cache_get_file c p)) ->
  (forall p, cache_created_file c' p = cache_created_file c p) ->
  (forall k, subs_get (c_subs c') k = option_map (option_map norm_op) (subs_get (c_subs c) k)) ->
  okcH c1 c -> okcH c1 c'.
Proof.
  intros c c' c1 T1 T2 T3 [HF HS]. split.
  - intros p rec H. rewrite T1 in H. destruct (cache_get_file c p) as [o|] eqn:E; [|discriminate].
    inversion H; subst. exact (frec_staticH_norm c c' c1 p o T2 (HF _ _ E)).
  - intros k rec H. rewrite T3 in H. destruct (subs_get (c_subs c) k) as [[o|]|] eqn:E; try discriminate.
    inversion H; subst. destruct (HS _ _ E) as (q & Q1 & Q2). exists q. split; [exact Q1|].
    exact (srec_staticH_norm c c' c1 q o T2 Q2).
Qed.

(* with CacheRTMain.cache_roundtrip: what a committed cache of the class is, in the next build *)
Theorem okcH_roundtrip : forall c roots c1, writable c roots -> tables_from_forest c roots -> okcH c1 c ->
  exists j c', cache_to_json c = Some j /\ cache_of_json (Some j) = ReadOk c' /\ okcH c1 c'.
Proof.
  intros c roots c1 W TF H.
  destruct (cache_roundtrip c roots W) as (j & c' & J1 & J2 & _ & _ & _ & _ & _ & _ & _ & _ & _ & _ & _ & HT & _).
  destruct (HT TF) as (T1 & T2 & T3).
  exists j, c'. split; [exact J1|]. split; [exact J2|]. exact (okcH_readback c c' c1 T1 T2 T3 H).
Qed.

Theorem new_cache_wfH : forall w cachefile old nm svers root w1 w2 v l,
  okcH (w_clock w) old -> fs_wf (w_fs w) -> old_ok old cachefile -> WfCache old -> old_keys_ok old -> w_faults w = [] ->
  path_ok (dirname cachefile) = true -> isdir (w_fs w) cachefile = false -> maxlen (w_fs w) < walk_fuel ->
  vdir (Build.start_world w cachefile old nm svers) (dirname cachefile) = true ->
  AllTargets tgtP root -> NoNest [] root -> QueriesOkP root -> WfArgs root ->
  TargetsClear old root -> TargetsApart old root ->
  NoCatch root ->
  make_dirs (dirname cachefile) (Build.start_world w cachefile old nm svers) = (w1, inl []) ->
  run root None [] (set_log (LInvoke "<root>"%string None PNone PNone :: w_log w1) w1) = (w2, (inl v, l)) ->
  ShapeOk cachefile (w_new w2).
Proof.
  intros w cachefile old nm svers root w1 w2 v l Hokc Hwf Hok HW HKo HF Hp Hnc Hml Hd Hat Hnn Hqk Hwa Hcl Hap Hno Emk Erun.
  destruct (build_run_hash w cachefile old nm svers root w1 w2 (inl v) l Hokc Hwf Hok HW HKo HF Hp Hnc Hml Hd Hat Hnn Hqk Hwa Hcl Hap Emk Erun)
    as (s1 & pd & sb & T' & W' & Ecore & [HS _]).
  pose proof (Sim4_sim3 _ _ _ _ HS) as HS3.
  destruct (core_run_ext root _ _ _ _ _ _ _ _ Ecore) as (produced & _ & HX).
  destruct (x_newF _ _ _ _ _ HX) as (nF & EnF & HnF). cbn [ViewK4.core_start k_newF app] in EnF.
  destruct (x_newS _ _ _ _ _ HX) as (nS & EnS & HnS). cbn [ViewK4.core_start k_newS app] in EnS.
  pose proof (x_nocf _ _ _ _ _ HX) as Hnocf. cbn [ViewK4.core_start k_cachefile] in Hnocf.
  set (s0 := ViewK4.core_start (w_fs w) cachefile old svers (w_clock w) (w_nextid w) (LInvoke "<root>"%string None PNone PNone :: w_log w1)) in *.
  assert (HT0: KG s0) by (split; intros q x []).
  destruct (core_run_good old (okcH_ClassR _ _ Hokc) root Hno Hwa None None [] s0 s1 v pd sb (eq_refl : k_old s0 = old) HT0
              (fun y (Hy : In y []) => match Hy with end) Ecore) as ([T1 T2] & _ & _ & _).
  split; [|split].
  - intros p o Hg. pose proof (s3_recF _ _ _ HS3 p) as K. rewrite Hg in K.
    destruct (kf_get (k_newF s1) p) as [o'|] eqn:E; [|contradiction].
    pose proof (kf_get_in _ _ _ E) as Hin. destruct (T1 p o' Hin) as [Hc _].
    rewrite EnF in Hin. destruct (HnF p o' Hin) as (_ & (c & f & a & k & subs & r0 & cr & ra & ->) & _).
    cbn [calm] in Hc. apply andb_true_iff in Hc. destruct Hc as [Hra _]. apply negb_true_iff in Hra. subst ra.
    destruct o as [q6 r6 e6|p6 c6 f6 a6 k6 subs6 r6 cr6 ra6 sf6|f6 a6 k6 subs6 r6 ra6 sf6]; cbn [rec_rel] in K; try contradiction.
    destruct K as (-> & _ & _ & _ & _ & _ & _ & _ & -> & ->). repeat eexists.
  - intros key o Hg. pose proof (s3_recS _ _ _ HS3 key) as K. rewrite Hg in K.
    destruct (ks_get (k_newS s1) key) as [o'|] eqn:E; [|contradiction].
    destruct (ks_get_in_eq _ _ _ E) as (q & Hq & Eq).
    destruct (T2 q o' Hq) as [_ Hall]. destruct (Hall o' (deep_self _)) as [Hargs _].
    rewrite EnS in Hq. destruct (HnS q o' Hq) as (_ & (f1 & a1 & k1 & subs1 & r1 & ra1 & -> & Eqk) & _).
    destruct o as [q6 r6 e6|p6 c6 f6 a6 k6 subs6 r6 cr6 ra6 sf6|f6 a6 k6 subs6 r6 ra6 sf6]; cbn [rec_rel] in K; try contradiction.
    destruct K as (-> & -> & -> & _ & _ & -> & ->).
    cbn [SimF4.argsok] in Hargs. apply andb_true_iff in Hargs. destruct Hargs as [Z Z4]. apply andb_true_iff in Z. destruct Z as [Z Z3].
    apply andb_true_iff in Z. destruct Z as [Z1 Z2].
    exists f1, a1, k1, subs6, r6, ra1. repeat split; try assumption. rewrite <- Eqk. exact Eq.
  - destruct (cache_get_file (w_new w2) cachefile) as [o|] eqn:Hg; [|reflexivity]. exfalso.
    pose proof (s3_recF _ _ _ HS3 cachefile) as K. rewrite Hg in K.
    destruct (kf_get (k_newF s1) cachefile) as [o'|] eqn:E; [|contradiction].
    pose proof (kf_get_in _ _ _ E) as Hin. rewrite EnF in Hin. destruct (HnF _ _ Hin) as (_ & _ & Hc).
    exact (Hnocf _ Hc eq_refl).
Qed.

Print Assumptions okcH_readback.
Print Assumptions okcH_roundtrip.
Print Assumptions new_cache_wfH.
