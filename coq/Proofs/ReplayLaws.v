(* Proofs/ReplayLaws.v — laws of cache lookup / replay and of the claim
   discipline of the sequential model (properties C06, C08). *)
From Coq Require Import List String Ascii NArith ZArith Bool Arith Lia.
From FB.Base Require Import PyVal Fs.
From FB.Gen Require Import JsonUtilGen.
From FB.Spec Require Import Prog.
From FB.Model Require Import Types Monad CreatedFiles BuildDirs SimpleOps Builder Build Run.
From FB.Proofs Require Import FsLemmas JsonLaws.
Import ListNotations.
Local Open Scope list_scope.

(* ================================================================== *)
(* Definitions                                                        *)
(* ================================================================== *)

Fixpoint has_sf (o : op) : bool :=          (* the record or a descendant failed in setup *)
  match o with
  | OSimple _ _ _ => false
  | OBuildFile _ _ _ _ _ subs _ _ _ sf => sf || existsb has_sf subs
  | OSubbuild _ _ _ subs _ _ sf => sf || existsb has_sf subs
  end.

Fixpoint mentions (f : string) (o : op) : bool :=   (* a record of function f occurs in the tree *)
  match o with
  | OSimple _ _ _ => false
  | OBuildFile _ _ fn _ _ subs _ _ _ _ => String.eqb fn f || existsb (mentions f) subs
  | OSubbuild fn _ _ subs _ _ _ => String.eqb fn f || existsb (mentions f) subs
  end.

(* the part of the world a cache lookup may change: only BuildDirs bookkeeping and the hash memo *)
Definition same_but_view (w w' : world) : Prop :=
  w_fs w' = w_fs w /\ w_clock w' = w_clock w /\ w_nextid w' = w_nextid w /\ w_old w' = w_old w /\
  w_new w' = w_new w /\ w_backups w' = w_backups w /\ w_lost w' = w_lost w /\ w_cachefile w' = w_cachefile w /\
  w_log w' = w_log w /\ w_faults w' = w_faults w /\ w_effects w' = w_effects w.

Definition claims_le (w w' : world) : Prop :=
  (forall p, cache_has_file (w_new w) p = true -> cache_has_file (w_new w') p = true) /\
  (forall k, cache_has_subbuild (w_new w) k = true -> cache_has_subbuild (w_new w') k = true).

(* induction principle for the nested type [op] *)
Section OpInd.
  Variable P : op -> Prop.
  Hypothesis HSimple : forall q r e, P (OSimple q r e).
  Hypothesis HBuildFile : forall p c f a k subs r cr ra sf,
      Forall P subs -> P (OBuildFile p c f a k subs r cr ra sf).
  Hypothesis HSubbuild : forall f a k subs r ra sf,
      Forall P subs -> P (OSubbuild f a k subs r ra sf).

  Fixpoint op_ind' (o : op) : P o :=
    match o with
    | OSimple q r e => HSimple q r e
    | OBuildFile p c f a k subs r cr ra sf =>
        HBuildFile p c f a k subs r cr ra sf
          ((fix go (l : list op) : Forall P l :=
              match l with
              | [] => Forall_nil _
              | x :: xs => Forall_cons _ (op_ind' x) (go xs)
              end) subs)
    | OSubbuild f a k subs r ra sf =>
        HSubbuild f a k subs r ra sf
          ((fix go (l : list op) : Forall P l :=
              match l with
              | [] => Forall_nil _
              | x :: xs => Forall_cons _ (op_ind' x) (go xs)
              end) subs)
    end.
End OpInd.

(* ================================================================== *)
(* Toolkit: relational footprints of monadic computations             *)
(* ================================================================== *)

(* a preorder on worlds *)
Record PO := {
  rel :> world -> world -> Prop;
  po_refl : forall w, rel w w;
  po_trans : forall a b c, rel a b -> rel b c -> rel a c
}.

(* every run of [m] relates the initial and the final world *)
Definition pres {X} (P : PO) (m : world -> world * X) : Prop :=
  forall w w' r, m w = (w', r) -> P w w'.

Lemma pres_ret : forall (P : PO) A (a : A), pres P (ret a).
Proof. intros P A a w w' r H. inversion H; subst. apply po_refl. Qed.

Lemma pres_raise : forall (P : PO) A (e : exn), pres P (@raise A e).
Proof. intros P A a w w' r H. inversion H; subst. apply po_refl. Qed.

Lemma pres_get : forall (P : PO), pres P get.
Proof. intros P w w' r H. inversion H; subst. apply po_refl. Qed.

Lemma pres_bind : forall (P : PO) A B (m : M A) (f : A -> M B),
  pres P m -> (forall a, pres P (f a)) -> pres P (bind m f).
Proof.
  intros P A B m f Hm Hf w w' r H. unfold bind in H.
  destruct (m w) as [w1 [a|e]] eqn:E.
  - eapply po_trans; [eapply Hm; eauto | eapply Hf; eauto].
  - inversion H; subst. eapply Hm; eauto.
Qed.

Lemma pres_catch : forall (P : PO) A (m : M A) (h : exn -> M A),
  pres P m -> (forall e, pres P (h e)) -> pres P (catch m h).
Proof.
  intros P A m h Hm Hh w w' r H. unfold catch in H.
  destruct (m w) as [w1 [a|e]] eqn:E.
  - inversion H; subst. eapply Hm; eauto.
  - eapply po_trans; [eapply Hm; eauto | eapply Hh; eauto].
Qed.

Lemma pres_attempt : forall (P : PO) A (m : M A), pres P m -> pres P (attempt m).
Proof.
  intros P A m Hm w w' r H. unfold attempt in H.
  destruct (m w) as [w1 x] eqn:E. inversion H; subst. eapply Hm; eauto.
Qed.

Lemma pres_modify : forall (P : PO) (f : world -> world),
  (forall w, P w (f w)) -> pres P (modify f).
Proof. intros P f Hf w w' r H. inversion H; subst. apply Hf. Qed.

Lemma pres_mapM_ : forall (P : PO) A (f : A -> M unit) l,
  (forall x, pres P (f x)) -> pres P (mapM_ f l).
Proof.
  intros P A f l Hf. induction l as [|x l IH]; cbn [mapM_].
  - apply pres_ret.
  - apply pres_bind; [apply Hf | intro; exact IH].
Qed.

Lemma pres_weaken : forall (P Q : PO) X (m : world -> world * X),
  (forall w w', P w w' -> Q w w') -> pres P m -> pres Q m.
Proof. intros P Q X m HPQ Hm w w' r H. apply HPQ. eapply Hm; eauto. Qed.

Lemma pres_ext : forall (P : PO) X (m m' : world -> world * X),
  (forall w, m w = m' w) -> pres P m' -> pres P m.
Proof. intros P X m m' E Hm w w' r H. rewrite E in H. eapply Hm; eauto. Qed.

(* ---- the three relations used below ---- *)

Lemma svb_refl : forall w, same_but_view w w.
Proof. intro w. unfold same_but_view. repeat split; reflexivity. Qed.

Lemma svb_trans : forall a b c, same_but_view a b -> same_but_view b c -> same_but_view a c.
Proof.
  unfold same_but_view. intros a b c H1 H2.
  destruct H1 as (A1 & A2 & A3 & A4 & A5 & A6 & A7 & A8 & A9 & A10 & A11).
  destruct H2 as (B1 & B2 & B3 & B4 & B5 & B6 & B7 & B8 & B9 & B10 & B11).
  repeat split; congruence.
Qed.

Definition svbPO : PO := {| rel := same_but_view; po_refl := svb_refl; po_trans := svb_trans |}.

(* [w_new] (and [w_old], [w_cachefile]) untouched *)
Definition new_same (w w' : world) : Prop :=
  w_new w' = w_new w /\ w_old w' = w_old w /\ w_cachefile w' = w_cachefile w.

Lemma new_same_refl : forall w, new_same w w.
Proof. intro w. unfold new_same. repeat split; reflexivity. Qed.
Lemma new_same_trans : forall a b c, new_same a b -> new_same b c -> new_same a c.
Proof. unfold new_same. intros a b c (A1 & A2 & A3) (B1 & B2 & B3). repeat split; congruence. Qed.

Definition newPO : PO := {| rel := new_same; po_refl := new_same_refl; po_trans := new_same_trans |}.

Lemma claims_le_refl : forall w, claims_le w w.
Proof. intro w. split; auto. Qed.
Lemma claims_le_trans : forall a b c, claims_le a b -> claims_le b c -> claims_le a c.
Proof. intros a b c [A1 A2] [B1 B2]. split; auto. Qed.

Definition claimsPO : PO := {| rel := claims_le; po_refl := claims_le_refl; po_trans := claims_le_trans |}.

Lemma svb_new : forall w w', svbPO w w' -> newPO w w'.
Proof.
  cbn. unfold same_but_view, new_same. intros w w' H.
  destruct H as (A1 & A2 & A3 & A4 & A5 & A6 & A7 & A8 & A9 & A10 & A11). auto.
Qed.

Lemma new_claims : forall w w', newPO w w' -> claimsPO w w'.
Proof.
  cbn. unfold new_same, claims_le. intros w w' (H & _). rewrite H. split; auto.
Qed.

Lemma svb_claims : forall w w', same_but_view w w' -> claims_le w w'.
Proof. intros w w' H. apply new_claims, svb_new, H. Qed.

Create HintDb pres discriminated.
#[local] Hint Extern 8 (pres newPO _) => apply (pres_weaken svbPO newPO _ _ svb_new) : pres.
#[local] Hint Extern 9 (pres claimsPO _) => apply (pres_weaken newPO claimsPO _ _ new_claims) : pres.

(* extension point of [pres_step] for compound patterns that must be handled as a
   whole (rebound below, after the lemma on claim-then-release has been proved) *)
Ltac pres_hook := fail.

(* one syntactic step of a footprint proof *)
Ltac pres_step :=
  cbv beta;
  first [ pres_hook | pres_step_syntax ]
with pres_step_syntax :=
  lazymatch goal with
  | |- pres _ (bind _ _) => apply pres_bind; [|intro]
  | |- pres _ (ret _) => apply pres_ret
  | |- pres _ (raise _) => apply pres_raise
  | |- pres _ get => apply pres_get
  | |- pres _ (catch _ _) => apply pres_catch; [|intro]
  | |- pres _ (attempt _) => apply pres_attempt
  | |- pres _ (mapM_ _ _) => apply pres_mapM_; intro
  | |- pres _ (match ?x with _ => _ end) => destruct x
  end.
Ltac pres_auto := repeat (first [ solve [eauto 4 with pres] | pres_step ]).

(* destruct the scrutinee of some match in hypothesis H *)
Ltac dm H :=
  match type of H with
  | context [match ?x with _ => _ end] => destruct x eqn:?
  end.

Ltac svb_solve :=
  first [ apply svb_refl
        | unfold same_but_view; cbn; repeat split; reflexivity ].

(* a routine written as an explicit function of the world *)
Ltac raw_svb f :=
  intros w w' r H; unfold f in H; repeat dm H; inversion H; subst; svb_solve.

(* ================================================================== *)
(* A. Lookups are read-only                                           *)
(* ================================================================== *)

Lemma m_handle_dir_exists_svb : forall d, pres svbPO (m_handle_dir_exists d).
Proof. intro d. unfold m_handle_dir_exists. apply pres_modify. intro w. cbn. svb_solve. Qed.

Lemma m_is_removed_svb : forall d, pres svbPO (m_is_removed d).
Proof. intro d. cbn. raw_svb m_is_removed. Qed.

Lemma is_file_no_read_svb : forall p cf, pres svbPO (is_file_no_read p cf).
Proof. intros p cf. cbn. raw_svb is_file_no_read. Qed.

Lemma is_cache_file_svb : forall p, pres svbPO (is_cache_file p).
Proof. intros p. cbn. raw_svb is_cache_file. Qed.

Lemma file_metadata_svb : forall p, pres svbPO (file_metadata p).
Proof. intros p. cbn. raw_svb file_metadata. Qed.

Lemma file_hash_svb : forall p, pres svbPO (file_hash p).
Proof. intros p. cbn. raw_svb file_hash. Qed.

Lemma list_dir_superset_svb : forall d cf, pres svbPO (list_dir_superset d cf).
Proof. intros d cf. cbn. raw_svb list_dir_superset. Qed.

#[local] Hint Resolve m_handle_dir_exists_svb m_is_removed_svb is_file_no_read_svb is_cache_file_svb
  file_metadata_svb file_hash_svb list_dir_superset_svb : pres.

Lemma file_comparison_result_svb : forall p c, pres svbPO (file_comparison_result p c).
Proof. intros p c. unfold file_comparison_result. pres_auto. Qed.
#[local] Hint Resolve file_comparison_result_svb : pres.

Lemma m_is_file_svb : forall p cf, pres svbPO (m_is_file p cf).
Proof. intros p cf. unfold m_is_file. pres_auto. Qed.

Lemma m_is_dir_svb : forall p cf, pres svbPO (m_is_dir p cf).
Proof. intros p cf. unfold m_is_dir. pres_auto. Qed.
#[local] Hint Resolve m_is_file_svb m_is_dir_svb : pres.

Lemma m_exists_svb : forall p cf, pres svbPO (m_exists p cf).
Proof. intros p cf. unfold m_exists. pres_auto. Qed.
#[local] Hint Resolve m_exists_svb : pres.

Lemma m_get_size_svb : forall p cf, pres svbPO (m_get_size p cf).
Proof. intros p cf. unfold m_get_size. pres_auto. Qed.

Lemma m_read_svb : forall p c cf, pres svbPO (m_read p c cf).
Proof. intros p c cf. unfold m_read. pres_auto. Qed.

Lemma m_assert_is_dir_svb : forall p cf, pres svbPO (m_assert_is_dir p cf).
Proof. intros p cf. unfold m_assert_is_dir. pres_auto. Qed.
#[local] Hint Resolve m_get_size_svb m_read_svb m_assert_is_dir_svb : pres.

Lemma filterM_pres : forall (P : PO) f l, (forall n, pres P (f n)) -> pres P (filterM f l).
Proof.
  intros P f l Hf. induction l as [|n l IH]; cbn [filterM]; pres_auto.
Qed.

Lemma m_list_dir_svb : forall d cf, pres svbPO (m_list_dir d cf).
Proof.
  intros d cf. unfold m_list_dir. pres_auto. apply filterM_pres. intro; pres_auto.
Qed.

Lemma classify_svb : forall d cf l, pres svbPO (classify d cf l).
Proof.
  intros d cf l. induction l as [|n l IH]; cbn [classify]; pres_auto.
Qed.
#[local] Hint Resolve m_list_dir_svb classify_svb : pres.

Lemma append_walk_svb : forall fuel d td cf, pres svbPO (append_walk fuel d td cf).
Proof.
  induction fuel as [|fuel IH]; intros d td cf; cbn [append_walk].
  - apply pres_raise.
  - pres_auto.
    generalize (fst a0). intro ds. induction ds as [|n ds IHds].
    + apply pres_ret.
    + pres_auto.
Qed.
#[local] Hint Resolve append_walk_svb : pres.

Lemma m_walk_svb : forall d td cf, pres svbPO (m_walk d td cf).
Proof. intros d td cf. unfold m_walk. pres_auto. Qed.
#[local] Hint Resolve m_walk_svb : pres.

Lemma exec_query_svb : forall q cf, pres svbPO (exec_query q cf).
Proof. intros q cf. destruct q; cbn [exec_query]; pres_auto. Qed.
#[local] Hint Resolve exec_query_svb : pres.

Theorem query_footprint : forall q cf w w' r, exec_query q cf w = (w', r) -> same_but_view w w'.
Proof. intros q cf w w' r H. exact (exec_query_svb q cf w w' r H). Qed.

(* ---- replay ---- *)

Lemma noneable_cmp_svb : forall p c, pres svbPO (noneable_cmp p c).
Proof. intros p c. unfold noneable_cmp. pres_auto. Qed.

Lemma version_equal_svb : forall f, pres svbPO (version_equal f).
Proof. intros f. unfold version_equal. pres_auto. Qed.
#[local] Hint Resolve noneable_cmp_svb version_equal_svb : pres.

Lemma is_build_file_cached_svb : forall p c r, pres svbPO (is_build_file_cached p c r).
Proof. intros p c r. unfold is_build_file_cached. pres_auto. Qed.

Lemma dirs_to_make_svb : forall p cf, pres svbPO (dirs_to_make p cf).
Proof.
  induction p as [|n d IH]; intro cf; cbn [dirs_to_make]; pres_auto.
Qed.

Lemma is_simple_operation_cached_svb : forall q r ex cf, pres svbPO (is_simple_operation_cached q r ex cf).
Proof. intros q r ex cf. unfold is_simple_operation_cached. pres_auto. Qed.
#[local] Hint Resolve is_build_file_cached_svb dirs_to_make_svb is_simple_operation_cached_svb : pres.

(* the nested loop of [is_op_cached] is [are_subs_cached] *)
Lemma subs_go_eq : forall subs cf w,
  (fix go (subs : list op) (cf : cfiles) {struct subs} : M (bool * cfiles) :=
     match subs with
     | [] => ret (true, cf)
     | s :: rest =>
         bind (is_op_cached s cf) (fun r => if fst r then go rest (snd r) else ret (false, snd r))
     end) subs cf w = are_subs_cached subs cf w.
Proof.
  induction subs as [|s rest IH]; intros cf w; [reflexivity|].
  cbn [are_subs_cached]. unfold bind. destruct (is_op_cached s cf w) as [w1 [r|e]]; [|reflexivity].
  destruct (fst r); [apply IH | reflexivity].
Qed.

Lemma are_subs_cached_pres_F : forall (P : PO) subs,
  Forall (fun o => forall cf, pres P (is_op_cached o cf)) subs ->
  forall cf, pres P (are_subs_cached subs cf).
Proof.
  intros P subs HF. induction HF as [|s rest Hs HF IH]; intro cf; cbn [are_subs_cached].
  - apply pres_ret.
  - apply pres_bind; [apply Hs|]. intro r. destruct (fst r); [apply IH | apply pres_ret].
Qed.

Lemma is_op_cached_svb : forall o cf, pres svbPO (is_op_cached o cf).
Proof.
  induction o as [q r e | p c f a k subs r cr ra sf IH | f a k subs r ra sf IH] using op_ind';
    intro cf; cbn [is_op_cached].
  - pres_auto.
  - pres_auto.
    all: try (eapply pres_ext; [intro; apply subs_go_eq | apply are_subs_cached_pres_F; exact IH]).
  - pres_auto.
    all: try (eapply pres_ext; [intro; apply subs_go_eq | apply are_subs_cached_pres_F; exact IH]).
Qed.
#[local] Hint Resolve is_op_cached_svb : pres.

Lemma are_subs_cached_svb : forall subs cf, pres svbPO (are_subs_cached subs cf).
Proof.
  intros subs cf. apply are_subs_cached_pres_F. apply Forall_forall. intros; apply is_op_cached_svb.
Qed.
#[local] Hint Resolve are_subs_cached_svb : pres.

Theorem replay_footprint : forall o cf w w' r, is_op_cached o cf w = (w', r) -> same_but_view w w'.
Proof. intros o cf w w' r H. exact (is_op_cached_svb o cf w w' r H). Qed.

Lemma build_file_cache_lookup_svb : forall p f a k, pres svbPO (build_file_cache_lookup p f a k).
Proof. intros p f a k. unfold build_file_cache_lookup. pres_auto. Qed.

Lemma subbuild_cache_lookup_svb : forall key f, pres svbPO (subbuild_cache_lookup key f).
Proof. intros key f. unfold subbuild_cache_lookup. pres_auto. Qed.
#[local] Hint Resolve build_file_cache_lookup_svb subbuild_cache_lookup_svb : pres.

Theorem lookup_footprint : forall p f a k w w' r,
  build_file_cache_lookup p f a k w = (w', r) -> same_but_view w w'.
Proof. intros p f a k w w' r H. exact (build_file_cache_lookup_svb p f a k w w' r H). Qed.

Theorem sublookup_footprint : forall key f w w' r,
  subbuild_cache_lookup key f w = (w', r) -> same_but_view w w'.
Proof. intros key f w w' r H. exact (subbuild_cache_lookup_svb key f w w' r H). Qed.

(* ================================================================== *)
(* Toolkit: inverting a run                                           *)
(* ================================================================== *)

Lemma bind_inv : forall A B (m : M A) (f : A -> M B) w w' r,
  bind m f w = (w', r) ->
  (exists w1 a, m w = (w1, inl a) /\ f a w1 = (w', r)) \/
  (exists e, m w = (w', inr e) /\ r = inr e).
Proof.
  intros A B m f w w' r H. unfold bind in H. destruct (m w) as [w1 [a|e]].
  - left. eauto.
  - right. inversion H; subst. eauto.
Qed.

Lemma catch_inv : forall A (m : M A) (h : exn -> M A) w w' r,
  catch m h w = (w', r) ->
  (exists a, m w = (w', inl a) /\ r = inl a) \/
  (exists w1 e, m w = (w1, inr e) /\ h e w1 = (w', r)).
Proof.
  intros A m h w w' r H. unfold catch in H. destruct (m w) as [w1 [a|e]].
  - left. inversion H; subst. eauto.
  - right. eauto.
Qed.

Lemma attempt_inv : forall A (m : M A) w w' r,
  attempt m w = (w', r) -> exists x, m w = (w', x) /\ r = inl x.
Proof.
  intros A m w w' r H. unfold attempt in H. destruct (m w) as [w1 x].
  inversion H; subst. eauto.
Qed.

(* decompose a run hypothesis along the syntax of the computation *)
Ltac minv H :=
  cbv beta iota in H;
  lazymatch type of H with
  | bind _ _ _ = _ =>
      let H1 := fresh "E" in
      apply bind_inv in H;
      destruct H as [(?w & ?a & H1 & H) | (?e & H1 & H)];
      [ minv H1; minv H | try discriminate H; minv H1 ]
  | attempt _ _ = _ =>
      let H1 := fresh "E" in let H2 := fresh "E" in
      apply attempt_inv in H; destruct H as (?x & H1 & H2);
      try discriminate H2; try (inversion H2; subst; clear H2); minv H1
  | ret _ _ = _ => inversion H; subst; clear H
  | raise _ _ = _ => inversion H; subst; clear H
  | get _ = _ => inversion H; subst; clear H
  | version_equal _ _ = _ => unfold version_equal in H; minv H
  | (match ?x with _ => _ end) _ = _ => destruct x eqn:?; minv H
  | _ => idtac
  end.

(* ================================================================== *)
(* B. A rejected attempt is never served; failures are never cached   *)
(* ================================================================== *)

Definition never_served (o : op) : Prop :=
  forall cf w w' b cf', has_sf o = true -> is_op_cached o cf w = (w', inl (b, cf')) -> b = false.

Lemma subs_never_served : forall subs, Forall never_served subs ->
  forall cf w w' b cf', existsb has_sf subs = true ->
  are_subs_cached subs cf w = (w', inl (b, cf')) -> b = false.
Proof.
  intros subs HF. induction HF as [|s rest Hs HF IH]; intros cf w w' b cf' Hex H.
  - discriminate Hex.
  - cbn [existsb] in Hex. cbn [are_subs_cached] in H. minv H; try reflexivity.
    destruct a as [b1 cf1]. cbn [fst snd] in *. subst b1.
    destruct (has_sf s) eqn:Es.
    + specialize (Hs _ _ _ _ _ Es E). discriminate Hs.
    + cbn [orb] in Hex. eapply IH; eauto.
Qed.

Theorem never_served_sf : forall o cf w w' b cf',
  has_sf o = true -> is_op_cached o cf w = (w', inl (b, cf')) -> b = false.
Proof.
  induction o as [q r e | p c f a k subs r cr ra sf IH | f a k subs r ra sf IH] using op_ind';
    intros cf w w' b cf' Hsf H.
  - discriminate Hsf.
  - cbn [has_sf] in Hsf. cbn [is_op_cached] in H. minv H; try reflexivity.
    all: cbn [orb] in Hsf; rewrite subs_go_eq in *.
    all: match goal with
         | E : are_subs_cached ?s _ _ = (_, inl ?x), Hn : negb (fst ?x) = false |- _ =>
             destruct x as [b1 cf1]; cbn [fst snd] in *; apply negb_false_iff in Hn; subst b1;
             pose proof (subs_never_served s IH _ _ _ _ _ Hsf E) as X; discriminate X
         end.
  - cbn [has_sf] in Hsf. cbn [is_op_cached] in H. minv H; try reflexivity.
    rewrite subs_go_eq in H.
    match goal with Hn : _ || sf = false |- _ => apply orb_false_iff in Hn; destruct Hn as [_ ->] end.
    cbn [orb] in Hsf.
    exact (subs_never_served subs IH _ _ _ _ _ Hsf H).
Qed.

Lemma subs_served_no_sf : forall subs cf w w' cf',
  are_subs_cached subs cf w = (w', inl (true, cf')) ->
  forallb (fun s => negb (has_sf s)) subs = true.
Proof.
  induction subs as [|s rest IH]; intros cf w w' cf' H; [reflexivity|].
  cbn [are_subs_cached] in H. minv H.
  match goal with E : is_op_cached s _ _ = (_, inl ?x) |- _ => destruct x as [b1 cf1] end.
  cbn [fst snd] in *. subst b1. cbn [forallb].
  destruct (has_sf s) eqn:Es.
  - match goal with E : is_op_cached s _ _ = _ |- _ =>
      pose proof (never_served_sf _ _ _ _ _ _ Es E) as X; discriminate X end.
  - cbn [negb andb]. eapply IH; eauto.
Qed.

Theorem lookup_never_raised : forall p f a k w w' o,
  build_file_cache_lookup p f a k w = (w', inl (Some o)) ->
  cache_get_file (w_old w) p = Some o /\ op_raised o = false /\
  forallb (fun s => negb (has_sf s)) (op_subs o) = true.
Proof.
  intros p f a k w w' o H. unfold build_file_cache_lookup in H. minv H.
  match goal with E : are_subs_cached _ _ _ = (_, inl ?x) |- _ => destruct x as [b1 cf1] end.
  cbn [fst snd] in *. subst b1. cbn [op_raised op_subs].
  split; [first [assumption | reflexivity]|]. split; [reflexivity|]. eapply subs_served_no_sf; eauto.
Qed.

Theorem sublookup_never_raised : forall key f w w' o,
  subbuild_cache_lookup key f w = (w', inl (Some o)) ->
  subs_get (c_subs (w_old w)) key = Some (Some o) /\ op_raised o = false /\
  forallb (fun s => negb (has_sf s)) (op_subs o) = true.
Proof.
  intros key f w w' o H. unfold subbuild_cache_lookup in H. minv H.
  match goal with E : are_subs_cached _ _ _ = (_, inl ?x) |- _ => destruct x as [b1 cf1] end.
  cbn [fst snd] in *. subst b1. cbn [op_raised op_subs].
  split; [first [assumption | reflexivity]|]. split; [reflexivity|]. eapply subs_served_no_sf; eauto.
Qed.

(* ================================================================== *)
(* C. Version changes invalidate the function and its callers         *)
(* ================================================================== *)

Theorem version_miss_file : forall p f a k w w' r,
  is_equal (func_version (w_old w) f) (func_version (w_new w) f) = false ->
  build_file_cache_lookup p f a k w = (w', inl r) -> r = None.
Proof.
  intros p f a k w w' r Hv H. unfold build_file_cache_lookup in H. minv H; try reflexivity.
  all: match goal with Hn : negb (is_equal _ _) = false |- _ => rewrite Hv in Hn; discriminate Hn end.
Qed.

Theorem version_miss_subbuild : forall key f w w' r,
  is_equal (func_version (w_old w) f) (func_version (w_new w) f) = false ->
  subbuild_cache_lookup key f w = (w', inl r) -> r = None.
Proof.
  intros key f w w' r Hv H. unfold subbuild_cache_lookup in H. minv H; try reflexivity.
  all: match goal with Hn : negb (is_equal _ _) = false |- _ => rewrite Hv in Hn; discriminate Hn end.
Qed.

(* the version of [f] differs between the old and the new cache *)
Definition vne (f : string) (w : world) : Prop :=
  is_equal (func_version (w_old w) f) (func_version (w_new w) f) = false.

Lemma vne_svb : forall f w w', same_but_view w w' -> vne f w -> vne f w'.
Proof.
  unfold vne, same_but_view. intros f w w' H V.
  destruct H as (A1 & A2 & A3 & A4 & A5 & _). rewrite A4, A5. exact V.
Qed.

(* collect the footprint facts of the runs in the context, and move [vne] along them *)
Ltac svb_facts :=
  repeat match goal with
  | E : ?m ?w = (?w1, _) |- _ =>
      lazymatch goal with
      | _ : same_but_view w w1 |- _ => fail
      | _ => let X := fresh "SV" in
             assert (X : same_but_view w w1)
               by (refine ((_ : pres svbPO m) w w1 _ E); eauto with pres)
      end
  end.
Ltac vne_facts :=
  repeat match goal with
  | SV : same_but_view ?w ?w1, V : vne ?f ?w |- _ =>
      lazymatch goal with
      | _ : vne f w1 |- _ => fail
      | _ => pose proof (vne_svb f w w1 SV V)
      end
  end.

Definition vmc (f : string) (o : op) : Prop :=
  forall cf w w' b cf', vne f w -> mentions f o = true ->
  is_op_cached o cf w = (w', inl (b, cf')) -> b = false.

Lemma subs_vmc : forall f subs, Forall (vmc f) subs ->
  forall cf w w' b cf', vne f w -> existsb (mentions f) subs = true ->
  are_subs_cached subs cf w = (w', inl (b, cf')) -> b = false.
Proof.
  intros f subs HF. induction HF as [|s rest Hs HF IH]; intros cf w w' b cf' V Hex H.
  - discriminate Hex.
  - cbn [existsb] in Hex. cbn [are_subs_cached] in H. minv H; try reflexivity.
    match goal with E : is_op_cached s _ _ = (_, inl ?x) |- _ => destruct x as [b1 cf1] end.
    cbn [fst snd] in *. subst b1.
    destruct (mentions f s) eqn:Es.
    + match goal with E : is_op_cached s _ _ = _ |- _ =>
        pose proof (Hs _ _ _ _ _ V Es E) as X; discriminate X end.
    + cbn [orb] in Hex. svb_facts. vne_facts. eapply IH; [| exact Hex | exact H]; assumption.
Qed.

Theorem version_miss_callers : forall f o cf w w' b cf',
  is_equal (func_version (w_old w) f) (func_version (w_new w) f) = false ->
  mentions f o = true -> is_op_cached o cf w = (w', inl (b, cf')) -> b = false.
Proof.
  intros f o.
  induction o as [q r e | p c fn a k subs r cr ra sf IH | fn a k subs r ra sf IH] using op_ind';
    intros cf w w' b cf' V Hm H; change (vne f w) in V.
  - discriminate Hm.
  - cbn [mentions] in Hm. cbn [is_op_cached] in H.
    destruct (String.eqb fn f) eqn:Ef.
    + apply String.eqb_eq in Ef. subst fn. minv H; try reflexivity.
      all: match goal with Hn : negb (is_equal _ _) = false |- _ =>
             unfold vne in V; rewrite V in Hn; discriminate Hn end.
    + cbn [orb] in Hm. minv H; try reflexivity.
      all: rewrite subs_go_eq in *; svb_facts; vne_facts.
      all: match goal with
           | E : are_subs_cached ?s _ _ = (_, inl ?x), Hn : negb (fst ?x) = false |- _ =>
               destruct x as [b1 cf1]; cbn [fst snd] in *; apply negb_false_iff in Hn; subst b1;
               eapply (subs_vmc f s IH); [| exact Hm | exact E]; assumption
           end.
  - cbn [mentions] in Hm. cbn [is_op_cached] in H.
    destruct (String.eqb fn f) eqn:Ef.
    + apply String.eqb_eq in Ef. subst fn. minv H; try reflexivity.
      all: match goal with Hn : negb (is_equal _ _) || _ = false |- _ =>
             unfold vne in V; rewrite V in Hn; discriminate Hn end.
    + cbn [orb] in Hm. minv H; try reflexivity.
      rewrite subs_go_eq in *. eapply (subs_vmc f subs IH); [| exact Hm | exact H]; assumption.
Qed.

(* ================================================================== *)
(* D. At most one execution per key                                   *)
(* ================================================================== *)

Lemma bind_raise_eq : forall A B (m : M A) (f : A -> M B) w w' e,
  m w = (w', inr e) -> bind m f w = (w', inr e).
Proof. intros A B m f w w' e H. unfold bind. rewrite H. reflexivity. Qed.

Lemma new_assert_no_file_dup : forall p w, cache_has_file (w_new w) p = true ->
  new_assert_no_file p w = (w, inr (XRuntime RDupFile)).
Proof.
  intros p w H. unfold new_assert_no_file, bind, get. rewrite H. reflexivity.
Qed.

Lemma new_assert_no_subbuild_dup : forall k w, cache_has_subbuild (w_new w) k = true ->
  new_assert_no_subbuild k w = (w, inr (XRuntime RDupSubbuild)).
Proof.
  intros k w H. unfold new_assert_no_subbuild, bind, get. rewrite H. reflexivity.
Qed.

Theorem dup_file_rejected : forall p c f a kw fn w sa skw,
  sanitize a = Some sa -> sanitize kw = Some skw -> cache_has_file (w_new w) p = true ->
  m_build_file p c f a kw fn w =
  (w, (inr (XRuntime RDupFile), Some (OBuildFile p c f sa skw [] PNone PNone true true))).
Proof.
  intros p c f a kw fn w sa skw Ha Hk Hc. unfold m_build_file. rewrite Ha, Hk. cbv zeta.
  rewrite (bind_raise_eq _ _ _ _ _ _ _ (new_assert_no_file_dup p w Hc)). reflexivity.
Qed.

Theorem dup_subbuild_rejected : forall f a kw fn w sa skw,
  sanitize a = Some sa -> sanitize kw = Some skw ->
  cache_has_subbuild (w_new w) (subbuild_key f sa skw) = true ->
  m_subbuild f a kw fn w =
  (w, (inr (XRuntime RDupSubbuild), Some (OSubbuild f sa skw [] PNone true true))).
Proof.
  intros f a kw fn w sa skw Ha Hk Hc. unfold m_subbuild. rewrite Ha, Hk. cbv zeta.
  rewrite (bind_raise_eq _ _ _ _ _ _ _ (new_assert_no_subbuild_dup _ w Hc)). reflexivity.
Qed.

(* ---- routines that leave the new cache alone ---- *)

Ltac new_solve :=
  lazymatch goal with |- rel newPO ?a ?b => change (new_same a b) | _ => idtac end;
  first [ apply new_same_refl
        | unfold new_same; cbn; repeat split; reflexivity ].

Ltac raw_new f :=
  intros w w' r H; unfold f in H; cbv zeta in H; repeat dm H; inversion H; subst; new_solve.

Lemma effect_new : forall what p f, pres newPO (effect what p f).
Proof. intros what p f. raw_new effect. Qed.

Lemma effect_p_new : forall what p f, pres newPO (effect_p what p f).
Proof. intros what p f. raw_new effect_p. Qed.

Lemma m_bd_started_svb : forall p created, pres svbPO (m_bd_started p created).
Proof. intros p created. raw_svb m_bd_started. Qed.

Lemma m_bd_error_svb : forall p, pres svbPO (m_bd_error p).
Proof. intros p. raw_svb m_bd_error. Qed.
#[local] Hint Resolve effect_new effect_p_new m_bd_started_svb m_bd_error_svb : pres.

Lemma back_up_and_remove_new : forall p, pres newPO (back_up_and_remove p).
Proof.
  intro p. unfold back_up_and_remove. apply pres_bind; [auto with pres|]. intros _.
  intros w w' r H. cbv zeta in H. repeat dm H; inversion H; subst; new_solve.
Qed.
#[local] Hint Resolve back_up_and_remove_new : pres.

Lemma try_to_remove_file_new : forall p, pres newPO (try_to_remove_file p).
Proof. intro p. unfold try_to_remove_file. pres_auto. Qed.

Lemma remove_empty_dirs_new : forall ds, pres newPO (remove_empty_dirs ds).
Proof. intro ds. unfold remove_empty_dirs. pres_auto. Qed.

Lemma make_one_dir_new : forall d, pres newPO (make_one_dir d).
Proof. intro d. unfold make_one_dir. pres_auto. Qed.
#[local] Hint Resolve try_to_remove_file_new remove_empty_dirs_new make_one_dir_new : pres.

Lemma make_dirs_loop_new : forall ds made, pres newPO (make_dirs_loop ds made).
Proof.
  induction ds as [|d ds IH]; intro made; cbn [make_dirs_loop]; pres_auto.
Qed.
#[local] Hint Resolve make_dirs_loop_new : pres.

Lemma make_dirs_new : forall d, pres newPO (make_dirs d).
Proof. intro d. unfold make_dirs. pres_auto. Qed.
#[local] Hint Resolve make_dirs_new : pres.

Lemma make_room_new : forall fuel d, pres newPO (make_room fuel d).
Proof.
  induction fuel as [|fuel IH]; intro d; cbn [make_room]; pres_auto.
Qed.
#[local] Hint Resolve make_room_new : pres.

Lemma prepare_file_creation_new : forall p, pres newPO (prepare_file_creation p).
Proof. intro p. unfold prepare_file_creation. pres_auto. Qed.
#[local] Hint Resolve prepare_file_creation_new : pres.

Lemma apply_cached_subs_of_new : forall o, pres newPO (apply_cached_subs_of o).
Proof.
  induction o as [q r e | p c f a k subs r cr ra sf IH | f a k subs r ra sf IH] using op_ind';
    cbn [apply_cached_subs_of].
  - apply pres_ret.
  - induction IH as [|s rest Hs HF IHl]; cbn beta iota fix; [apply pres_ret|].
    apply pres_bind; [|intros _; exact IHl]. pres_auto.
  - induction IH as [|s rest Hs HF IHl]; cbn beta iota fix; [apply pres_ret|].
    apply pres_bind; [|intros _; exact IHl]. pres_auto.
Qed.
#[local] Hint Resolve apply_cached_subs_of_new : pres.

(* ---- the new cache only grows ---- *)

Definition cache_le (c c' : cache) : Prop :=
  (forall p, cache_has_file c p = true -> cache_has_file c' p = true) /\
  (forall k, cache_has_subbuild c k = true -> cache_has_subbuild c' k = true).

Lemma cache_le_refl : forall c, cache_le c c.
Proof. intro c. split; auto. Qed.
Lemma cache_le_trans : forall a b c, cache_le a b -> cache_le b c -> cache_le a c.
Proof. intros a b c [A1 A2] [B1 B2]. split; auto. Qed.

Lemma files_get_set_same : forall l p o, files_get (files_set l p o) p = Some o.
Proof.
  induction l as [|[q o'] l IH]; intros p o; cbn [files_set files_get].
  - rewrite path_eqb_refl. reflexivity.
  - destruct (path_eqb q p) eqn:E; cbn [files_get]; rewrite E; [reflexivity | apply IH].
Qed.

Lemma files_get_set : forall l p o q,
  files_get (files_set l p o) q = if path_eqb p q then Some o else files_get l q.
Proof.
  induction l as [|[q' o'] l IH]; intros p o q; cbn [files_set files_get].
  - reflexivity.
  - destruct (path_eqb q' p) eqn:E; cbn [files_get].
    + apply path_eqb_eq in E. subst q'. destruct (path_eqb p q); reflexivity.
    + rewrite IH. destruct (path_eqb q' q) eqn:E1; [|reflexivity].
      destruct (path_eqb p q) eqn:E2; [|reflexivity].
      apply path_eqb_eq in E1. apply path_eqb_eq in E2. subst. rewrite path_eqb_refl in E. discriminate E.
Qed.

Lemma files_get_del : forall l p q,
  files_get (files_del l p) q = if path_eqb p q then None else files_get l q.
Proof.
  induction l as [|[q' o'] l IH]; intros p q; cbn [files_del files_get].
  - destruct (path_eqb p q); reflexivity.
  - destruct (path_eqb q' p) eqn:E; cbn [files_get].
    + rewrite IH. apply path_eqb_eq in E. subst q'. destruct (path_eqb p q); reflexivity.
    + rewrite IH. destruct (path_eqb q' q) eqn:E1; [|reflexivity].
      destruct (path_eqb p q) eqn:E2; [|reflexivity].
      apply path_eqb_eq in E1. apply path_eqb_eq in E2. subst. rewrite path_eqb_refl in E. discriminate E.
Qed.

(* releasing a claim on a path that was free before the claim restores the old key set *)
Lemma files_get_del_set_free : forall l p o q,
  files_get l p = None -> files_get (files_del (files_set l p o) p) q = files_get l q.
Proof.
  intros l p o q Hfree. rewrite files_get_del, files_get_set.
  destruct (path_eqb p q) eqn:E; [|reflexivity].
  apply path_eqb_eq in E. subst q. symmetry. exact Hfree.
Qed.

Lemma files_set_keeps : forall l q o p,
  (exists x, files_get l p = Some x) -> exists y, files_get (files_set l q o) p = Some y.
Proof.
  induction l as [|[q' o'] l IH]; intros q o p [x Hx]; cbn [files_set files_get] in *.
  - discriminate Hx.
  - destruct (path_eqb q' q) eqn:E; cbn [files_get].
    + destruct (path_eqb q' p); eauto.
    + destruct (path_eqb q' p); eauto.
Qed.

Lemma subs_set_keeps : forall l q o k,
  (exists x, subs_get l k = Some x) -> exists y, subs_get (subs_set l q o) k = Some y.
Proof.
  induction l as [|[q' o'] l IH]; intros q o k [x Hx]; cbn [subs_set subs_get] in *.
  - discriminate Hx.
  - destruct (py_eq q' q) eqn:E; cbn [subs_get].
    + destruct (py_eq q' k); eauto.
    + destruct (py_eq q' k); eauto.
Qed.

Lemma has_file_iff : forall c p, cache_has_file c p = true <-> exists x, files_get (c_files c) p = Some x.
Proof.
  intros c p. unfold cache_has_file. destruct (files_get (c_files c) p); split; intro H;
    try reflexivity; try discriminate; eauto. destruct H; discriminate.
Qed.

Lemma has_subbuild_iff : forall c k, cache_has_subbuild c k = true <-> exists x, subs_get (c_subs c) k = Some x.
Proof.
  intros c k. unfold cache_has_subbuild. destruct (subs_get (c_subs c) k); split; intro H;
    try reflexivity; try discriminate; eauto. destruct H; discriminate.
Qed.

Lemma cache_le_files_set : forall c p o built,
  cache_le c (cache_with c (files_set (c_files c) p o) (c_subs c) (c_dirs c) built).
Proof.
  intros c p o built. split.
  - intros q H. apply has_file_iff in H. apply has_file_iff. cbn. apply files_set_keeps, H.
  - intros k H. exact H.
Qed.

Lemma cache_le_subs_set : forall c k o,
  cache_le c (cache_with c (c_files c) (subs_set (c_subs c) k o) (c_dirs c) (c_built c)).
Proof.
  intros c k o. split.
  - intros q H. exact H.
  - intros q H. apply has_subbuild_iff in H. apply has_subbuild_iff. cbn. apply subs_set_keeps, H.
Qed.

Lemma has_file_files_set : forall c p o built,
  cache_has_file (cache_with c (files_set (c_files c) p o) (c_subs c) (c_dirs c) built) p = true.
Proof.
  intros c p o built. apply has_file_iff. cbn. rewrite files_get_set_same. eauto.
Qed.

Lemma fold_register_le : forall subs,
  Forall (fun o => forall c, cache_le c (register_op c o)) subs ->
  forall c, cache_le c (fold_left register_op subs c).
Proof.
  intros subs HF. induction HF as [|s rest Hs HF IH]; intro c; cbn [fold_left].
  - apply cache_le_refl.
  - eapply cache_le_trans; [apply Hs | apply IH].
Qed.

Lemma register_op_le : forall o c, cache_le c (register_op c o).
Proof.
  induction o as [q r e | p c0 f a k subs r cr ra sf IH | f a k subs r ra sf IH] using op_ind';
    intro c; cbn [register_op].
  - apply cache_le_refl.
  - eapply cache_le_trans; [|apply fold_register_le; exact IH].
    destruct sf; [apply cache_le_refl | apply cache_le_files_set].
  - eapply cache_le_trans; [|apply fold_register_le; exact IH].
    destruct sf; [apply cache_le_refl | apply cache_le_subs_set].
Qed.

Lemma claims_le_cache_le : forall w w', claims_le w w' <-> cache_le (w_new w) (w_new w').
Proof. intros; reflexivity. Qed.

Lemma new_assert_no_file_svb : forall p, pres svbPO (new_assert_no_file p).
Proof. intro p. unfold new_assert_no_file. pres_auto. Qed.
Lemma new_assert_no_subbuild_svb : forall k, pres svbPO (new_assert_no_subbuild k).
Proof. intro k. unfold new_assert_no_subbuild. pres_auto. Qed.
#[local] Hint Resolve new_assert_no_file_svb new_assert_no_subbuild_svb : pres.

Lemma new_start_building_file_claims : forall p, pres claimsPO (new_start_building_file p).
Proof.
  intro p. unfold new_start_building_file. pres_auto. apply pres_modify. intro w.
  apply claims_le_cache_le. cbn. apply cache_le_files_set.
Qed.

(* [new_abort_building_file] alone does not preserve claims (it deletes a key), but it only
   runs right after [new_start_building_file p] succeeded, i.e. [p] was free before, and the
   guarded computation in between leaves the new cache alone: the claim-then-release block
   as a whole is monotone. *)
Lemma claim_guarded_claims : forall p A B (m : M A) (k : A -> M B),
  pres newPO m -> (forall a, pres claimsPO (k a)) ->
  pres claimsPO
    (bind (new_start_building_file p)
          (fun _ => bind (catch m (fun e => bind (new_abort_building_file p) (fun _ => raise e))) k)).
Proof.
  intros p A B m k Hm Hk w w' r H.
  apply bind_inv in H. destruct H as [(w1 & u & E1 & H) | (e & E1 & _)].
  2: exact (new_start_building_file_claims p w w' _ E1).
  assert (C1 : claims_le w w1) by exact (new_start_building_file_claims p w w1 _ E1).
  unfold new_start_building_file in E1.
  apply bind_inv in E1. destruct E1 as [(w0 & u0 & E0 & E1) | (e & _ & E1)]; [|discriminate E1].
  assert (Hfree : cache_has_file (w_new w) p = false /\ w0 = w).
  { unfold new_assert_no_file in E0. apply bind_inv in E0.
    destruct E0 as [(w00 & a0 & G & E0) | (e & G & _)]; [|inversion G].
    inversion G; subst w00 a0. destruct (cache_has_file (w_new w) p); [inversion E0|].
    inversion E0; subst. split; reflexivity. }
  destruct Hfree as [Hfree ->]. unfold modify in E1. inversion E1; subst w1; clear E1 E0.
  apply bind_inv in H. destruct H as [(w2 & a & E2 & H) | (e & E2 & _)].
  - eapply claims_le_trans; [|exact (Hk a _ _ _ H)].
    apply catch_inv in E2. destruct E2 as [(a' & E2 & _) | (w3 & e & _ & E3)].
    + eapply claims_le_trans; [exact C1|]. apply new_claims. exact (Hm _ _ _ E2).
    + apply bind_inv in E3. destruct E3 as [(w4 & u4 & _ & E3) | (e' & _ & E3)];
        [inversion E3 | discriminate E3].
  - apply catch_inv in E2. destruct E2 as [(a' & _ & E2) | (w3 & e0 & E2 & E3)]; [discriminate E2|].
    apply Hm in E2. destruct E2 as (N & _ & _).
    apply bind_inv in E3. destruct E3 as [(w4 & u4 & E3 & E4) | (e' & E3 & _)]; [|inversion E3].
    inversion E4; subst w4. unfold new_abort_building_file, modify in E3. inversion E3; subst w'.
    apply claims_le_cache_le. cbn [w_new set_new]. rewrite N. cbn [w_new set_new].
    unfold cache_has_file in Hfree.
    destruct (files_get (c_files (w_new w)) p) eqn:Hg; [discriminate Hfree|].
    split.
    + intros q Hq. unfold cache_has_file in *. cbn [c_files cache_with] in *.
      rewrite files_get_del_set_free by exact Hg. exact Hq.
    + intros q Hq. exact Hq.
Qed.

(* from here on [pres_auto] treats the claim-then-release block as one step *)
Ltac pres_hook ::=
  lazymatch goal with
  | |- pres claimsPO (bind (new_start_building_file _) (fun _ => bind (catch _ _) _)) =>
      apply claim_guarded_claims; [|intro]
  end.

Lemma new_finish_building_file_claims : forall p o, pres claimsPO (new_finish_building_file p o).
Proof.
  intros p o. unfold new_finish_building_file. apply pres_modify. intro w.
  apply claims_le_cache_le. cbn. apply cache_le_files_set.
Qed.

Lemma new_start_subbuild_claims : forall k, pres claimsPO (new_start_subbuild k).
Proof.
  intro k. unfold new_start_subbuild. pres_auto. apply pres_modify. intro w.
  apply claims_le_cache_le. cbn. apply cache_le_subs_set.
Qed.

Lemma new_finish_subbuild_claims : forall k o, pres claimsPO (new_finish_subbuild k o).
Proof.
  intros k o. unfold new_finish_subbuild. apply pres_modify. intro w.
  apply claims_le_cache_le. cbn. apply cache_le_subs_set.
Qed.

Lemma new_use_cached_operation_claims : forall o, pres claimsPO (new_use_cached_operation o).
Proof.
  intros o w w' r H. unfold new_use_cached_operation in H. minv H.
  - unfold put in H. inversion H; subst. apply claims_le_cache_le. cbn. apply register_op_le.
  - apply claims_le_refl.
Qed.
#[local] Hint Resolve new_start_building_file_claims new_finish_building_file_claims
  new_start_subbuild_claims new_finish_subbuild_claims new_use_cached_operation_claims : pres.

Lemma claims_le_set_log : forall l w, claims_le w (set_log l w).
Proof. intros l w. split; intros x H; exact H. Qed.

(* collect the claim facts of the runs in the context *)
Ltac claims_facts :=
  repeat match goal with
  | E : ?m ?w = (?w1, _) |- _ =>
      lazymatch goal with
      | _ : claims_le w w1 |- _ => fail
      | _ => let X := fresh "CL" in
             assert (X : claims_le w w1)
               by (first [ match goal with Hfn : forall p' a' k' v v' r', _ = _ -> claims_le v v' |- _ =>
                             eapply Hfn; exact E end
                         | match goal with Hfn : forall a' k' v v' r', _ = _ -> claims_le v v' |- _ =>
                             eapply Hfn; exact E end
                         | refine ((_ : pres claimsPO m) w w1 _ E); solve [pres_auto] ])
      end
  end.
(* The [set_log] step is only taken when a collected fact continues the chain from there:
   taken unconditionally it always succeeds, and [repeat] then diverges as soon as one
   fact is missing. *)
Ltac cl_chain :=
  repeat first [ eassumption
               | apply claims_le_refl
               | apply claims_le_set_log
               | eapply claims_le_trans; [eassumption|]
               | eapply claims_le_trans; [apply claims_le_set_log|];
                 first [ eassumption | eapply claims_le_trans; [eassumption|] ] ].

Lemma m_build_file_claims_mono : forall p c f a kw fn w w' r,
  (forall p' a' k' v v' r', fn p' a' k' v = (v', r') -> claims_le v v') ->
  m_build_file p c f a kw fn w = (w', r) -> claims_le w w'.
Proof.
  intros p c f a kw fn w w' r Hfn H. unfold m_build_file in H.
  destruct (sanitize a) as [sa|]; [|inversion H; subst; apply claims_le_refl].
  destruct (sanitize kw) as [skw|]; [|inversion H; subst; apply claims_le_refl].
  cbv zeta in H.
  match type of H with (match ?X with _ => _ end) = _ => destruct X as [w1 res] eqn:Hs end.
  repeat dm H; inversion H; subst; claims_facts; cl_chain.
Qed.

Lemma m_subbuild_claims_mono : forall f a kw fn w w' r,
  (forall a' k' v v' r', fn a' k' v = (v', r') -> claims_le v v') ->
  m_subbuild f a kw fn w = (w', r) -> claims_le w w'.
Proof.
  intros f a kw fn w w' r Hfn H. unfold m_subbuild in H.
  destruct (sanitize a) as [sa|]; [|inversion H; subst; apply claims_le_refl].
  destruct (sanitize kw) as [skw|]; [|inversion H; subst; apply claims_le_refl].
  cbv zeta in H.
  match type of H with (match ?X with _ => _ end) = _ => destruct X as [w1 res] eqn:Hs end.
  repeat dm H; inversion H; subst; claims_facts; cl_chain.
Qed.

Lemma m_query_svb : forall q, pres svbPO (m_query q).
Proof.
  intros q w w' r H. unfold m_query in H.
  destruct (exec_query q None w) as [w1 x] eqn:E.
  apply query_footprint in E. repeat dm H; inversion H; subst; exact E.
Qed.

Lemma claims_le_log_answer : forall q r w, claims_le w (log_answer q r w).
Proof.
  intros q r w. unfold log_answer. repeat match goal with |- context [match ?x with _ => _ end] => destruct x end;
    split; intros x H; exact H.
Qed.

Theorem run_claims_mono : forall pr target subs w w' r,
  run pr target subs w = (w', r) -> claims_le w w'.
Proof.
  induction pr as [v | e | stale q k IH | c k IH | stale p c f a kw fn IHfn k IHk | stale f a kw fn IHfn k IHk];
    intros target subs w w' r H; cbn [run] in H.
  - inversion H; subst. apply claims_le_refl.
  - inversion H; subst. apply claims_le_refl.
  - destruct stale; [eapply IH; eauto|].
    destruct (m_query q w) as [w1 [r1 o]] eqn:E.
    apply m_query_svb in E. apply svb_claims in E.
    apply IH in H. eapply claims_le_trans; [exact E|].
    eapply claims_le_trans; [apply claims_le_log_answer | exact H].
  - destruct target as [p|]; [|eapply IH; eauto].
    destruct (write_file (w_fs w) p c None (N.succ (w_clock w)) (w_nextid w)) as [fs'|e].
    + apply IH in H. eapply claims_le_trans; [|exact H]. split; intros x Hx; exact Hx.
    + inversion H; subst. apply claims_le_refl.
  - destruct stale; [eapply IHk; eauto|].
    match type of H with (let '(_, _) := ?X in _) = _ => destruct X as [w1 [r1 o]] eqn:E end.
    apply m_build_file_claims_mono in E; [|intros; eapply IHfn; eauto].
    apply IHk in H. eapply claims_le_trans; eauto.
  - destruct stale; [eapply IHk; eauto|].
    match type of H with (let '(_, _) := ?X in _) = _ => destruct X as [w1 [r1 o]] eqn:E end.
    apply m_subbuild_claims_mono in E; [|intros; eapply IHfn; eauto].
    apply IHk in H. eapply claims_le_trans; eauto.
Qed.

(* [minv] extended with [catch] *)
Ltac minvc H :=
  cbv beta iota in H;
  lazymatch type of H with
  | bind _ _ _ = _ =>
      let H1 := fresh "E" in
      apply bind_inv in H;
      destruct H as [(?w & ?a & H1 & H) | (?e & H1 & H)];
      [ minvc H1; minvc H | try discriminate H; minvc H1 ]
  | catch _ _ _ = _ =>
      let H1 := fresh "E" in
      apply catch_inv in H;
      destruct H as [(?a & H1 & H) | (?w & ?e & H1 & H)];
      [ try discriminate H; try (inversion H; subst; clear H); minvc H1 | minvc H1; minvc H ]
  | attempt _ _ = _ =>
      let H1 := fresh "E" in let H2 := fresh "E" in
      apply attempt_inv in H; destruct H as (?x & H1 & H2);
      try discriminate H2; try (inversion H2; subst; clear H2); minvc H1
  | ret _ _ = _ => inversion H; subst; clear H
  | raise _ _ = _ => inversion H; subst; clear H
  | get _ = _ => inversion H; subst; clear H
  | (match ?x with _ => _ end) _ = _ => destruct x eqn:?; minvc H
  | _ => idtac
  end.

Lemma new_use_cached_operation_has_file : forall p c f a k subs r cr ra w w' x,
  new_use_cached_operation (OBuildFile p c f a k subs r cr ra false) w = (w', inl x) ->
  cache_has_file (w_new w') p = true.
Proof.
  intros p c f a k subs r cr ra w w' x H. unfold new_use_cached_operation in H. minv H.
  unfold put in H. inversion H; subst. cbn [w_new set_new register_op].
  apply (fold_register_le subs).
  - apply Forall_forall. intros o _. apply register_op_le.
  - apply has_file_files_set.
Qed.

Theorem claimed_after_success : forall p c f a kw fn w w' v o,
  (forall p' a' k' u u' r', fn p' a' k' u = (u', r') -> claims_le u u') ->
  m_build_file p c f a kw fn w = (w', (inl v, Some o)) -> cache_has_file (w_new w') p = true.
Proof.
  intros p c f a kw fn w w' v o Hfn H. unfold m_build_file in H.
  destruct (sanitize a) as [sa|]; [|discriminate H].
  destruct (sanitize kw) as [skw|]; [|discriminate H].
  cbv zeta in H.
  match type of H with (match ?X with _ => _ end) = _ => destruct X as [w1 res] eqn:Hs end.
  repeat dm H; try discriminate H; inversion H; subst.
  2-9: match goal with E : new_finish_building_file _ _ _ = (_, _) |- _ =>
         unfold new_finish_building_file, modify in E; inversion E; subst;
         cbn [w_new set_new]; apply has_file_files_set end.
  clear H. minvc Hs.
  all: match goal with E : new_use_cached_operation _ _ = (_, inl _) |- _ =>
         exact (new_use_cached_operation_has_file _ _ _ _ _ _ _ _ _ _ _ _ E) end.
Qed.
