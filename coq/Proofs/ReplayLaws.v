(* Proofs/ReplayLaws.v — laws of cache lookup / replay and of the claim
   discipline of the sequential model (properties C06, C08). *)
From Coq Require Import List String Ascii NArith ZArith Bool Arith Lia.
From FB.Base Require Import PyVal Fs.
From FB.Gen Require Import JsonUtilGen.
From FB.Spec Require Import Prog.
From FB.Model Require Import Types Monad CreatedFiles BuildDirs SimpleOps Builder Build Run.
From FB.Proofs Require Import FsLemmas JsonLaws.
Import ListNotations.
Local Open Scope list_scope.

(* ================================================================== *)
(* Definitions                                                        *)
(* ================================================================== *)

Fixpoint has_sf (o : op) : bool :=          (* the record or a descendant failed in setup *)
  match o with
  | OSimple _ _ _ => false
  | OBuildFile _ _ _ _ _ subs _ _ _ sf => sf || existsb has_sf subs
  | OSubbuild _ _ _ subs _ _ sf => sf || existsb has_sf subs
  end.

Fixpoint mentions (f : string) (o : op) : bool :=   (* a record of function f occurs in the tree *)
  match o with
  | OSimple _ _ _ => false
  | OBuildFile _ _ fn _ _ subs _ _ _ _ => String.eqb fn f || existsb (mentions f) subs
  | OSubbuild fn _ _ subs _ _ _ => String.eqb fn f || existsb (mentions f) subs
  end.

(* the part of the world a cache lookup may change: only BuildDirs bookkeeping and the hash memo *)
Definition same_but_view (w w' : world) : Prop :=
  w_fs w' = w_fs w /\ w_clock w' = w_clock w /\ w_nextid w' = w_nextid w /\ w_old w' = w_old w /\
  w_new w' = w_new w /\ w_backups w' = w_backups w /\ w_lost w' = w_lost w /\ w_cachefile w' = w_cachefile w /\
  w_log w' = w_log w /\ w_faults w' = w_faults w /\ w_effects w' = w_effects w.

Definition claims_le (w w' : world) : Prop :=
  (forall p, cache_has_file (w_new w) p = true -> cache_has_file (w_new w') p = true) /\
  (forall k, cache_has_subbuild (w_new w) k = true -> cache_has_subbuild (w_new w') k = true).

(* induction principle for the nested type [op] *)
Section OpInd.
  Variable P : op -> Prop.
  Hypothesis HSimple : forall q r e, P (OSimple q r e).
  Hypothesis HBuildFile : forall p c f a k subs r cr ra sf,
      Forall P subs -> P (OBuildFile p c f a k subs r cr ra sf).
  Hypothesis HSubbuild : forall f a k subs r ra sf,
      Forall P subs -> P (OSubbuild f a k subs r ra sf).

  Fixpoint op_ind' (o : op) : P o :=
    match o with
    | OSimple q r e => HSimple q r e
    | OBuildFile p c f a k subs r cr ra sf =>
        HBuildFile p c f a k subs r cr ra sf
          ((fix go (l : list op) : Forall P l :=
              match l with
              | [] => Forall_nil _
              | x :: xs => Forall_cons _ (op_ind' x) (go xs)
              end) subs)
    | OSubbuild f a k subs r ra sf =>
        HSubbuild f a k subs r ra sf
          ((fix go (l : list op) : Forall P l :=
              match l with
              | [] => Forall_nil _
              | x :: xs => Forall_cons _ (op_ind' x) (go xs)
              end) subs)
    end.
End OpInd.

(* ================================================================== *)
(* Toolkit: relational footprints of monadic computations             *)
(* ================================================================== *)

(* a preorder on worlds *)
Record PO := {
  rel :> world -> world -> Prop;
  po_refl : forall w, rel w w;
  po_trans : forall a b c, rel a b -> rel b c -> rel a c
}.

(* every run of [m] relates the initial and the final world *)
Definition pres {X} (P : PO) (m : world -> world * X) : Prop :=
  forall w w' r, m w = (w', r) -> P w w'.

Lemma pres_ret : forall (P : PO) A (a : A), pres P (ret a).
Proof. intros P A a w w' r H. inversion H; subst. apply po_refl. Qed.

Lemma pres_raise : forall (P : PO) A (e : exn), pres P (@raise A e).
Proof. intros P A a w w' r H. inversion H; subst. apply po_refl. Qed.

Lemma pres_get : forall (P : PO), pres P get.
Proof. intros P w w' r H. inversion H; subst. apply po_refl. Qed.

Lemma pres_bind : forall (P : PO) A B (m : M A) (f : A -> M B),
  pres P m -> (forall a, pres P (f a)) -> pres P (bind m f).
Proof.
  intros P A B m f Hm Hf w w' r H. unfold bind in H.
  destruct (m w) as [w1 [a|e]] eqn:E.
  - eapply po_trans; [eapply Hm; eauto | eapply Hf; eauto].
  - inversion H; subst. eapply Hm; eauto.
Qed.

Lemma pres_catch : forall (P : PO) A (m : M A) (h : exn -> M A),
  pres P m -> (forall e, pres P (h e)) -> pres P (catch m h).
Proof.
  intros P A m h Hm Hh w w' r H. unfold catch in H.
  destruct (m w) as [w1 [a|e]] eqn:E.
  - inversion H; subst. eapply Hm; eauto.
  - eapply po_trans; [eapply Hm; eauto | eapply Hh; eauto].
Qed.

Lemma pres_attempt : forall (P : PO) A (m : M A), pres P m -> pres P (attempt m).
Proof.
  intros P A m Hm w w' r H. unfold attempt in H.
  destruct (m w) as [w1 x] eqn:E. inversion H; subst. eapply Hm; eauto.
Qed.

Lemma pres_modify : forall (P : PO) (f : world -> world),
  (forall w, P w (f w)) -> pres P (modify f).
Proof. intros P f Hf w w' r H. inversion H; subst. apply Hf. Qed.

Lemma pres_mapM_ : forall (P : PO) A (f : A -> M unit) l,
  (forall x, pres P (f x)) -> pres P (mapM_ f l).
Proof.
  intros P A f l Hf. induction l as [|x l IH]; cbn [mapM_].
  - apply pres_ret.
  - apply pres_bind; [apply Hf | intro; exact IH].
Qed.

Lemma pres_weaken : forall (P Q : PO) X (m : world -> world * X),
  (forall w w', P w w' -> Q w w') -> pres P m -> pres Q m.
Proof. intros P Q X m HPQ Hm w w' r H. apply HPQ. eapply Hm; eauto. Qed.

Lemma pres_ext : forall (P : PO) X (m m' : world -> world * X),
  (forall w, m w = m' w) -> pres P m' -> pres P m.
Proof. intros P X m m' E Hm w w' r H. rewrite E in H. eapply Hm; eauto. Qed.

(* ---- the three relations used below ---- *)

Lemma svb_refl : forall w, same_but_view w w.
Proof. intro w. unfold same_but_view. repeat split; reflexivity. Qed.

Lemma svb_trans : forall a b c, same_but_view a b -> same_but_view b c -> same_but_view a c.
Proof.
  unfold same_but_view. intros a b c H1 H2.
  destruct H1 as (A1 & A2 & A3 & A4 & A5 & A6 & A7 & A8 & A9 & A10 & A11).
  destruct H2 as (B1 & B2 & B3 & B4 & B5 & B6 & B7 & B8 & B9 & B10 & B11).
  repeat split; congruence.
Qed.

Definition svbPO : PO := {| rel := same_but_view; po_refl := svb_refl; po_trans := svb_trans |}.

(* [w_new] (and [w_old], [w_cachefile]) untouched *)
Definition new_same (w w' : world) : Prop :=
  w_new w' = w_new w /\ w_old w' = w_old w /\ w_cachefile w' = w_cachefile w.

Lemma new_same_refl : forall w, new_same w w.
Proof. intro w. unfold new_same. repeat split; reflexivity. Qed.
Lemma new_same_trans : forall a b c, new_same a b -> new_same b c -> new_same a c.
Proof. unfold new_same. intros a b c (A1 & A2 & A3) (B1 & B2 & B3). repeat split; congruence. Qed.

Definition newPO : PO := {| rel := new_same; po_refl := new_same_refl; po_trans := new_same_trans |}.

Lemma claims_le_refl : forall w, claims_le w w.
Proof. intro w. split; auto. Qed.
Lemma claims_le_trans : forall a b c, claims_le a b -> claims_le b c -> claims_le a c.
Proof. intros a b c [A1 A2] [B1 B2]. split; auto. Qed.

Definition claimsPO : PO := {| rel := claims_le; po_refl := claims_le_refl; po_trans := claims_le_trans |}.

Lemma svb_new : forall w w', svbPO w w' -> newPO w w'.
Proof.
  cbn. unfold same_but_view, new_same. intros w w' H.
  destruct H as (A1 & A2 & A3 & A4 & A5 & A6 & A7 & A8 & A9 & A10 & A11). auto.
Qed.

Lemma new_claims : forall w w', newPO w w' -> claimsPO w w'.
Proof.
  cbn. unfold new_same, claims_le. intros w w' (H & _). rewrite H. split; auto.
Qed.

Lemma svb_claims : forall w w', same_but_view w w' -> claims_le w w'.
Proof. intros w w' H. apply new_claims, svb_new, H. Qed.

Create HintDb pres discriminated.
#[local] Hint Extern 8 (pres newPO _) => apply (pres_weaken svbPO newPO _ _ svb_new) : pres.
#[local] Hint Extern 9 (pres claimsPO _) => apply (pres_weaken newPO claimsPO _ _ new_claims) : pres.

(* one syntactic step of a footprint proof *)
Ltac pres_step :=
  cbv beta;
  lazymatch goal with
  | |- pres _ (bind _ _) => apply pres_bind; [|intro]
  | |- pres _ (ret _) => apply pres_ret
  | |- pres _ (raise _) => apply pres_raise
  | |- pres _ get => apply pres_get
  | |- pres _ (catch _ _) => apply pres_catch; [|intro]
  | |- pres _ (attempt _) => apply pres_attempt
  | |- pres _ (mapM_ _ _) => apply pres_mapM_; intro
  | |- pres _ (match ?x with _ => _ end) => destruct x
  end.
Ltac pres_auto := repeat (first [ solve [eauto 4 with pres] | pres_step ]).

(* destruct the scrutinee of some match in hypothesis H *)
Ltac dm H :=
  match type of H with
  | context [match ?x with _ => _ end] => destruct x eqn:?
  end.

Ltac svb_solve :=
  first [ apply svb_refl
        | unfold same_but_view; cbn; repeat split; reflexivity ].

(* a routine written as an explicit function of the world *)
Ltac raw_svb f :=
  intros w w' r H; unfold f in H; repeat dm H; inversion H; subst; svb_solve.

(* ================================================================== *)
(* A. Lookups are read-only                                           *)
(* ================================================================== *)

Lemma m_handle_dir_exists_svb : forall d, pres svbPO (m_handle_dir_exists d).
Proof. intro d. unfold m_handle_dir_exists. apply pres_modify. intro w. cbn. svb_solve. Qed.

Lemma m_is_removed_svb : forall d, pres svbPO (m_is_removed d).
Proof. intro d. cbn. raw_svb m_is_removed. Qed.

Lemma is_file_no_read_svb : forall p cf, pres svbPO (is_file_no_read p cf).
Proof. intros p cf. cbn. raw_svb is_file_no_read. Qed.

Lemma is_cache_file_svb : forall p, pres svbPO (is_cache_file p).
Proof. intros p. cbn. raw_svb is_cache_file. Qed.

Lemma file_metadata_svb : forall p, pres svbPO (file_metadata p).
Proof. intros p. cbn. raw_svb file_metadata. Qed.

Lemma file_hash_svb : forall p, pres svbPO (file_hash p).
Proof. intros p. cbn. raw_svb file_hash. Qed.

Lemma list_dir_superset_svb : forall d cf, pres svbPO (list_dir_superset d cf).
Proof. intros d cf. cbn. raw_svb list_dir_superset. Qed.

#[local] Hint Resolve m_handle_dir_exists_svb m_is_removed_svb is_file_no_read_svb is_cache_file_svb
  file_metadata_svb file_hash_svb list_dir_superset_svb : pres.

Lemma file_comparison_result_svb : forall p c, pres svbPO (file_comparison_result p c).
Proof. intros p c. unfold file_comparison_result. pres_auto. Qed.
#[local] Hint Resolve file_comparison_result_svb : pres.

Lemma m_is_file_svb : forall p cf, pres svbPO (m_is_file p cf).
Proof. intros p cf. unfold m_is_file. pres_auto. Qed.

Lemma m_is_dir_svb : forall p cf, pres svbPO (m_is_dir p cf).
Proof. intros p cf. unfold m_is_dir. pres_auto. Qed.
#[local] Hint Resolve m_is_file_svb m_is_dir_svb : pres.

Lemma m_exists_svb : forall p cf, pres svbPO (m_exists p cf).
Proof. intros p cf. unfold m_exists. pres_auto. Qed.
#[local] Hint Resolve m_exists_svb : pres.

Lemma m_get_size_svb : forall p cf, pres svbPO (m_get_size p cf).
Proof. intros p cf. unfold m_get_size. pres_auto. Qed.

Lemma m_read_svb : forall p c cf, pres svbPO (m_read p c cf).
Proof. intros p c cf. unfold m_read. pres_auto. Qed.

Lemma m_assert_is_dir_svb : forall p cf, pres svbPO (m_assert_is_dir p cf).
Proof. intros p cf. unfold m_assert_is_dir. pres_auto. Qed.
#[local] Hint Resolve m_get_size_svb m_read_svb m_assert_is_dir_svb : pres.

Lemma filterM_pres : forall (P : PO) f l, (forall n, pres P (f n)) -> pres P (filterM f l).
Proof.
  intros P f l Hf. induction l as [|n l IH]; cbn [filterM]; pres_auto.
Qed.

Lemma m_list_dir_svb : forall d cf, pres svbPO (m_list_dir d cf).
Proof.
  intros d cf. unfold m_list_dir. pres_auto. apply filterM_pres. intro; pres_auto.
Qed.

Lemma classify_svb : forall d cf l, pres svbPO (classify d cf l).
Proof.
  intros d cf l. induction l as [|n l IH]; cbn [classify]; pres_auto.
Qed.
#[local] Hint Resolve m_list_dir_svb classify_svb : pres.

Lemma append_walk_svb : forall fuel d td cf, pres svbPO (append_walk fuel d td cf).
Proof.
  induction fuel as [|fuel IH]; intros d td cf; cbn [append_walk].
  - apply pres_raise.
  - pres_auto.
    generalize (fst a0). intro ds. induction ds as [|n ds IHds].
    + apply pres_ret.
    + pres_auto.
Qed.
#[local] Hint Resolve append_walk_svb : pres.

Lemma m_walk_svb : forall d td cf, pres svbPO (m_walk d td cf).
Proof. intros d td cf. unfold m_walk. pres_auto. Qed.
#[local] Hint Resolve m_walk_svb : pres.

Lemma exec_query_svb : forall q cf, pres svbPO (exec_query q cf).
Proof. intros q cf. destruct q; cbn [exec_query]; pres_auto. Qed.
#[local] Hint Resolve exec_query_svb : pres.

Theorem query_footprint : forall q cf w w' r, exec_query q cf w = (w', r) -> same_but_view w w'.
Proof. intros q cf w w' r H. exact (exec_query_svb q cf w w' r H). Qed.

(* ---- replay ---- *)

Lemma noneable_cmp_svb : forall p c, pres svbPO (noneable_cmp p c).
Proof. intros p c. unfold noneable_cmp. pres_auto. Qed.

Lemma version_equal_svb : forall f, pres svbPO (version_equal f).
Proof. intros f. unfold version_equal. pres_auto. Qed.
#[local] Hint Resolve noneable_cmp_svb version_equal_svb : pres.

Lemma is_build_file_cached_svb : forall p c r, pres svbPO (is_build_file_cached p c r).
Proof. intros p c r. unfold is_build_file_cached. pres_auto. Qed.

Lemma dirs_to_make_svb : forall p cf, pres svbPO (dirs_to_make p cf).
Proof.
  induction p as [|n d IH]; intro cf; cbn [dirs_to_make]; pres_auto.
Qed.

Lemma is_simple_operation_cached_svb : forall q r ex cf, pres svbPO (is_simple_operation_cached q r ex cf).
Proof. intros q r ex cf. unfold is_simple_operation_cached. pres_auto. Qed.
#[local] Hint Resolve is_build_file_cached_svb dirs_to_make_svb is_simple_operation_cached_svb : pres.

(* the nested loop of [is_op_cached] is [are_subs_cached] *)
Lemma subs_go_eq : forall subs cf w,
  (fix go (subs : list op) (cf : cfiles) {struct subs} : M (bool * cfiles) :=
     match subs with
     | [] => ret (true, cf)
     | s :: rest =>
         bind (is_op_cached s cf) (fun r => if fst r then go rest (snd r) else ret (false, snd r))
     end) subs cf w = are_subs_cached subs cf w.
Proof.
  induction subs as [|s rest IH]; intros cf w; [reflexivity|].
  cbn [are_subs_cached]. unfold bind. destruct (is_op_cached s cf w) as [w1 [r|e]]; [|reflexivity].
  destruct (fst r); [apply IH | reflexivity].
Qed.

Lemma are_subs_cached_pres_F : forall (P : PO) subs,
  Forall (fun o => forall cf, pres P (is_op_cached o cf)) subs ->
  forall cf, pres P (are_subs_cached subs cf).
Proof.
  intros P subs HF. induction HF as [|s rest Hs HF IH]; intro cf; cbn [are_subs_cached].
  - apply pres_ret.
  - apply pres_bind; [apply Hs|]. intro r. destruct (fst r); [apply IH | apply pres_ret].
Qed.

Lemma is_op_cached_svb : forall o cf, pres svbPO (is_op_cached o cf).
Proof.
  induction o as [q r e | p c f a k subs r cr ra sf IH | f a k subs r ra sf IH] using op_ind';
    intro cf; cbn [is_op_cached].
  - pres_auto.
  - pres_auto.
    all: try (eapply pres_ext; [intro; apply subs_go_eq | apply are_subs_cached_pres_F; exact IH]).
  - pres_auto.
    all: try (eapply pres_ext; [intro; apply subs_go_eq | apply are_subs_cached_pres_F; exact IH]).
Qed.
#[local] Hint Resolve is_op_cached_svb : pres.

Lemma are_subs_cached_svb : forall subs cf, pres svbPO (are_subs_cached subs cf).
Proof.
  intros subs cf. apply are_subs_cached_pres_F. apply Forall_forall. intros; apply is_op_cached_svb.
Qed.
#[local] Hint Resolve are_subs_cached_svb : pres.

Theorem replay_footprint : forall o cf w w' r, is_op_cached o cf w = (w', r) -> same_but_view w w'.
Proof. intros o cf w w' r H. exact (is_op_cached_svb o cf w w' r H). Qed.

Lemma build_file_cache_lookup_svb : forall p f a k, pres svbPO (build_file_cache_lookup p f a k).
Proof. intros p f a k. unfold build_file_cache_lookup. pres_auto. Qed.

Lemma subbuild_cache_lookup_svb : forall key f, pres svbPO (subbuild_cache_lookup key f).
Proof. intros key f. unfold subbuild_cache_lookup. pres_auto. Qed.
#[local] Hint Resolve build_file_cache_lookup_svb subbuild_cache_lookup_svb : pres.

Theorem lookup_footprint : forall p f a k w w' r,
  build_file_cache_lookup p f a k w = (w', r) -> same_but_view w w'.
Proof. intros p f a k w w' r H. exact (build_file_cache_lookup_svb p f a k w w' r H). Qed.

Theorem sublookup_footprint : forall key f w w' r,
  subbuild_cache_lookup key f w = (w', r) -> same_but_view w w'.
Proof. intros key f w w' r H. exact (subbuild_cache_lookup_svb key f w w' r H). Qed.

(* ================================================================== *)
(* Toolkit: inverting a run                                           *)
(* ================================================================== *)

Lemma bind_inv : forall A B (m : M A) (f : A -> M B) w w' r,
  bind m f w = (w', r) ->
  (exists w1 a, m w = (w1, inl a) /\ f a w1 = (w', r)) \/
  (exists e, m w = (w', inr e) /\ r = inr e).
Proof.
  intros A B m f w w' r H. unfold bind in H. destruct (m w) as [w1 [a|e]].
  - left. eauto.
  - right. inversion H; subst. eauto.
Qed.

Lemma catch_inv : forall A (m : M A) (h : exn -> M A) w w' r,
  catch m h w = (w', r) ->
  (exists a, m w = (w', inl a) /\ r = inl a) \/
  (exists w1 e, m w = (w1, inr e) /\ h e w1 = (w', r)).
Proof.
  intros A m h w w' r H. unfold catch in H. destruct (m w) as [w1 [a|e]].
  - left. inversion H; subst. eauto.
  - right. eauto.
Qed.

Lemma attempt_inv : forall A (m : M A) w w' r,
  attempt m w = (w', r) -> exists x, m w = (w', x) /\ r = inl x.
Proof.
  intros A m w w' r H. unfold attempt in H. destruct (m w) as [w1 x].
  inversion H; subst. eauto.
Qed.

(* decompose a run hypothesis along the syntax of the computation *)
Ltac minv H :=
  cbv beta iota in H;
  lazymatch type of H with
  | bind _ _ _ = _ =>
      let H1 := fresh "E" in
      apply bind_inv in H;
      destruct H as [(?w & ?a & H1 & H) | (?e & H1 & H)];
      [ minv H1; minv H | try discriminate H; minv H1 ]
  | attempt _ _ = _ =>
      let H1 := fresh "E" in let H2 := fresh "E" in
      apply attempt_inv in H; destruct H as (?x & H1 & H2);
      try discriminate H2; try (inversion H2; subst; clear H2); minv H1
  | ret _ _ = _ => inversion H; subst; clear H
  | raise _ _ = _ => inversion H; subst; clear H
  | get _ = _ => inversion H; subst; clear H
  | version_equal _ _ = _ => unfold version_equal in H; minv H
  | (match ?x with _ => _ end) _ = _ => destruct x eqn:?; minv H
  | _ => idtac
  end.

(* ================================================================== *)
(* B. A rejected attempt is never served; failures are never cached   *)
(* ================================================================== *)

Definition never_served (o : op) : Prop :=
  forall cf w w' b cf', has_sf o = true -> is_op_cached o cf w = (w', inl (b, cf')) -> b = false.

Lemma subs_never_served : forall subs, Forall never_served subs ->
  forall cf w w' b cf', existsb has_sf subs = true ->
  are_subs_cached subs cf w = (w', inl (b, cf')) -> b = false.
Proof.
  intros subs HF. induction HF as [|s rest Hs HF IH]; intros cf w w' b cf' Hex H.
  - discriminate Hex.
  - cbn [existsb] in Hex. cbn [are_subs_cached] in H. minv H; try reflexivity.
    destruct a as [b1 cf1]. cbn [fst snd] in *. subst b1.
    destruct (has_sf s) eqn:Es.
    + specialize (Hs _ _ _ _ _ Es E). discriminate Hs.
    + cbn [orb] in Hex. eapply IH; eauto.
Qed.

Theorem never_served_sf : forall o cf w w' b cf',
  has_sf o = true -> is_op_cached o cf w = (w', inl (b, cf')) -> b = false.
Proof.
  induction o as [q r e | p c f a k subs r cr ra sf IH | f a k subs r ra sf IH] using op_ind';
    intros cf w w' b cf' Hsf H.
  - discriminate Hsf.
  - cbn [has_sf] in Hsf. cbn [is_op_cached] in H. minv H; try reflexivity.
    all: cbn [orb] in Hsf; rewrite subs_go_eq in *.
    all: match goal with
         | E : are_subs_cached ?s _ _ = (_, inl ?x), Hn : negb (fst ?x) = false |- _ =>
             destruct x as [b1 cf1]; cbn [fst snd] in *; apply negb_false_iff in Hn; subst b1;
             pose proof (subs_never_served s IH _ _ _ _ _ Hsf E) as X; discriminate X
         end.
  - cbn [has_sf] in Hsf. cbn [is_op_cached] in H. minv H; try reflexivity.
    rewrite subs_go_eq in H.
    apply orb_false_iff in Heqb0. destruct Heqb0 as [_ ->]. cbn [orb] in Hsf.
    exact (subs_never_served subs IH _ _ _ _ _ Hsf H).
Qed.

Lemma subs_served_no_sf : forall subs cf w w' cf',
  are_subs_cached subs cf w = (w', inl (true, cf')) ->
  forallb (fun s => negb (has_sf s)) subs = true.
Proof.
  induction subs as [|s rest IH]; intros cf w w' cf' H; [reflexivity|].
  cbn [are_subs_cached] in H. minv H.
  match goal with E : is_op_cached s _ _ = (_, inl ?x) |- _ => destruct x as [b1 cf1] end.
  cbn [fst snd] in *. subst b1. cbn [forallb].
  destruct (has_sf s) eqn:Es.
  - match goal with E : is_op_cached s _ _ = _ |- _ =>
      pose proof (never_served_sf _ _ _ _ _ _ Es E) as X; discriminate X end.
  - cbn [negb andb]. eapply IH; eauto.
Qed.

Theorem lookup_never_raised : forall p f a k w w' o,
  build_file_cache_lookup p f a k w = (w', inl (Some o)) ->
  cache_get_file (w_old w) p = Some o /\ op_raised o = false /\
  forallb (fun s => negb (has_sf s)) (op_subs o) = true.
Proof.
  intros p f a k w w' o H. unfold build_file_cache_lookup in H. minv H.
  match goal with E : are_subs_cached _ _ _ = (_, inl ?x) |- _ => destruct x as [b1 cf1] end.
  cbn [fst snd] in *. subst b1. cbn [op_raised op_subs].
  split; [first [assumption | reflexivity]|]. split; [reflexivity|]. eapply subs_served_no_sf; eauto.
Qed.

Theorem sublookup_never_raised : forall key f w w' o,
  subbuild_cache_lookup key f w = (w', inl (Some o)) ->
  subs_get (c_subs (w_old w)) key = Some (Some o) /\ op_raised o = false /\
  forallb (fun s => negb (has_sf s)) (op_subs o) = true.
Proof.
  intros key f w w' o H. unfold subbuild_cache_lookup in H. minv H.
  match goal with E : are_subs_cached _ _ _ = (_, inl ?x) |- _ => destruct x as [b1 cf1] end.
  cbn [fst snd] in *. subst b1. cbn [op_raised op_subs].
  split; [first [assumption | reflexivity]|]. split; [reflexivity|]. eapply subs_served_no_sf; eauto.
Qed.
