(* Proofs/CommitDirs2File.v -- "f holds what its function wrote" (C03/C10, files half):

   for a path this build built (c_built) whose record is not marked raised, the regular
   file that is there is the node that was there when its build_file call returned, and the
   comparison result in the record is [cmp_of] of that node: invariant [XW] below, along
   every run (any previous cache).  New file of round 3; edits nothing.

   Ingredients: the file part of the tree only shrinks, except at the target of a Write
   (HashMemoInv.fsub / FSPO, weakened to [fbackPO] here); the entries of the new cache of
   claimed paths are stable (CommitDirsInv.stable, from run_G); a record of a built path
   that is not raised has a regular file (XBc, part of EInv); bf_setup adds no finished
   record for a built path ([NPO]).  HASH mode needs the memo invariant of HashMemoRun.v
   (HInv, carried along exactly as in run_HInv). *)
From Coq Require Import List String Ascii NArith ZArith Bool Arith Lia.
From FB.Base Require Import PyVal Fs.
From FB.Gen Require Import JsonUtilGen.
From FB.Spec Require Import Prog.
From FB.Model Require Import Types Monad CreatedFiles BuildDirs SimpleOps Builder Persist Build Run Frame Core.
From FB.Proofs Require Import CmpLaws HashMemoInv HashMemoRun.
From FB.Proofs Require Import FsLemmas ReplayLaws FrameLaws CleanLaws BuildFileLaws RollbackDirsLaws
     RollbackDirsView RollbackDirsBase RollbackDirsInv RollbackDirsMake RollbackDirsRun
     CommitDirsInv CommitDirsRun.
Import ListNotations.
Local Open Scope list_scope.

(* ================================================================== *)
(* 1. Regular files only disappear (no user code)                      *)
(* ================================================================== *)

Definition fback (w w' : world) : Prop := fsub (w_fs w) (w_fs w').
Lemma fback_refl : forall w, fback w w.
Proof. intros w x f H. exact H. Qed.
Lemma fback_trans : forall a b c, fback a b -> fback b c -> fback a c.
Proof. intros a b c H1 H2 x f H. apply H1, H2, H. Qed.
Definition fbackPO : PO := {| rel := fback; po_refl := fback_refl; po_trans := fback_trans |}.

Lemma svb_fback : forall w w', svbPO w w' -> fbackPO w w'.
Proof. cbn. intros w w' (A & _) x f H. rewrite A in H. exact H. Qed.
Lemma fstep_fback : forall w w', FSPO w w' -> fbackPO w w'.
Proof. cbn. intros w w' (_ & _ & _ & A). exact A. Qed.

#[local] Hint Resolve m_handle_dir_exists_svb m_is_removed_svb is_file_no_read_svb is_cache_file_svb
  file_metadata_svb file_hash_svb list_dir_superset_svb file_comparison_result_svb m_is_file_svb m_is_dir_svb
  m_exists_svb exec_query_svb noneable_cmp_svb version_equal_svb is_build_file_cached_svb dirs_to_make_svb
  is_op_cached_svb are_subs_cached_svb build_file_cache_lookup_svb subbuild_cache_lookup_svb
  m_bd_started_svb m_bd_error_svb new_assert_no_file_svb new_assert_no_subbuild_svb m_query_svb : pres.
#[local] Hint Resolve back_up_and_remove_fs try_to_remove_file_fs remove_empty_dirs_fs make_one_dir_fs
  make_dirs_loop_fs make_dirs_fs make_room_fs prepare_file_creation_fs apply_cached_subs_of_fs : pres.
#[local] Hint Extern 8 (pres fbackPO _) => apply (pres_weaken svbPO fbackPO _ _ svb_fback) : pres.
#[local] Hint Extern 8 (pres fbackPO _) => apply (pres_weaken FSPO fbackPO _ _ fstep_fback) : pres.

Lemma fback_same : forall w w', w_fs w' = w_fs w -> fback w w'.
Proof. intros w w' E x f H. rewrite E in H. exact H. Qed.

Lemma new_start_building_file_fb : forall p, pres fbackPO (new_start_building_file p).
Proof. intro p. unfold new_start_building_file. pres_auto. apply pres_modify. intro w. apply fback_same. reflexivity. Qed.
Lemma new_abort_building_file_fb : forall p, pres fbackPO (new_abort_building_file p).
Proof. intro p. unfold new_abort_building_file. apply pres_modify. intro w. apply fback_same. reflexivity. Qed.
Lemma new_finish_building_file_fb : forall p o, pres fbackPO (new_finish_building_file p o).
Proof. intros p o. unfold new_finish_building_file. apply pres_modify. intro w. apply fback_same. reflexivity. Qed.
Lemma new_start_subbuild_fb : forall k, pres fbackPO (new_start_subbuild k).
Proof. intro k. unfold new_start_subbuild. pres_auto. apply pres_modify. intro w. apply fback_same. reflexivity. Qed.
Lemma new_finish_subbuild_fb : forall k o, pres fbackPO (new_finish_subbuild k o).
Proof. intros k o. unfold new_finish_subbuild. apply pres_modify. intro w. apply fback_same. reflexivity. Qed.
Lemma new_use_cached_operation_fb : forall o, pres fbackPO (new_use_cached_operation o).
Proof.
  intros o w w' r H. unfold new_use_cached_operation in H. unfold bind at 1, get in H.
  destruct (assert_no_repeats (w_new w) o); [unfold put in H|]; inversion H; subst; apply fback_same; reflexivity.
Qed.
#[local] Hint Resolve new_start_building_file_fb new_abort_building_file_fb new_finish_building_file_fb
  new_start_subbuild_fb new_finish_subbuild_fb new_use_cached_operation_fb : pres.

Lemma bf_claim_fb : forall p, pres fbackPO (bf_claim p).
Proof. intro p. unfold bf_claim. pres_auto. Qed.
#[local] Hint Resolve bf_claim_fb : pres.

Lemma bf_reuse_fb : forall p c f sa skw cached, pres fbackPO (bf_reuse p c f sa skw cached).
Proof. intros p c f sa skw cached. unfold bf_reuse. cbv zeta. pres_auto. Qed.
#[local] Hint Resolve bf_reuse_fb : pres.

Lemma bf_setup_fb : forall p c f sa skw, pres fbackPO (bf_setup p c f sa skw).
Proof. intros p c f sa skw. unfold bf_setup. pres_auto. Qed.

Lemma sb_setup_fb : forall f sa skw, pres fbackPO (sb_setup f sa skw).
Proof. intros f sa skw. unfold sb_setup. cbv zeta. pres_auto. Qed.

(* ================================================================== *)
(* 2. What bf_setup / sb_setup do to the claims                        *)
(* ================================================================== *)

(* only [t] can become a built path, and as long as [t] is built it is in progress *)
Definition nrel (t : option path) (w w' : world) : Prop :=
  (forall q, In q (c_built (w_new w')) -> In q (c_built (w_new w)) \/ t = Some q) /\
  (forall p, t = Some p -> (In p (c_built (w_new w)) -> pending (w_new w) p) ->
     In p (c_built (w_new w')) -> pending (w_new w') p).

Lemma nrel_refl : forall t w, nrel t w w.
Proof. intros t w. split; [intros q H; left; exact H | intros p _ H; exact H]. Qed.
Lemma nrel_trans : forall t a b c, nrel t a b -> nrel t b c -> nrel t a c.
Proof.
  intros t a b c [A1 A2] [B1 B2]. split.
  - intros q Hq. destruct (B1 q Hq) as [Y|Y]; [exact (A1 q Y) | right; exact Y].
  - intros p Hp Ha. exact (B2 p Hp (A2 p Hp Ha)).
Qed.
Definition NPO (t : option path) : PO := {| rel := nrel t; po_refl := nrel_refl t; po_trans := nrel_trans t |}.

Lemma new_nrel : forall t w w', newPO w w' -> NPO t w w'.
Proof. cbn. intros t w w' (A & _). unfold nrel. rewrite A. apply nrel_refl. Qed.

#[local] Hint Resolve effect_new effect_p_new back_up_and_remove_new try_to_remove_file_new remove_empty_dirs_new
  make_one_dir_new make_dirs_loop_new make_dirs_new make_room_new prepare_file_creation_new
  apply_cached_subs_of_new : pres.
#[local] Hint Extern 9 (pres newPO _) => apply (pres_weaken svbPO newPO _ _ svb_new) : pres.
#[local] Hint Extern 8 (pres (NPO _) _) => apply (pres_weaken newPO (NPO _) _ _ (new_nrel _)) : pres.

Lemma new_start_building_file_N : forall p, pres (NPO (Some p)) (new_start_building_file p).
Proof.
  intro p. unfold new_start_building_file. pres_auto. apply pres_modify. intro w. cbn. split.
  - intros q Hq. cbn [w_new set_new c_built cache_with] in Hq. apply in_app_or in Hq.
    destruct Hq as [Hq|[<-|[]]]; [left; exact Hq | right; reflexivity].
  - intros p0 Hp _ _. inversion Hp; subst p0. unfold pending. cbn [w_new set_new c_files cache_with].
    apply files_get_set_same.
Qed.

Lemma new_abort_building_file_N : forall p, pres (NPO (Some p)) (new_abort_building_file p).
Proof.
  intro p. unfold new_abort_building_file. apply pres_modify. intro w. cbn. split.
  - intros q Hq. cbn [w_new set_new c_built cache_with] in Hq. left. eapply FrameLaws.In_del_path; exact Hq.
  - intros p0 Hp _ Hb. inversion Hp; subst p0. cbn [w_new set_new c_built cache_with] in Hb.
    exfalso. exact (notin_del_path _ _ Hb).
Qed.

Lemma new_use_cached_operation_N : forall t o, pres (NPO t) (new_use_cached_operation o).
Proof.
  intros t o w w' r H. unfold new_use_cached_operation in H. unfold bind at 1, get in H.
  destruct (assert_no_repeats (w_new w) o) eqn:Ea; [unfold put in H|]; inversion H; subst; [|apply nrel_refl].
  cbn. split.
  - intros q Hq. cbn [w_new set_new] in Hq. rewrite FrameLaws.register_op_built in Hq. left. exact Hq.
  - intros p _ Ha Hb. cbn [w_new set_new] in Hb |- *. rewrite FrameLaws.register_op_built in Hb.
    pose proof (Ha Hb) as Hp. unfold pending in *.
    rewrite (register_op_keeps_entry p (w_new w) (CommitDirsInv.pending_has_file _ _ Hp) o (w_new w) Ea). exact Hp.
Qed.

Lemma new_start_subbuild_N : forall t k, pres (NPO t) (new_start_subbuild k).
Proof.
  intros t k. unfold new_start_subbuild. pres_auto. apply pres_modify. intro w. cbn.
  unfold nrel, pending. cbn [w_new set_new c_built c_files cache_with]. apply nrel_refl.
Qed.
#[local] Hint Resolve new_start_building_file_N new_abort_building_file_N new_use_cached_operation_N
  new_start_subbuild_N : pres.

Lemma bf_setup_N : forall p c f sa skw, pres (NPO (Some p)) (bf_setup p c f sa skw).
Proof. intros p c f sa skw. unfold bf_setup, bf_reuse, bf_claim. cbv zeta. pres_auto. Qed.

Lemma sb_setup_N : forall f sa skw, pres (NPO None) (sb_setup f sa skw).
Proof. intros f sa skw. unfold sb_setup. cbv zeta. pres_auto. Qed.

(* ================================================================== *)
(* 3. The invariant                                                    *)
(* ================================================================== *)

(* the comparison result of the record [o] is that of the node [g] *)
Definition CmpOK (o : op) (g : fnode) : Prop :=
  match o with
  | OBuildFile _ c _ _ _ _ _ cmpres _ _ => cmpres = cmp_of c g
  | _ => False
  end.

(* every built path whose record is not marked raised is a regular file whose node the
   record describes *)
Definition XW (w : world) : Prop :=
  forall p o, cache_get_file (w_new w) p = Some o -> In p (c_built (w_new w)) -> op_raised o = false ->
    exists g, lookup (w_fs w) p = Some (NFile g) /\ CmpOK o g.

Lemma XW_ext : forall w w', w_fs w' = w_fs w -> w_new w' = w_new w -> XW w -> XW w'.
Proof. intros w w' E1 E2 H. unfold XW in *. rewrite E1, E2. exact H. Qed.

Section FileW.

Variable fs0 : fsT.
Variable old : cache.
Variable cf : path.
Variable P : path -> Prop.
Variable X : list path.
Hypothesis HypA : forall a t, Tgt old cf P t -> below a t = true -> ~ P a.
Hypothesis HS : forall a t, Tgt old cf P t -> below a t = true -> notorig fs0 a.

Notation RI := (RollbackDirsLaws.RInv fs0 old cf P).
Notation FI := (FInv fs0 old cf P X).
Notation EI := (EInv fs0 old cf P).
Notation GR := (GRel fs0 old cf P X).
Notation GP := (GPO fs0 old cf P X).
Notation TG := (Tgt old cf P).

Lemma get_of_files_get : forall c c' p, files_get (c_files c') p = files_get (c_files c) p ->
  cache_get_file c' p = cache_get_file c p.
Proof. intros c c' p E. unfold cache_get_file. rewrite E. reflexivity. Qed.

(* the workhorse: a step without user code *)
Lemma XW_keep : forall w w', RI w -> XW w -> stable w w' -> EI w' -> fback w w' ->
  (forall q o, In q (c_built (w_new w')) -> cache_get_file (w_new w') q = Some o -> In q (c_built (w_new w))) ->
  XW w'.
Proof.
  intros w w' Hr HW S (_ & _ & XB & _) Fb NB p o Ho Hb Hra.
  pose proof (NB p o Hb Ho) as Hb0.
  pose proof Hr as (_ & _ & _ & _ & _ & _ & _ & I5 & _). destruct (I5 p Hb0) as (Hh & _).
  pose proof (get_of_files_get _ _ _ (S p Hh)) as Eg. rewrite Eg in Ho.
  destruct (HW p o Ho Hb0 Hra) as (g & Hg & Hc).
  rewrite <- Eg in Ho. pose proof (XB p o Ho Hb) as Y. rewrite Hra in Y.
  apply isfile_lookup in Y. destruct Y as [g' Hg'].
  pose proof (Fb _ _ Hg') as Z. exists g'. split; [exact Hg'|]. congruence.
Qed.

(* ---- everything before the function of build_file ---- *)
Lemma bf_setup_W : forall t p c f sa skw w w1 r, P p ->
  FI w -> EI w -> tcond t w -> gcond t w -> XW w ->
  bf_setup p c f sa skw w = (w1, r) -> XW w1.
Proof.
  intros t p c f sa skw w w1 r HPp Fw Ew Tw Gw HW H.
  destruct (bf_setup_G fs0 old cf P X HypA HS t p c f sa skw HPp _ _ _ H Fw Ew Tw Gw) as (F1 & _ & Ew1 & S1).
  pose proof (bf_setup_fb p c f sa skw _ _ _ H) as Fb.
  destruct (bf_setup_N p c f sa skw _ _ _ H) as [N1 N2].
  apply (XW_keep w w1 (proj1 Fw) HW S1 Ew1 Fb).
  intros q o Hb Ho. destruct (N1 q Hb) as [Y|Y]; [exact Y|]. inversion Y; subst q.
  destruct (in_dec path_eq_dec p (c_built (w_new w))) as [Hin|Hin]; [exact Hin|]. exfalso.
  pose proof (N2 p eq_refl (fun K => False_ind _ (Hin K)) Hb) as Hp.
  rewrite (get_none_of_pending _ _ Hp) in Ho. discriminate Ho.
Qed.

(* ---- the same for subbuild ---- *)
Lemma sb_setup_G : forall t f sa skw, pres (GP t) (sb_setup f sa skw).
Proof.
  intros t f sa skw. unfold sb_setup. cbv zeta.
  apply pres_bind; [apply G_view; apply new_assert_no_subbuild_view|]. intros _.
  apply (pres_bind_valG fs0 old cf P X t _ _ _ _
         (fun cached => match cached with Some co => forall x, In x (op_targets co) -> TG x | None => True end)).
  - apply G_view. apply subbuild_cache_lookup_view.
  - intros w0 w1 x ((_ & B & _) & _) E. destruct x as [co|]; [|exact I].
    apply sublookup_never_raised in E. destruct E as (E & _). rewrite B in E.
    intros y Hy. right. right. eapply subs_get_targets; eauto.
  - intros cached Hc. destruct cached as [co|].
    + apply pres_bind; [apply (apply_cached_subs_of_G fs0 old cf P X HypA HS co Hc t)|]. intros _.
      apply pres_bind.
      * intros w w' r H. unfold attempt in H.
        destruct (new_use_cached_operation (OSubbuild f sa skw (op_subs co) (op_ret co) false false) w) as [w2 r2] eqn:E.
        inversion H; subst w' r. refine (new_use_cached_operation_G fs0 old cf P X HypA t _ _ _ _ _ E).
        intros q Hq. cbn [op_targets] in Hq. apply Hc. apply subs_targets_incl. exact Hq.
      * intro r. destruct r; apply pres_ret.
    + apply pres_bind; [apply new_start_subbuild_G | intros _; apply pres_ret].
Qed.

Lemma sb_setup_W : forall t f sa skw w w1 r,
  FI w -> EI w -> tcond t w -> gcond t w -> XW w ->
  sb_setup f sa skw w = (w1, r) -> XW w1.
Proof.
  intros t f sa skw w w1 r Fw Ew Tw Gw HW H.
  destruct (sb_setup_G t f sa skw _ _ _ H Fw Ew Tw Gw) as (F1 & _ & Ew1 & S1).
  pose proof (sb_setup_fb f sa skw _ _ _ H) as Fb.
  destruct (sb_setup_N f sa skw _ _ _ H) as [N1 _].
  apply (XW_keep w w1 (proj1 Fw) HW S1 Ew1 Fb).
  intros q o Hb Ho. destruct (N1 q Hb) as [Y|Y]; [exact Y | discriminate Y].
Qed.

(* ---- a step that only touches a path in progress ---- *)
Lemma XW_pending_step : forall w w' p, pending (w_new w) p -> w_new w' = w_new w ->
  (forall q, q <> p -> lookup (w_fs w') q = lookup (w_fs w) q) -> XW w -> XW w'.
Proof.
  intros w w' p Hp En Hq HW q o Ho Hb Hra. rewrite En in Ho, Hb.
  assert (Nq : q <> p) by (intro E; subst q; rewrite (get_none_of_pending _ _ Hp) in Ho; discriminate Ho).
  rewrite (Hq q Nq). exact (HW q o Ho Hb Hra).
Qed.

(* ---- the failure path of build_file ---- *)
Lemma bf_fail_W : forall p c f sa skw subs e w w' r oo,
  w_faults w = [] -> pending (w_new w) p -> XW w ->
  bf_fail p c f sa skw subs e w = (w', (r, oo)) -> XW w'.
Proof.
  intros p c f sa skw subs e w w' r oo Hf Hp HW H. unfold bf_fail in H. cbv zeta in H.
  match type of H with (match ?Z with _ => _ end) = _ => destruct Z as [w1 x] eqn:E end.
  assert (W : w1 = w') by (destruct x; inversion H; reflexivity). subst w1. clear H.
  apply bind_inv in E. destruct E as [(wa & u & E1 & E2) | (e1 & E1 & _)].
  2:{ destruct (try_to_remove_file_full _ _ _ _ E1 Hf) as (Y & _). discriminate Y. }
  destruct (try_to_remove_file_full _ _ _ _ E1 Hf) as (_ & F1 & _ & _ & _ & G2).
  pose proof (XW_pending_step w wa p Hp F1 G2 HW) as HWa.
  apply bind_inv in E2. destruct E2 as [(wb & u' & E2 & E3) | (e1 & E2 & _)].
  - assert (HWb : XW wb /\ w_new wb = w_new wa).
    { unfold m_bd_error in E2. destruct (bd_error (w_bd wa) p) as [b|]; inversion E2; subst.
      split; [apply (XW_ext wa); [reflexivity | reflexivity | exact HWa] | reflexivity]. }
    destruct HWb as [HWb Nb].
    unfold new_finish_building_file, modify in E3. inversion E3; subst w'.
    intros q o Ho Hb Hra. cbn [w_new set_new c_built c_files cache_with w_fs] in Ho, Hb |- *.
    unfold cache_get_file in Ho. cbn [c_files cache_with] in Ho. rewrite files_get_set in Ho.
    destruct (path_eqb p q) eqn:Eq.
    + inversion Ho; subst o. cbn [op_raised] in Hra. discriminate Hra.
    + exact (HWb q o Ho Hb Hra).
  - unfold m_bd_error in E2. destruct (bd_error (w_bd wa) p); inversion E2; subst. exact HWa.
Qed.

(* ---- the end of build_file ---- *)
Lemma noneable_cmp_value : forall p c w w4 cmp, noneable_cmp p c w = (w4, inl cmp) -> cmp <> PNone ->
  file_comparison_result p c w = (w4, inl cmp).
Proof.
  intros p c w w4 cmp Hc Hne. unfold noneable_cmp in Hc. apply catch_inv in Hc.
  destruct Hc as [(a & Hc & Ha) | (w5 & e & Hc & Hh)].
  - inversion Ha; subst a. exact Hc.
  - exfalso. apply Hne.
    destruct (is_os_class XFileNotFound e || is_os_class XIsADirectory e || is_os_class XNotADirectory e);
      inversion Hh; reflexivity.
Qed.

Lemma bf_finish_W : forall p c f sa skw res subs w w' r oo,
  w_faults w = [] -> pending (w_new w) p -> HashOk w -> XW w ->
  bf_finish p c f sa skw res subs w = (w', (r, oo)) -> XW w'.
Proof.
  intros p c f sa skw res subs w w' r oo Hf Hp Hok HW H. unfold bf_finish in H.
  destruct res as [v|e]; [|eapply bf_fail_W; eassumption].
  destruct (sanitize v) as [sv|]; [|eapply bf_fail_W; eassumption].
  destruct (noneable_cmp p c w) as [w4 rc] eqn:Ec.
  pose proof (noneable_cmp_svb p c _ _ _ Ec) as (A1 & _ & _ & _ & A5 & _ & _ & _ & _ & A10 & _).
  assert (HW4 : XW w4) by (apply (XW_ext w); assumption).
  assert (Hp4 : pending (w_new w4) p) by (rewrite A5; exact Hp).
  assert (Hf4 : w_faults w4 = []) by congruence.
  destruct rc as [cmp|e]; [|eapply bf_fail_W; eassumption].
  assert (Hval : cmp <> PNone -> exists g, lookup (w_fs w4) p = Some (NFile g) /\ cmp = cmp_of c g).
  { intro Hne. pose proof (noneable_cmp_value _ _ _ _ _ Ec Hne) as Hv.
    destruct c; cbn [file_comparison_result] in Hv.
    - destruct (file_metadata_spec _ _ _ _ Hv) as [_ S].
      destruct (lookup (w_fs w) p) as [[g|]|] eqn:El; try discriminate S.
      inversion S; subst cmp. exists g. split; [rewrite A1; exact El | reflexivity].
    - destruct (file_hash_spec p w w4 _ Hok Hv) as (_ & _ & _ & S).
      destruct (lookup (w_fs w) p) as [[g|]|] eqn:El.
      + inversion S; subst cmp. exists g. split; [rewrite A1; exact El | reflexivity].
      + discriminate S.
      + destruct S as [e0 S]. discriminate S. }
  destruct cmp; try (eapply bf_fail_W; eassumption);
    (destruct (new_finish_building_file p _ w4) as [w5 u] eqn:E5; inversion H; subst;
     unfold new_finish_building_file, modify in E5; inversion E5; subst;
     match goal with |- XW (set_new (cache_with _ (files_set _ _ (Some ?o)) _ _ _) _) =>
       destruct (Hval ltac:(discriminate)) as (g & Hg & Hc);
       intros q o' Ho Hb Hra; cbn [w_new set_new c_built c_files cache_with w_fs] in Ho, Hb |- *;
       unfold cache_get_file in Ho; cbn [c_files cache_with] in Ho; rewrite files_get_set in Ho;
       destruct (path_eqb p q) eqn:Eq;
       [ apply path_eqb_eq in Eq; subst q; inversion Ho; subst o'; exists g; split; [exact Hg | exact Hc]
       | exact (HW4 q o' Ho Hb Hra) ]
     end).
Qed.

(* ---- build_file ---- *)
Lemma m_build_file_W : forall t p c f a kw (fn : path -> pyval -> pyval -> body) w w' res, P p ->
  (forall sa skw, pres (GP (Some p)) (fn p sa skw)) ->
  (forall sa skw w2 w3 r0, HInv w2 -> old_keys_ok (w_old w2) -> pending (w_new w2) p -> NoT p w2 ->
     fn p sa skw w2 = (w3, r0) -> HInv w3) ->
  (forall sa skw w2 w3 r0, FI w2 -> EI w2 -> tcond (Some p) w2 -> gcond (Some p) w2 ->
     HInv w2 -> old_keys_ok (w_old w2) -> NoT p w2 -> XW w2 -> fn p sa skw w2 = (w3, r0) -> XW w3) ->
  FI w -> EI w -> tcond t w -> gcond t w -> HInv w -> old_keys_ok (w_old w) -> XW w ->
  m_build_file p c f a kw fn w = (w', res) -> XW w'.
Proof.
  intros t p c f a kw fn w w' res HPp HfnG HfnH HfnW Fw Ew Tw Gw Hi Hk HW H.
  rewrite BuildFileLaws.m_build_file_unfold in H.
  destruct (sanitize a) as [sa|]; [|inversion H; subst; exact HW].
  destruct (sanitize kw) as [skw|]; [|inversion H; subst; exact HW].
  destruct (BuildFileLaws.bf_setup p c f sa skw w) as [w1 r1] eqn:Es.
  pose proof (bf_setup_W t p c f sa skw w w1 r1 HPp Fw Ew Tw Gw HW Es) as HW1.
  destruct r1 as [[[o|[e o]]|]|e]; try (inversion H; subst; exact HW1).
  destruct (bf_setup_None _ _ _ _ _ _ _ Es Hi) as (A & B & C & D).
  pose proof (bf_setup_O _ _ _ _ _ _ _ _ Es) as O1. unfold osame in O1.
  destruct (bf_setup_G fs0 old cf P X HypA HS t p c f sa skw HPp _ _ _ Es Fw Ew Tw Gw) as (F1 & _ & Ew1 & _).
  pose proof (RollbackDirsLaws.bf_setup_none _ _ _ _ _ _ _ Es) as Hb1.
  unfold bf_rebuild in H.
  destruct (fn p sa skw (bf_invoke_world p f sa skw w1)) as [w3 [res3 subs3]] eqn:Ef.
  assert (Ti : tcond (Some p) (bf_invoke_world p f sa skw w1)) by (intros q Y; inversion Y; subst; exact Hb1).
  assert (Gi : gcond (Some p) (bf_invoke_world p f sa skw w1)) by (intros q Y; inversion Y; subst; exact B).
  destruct (GRel_set_log fs0 old cf P X (Some p) (LInvoke f (Some p) sa skw :: w_log w1) w1 F1 Ew1 Ti Gi)
    as (Fi & _ & Ewi & _).
  change (set_log (LInvoke f (Some p) sa skw :: w_log w1) w1) with (bf_invoke_world p f sa skw w1) in Fi, Ewi.
  assert (Hii : HInv (bf_invoke_world p f sa skw w1)) by (apply HInv_set_log; exact A).
  assert (Hki : old_keys_ok (w_old (bf_invoke_world p f sa skw w1))) by (cbn [w_old bf_invoke_world set_log]; rewrite O1; exact Hk).
  assert (HWi : XW (bf_invoke_world p f sa skw w1)) by (apply (XW_ext w1); [reflexivity | reflexivity | exact HW1]).
  pose proof (HfnW sa skw _ _ _ Fi Ewi Ti Gi Hii Hki D HWi Ef) as HW3.
  pose proof (HfnH sa skw _ _ _ Hii Hki B D Ef) as Hi3.
  destruct (HfnG sa skw _ _ _ Ef Fi Ewi Ti Gi) as (F3 & _ & _ & S3).
  destruct res as [ro oo].
  apply (bf_finish_W p c f sa skw res3 subs3 w3 w' ro oo); [exact (proj1 (proj1 F3)) | | exact (proj1 Hi3) | exact HW3 | exact H].
  exact (gcond_stable _ _ _ Gi S3 _ eq_refl).
Qed.

(* ---- subbuild ---- *)
Lemma m_subbuild_W : forall t f a kw (fn : pyval -> pyval -> body) w w' res,
  (forall sa skw w2 w3 r0, FI w2 -> EI w2 -> tcond t w2 -> gcond t w2 -> HInv w2 -> old_keys_ok (w_old w2) -> XW w2 ->
     fn sa skw w2 = (w3, r0) -> XW w3) ->
  FI w -> EI w -> tcond t w -> gcond t w -> HInv w -> old_keys_ok (w_old w) -> XW w ->
  m_subbuild f a kw fn w = (w', res) -> XW w'.
Proof.
  intros t f a kw fn w w' res HfnW Fw Ew Tw Gw Hi Hk HW H.
  rewrite BuildFileLaws.m_subbuild_unfold in H.
  destruct (sanitize a) as [sa|]; [|inversion H; subst; exact HW].
  destruct (sanitize kw) as [skw|]; [|inversion H; subst; exact HW].
  destruct (sb_setup f sa skw w) as [w1 r1] eqn:Es.
  pose proof (sb_setup_W t f sa skw w w1 r1 Fw Ew Tw Gw HW Es) as HW1.
  destruct r1 as [[[o|[e o]]|]|e]; try (inversion H; subst; exact HW1).
  pose proof (sb_setup_B _ _ _ _ _ _ Es Hi) as A.
  pose proof (sb_setup_O _ _ _ _ _ _ Es) as O1. unfold osame in O1.
  destruct (sb_setup_G t f sa skw _ _ _ Es Fw Ew Tw Gw) as (F1 & L1 & Ew1 & S1).
  assert (T1 : tcond t w1) by (intros q Hq; apply L1, Tw, Hq).
  assert (G1 : gcond t w1) by (eapply gcond_stable; eauto).
  unfold sb_rebuild in H.
  destruct (fn sa skw (sb_invoke_world f sa skw w1)) as [w3 [res3 subs3]] eqn:Ef.
  destruct (GRel_set_log fs0 old cf P X t (LInvoke f None sa skw :: w_log w1) w1 F1 Ew1 T1 G1) as (Fi & Li & Ewi & Si).
  change (set_log (LInvoke f None sa skw :: w_log w1) w1) with (sb_invoke_world f sa skw w1) in Fi, Ewi, Li, Si.
  assert (Ti : tcond t (sb_invoke_world f sa skw w1)) by (intros q Hq; apply Li, T1, Hq).
  assert (Gi : gcond t (sb_invoke_world f sa skw w1)) by (eapply gcond_stable; eauto).
  assert (Hii : HInv (sb_invoke_world f sa skw w1)) by (apply HInv_set_log; exact A).
  assert (Hki : old_keys_ok (w_old (sb_invoke_world f sa skw w1))) by (cbn [w_old sb_invoke_world set_log]; rewrite O1; exact Hk).
  assert (HWi : XW (sb_invoke_world f sa skw w1)) by (apply (XW_ext w1); [reflexivity | reflexivity | exact HW1]).
  pose proof (HfnW sa skw _ _ _ Fi Ewi Ti Gi Hii Hki HWi Ef) as HW3.
  unfold sb_finish in H. cbv zeta in H.
  assert (Hfin : forall o w4 u, new_finish_subbuild (subbuild_key f sa skw) o w3 = (w4, u) -> XW w4).
  { intros o w4 u E. unfold new_finish_subbuild, modify in E. inversion E; subst.
    intros q o' Ho Hb Hra. exact (HW3 q o' Ho Hb Hra). }
  destruct res3 as [v|e].
  - destruct (sanitize v);
      match type of H with (match ?Z with _ => _ end) = _ => destruct Z as [w4 u] eqn:E4 end;
      inversion H; subst; eapply Hfin; exact E4.
  - match type of H with (match ?Z with _ => _ end) = _ => destruct Z as [w4 u] eqn:E4 end.
    inversion H; subst. eapply Hfin; exact E4.
Qed.

(* ---- every program ---- *)
Theorem run_W : forall pr, AllTargets P pr ->
  forall target subs w w' res,
    FI w -> EI w -> tcond target w -> gcond target w ->
    HInv w -> old_keys_ok (w_old w) -> TSA target w -> XW w ->
    run pr target subs w = (w', res) -> XW w'.
Proof.
  intros pr Hat.
  induction Hat as [v | e | s q k Hk IHk | c k Hk IHk | s p c f a kw fn k Hp Hfn IHfn Hk IHk
                    | s f a kw fn k Hfn IHfn Hk IHk];
    intros target subs w w' res Fw Ew Tw Gw Hi Hko Ht HW H; cbn [run] in H.
  - inversion H; subst. exact HW.
  - inversion H; subst. exact HW.
  - destruct s; [eapply IHk; eauto|].
    destruct (m_query q w) as [w1 [r1 o]] eqn:E.
    pose proof (m_query_strict q w w1 _ E) as Xq. pose proof Xq as (O & Fq & Nq & _).
    destruct (m_query_G fs0 old cf P X target q _ _ _ E Fw Ew Tw Gw) as (F1 & L1 & Ew1 & S1).
    assert (T1 : tcond target w1) by (intros x Hx; apply L1, Tw, Hx).
    assert (G1 : gcond target w1) by (eapply gcond_stable; eauto).
    set (r' := user_answer q r1 w1) in *.
    destruct (GRel_log_answer fs0 old cf P X target q r' w1 F1 Ew1 T1 G1) as (F2 & L2 & Ew2 & S2).
    eapply (IHk r' target); [exact F2 | exact Ew2 | | | | | | | exact H].
    + intros x Hx. apply L2, T1, Hx.
    + eapply gcond_stable; eauto.
    + apply HInv_log_answer. exact (hx_HInv true w w1 Xq Hi).
    + rewrite w_old_log_answer, O. exact Hko.
    + apply TSA_log_answer. exact (TSA_query target w w1 Xq Ht).
    + apply (XW_ext w1); [| |apply (XW_ext w); assumption]; unfold log_answer; destruct r' as [?|[]]; reflexivity.
  - destruct target as [t|]; [|eapply IHk; eauto].
    destruct (Ht t eq_refl) as [A B].
    destruct (write_file (w_fs w) t c None (N.succ (w_clock w)) (w_nextid w)) as [fs'|e] eqn:E.
    2:{ inversion H; subst. exact HW. }
    set (w1 := set_clock (N.succ (w_clock w)) (N.succ (w_nextid w)) (set_fs fs' w)) in *.
    assert (Erun : run (Write c (Ret PNone)) (Some t) [] w = (w1, (inl PNone, []))).
    { cbn [run]. rewrite E. reflexivity. }
    destruct (run_G fs0 old cf P X HypA HS _ (AT_Write P c _ (AT_Ret P PNone)) (Some t) [] _ _ _ Erun Fw Ew Tw Gw)
      as (F1 & L1 & Ew1 & S1).
    eapply (IHk (Some t) _ w1); [exact F1 | exact Ew1 | | | | exact Hko | | | exact H].
    + intros x Hx. apply L1, Tw, Hx.
    + eapply gcond_stable; eauto.
    + eapply write_keeps_HInv; eauto.
      intros h Xh. rewrite (HashMemoInv.pending_has_file _ _ A) in Xh. exfalso. exact (B h Xh).
    + intros t' Et'. inversion Et'; subst t'. split; [exact A | exact B].
    + apply (XW_pending_step w w1 t A); [reflexivity | | exact HW].
      intros x Hx. exact (proj2 (write_file_frame _ _ _ _ _ _ _ E) x Hx).
  - destruct s; [eapply IHk; eauto|].
    match type of H with (let '(_, _) := ?Z in _) = _ => destruct Z as [w1 [r1 o]] eqn:E end.
    assert (O : w_old w1 = w_old w).
    { refine (m_build_file_O p c f a kw _ _ w w1 _ E). intros sa skw. apply run_O. }
    pose proof (fun sa skw => run_G fs0 old cf P X HypA HS _ (Hfn p sa skw) (Some p) []) as HfnG.
    assert (HfnH : forall sa skw w2 w3 r0, HInv w2 -> old_keys_ok (w_old w2) -> pending (w_new w2) p -> NoT p w2 ->
              run (fn p sa skw) (Some p) [] w2 = (w3, r0) -> HInv w3).
    { intros sa skw w2 w3 r0 Hi2 Hk2 P2 N2 R2.
      refine (run_HInv (fn p sa skw) (Some p) [] w2 w3 r0 Hi2 Hk2 _ R2).
      intros t Et. inversion Et; subst t. split; assumption. }
    destruct (m_build_file_G fs0 old cf P X HypA HS p c f a kw _ Hp HfnG target _ _ _ E Fw Ew Tw Gw) as (F1 & L1 & Ew1 & S1).
    eapply (IHk r1 target _ w1); [exact F1 | exact Ew1 | | | | | | | exact H].
    + intros x Hx. apply L1, Tw, Hx.
    + eapply gcond_stable; eauto.
    + refine (m_build_file_HInv p c f a kw _ w w1 _ _ E Hi Hko).
      intros sa skw w2 w3 r0 Hi2 Hk2 P2 N2 R2. cbv beta in R2. exact (HfnH sa skw w2 w3 r0 Hi2 Hk2 P2 N2 R2).
    + rewrite O. exact Hko.
    + apply (TSA_call target w w1 Hko); [|exact Ht]. intros t Et.
      refine (m_build_file_P t p c f a kw _ _ _ w w1 _ E).
      * intros sa skw Hne. cbv beta. apply run_P. intro Xe. inversion Xe. contradiction.
      * intros sa skw. apply run_O.
    + apply (m_build_file_W target p c f a kw (fun p' sa skw w0 => run (fn p' sa skw) (Some p') [] w0) w w1 (r1, o) Hp
               HfnG HfnH); [|exact Fw|exact Ew|exact Tw|exact Gw|exact Hi|exact Hko|exact HW|exact E].
      intros sa skw w2 w3 r0 F2 E2 T2 G2 Hi2 Hk2 N2 HW2 R2.
      eapply (IHfn p sa skw (Some p) []); [exact F2|exact E2|exact T2|exact G2|exact Hi2|exact Hk2| |exact HW2|exact R2].
      intros t Et. inversion Et; subst t. split; [exact (G2 p eq_refl) | exact N2].
  - destruct s; [eapply IHk; eauto|].
    match type of H with (let '(_, _) := ?Z in _) = _ => destruct Z as [w1 [r1 o]] eqn:E end.
    assert (O : w_old w1 = w_old w).
    { refine (m_subbuild_O f a kw _ _ w w1 _ E). intros sa skw. apply run_O. }
    assert (HfnG : forall sa skw, pres (GP target) (fun w0 => run (fn sa skw) None [] w0)).
    { intros sa skw. apply pres_None_G. exact (run_G fs0 old cf P X HypA HS _ (Hfn sa skw) None []). }
    destruct (m_subbuild_G fs0 old cf P X HypA HS f a kw _ target HfnG _ _ _ E Fw Ew Tw Gw) as (F1 & L1 & Ew1 & S1).
    eapply (IHk r1 target _ w1); [exact F1 | exact Ew1 | | | | | | | exact H].
    + intros x Hx. apply L1, Tw, Hx.
    + eapply gcond_stable; eauto.
    + refine (m_subbuild_HInv f a kw _ w w1 _ _ E Hi Hko).
      intros sa skw w2 w3 r0 Hi2 Hk2 R2. cbv beta in R2.
      refine (run_HInv (fn sa skw) None [] w2 w3 r0 Hi2 Hk2 _ R2). intros t Et. discriminate Et.
    + rewrite O. exact Hko.
    + apply (TSA_call target w w1 Hko); [|exact Ht]. intros t Et.
      refine (m_subbuild_P t f a kw _ _ w w1 _ E).
      intros sa skw. cbv beta. apply run_P. discriminate.
    + apply (m_subbuild_W target f a kw (fun sa skw w0 => run (fn sa skw) None [] w0) w w1 (r1, o));
        [|exact Fw|exact Ew|exact Tw|exact Gw|exact Hi|exact Hko|exact HW|exact E].
      intros sa skw w2 w3 r0 F2 E2 _ _ Hi2 Hk2 HW2 R2.
      eapply (IHfn sa skw None []); [exact F2|exact E2| | |exact Hi2|exact Hk2| |exact HW2|exact R2];
        intros t Et; discriminate Et.
Qed.

End FileW.

Print Assumptions run_W.
