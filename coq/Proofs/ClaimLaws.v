(* Proofs/ClaimLaws.v — the claim of a key is an atomic check-and-insert
   (Cache.start_building_file / start_subbuild under one lock: Conc.segments_justified),
   so any interleaving of threads claiming is a sequence of claims: exactly the
   first claim of a key succeeds. *)
From Coq Require Import List Bool Arith Lia.
Import ListNotations.

Section Claims.
  Variable key : Type.
  Variable key_eqb : key -> key -> bool.
  Hypothesis key_eqb_spec : forall a b, key_eqb a b = true <-> a = b.

  Definition claimed (s : list key) (k : key) : bool := existsb (key_eqb k) s.
  (* with lock: assert not present; insert *)
  Definition claim (s : list key) (k : key) : list key * bool :=
    if claimed s k then (s, false) else (k :: s, true).

  (* a schedule is the order in which the threads' claims reach the lock *)
  Fixpoint run_claims (s : list key) (ks : list key) : list key * list bool :=
    match ks with
    | [] => (s, [])
    | k :: r => let '(s1, ok) := claim s k in let '(s2, oks) := run_claims s1 r in (s2, ok :: oks)
    end.

  Lemma claimed_cons : forall s k k', claimed (k' :: s) k = key_eqb k k' || claimed s k.
  Proof. reflexivity. Qed.

  Lemma claimed_refl : forall s k, claimed (k :: s) k = true.
  Proof. intros. rewrite claimed_cons. assert (key_eqb k k = true) by (apply key_eqb_spec; reflexivity). rewrite H. reflexivity. Qed.

  Lemma run_claims_mono : forall ks s k, claimed s k = true -> claimed (fst (run_claims s ks)) k = true.
  Proof.
    induction ks as [|k' r IH]; intros s k H; simpl; [assumption|].
    unfold claim. destruct (claimed s k') eqn:E.
    - destruct (run_claims s r) as [s2 oks] eqn:R. simpl. specialize (IH s k H). rewrite R in IH. exact IH.
    - destruct (run_claims (k' :: s) r) as [s2 oks] eqn:R. simpl.
      assert (H' : claimed (k' :: s) k = true) by (rewrite claimed_cons, H; apply orb_true_r).
      specialize (IH (k' :: s) k H'). rewrite R in IH. exact IH.
  Qed.

  (* once a key is claimed every later claim of it is rejected *)
  Lemma later_claims_rejected : forall ks s k, claimed s k = true ->
    Forall (fun kb => fst kb = k -> snd kb = false) (combine ks (snd (run_claims s ks))).
  Proof.
    induction ks as [|k' r IH]; intros s k H; simpl; [constructor|].
    unfold claim. destruct (claimed s k') eqn:E.
    - destruct (run_claims s r) as [s2 oks] eqn:R. simpl. constructor; [intros; reflexivity|].
      specialize (IH s k H). rewrite R in IH. exact IH.
    - destruct (run_claims (k' :: s) r) as [s2 oks] eqn:R. simpl. constructor.
      + simpl. intro Hk. subst k'. congruence.
      + assert (H' : claimed (k' :: s) k = true) by (rewrite claimed_cons, H; apply orb_true_r).
        specialize (IH (k' :: s) k H'). rewrite R in IH. exact IH.
  Qed.

  (* n threads claim the same key k, not claimed before: whatever the order, exactly one passes
     (the first to reach the lock) and all others are rejected *)
  Theorem claim_exclusive : forall n s k, claimed s k = false ->
    snd (run_claims s (repeat k (S n))) = true :: repeat false n.
  Proof.
    intros n s k H. simpl. unfold claim. rewrite H.
    destruct (run_claims (k :: s) (repeat k n)) as [s2 oks] eqn:R. simpl. f_equal.
    assert (G : forall m s', claimed s' k = true -> snd (run_claims s' (repeat k m)) = repeat false m).
    { induction m as [|m IHm]; intros s' Hs'; simpl; [reflexivity|].
      unfold claim. rewrite Hs'. destruct (run_claims s' (repeat k m)) as [s3 o3] eqn:R3. simpl. f_equal.
      specialize (IHm s' Hs'). rewrite R3 in IHm. exact IHm. }
    specialize (G n (k :: s) (claimed_refl s k)). rewrite R in G. exact G.
  Qed.

  (* claims of other keys in between do not matter *)
  Theorem claim_at_most_once : forall ks s k,
    List.length (filter (fun kb => key_eqb (fst kb) k && snd kb) (combine ks (snd (run_claims s ks)))) <= 1.
  Proof.
    induction ks as [|k' r IH]; intros s k; simpl; [lia|].
    unfold claim. destruct (claimed s k') eqn:E.
    - destruct (run_claims s r) as [s2 oks] eqn:R. simpl. rewrite andb_false_r.
      specialize (IH s k). rewrite R in IH. exact IH.
    - destruct (run_claims (k' :: s) r) as [s2 oks] eqn:R. simpl. rewrite andb_true_r.
      destruct (key_eqb k' k) eqn:Ek.
      + apply key_eqb_spec in Ek. subst k'. simpl.
        pose proof (later_claims_rejected r (k :: s) k (claimed_refl s k)) as L. rewrite R in L. simpl in L.
        assert (Z : filter (fun kb => key_eqb (fst kb) k && snd kb) (combine r oks) = []).
        { clear -L key_eqb_spec. induction (combine r oks) as [|[a b] t IHt]; [reflexivity|].
          inversion L; subst. simpl. destruct (key_eqb a k) eqn:Ea.
          - apply key_eqb_spec in Ea. simpl in H1. rewrite (H1 Ea). simpl. apply IHt. assumption.
          - simpl. apply IHt. assumption. }
        rewrite Z. simpl. lia.
      + specialize (IH (k' :: s) k). rewrite R in IH. exact IH.
  Qed.
End Claims.
