(* Proofs/ViewXOld.v — C04, reachability: the previous cache and the cache file path are
   never changed by a build (instances of Proofs/FrameLaws.v with every path managed). *)
From Coq Require Import List String Ascii NArith ZArith Bool Arith Lia.
From FB.Base Require Import PyVal Fs.
From FB.Spec Require Import Prog.
From FB.Model Require Import Types Monad CreatedFiles BuildDirs SimpleOps Builder Build Run Frame.
From FB.Proofs Require Import ReplayLaws FrameLaws.
Import ListNotations.
Open Scope list_scope.

Definition Tr : path -> Prop := fun _ => True.

Lemma Inv_Tr : forall w, Inv Tr (w_old w) (w_cachefile w) w.
Proof. intro w. unfold Inv, Tr. repeat split; auto. Qed.

Lemma pres_old : forall X (m : world -> world * X),
  (forall old cf, pres (RPO Tr old cf) m) ->
  forall w w' r, m w = (w', r) -> w_old w' = w_old w /\ w_cachefile w' = w_cachefile w.
Proof.
  intros X m Hm w w' r H. destruct (Hm (w_old w) (w_cachefile w) w w' r H (Inv_Tr w)) as [(A & B & _) _]. auto.
Qed.

Lemma AllTargets_Tr : forall pr, AllTargets Tr pr.
Proof.
  induction pr as [v | e | stale q k IH | c k IH | stale p c f a kw fn IHfn k IHk | stale f a kw fn IHfn k IHk];
    constructor; auto; exact I.
Qed.

Lemma run_pres_Tr : forall old cf pr target subs, pres (RPO Tr old cf) (run pr target subs).
Proof.
  intros old cf pr target subs. apply (run_R Tr old cf I (fun _ _ => I) Tr (fun _ _ => I) pr (AllTargets_Tr pr)).
  intros p _. exact I.
Qed.

Theorem run_old : forall pr target subs w w' r, run pr target subs w = (w', r) ->
  w_old w' = w_old w /\ w_cachefile w' = w_cachefile w.
Proof. intros pr target subs. apply pres_old. intros old cf. apply run_pres_Tr. Qed.

Theorem prepare_old : forall p w w' r, prepare_file_creation p w = (w', r) ->
  w_old w' = w_old w /\ w_cachefile w' = w_cachefile w.
Proof. intro p. apply pres_old. intros old cf. apply (prepare_file_creation_R Tr old cf I (fun _ _ => I)). Qed.

Theorem build_file_old : forall p c f a kw (fn : path -> pyval -> pyval -> prog) w w' r,
  m_build_file p c f a kw (fun p' sa skw w0 => run (fn p' sa skw) (Some p') [] w0) w = (w', r) ->
  w_old w' = w_old w /\ w_cachefile w' = w_cachefile w.
Proof.
  intros p c f a kw fn. apply pres_old. intros old cf.
  apply (m_build_file_R Tr old cf I (fun _ _ => I) Tr (fun _ _ => I)); [exact I|].
  intros sa skw. apply run_pres_Tr.
Qed.

Theorem subbuild_old : forall f a kw (fn : pyval -> pyval -> prog) w w' r,
  m_subbuild f a kw (fun sa skw w0 => run (fn sa skw) None [] w0) w = (w', r) ->
  w_old w' = w_old w /\ w_cachefile w' = w_cachefile w.
Proof.
  intros f a kw fn. apply pres_old. intros old cf.
  apply (m_subbuild_R Tr old cf (fun _ _ => I)). intros sa skw. apply run_pres_Tr.
Qed.

Theorem query_old : forall q w w' r, m_query q w = (w', r) -> w_old w' = w_old w /\ w_cachefile w' = w_cachefile w.
Proof. intro q. apply pres_old. intros old cf. apply m_query_R. Qed.

Print Assumptions run_old.
