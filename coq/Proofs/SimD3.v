(* Proofs/SimD3.v — the whole build of the mechanism model, part 3: the tree after the commit is
   the view of the world in which the root function returned, at every path except the cache
   file.  ViewClean.v relates the view at the START of a build to the cleaned tree of the
   specification; this is the statement at the END.
   Hypotheses about the world w2 in which the root function returned (all of them invariants of
   the run of the root function; the first two are supplied by Sim5 in SimD4.v):
     - BInv w2, and the directory of the cache file is not dead;
     - CfListed (only when the previous cache records directories): the cache file is still listed
       among the hidden files of BuildDirs (bd_init puts it there), or is still on disk
       (proved in SimD8 / SimD9.cf_in_place);
     - ErrDead: a directory that the previous cache records, that was on disk before the build,
       that a failing call "created" (it was dead; it is in error_created_dirs) and that no later
       call registered is dead (NOT proved: SimD9.err_dead_statement).
   Proof: Cache.write and the first loop of _commit change the tree at hidden regular files only
   (SimD2.hc_BInv), so is_dir in the second loop answers by the view of w2; an alive directory
   is not in the list handed to remove_empty_dirs (or is not dead: contradiction), a dead one is
   in it and everything below it is gone (induction from the leaves).                        *)
From Coq Require Import List String Ascii NArith ZArith Bool Arith Lia.
From FB.Base Require Import PyVal Fs.
From FB.Gen Require Import JsonUtilGen.
From FB.Spec Require Import Prog.
From FB.Model Require Import Types Monad CreatedFiles BuildDirs SimpleOps Builder Persist Build Run Frame.
From FB.Proofs Require Import FsLemmas CleanLaws JsonLaws CoreLawsChildren ViewDefs ViewLemmas ViewScan ViewQueries ViewFrame
     ViewXRoom2 ReplayLaws RollbackLaws RollbackDirsLaws RollbackDirsView RollbackDirsBase RollbackDirsInv
     CommitDirsInv CommitDirsRun CommitDirsMain CommitDirs2Y SimD1 SimD2.
Import ListNotations.
Local Open Scope list_scope.

Lemma ancestors_are_dirs : forall fs, fs_wf fs -> forall t a, below a t = true ->
  lookup fs (dirname t) = Some NDir -> lookup fs a = Some NDir.
Proof.
  intros fs Hwf. induction t as [|n d IH]; intros a Hb Hd; [destruct a; discriminate Hb|].
  cbn [dirname tl] in Hd. destruct (below_cons_inv _ _ _ Hb) as [->|Hb']; [exact Hd|].
  apply IH; [exact Hb'|]. destruct d as [|m d']; [destruct a; discriminate Hb'|]. exact (Hwf _ _ Hd).
Qed.

Section CommitView.

Variable fs0 : fsT.
Variable old : cache.
Variable cf : path.
Variable P : path -> Prop.
Variables (pr : prog) (w : world) (nm : string) (svers : pyval) (w' : world) (v : pyval) (w1 w2 : world) (x : list op).

Hypothesis Hwf0 : fs_wf fs0.
Hypothesis HE : forall d, In d (c_dirs old) -> path_ok d = true.
Hypothesis HC : Committed fs0 old cf P pr w nm svers w' v w1 w2 x.
Hypothesis HB : BInv w2.
Hypothesis Hcfpre : lookup fs0 (dirname cf) = Some NDir.
Hypothesis Hcfdir : dead w2 (dirname cf) = false.
Hypothesis Hexact : forall d, lookup (w_fs w') d = Some NDir -> lookup fs0 d = Some NDir \/ In d (c_dirs (w_new w')).
Hypothesis CfListed : c_dirs old <> [] -> mem_path cf (bd_removed_files (w_bd w2)) = true \/ isfile (w_fs w2) cf = true.
Hypothesis ErrDead : forall d, In d (c_dirs old) -> In d (bd_err_created (w_bd w2)) -> lookup fs0 d = Some NDir ->
  lookup (w_fs w2) d = Some NDir -> dead w2 d = true.

Lemma cv_old : w_old w2 = old.
Proof. destruct (cm_rinv _ _ _ _ _ _ _ _ _ _ _ _ _ HC) as (_ & Y & _). exact Y. Qed.
Lemma cv_cf : w_cachefile w2 = cf.
Proof. destruct (cm_rinv _ _ _ _ _ _ _ _ _ _ _ _ _ HC) as (_ & _ & Y & _). exact Y. Qed.

(* a hidden file other than the cache file is an output of the previous build that the new cache
   does not hold *)
Lemma cv_hid : forall q, q <> cf ->
  hid w2 q = true <-> (cache_has_file (w_new w2) q = false /\ cache_created_file old q = true).
Proof.
  intros q Nq. unfold hid. rewrite cv_old, cv_cf.
  replace (path_eqb q cf) with false by (symmetry; apply path_eqb_neq; exact Nq). cbn [orb].
  pose proof (cm_nopend _ _ _ _ _ _ _ _ _ _ _ _ _ HC q) as NP.
  unfold cache_has_file, cache_get_file in *.
  destruct (files_get (c_files (w_new w2)) q) as [[o|]|]; [| |tauto].
  - split; [discriminate|intros [Y _]; discriminate Y].
  - exfalso. apply NP. reflexivity.
Qed.

Lemma cv_cf_notdir : lookup (w_fs w2) cf <> Some NDir.
Proof.
  destruct (cm_commit _ _ _ _ _ _ _ _ _ _ _ _ _ HC) as (w4 & wa & wb & extra & u & _ & _ & _ & _ & _ & _ & _ & _ & Y & _). exact Y.
Qed.

(* ---- regular files ---- *)
Lemma cv_file_visible : forall q g, q <> cf -> lookup (w_fs w2) q = Some (NFile g) -> hid w2 q = false ->
  lookup (w_fs w') q = Some (NFile g).
Proof.
  intros q g Nq Hq Hh. apply (cm_keep _ _ _ _ _ _ _ _ _ _ _ _ _ HC q g Nq Hq).
  intro Z. apply (cv_hid q Nq) in Z. congruence.
Qed.

Lemma cv_file_hidden : forall q g, q <> cf -> lookup (w_fs w2) q = Some (NFile g) -> hid w2 q = true ->
  lookup (w_fs w') q = None.
Proof.
  intros q g Nq Hq Hh. destruct (lookup (w_fs w') q) as [y|] eqn:E; [|reflexivity]. exfalso.
  pose proof (cm_down _ _ _ _ _ _ _ _ _ _ _ _ _ HC q y Nq E) as Z. rewrite Hq in Z. inversion Z; subst y.
  apply (cv_hid q Nq) in Hh. destruct Hh as [H1 H2].
  exact (cm_gone _ _ _ _ _ _ _ _ _ _ _ _ _ HC q g Nq H1 H2 E).
Qed.

(* ---- the commit phase keeps the view of the directories ---- *)
Lemma cv_phase : exists wb extra,
  (forall d, isdir (w_fs wb) d = isdir (w_fs w2) d) /\
  extra = filter (fun d => negb (vdir w2 d)) (c_dirs old) /\
  (forall q, lookup (w_fs w') q = lookup (w_fs wb) q \/
     (In q (union_paths (bd_err_created (w_bd w2)) extra) /\ lookup (w_fs wb) q = Some NDir /\ lookup (w_fs w') q = None)) /\
  (forall d, In d (union_paths (bd_err_created (w_bd w2)) extra) -> d <> [] -> lookup (w_fs w') d = Some NDir ->
     exists n, lookup (w_fs w') (n :: d) <> None).
Proof.
  destruct (cm_commit _ _ _ _ _ _ _ _ _ _ _ _ _ HC)
    as (w4 & wa & wb & extra & u & B4 & O4 & C4 & Hf4 & Wf4 & Hh4 & L24 & (fj & Lcf) & Ncf & Ea & Hfa & Hfb & Fb1 & Idir & Eb & E5).
  destruct (remove_empty_dirs_spec _ _ _ _ E5 Hfb) as (_ & _ & _ & Rc3 & Rc4 & Rwf).
  exists wb, extra. split; [exact Idir|]. split; [|split; [exact Rc3|exact Rc4]].
  destruct (c_dirs old) as [|d0 ds0] eqn:Eold.
  { cbn [vdirs_absent] in Eb. unfold ret in Eb. inversion Eb. reflexivity. }
  rewrite <- Eold in *.
  assert (Hne : c_dirs old <> []) by (rewrite Eold; discriminate).
  assert (Hch : forall q, lookup (w_fs w4) q = lookup (w_fs w2) q \/
     (hid w2 q = true /\ isdir (w_fs w2) q = false /\ isdir (w_fs w4) q = false /\
      (isfile (w_fs w4) q = true -> isfile (w_fs w2) q = true \/ mem_path q (bd_removed_files (w_bd w2)) = true \/
                                    in_counts (w_bd w2) (dirname q) = true))).
  { intro q. destruct (path_eq_dec q cf) as [->|Nq]; [right|left; apply L24; exact Nq].
    split; [unfold hid; rewrite cv_cf; replace (path_eqb cf cf) with true by (symmetry; apply path_eqb_eq; reflexivity); reflexivity|].
    split; [unfold isdir; destruct (lookup (w_fs w2) cf) as [[g|]|]; try reflexivity; exfalso; apply Ncf; reflexivity|].
    split; [unfold isdir; rewrite Lcf; reflexivity|]. intros _. destruct (CfListed Hne) as [Z|Z]; auto. }
  pose proof (hc_BInv w2 w4 HB Wf4 B4 Hh4 Hch) as HB4.
  pose proof (hc_dead w2 w4 B4 Hh4 Hch) as D4. pose proof (hc_isdir w2 w4 Hch) as I4.
  destruct (rm_old_view _ _ _ _ Ea Hf4 HB4) as (HBa & Da & Ia).
  destruct (vdirs_absent_view (c_dirs old) wa HBa HE) as (wb' & Eb' & Gb).
  rewrite Eb in Eb'. inversion Eb' as [[Ewb Eex]].
  apply filter_ext. intro d. unfold vdir. rewrite Ia, I4, Da, D4. reflexivity.
Qed.

(* ---- directories ---- *)
Lemma cv_dir_down : forall d, lookup (w_fs w2) d = Some NDir -> lookup (w_fs w') d <> Some NDir -> lookup (w_fs w') d = None.
Proof.
  intros d Hd Hn. destruct (lookup (w_fs w') d) as [y|] eqn:E; [|reflexivity]. exfalso.
  assert (Nq : d <> cf) by (intro; subst d; exact (cv_cf_notdir Hd)).
  pose proof (cm_down _ _ _ _ _ _ _ _ _ _ _ _ _ HC d y Nq E) as Z. rewrite Hd in Z. inversion Z; subst y. apply Hn. reflexivity.
Qed.

Lemma cv_created_alive : forall d, In d (bd_created (w_bd w2)) -> dead w2 d = false.
Proof.
  intros d Hd. apply dead_counts. destruct (cm_einv _ _ _ _ _ _ _ _ _ _ _ _ _ HC) as (_ & (Z & _) & _). exact (Z d Hd).
Qed.

Lemma cv_dead_gone : forall d, lookup (w_fs w2) d = Some NDir -> dead w2 d = true -> lookup (w_fs w') d = None.
Proof.
  destruct cv_phase as (wb & extra & Idir & Eextra & Rc3 & Rc4).
  apply (depth_ind (w_fs w2) (fun d => lookup (w_fs w2) d = Some NDir -> dead w2 d = true -> lookup (w_fs w') d = None)).
  intros d IH Hd Hdead. apply (cv_dir_down d Hd). intro Hd'.
  destruct (Hexact d Hd') as [Hpre|Hnew].
  2:{ apply (cm_dirs _ _ _ _ _ _ _ _ _ _ _ _ _ HC) in Hnew. rewrite (cv_created_alive d Hnew) in Hdead. discriminate. }
  destruct (dead_true_inv _ _ Hdead) as [Htrk _].
  assert (Hold : In d (c_dirs old)).
  { unfold trk in Htrk. apply andb_true_iff in Htrk. destruct Htrk as [Htrk _]. apply orb_true_iff in Htrk.
    destruct (cm_dinv _ _ _ _ _ _ _ _ _ _ _ _ _ HC) as (_ & _ & _ & DW & _).
    assert (Z : Wp fs0 old d).
    { apply DW. destruct Htrk as [Z|Z]; apply ViewLemmas.mem_path_In in Z; [right; right; left; exact Z|right; left; exact Z]. }
    destruct Z as [Z|Z]; [exact Z|contradiction]. }
  assert (Hne : d <> []) by (intro; subst d; rewrite (dead_root _ HB) in Hdead; discriminate).
  assert (HL : In d (union_paths (bd_err_created (w_bd w2)) extra)).
  { apply In_union_paths. right. rewrite Eextra. apply filter_In. split; [exact Hold|].
    unfold vdir. rewrite Hdead. rewrite andb_false_r. reflexivity. }
  destruct (Rc4 d HL Hne Hd') as [n Hn].
  destruct (lookup (w_fs w') (n :: d)) as [y|] eqn:Ec; [|congruence].
  assert (Nc : n :: d <> cf).
  { intro Z. assert (d = dirname cf) by (rewrite <- Z; reflexivity). subst d. congruence. }
  pose proof (cm_down _ _ _ _ _ _ _ _ _ _ _ _ _ HC _ _ Nc Ec) as Ec2.
  assert (Hinv : invis w2 (n :: d) = true).
  { rewrite dead_unfold, Hd in Hdead. apply andb_true_iff in Hdead. destruct Hdead as [_ Z].
    apply (proj1 (allinv_iff w2 d) Z). }
  rewrite invis_cases, Ec2 in Hinv. destruct y as [g|].
  - rewrite (cv_file_hidden _ g Nc Ec2 Hinv) in Ec. discriminate.
  - assert (Hin : In n (children (w_fs w2) d)) by (apply children_In; unfold lexists; rewrite Ec2; reflexivity).
    rewrite (IH n Hin Ec2 Hinv) in Ec. discriminate.
Qed.

Lemma cv_alive_stays : forall d, lookup (w_fs w2) d = Some NDir -> dead w2 d = false -> lookup (w_fs w') d = Some NDir.
Proof.
  destruct cv_phase as (wb & extra & Idir & Eextra & Rc3 & Rc4).
  intros d Hd Hal.
  assert (Hb : lookup (w_fs wb) d = Some NDir).
  { apply isdir_lookup. rewrite Idir. unfold isdir. rewrite Hd. reflexivity. }
  destruct (Rc3 d) as [Z|(HL & _ & _)]; [congruence|]. exfalso.
  apply In_union_paths in HL. destruct HL as [Herr|Hex].
  - destruct (cm_einv _ _ _ _ _ _ _ _ _ _ _ _ _ HC) as (_ & (_ & Z2) & _).
    assert (Hpre : lookup fs0 d <> Some NDir).
    { intro Hpre.
      destruct (cm_dinv _ _ _ _ _ _ _ _ _ _ _ _ _ HC) as (_ & _ & _ & DW & _).
      assert (Z : Wp fs0 old d) by (apply DW; left; right; exact Herr).
      destruct Z as [Z|Z]; [|contradiction].
      rewrite (ErrDead d Z Herr Hpre Hd) in Hal. discriminate. }
    assert (HN : Nn fs0 cf w2 d).
    { split; [exact Hd|]. split; [exact Hpre|]. split; [intro Y; exact (Z2 d Y Herr)|].
      destruct (below d cf) eqn:Eb; [|reflexivity]. exfalso. apply Hpre.
      exact (ancestors_are_dirs fs0 Hwf0 cf d Eb Hcfpre). }
    rewrite (N_dead fs0 cf Hwf0 w2 (cm_yinv _ _ _ _ _ _ _ _ _ _ _ _ _ HC) d HN) in Hal. discriminate.
  - rewrite Eextra in Hex. apply filter_In in Hex. destruct Hex as [_ Z]. unfold vdir, isdir in Z. rewrite Hd, Hal in Z. discriminate Z.
Qed.

(* ---- the tree after the commit is the view at the end of the run ---- *)
Theorem commit_is_view : forall p, p <> cf -> lookup (w_fs w') p = lookup (view_fs w2) p.
Proof.
  intros p Np. rewrite lookup_view_vis. destruct p as [|n d]; [reflexivity|]. unfold visible.
  destruct (lookup (w_fs w2) (n :: d)) as [[g|]|] eqn:E.
  - destruct (hid w2 (n :: d)) eqn:Eh; cbn [negb].
    + exact (cv_file_hidden _ g Np E Eh).
    + exact (cv_file_visible _ g Np E Eh).
  - destruct (dead w2 (n :: d)) eqn:Ed; cbn [negb].
    + exact (cv_dead_gone _ E Ed).
    + exact (cv_alive_stays _ E Ed).
  - destruct (lookup (w_fs w') (n :: d)) as [y|] eqn:E'; [|reflexivity].
    pose proof (cm_down _ _ _ _ _ _ _ _ _ _ _ _ _ HC _ _ Np E') as Z. congruence.
Qed.

End CommitView.

Print Assumptions commit_is_view.
