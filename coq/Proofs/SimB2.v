(* Proofs/SimB2.v — mechanism model vs Core, the hit/miss decision, part 2: one recorded query.
   _is_simple_operation_cached against an overlay gives the verdict that Core's kreplay gives on
   a scratch tree related (trel W: equal outside W, same kind and bytes inside) to the overlay
   tree.  Side conditions: the recorded query is on a creatable path, is not get_size (latitude
   of ViewH2: the size of a directory that exists only in the overlay), compares HASH only when
   the hash memo is right; a recorded METADATA result never equals the comparison result of a
   file written in this build (older modification times).                                  *)
From Coq Require Import List String Ascii NArith ZArith Bool Arith Lia.
From FB.Base Require Import PyVal Fs.
From FB.Gen Require Import JsonUtilGen.
From FB.Spec Require Import Prog Ref Oracle Faithful.
From FB.Model Require Import Types Monad CreatedFiles BuildDirs SimpleOps Builder Persist Build Run Frame Core CoreOracle.
From FB.Proofs Require Import FsLemmas CleanLaws JsonLaws CoreLawsChildren ReplayLaws CoreLaws1
     ViewDefs ViewLemmas ViewScan ViewQueries ViewAnswers ViewPres ViewOverlay ViewOverlay2 ViewH2
     ViewK3 ViewK4.
Import ListNotations.
Open Scope list_scope.
Open Scope m_scope.

(* ------------------------------------------------------------------ recorded queries that are covered *)
Definition cmp_okb (hk : bool) (c : cmpmode) : bool := match c with METADATA => true | HASH => hk end.

Definition qry_ok (hk : bool) (q : query) : bool :=
  path_ok (spec_query_path q) &&
  match q with QGetSize _ => false | QRead _ c => cmp_okb hk c | _ => true end.

(* the entries of an overlay can be named and are shallow *)
Definition OvOk (c : cfiles) : Prop :=
  forall p, mem_path p (cf_dirs c) = true \/ mem_path p (cf_files c) = true ->
            path_ok p = true /\ List.length p < walk_fuel.

(* ------------------------------------------------------------------ the overlay tree *)
Lemma overlay_fs_good : forall w w' c, good w w' -> overlay_fs w' c = overlay_fs w c.
Proof.
  intros w w' c G. unfold overlay_fs. rewrite (same_view_view_fs _ _ (good_sv _ _ G)), (sv_fs _ _ (good_sv _ _ G)). reflexivity.
Qed.

Lemma maxlen_app : forall a b, maxlen (a ++ b) = Nat.max (maxlen a) (maxlen b).
Proof.
  induction a as [|e a IH]; intro b; cbn [app maxlen fold_right]; [reflexivity|].
  change (fold_right (fun e m => Nat.max (List.length (fst e)) m) 0 (a ++ b)) with (maxlen (a ++ b)).
  change (fold_right (fun e m => Nat.max (List.length (fst e)) m) 0 a) with (maxlen a).
  rewrite IH. lia.
Qed.

Lemma maxlen_map_le : forall (g : path -> option node) l B, (forall p, In p l -> List.length p <= B) ->
  maxlen (map (fun p => (p, g p)) l) <= B.
Proof.
  intros g l B H. induction l as [|p l IH]; cbn [map maxlen fold_right fst]; [lia|].
  change (fold_right (fun e m => Nat.max (List.length (fst e)) m) 0 (map (fun p0 => (p0, g p0)) l))
    with (maxlen (map (fun p0 => (p0, g p0)) l)).
  pose proof (H p (or_introl eq_refl)). pose proof (IH (fun q Hq => H q (or_intror Hq))). lia.
Qed.

Lemma maxlen_view : forall w, maxlen (view_fs w) = maxlen (w_fs w).
Proof.
  intro w. unfold view_fs. induction (w_fs w) as [|e l IH]; [reflexivity|].
  cbn [map maxlen fold_right fst]. unfold maxlen in IH. rewrite IH. reflexivity.
Qed.

Lemma maxlen_overlay : forall w c, OvOk c -> maxlen (w_fs w) < walk_fuel -> maxlen (overlay_fs w c) < walk_fuel.
Proof.
  intros w c H Hm. unfold overlay_fs. rewrite !maxlen_app, maxlen_view.
  assert (A: maxlen (map (fun p => (p, Some NDir)) (cf_dirs c)) <= walk_fuel - 1).
  { apply (maxlen_map_le (fun _ => Some NDir)). intros p Hp. apply mem_path_In in Hp. destruct (H p (or_introl Hp)). lia. }
  assert (B: maxlen (map (fun p => (p, lookup (w_fs w) p)) (cf_files c)) <= walk_fuel - 1).
  { apply (maxlen_map_le (fun p => lookup (w_fs w) p)). intros p Hp. apply mem_path_In in Hp. destruct (H p (or_intror Hp)). lia. }
  unfold walk_fuel in *. lia.
Qed.

(* ------------------------------------------------------------------ every covered query against an overlay *)
Theorem exec_query_overlay_all : forall hk w c q, BInv w -> CInv w c -> OvOk c -> maxlen (w_fs w) < walk_fuel ->
  (hk = true -> hash_ok w) -> qry_ok hk q = true ->
  yields (exec_query q (Some c)) w (to_res (record_answer (overlay_fs w c) q)).
Proof.
  intros hk w c q HB HC HO Hm Hh Hq. unfold qry_ok in Hq. apply andb_true_iff in Hq. destruct Hq as [Hp Hq].
  assert (Hov: forall p, mem_path p (cf_dirs c) = true \/ mem_path p (cf_files c) = true -> path_ok p = true)
    by (intros p K; apply (HO p K)).
  assert (Hsub: forall d n, In n (cf_list_dir c d) -> pok w (n :: d)).
  { intros d n Hn. left. apply Hov. destruct (ci_sub_in _ _ HC _ _ Hn) as [K|K]; auto. }
  destruct q as [p|p|p|p|p td|p|p cm]; cbn [spec_query_path] in Hp; try discriminate.
  - apply (exec_query_overlay w c (QExists p) HB HC); cbn [spec_query_path]; [left; exact Hp| |exact I]. intros d E; discriminate.
  - apply (exec_query_overlay w c (QIsFile p) HB HC); cbn [spec_query_path]; [left; exact Hp| |exact I]. intros d E; discriminate.
  - apply (exec_query_overlay w c (QIsDir p) HB HC); cbn [spec_query_path]; [left; exact Hp| |exact I]. intros d E; discriminate.
  - apply (exec_query_overlay w c (QListDir p) HB HC); cbn [spec_query_path]; [left; exact Hp| |exact I].
    intros d E n Hn. inversion E; subst d. apply Hsub. exact Hn.
  - cbn [exec_query record_answer]. apply (m_walk_overlay w c p td HB HC); [left; exact Hp|exact Hov|].
    intros _. pose proof (maxlen_overlay w c HO Hm). lia.
  - cbn [exec_query]. apply (m_read_overlay w c p cm HB HC Hp). destruct cm; [left; reflexivity|right; apply Hh; exact Hq].
Qed.

(* ------------------------------------------------------------------ answers on related trees *)
(* either the same answer, or a METADATA read of a file in W on both sides *)
Lemma record_answer_trel_cases : forall W a b q, trel W a b ->
  record_answer a q = record_answer b q \/
  exists p f g, q = QRead p METADATA /\ mem_path p W = true /\
                lookup a p = Some (NFile f) /\ lookup b p = Some (NFile g) /\
                record_answer a q = inl (cmp_of METADATA f) /\ record_answer b q = inl (cmp_of METADATA g).
Proof.
  intros W a b q H. pose proof (trel_te _ _ _ H) as TE.
  destruct q as [p|p|p|p|p td|p|p c];
    try (left; cbn [record_answer]; apply (spec_answer_raw_te a b _ TE)).
  cbn [record_answer]. pose proof (H p) as Hp. pose proof (TE p) as Tp.
  destruct (mem_path p W) eqn:Em0.
  all: destruct (lookup a p) as [[f|]|] eqn:Ea; destruct (lookup b p) as [[g|]|] eqn:Eb; cbn in Tp; try contradiction.
  all: try (left; reflexivity).
  all: try (left; unfold stat_err; rewrite (absent_err_te a b p TE); reflexivity).
  - destruct c; [right; exists p, f, g; split; [reflexivity|]; split; [exact Em0|]; split; [exact Ea|]; split; [exact Eb|]; split; reflexivity|].
    left. cbn [cmp_of]. rewrite Tp. reflexivity.
  - left. inversion Hp. reflexivity.
Qed.

(* Core's verdict on one recorded query *)
Definition simple_verdict (fsr : fsT) (q : query) (ret_ : pyval) (ex : option errclass) : bool :=
  match record_answer fsr q, ex with
  | inl v, None => is_equal v ret_
  | inr c, Some c' => is_equal PNone ret_ && errclass_eqb c c'
  | _, _ => false
  end.

Lemma kreplay_simple_verdict : forall s q ret_ ex r,
  kreplay s (OSimple q ret_ ex) r = if simple_verdict (rp_fs r) q ret_ ex then Some r else None.
Proof.
  intros s q ret_ ex r. cbn [kreplay]. unfold simple_verdict, replay_answer.
  destruct (record_answer (rp_fs r) q) as [v|c]; destruct ex as [c'|]; reflexivity.
Qed.

(* a recorded METADATA result is not the comparison result of a file of W (on either side) *)
Definition fresh_read (W : list path) (a b : fsT) (q : query) (ret_ : pyval) : Prop :=
  forall p f g, q = QRead p METADATA -> mem_path p W = true ->
    lookup a p = Some (NFile f) -> lookup b p = Some (NFile g) ->
    is_equal (cmp_of METADATA f) ret_ = false /\ is_equal (cmp_of METADATA g) ret_ = false.

Theorem simple_corr : forall hk W w c fsr q ret_ ex,
  BInv w -> CInv w c -> OvOk c -> maxlen (w_fs w) < walk_fuel -> (hk = true -> hash_ok w) ->
  qry_ok hk q = true -> trel W (overlay_fs w c) fsr -> fresh_read W (overlay_fs w c) fsr q ret_ ->
  yields (is_simple_operation_cached q ret_ ex c) w (inl (simple_verdict fsr q ret_ ex)).
Proof.
  intros hk W w c fsr q ret_ ex HB HC HO Hm Hh Hq HT HF.
  destruct (exec_query_overlay_all hk w c q HB HC HO Hm Hh Hq) as [w' [E G]].
  exists w'. split; [|exact G]. unfold is_simple_operation_cached, bind, attempt. rewrite E.
  unfold simple_verdict.
  destruct (record_answer_trel_cases W _ _ q HT) as [Eq|(p & f & g & Eqq & Em & Ea & Eb & Ra & Rb)].
  - rewrite <- Eq. destruct (record_answer (overlay_fs w c) q) as [v|c0]; cbn [to_res].
    + destruct ex; [rewrite andb_false_r|rewrite andb_true_r]; reflexivity.
    + destruct ex; [reflexivity|rewrite andb_false_r; reflexivity].
  - rewrite Ra, Rb. cbn [to_res]. destruct (HF p f g Eqq Em Ea Eb) as [F1 F2]. rewrite F1, F2.
    destruct ex; reflexivity.
Qed.

Print Assumptions simple_corr.
