(* Proofs/SimC1.v — glue SimA/SimB, part 1: what SimB assumes of the two states, from SimA's relation.
   (a) KInv (SimB4: Core's bookkeeping of needed targets / made directories) follows from
       SimA0.Sim4pre + LiveClaimed (in the state after the setup of a target, and between nodes).
   (b) The stale-directory conditions HSD1/HSD2 of SimB do NOT follow from Sim4 (SimB9.DifferB
       .leftover_dirs).  Core reads k_staledirs only in kreplay, for nested records that RAISED;
       k_staledirs is in no component of Sim3 / KInv.  So for CALM records (SimC0.calm) the
       theorems of SimB can be applied to the state [with_sd s (sdl w)] in which k_staledirs is
       replaced by the list of the invisible directories of the mechanism world — for which
       HSD1/HSD2 hold by construction — and the results transfer back to s.               *)
From Coq Require Import List String Ascii NArith ZArith Bool Arith Lia.
From FB.Base Require Import PyVal Fs.
From FB.Gen Require Import JsonUtilGen.
From FB.Spec Require Import JsonSpec Prog Ref Oracle Faithful.
From FB.Model Require Import Types Monad CreatedFiles BuildDirs SimpleOps Builder Persist Build Run Frame Core CoreOracle.
From FB.Proofs Require Import FsLemmas JsonLaws ReplayLaws BuildFileLaws CoreLaws1 CoreLaws2 CoreLaws3 CoreLaws4
     ViewDefs ViewLemmas ViewXDefs ViewXFail ViewXSetup ViewH4 ViewH5 ViewH6 ViewR2 ViewR3 ViewK3 ViewK4 ViewK8
     SimA0 SimA1 SimA1Started SimARun SimA2Base SimB1 SimB3 SimB4 SimB7 SimC0.
Import ListNotations.
Open Scope list_scope.

Local Notation RInv2' := (RInv2 (fun _ => True)).

(* ------------------------------------------------------------------ (a) KInv *)
Lemma kinv_of_pre : forall T W w s p0,
  Sim4pre T W w s ->
  (forall t, In t T -> cache_has_file (w_new w) t = true \/ Some t = p0) ->
  KInv s p0.
Proof.
  intros T W w s p0 HP HL.
  pose proof (s4_rinv _ _ _ _ HP) as HR2. pose proof (RInv2_R' _ _ HR2) as HR. pose proof (RInv_X _ _ HR) as HX.
  assert (Hanc: forall t x, In t T -> is_ancestor x t = true -> lookup (k_fs s) x = Some NDir).
  { intros t x Ht Ha. apply is_ancestor_psuffix in Ha.
    assert (Hne: t <> []) by (destruct Ha as [n [l E]]; subst; discriminate).
    apply (suffix_dirname_psuffix x t Hne) in Ha.
    apply (wf_suffix_dir _ _ _ (s4_kwf _ _ _ _ HP) (s4_kneed _ _ _ _ HP t Ht) Ha). }
  constructor.
  - intros x Hx. apply ViewLemmas.mem_path_In in Hx. rewrite (s4_made _ _ _ _ HP x) in Hx.
    destruct (s_created _ (x_sinv _ _ HX) x Hx) as [Hc _].
    destruct (reserved_has_live T w x HX Hc) as (t & Ht & Hps).
    apply is_ancestor_psuffix in Hps. split; [apply (Hanc t x Ht Hps)|].
    apply existsb_exists. exists t. split; [|exact Hps].
    apply ViewLemmas.mem_path_In. apply (s4_need _ _ _ _ HP t). exact Ht.
  - intros t x Ht Ha. apply (Hanc t x); [|exact Ha].
    apply (s4_need _ _ _ _ HP t). apply ViewLemmas.mem_path_In. exact Ht.
  - intros t Ht. assert (HinT: In t T) by (apply (s4_need _ _ _ _ HP t); apply ViewLemmas.mem_path_In; exact Ht).
    destruct (HL t HinT) as [K|K]; [left; rewrite (s3_claimsF _ _ _ (s4_sim _ _ _ _ HP)); exact K|right; exact K].
Qed.

Lemma kinv_of_setup : forall T W p w s0, SimSetup T W p w s0 -> KInv s0 (Some p).
Proof.
  intros T W p w s0 (HP & HL & _ & _). apply (kinv_of_pre (p :: T) W w s0 (Some p) HP).
  intros t [<-|Ht]; [right; reflexivity|left; apply HL; exact Ht].
Qed.

Lemma kinv_of_sim4c : forall T W w s, Sim4c T W w s -> KInv s None.
Proof.
  intros T W w s [HP HL]. apply (kinv_of_pre T W w s None HP). intros t Ht. left. apply HL. exact Ht.
Qed.

(* ------------------------------------------------------------------ (b) the stale directories *)
Definition with_sd (s : kstate) (sd : list path) : kstate :=
  {| k_fs := k_fs s; k_stale := k_stale s; k_staledirs := sd; k_claimedF := k_claimedF s; k_claimedS := k_claimedS s;
     k_need := k_need s; k_made := k_made s; k_clock := k_clock s; k_nextid := k_nextid s; k_log := k_log s;
     k_cachefile := k_cachefile s; k_old := k_old s; k_vers := k_vers s; k_newF := k_newF s; k_newS := k_newS s |}.

(* the directories on disk that are not visible *)
Definition sdl (w : world) : list path :=
  filter (fun p => isdir (w_fs w) p && negb (visible w p)) (map fst (w_fs w)).

Lemma raw_lookup_in : forall fs p n, raw_lookup fs p = Some n -> In p (map fst fs).
Proof.
  induction fs as [|[q x] fs IH]; intros p n H; cbn [raw_lookup] in H; [discriminate|]. cbn [map fst].
  destruct (path_eqb q p) eqn:E; [left; apply path_eqb_eq; exact E|right; apply (IH p n H)].
Qed.

Lemma sdl_HSD1 : forall w p, BInv w -> isdir (w_fs w) p = true -> visible w p = false -> mem_path p (sdl w) = true.
Proof.
  intros w p HB Hd Hv. apply ViewLemmas.mem_path_In. unfold sdl. apply filter_In. split; [|rewrite Hd, Hv; reflexivity].
  destruct p as [|n d].
  - exfalso. unfold visible in Hv. cbn [lookup] in Hv. rewrite (dead_root _ HB) in Hv. discriminate.
  - apply isdir_lookup in Hd. cbn [lookup] in Hd. apply (raw_lookup_in _ _ _ Hd).
Qed.

Lemma sdl_HSD2 : forall w p, mem_path p (sdl w) = true -> lexists (w_fs w) p = true.
Proof.
  intros w p H. apply ViewLemmas.mem_path_In in H. unfold sdl in H. apply filter_In in H. destruct H as [_ H].
  apply andb_true_iff in H. destruct H as [H _]. apply isdir_lookup in H. unfold lexists. rewrite H. reflexivity.
Qed.

(* nothing but kreplay (on records that raised) reads k_staledirs *)
Lemma with_sd_Sim3 : forall W w s sd, Sim3 W w s -> Sim3 W w (with_sd s sd).
Proof. intros W w s sd [S1 S2 S3 S4 S5 S6 S7 S8 S9 S10]. constructor; assumption. Qed.

Lemma with_sd_Sim3_inv : forall W w s sd, Sim3 W w (with_sd s sd) -> Sim3 W w s.
Proof. intros W w s sd [S1 S2 S3 S4 S5 S6 S7 S8 S9 S10]. constructor; assumption. Qed.

Lemma with_sd_KInv : forall s sd p0, KInv s p0 -> KInv (with_sd s sd) p0.
Proof. intros s sd p0 [K1 K2 K3]. constructor; assumption. Qed.

Lemma with_sd_self : forall s, with_sd s (k_staledirs s) = s.
Proof. intro s. destruct s; reflexivity. Qed.

Lemma kreplay_list_sd_F : forall sd s subs,
  Forall (fun o => calm o = true -> forall r, kreplay (with_sd s sd) o r = kreplay s o r) subs ->
  forallb calm subs = true ->
  forall r, kreplay_list (with_sd s sd) subs r = kreplay_list s subs r.
Proof.
  intros sd s subs H. induction H as [|x rest Hx _ IH]; intros Hc r; [reflexivity|].
  cbn [forallb] in Hc. apply andb_true_iff in Hc. destruct Hc as [C1 C2].
  rewrite !kreplay_list_cons, (Hx C1). destruct (kreplay s x r); [apply (IH C2)|reflexivity].
Qed.

Lemma kreplay_sd : forall sd s o, calm o = true -> forall r, kreplay (with_sd s sd) o r = kreplay s o r.
Proof.
  intros sd s o.
  induction o as [q rt e | p c f a k subs rt cr ra sf IH | f a k subs rt ra sf IH] using op_ind'; intros Hc r; cbn [calm] in Hc.
  - reflexivity.
  - apply andb_true_iff in Hc. destruct Hc as [Hra Hc]. apply negb_true_iff in Hra. subst ra.
    rewrite !kreplay_BF.
    change (kversion_equal (with_sd s sd) f) with (kversion_equal s f).
    change (on_disk (with_sd s sd) p c cr false) with (on_disk s p c cr false).
    change (k_cachefile (with_sd s sd)) with (k_cachefile s).
    change (k_fs (with_sd s sd)) with (k_fs s).
    change (k_stale (with_sd s sd)) with (k_stale s).
    destruct (negb (kversion_equal s f)); [reflexivity|]. destruct sf; [reflexivity|].
    destruct (on_disk s p c cr false); [|reflexivity].
    destruct (mem_path p (rp_claimedF r) || path_eqb p (k_cachefile s)); [reflexivity|].
    destruct (missing_dirs (rp_fs r) (k_cachefile s) (dirname p)) as [dirs|e]; [|reflexivity].
    destruct (mkdir_all (rp_fs r) dirs) as [fs1|e]; [|reflexivity].
    rewrite (kreplay_list_sd_F sd s subs IH Hc). reflexivity.
  - rewrite !kreplay_SB. change (kversion_equal (with_sd s sd) f) with (kversion_equal s f).
    rewrite (kreplay_list_sd_F sd s subs IH Hc). reflexivity.
Qed.

Lemma kreplay_list_sd : forall sd s subs, forallb calm subs = true ->
  forall r, kreplay_list (with_sd s sd) subs r = kreplay_list s subs r.
Proof.
  intros sd s subs Hc. apply kreplay_list_sd_F; [|exact Hc]. apply Forall_forall. intros o _ Ho. apply kreplay_sd. exact Ho.
Qed.

Lemma core_file_hit_sd : forall sd s p f sa skw,
  (forall p' c' f' a' k' subs' r' cr' sf', cache_get_file (k_old s) p = Some (OBuildFile p' c' f' a' k' subs' r' cr' false sf') ->
     forallb calm subs' = true) ->
  core_file_hit (with_sd s sd) p f sa skw = core_file_hit s p f sa skw.
Proof.
  intros sd s p f sa skw Hc. unfold core_file_hit.
  change (k_old (with_sd s sd)) with (k_old s). change (k_fs (with_sd s sd)) with (k_fs s).
  change (k_stale (with_sd s sd)) with (k_stale s). change (kversion_equal (with_sd s sd) f) with (kversion_equal s f).
  change (start_replay (with_sd s sd)) with (start_replay s).
  destruct (cache_get_file (k_old s) p) as [[| p' c' fname' a' k' subs' ret' cmpres' raised' sf' |]|] eqn:E; try reflexivity.
  destruct raised'; [reflexivity|]. rewrite (kreplay_list_sd sd s subs' (Hc _ _ _ _ _ _ _ _ _ eq_refl)). reflexivity.
Qed.

Lemma core_sub_hit_sd : forall sd s key f,
  (forall f' a' k' subs' r' sf', subs_get (c_subs (k_old s)) key = Some (Some (OSubbuild f' a' k' subs' r' false sf')) ->
     forallb calm subs' = true) ->
  core_sub_hit (with_sd s sd) key f = core_sub_hit s key f.
Proof.
  intros sd s key f Hc. unfold core_sub_hit.
  change (k_old (with_sd s sd)) with (k_old s). change (kversion_equal (with_sd s sd) f) with (kversion_equal s f).
  change (start_replay (with_sd s sd)) with (start_replay s).
  destruct (subs_get (c_subs (k_old s)) key) as [[[| |f' a' k' subs' ret' raised' sf']|]|] eqn:E; try reflexivity.
  destruct raised'; [reflexivity|]. rewrite (kreplay_list_sd sd s subs' (Hc _ _ _ _ _ _ eq_refl)). reflexivity.
Qed.

Lemma adopt_with_sd : forall s sd r o, adopt (with_sd s sd) r o = with_sd (adopt s r o) sd.
Proof. reflexivity. Qed.

Lemma core_file_adopt_with_sd : forall s sd p c f sa skw g subs' ret' r,
  fst (core_file_adopt (with_sd s sd) p c f sa skw g subs' ret' r) = with_sd (fst (core_file_adopt s p c f sa skw g subs' ret' r)) sd /\
  snd (core_file_adopt (with_sd s sd) p c f sa skw g subs' ret' r) = snd (core_file_adopt s p c f sa skw g subs' ret' r).
Proof. intros. split; reflexivity. Qed.

(* RRel (SimB4) does not read k_staledirs either *)
Lemma with_sd_RRel : forall W w s sd St Tl cf r M, RRel W w (with_sd s sd) St Tl cf r M -> RRel W w s St Tl cf r M.
Proof. intros W w s sd St Tl cf r M [R1 R2 R3 R4 R5 R6 R7 R8 R9 R10 R11 R12 R13 R14 R15 R16]. constructor; assumption. Qed.

Print Assumptions kinv_of_setup.
Print Assumptions kreplay_list_sd.
