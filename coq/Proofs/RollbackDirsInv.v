(* Proofs/RollbackDirsInv.v — the directory invariant of a build (second half of C02).

   [fs0] is the tree when the build starts, [old] the previous cache, [X] the
   directories made for the cache file (never registered with BuildDirs) plus, while
   _make_dirs runs, the directories it has just made.  [DInv X w]:
     WF  the tree is well formed;
     D2  every directory of the tree is a directory of fs0, or is registered with
         BuildDirs as created (created_dirs / error_created_dirs), or is in X;
     D3  every directory of fs0 is still there or was recorded by the previous build
         (c_dirs old: _roll_back re-creates those);
     W   whatever BuildDirs holds in created / error_created / removed / maybe_removed
         (and X) is recorded by the previous build or is no directory of fs0;
     C1  a locked directory (lock count present) is a directory of the tree and a proper
         ancestor of a target.
   [FInv X w] adds the file invariant [RInv] of RollbackDirsLaws; [FPO X t] is the
   corresponding preorder, so the footprint toolkit applies. *)
From Coq Require Import List String Ascii NArith ZArith Bool Arith Lia Sorted.
From FB.Base Require Import PyVal Fs.
From FB.Gen Require Import JsonUtilGen.
From FB.Spec Require Import Prog.
From FB.Model Require Import Types Monad CreatedFiles BuildDirs SimpleOps Builder Persist Build Run Frame.
From FB.Proofs Require Import FsLemmas ReplayLaws FrameLaws CleanLaws RollbackDirsLaws RollbackDirsView RollbackDirsBase.
Import ListNotations.
Local Open Scope list_scope.

(* ================================================================== *)
(* 0. Steps without faults                                             *)
(* ================================================================== *)

Definition rmdir_step (d : path) : M unit :=
  catch (effect "rmdir" d (fun fs => rmdir fs d)) (fun e => if is_os e then ret tt else raise e).
Definition mkdir_step (d : path) : M unit :=
  catch (effect "mkdir" d (fun fs => mkdir fs d)) (fun e => if is_os e then ret tt else raise e).

Lemma remove_empty_dirs_eq : forall ds, remove_empty_dirs ds = mapM_ rmdir_step (sort_longest_first ds).
Proof. reflexivity. Qed.
Lemma create_dirs_eq : forall ds, create_dirs ds = mapM_ mkdir_step (sort_shortest_first ds).
Proof. reflexivity. Qed.

Lemma caught_step_spec : forall what d f w w' r,
  catch (effect what d f) (fun e => if is_os e then ret tt else raise e) w = (w', r) -> w_faults w = [] ->
  r = inl tt /\ w_faults w' = [] /\ w_bd w' = w_bd w /\ w_new w' = w_new w /\ w_old w' = w_old w /\
  w_backups w' = w_backups w /\ w_cachefile w' = w_cachefile w /\
  (f (w_fs w) = inl (w_fs w') \/ (w_fs w' = w_fs w /\ exists e, f (w_fs w) = inr e)).
Proof.
  intros what d f w w' r H Hf. unfold catch in H. rewrite (effect_nofault' _ _ _ _ Hf) in H.
  destruct (f (w_fs w)) as [fs'|e] eqn:E.
  - inversion H; subst. cbn. repeat split; auto.
  - cbn [is_os] in H. inversion H; subst. cbn. repeat split; auto. right. split; [reflexivity | eauto].
Qed.

Lemma rmdir_fail_child : forall fs d e, rmdir fs d = inr e -> lookup fs d = Some NDir -> d <> [] ->
  exists n, lookup fs (n :: d) <> None.
Proof.
  intros fs d e H Hd Hne. unfold rmdir in H. destruct d as [|n d]; [contradiction|].
  rewrite Hd in H. destruct (children fs (n :: d)) as [|c cs] eqn:Ec; [discriminate H|].
  exists c. assert (Hc : In c (children fs (n :: d))) by (rewrite Ec; left; reflexivity).
  apply children_lexists in Hc. unfold lexists in Hc. intro X. rewrite X in Hc. discriminate Hc.
Qed.

(* _remove_empty_dirs on a list sorted longest first *)
Lemma red_loop : forall l, StronglySorted longer_first l -> forall w w' r,
  mapM_ rmdir_step l w = (w', r) -> w_faults w = [] ->
  r = inl tt /\ w_faults w' = [] /\ w_bd w' = w_bd w /\
  (forall q, lookup (w_fs w') q = lookup (w_fs w) q \/
             (In q l /\ lookup (w_fs w) q = Some NDir /\ lookup (w_fs w') q = None)) /\
  (forall d, In d l -> d <> [] -> lookup (w_fs w') d = Some NDir -> exists n, lookup (w_fs w') (n :: d) <> None) /\
  (fs_wf (w_fs w) -> fs_wf (w_fs w')).
Proof.
  intros l Hs. induction Hs as [|x l Hs IH Hx]; intros w w' r H Hf; cbn [mapM_] in H.
  - inversion H; subst. repeat split; auto. intros d [].
  - apply bind_inv in H. destruct H as [(w1 & u & E1 & H) | (e & E1 & _)].
    2:{ destruct (caught_step_spec _ _ _ _ _ _ E1 Hf) as (X & _). discriminate X. }
    destruct (caught_step_spec _ _ _ _ _ _ E1 Hf) as (_ & Hf1 & B1 & _ & _ & _ & _ & S1).
    destruct (IH _ _ _ H Hf1) as (R0 & R1 & R2 & R3 & R4 & R5).
    split; [exact R0|]. split; [exact R1|]. split; [congruence|].
    rewrite Forall_forall in Hx.
    split; [|split].
    + intro q. destruct S1 as [S1|(S1 & _)].
      * apply rmdir_frame in S1. destruct S1 as (G1 & _ & _ & G4 & G5).
        destruct (path_eq_dec q x) as [->|N].
        -- right. split; [left; reflexivity|]. split; [exact G1|].
           destruct (R3 x) as [Y|(_ & Y & _)]; congruence.
        -- destruct (R3 q) as [Y|(Y1 & Y2 & Y3)].
           ++ left. rewrite Y. apply G5. exact N.
           ++ right. split; [right; exact Y1|]. split; [rewrite <- (G5 q N); exact Y2 | exact Y3].
      * destruct (R3 q) as [Y|(Y1 & Y2 & Y3)].
        -- left. congruence.
        -- right. split; [right; exact Y1|]. split; [congruence | exact Y3].
    + intros d Hd Hne Hdir. destruct (in_dec path_eq_dec d l) as [Hin|Hnin]; [apply R4; assumption|].
      destruct Hd as [<-|Hd]; [|contradiction].
      assert (K1 : lookup (w_fs w1) x = Some NDir).
      { destruct (R3 x) as [Y|(Y & _)]; [congruence | contradiction]. }
      destruct S1 as [S1|(S1 & e & S2)].
      * apply rmdir_frame in S1. destruct S1 as (_ & _ & _ & G4 & _). congruence.
      * rewrite S1 in K1. destruct (rmdir_fail_child _ _ _ S2 K1 Hne) as [n Hn].
        exists n. destruct (R3 (n :: x)) as [Y|(Y & _)].
        -- rewrite Y, S1. exact Hn.
        -- exfalso. apply Hx in Y. unfold longer_first in Y. pose proof (plen_cons_lt n x). lia.
    + intro Hwf. apply R5. destruct S1 as [S1|(S1 & _)]; [eapply rmdir_wf; eauto | rewrite S1; exact Hwf].
Qed.

Lemma remove_empty_dirs_spec : forall L w w' r, remove_empty_dirs L w = (w', r) -> w_faults w = [] ->
  r = inl tt /\ w_faults w' = [] /\ w_bd w' = w_bd w /\
  (forall q, lookup (w_fs w') q = lookup (w_fs w) q \/
             (In q L /\ lookup (w_fs w) q = Some NDir /\ lookup (w_fs w') q = None)) /\
  (forall d, In d L -> d <> [] -> lookup (w_fs w') d = Some NDir -> exists n, lookup (w_fs w') (n :: d) <> None) /\
  (fs_wf (w_fs w) -> fs_wf (w_fs w')).
Proof.
  intros L w w' r H Hf. rewrite remove_empty_dirs_eq in H.
  destruct (red_loop _ (sort_longest_sorted L) _ _ _ H Hf) as (R0 & R1 & R2 & R3 & R4 & R5).
  split; [exact R0|]. split; [exact R1|]. split; [exact R2|]. split; [|split; [|exact R5]].
  - intro q. destruct (R3 q) as [Y|(Y1 & Y2)]; [left; exact Y | right; split; [|exact Y2]].
    unfold sort_longest_first in Y1. apply In_sort_by' in Y1. exact Y1.
  - intros d Hd. apply R4. unfold sort_longest_first. apply In_sort_by'. exact Hd.
Qed.

(* ================================================================== *)
(* 1. The invariant                                                    *)
(* ================================================================== *)

Section Dirs.

Variable fs0 : fsT.
Variable old : cache.
Variable cf : path.
Variable P : path -> Prop.

Hypothesis HypA : forall a t, Tgt old cf P t -> below a t = true -> ~ P a.
Hypothesis Hwf0 : fs_wf fs0.

Definition Wp (d : path) : Prop := In d (c_dirs old) \/ lookup fs0 d <> Some NDir.

Definition DInv (X : list path) (w : world) : Prop :=
  fs_wf (w_fs w) /\
  (forall d, lookup (w_fs w) d = Some NDir -> lookup fs0 d = Some NDir \/ tracked (w_bd w) d \/ In d X) /\
  (forall d, lookup fs0 d = Some NDir -> lookup (w_fs w) d = Some NDir \/ In d (c_dirs old)) /\
  (forall d, tracked (w_bd w) d \/ In d (bd_removed (w_bd w)) \/ In d (bd_maybe (w_bd w)) \/ In d X -> Wp d) /\
  (forall a, in_counts (w_bd w) a = true -> lookup (w_fs w) a = Some NDir /\ AncT old cf P a).

Definition DRel (X : list path) (w w' : world) : Prop := DInv X w -> DInv X w'.
Lemma DRel_refl : forall X w, DRel X w w.
Proof. intros X w H. exact H. Qed.
Lemma DRel_trans : forall X a b c, DRel X a b -> DRel X b c -> DRel X a c.
Proof. intros X a b c H1 H2 H. apply H2, H1, H. Qed.
Definition DPO (X : list path) : PO := {| rel := DRel X; po_refl := DRel_refl X; po_trans := DRel_trans X |}.

(* steps that keep the bookkeeping and the directories *)
Definition dkeep (w w' : world) : Prop :=
  w_bd w' = w_bd w /\ dirs_same (w_fs w) (w_fs w') /\ (fs_wf (w_fs w) -> fs_wf (w_fs w')).
Lemma dkeep_refl : forall w, dkeep w w.
Proof. intro w. split; [reflexivity|]. split; [apply dirs_same_refl | auto]. Qed.
Lemma dkeep_trans : forall a b c, dkeep a b -> dkeep b c -> dkeep a c.
Proof.
  intros a b c (A1 & A2 & A3) (B1 & B2 & B3). split; [congruence|]. split; [eapply dirs_same_trans; eauto | auto].
Qed.
Definition dkeepPO : PO := {| rel := dkeep; po_refl := dkeep_refl; po_trans := dkeep_trans |}.

Lemma dkeep_same : forall w w', w_fs w' = w_fs w -> w_bd w' = w_bd w -> dkeep w w'.
Proof. intros w w' E1 E2. split; [exact E2|]. rewrite E1. split; [apply dirs_same_refl | auto]. Qed.

Lemma dkeep_D : forall X w w', dkeepPO w w' -> DPO X w w'.
Proof.
  intros X w w' (B & S & Wf) (I0 & I1 & I2 & I3 & I4). unfold DInv. rewrite B.
  split; [auto|]. split; [|split; [|split; [exact I3|]]].
  - intros d Hd. apply I1. apply S. exact Hd.
  - intros d Hd. destruct (I2 d Hd) as [Y|Y]; [left; apply S; exact Y | right; exact Y].
  - intros a Ha. destruct (I4 a Ha) as [Y1 Y2]. split; [apply S; exact Y1 | exact Y2].
Qed.

Lemma view_D : forall X w w', viewPO w w' -> DPO X w w'.
Proof.
  intros X w w' ((F & _) & (C1 & C2 & C3 & C4)) (I0 & I1 & I2 & I3 & I4). unfold DInv, tracked, in_counts. rewrite F, C1, C2, C3.
  split; [exact I0|]. split; [exact I1|]. split; [exact I2|]. split; [|exact I4].
  intros d [Hd|[Hd|[Hd|Hd]]]; apply I3; auto.
  - destruct (C4 d (or_introl Hd)) as [Y|Y]; auto.
  - destruct (C4 d (or_intror Hd)) as [Y|Y]; auto.
Qed.

Lemma pres_view_D : forall X Y (m : world -> world * Y), pres viewPO m -> pres (DPO X) m.
Proof. intros X Y m. apply pres_weaken. apply view_D. Qed.
Lemma pres_dkeep_D : forall X Y (m : world -> world * Y), pres dkeepPO m -> pres (DPO X) m.
Proof. intros X Y m. apply pres_weaken. apply dkeep_D. Qed.

(* the list X may grow, and shrink by directories that are registered *)
Lemma DInv_X : forall X X' w, DInv X w ->
  (forall d, In d X -> In d X' \/ In d (bd_created (w_bd w))) ->
  (forall d, In d X' -> Wp d) -> DInv X' w.
Proof.
  intros X X' w (I0 & I1 & I2 & I3 & I4) H1 H2. unfold DInv.
  split; [exact I0|]. split; [|split; [exact I2|split; [|exact I4]]].
  - intros d Hd. destruct (I1 d Hd) as [Y|[Y|Y]]; auto. destruct (H1 d Y) as [Z|Z]; auto. right; left; left; exact Z.
  - intros d [Hd|[Hd|[Hd|Hd]]]; [apply I3; auto | apply I3; auto | apply I3; auto | apply H2; exact Hd].
Qed.

(* ---- leaves ---- *)
Ltac raw_dkeep f :=
  intros w w' r H; unfold f in H;
  unfold new_assert_no_file, new_assert_no_subbuild, bind, get, put, modify, ret, raise in H;
  cbv zeta in H; repeat dm H; inversion H; subst; apply dkeep_same; reflexivity.

Lemma effect_dkeep : forall what p f,
  (forall fs fs', f fs = inl fs' -> dirs_same fs fs' /\ (fs_wf fs -> fs_wf fs')) -> pres dkeepPO (effect what p f).
Proof.
  intros what p f Hf w w' r H. unfold effect in H. cbv zeta in H.
  destruct (existsb (Nat.eqb (w_effects w)) (w_faults w)).
  - inversion H; subst. apply dkeep_same; reflexivity.
  - cbn [w_fs set_effects] in H. destruct (f (w_fs w)) as [fs'|e] eqn:E; inversion H; subst.
    + destruct (Hf _ _ E) as [S Wf]. split; [reflexivity|]. cbn. split; assumption.
    + apply dkeep_same; reflexivity.
Qed.

Lemma effect_remove_dkeep : forall what p, pres dkeepPO (effect what p (fun fs => remove fs p)).
Proof.
  intros. apply effect_dkeep. intros fs fs' H. split; [eapply remove_dirs_same; eauto | eapply remove_wf; eauto].
Qed.

Lemma effect_write_dkeep : forall what p b j m i, pres dkeepPO (effect what p (fun fs => write_file fs p b j m i)).
Proof.
  intros. apply effect_dkeep. intros fs fs' H. split; [eapply write_file_dirs_same; eauto | eapply write_file_wf; eauto].
Qed.

Lemma try_to_remove_file_dkeep : forall p, pres dkeepPO (try_to_remove_file p).
Proof.
  intro p. unfold try_to_remove_file. apply pres_bind; [apply pres_get|]. intro w.
  destruct (isfile (w_fs w) p); [|apply pres_ret].
  apply pres_catch; [apply effect_remove_dkeep|]. intro e. destruct (is_os e); [apply pres_ret | apply pres_raise].
Qed.

Lemma back_up_dkeep : forall p w w' r, back_up_and_remove p w = (w', r) -> isdir (w_fs w) p = false -> dkeep w w'.
Proof.
  intros p w w' r H Hd. unfold back_up_and_remove in H.
  apply bind_inv in H. destruct H as [(w1 & u & E1 & H) | (e & E1 & _)].
  - assert (K : dkeep w w1 /\ w_fs w1 = w_fs w).
    { unfold effect in E1. cbv zeta in E1. destruct (existsb (Nat.eqb (w_effects w)) (w_faults w)); inversion E1; subst.
      split; [apply dkeep_same; reflexivity | reflexivity]. }
    destruct K as [K Kf]. eapply dkeep_trans; [exact K|]. cbv zeta in H.
    destruct (existsb (Nat.eqb (w_effects w1)) (w_faults w1)); [inversion H; subst; apply dkeep_same; reflexivity|].
    cbn [w_fs set_effects] in H.
    destruct (rename_out (w_fs w1) p) as [[fs' [f|]]|e] eqn:E.
    + inversion H; subst. split; [reflexivity|]. cbn.
      split; [eapply rename_out_file_dirs_same; eauto | eapply rename_out_file_wf; eauto].
    + apply rename_out_dir in E. unfold isdir in Hd. rewrite <- Kf, E in Hd. discriminate Hd.
    + destruct e; inversion H; subst; apply dkeep_same; reflexivity.
  - unfold effect in E1. cbv zeta in E1. destruct (existsb (Nat.eqb (w_effects w)) (w_faults w)); inversion E1; subst.
    apply dkeep_same; reflexivity.
Qed.

Lemma modify_new_dkeep : forall (g : world -> cache), pres dkeepPO (modify (fun w => set_new (g w) w)).
Proof. intro g. apply pres_modify. intro w. apply dkeep_same; reflexivity. Qed.

Lemma new_assert_no_file_dkeep : forall p, pres dkeepPO (new_assert_no_file p).
Proof. intro p. unfold new_assert_no_file. pres_auto. Qed.
Lemma new_assert_no_subbuild_dkeep : forall k, pres dkeepPO (new_assert_no_subbuild k).
Proof. intro k. unfold new_assert_no_subbuild. pres_auto. Qed.

Lemma new_start_building_file_dkeep : forall p, pres dkeepPO (new_start_building_file p).
Proof.
  intro p. unfold new_start_building_file. apply pres_bind; [apply new_assert_no_file_dkeep|]. intros _.
  apply pres_modify. intro w. apply dkeep_same; reflexivity.
Qed.
Lemma new_abort_building_file_dkeep : forall p, pres dkeepPO (new_abort_building_file p).
Proof. intro p. unfold new_abort_building_file. apply pres_modify. intro w. apply dkeep_same; reflexivity. Qed.
Lemma new_finish_building_file_dkeep : forall p o, pres dkeepPO (new_finish_building_file p o).
Proof. intros p o. unfold new_finish_building_file. apply pres_modify. intro w. apply dkeep_same; reflexivity. Qed.
Lemma new_start_subbuild_dkeep : forall k, pres dkeepPO (new_start_subbuild k).
Proof.
  intro k. unfold new_start_subbuild. apply pres_bind; [apply new_assert_no_subbuild_dkeep|]. intros _.
  apply pres_modify. intro w. apply dkeep_same; reflexivity.
Qed.
Lemma new_finish_subbuild_dkeep : forall k o, pres dkeepPO (new_finish_subbuild k o).
Proof. intros k o. unfold new_finish_subbuild. apply pres_modify. intro w. apply dkeep_same; reflexivity. Qed.
Lemma new_use_cached_operation_dkeep : forall o, pres dkeepPO (new_use_cached_operation o).
Proof.
  intros o w w' r H. unfold new_use_cached_operation, bind, get, put, raise in H.
  destruct (assert_no_repeats (w_new w) o); inversion H; subst; apply dkeep_same; reflexivity.
Qed.
Lemma set_created_dirs_dkeep : forall ccd, pres dkeepPO (set_created_dirs ccd).
Proof.
  intros ccd w w' r H. unfold set_created_dirs, bind, get, put, ret in H. cbv zeta in H.
  inversion H; subst. apply dkeep_same; reflexivity.
Qed.

Lemma dkeep_set_log : forall l w, dkeep w (set_log l w).
Proof. intros. apply dkeep_same; reflexivity. Qed.
Lemma dkeep_log_answer : forall q r w, dkeep w (log_answer q r w).
Proof.
  intros q r w. unfold log_answer.
  repeat match goal with |- context [match ?x with _ => _ end] => destruct x end;
    first [apply dkeep_refl | apply dkeep_set_log].
Qed.

Lemma write_cache_dkeep : pres dkeepPO write_cache.
Proof.
  intros w w' r H. unfold write_cache in H. unfold bind at 1, get in H.
  destruct (cache_to_json (w_new w)) as [j|]; [|inversion H; subst; apply dkeep_refl].
  cbv zeta in H. refine ((_ : pres dkeepPO _) w w' r H).
  apply pres_bind; [apply effect_write_dkeep|]. intros _.
  apply pres_bind; [|intros _; apply effect_write_dkeep].
  apply pres_modify. intro v. apply dkeep_same; reflexivity.
Qed.

(* error_building_file *)
Lemma m_bd_error_D : forall X p, pres (DPO X) (m_bd_error p).
Proof.
  intros X p w w' r H (I0 & I1 & I2 & I3 & I4). unfold m_bd_error in H.
  destruct (bd_error (w_bd w) p) as [b|] eqn:E; inversion H; subst; clear H;
    [|exact (conj I0 (conj I1 (conj I2 (conj I3 I4))))].
  destruct (bd_error_spec _ _ _ E) as (R1 & R2 & R3 & R4). unfold DInv. cbn [w_fs w_bd set_bd].
  split; [exact I0|]. split; [|split; [exact I2|split]].
  - intros d Hd. destruct (I1 d Hd) as [Y|[Y|Y]]; auto. right; left. apply R2. exact Y.
  - intros d [Hd|[Hd|[Hd|Hd]]]; apply I3.
    + left. apply R2. exact Hd.
    + right; left. congruence.
    + destruct (R3 d Hd) as [Y|Y]; [right; right; left; exact Y | left; left; exact Y].
    + right; right; right. exact Hd.
  - intros a Ha. apply I4. apply R4. exact Ha.
Qed.

(* ================================================================== *)
(* 2. The combined preorder                                            *)
(* ================================================================== *)

Definition FInv (X : list path) (w : world) : Prop := RInv fs0 old cf P w /\ DInv X w.

Definition FRel (X : list path) (t : option path) (w w' : world) : Prop :=
  FInv X w -> tcond t w -> FInv X w' /\ built_le w w'.

Lemma FRel_refl : forall X t w, FRel X t w w.
Proof. intros X t w H _. split; [exact H | apply built_le_refl]. Qed.

Lemma FRel_trans : forall X t a b c, FRel X t a b -> FRel X t b c -> FRel X t a c.
Proof.
  intros X t a b c H1 H2 Ha Ta. destruct (H1 Ha Ta) as [Hb L1].
  assert (Tb : tcond t b) by (intros p Hp; apply L1, Ta, Hp).
  destruct (H2 Hb Tb) as [Hc L2]. split; [exact Hc | eapply built_le_trans; eauto].
Qed.

Definition FPO (X : list path) (t : option path) : PO :=
  {| rel := FRel X t; po_refl := FRel_refl X t; po_trans := FRel_trans X t |}.

Lemma F_lift : forall X t Y (m : world -> world * Y),
  pres (RPOt fs0 old cf P t) m -> pres (DPO X) m -> pres (FPO X t) m.
Proof.
  intros X t Y m H1 H2 w w' r H [Hr Hd] Ht. destruct (H1 _ _ _ H Hr Ht) as [Hr' L].
  split; [split; [exact Hr' | exact (H2 _ _ _ H Hd)] | exact L].
Qed.

Lemma FRel_of : forall X t w w', RelT fs0 old cf P t w w' -> DRel X w w' -> FRel X t w w'.
Proof.
  intros X t w w' H1 H2 [Hr Hd] Ht. destruct (H1 Hr Ht) as [Hr' L]. split; [split; auto | exact L].
Qed.

Lemma FRel_None : forall X t w w', FRel X None w w' -> FRel X t w w'.
Proof. intros X t w w' H Hi _. apply H; [exact Hi | intros p Y; discriminate Y]. Qed.

Lemma pres_None_F : forall X t Y (m : world -> world * Y), pres (FPO X None) m -> pres (FPO X t) m.
Proof. intros X t Y m. apply pres_weaken. apply FRel_None. Qed.

Lemma FRel_set_log : forall X t l w, FRel X t w (set_log l w).
Proof.
  intros X t l w. apply FRel_of; [apply RelT_set_log|]. apply (dkeep_D X). apply dkeep_set_log.
Qed.

Lemma pres_bind_getF : forall X t A (k : world -> M A),
  (forall w0, FInv X w0 -> tcond t w0 -> pres (FPO X t) (k w0)) -> pres (FPO X t) (bind get k).
Proof.
  intros X t A k Hk w w' r H Hinv Ht. unfold bind, get in H. exact (Hk w Hinv Ht w w' r H Hinv Ht).
Qed.

Lemma pres_bind_valF : forall X t A B (m : M A) (f : A -> M B) (Phi : A -> Prop),
  pres (FPO X t) m ->
  (forall w w1 a, FInv X w -> m w = (w1, inl a) -> Phi a) ->
  (forall a, Phi a -> pres (FPO X t) (f a)) -> pres (FPO X t) (bind m f).
Proof.
  intros X t A B m f Phi Hm Hv Hf w w' r H. change (FRel X t w w'). apply bind_inv in H.
  destruct H as [(w1 & a & E1 & H) | (e & E1 & _)].
  - intros Hi Ht. pose proof (Hv _ _ _ Hi E1) as Ha.
    exact (FRel_trans X t _ _ _ (Hm _ _ _ E1) (Hf a Ha _ _ _ H) Hi Ht).
  - exact (Hm _ _ _ E1).
Qed.

End Dirs.
