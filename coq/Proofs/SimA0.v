(* Proofs/SimA0.v — C04, the link to Core, run level: definitions.

   The relation Sim4 between a world of the mechanism model and a state of Model/Core.v that is
   inductive along a whole run: Sim3 (ViewK3: view = Core's tree up to the bytes of the files
   written in this build, claims, records up to METADATA times, visible log, stale store), the
   run invariant RInv2 of the mechanism (ViewR2), the hash-memo invariant (HashMemoInv), and the
   correspondence of Core's bookkeeping for the failure path: k_need ~ the live targets T,
   k_made ~ bd_created (the directories reserved and created / found dead by this build).
   Side conditions on programs, the context of a run, boolean checkers, and validation of the
   new components on concrete histories.                                                    *)
From Coq Require Import List String Ascii NArith ZArith Bool Arith Lia.
From FB.Base Require Import PyVal Fs.
From FB.Gen Require Import JsonUtilGen.
From FB.Spec Require Import JsonSpec Prog Ref Oracle Faithful.
From FB.Model Require Import Types Monad CreatedFiles BuildDirs SimpleOps Builder Persist Build Run Frame Dsl Core CoreOracle.
From FB.Proofs Require Import FsLemmas JsonLaws CacheRTDefs CacheRTEx BuildFileLaws HashMemoInv HashMemoRun
     CoreLaws2 CoreLaws3
     ViewDefs ViewLemmas ViewInit ViewXDefs ViewXMake2 ViewXFail ViewXSetup ViewR2 ViewR3
     ViewK1 ViewK2 ViewK3 ViewK4 ViewK8.
Import ListNotations.
Open Scope list_scope.

(* ------------------------------------------------------------------ side conditions on programs *)
(* no output of the previous build is a proper ancestor of a target (then _make_dirs never has to
   move a previous output away to make a directory: Core would keep it in its stale store) *)
Definition TargetsApart (old : cache) (pr : prog) : Prop :=
  AllTargets (fun p => forall a, In a (cache_created_files old) -> ~ psuffix a p) pr.

(* the values handed to build_file / subbuild are well formed (floats in normal form): with these
   the equality of subbuild keys is an equivalence *)
Inductive WfArgs : prog -> Prop :=
| Wa_Ret : forall v, WfArgs (Ret v)
| Wa_Raise : forall e, WfArgs (Raise e)
| Wa_Ask : forall s q k, (forall o, WfArgs (k o)) -> WfArgs (Ask s q k)
| Wa_Write : forall c k, WfArgs k -> WfArgs (Write c k)
| Wa_BuildFile : forall s p c f a kw fn k,
    (forall p' a' k', WfArgs (fn p' a' k')) -> (forall o, WfArgs (k o)) -> WfArgs (BuildFile s p c f a kw fn k)
| Wa_Subbuild : forall s f a kw fn k,
    pv_wf a = true -> pv_wf kw = true ->
    (forall a' k', WfArgs (fn a' k')) -> (forall o, WfArgs (k o)) -> WfArgs (Subbuild s f a kw fn k).

(* ------------------------------------------------------------------ subbuild keys *)
(* a key as subbuild makes it: sanitized, well-formed arguments *)
Definition wfkey (k : pyval) : Prop :=
  exists f a kw, k = subbuild_key f a kw /\ sanitized a = true /\ sanitized kw = true /\
                 pv_wf a = true /\ pv_wf kw = true.

(* pairwise different keys (Python ==, both ways) *)
Fixpoint KeysSep (l : list pyval) : Prop :=
  match l with
  | [] => True
  | q :: r => (forall q', In q' r -> py_eq q q' = false /\ py_eq q' q = false) /\ KeysSep r
  end.

(* ------------------------------------------------------------------ the relation *)
Definition LiveClaimed (T : list path) (w : world) : Prop :=
  forall x, In x T -> cache_has_file (w_new w) x = true.

(* [T]: the live targets (ghost, ViewXDefs); [W]: the targets whose function ran in this build.
   Sim4pre also holds in the transient state inside build_file in which the target is reserved
   and not yet claimed. *)
Record Sim4pre (T W : list path) (w : world) (s : kstate) : Prop := {
  s4_sim : Sim3 W w s;
  s4_rinv : RInv2 (fun _ => True) T w;
  s4_nodup : NoDup T;
  (* Core's bookkeeping *)
  s4_need : forall x, mem_path x (k_need s) = true <-> In x T;
  s4_made : forall x, mem_path x (k_made s) = mem_path x (bd_created (w_bd w));
  (* Core's tree *)
  s4_kwf : fs_wf (k_fs s);
  s4_kneed : forall t, In t T -> lookup (k_fs s) (dirname t) = Some NDir;
  s4_cfdir : forall x, suffix x (dirname (w_cachefile w)) -> lookup (k_fs s) x = Some NDir;
  s4_madecf : forall x, In x (k_made s) -> ~ suffix x (dirname (w_cachefile w));
  (* subbuild keys *)
  s4_subs_wf : forall q v, In (q, v) (c_subs (w_new w)) -> wfkey q;
  s4_subs_sep : KeysSep (map fst (c_subs (w_new w)));
  s4_newS_wf : forall q o, In (q, o) (k_newS s) -> wfkey q
}.

(* what a cache hit has to re-establish *)
Definition Sim4c (T W : list path) (w : world) (s : kstate) : Prop :=
  Sim4pre T W w s /\ LiveClaimed T w.

Definition Wincl (W W' : list path) : Prop := forall x, mem_path x W = true -> mem_path x W' = true.

(* with the invariant of the hash memo (HashMemoInv, carried by the mechanism alone), and W among
   the targets passed to start_building_file in this build *)
Definition Sim4 (T W : list path) (w : world) (s : kstate) : Prop :=
  Sim4c T W w s /\ HInv w /\ old_keys_ok (w_old w) /\ Wincl W (c_built (w_new w)).

(* ------------------------------------------------------------------ the context of a run *)
(* [st]: the targets of the build_file functions that are running, innermost first; [tg]: the
   innermost one unless a subbuild function is running; [pend]: what it has written *)
Definition inprog (w : world) (y : path) : Prop := files_get (c_files (w_new w)) y = Some None.

Record Ctx4 (st : list path) (tg : option path) (pend : option string) (w : world) : Prop := {
  c4_prog : forall y, inprog w y <-> In y st;
  c4_tg : forall p, tg = Some p -> In p st /\ tgtP p;
  c4_pend : pend_rel tg pend w;
  c4_nodir : forall y, In y st -> isdir (w_fs w) y = false;
  c4_tsa : TSA tg w
}.

(* what a nested call leaves alone: the files of the running functions *)
Definition frame4 (st : list path) (tg : option path) (w w' : world) : Prop :=
  forall y, In y st -> tg <> Some y -> lookup (w_fs w') y = lookup (w_fs w) y.

(* ------------------------------------------------------------------ checkers *)
Definition all_paths4 (w : world) (s : kstate) : list path :=
  all_paths3 w s ++ k_need s ++ k_made s ++ bd_created (w_bd w) ++ map fst (bd_counts (w_bd w)).

Fixpoint prefixes (p : path) : list path :=
  match p with [] => [[]] | _ :: d => p :: prefixes d end.

(* the components of Sim4pre that do not mention the ghost list T: k_made ~ bd_created; Core's
   tree is a tree; the parent of a needed target is a directory; a needed target is claimed;
   the ancestors of the cache file are directories and were not made *)
Definition sim4b (L0 : nat) (w : world) (s : kstate) : bool :=
  let ps := all_paths4 w s in
  (sim3b L0 w s &&
   forallb (fun x => Bool.eqb (mem_path x (k_made s)) (mem_path x (bd_created (w_bd w)))) ps &&
   forallb (fun x => match lookup (k_fs s) x with
                     | Some _ => isdir (k_fs s) (dirname x)
                     | None => true
                     end) (map fst (k_fs s)) &&
   forallb (fun t => isdir (k_fs s) (dirname t) && cache_has_file (w_new w) t) (k_need s) &&
   (* a needed target is reserved: its parent is counted *)
   forallb (fun t => in_counts (w_bd w) (dirname t)) (k_need s) &&
   (* every reserved directory lies above a needed target *)
   forallb (fun x => existsb (is_ancestor x) (k_need s)) (map fst (bd_counts (w_bd w))) &&
   forallb (fun x => isdir (k_fs s) x && negb (mem_path x (k_made s))) (prefixes (dirname (w_cachefile w))))%bool.

Definition build_agrees4 (cf : path) (nm : string) (vers : pyval) (root : prog) (w : world) : bool :=
  match mech_root cf nm vers root w, core_root cf nm vers root w with
  | Some (w1, (w2, (r, _))), Some (r', s) =>
      (outcome_sameb r r' && sim4b (List.length (w_log w1) - 1) w2 s)%bool
  | _, _ => false
  end.

(* ------------------------------------------------------------------ one node of Core, as a function *)
Definition orec_rel (o o' : option op) : Prop :=
  match o, o' with Some x, Some y => rec_rel x y | None, None => True | _, _ => False end.

Definition kbody : Type := kstate -> kstate * (outcome * option string * list op).

Definition core_bf_node (p : path) (c : cmpmode) (fname : string) (a kw : pyval)
           (body : pyval -> pyval -> kbody) (s : kstate) : kstate * (outcome * option op) :=
  match sanitize a, sanitize kw with
  | Some sa, Some skw =>
      let sfrec := OBuildFile p c fname sa skw [] PNone PNone true true in
      match claim_check (k_claimedF s) (k_cachefile s) p with
      | Some e => (s, (inr e, Some sfrec))
      | None =>
          match setup_fs (k_fs s) (k_cachefile s) p with
          | inr e => (s, (inr e, Some sfrec))
          | inl (fs1, dirs) =>
              let s0 := core_s0 s p fs1 dirs in
              match core_hit s s0 p fname sa skw with
              | Some (f, subs', ret', r) =>
                  let o := OBuildFile p c fname sa skw subs' ret' (cmp_of c f) false false in
                  (core_put (adopt s0 r o) p f, (inl ret', Some o))
              | None =>
                  let '(s2, (res, pend2, bsubs)) := body sa skw (CoreLaws3.core_start s0 p fname sa skw) in
                  let '(s3, out, o) := core_finish s2 p c fname sa skw bsubs res pend2 in
                  (s3, (out, Some o))
              end
          end
      end
  | _, _ => (s, (inr XType, None))
  end.

Lemma core_run_BF_node : forall p c fname a kw fn k tg pend subs s,
  core_run (BuildFile false p c fname a kw fn k) tg pend subs s =
  let '(s1, (r, o)) := core_bf_node p c fname a kw (fun sa skw => core_run (fn p sa skw) (Some p) None []) s in
  core_run (k r) tg pend (Core.app_op subs o) s1.
Proof.
  intros. rewrite core_run_BuildFile. unfold core_bf_node.
  destruct (sanitize a) as [sa|]; [|reflexivity]. destruct (sanitize kw) as [skw|]; [|reflexivity].
  cbv zeta.
  destruct (claim_check (k_claimedF s) (k_cachefile s) p); [reflexivity|].
  destruct (setup_fs (k_fs s) (k_cachefile s) p) as [[fs1 dirs]|e]; [|reflexivity].
  destruct (core_hit s (core_s0 s p fs1 dirs) p fname sa skw) as [[[[f subs'] ret'] r]|]; [reflexivity|].
  destruct (core_run (fn p sa skw) (Some p) None [] (CoreLaws3.core_start (core_s0 s p fs1 dirs) p fname sa skw)) as [s2 [[res pend2] bsubs]].
  destruct (core_finish s2 p c fname sa skw bsubs res pend2) as [[s3 out] o]. reflexivity.
Qed.

Definition core_sb_node (fname : string) (a kw : pyval) (body : pyval -> pyval -> kbody) (s : kstate)
  : kstate * (outcome * option op) :=
  match sanitize a, sanitize kw with
  | Some sa, Some skw =>
      let key := subbuild_key fname sa skw in
      if existsb (py_eq key) (k_claimedS s)
      then (s, (inr (XRuntime RDupSubbuild), Some (OSubbuild fname sa skw [] PNone true true)))
      else
        match core_subhit s fname key with
        | Some (subs', ret', r) =>
            let o := OSubbuild fname sa skw subs' ret' false false in
            (adopt s r o, (inl ret', Some o))
        | None =>
            let '(s2, (res, _, bsubs)) := body sa skw (core_substart s fname sa skw) in
            let o := sub_rec fname sa skw bsubs res in
            (core_subreg s2 key o, (sub_out res, Some o))
        end
  | _, _ => (s, (inr XType, None))
  end.

Lemma core_run_SB_node : forall fname a kw fn k tg pend subs s,
  core_run (Subbuild false fname a kw fn k) tg pend subs s =
  let '(s1, (r, o)) := core_sb_node fname a kw (fun sa skw => core_run (fn sa skw) None None []) s in
  core_run (k r) tg pend (Core.app_op subs o) s1.
Proof.
  intros. rewrite core_run_Subbuild. unfold core_sb_node.
  destruct (sanitize a) as [sa|]; [|reflexivity]. destruct (sanitize kw) as [skw|]; [|reflexivity].
  cbv zeta.
  destruct (existsb (py_eq (subbuild_key fname sa skw)) (k_claimedS s)); [reflexivity|].
  destruct (core_subhit s fname (subbuild_key fname sa skw)) as [[[subs' ret'] r]|]; [reflexivity|].
  destruct (core_run (fn sa skw) None None [] (core_substart s fname sa skw)) as [s2 [[res pd] bsubs]]. reflexivity.
Qed.

(* ------------------------------------------------------------------ what a run / a node establishes *)
Definition run_post (st : list path) (tg : option path) (W : list path) (w w' : world)
           (r : outcome) (l : list op) (s' : kstate) (r' : outcome) (pend' : option string) (l' : list op) : Prop :=
  exists T' W', Sim4 T' W' w' s' /\ Ctx4 st tg pend' w' /\ frame4 st tg w w' /\
                r = r' /\ recs_rel l l' /\ Wincl W W' /\ w_old w' = w_old w.

Definition node_post (st : list path) (tg : option path) (pend : option string) (W : list path) (w w1 : world)
           (r : outcome) (o : option op) (s1 : kstate) (r' : outcome) (o' : option op) : Prop :=
  exists T' W', Sim4 T' W' w1 s1 /\ Ctx4 st tg pend w1 /\
                (forall y, In y st -> lookup (w_fs w1) y = lookup (w_fs w) y) /\
                r = r' /\ orec_rel o o' /\ Wincl W W' /\ w_old w1 = w_old w.

(* the function of a build_file / subbuild node, as the induction hypothesis gives it *)
Definition bf_body_ok (st : list path) (old : cache) (p : path) (fnp : pyval -> pyval -> prog) : Prop :=
  forall sa skw T0 W0 w0 s0 w3 res l3 s3 res' pend3 l3',
    w_old w0 = old -> Sim4 T0 W0 w0 s0 -> Ctx4 (p :: st) (Some p) None w0 ->
    run (fnp sa skw) (Some p) [] w0 = (w3, (res, l3)) ->
    core_run (fnp sa skw) (Some p) None [] s0 = (s3, (res', pend3, l3')) ->
    run_post (p :: st) (Some p) W0 w0 w3 res l3 s3 res' pend3 l3'.

Definition sb_body_ok (st : list path) (old : cache) (fnp : pyval -> pyval -> prog) : Prop :=
  forall sa skw T0 W0 w0 s0 w3 res l3 s3 res' pend3 l3',
    w_old w0 = old -> Sim4 T0 W0 w0 s0 -> Ctx4 st None None w0 ->
    run (fnp sa skw) None [] w0 = (w3, (res, l3)) ->
    core_run (fnp sa skw) None None [] s0 = (s3, (res', pend3, l3')) ->
    run_post st None W0 w0 w3 res l3 s3 res' pend3 l3'.

(* the conditions on a target *)
Definition tgt_conds (st : list path) (old : cache) (p : path) : Prop :=
  tgtP p /\ (forall t, In t st -> ~ psuffix t p) /\
  (forall a, In a (cache_created_files old) -> ~ psuffix p a) /\
  (forall a, In a (cache_created_files old) -> ~ psuffix a p).

(* ------------------------------------------------------------------ the hypotheses about cache hits *)
(* the state inside build_file after the directories were made and the target reserved *)
Definition SimSetup (T W : list path) (p : path) (w : world) (s0 : kstate) : Prop :=
  Sim4pre (p :: T) W w s0 /\ LiveClaimed T w /\ cache_has_file (w_new w) p = false /\
  isdir (w_fs w) p = false.

(* (a) the decision.  In the form of ViewK8.lookup_agree_statement (and its analogue for subbuild) ... *)
Definition sblookup_agree_statement : Prop :=
  forall T W w s key f wl cached,
    Sim3 W w s -> RInv2 (fun _ => True) T w -> cache_has_subbuild (w_new w) key = false ->
    subbuild_cache_lookup key f w = (wl, inl cached) ->
    (cached = None <-> core_subhit s f key = None).

(* ... and in the form in which the node lemmas use it: everything known at that point is offered
   as a premise (SimA2Node.v shows that the statements above imply these) *)
Definition lookup_agree_hyp_for (ok : cache -> Prop) : Prop :=
  forall st T W w s0 p f sa skw wl cached,
    ok (w_old w) ->
    SimSetup T W p w s0 -> HInv w -> old_keys_ok (w_old w) ->
    (forall y, inprog w y <-> In y st) -> tgt_conds st (w_old w) p ->
    build_file_cache_lookup p f sa skw w = (wl, inl cached) ->
    (cached = None <-> core_hit s0 s0 p f sa skw = None).

Definition sblookup_agree_hyp_for (ok : cache -> Prop) : Prop :=
  forall st T W w s f sa skw wl cached,
    ok (w_old w) ->
    Sim4 T W w s -> (forall y, inprog w y <-> In y st) ->
    sanitized sa = true -> sanitized skw = true -> pv_wf sa = true -> pv_wf skw = true ->
    cache_has_subbuild (w_new w) (subbuild_key f sa skw) = false ->
    subbuild_cache_lookup (subbuild_key f sa skw) f w = (wl, inl cached) ->
    (cached = None <-> core_subhit s f (subbuild_key f sa skw) = None).

(* (b) the replayed state corresponds: when both sides accept the record, reusing it
   (_apply_cached_suboperations, _use_cached_operation / adopt) leads to related states, and
   leaves the files of the running functions alone *)
Definition hit_agree_hyp_for (ok : cache -> Prop) : Prop :=
  forall st T W w s0 p c f sa skw wl co w1 r fnode subs' ret' rr,
    ok (w_old w) ->
    SimSetup T W p w s0 -> HInv w -> old_keys_ok (w_old w) ->
    (forall y, inprog w y <-> In y st) -> tgt_conds st (w_old w) p ->
    build_file_cache_lookup p f sa skw w = (wl, inl (Some co)) ->
    core_hit s0 s0 p f sa skw = Some (fnode, subs', ret', rr) ->
    bf_reuse p c f sa skw (Some co) wl = (w1, r) ->
    let o' := OBuildFile p c f sa skw subs' ret' (cmp_of c fnode) false false in
    exists o T', r = inl (Some (inl o)) /\ rec_rel o o' /\
      Sim4c T' W w1 (core_put (adopt s0 rr o') p fnode) /\
      (forall y, inprog w1 y <-> inprog w y) /\
      (forall y, inprog w y -> lookup (w_fs w1) y = lookup (w_fs w) y) /\ w_old w1 = w_old w.

(* the rest of the setup of subbuild once the lookup returned a record *)
Definition sb_reuse (fname : string) (sargs skw : pyval) (co : op) : M (option (op + exn * op)) :=
  bind (apply_cached_subs_of co) (fun _ =>
  let o := OSubbuild fname sargs skw (op_subs co) (op_ret co) false false in
  bind (attempt (new_use_cached_operation o)) (fun r =>
  match r with
  | inl _ => ret (Some (inl o))
  | inr e => ret (Some (inr (e, OSubbuild fname sargs skw (op_subs co) (op_ret co) true true)))
  end)).

Definition sbhit_agree_hyp_for (ok : cache -> Prop) : Prop :=
  forall st T W w s f sa skw wl co w1 r subs' ret' rr,
    ok (w_old w) ->
    Sim4 T W w s -> (forall y, inprog w y <-> In y st) ->
    sanitized sa = true -> sanitized skw = true -> pv_wf sa = true -> pv_wf skw = true ->
    cache_has_subbuild (w_new w) (subbuild_key f sa skw) = false ->
    subbuild_cache_lookup (subbuild_key f sa skw) f w = (wl, inl (Some co)) ->
    core_subhit s f (subbuild_key f sa skw) = Some (subs', ret', rr) ->
    sb_reuse f sa skw co wl = (w1, r) ->
    let o' := OSubbuild f sa skw subs' ret' false false in
    exists o T', r = inl (Some (inl o)) /\ rec_rel o o' /\
      Sim4c T' W w1 (adopt s rr o') /\
      (forall y, inprog w1 y <-> inprog w y) /\
      (forall y, inprog w y -> lookup (w_fs w1) y = lookup (w_fs w) y) /\ w_old w1 = w_old w.

(* the hypotheses for every previous cache; the parameter [ok] allows to restrict them to a class of
   previous caches (e.g. caches without records: there the four hypotheses hold, SimAMain.v) *)
Definition lookup_agree_hyp : Prop := lookup_agree_hyp_for (fun _ => True).
Definition sblookup_agree_hyp : Prop := sblookup_agree_hyp_for (fun _ => True).
Definition hit_agree_hyp : Prop := hit_agree_hyp_for (fun _ => True).
Definition sbhit_agree_hyp : Prop := sbhit_agree_hyp_for (fun _ => True).

(* ------------------------------------------------------------------ the statements of the nodes *)
Definition bf_node_statement_for (ok : cache -> Prop) : Prop :=
  forall st p c fname a kw fn T W w s tg pend w1 r o,
    ok (w_old w) ->
    tgt_conds st (w_old w) p ->
    bf_body_ok st (w_old w) p (fn p) ->
    Sim4 T W w s -> Ctx4 st tg pend w ->
    m_build_file p c fname a kw (fun p' sa skw w' => run (fn p' sa skw) (Some p') [] w') w = (w1, (r, o)) ->
    forall s1 r' o',
      core_bf_node p c fname a kw (fun sa skw => core_run (fn p sa skw) (Some p) None []) s = (s1, (r', o')) ->
      node_post st tg pend W w w1 r o s1 r' o'.

Definition sb_node_statement_for (ok : cache -> Prop) : Prop :=
  forall st fname a kw fn T W w s tg pend w1 r o,
    ok (w_old w) ->
    pv_wf a = true -> pv_wf kw = true ->
    sb_body_ok st (w_old w) fn ->
    Sim4 T W w s -> Ctx4 st tg pend w ->
    m_subbuild fname a kw (fun sa skw w' => run (fn sa skw) None [] w') w = (w1, (r, o)) ->
    forall s1 r' o',
      core_sb_node fname a kw (fun sa skw => core_run (fn sa skw) None None []) s = (s1, (r', o')) ->
      node_post st tg pend W w w1 r o s1 r' o'.

Definition bf_node_statement : Prop := bf_node_statement_for (fun _ => True).
Definition sb_node_statement : Prop := sb_node_statement_for (fun _ => True).
