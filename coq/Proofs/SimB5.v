(* Proofs/SimB5.v — mechanism model vs Core, the hit/miss decision, part 5: leaving a nested
   build_file record that RAISED.  CreatedFiles.error_building_file on the overlay (counts go
   down; a directory whose count reaches zero leaves the overlay) against Core's rp_prune on the
   scratch copy (the directories that the copy made above the target and that no other needed
   target lies below are removed, deepest first, when empty): the replay relation is kept.  *)
From Coq Require Import List String Ascii NArith ZArith Bool Arith Lia.
From FB.Base Require Import PyVal Fs.
From FB.Gen Require Import JsonUtilGen.
From FB.Spec Require Import Prog Ref Oracle Faithful.
From FB.Model Require Import Types Monad CreatedFiles BuildDirs SimpleOps Builder Persist Core.
From FB.Proofs Require Import FsLemmas CleanLaws JsonLaws CoreLawsChildren ReplayLaws CoreLaws1 CoreLaws3 CoreLaws4 CoreLaws6
     CoreRebuild1 CoreRebuild6
     ViewDefs ViewLemmas ViewScan ViewQueries ViewAnswers ViewPres ViewFrame ViewXDefs ViewXCount ViewXErr1 ViewXError
     ViewOverlay ViewOverlay2 ViewH1 ViewK3 ViewK4 SimB2 SimB3 SimB4.
Import ListNotations.
Open Scope list_scope.

(* ------------------------------------------------------------------ lists *)
Lemma notin_rm1 : forall p l, NoDup l -> ~ In p (rm1 p l).
Proof.
  intros p l H. induction H as [|x l Hx Hl IH]; cbn [rm1]; [intros []|].
  destruct (path_eqb x p) eqn:E.
  - apply path_eqb_eq in E. subst x. exact Hx.
  - intros [K|K]; [subst x; rewrite path_eqb_refl in E; discriminate|apply IH; exact K].
Qed.

Lemma NoDup_rm1 : forall p l, NoDup l -> NoDup (rm1 p l).
Proof.
  intros p l H. induction H as [|x l Hx Hl IH]; cbn [rm1]; [constructor|].
  destruct (path_eqb x p); [exact Hl|]. constructor; [|exact IH]. intro K. apply Hx. apply (rm1_in _ _ _ K).
Qed.

Lemma del_path_rm1 : forall p l, NoDup l -> del_path p l = rm1 p l.
Proof.
  intros p l H. induction H as [|x l Hx Hl IH]; cbn [del_path rm1]; [reflexivity|].
  destruct (path_eqb x p) eqn:E.
  - apply path_eqb_eq in E. subst x. apply del_path_notin. apply mem_path_false. exact Hx.
  - rewrite IH. reflexivity.
Qed.

Lemma del_path_app : forall p a b, del_path p (a ++ b) = del_path p a ++ del_path p b.
Proof.
  intros p a b. induction a as [|x a IH]; cbn [app del_path]; [reflexivity|].
  destruct (path_eqb x p); [exact IH|]. cbn [app]. rewrite IH. reflexivity.
Qed.

Lemma filter_all_id : forall (f : path -> bool) l, (forall x, In x l -> f x = true) -> filter f l = l.
Proof.
  intros f l H. induction l as [|x l IH]; cbn [filter]; [reflexivity|].
  rewrite (H x (or_introl eq_refl)), IH; [reflexivity|]. intros y Hy. apply H. right. exact Hy.
Qed.

Lemma existsb_rm1 : forall (f : path -> bool) p l, existsb f (rm1 p l) = true -> existsb f l = true.
Proof.
  intros f p l H. apply existsb_exists in H. destruct H as [t [Ht Hf]]. apply existsb_exists. exists t. split; [apply (rm1_in _ _ _ Ht)|exact Hf].
Qed.

(* ------------------------------------------------------------------ removing a closed set of directories, deepest first *)
Lemma try_rmdir_not_none : forall fs a x, lookup (try_rmdir fs a) x <> None -> lookup fs x <> None.
Proof. intros fs a x H K. apply H. apply try_rmdir_no_new. exact K. Qed.

Lemma fold_rmdir_closed : forall l fs, desc_sorted l ->
  (forall x, In x l -> x <> [] /\ (forall f, lookup fs x <> Some (NFile f)) /\
                       (forall n, lookup fs (n :: x) <> None -> In (n :: x) l)) ->
  forall x, In x l -> lookup (fold_left try_rmdir l fs) x = None.
Proof.
  induction l as [|a l IH]; intros fs Hs H x Hx; [destruct Hx|].
  cbn [fold_left]. destruct Hs as [Hs1 Hs2].
  destruct (H a (or_introl eq_refl)) as (Hne & Hnf & Hch).
  (* a has no child left *)
  assert (Hc: forall n, lookup fs (n :: a) = None).
  { intro n. destruct (lookup fs (n :: a)) as [y|] eqn:E; [|reflexivity]. exfalso.
    assert (Hin: In (n :: a) (a :: l)) by (apply Hch; congruence).
    destruct Hin as [Hin|Hin]; [exact (cons_neq n a Hin)|].
    pose proof (Hs1 _ Hin). pose proof (CoreRebuild1.plen_cons n a). lia. }
  assert (Ha1: lookup (try_rmdir fs a) a = None).
  { destruct (lookup fs a) as [[g|]|] eqn:Ea.
    - exfalso. apply (Hnf g). reflexivity.
    - apply (try_rmdir_empty fs a Hne Ea Hc).
    - rewrite (try_rmdir_absent fs a Ea). exact Ea. }
  destruct Hx as [<-|Hx]; [apply fold_try_rmdir_no_new; exact Ha1|].
  apply IH; [exact Hs2| |exact Hx].
  intros y Hy. destruct (H y (or_intror Hy)) as (Yne & Ynf & Ych). split; [exact Yne|]. split.
  - intros f K. apply try_rmdir_file in K. apply (Ynf f K).
  - intros n K. pose proof (try_rmdir_not_none _ _ _ K) as K0.
    destruct (Ych n K0) as [E|E]; [|exact E]. exfalso. apply K. rewrite <- E. exact Ha1.
Qed.

Section Err.
  Variables (W : list path) (w0 : world) (s : kstate).
  Hypothesis HS : Sim3 W w0 s.
  Hypothesis HB : BInv w0.
  Hypothesis HWcl : forall p, mem_path p W = true -> cache_has_file (w_new w0) p = true.

  Notation RRel := (RRel W w0 s).

  Theorem error_rel : forall p0 St Tl cf r M n d,
    KInv s p0 -> RRel ((n :: d) :: St) Tl cf r M -> In (n :: d) Tl ->
    mem_path (n :: d) (cf_files cf) = false -> existsb (is_ancestor (n :: d)) Tl = false ->
    ~ In (n :: d) (k_need s) ->
    exists cf' M', cf_error cf (n :: d) = Some cf' /\ cf_files cf' = cf_files cf /\
                   RRel St (rm1 (n :: d) Tl) cf' (rp_prune r (n :: d)) M'.
  Proof.
    intros p0 St Tl cf r M n d HK HR Hin Hnf Hnb Hnneed.
    set (p := n :: d) in *.
    pose proof (rr_cc _ _ _ _ _ _ _ _ HR) as HC. pose proof (cc_cinv _ _ _ HC) as HCI.
    pose proof (RRel_te W w0 s _ _ _ _ _ HR) as TE.
    pose proof (rr_nodup _ _ _ _ _ _ _ _ HR) as HND.
    assert (Hov: forall x, lookup (overlay_fs w0 cf) x = ov w0 Tl (cf_files cf) x) by (intro x; apply lookup_overlay_ov; exact HC).
    destruct (cf_error_CCInv Tl w0 cf n d HC Hin) as (cf' & Ecf & HC' & EF). fold p in Ecf, HC'.
    (* the needs after the failure *)
    assert (Eneed: del_path p (rp_need r) = rm1 p Tl ++ k_need s).
    { rewrite (rr_need _ _ _ _ _ _ _ _ HR), del_path_app, (del_path_rm1 p Tl HND).
      rewrite (del_path_notin p (k_need s)); [reflexivity|]. apply mem_path_false. exact Hnneed. }
    set (dead := filter (fun x => is_ancestor x p && negb (existsb (is_ancestor x) (del_path p (rp_need r)))) (rp_made r)).
    (* no needed target of Core's state lies below a directory that the copy made *)
    assert (HMneed: forall x, In x M -> existsb (is_ancestor x) (k_need s) = false).
    { intros x Hx. destruct (existsb (is_ancestor x) (k_need s)) eqn:E; [|reflexivity]. exfalso.
      apply existsb_exists in E. destruct E as [t [Ht Ha]].
      pose proof (ki_need _ _ HK t x Ht Ha) as K.
      pose proof (view_kfs_none W w0 s HS x (rr_m1 _ _ _ _ _ _ _ _ HR x Hx)) as K2. congruence. }
    assert (Hdead: forall x, In x dead <-> In x M /\ is_ancestor x p = true /\ existsb (is_ancestor x) (rm1 p Tl) = false).
    { intro x. unfold dead. rewrite filter_In, (rr_made _ _ _ _ _ _ _ _ HR), Eneed, existsb_app_b. split.
      - intros [Hx Hc]. apply andb_true_iff in Hc. destruct Hc as [Hc1 Hc2]. apply negb_true_iff in Hc2.
        apply orb_false_iff in Hc2. destruct Hc2 as [Hc2 Hc3].
        apply in_app_iff in Hx. destruct Hx as [Hx|Hx]; [|auto].
        exfalso. destruct (ki_made _ _ HK x Hx) as [_ K]. congruence.
      - intros (Hx & Ha & Hn). split; [apply in_app_iff; right; exact Hx|].
        rewrite Ha, Hn, (HMneed x Hx). reflexivity. }
    set (M' := filter (fun x => negb (mem_path x dead)) M).
    assert (Emade: rp_made (rp_prune r p) = k_made s ++ M').
    { cbn [rp_prune rp_made]. fold dead. rewrite (rr_made _ _ _ _ _ _ _ _ HR), filter_app. f_equal.
      apply filter_all_id. intros x Hx. apply negb_true_iff. apply mem_path_false.
      intro Hd. apply Hdead in Hd. destruct Hd as (Hm & _).
      destruct (ki_made _ _ HK x Hx) as [K _]. pose proof (view_kfs_none W w0 s HS x (rr_m1 _ _ _ _ _ _ _ _ HR x Hm)). congruence. }
    (* an ancestor of a target only above p *)
    assert (Honly: forall x, existsb (is_ancestor x) Tl = true -> existsb (is_ancestor x) (rm1 p Tl) = false -> is_ancestor x p = true).
    { intros x H1 H2. apply existsb_exists in H1. destruct H1 as [t [Ht Ha]].
      destruct (list_eq_dec string_dec t p) as [->|Hne]; [exact Ha|]. exfalso.
      assert (existsb (is_ancestor x) (rm1 p Tl) = true) by (apply existsb_exists; exists t; split; [apply rm1_other; assumption|exact Ha]). congruence. }
    (* the dead directories are removed *)
    assert (Hrem: forall x, In x dead -> lookup (rp_fs (rp_prune r p)) x = None).
    { rewrite rp_prune_fs. unfold prune_fs. fold dead. intros x Hx.
      apply fold_rmdir_closed; [apply deepest_first_sorted| |apply In_sort_by; exact Hx].
      intros y Hy. apply In_sort_by in Hy. pose proof (proj1 (Hdead y) Hy) as (Ym & Ya & Yn).
      pose proof (rr_m1 _ _ _ _ _ _ _ _ HR y Ym) as Yv.
      assert (Yanc: existsb (is_ancestor y) Tl = true) by (apply (rr_m2 _ _ _ _ _ _ _ _ HR); exact Ym).
      assert (Yd: lookup (rp_fs r) y = Some NDir).
      { pose proof (TE y) as K. rewrite Hov in K. unfold ov in K. rewrite Yanc in K. apply node_equiv_dir_l in K. exact K. }
      split; [intro; subst y; cbn in Yv; discriminate|]. split; [intros f K; congruence|].
      intros m Hc. apply In_sort_by. apply Hdead.
      pose proof (TE (m :: y)) as K. rewrite Hov in K. unfold ov in K.
      assert (Yvc: lookup (view_fs w0) (m :: y) = None).
      { destruct (lookup (view_fs w0) (m :: y)) as [z|] eqn:E; [|reflexivity].
        pose proof (view_tree_wf w0 HB _ _ E) as Kp. cbn [dirname tl] in Kp. congruence. }
      destruct (existsb (is_ancestor (m :: y)) Tl) eqn:Ec.
      - (* a directory above a target: the target is p, and it was made *)
        assert (Hn2: existsb (is_ancestor (m :: y)) (rm1 p Tl) = false).
        { destruct (existsb (is_ancestor (m :: y)) (rm1 p Tl)) eqn:E2; [|reflexivity]. exfalso.
          apply existsb_exists in E2. destruct E2 as [t [Ht Ha]].
          assert (existsb (is_ancestor y) (rm1 p Tl) = true).
          { apply existsb_exists. exists t. split; [exact Ht|]. eapply is_ancestor_trans; [apply is_ancestor_dirname|exact Ha]. }
          congruence. }
        split; [apply (rr_m3 _ _ _ _ _ _ _ _ HR); assumption|]. split; [apply Honly; assumption|exact Hn2].
      - exfalso. destruct (mem_path (m :: y) (cf_files cf)) eqn:Ef.
        + (* a finished target below y *)
          pose proof (rr_files _ _ _ _ _ _ _ _ HR _ Ef) as Ht.
          assert (Hne: m :: y <> p) by (intro E; rewrite E in Ef; congruence).
          assert (existsb (is_ancestor y) (rm1 p Tl) = true).
          { apply existsb_exists. exists (m :: y). split; [apply rm1_other; assumption|apply is_ancestor_dirname]. }
          congruence.
        + rewrite Yvc in K. apply node_equiv_none_l in K. apply Hc. exact K. }
    (* what is not dead stays *)
    assert (Hkeep: forall x, ~ In x dead -> lookup (rp_fs (rp_prune r p)) x = lookup (rp_fs r) x).
    { intros x Hx. rewrite rp_prune_fs. unfold prune_fs. fold dead. apply (fold_frame try_rmdir try_rmdir_frame).
      intro K. apply In_sort_by in K. exact (Hx K). }
    exists cf', M'. split; [exact Ecf|]. split; [exact EF|]. constructor.
    - exact HC'.
    - (* the trees *)
      intro x. rewrite (lookup_overlay_ov _ _ _ x HC'), EF.
      pose proof (rr_tree _ _ _ _ _ _ _ _ HR x) as K. rewrite Hov in K. unfold ov in *.
      destruct (existsb (is_ancestor x) (rm1 p Tl)) eqn:E1.
      + rewrite (existsb_rm1 _ _ _ E1) in K. rewrite Hkeep; [exact K|].
        intro Hd. apply Hdead in Hd. destruct Hd as (_ & _ & Hd). congruence.
      + destruct (existsb (is_ancestor x) Tl) eqn:E2.
        * (* a directory of the overlay that leaves it *)
          pose proof (Honly x E2 E1) as Ha.
          assert (Efx: mem_path x (cf_files cf) = false).
          { destruct (mem_path x (cf_files cf)) eqn:Ef; [|reflexivity].
            pose proof (ci_disj _ _ HCI _ Ef) as Kd. rewrite (cf_dirs_anc _ _ _ x HC) in Kd. congruence. }
          rewrite Efx. destruct (lookup (view_fs w0) x) as [[g|]|] eqn:Ev.
          -- exfalso. apply (rr_v _ _ _ _ _ _ _ _ HR x g E2 Ev).
          -- rewrite Hkeep; [exact K|]. intro Hd. apply Hdead in Hd. destruct Hd as (Hm & _).
             pose proof (rr_m1 _ _ _ _ _ _ _ _ HR x Hm). congruence.
          -- rewrite Hrem; [destruct (mem_path x W); [exact I|reflexivity]|].
             apply Hdead. split; [apply (rr_m3 _ _ _ _ _ _ _ _ HR); assumption|]. split; assumption.
        * rewrite Hkeep; [exact K|]. intro Hd. apply Hdead in Hd. destruct Hd as (Hm & _).
          pose proof (rr_m2 _ _ _ _ _ _ _ _ HR x Hm). congruence.
    - apply (OvOk_sub cf cf' (rr_ovok _ _ _ _ _ _ _ _ HR)); [|exact EF].
      intros x Hx. rewrite (cf_dirs_anc _ _ _ x HC') in Hx. rewrite (cf_dirs_anc _ _ _ x HC). apply (existsb_rm1 _ _ _ Hx).
    - apply NoDup_rm1. exact HND.
    - intros x Hx. rewrite EF in Hx. apply rm1_other; [apply (rr_files _ _ _ _ _ _ _ _ HR); exact Hx|]. intro; subst x. congruence.
    - intros t Ht. rewrite EF. destruct (rr_st _ _ _ _ _ _ _ _ HR t (rm1_in _ _ _ Ht)) as [[E|K]|K]; [|left; exact K|right; exact K].
      exfalso. subst t. exact (notin_rm1 p Tl HND Ht).
    - intros t Ht. apply (rr_unc _ _ _ _ _ _ _ _ HR). apply (rm1_in _ _ _ Ht).
    - cbn [rp_prune rp_need]. exact Eneed.
    - exact Emade.
    - apply (rr_clF _ _ _ _ _ _ _ _ HR).
    - apply (rr_clS _ _ _ _ _ _ _ _ HR).
    - intros x Hx. unfold M' in Hx. apply filter_In in Hx. apply (rr_m1 _ _ _ _ _ _ _ _ HR). apply Hx.
    - intros x Hx. unfold M' in Hx. apply filter_In in Hx. destruct Hx as [Hm Hd]. apply negb_true_iff in Hd. apply mem_path_false in Hd.
      destruct (existsb (is_ancestor x) (rm1 p Tl)) eqn:E1; [reflexivity|]. exfalso. apply Hd. apply Hdead.
      split; [exact Hm|]. split; [|exact E1]. apply Honly; [apply (rr_m2 _ _ _ _ _ _ _ _ HR); exact Hm|exact E1].
    - intros x Hx Hv. unfold M'. apply filter_In. split; [apply (rr_m3 _ _ _ _ _ _ _ _ HR); [apply (existsb_rm1 _ _ _ Hx)|exact Hv]|].
      apply negb_true_iff. apply mem_path_false. intro Hd. apply Hdead in Hd. destruct Hd as (_ & _ & Hd). congruence.
    - intros x f Hx. apply (rr_v _ _ _ _ _ _ _ _ HR). apply (existsb_rm1 _ _ _ Hx).
    - intros x g Hx Hl. rewrite rp_prune_fs in Hl. apply prune_fs_file in Hl. apply (rr_w _ _ _ _ _ _ _ _ HR x g Hx Hl).
  Qed.
End Err.

Print Assumptions error_rel.
