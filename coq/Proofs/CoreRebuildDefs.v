(* Proofs/CoreRebuildDefs.v — vocabulary of the rebuild theorem (C05, second half): what it
   means for the records of a committed Core build to be "clean" (nothing raised, no setup
   failure anywhere inside) and pairwise distinct, pointwise equality of trees, and the
   root-level answers of a run (the log entries a run makes outside every function call).
   Definitions only. *)
From Coq Require Import List String NArith ZArith Bool Arith.
From FB.Base Require Import PyVal Fs.
From FB.Gen Require Import JsonUtilGen.
From FB.Spec Require Import JsonSpec Prog Ref Oracle Faithful.
From FB.Model Require Import Types SimpleOps Builder Persist Dsl Core CoreOracle CoreCache.
From FB.Proofs Require Import CoreLaws2 CoreLaws3.
Import ListNotations.
Open Scope list_scope.

(* same nodes everywhere: bytes, modification time and inode *)
Definition leq (a b : fsT) : Prop := forall p, lookup a p = lookup b p.

(* a record with nothing raised and no setup failure, at any depth *)
Fixpoint op_clean (o : op) : bool :=
  match o with
  | OSimple _ _ _ => true
  | OBuildFile _ _ _ _ _ subs _ _ raised sf => negb raised && negb sf && forallb op_clean subs
  | OSubbuild _ _ _ subs _ raised sf => negb raised && negb sf && forallb op_clean subs
  end.

Definition records_clean (s : kstate) : bool :=
  forallb (fun e => op_clean (snd e)) (k_newF s) && forallb (fun e => op_clean (snd e)) (k_newS s).

Fixpoint distinct_paths (l : list path) : bool :=
  match l with [] => true | p :: r => negb (mem_path p r) && distinct_paths r end.
Fixpoint distinct_keys (l : list pyval) : bool :=
  match l with
  | [] => true
  | k :: r => negb (existsb (fun q => py_eq k q || py_eq q k) r) && distinct_keys r
  end.

(* what Cache.add asserts: no target and no subbuild key is registered twice *)
Definition records_distinct (s : kstate) : bool :=
  distinct_paths (map fst (k_newF s)) && distinct_keys (map fst (k_newS s)).

(* the cleaned tree a build starts from *)
Definition start_tree (fs : fsT) (cf : path) (old : cache) : fsT := ref_clean fs cf (prev_of_cache old).

(* the build did not find a regular file that was not its own at a target path *)
Definition no_foreign_targets (fs : fsT) (cf : path) (old : cache) (s : kstate) : Prop :=
  forall p, In p (map fst (k_newF s)) -> isfile (start_tree fs cf old) p = false.

(* the log entries of a run that are not made inside a function call (oldest first): the answers to
   the queries of the running body itself *)
Fixpoint core_top (pr : prog) (target : option path) (pending : option string) (subs : list op) (s : kstate)
  {struct pr} : list logentry :=
  match pr with
  | Ret _ | Raise _ => []
  | Ask stale q k =>
      if stale then core_top (k (inr (XRuntime RFinished))) target pending subs s else
      let o := record_of q (record_answer (k_fs s) q) in
      match spec_answer (k_fs s) q with
      | inl v => LAnswer q (inl v) :: core_top (k (inl v)) target pending (subs ++ [o]) (klog (LAnswer q (inl v)) s)
      | inr c => LAnswer q (inr c) :: core_top (k (inr (XOS c))) target pending (subs ++ [o]) (klog (LAnswer q (inr c)) s)
      end
  | Write c k =>
      match target with
      | None => core_top k target pending subs s
      | Some p => if path_ok p then core_top k target (Some c) subs (ktick s) else []
      end
  | BuildFile stale p c fname a kw fn k =>
      if stale then core_top (k (inr (XRuntime RFinished))) target pending subs s else
      match sanitize a, sanitize kw with
      | Some sa, Some skw =>
          let sfrec := OBuildFile p c fname sa skw [] PNone PNone true true in
          match claim_check (k_claimedF s) (k_cachefile s) p with
          | Some e => core_top (k (inr e)) target pending (subs ++ [sfrec]) s
          | None =>
              match setup_fs (k_fs s) (k_cachefile s) p with
              | inr e => core_top (k (inr e)) target pending (subs ++ [sfrec]) s
              | inl (fs1, dirs) =>
                  let s0 := core_s0 s p fs1 dirs in
                  match core_hit s s0 p fname sa skw with
                  | Some (f, subs', ret', r) =>
                      let o := OBuildFile p c fname sa skw subs' ret' (cmp_of c f) false false in
                      core_top (k (inl ret')) target pending (subs ++ [o]) (core_put (adopt s0 r o) p f)
                  | None =>
                      let '(s2, (res, pend2, bsubs)) :=
                        core_run (fn p sa skw) (Some p) None [] (core_start s0 p fname sa skw) in
                      let '(s3, out, o) := core_finish s2 p c fname sa skw bsubs res pend2 in
                      core_top (k out) target pending (subs ++ [o]) s3
                  end
              end
          end
      | _, _ => core_top (k (inr XType)) target pending subs s
      end
  | Subbuild stale fname a kw fn k =>
      if stale then core_top (k (inr (XRuntime RFinished))) target pending subs s else
      match sanitize a, sanitize kw with
      | Some sa, Some skw =>
          let key := subbuild_key fname sa skw in
          if existsb (py_eq key) (k_claimedS s)
          then core_top (k (inr (XRuntime RDupSubbuild))) target pending (subs ++ [OSubbuild fname sa skw [] PNone true true]) s
          else
            match core_subhit s fname key with
            | Some (subs', ret', r) =>
                let o := OSubbuild fname sa skw subs' ret' false false in
                core_top (k (inl ret')) target pending (subs ++ [o]) (adopt s r o)
            | None =>
                let '(s2, (res, _, bsubs)) := core_run (fn sa skw) None None [] (core_substart s fname sa skw) in
                let o := sub_rec fname sa skw bsubs res in
                core_top (k (sub_out res)) target pending (subs ++ [o]) (core_subreg s2 key o)
            end
      | _, _ => core_top (k (inr XType)) target pending subs s
      end
  end.

(* the root-level answers of a whole build (the state its root function starts in is the one of
   [core_build]) *)
Definition build_top (fs : fsT) (cachefile : path) (old : cache) (svers : pyval) (clock nextid : N) (root : prog)
  : list logentry :=
  let pv := prev_of_cache old in
  let t0 := ref_clean fs cachefile pv in
  let stale := flat_map (fun p => match lookup fs p with Some (NFile f) => [(p, f)] | _ => [] end) (pv_outputs pv) in
  let staledirs := filter (fun d => isdir fs d && negb (isdir t0 d)) (pv_dirs pv) in
  match missing_dirs t0 cachefile (dirname cachefile) with
  | inr c => []
  | inl dirs =>
      match mkdir_all t0 dirs with
      | inr e => []
      | inl t1 =>
          let s0 := {| k_fs := t1; k_stale := stale; k_staledirs := staledirs; k_claimedF := []; k_claimedS := [];
                       k_need := []; k_made := dirs; k_clock := clock; k_nextid := nextid;
                       k_log := [LInvoke "<root>" None PNone PNone]; k_cachefile := cachefile; k_old := old;
                       k_vers := svers; k_newF := []; k_newS := [] |} in
          core_top root None None [] s0
      end
  end.

Definition is_answer (e : logentry) : bool := match e with LAnswer _ _ => true | _ => false end.
