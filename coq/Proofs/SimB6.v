(* Proofs/SimB6.v — mechanism model vs Core, the hit/miss decision, part 6: the checks made on a
   build_file record before its suboperations are replayed — function version, the output on
   disk (_is_build_file_cached on the physical tree vs Core's phys on the visible tree and the
   stale store), nothing on the path of a failed record (lexists vs phys_exists), and the
   directories to make (_dirs_to_make against the overlay = missing_dirs on the overlay tree). *)
From Coq Require Import List String Ascii NArith ZArith Bool Arith Lia.
From FB.Base Require Import PyVal Fs.
From FB.Gen Require Import JsonUtilGen.
From FB.Spec Require Import Prog Ref Oracle Faithful.
From FB.Model Require Import Types Monad CreatedFiles BuildDirs SimpleOps Builder Persist Core.
From FB.Proofs Require Import FsLemmas CleanLaws JsonLaws CoreLawsChildren ReplayLaws CoreLaws1 CoreLaws3
     ViewDefs ViewLemmas ViewScan ViewQueries ViewAnswers ViewPres ViewOverlay ViewOverlay2 ViewH2 ViewH4
     ViewK3 ViewK4 ViewK5 SimB2 SimB3 SimB4.
Import ListNotations.
Open Scope list_scope.
Open Scope m_scope.

(* ------------------------------------------------------------------ version *)
Lemma version_equal_run : forall f w,
  version_equal f w = (w, inl (is_equal (func_version (w_old w) f) (func_version (w_new w) f))).
Proof. reflexivity. Qed.

Lemma kversion_sim : forall W w s f, Sim3 W w s ->
  kversion_equal s f = is_equal (func_version (w_old w) f) (func_version (w_new w) f).
Proof. intros W w s f H. unfold kversion_equal. rewrite (s3_old _ _ _ H), (s3_vers _ _ _ H f). reflexivity. Qed.

(* ------------------------------------------------------------------ the output on disk *)
Definition disk_cmp (w : world) (p : path) (c : cmpmode) : pyval :=
  match lookup (w_fs w) p with Some (NFile f) => cmp_of c f | _ => PNone end.

Lemma noneable_cmp_spec : forall w p c, BInv w -> path_ok p = true -> (c = METADATA \/ hash_ok w) ->
  yields (noneable_cmp p c) w (inl (disk_cmp w p c)).
Proof.
  intros w p c HB Hp Hc. destruct (fcr_view w p c HB) as (w1 & r & E & G & P & _).
  exists w1. split; [|exact G]. unfold noneable_cmp, catch. rewrite E. unfold fcr_post in P. unfold disk_cmp.
  destruct (lookup (w_fs w) p) as [[f|]|].
  - rewrite (P Hc). reflexivity.
  - rewrite P. reflexivity.
  - destruct P as [->|[->|[_ K]]]; [reflexivity|reflexivity|congruence].
Qed.

Lemma is_build_file_cached_spec : forall w p c cr, BInv w -> path_ok p = true -> (c = METADATA \/ hash_ok w) ->
  yields (is_build_file_cached p c cr) w (inl (is_equal cr (disk_cmp w p c))).
Proof.
  intros w p c cr HB Hp Hc. unfold is_build_file_cached.
  eapply yields_bind; [apply noneable_cmp_spec; assumption|]. intros w1 G1. apply yields_ret. apply (good_BInv _ _ G1).
Qed.

Section Phys.
  Variables (W : list path) (w0 : world) (s : kstate).
  Hypothesis HS : Sim3 W w0 s.
  Hypothesis HB : BInv w0.
  Hypothesis HWcl : forall p, mem_path p W = true -> cache_has_file (w_new w0) p = true.
  (* the directories of the previous build that are on disk and not visible are the stale directories *)
  Hypothesis HSD1 : forall p, isdir (w_fs w0) p = true -> visible w0 p = false -> mem_path p (k_staledirs s) = true.
  Hypothesis HSD2 : forall p, mem_path p (k_staledirs s) = true -> lexists (w_fs w0) p = true.

  Lemma kfs_unclaimed : forall p, cache_has_file (w_new w0) p = false -> lookup (k_fs s) p = lookup (view_fs w0) p.
  Proof.
    intros p H. pose proof (s3_tree _ _ _ HS p) as K. rewrite (unclaimed_notW W w0 HWcl p H) in K. symmetry. exact K.
  Qed.

  Lemma hid_unclaimed : forall p, cache_has_file (w_new w0) p = false -> path_eqb p (w_cachefile w0) = false ->
    hid w0 p = cache_created_file (w_old w0) p.
  Proof. intros p H1 H2. unfold hid. rewrite H1, H2. reflexivity. Qed.

  Theorem phys_unclaimed : forall p, p <> [] -> cache_has_file (w_new w0) p = false -> path_eqb p (w_cachefile w0) = false ->
    phys (k_fs s) (k_stale s) p = match lookup (w_fs w0) p with Some (NFile f) => Some f | _ => None end.
  Proof.
    intros p Hne H1 H2. unfold phys. rewrite (kfs_unclaimed p H1), (s3_stale _ _ _ HS p), H1, andb_true_r.
    rewrite (lookup_view w0 p Hne). unfold visible. rewrite (hid_unclaimed p H1 H2).
    destruct (lookup (w_fs w0) p) as [[f|]|] eqn:El.
    - destruct (cache_created_file (w_old w0) p); reflexivity.
    - destruct (negb (dead w0 p)); reflexivity.
    - reflexivity.
  Qed.

  Theorem phys_exists_unclaimed : forall p, p <> [] -> cache_has_file (w_new w0) p = false -> path_eqb p (w_cachefile w0) = false ->
    phys_exists s p = lexists (w_fs w0) p.
  Proof.
    intros p Hne H1 H2. unfold phys_exists. unfold lexists at 1. rewrite (kfs_unclaimed p H1), (s3_stale _ _ _ HS p), H1, andb_true_r.
    rewrite (lookup_view w0 p Hne). unfold visible. rewrite (hid_unclaimed p H1 H2).
    destruct (lookup (w_fs w0) p) as [[f|]|] eqn:El.
    - unfold lexists. rewrite El. destruct (cache_created_file (w_old w0) p); reflexivity.
    - unfold lexists. rewrite El. destruct (dead w0 p) eqn:Ed; cbn [negb orb]; [|reflexivity].
      apply HSD1; [unfold isdir; rewrite El; reflexivity|unfold visible; rewrite El, Ed; reflexivity].
    - cbn [orb]. destruct (mem_path p (k_staledirs s)) eqn:E; [|unfold lexists; rewrite El; reflexivity].
      apply HSD2 in E. symmetry. exact E.
  Qed.
End Phys.

(* ------------------------------------------------------------------ _dirs_to_make against an overlay *)
Definition dtm_res (w : world) (c : cfiles) (d : path) : list path + exn :=
  match missing_dirs (overlay_fs w c) (w_cachefile w) d with inl l => inl l | inr e => inr (XOS e) end.

Lemma dtm_res_good : forall w w' c d, good w w' -> dtm_res w' c d = dtm_res w c d.
Proof. intros w w' c d G. unfold dtm_res. rewrite (overlay_fs_good _ _ _ G), (sv_cf _ _ (good_sv _ _ G)). reflexivity. Qed.

Theorem dirs_to_make_overlay : forall d w c, BInv w -> CInv w c -> path_ok d = true ->
  yields (dirs_to_make d (Some c)) w (dtm_res w c d).
Proof.
  induction d as [|n d IH]; intros w c HB HC Hp.
  - cbn [dirs_to_make]. unfold dtm_res. cbn [missing_dirs lookup].
    eapply yields_bind; [apply m_is_dir_overlay; [exact HB|left; reflexivity]|]. intros w1 G1.
    assert (E: odir w c [] = true) by (rewrite <- (isdir_overlay w c HB HC); reflexivity). rewrite E.
    eapply yields_bind; [apply yields_ret; apply (good_BInv _ _ G1)|]. intros w2 G2. cbn.
    apply yields_ret. apply (good_BInv _ _ G2).
  - cbn [dirs_to_make]. pose proof (lookup_overlay_kind w c (n :: d) HB HC) as K.
    eapply yields_bind; [apply m_is_dir_overlay; [exact HB|left; exact Hp]|]. intros w1 G1.
    pose proof (good_BInv _ _ G1) as B1. pose proof (CInv_good _ _ _ G1 HC) as C1.
    unfold dtm_res. cbn [missing_dirs].
    destruct (lookup (overlay_fs w c) (n :: d)) as [[g|]|] eqn:El.
    + destruct K as [K1 K2]. rewrite K2.
      eapply yields_bind; [apply m_is_file_overlay; exact B1|]. intros w2 G2.
      rewrite (ofile_good _ _ _ _ G1), K1. apply yields_raise. apply (good_BInv _ _ G2).
    + destruct K as [K1 K2]. rewrite K1.
      eapply yields_bind; [apply yields_ret; exact B1|]. intros w2 G2. cbn.
      apply yields_ret. apply (good_BInv _ _ G2).
    + destruct K as [K1 K2]. rewrite K2.
      eapply yields_bind; [apply m_is_file_overlay; exact B1|]. intros w2 G2.
      rewrite (ofile_good _ _ _ _ G1), K1. cbn [negb].
      pose proof (good_trans _ _ _ G1 G2) as G02. pose proof (good_BInv _ _ G2) as B2.
      eapply yields_pure; [reflexivity|]. rewrite (sv_cf _ _ (good_sv _ _ G02)).
      destruct (path_eqb (n :: d) (w_cachefile w)); [apply yields_raise; exact B2|].
      assert (Hpd: path_ok d = true) by (cbn [path_ok forallb] in Hp; apply andb_true_iff in Hp; apply Hp).
      pose proof (IH w2 c B2 (CInv_good _ _ _ G02 HC) Hpd) as Y. rewrite (dtm_res_good _ _ _ _ G02) in Y. unfold dtm_res in Y.
      destruct (missing_dirs (overlay_fs w c) (w_cachefile w) d) as [l|e].
      * eapply yields_bind; [exact Y|]. intros w3 G3. apply yields_ret. apply (good_BInv _ _ G3).
      * apply yields_bind_err. exact Y.
Qed.

Print Assumptions phys_unclaimed.
Print Assumptions phys_exists_unclaimed.
Print Assumptions dirs_to_make_overlay.
