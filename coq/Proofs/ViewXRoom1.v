(* Proofs/ViewXRoom1.v — C04, reachability: physically removing an INVISIBLE leaf (a hidden
   regular file, or an empty dead directory) that is not reserved changes no
   answer: XInv is kept, [dead] is unchanged elsewhere, [visible] is unchanged everywhere. *)
From Coq Require Import List String Ascii NArith ZArith Bool Arith Lia.
From FB.Base Require Import PyVal Fs.
From FB.Model Require Import Types Monad CreatedFiles BuildDirs SimpleOps Builder.
From FB.Proofs Require Import FsLemmas CleanLaws JsonLaws CoreLawsChildren
     ViewDefs ViewLemmas ViewScan ViewQueries ViewFrame ViewXDefs ViewXSteps.
Import ListNotations.
Open Scope list_scope.

Section Leaf.
  Variables (T : list path) (w : world) (m : name) (x : path) (fs' : fsT).
  Local Notation a := (m :: x).
  Local Notation fs := (w_fs w).
  Local Notation w' := (set_fs fs' w).
  Hypothesis HX : XInv T w.
  Hypothesis Hex : lexists fs a = true.
  Hypothesis Hinv : invis w a = true.
  Hypothesis Hkids : children fs a = [].
  Hypothesis Hnc : in_counts (w_bd w) a = false.
  Hypothesis Hgone : lookup fs' a = None.
  Hypothesis Hoth : forall q, q <> a -> lookup fs' q = lookup fs q.

  Let HB : BInv w := x_binv _ _ HX.

  Lemma lf_not_counted : in_counts (w_bd w) a = false.
  Proof. exact Hnc. Qed.

  Lemma lf_wf : fs_wf fs'.
  Proof.
    apply (wf_change_one fs fs' a (bi_wf _ HB)); auto.
    - discriminate.
    - intro H. congruence.
    - intros n Hn. exfalso. pose proof (proj1 (children_nil_iff fs a) Hkids n). congruence.
  Qed.

  Lemma lf_children : forall y n, In n (children fs' y) <-> (In n (children fs y) /\ n :: y <> a).
  Proof.
    intros y n. rewrite !children_In. unfold lexists. split.
    - intro H. destruct (list_eq_dec string_dec (n :: y) a) as [E|E].
      + rewrite E, Hgone in H. discriminate.
      + rewrite (Hoth _ E) in H. auto.
    - intros [H E]. rewrite (Hoth _ E). exact H.
  Qed.

  (* dead is unchanged except at the removed path itself *)
  Lemma lf_dead : forall y, y <> a -> dead w' y = dead w y.
  Proof.
    apply (depth_ind fs (fun y => y <> a -> dead w' y = dead w y)). intros y IH Hy.
    rewrite (dead_unfold w' y), (dead_unfold w y). cbn [w_fs w_bd set_fs]. rewrite (Hoth y Hy).
    destruct (trk (w_bd w) y); [cbn [andb]|reflexivity].
    destruct (lookup fs y) as [[g|]|]; try reflexivity.
    apply eq_true_iff_eq. rewrite !forallb_forall. split.
    - intros H n Hn. destruct (list_eq_dec string_dec (n :: y) a) as [E|E].
      + rewrite E. exact Hinv.
      + specialize (H n (proj2 (lf_children y n) (conj Hn E))).
        rewrite invis_unfold in *. cbn [w_fs set_fs] in H. rewrite (Hoth _ E) in H.
        change (hid w' (n :: y)) with (hid w (n :: y)) in H.
        destruct (lookup fs (n :: y)) as [[g|]|]; try assumption. rewrite <- (IH n Hn E). exact H.
    - intros H n Hn. apply lf_children in Hn. destruct Hn as [Hn E]. specialize (H n Hn).
      rewrite invis_unfold in *. cbn [w_fs set_fs]. rewrite (Hoth _ E).
      change (hid w' (n :: y)) with (hid w (n :: y)).
      destruct (lookup fs (n :: y)) as [[g|]|]; try assumption. rewrite (IH n Hn E). exact H.
  Qed.

  Lemma lf_dead_a : dead w' a = false.
  Proof. apply dead_notdir. cbn [w_fs set_fs]. unfold isdir. rewrite Hgone. reflexivity. Qed.

  Lemma lf_invis : forall y, y <> a -> invis w' y = invis w y.
  Proof.
    intros y Hy. rewrite !invis_unfold. cbn [w_fs set_fs]. rewrite (Hoth y Hy), (lf_dead y Hy). reflexivity.
  Qed.

  Lemma lf_visible : forall y, visible w' y = visible w y.
  Proof.
    intro y. destruct (list_eq_dec (string_dec) y a) as [->|Hy].
    - unfold visible at 1. cbn [w_fs set_fs]. rewrite Hgone. symmetry.
      rewrite invis_visible in Hinv by exact Hex. apply negb_true_iff in Hinv. exact Hinv.
    - unfold visible. cbn [w_fs set_fs]. rewrite (Hoth y Hy), (lf_dead y Hy). reflexivity.
  Qed.

  Lemma lf_dead_false : forall y, dead w y = false -> dead w' y = false.
  Proof.
    intros y H. destruct (list_eq_dec string_dec y a) as [->|Hy]; [apply lf_dead_a|]. rewrite (lf_dead y Hy). exact H.
  Qed.

  Lemma lf_a_not_rm_dir : isdir fs' a = false.
  Proof. unfold isdir. rewrite Hgone. reflexivity. Qed.

  Theorem remove_leaf_XInv : XInv T w'.
  Proof.
    constructor; cbn [w_fs w_bd set_fs].
    - constructor; cbn [w_fs w_bd set_fs].
      + exact lf_wf.
      + apply (bi_root _ HB).
      + apply (bi_counts_up _ HB).
      + intros y H1 H2. destruct (list_eq_dec string_dec y a) as [->|Hy]; [rewrite lf_a_not_rm_dir in H2; discriminate|].
        rewrite (lf_dead y Hy). unfold isdir in H2. rewrite (Hoth y Hy) in H2. apply (bi_removed _ HB y H1 H2).
      + intros y H1 H2 H3. assert (Hy: y <> a) by (intro; subst; unfold isfile in H2; rewrite Hgone in H2; discriminate).
        unfold isfile in H2. rewrite (Hoth y Hy) in H2. apply (bi_rf_hid _ HB y H1 H2 H3).
      + intros y H1 H2 H3. assert (Hy: y <> a) by (intro; subst; unfold isfile in H1; rewrite Hgone in H1; discriminate).
        unfold isfile in H1. rewrite (Hoth y Hy) in H1. apply (bi_hid_rf _ HB y H1 H2 H3).
      + apply (bi_rf_trk _ HB).
      + intros q y H1 H2. apply lf_dead_false. apply (bi_exists _ HB q y H1 H2).
    - apply (x_sinv _ _ HX).
    - apply (x_keys _ _ HX).
    - apply (x_pos _ _ HX).
    - apply (x_count _ _ HX).
    - intros y H. assert (Hy: y <> a) by (intro; subst; rewrite lf_not_counted in H; discriminate).
      unfold isdir, lexists. rewrite (Hoth y Hy). apply (x_cdir _ _ HX y H).
    - intros y H1 H2. assert (Hy: y <> a) by (intro; subst; rewrite lf_not_counted in H1; discriminate).
      unfold isdir. rewrite (Hoth y Hy). apply (x_ncdir _ _ HX y H1 H2).
    - intros t Ht. destruct (x_tgt _ _ HX t Ht) as (A & B & C). split; [exact A|]. split; [exact B|].
      destruct (list_eq_dec string_dec t a) as [->|Hy]; [rewrite lf_a_not_rm_dir; discriminate|].
      unfold isdir. rewrite (Hoth t Hy), (lf_dead t Hy). exact C.
    - intros y n H1 H2. assert (Hy: n :: y <> a) by (intro E; rewrite E in H2; unfold lexists in H2; rewrite Hgone in H2; discriminate).
      unfold lexists in H2. rewrite (Hoth _ Hy) in H2. rewrite (lf_invis _ Hy). apply (x_kids _ _ HX y n H1 H2).
    - apply (x_cc _ _ HX).
    - intros y H1 H2 H3. assert (Hy: y <> a) by (intro; subst; unfold isfile in H1; rewrite Hgone in H1; discriminate).
      unfold isfile in H1. rewrite (Hoth y Hy) in H1. apply (x_hid_rf _ _ HX y H1 H2 H3).
    - intros y H1 H2. assert (Hy: y <> a) by (intro; subst; unfold isfile in H2; rewrite Hgone in H2; discriminate).
      unfold isfile in H2. rewrite (Hoth y Hy) in H2. apply (x_rf_hid _ _ HX y H1 H2).
  Qed.
End Leaf.

Print Assumptions remove_leaf_XInv.
