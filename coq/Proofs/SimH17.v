(* Proofs/SimH17.v — CacheRTOpen.committed_cache_wf_next_statement, proved: a committed build that
   starts from the cache file written from a writable cache with a good forest ends with a cache
   that is writable, whose tables are those of its forest, whose forest is good, whose created
   directories are listed once, and the cache file holds cache_to_json of it: the hypotheses
   are inherited along a history.  (fs_wf and w_faults = [] of the statement are not used.)
   Assembly: SimH8/9 (acceptance, commit phase), SimH10/11 (well-formed records with reuse),
   SimH13-16 (tables in claim order with reuse), SimH5 (different keys), SimH6 (forest). *)
From Coq Require Import List String Ascii NArith ZArith Bool Arith Lia Permutation.
From FB.Base Require Import PyVal Fs.
From FB.Gen Require Import JsonUtilGen.
From FB.Spec Require Import JsonSpec Prog.
From FB.Model Require Import Types Monad CreatedFiles BuildDirs SimpleOps Builder PathNorm Persist PersistSpec Build Run.
From FB.Proofs Require Import FsLemmas JsonLaws PersistLaws ReplayLaws BuildFileLaws
  CacheRTDefs CacheRTLaws CacheRTTables CacheRTForest CacheRTOpen
  SimH1 SimH2 SimH3 SimH4 SimH5 SimH6 SimH7 SimH8 SimH9 SimH10 SimH11 SimH15 SimH16.
Import ListNotations.
Local Open Scope list_scope.

Theorem committed_cache_wf_next : committed_cache_wf_next_statement.
Proof.
  intros cf nm vers svers root w w' v f0 c0 roots0 Hs Hcf Hroot _ _ Hl Hj Hw HG0 Hn H c.
  pose proof (next_accepted cf nm svers w f0 c0 roots0 Hl Hj Hw Hn) as Hacc.
  pose proof (read_back_RW c0 roots0 Hw) as Hold.
  destruct (accepted_cache_writable _ _ _ _ _ _ _ _ _ Hs Hcf Hroot Hacc Hold H) as (roots & Wr & Nd & Hf).
  fold c in Wr, Nd, Hf.
  destruct (accepted_build_facts _ _ _ _ _ _ _ _ _ Hs Hcf Hroot Hacc Hold H)
    as (ccd & w2 & l & ops & j & Hnew & W2' & Hl2 & Hccd & Mn & Mv & Md & Hjj & Ho & _ & w1 & E1 & E2).
  destruct (make_dirs_new _ _ _ _ E1) as (N1 & O1 & _).
  set (wi := set_log (LInvoke "<root>" None PNone PNone :: w_log w1) w1) in *.
  assert (Ni : w_new wi = empty_cache nm svers) by (unfold wi; cbn [w_new set_log]; rewrite N1; reflexivity).
  assert (Oi : w_old wi = read_back c0 roots0) by (unfold wi; cbn [w_old set_log]; rewrite O1; reflexivity).
  pose proof Hw as (_ & Hr & _).
  pose proof (forest_good_norm roots0 Hr HG0) as HG'.
  pose proof (proj2 (forest_normal roots0 Hr)) as HW'.
  assert (Ki : KI (w_new wi)) by (rewrite Ni; split; reflexivity).
  assert (Ci : Ctx wi).
  { split; [exact Ki|]. rewrite Oi. unfold read_back.
    split; [apply old_F; assumption|]. split; [apply old_S; assumption|]. exact Hold. }
  destruct (run_T2 _ _ _ _ _ _ _ Ci E2) as (new & El & Hsh & Hstep). cbn [app] in El. subst new.
  destruct (run_K _ _ _ _ _ _ E2 Ki) as [Kf Ks].
  assert (Ef : c_files c = c_files (w_new w2)) by (unfold c; rewrite Hnew; reflexivity).
  assert (Es : c_subs c = c_subs (w_new w2)) by (unfold c; rewrite Hnew; reflexivity).
  assert (G : Good wi w2 l).
  { destruct Hstep as [G|B]; [exact G|]. exfalso. unfold Bad in B. rewrite Ni in B. cbn [c_files empty_cache] in B.
    fold c in Ho. unfold cache_operations in Ho. rewrite <- Ef in B.
    rewrite (nnf_zero (c_files c)) in B; [unfold nnf in B; cbn in B; lia|].
    intros e He. apply (sequence_all_some _ _ _ Ho). apply in_or_app. left. apply in_map. exact He. }
  destruct G as [Gf Gs]. rewrite Ni in Gf, Gs. cbn [c_files c_subs empty_cache app] in Gf, Gs.
  rewrite Gf in Kf. rewrite Gs in Ks.
  destruct (claim_order_forest l Hsh Hl2 Kf Ks c (eq_trans Ef Gf) (eq_trans Es Gs)) as (CF & TP & FG & GD).
  assert (roots = forest_of l).
  { destruct Wr as (Wr1 & _). rewrite CF in Wr1. inversion Wr1; reflexivity. }
  subst roots. exists (forest_of l).
  split; [exact Wr|]. split; [exact TP|]. split; [exact FG|]. split; [exact GD|]. split; [exact Nd | exact Hf].
Qed.

Print Assumptions committed_cache_wf_next.

(* the conjuncts that SimH12 recorded as a statement *)
From FB.Proofs Require Import SimH12.
Theorem committed_cache_wf_next_rest : committed_cache_wf_next_rest_statement.
Proof.
  intros cf nm vers svers root w w' v f0 c0 roots0 Hs Hcf Hroot Hfs Hfl Hl Hj Hw HG0 Hn H c roots CF.
  destruct (committed_cache_wf_next cf nm vers svers root w w' v f0 c0 roots0 Hs Hcf Hroot Hfs Hfl Hl Hj Hw HG0 Hn H)
    as (roots' & ((CF' & _) & TP & FG & GD & _)).
  fold c in CF'. rewrite CF in CF'. inversion CF'; subst roots'. split; [exact TP|]. split; [exact FG | exact GD].
Qed.

Print Assumptions committed_cache_wf_next_rest.
