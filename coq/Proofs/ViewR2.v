(* Proofs/ViewR2.v — C04, arbitrary previous caches, part 2: well-formed records and caches,
   the stronger run invariant RInv2, and the cache-hit steps of build_file and subbuild
   from RInv2 (ViewH7.hit_core / sbhit_core with their three extra premises discharged
   from RInv2 and the explicit statement NoRaise).                                      *)
From Coq Require Import List String Ascii NArith ZArith Bool Arith Lia.
From FB.Base Require Import PyVal Fs.
From FB.Gen Require Import JsonUtilGen.
From FB.Spec Require Import Prog.
From FB.Model Require Import Types Monad CreatedFiles BuildDirs SimpleOps Builder Build Run.
From FB.Proofs Require Import FsLemmas CleanLaws JsonLaws CoreLawsChildren ReplayLaws BuildFileLaws
     ViewDefs ViewLemmas ViewScan ViewQueries ViewAnswers ViewPres ViewFrame ViewPrepare
     ViewXDefs ViewXFrame ViewXQuery ViewXError ViewXSteps ViewXMake1 ViewXMake2 ViewXFail ViewXSetup ViewXOld
     ViewXRun ViewH4 ViewH5 ViewH6 ViewH7 ViewR1.
Import ListNotations.
Open Scope list_scope.
Open Scope m_scope.

(* ------------------------------------------------------------------ well-formed records *)
(* a path that the build may be asked to produce: creatable names, shorter than the fuel of walk *)
Definition tgt_ok (p : path) : bool := path_ok p && Nat.ltb (List.length p) walk_fuel.

(* static well-formedness of a record: goodrec (a successful file record holds a comparison
   result), and every recorded target is tgt_ok *)
Fixpoint wfrec (o : op) : bool :=
  match o with
  | OSimple _ _ _ => true
  | OBuildFile p _ _ _ _ subs _ cmpres raised _ =>
      (raised || negb (pnone cmpres)) && tgt_ok p && forallb wfrec subs
  | OSubbuild _ _ _ subs _ _ _ => forallb wfrec subs
  end.

Lemma wfrec_goodrec : forall o, wfrec o = true -> goodrec o = true.
Proof.
  induction o as [q r e | p c f a k subs r cr ra sf IH | f a k subs r ra sf IH] using op_ind';
    intro H; cbn [wfrec goodrec] in *.
  - reflexivity.
  - apply andb_true_iff in H. destruct H as [H H3]. apply andb_true_iff in H. destruct H as [H1 _].
    apply andb_true_iff. split; [exact H1|].
    induction IH as [|s rest Hs HF IHl]; [reflexivity|]. cbn [forallb] in *.
    apply andb_true_iff in H3. destruct H3 as [A C]. apply andb_true_iff. split; [apply Hs; exact A|apply IHl; exact C].
  - induction IH as [|s rest Hs HF IHl]; [reflexivity|]. cbn [forallb] in *.
    apply andb_true_iff in H. destruct H as [A C]. apply andb_true_iff. split; [apply Hs; exact A|apply IHl; exact C].
Qed.

Lemma wfrec_shallow : forall o, wfrec o = true -> shallow_op walk_fuel o.
Proof.
  induction o as [q r e | p c f a k subs r cr ra sf IH | f a k subs r ra sf IH] using op_ind';
    intro H; cbn [wfrec shallow_op] in *.
  - exact I.
  - apply andb_true_iff in H. destruct H as [H H3]. apply andb_true_iff in H. destruct H as [_ H2].
    split.
    + unfold tgt_ok in H2. apply andb_true_iff in H2. destruct H2 as [_ H2]. apply Nat.ltb_lt in H2. exact H2.
    + induction IH as [|s rest Hs HF IHl]; [exact I|]. cbn [forallb] in H3.
      apply andb_true_iff in H3. destruct H3 as [A C]. split; [apply Hs; exact A|apply IHl; exact C].
  - induction IH as [|s rest Hs HF IHl]; [exact I|]. cbn [forallb] in H.
    apply andb_true_iff in H. destruct H as [A C]. split; [apply Hs; exact A|apply IHl; exact C].
Qed.

(* the previous cache: every record that can be looked up is well formed *)
Definition WfCache (old : cache) : Prop :=
  (forall p rec, cache_get_file old p = Some rec -> wfrec rec = true) /\
  (forall k rec, subs_get (c_subs old) k = Some (Some rec) -> wfrec rec = true).

(* ------------------------------------------------------------------ the stronger invariant *)
(* [Xc]: one more property of the previous cache, carried along (the old cache never changes) *)
Section XC.
Variable Xc : cache -> Prop.

Definition RInv2 (T : list path) (w : world) : Prop :=
  RInv T w /\ Ext walk_fuel w /\ WfCache (w_old w) /\ Xc (w_old w).

Lemma RInv2_R : forall T w, RInv2 T w -> RInv T w.
Proof. intros T w H. apply H. Qed.

Lemma RInv2_step : forall T T' w w', RInv2 T w -> gl walk_fuel w w' -> RInv T' w' -> RInv2 T' w'.
Proof.
  intros T T' w w' (_ & HE & HW & HX) G HR. split; [exact HR|]. split; [apply (gl_Ext _ _ _ G HE)|].
  destruct G as (_ & O & _). rewrite O. split; [exact HW|exact HX].
Qed.

(* the lookups raise nothing: the statement that remains (see ViewH8 for the four causes) *)
Definition NoRaise : Prop :=
  forall T w, RInv2 T w ->
    (forall p f a k wl e, build_file_cache_lookup p f a k w <> (wl, inr e)) /\
    (forall k f wl e, subbuild_cache_lookup k f w <> (wl, inr e)).

(* ------------------------------------------------------------------ a lookup returns a record of the old cache *)
Lemma lookup_rec : forall p f a k w w' co, build_file_cache_lookup p f a k w = (w', inl (Some co)) ->
  cache_get_file (w_old w) p = Some co.
Proof.
  intros p f a k w w' co H. unfold build_file_cache_lookup in H. apply bind_inv in H. unfold get in H.
  destruct H as [[w1 [w0 [E H]]]|[e [E _]]]; [|discriminate]. inversion E; subst w1 w0.
  destruct (cache_get_file (w_old w) p) as [[q r e|p' c' f' a' k' subs' r' cr' ra' sf'|f' a' k' subs' r' ra' sf']|] eqn:Eg;
    try (inversion H; fail).
  destruct ra'; [inversion H|]. destruct (negb (String.eqb f' f)); [inversion H|].
  apply bind_inv in H. destruct H as [[w1 [ve [Ev H]]]|[e [_ H]]]; [|discriminate].
  destruct (negb ve); [inversion H|].
  destruct (negb (is_equal a' a)); [inversion H|]. destruct (negb (is_equal k' k)); [inversion H|].
  apply bind_inv in H. destruct H as [[w2 [ok [Eo H]]]|[e [_ H]]]; [|discriminate].
  destruct (negb ok); [inversion H|].
  apply bind_inv in H. destruct H as [[w3 [rr [Es H]]]|[e [_ H]]]; [|discriminate].
  destruct rr as [b1 cf1]. cbn [fst] in H. destruct b1; inversion H. reflexivity.
Qed.

Lemma sublookup_rec : forall key f w w' co, subbuild_cache_lookup key f w = (w', inl (Some co)) ->
  subs_get (c_subs (w_old w)) key = Some (Some co).
Proof.
  intros key f w w' co H. unfold subbuild_cache_lookup in H. apply bind_inv in H. unfold get in H.
  destruct H as [[w1 [w0 [E H]]]|[e [E _]]]; [|discriminate]. inversion E; subst w1 w0.
  destruct (subs_get (c_subs (w_old w)) key) as [[[q r e|p' c' f' a' k' subs' r' cr' ra' sf'|f' a' k' subs' r' ra' sf']|]|] eqn:Eg;
    try (inversion H; fail).
  destruct ra'; [inversion H|].
  apply bind_inv in H. destruct H as [[w1 [ve [Ev H]]]|[e [_ H]]]; [|discriminate].
  destruct (negb ve); [inversion H|].
  apply bind_inv in H. destruct H as [[w3 [rr [Es H]]]|[e [_ H]]]; [|discriminate].
  destruct rr as [b1 cf1]. cbn [fst] in H. destruct b1; inversion H. reflexivity.
Qed.

(* ------------------------------------------------------------------ growth along the attempt to reuse *)
Local Notation glw := (gl walk_fuel).
Local Notation glwPO := (glPO walk_fuel).

Lemma gl_of_pres : forall X (m : world -> world * X) w w' r, pres glwPO m -> m w = (w', r) -> glw w w'.
Proof. intros X m w w' r Hm H. apply (Hm _ _ _ H). Qed.

Lemma bf_reuse_gl : forall p c f sa skw cached w w' r,
  (forall co, cached = Some co -> wfrec co = true) ->
  bf_reuse p c f sa skw cached w = (w', r) -> glw w w'.
Proof.
  intros p c f sa skw cached w w' r Hwf H. destruct cached as [co|]; cbn [bf_reuse] in H.
  2:{ inversion H; subst. apply gl_refl. }
  specialize (Hwf co eq_refl). cbv zeta in H.
  apply bind_inv in H. destruct H as [[wc [cmp [Ec H]]]|[e [Ec _]]].
  2:{ apply svb_gl. apply (noneable_cmp_svb _ _ _ _ _ Ec). }
  eapply gl_trans; [apply svb_gl; apply (noneable_cmp_svb _ _ _ _ _ Ec)|].
  assert (Hreuse: forall x,
            (apply_cached_subs_of co ;;;
             (r0 <- attempt (new_use_cached_operation (OBuildFile p c f sa skw (op_subs co) (op_ret co) cmp false false)) ;;
              match r0 with
              | inl _ => ret (Some (inl (OBuildFile p c f sa skw (op_subs co) (op_ret co) cmp false false)))
              | inr e => ret (Some (inr (e, OBuildFile p c f sa skw (op_subs co) (op_ret co) cmp true true)))
              end)) wc = (w', x) -> glw wc w').
  { intros x Hx. apply bind_inv in Hx.
    assert (Ha: forall wd ra, apply_cached_subs_of co wc = (wd, ra) -> glw wc wd).
    { intros wd ra Ha. apply (apply_cached_subs_of_gl _ _ _ _ _ Ha). apply shallow_op_subs. apply wfrec_shallow. exact Hwf. }
    destruct Hx as [[wd [u [Ea Hx]]]|[e [Ea _]]]; [|apply (Ha _ _ Ea)].
    eapply gl_trans; [apply (Ha _ _ Ea)|].
    apply bind_inv in Hx. unfold attempt in Hx.
    destruct (new_use_cached_operation (OBuildFile p c f sa skw (op_subs co) (op_ret co) cmp false false) wd) as [we re] eqn:Eu.
    pose proof (new_use_cached_operation_gl walk_fuel _ _ _ _ Eu) as Gu.
    destruct Hx as [[wf [r0 [E0 Hx]]]|[e [E0 _]]]; [|discriminate]. inversion E0; subst wf r0.
    destruct re; inversion Hx; subst; exact Gu. }
  destruct cmp; try (apply (Hreuse _ H)). inversion H; subst. apply gl_refl.
Qed.

Lemma bf_try_gl : forall p c f sa skw w w' r, WfCache (w_old w) ->
  bf_try p c f sa skw w = (w', r) -> glw w w'.
Proof.
  intros p c f sa skw w w' r [HW _] H. unfold bf_try in H.
  apply bind_inv in H. destruct H as [[wl [cached [El H]]]|[e [El _]]].
  2:{ apply svb_gl. apply (build_file_cache_lookup_svb _ _ _ _ _ _ _ El). }
  eapply gl_trans; [apply svb_gl; apply (build_file_cache_lookup_svb _ _ _ _ _ _ _ El)|].
  assert (Hwf: forall co, cached = Some co -> wfrec co = true).
  { intros co ->. apply (HW p). apply (lookup_rec _ _ _ _ _ _ _ El). }
  apply bind_inv in H. destruct H as [[wr [reused [Er H]]]|[e [Er _]]]; [|apply (bf_reuse_gl _ _ _ _ _ _ _ _ _ Hwf Er)].
  eapply gl_trans; [apply (bf_reuse_gl _ _ _ _ _ _ _ _ _ Hwf Er)|].
  destruct reused as [[o|eo]|].
  - inversion H; subst. apply gl_refl.
  - apply bind_inv in H. destruct H as [[wd [u [Ed H]]]|[e [Ed _]]].
    + inversion H; subst. apply svb_gl. apply (m_bd_error_svb _ _ _ _ Ed).
    + apply svb_gl. apply (m_bd_error_svb _ _ _ _ Ed).
  - apply (bf_claim_gl walk_fuel _ _ _ _ H).
Qed.

Lemma sb_setup_gl : forall f sa skw w w' r, WfCache (w_old w) -> sb_setup f sa skw w = (w', r) -> glw w w'.
Proof.
  intros f sa skw w w' r [_ HW] H. unfold sb_setup in H. cbv zeta in H.
  apply bind_inv in H. destruct H as [[wa [u [E H]]]|[e [E _]]].
  2:{ apply svb_gl. apply (new_assert_no_subbuild_svb _ _ _ _ E). }
  pose proof (new_assert_no_subbuild_svb _ _ _ _ E) as S0.
  eapply gl_trans; [apply svb_gl; exact S0|].
  apply bind_inv in H. destruct H as [[wl [cached [El H]]]|[e [El _]]].
  2:{ apply svb_gl. apply (subbuild_cache_lookup_svb _ _ _ _ _ El). }
  eapply gl_trans; [apply svb_gl; apply (subbuild_cache_lookup_svb _ _ _ _ _ El)|].
  destruct cached as [co|].
  - assert (Hwf: wfrec co = true).
    { apply (HW (subbuild_key f sa skw)). pose proof (sublookup_rec _ _ _ _ _ El) as K.
      destruct S0 as (_ & _ & _ & O & _). rewrite <- O. exact K. }
    apply bind_inv in H.
    assert (Ha: forall wd ra, apply_cached_subs_of co wl = (wd, ra) -> glw wl wd).
    { intros wd ra Ha. apply (apply_cached_subs_of_gl _ _ _ _ _ Ha). apply shallow_op_subs. apply wfrec_shallow. exact Hwf. }
    destruct H as [[wd [u' [Ea H]]]|[e [Ea _]]]; [|apply (Ha _ _ Ea)].
    eapply gl_trans; [apply (Ha _ _ Ea)|].
    apply bind_inv in H. unfold attempt in H.
    destruct (new_use_cached_operation (OSubbuild f sa skw (op_subs co) (op_ret co) false false) wd) as [we re] eqn:Eu.
    pose proof (new_use_cached_operation_gl walk_fuel _ _ _ _ Eu) as Gu.
    destruct H as [[wf [r0 [E0 H]]]|[e [E0 _]]]; [|discriminate]. inversion E0; subst wf r0.
    destruct re; inversion H; subst; exact Gu.
  - apply bind_inv in H. destruct H as [[wd [u' [Ea H]]]|[e [Ea _]]].
    + inversion H; subst. apply (new_start_subbuild_gl walk_fuel _ _ _ _ Ea).
    + apply (new_start_subbuild_gl walk_fuel _ _ _ _ Ea).
Qed.

(* ------------------------------------------------------------------ the hit steps from RInv2 *)
Definition hit_post2 (T : list path) (p : path) (w w1 : world) (r : option (op + exn * op) + exn) : Prop :=
  match r with
  | inl None => RInv2 (p :: T) w1 /\ files_get (c_files (w_new w1)) p = Some None /\ w_old w1 = w_old w
  | inl (Some (inl o)) => exists T', RInv2 T' w1 /\ msub (p :: T) T'
  | inl (Some (inr _)) => False
  | inr e => RInv2 (p :: T) w1 /\ isfile (w_fs w1) p = false /\ files_get (c_files (w_new w1)) p <> Some None
  end.

Theorem bf_try2 : NoRaise -> forall T n d c f sa skw w w1 r,
  RInv2 ((n :: d) :: T) w -> cache_has_file (w_new w) (n :: d) = false -> isdir (w_fs w) (n :: d) = false ->
  bf_try (n :: d) c f sa skw w = (w1, r) -> hit_post2 T (n :: d) w w1 r.
Proof.
  intros HNR T n d c f sa skw w w1 r HR2 Hunc Hnd H. pose proof HR2 as (HR & (HNC & HSH) & HW & HXo).
  pose proof (bf_try_gl _ _ _ _ _ _ _ _ HW H) as G.
  assert (P: hit_post T (n :: d) w w1 r).
  { apply (hit_core T n d c f sa skw w w1 r HR Hunc Hnd HNC); [| |exact H].
    - intros rec Hrec. apply wfrec_goodrec. apply (proj1 HW _ _ Hrec).
    - intros wl e. apply (proj1 (HNR _ _ HR2)). }
  unfold hit_post in P. unfold hit_post2. destruct r as [[[o|eo]|]|e].
  - destruct P as (T' & A & M). exists T'. split; [apply (RInv2_step _ _ _ _ HR2 G A)|exact M].
  - exact P.
  - destruct P as (A & C & D). split; [apply (RInv2_step _ _ _ _ HR2 G A)|]. split; assumption.
  - destruct P as (A & C & D). split; [apply (RInv2_step _ _ _ _ HR2 G A)|]. split; assumption.
Qed.

Theorem sb_setup2 : NoRaise -> forall T f sa skw w w1 r, RInv2 T w -> sb_setup f sa skw w = (w1, r) ->
  exists T', RInv2 T' w1 /\ msub T T' /\ w_old w1 = w_old w.
Proof.
  intros HNR T f sa skw w w1 r HR2 H. pose proof HR2 as (HR & (HNC & HSH) & HW & HXo).
  pose proof (sb_setup_gl _ _ _ _ _ _ HW H) as G.
  destruct (sbhit_core T f sa skw w w1 r HR HNC) as (T' & A & M & O); [| |exact H|].
  - intros rec Hrec. apply wfrec_goodrec. apply (proj2 HW _ _ Hrec).
  - intros wl e. apply (proj2 (HNR _ _ HR2)).
  - exists T'. split; [apply (RInv2_step _ _ _ _ HR2 G A)|]. split; assumption.
Qed.

End XC.
Arguments RInv2_R {Xc}.
Arguments RInv2_step {Xc}.
Arguments bf_try2 {Xc}.
Arguments sb_setup2 {Xc}.

Print Assumptions bf_try2.
Print Assumptions sb_setup2.
