(* Proofs/CoreLawsEx.v — validation by computation of the notions of Spec/Faithful.v:
   (a) the records Core itself produces in a first build are faithful in the sense of
       [faithful_op] (with the content oracle read off the tree the first build left);
   (b) a second build of Core (which hits the cache) and the reference build agree. *)
From Coq Require Import List String NArith ZArith Bool Arith.
From FB.Base Require Import PyVal Fs.
From FB.Gen Require Import JsonUtilGen.
From FB.Spec Require Import JsonSpec Prog Ref Oracle Faithful.
From FB.Model Require Import Types SimpleOps Builder Persist Dsl Core CoreOracle.
Import ListNotations.
Open Scope list_scope.
Open Scope string_scope.

(* ---- the functions ---- *)
Definition f_copy (p : path) (a k : pyval) : prog :=
  Ask false (QRead ["src"] METADATA) (fun o =>
    match o with
    | inl (PStr s) => Write (s ++ "!") (Ret (PInt 1))
    | inl _ => Raise (XUser 0)
    | inr e => Raise e
    end).
Definition f_boom (p : path) (a k : pyval) : prog :=
  Ask false (QExists ["nothing"]) (fun _ => Raise (XUser 7)).
(* builds a target below its own path, then tries to write itself *)
Definition f_outer (p : path) (a k : pyval) : prog :=
  BuildFile false ("x" :: p) HASH "copy" PNone (PDict []) f_copy (fun _ => Write "z" (Ret PNone)).
Definition f_lister (p : path) (a k : pyval) : prog :=
  Ask false (QListDir []) (fun _ => Ask false (QWalk [] true) (fun _ => Ask false (QGetSize ["src"]) (fun _ =>
  Ask false (QIsFile ["zz"; "src"]) (fun _ => Ask false (QRead ["none"] HASH) (fun _ => Write "l" (Ret (PList [PInt 1; PFloat (FZero false)]))))))).
Definition s_sub (a k : pyval) : prog :=
  BuildFile false ["o2"; "d"] HASH "copy" a k f_copy (fun o =>
  BuildFile false ["o3"; "d"] METADATA "boom" PNone (PDict []) f_boom (fun o' =>
  match o with inl v => Ret (PTuple [v; PStr "done"]) | inr e => Raise e end)).

Definition F : ftable :=
  {| ft_file := fun f => if String.eqb f "copy" then f_copy else if String.eqb f "boom" then f_boom
                         else if String.eqb f "outer" then f_outer else f_lister;
     ft_sub := fun f => s_sub |}.

Definition root1 : prog :=
  BuildFile false ["out"] METADATA "copy" (PList [PInt 1]) (PDict []) f_copy (fun _ =>
  Subbuild false "sub" (PInt 2) (PDict []) s_sub (fun _ =>
  BuildFile false ["deep"] METADATA "outer" PNone (PDict []) f_outer (fun _ =>
  BuildFile false ["lst"] HASH "lister" PNone (PDict []) f_lister (fun _ =>
  BuildFile false ["bm"; "e"] HASH "boom" PNone (PDict []) f_boom (fun _ => Ret (PStr "ok")))))).
(* the second build asks for JSON-equal arguments *)
Definition root2 : prog :=
  BuildFile false ["out"] METADATA "copy" (PTuple [PFloat (FFin false 1 0)]) (PDict []) f_copy (fun _ =>
  Subbuild false "sub" (PFloat (FFin false 1 1)) (PDict []) s_sub (fun _ =>
  BuildFile false ["deep"] METADATA "outer" PNone (PDict []) f_outer (fun _ =>
  BuildFile false ["lst"] HASH "lister" PNone (PDict []) f_lister (fun _ =>
  BuildFile false ["bm"; "e"] HASH "boom" PNone (PDict []) f_boom (fun _ => Ret (PStr "ok")))))).

Definition cf : path := ["cache"].
Definition vers : pyval := PDict [(PStr "copy", PInt 1); (PStr "boom", PInt 1); (PStr "outer", PInt 1);
                                  (PStr "lister", PInt 1); (PStr "sub", PInt 1)].
Definition src0 : fnode := {| f_bytes := "hello"; f_mtime := 3; f_id := 1; f_json := None |}.
Definition fs0 : fsT := [(["src"], Some (NFile src0))].

Definition b1 := core_build fs0 cf (empty_cache "b" vers) vers 10 10 root1.

(* the cache the first build commits *)
Definition cache_of_state (s : kstate) : cache :=
  {| c_name := "b";
     c_files := fold_left (fun acc e => files_set acc (fst e) (Some (snd e))) (k_newF s) [];
     c_subs := fold_left (fun acc e => subs_set acc (fst e) (Some (snd e))) (k_newS s) [];
     c_dirs := k_made s; c_fvers := vers; c_built := [] |}.

Definition st1 : kstate := match cr_state b1 with Some s => s | None => ks_with
  {| k_fs := []; k_stale := []; k_staledirs := []; k_claimedF := []; k_claimedS := []; k_need := []; k_made := [];
     k_clock := 0; k_nextid := 0; k_log := []; k_cachefile := []; k_old := empty_cache "" PNone; k_vers := PNone;
     k_newF := []; k_newS := [] |} [] [] [] [] [] [] 0%N 0%N [] [] [] end.
Definition old1 : cache := cache_of_state st1.
Definition fs1 : fsT := upd cf (Some (NFile cache_marker)) (cr_tree b1).

(* the content oracle: what the tree holds now, for the comparison result it has now *)
Definition kp_of (fs : fsT) : kappa := fun p c r =>
  match lookup fs p with
  | Some (NFile f) => if pyval_same r (cmp_of c f) then Some (f_bytes f) else None
  | _ => None
  end.
Definition kp1 : kappa := kp_of fs1.

Definition all_records (s : kstate) : list op := map snd (k_newF s) ++ map snd (k_newS s).

(* (a) every record of the first build is a trace of its function (setup failures excepted) *)
Example first_build_ok : cr_outcome b1 = inl (PStr "ok").
Proof. vm_compute. reflexivity. Qed.

Example records_faithful :
  forallb (fun o => op_setup_failed o || faithful_op kp1 F o) (all_records st1) = true.
Proof. vm_compute. reflexivity. Qed.

Example records_kinds :
  map (fun o => (op_raised o, op_setup_failed o, List.length (op_subs o))) (all_records st1)
  = [(false, false, 1%nat); (false, false, 1%nat); (true, false, 1%nat); (false, false, 1%nat); (true, false, 1%nat);
     (false, false, 5%nat); (true, false, 1%nat); (false, false, 2%nat)].
Proof. vm_compute. reflexivity. Qed.

(* (b) second build, unchanged tree: Core hits, the reference build runs everything *)
Definition b2c := core_build fs1 cf old1 vers 20 20 root2.
Definition b2r := ref_build fs1 cf (prev_of_cache old1) 20 20 root2.

Definition agree (c : core_result) (r : ref_result) : bool :=
  String.eqb (show_outcome (cr_outcome c)) (show_outcome (rr_outcome r)) &&
  str_list_eqb (red_tree (cr_tree c) cf) (red_tree (rr_tree r) cf) &&
  subseq (flat_map show_log1 (cr_log c)) (flat_map show_log1 (rr_log r)).

Example second_build_agrees : agree b2c b2r = true.
Proof. vm_compute. reflexivity. Qed.

(* the hits are real: Core's log of the second build has 4 entries, the reference log 19 *)
Example second_build_logs :
  (List.length (cr_log b2c), List.length (rr_log b2r)) = (4%nat, 19%nat).
Proof. vm_compute. reflexivity. Qed.

(* ---- scenario 2: a subbuild whose record contains a raised build_file with a nested output below its own
   path (the write failed with IsADirectoryError: the exit of [bf_end] for a blocked write) and a failed
   build_file.  The record is faithful.  In the second build Core does not serve the subbuild from the cache
   (the directory of the raised target is still physically there: phys_exists), only the nested output; the
   two builds agree ---- *)
Definition s_sub2 (a k : pyval) : prog :=
  BuildFile false ["deep2"] METADATA "outer" PNone (PDict []) f_outer (fun o =>
  BuildFile false ["bm2"; "e2"] HASH "boom" PNone (PDict []) f_boom (fun _ =>
  Ask false (QIsDir ["deep2"]) (fun d =>
  match o, d with inr (XOS XIsADirectory), inl (PBool true) => Ret (PStr "blocked") | _, _ => Ret (PStr "other") end))).
Definition F2 : ftable :=
  {| ft_file := ft_file F; ft_sub := fun f => if String.eqb f "sub2" then s_sub2 else s_sub |}.
Definition root3 : prog :=
  Subbuild false "sub2" PNone (PDict []) s_sub2 (fun o => match o with inl v => Ret v | inr e => Raise e end).
Definition vers3 : pyval := PDict [(PStr "copy", PInt 1); (PStr "boom", PInt 1); (PStr "outer", PInt 1); (PStr "sub2", PInt 1)].

Definition b3 := core_build fs0 cf (empty_cache "b" vers3) vers3 10 10 root3.
Definition st3 : kstate := match cr_state b3 with Some s => s | None => st1 end.
Definition old3 : cache :=
  {| c_name := "b";
     c_files := fold_left (fun acc e => files_set acc (fst e) (Some (snd e))) (k_newF st3) [];
     c_subs := fold_left (fun acc e => subs_set acc (fst e) (Some (snd e))) (k_newS st3) [];
     c_dirs := k_made st3; c_fvers := vers3; c_built := [] |}.
Definition fs3 : fsT := upd cf (Some (NFile cache_marker)) (cr_tree b3).
Definition kp3 : kappa := kp_of fs3.

Example scenario2_first : cr_outcome b3 = inl (PStr "blocked").
Proof. vm_compute. reflexivity. Qed.
Example scenario2_faithful :
  forallb (fun o => op_setup_failed o || faithful_op kp3 F2 o) (all_records st3) = true.
Proof. vm_compute. reflexivity. Qed.
Definition b4c := core_build fs3 cf old3 vers3 20 20 root3.
Definition b4r := ref_build fs3 cf (prev_of_cache old3) 20 20 root3.
Example scenario2_agrees : agree b4c b4r = true.
Proof. vm_compute. reflexivity. Qed.

(* ---- scenario 3: the input changed between the builds: the replay of the records that read it fails,
   Core runs those functions again, and still agrees with the reference ---- *)
Definition src1 : fnode := {| f_bytes := "HELLO"; f_mtime := 15; f_id := 1; f_json := None |}.
Definition fs1' : fsT := upd ["src"] (Some (NFile src1)) fs1.
Definition b5c := core_build fs1' cf old1 vers 20 20 root2.
Definition b5r := ref_build fs1' cf (prev_of_cache old1) 20 20 root2.
Example scenario3_agrees : agree b5c b5r = true.
Proof. vm_compute. reflexivity. Qed.
