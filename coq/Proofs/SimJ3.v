(* Proofs/SimJ3.v — HASH records in the PREVIOUS cache, part 3: Sim3 after a hit
   (SimB12.file_hit_sim3, SimB13.sub_hit_sim3) with HInv in place of hash_ok; the comparison
   mode of the current call may be HASH as soon as HInv holds.                              *)
From Coq Require Import List String Ascii NArith ZArith Bool Arith Lia.
From FB.Base Require Import PyVal Fs.
From FB.Gen Require Import JsonUtilGen.
From FB.Spec Require Import Prog Ref Oracle Faithful.
From FB.Model Require Import Types Monad CreatedFiles BuildDirs SimpleOps Builder Persist Core.
From FB.Proofs Require Import FsLemmas CleanLaws JsonLaws CoreLawsChildren ReplayLaws BuildFileLaws CmpLaws HashMemoInv CoreLaws1 CoreLaws3 CoreLaws4 CoreLaws5
     CoreRebuild1 CoreNextRegs
     ViewDefs ViewLemmas ViewScan ViewQueries ViewAnswers ViewPres ViewFrame ViewXDefs ViewXQuery ViewXSteps ViewXMake1 ViewXFail ViewXSetup
     ViewOverlay ViewOverlay2 ViewH1 ViewH2 ViewH4 ViewH5 ViewH6 ViewH7 ViewR2 ViewR5 ViewK3 ViewK4 ViewK5
     SimB1 SimB2 SimB3 SimB4 SimB5 SimB6 SimB7 SimB8 SimB10 SimB11 SimB12 SimB13 SimG4 SimG7 SimJ1 SimJ2.
Import ListNotations.
Open Scope list_scope.
Open Scope m_scope.

Section FileHitH.
  Variables (hk : bool) (W : list path) (w : world) (s : kstate).
  Hypothesis HS : Sim3 W w s.
  Hypothesis HWcl : forall p, mem_path p W = true -> cache_has_file (w_new w) p = true.
  Hypothesis Hml : maxlen (w_fs w) < walk_fuel.
  Hypothesis Hhk : hk = true -> HInv w.
  Hypothesis HSD1 : forall p, isdir (w_fs w) p = true -> visible w p = false -> mem_path p (k_staledirs s) = true.
  Hypothesis HSD2 : forall p, mem_path p (k_staledirs s) = true -> lexists (w_fs w) p = true.

  Theorem file_hit_sim3_H : forall T p c f sa skw wl rec wc cmp wa ra wf ru,
    RInv T w -> In p T -> isdir (w_fs w) (w_cachefile w) = false ->
    KInv s (Some p) -> p <> [] -> path_ok p = true ->
    cache_has_file (w_new w) p = false -> path_eqb p (w_cachefile w) = false ->
    (forall rec, cache_get_file (w_old w) p = Some rec -> file_rec_ok hk W w s p rec /\ wfrec rec = true) ->
    (c = METADATA \/ HInv w) ->
    build_file_cache_lookup p f sa skw w = (wl, inl (Some rec)) ->
    noneable_cmp p c wl = (wc, inl cmp) ->
    apply_cached_subs_of rec wc = (wa, ra) ->
    let o := OBuildFile p c f sa skw (op_subs rec) (op_ret rec) cmp false false in
    new_use_cached_operation o wa = (wf, ru) ->
    exists g subs' ret' r,
      core_file_hit s p f sa skw = Some (g, subs', ret', r) /\ cmp = cmp_of c g /\ ra = inl tt /\ ru = inl tt /\
      snd (core_file_adopt s p c f sa skw g subs' ret' r) = o /\
      (SubTables (w_new wf) (fst (core_file_adopt s p c f sa skw g subs' ret' r)) ->
       Sim3 W wf (fst (core_file_adopt s p c f sa skw g subs' ret' r))).
  Proof.
    intros T p c f sa skw wl rec wc cmp wa ra wf ru HR HinT Hcfd HK Hne Hpok Hunc Hncf Hrec Hc Hlook Hcmp Happ o Hreg.
    pose proof (RInv_X _ _ HR) as HX. pose proof (x_binv _ _ HX) as HB.
    (* 1. the lookup on both sides *)
    destruct (file_lookup_agree_H hk W w s HS HB HWcl Hml Hhk HSD1 HSD2 p f sa skw wl (inl (Some rec)) HK Hne Hpok Hunc Hncf
                (fun rc E => proj1 (Hrec rc E)) Hlook) as (Gl & P).
    destruct (core_file_hit s p f sa skw) as [[[[g subs'] ret'] r]|] eqn:Ehit; [|discriminate].
    destruct P as (rec0 & cf & Tl & M & Erec & Eget & Esubs & Eret & Eg & RR & TlR & TlA).
    inversion Erec; subst rec0. clear Erec.
    exists g, subs', ret', r. split; [reflexivity|].
    destruct (Hrec _ Eget) as [Hrok Hwf].
    (* 2. the comparison result *)
    pose proof (build_file_cache_lookup_q _ _ _ _ _ _ _ Hlook) as Ql. pose proof (qrel_RInv _ _ _ Ql HR) as HRl.
    destruct (qrel_at _ _ Ql) as (Fl & Nl & Cl & Ol).
    pose proof (noneable_cmp_q _ _ _ _ _ Hcmp) as Qc. pose proof (qrel_RInv _ _ _ Qc HRl) as HRc.
    destruct (qrel_at _ _ Qc) as (Fc & Nc & Cc & Oc).
    assert (Ecmp: cmp = cmp_of c g).
    { assert (Y: yields (noneable_cmp p c) wl (inl (disk_cmp wl p c))).
      { destruct Hc as [Hc|Hc].
        - apply (noneable_cmp_spec wl p c (good_BInv _ _ Gl) Hpok). left. exact Hc.
        - apply (noneable_cmp_spec_H wl p c (good_BInv _ _ Gl) Hpok).
          apply (proj1 (hx_HInv false w wl (build_file_cache_lookup_hxf p f sa skw w wl _ Hlook) Hc)). }
      destruct Y as [w' [E' _]].
      rewrite E' in Hcmp. inversion Hcmp. unfold disk_cmp. rewrite Fl, Eg. reflexivity. }
    split; [exact Ecmp|].
    (* 3. the adoption *)
    assert (Hreu: forallb (reusable (w_fs w) (w_new w) (w_cachefile w)) (op_subs rec) = true).
    { apply (lookup_found _ _ _ _ _ _ _ Hlook). intros rc E. apply wfrec_goodrec. apply (proj2 (Hrec rc E)). }
    assert (Hwfs: forallb wfrec (op_subs rec) = true).
    { destruct rec as [q0 r0 e0|p' c' f' a' k' sb' rt' cr' ra' sf'|f0 a0 k0 sb0 r0 ra0 sf0]; cbn [op_subs wfrec] in *; try reflexivity.
      - apply andb_true_iff in Hwf. apply Hwf.
      - exact Hwf. }
    assert (Hat: at0 (w_fs w) (w_new w) (w_cachefile w) wc) by (repeat split; congruence).
    destruct (apply_cached_view (w_fs w) (w_new w) (w_cachefile w) Hcfd rec T wc wa ra Hreu Hwfs HRc Hat Happ)
      as ((Era & Fa & Na & Oa & Ca & T' & HRa & Msub & Ladopt) & Va).
    split; [exact Era|].
    (* 4. the registration *)
    assert (HinT': In p T') by (apply (msub_in _ _ _ Msub); exact HinT).
    destruct (use_cached_ok T' wa p c f sa skw (op_subs rec) (op_ret rec) cmp HRa HinT') as (w1 & Eu & HR1).
    { congruence. }
    { rewrite Fa, Na, Ca, Fc, Nc, Cc, Fl, Nl, Cl. exact Hreu. }
    { exact Ladopt. }
    fold o in Eu. rewrite Eu in Hreg. inversion Hreg; subst w1 ru. clear Hreg.
    split; [reflexivity|].
    assert (Ewf: wf = set_new (register_op (w_new wa) o) wa).
    { unfold new_use_cached_operation, bind, get, put in Eu. destruct (assert_no_repeats (w_new wa) o); inversion Eu; reflexivity. }
    split; [unfold core_file_adopt, o; cbn [snd]; rewrite Ecmp, Esubs, Eret; reflexivity|].
    intro HST.
    (* facts about the registered paths *)
    assert (Eo_regp: regp o = p :: flat_map regp (op_subs rec)) by reflexivity.
    assert (Hsub_regp: forall a, In a (flat_map regp (op_subs rec)) ->
              cache_has_file (w_new w) a = false /\ path_eqb a (w_cachefile w) = false /\
              (In a (flat_map adopted (op_subs rec)) \/ lexists (w_fs w) a = false)).
    { intros a Ha. apply in_flat_map in Ha. destruct Ha as [sub [Hs Ha]]. rewrite forallb_forall in Hreu.
      destruct (reusable_regp _ _ _ sub (Hreu sub Hs) a Ha) as [A B]. split; [exact A|]. split; [exact B|].
      destruct (regp_cases _ _ _ sub (Hreu sub Hs) a Ha) as [K|K]; [left; apply in_flat_map; eauto|right; exact K]. }
    assert (Eadp: flat_map adopted (op_subs rec) = flat_map adp (op_subs rec)).
    { apply flat_map_ext_in. intros x Hx. rewrite forallb_forall in Hreu. apply (reusable_adp _ _ _ x (Hreu x Hx)). }
    pose proof (rr_cc _ _ _ _ _ _ _ _ RR) as HCC. pose proof (cc_cinv _ _ _ HCC) as HCI.
    (* Tl and the adopted targets are the same set *)
    assert (Hset: forall t, In t Tl <-> In t (flat_map adopted (op_subs rec))).
    { intro t. split.
      - intro Ht. destruct (rr_st _ _ _ _ _ _ _ _ RR t Ht) as [[]|Kf].
        pose proof (ci_file _ _ HCI _ Kf) as Hfile.
        rewrite <- Esubs in TlR. destruct (Hsub_regp t (TlR t Ht)) as (_ & _ & [K|K]); [exact K|].
        unfold isfile in Hfile. unfold lexists in K. destruct (lookup (w_fs w) t); discriminate.
      - intro Ht. apply TlA. rewrite <- Esubs, <- Eadp. exact Ht. }
    assert (HTlfile: forall t, In t Tl -> mem_path t (cf_files cf) = true).
    { intros t Ht. destruct (rr_st _ _ _ _ _ _ _ _ RR t Ht) as [[]|Kf]. exact Kf. }
    assert (Hreg_in: forall a, In a (regp o) -> In a T' \/ isfile (w_fs wa) a = false).
    { intros a Ha. rewrite Eo_regp in Ha. destruct Ha as [<-|Ha]; [left; exact HinT'|].
      destruct (Hsub_regp a Ha) as (_ & _ & [K|K]); [left; apply Ladopt; exact K|right].
      rewrite Fa, Fc, Fl. unfold lexists in K. unfold isfile. destruct (lookup (w_fs w) a); [discriminate|reflexivity]. }
    assert (Hreg_cf: forall a, In a (regp o) -> path_eqb a (w_cachefile wa) = false).
    { intros a Ha. rewrite Ca, Cc, Cl. rewrite Eo_regp in Ha. destruct Ha as [<-|Ha]; [exact Hncf|apply (Hsub_regp a Ha)]. }
    pose proof (view_registered T' wa o (RInv_X _ _ HRa) Hreg_in Hreg_cf) as Vf. cbv zeta in Vf. rewrite <- Ewf in Vf.
    assert (Vc: forall a, lookup (view_fs wc) a = lookup (view_fs w) a).
    { intro a. destruct (qrel_facts _ _ _ HX Ql) as (HXl & Sl & _). destruct (qrel_facts _ _ _ HXl Qc) as (_ & Sc & _).
      rewrite (same_view_view_fs _ _ Sc), (same_view_view_fs _ _ Sl). reflexivity. }
    assert (Efs: w_fs wa = w_fs w) by congruence.
    assert (Enew: w_new wa = w_new w) by congruence.
    (* the final state of Core *)
    set (s2 := fst (core_file_adopt s p c f sa skw g subs' ret' r)) in *.
    assert (Es2fs: k_fs s2 = upd p (Some (NFile g)) (rp_fs r)) by reflexivity.
    assert (Eo': OBuildFile p c f sa skw subs' ret' (cmp_of c g) false false = o).
    { unfold o. rewrite Ecmp, Esubs, Eret. reflexivity. }
    assert (Es2cl: k_claimedF s2 = fst (tree_claims o) ++ k_claimedF s) by (unfold s2, core_file_adopt; rewrite Eo'; reflexivity).
    assert (Es2nf: k_newF s2 = k_newF s ++ fst (tree_regs o)) by (unfold s2, core_file_adopt; rewrite Eo'; reflexivity).
    assert (Es2st: k_stale s2 = stale_del (fold_left stale_del (tree_outputs o) (k_stale s)) p) by (unfold s2, core_file_adopt; rewrite Eo'; reflexivity).
    assert (Hndo: NoDup (fst (tree_claims o))).
    { rewrite <- regp_claims, Eo_regp.
      destruct (lookup_some_shape _ _ _ _ _ _ _ Hlook) as (p' & c' & f' & a' & k' & sb' & rt' & cr' & sf' & Eshape).
      rewrite Eshape in Hrok |- *. cbn [file_rec_ok op_subs] in Hrok |- *.
      destruct Hrok as (_ & _ & (_ & _ & Hnd & Hnp)). constructor; [|exact Hnd]. intro K. apply (Hnp p K). reflexivity. }
    constructor.
    - (* the trees *)
      intro a. rewrite (Vf a), Es2fs.
      pose proof (rr_tree _ _ _ _ _ _ _ _ RR a) as K. rewrite (lookup_overlay_ov _ _ _ a HCC) in K. unfold ov in K.
      destruct (list_eq_dec string_dec a p) as [->|Hap].
      + rewrite Eo_regp. cbn [mem_path]. rewrite path_eqb_refl. cbn [orb].
        assert (Hf: isfile (w_fs wa) p = true) by (rewrite Efs; unfold isfile; rewrite Eg; reflexivity).
        rewrite Hf. cbn [andb]. rewrite Efs, Eg, (lookup_upd_eq _ _ _ Hne), (unclaimed_notW W w HWcl p Hunc). reflexivity.
      + rewrite (lookup_upd_neq _ _ _ _ Hap). rewrite Eo_regp. cbn [mem_path].
        assert (Ep: path_eqb p a = false) by (apply path_eqb_neq; congruence). rewrite Ep. cbn [orb].
        rewrite (existsb_same_set (is_ancestor a) _ _ Hset) in K.
        destruct (mem_path a (flat_map regp (op_subs rec)) && isfile (w_fs wa) a) eqn:Ereg.
        * (* an adopted output: visible now, put in place by the scratch copy *)
          apply andb_true_iff in Ereg. destruct Ereg as [Er Ef]. apply mem_path_In in Er. rewrite Efs in Ef.
          destruct (Hsub_regp a Er) as (Ua & _ & [Ka|Ka]).
          2:{ unfold isfile in Ef. unfold lexists in Ka. destruct (lookup (w_fs w) a); discriminate. }
          pose proof (proj2 (Hset a) Ka) as HaTl. pose proof (HTlfile a HaTl) as Haf.
          assert (Hnd: existsb (is_ancestor a) (flat_map adopted (op_subs rec)) = false).
          { rewrite <- (existsb_same_set (is_ancestor a) _ _ Hset). rewrite <- (cf_dirs_anc _ _ _ a HCC). apply (ci_disj _ _ HCI _ Haf). }
          rewrite Hnd, Haf in K. rewrite (unclaimed_notW W w HWcl a Ua) in K |- *. rewrite Efs. exact K.
        * rewrite (Va a), (Vc a).
          destruct (existsb (is_ancestor a) (flat_map adopted (op_subs rec))); [exact K|].
          destruct (mem_path a (cf_files cf)) eqn:Eaf; [|exact K].
          (* a finished target is a registered path holding a file *)
          exfalso. pose proof (rr_files _ _ _ _ _ _ _ _ RR a Eaf) as HaTl.
          pose proof (ci_file _ _ HCI _ Eaf) as Hfa. rewrite <- Efs in Hfa. rewrite Hfa, andb_true_r in Ereg.
          rewrite <- Esubs in TlR. pose proof (TlR a HaTl) as Hr. apply mem_path_In in Hr. congruence.
    - rewrite Ewf. cbn [w_cachefile set_new]. rewrite Ca, Cc, Cl. apply (s3_cf _ _ _ HS).
    - rewrite Ewf. cbn [w_old set_new]. rewrite Oa, Oc, Ol. apply (s3_old _ _ _ HS).
    - intro fn. rewrite Ewf. cbn [w_new set_new]. unfold func_version. rewrite (proj1 (reg_fvers o (w_new wa))), Enew.
      apply (s3_vers _ _ _ HS fn).
    - intro q. rewrite Es2cl, mem_path_app, Ewf. cbn [w_new set_new]. rewrite reg_has_file, Enew, (s3_claimsF _ _ _ HS q). reflexivity.
    - apply (proj1 HST).
    - (* the log *)
      assert (L1: vis_log (w_log wl) = vis_log (w_log w)).
      { destruct Ql as (_ & _ & S0). destruct S0 as (_ & _ & _ & _ & _ & _ & _ & _ & A9 & _). rewrite A9. reflexivity. }
      assert (L2: vis_log (w_log wc) = vis_log (w_log wl)).
      { destruct Qc as (_ & _ & S0). destruct S0 as (_ & _ & _ & _ & _ & _ & _ & _ & A9 & _). rewrite A9. reflexivity. }
      pose proof (apply_cached_subs_of_vlog rec _ _ _ Happ) as L3. cbn in L3. unfold vlog in L3.
      pose proof (new_use_cached_operation_vlog o _ _ _ Eu) as L4.
      transitivity (vis_log (w_log w)); [congruence|]. apply (s3_log _ _ _ HS).
    - (* the records of files *)
      intro q. rewrite Es2nf, kf_get_app, Ewf. unfold cache_get_file. cbn [w_new set_new].
      rewrite (reg_files_all o (w_new wa) q Hndo), Enew.
      pose proof (s3_recF _ _ _ HS q) as Kq. unfold cache_get_file in Kq.
      destruct (kf_get (fst (tree_regs o)) q) as [x|] eqn:Ex.
      + (* a registered path was not claimed *)
        assert (Hq: In q (regp o)) by (rewrite regp_claims, <- regs_keysF; eapply kf_get_keys; exact Ex).
        assert (Huq: cache_has_file (w_new w) q = false).
        { rewrite Eo_regp in Hq. destruct Hq as [<-|Hq]; [exact Hunc|apply (Hsub_regp q Hq)]. }
        unfold cache_has_file in Huq. destruct (files_get (c_files (w_new w)) q); [discriminate|].
        destruct (kf_get (k_newF s) q); [contradiction|]. apply rec_rel_refl.
      + destruct (kf_get (k_newF s) q); exact Kq.
    - apply (proj2 HST).
    - (* the stale store *)
      intro q. rewrite Es2st, Ewf. cbn [w_fs w_old w_new set_new]. rewrite Oa, Oc, Ol, Efs, reg_has_file, Enew, <- regp_claims.
      pose proof (s3_stale _ _ _ HS q) as Kq.
      assert (Hout: forall a, In a (tree_outputs o) -> In a (regp o)).
      { intros a Ha. unfold o in Ha. cbn [tree_outputs app] in Ha. rewrite Eo_regp. destruct Ha as [<-|Ha]; [left; reflexivity|right].
        apply in_flat_map in Ha. destruct Ha as [sub [Hs Ha]]. rewrite outputs_adopted in Ha.
        rewrite forallb_forall in Hreu. rewrite (reusable_adp _ _ _ sub (Hreu sub Hs)) in Ha.
        apply in_flat_map. exists sub. split; [exact Hs|apply adp_regp; exact Ha]. }
      destruct (list_eq_dec string_dec q p) as [->|Hqp].
      + rewrite stale_del_same. rewrite Eo_regp. cbn [mem_path]. rewrite path_eqb_refl. cbn [orb negb].
        rewrite andb_false_r. destruct (lookup (w_fs w) p) as [[h|]|]; reflexivity.
      + rewrite (stale_del_other _ _ _ Hqp), stale_get_fold_del.
        destruct (mem_path q (tree_outputs o)) eqn:Eout.
        * apply mem_path_In in Eout. apply Hout in Eout. apply mem_path_In in Eout. rewrite Eout. cbn [orb negb].
          rewrite andb_false_r. destruct (lookup (w_fs w) q) as [[h|]|]; reflexivity.
        * rewrite Kq. destruct (mem_path q (regp o)) eqn:Er; cbn [orb]; [|reflexivity].
          (* registered, not an output: a failed record; nothing is on disk there *)
          apply mem_path_In in Er. rewrite Eo_regp in Er. destruct Er as [Er|Er]; [congruence|].
          destruct (Hsub_regp q Er) as (_ & _ & [Ka|Ka]).
          -- exfalso. assert (In q (tree_outputs o)).
             { unfold o. cbn [tree_outputs app]. right. apply in_flat_map in Ka. destruct Ka as [sub [Hs Ka]].
               apply in_flat_map. exists sub. split; [exact Hs|rewrite outputs_adopted; exact Ka]. }
             apply mem_path_In in H. congruence.
          -- unfold lexists in Ka. destruct (lookup (w_fs w) q); [discriminate|reflexivity].
  Qed.
End FileHitH.

Section SubHitH.
  Variables (hk : bool) (W : list path) (w : world) (s : kstate).
  Hypothesis HS : Sim3 W w s.
  Hypothesis HWcl : forall p, mem_path p W = true -> cache_has_file (w_new w) p = true.
  Hypothesis Hml : maxlen (w_fs w) < walk_fuel.
  Hypothesis Hhk : hk = true -> HInv w.
  Hypothesis HSD1 : forall p, isdir (w_fs w) p = true -> visible w p = false -> mem_path p (k_staledirs s) = true.
  Hypothesis HSD2 : forall p, mem_path p (k_staledirs s) = true -> lexists (w_fs w) p = true.

  Theorem sub_hit_sim3_H : forall T f sa skw wl rec wa ra wf ru,
    RInv T w -> isdir (w_fs w) (w_cachefile w) = false -> KInv s None ->
    let key := subbuild_key f sa skw in
    cache_has_subbuild (w_new w) key = false ->
    (forall rec, subs_get (c_subs (w_old w)) key = Some (Some rec) -> sub_rec_ok hk W w s rec /\ wfrec rec = true) ->
    subbuild_cache_lookup key f w = (wl, inl (Some rec)) ->
    apply_cached_subs_of rec wl = (wa, ra) ->
    let o := OSubbuild f sa skw (op_subs rec) (op_ret rec) false false in
    new_use_cached_operation o wa = (wf, ru) ->
    exists subs' ret' r,
      core_sub_hit s key f = Some (subs', ret', r) /\ ra = inl tt /\ ru = inl tt /\
      OSubbuild f sa skw subs' ret' false false = o /\
      (SubTables (w_new wf) (adopt s r o) -> Sim3 W wf (adopt s r o)).
  Proof.
    intros T f sa skw wl rec wa ra wf ru HR Hcfd HK key Hunc Hrec Hlook Happ o Hreg.
    pose proof (RInv_X _ _ HR) as HX. pose proof (x_binv _ _ HX) as HB.
    (* 1. the lookup on both sides *)
    destruct (sub_lookup_agree_H hk W w s HS HB HWcl Hml Hhk HSD1 HSD2 key f wl (inl (Some rec)) HK
                (fun rc E => proj1 (Hrec rc E)) Hlook) as (Gl & P).
    destruct (core_sub_hit s key f) as [[[subs' ret'] r]|] eqn:Ehit; [|discriminate].
    destruct P as (rec0 & cf & Tl & M & Erec & Eget & Esubs & Eret & RR & TlR & TlA).
    inversion Erec; subst rec0. clear Erec.
    exists subs', ret', r. split; [reflexivity|].
    destruct (Hrec _ Eget) as [Hrok Hwf].
    pose proof (subbuild_cache_lookup_q _ _ _ _ _ Hlook) as Ql. pose proof (qrel_RInv _ _ _ Ql HR) as HRl.
    destruct (qrel_at _ _ Ql) as (Fl & Nl & Cl & Ol).
    (* 2. the adoption *)
    destruct (sublookup_found _ _ _ _ _ Hlook) as [Hreu Hshape].
    { intros rc E. apply wfrec_goodrec. apply (proj2 (Hrec rc E)). }
    assert (Hwfs: forallb wfrec (op_subs rec) = true).
    { destruct Hshape as (f' & a' & k' & sb' & r' & [->| ->]); cbn [op_subs wfrec] in *; exact Hwf. }
    assert (Hat: at0 (w_fs w) (w_new w) (w_cachefile w) wl) by (repeat split; congruence).
    destruct (apply_cached_view (w_fs w) (w_new w) (w_cachefile w) Hcfd rec T wl wa ra Hreu Hwfs HRl Hat Happ)
      as ((Era & Fa & Na & Oa & Ca & T' & HRa & Msub & Ladopt) & Va).
    split; [exact Era|].
    assert (Efs: w_fs wa = w_fs w) by congruence.
    assert (Enew: w_new wa = w_new w) by congruence.
    (* facts about the registered paths *)
    assert (Eo_regp: regp o = flat_map regp (op_subs rec)) by reflexivity.
    assert (Hsub_regp: forall a, In a (flat_map regp (op_subs rec)) ->
              cache_has_file (w_new w) a = false /\ path_eqb a (w_cachefile w) = false /\
              (In a (flat_map adopted (op_subs rec)) \/ lexists (w_fs w) a = false)).
    { intros a Ha. apply in_flat_map in Ha. destruct Ha as [sub [Hs Ha]]. rewrite forallb_forall in Hreu.
      destruct (reusable_regp _ _ _ sub (Hreu sub Hs) a Ha) as [A B]. split; [exact A|]. split; [exact B|].
      destruct (regp_cases _ _ _ sub (Hreu sub Hs) a Ha) as [K|K]; [left; apply in_flat_map; eauto|right; exact K]. }
    assert (Hreg_in: forall a, In a (regp o) -> In a T' \/ isfile (w_fs wa) a = false).
    { intros a Ha. rewrite Eo_regp in Ha.
      destruct (Hsub_regp a Ha) as (_ & _ & [K|K]); [left; apply Ladopt; exact K|right].
      rewrite Efs. unfold lexists in K. unfold isfile. destruct (lookup (w_fs w) a); [discriminate|reflexivity]. }
    (* 3. the registration *)
    destruct (use_cached_gen T' wa o HRa) as (w1 & Eu & HR1 & _).
    { unfold o. cbn [assert_no_repeats orb]. rewrite Enew. fold key. rewrite Hunc. cbn [negb andb].
      clear -Hreu. induction (op_subs rec) as [|x rest IH]; cbn [forallb] in *; [reflexivity|].
      apply andb_true_iff in Hreu. destruct Hreu as [H1 H2]. rewrite (reusable_no_repeats _ _ _ _ H1), (IH H2). reflexivity. }
    { exact Hreg_in. }
    rewrite Eu in Hreg. inversion Hreg; subst w1 ru. clear Hreg.
    split; [reflexivity|].
    assert (Ewf: wf = set_new (register_op (w_new wa) o) wa).
    { unfold new_use_cached_operation, bind, get, put in Eu. destruct (assert_no_repeats (w_new wa) o); inversion Eu; reflexivity. }
    split; [unfold o; rewrite Esubs, Eret; reflexivity|].
    intro HST.
    assert (Eadp: flat_map adopted (op_subs rec) = flat_map adp (op_subs rec)).
    { apply flat_map_ext_in. intros x Hx. rewrite forallb_forall in Hreu. apply (reusable_adp _ _ _ x (Hreu x Hx)). }
    pose proof (rr_cc _ _ _ _ _ _ _ _ RR) as HCC. pose proof (cc_cinv _ _ _ HCC) as HCI.
    assert (Hset: forall t, In t Tl <-> In t (flat_map adopted (op_subs rec))).
    { intro t. split.
      - intro Ht. destruct (rr_st _ _ _ _ _ _ _ _ RR t Ht) as [[]|Kf].
        pose proof (ci_file _ _ HCI _ Kf) as Hfile.
        rewrite <- Esubs in TlR. destruct (Hsub_regp t (TlR t Ht)) as (_ & _ & [K|K]); [exact K|].
        unfold isfile in Hfile. unfold lexists in K. destruct (lookup (w_fs w) t); discriminate.
      - intro Ht. apply TlA. rewrite <- Esubs, <- Eadp. exact Ht. }
    assert (HTlfile: forall t, In t Tl -> mem_path t (cf_files cf) = true).
    { intros t Ht. destruct (rr_st _ _ _ _ _ _ _ _ RR t Ht) as [[]|Kf]. exact Kf. }
    assert (Hreg_cf: forall a, In a (regp o) -> path_eqb a (w_cachefile wa) = false).
    { intros a Ha. rewrite Ca, Cl. rewrite Eo_regp in Ha. apply (Hsub_regp a Ha). }
    pose proof (view_registered T' wa o (RInv_X _ _ HRa) Hreg_in Hreg_cf) as Vf. cbv zeta in Vf. rewrite <- Ewf in Vf.
    assert (Vc: forall a, lookup (view_fs wl) a = lookup (view_fs w) a).
    { intro a. destruct (qrel_facts _ _ _ HX Ql) as (HXl & Sl & _). rewrite (same_view_view_fs _ _ Sl). reflexivity. }
    set (s2 := adopt s r o) in *.
    assert (Hndo: NoDup (fst (tree_claims o))).
    { rewrite <- regp_claims, Eo_regp.
      destruct Hshape as (f' & a' & k' & sb' & r' & [Eshape|Eshape]); rewrite Eshape in Hrok |- *; cbn [sub_rec_ok op_subs] in Hrok |- *;
        destruct Hrok as (_ & _ & Hnd & _); exact Hnd. }
    constructor.
    - (* the trees *)
      intro a. rewrite (Vf a). change (k_fs s2) with (rp_fs r).
      pose proof (rr_tree _ _ _ _ _ _ _ _ RR a) as K. rewrite (lookup_overlay_ov _ _ _ a HCC) in K. unfold ov in K.
      rewrite Eo_regp.
      rewrite (existsb_same_set (is_ancestor a) _ _ Hset) in K.
      destruct (mem_path a (flat_map regp (op_subs rec)) && isfile (w_fs wa) a) eqn:Ereg.
      + apply andb_true_iff in Ereg. destruct Ereg as [Er Ef]. apply mem_path_In in Er. rewrite Efs in Ef.
        destruct (Hsub_regp a Er) as (Ua & _ & [Ka|Ka]).
        2:{ unfold isfile in Ef. unfold lexists in Ka. destruct (lookup (w_fs w) a); discriminate. }
        pose proof (proj2 (Hset a) Ka) as HaTl. pose proof (HTlfile a HaTl) as Haf.
        assert (Hnd: existsb (is_ancestor a) (flat_map adopted (op_subs rec)) = false).
        { rewrite <- (existsb_same_set (is_ancestor a) _ _ Hset). rewrite <- (cf_dirs_anc _ _ _ a HCC). apply (ci_disj _ _ HCI _ Haf). }
        rewrite Hnd, Haf in K. rewrite (unclaimed_notW W w HWcl a Ua) in K |- *. rewrite Efs. exact K.
      + rewrite (Va a), (Vc a).
        destruct (existsb (is_ancestor a) (flat_map adopted (op_subs rec))); [exact K|].
        destruct (mem_path a (cf_files cf)) eqn:Eaf; [|exact K].
        exfalso. pose proof (rr_files _ _ _ _ _ _ _ _ RR a Eaf) as HaTl.
        pose proof (ci_file _ _ HCI _ Eaf) as Hfa. rewrite <- Efs in Hfa. rewrite Hfa, andb_true_r in Ereg.
        rewrite <- Esubs in TlR. pose proof (TlR a HaTl) as Hr. apply mem_path_In in Hr. congruence.
    - rewrite Ewf. cbn [w_cachefile set_new]. rewrite Ca, Cl. apply (s3_cf _ _ _ HS).
    - rewrite Ewf. cbn [w_old set_new]. rewrite Oa, Ol. apply (s3_old _ _ _ HS).
    - intro fn. rewrite Ewf. cbn [w_new set_new]. unfold func_version. rewrite (proj1 (reg_fvers o (w_new wa))), Enew.
      apply (s3_vers _ _ _ HS fn).
    - intro q. change (k_claimedF s2) with (fst (tree_claims o) ++ k_claimedF s).
      rewrite mem_path_app, Ewf. cbn [w_new set_new]. rewrite reg_has_file, Enew, (s3_claimsF _ _ _ HS q). reflexivity.
    - apply (proj1 HST).
    - assert (L1: vis_log (w_log wl) = vis_log (w_log w)).
      { destruct Ql as (_ & _ & S0). destruct S0 as (_ & _ & _ & _ & _ & _ & _ & _ & A9 & _). rewrite A9. reflexivity. }
      pose proof (apply_cached_subs_of_vlog rec _ _ _ Happ) as L3. cbn in L3. unfold vlog in L3.
      pose proof (new_use_cached_operation_vlog o _ _ _ Eu) as L4.
      transitivity (vis_log (w_log w)); [congruence|]. apply (s3_log _ _ _ HS).
    - intro q. change (k_newF s2) with (k_newF s ++ fst (tree_regs o)).
      rewrite kf_get_app, Ewf. unfold cache_get_file. cbn [w_new set_new].
      rewrite (reg_files_all o (w_new wa) q Hndo), Enew.
      pose proof (s3_recF _ _ _ HS q) as Kq. unfold cache_get_file in Kq.
      destruct (kf_get (fst (tree_regs o)) q) as [x|] eqn:Ex.
      + assert (Hq: In q (regp o)) by (rewrite regp_claims, <- regs_keysF; eapply kf_get_keys; exact Ex).
        assert (Huq: cache_has_file (w_new w) q = false) by (rewrite Eo_regp in Hq; apply (Hsub_regp q Hq)).
        unfold cache_has_file in Huq. destruct (files_get (c_files (w_new w)) q); [discriminate|].
        destruct (kf_get (k_newF s) q); [contradiction|]. apply rec_rel_refl.
      + destruct (kf_get (k_newF s) q); exact Kq.
    - apply (proj2 HST).
    - intro q. change (k_stale s2) with (fold_left stale_del (tree_outputs o) (k_stale s)).
      rewrite Ewf. cbn [w_fs w_old w_new set_new]. rewrite Oa, Ol, Efs, reg_has_file, Enew, <- regp_claims.
      pose proof (s3_stale _ _ _ HS q) as Kq.
      assert (Hout: forall a, In a (tree_outputs o) -> In a (regp o)).
      { intros a Ha. unfold o in Ha. cbn [tree_outputs] in Ha. rewrite Eo_regp.
        apply in_flat_map in Ha. destruct Ha as [sub [Hs Ha]]. rewrite outputs_adopted in Ha.
        rewrite forallb_forall in Hreu. rewrite (reusable_adp _ _ _ sub (Hreu sub Hs)) in Ha.
        apply in_flat_map. exists sub. split; [exact Hs|apply adp_regp; exact Ha]. }
      rewrite stale_get_fold_del.
      destruct (mem_path q (tree_outputs o)) eqn:Eout.
      + apply mem_path_In in Eout. apply Hout in Eout. apply mem_path_In in Eout. rewrite Eout. cbn [orb negb].
        rewrite andb_false_r. destruct (lookup (w_fs w) q) as [[h|]|]; reflexivity.
      + rewrite Kq. destruct (mem_path q (regp o)) eqn:Er; cbn [orb]; [|reflexivity].
        apply mem_path_In in Er. rewrite Eo_regp in Er.
        destruct (Hsub_regp q Er) as (_ & _ & [Ka|Ka]).
        * exfalso. assert (In q (tree_outputs o)).
          { unfold o. cbn [tree_outputs]. apply in_flat_map in Ka. destruct Ka as [sub [Hs Ka]].
            apply in_flat_map. exists sub. split; [exact Hs|rewrite outputs_adopted; exact Ka]. }
          apply mem_path_In in H. congruence.
        * unfold lexists in Ka. destruct (lookup (w_fs w) q); [discriminate|reflexivity].
  Qed.
End SubHitH.

Print Assumptions file_hit_sim3_H.
Print Assumptions sub_hit_sim3_H.
