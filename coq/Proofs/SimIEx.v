(* Proofs/SimIEx.v — validation by evaluation for SimI2.v (C10: no directory made by the build survives
   unless the new cache records it), on computed builds:
   [inside]: histories covered by SimI2.no_unrecorded_directory_survives but not by
             CommitDirs3Main.commit_leaves_exact_wf -- the cache file in directories that do not exist
             yet (first build) or that the previous build made (rebuilds: the directory is dead in the
             view when the build starts), with failing nested build_file calls below them;
   [outside]: histories NOT covered by the theorem -- a target with a path component of 256 bytes
             (mkdir fails part-way, at each level; before / after / below successful targets; on a
             rebuild): the statement (SimI2.no_unrecorded_directory_survives_any_target_statement)
             holds on all of them;
   [outside_ill_formed_previous_cache]: previous caches that violate old_ok;
   [first_build_instance]: the theorem instantiated (all hypotheses proved) on a first build whose cache
             file lies two new directories deep, with a failing call: the theorem is not vacuous there.
   New file; edits nothing. *)
From Coq Require Import List String Ascii NArith ZArith Bool Arith Lia.
From FB.Base Require Import PyVal Fs.
From FB.Gen Require Import JsonUtilGen.
From FB.Spec Require Import Prog Ref Oracle.
From FB.Model Require Import Types Monad BuildDirs SimpleOps Builder Persist Build Run Dsl Frame.
From FB.Proofs Require Import ViewDefs ViewInit ViewR2 ViewR3 CommitDirsEx SimI2.
Import ListNotations.
Open Scope string_scope.

Fixpoint rep (n : nat) : string := match n with O => "" | S k => String "a"%char (rep k) end.
Definition LONG : string := rep 256.

(* the statement, as a check over every path of the two trees (CommitDirsEx.chkB1), and the
   companion "no EMPTY directory made by the build remains" (chkC) *)
Definition holds (cf : path) (h : list hstep) (pr : prog) : bool :=
  let w := steps cf h init_world in
  let '(w', r) := run_build cf "n" (PDict []) pr w in
  committed r && chkB1 (w_new w') (w_fs w) (w_fs w') && chkC (w_fs w) (w_fs w').

Definition cf2 : path := ["cache.gz"; "k2"; "k1"].
Definition failing (p : path) (k : outcome -> prog) : prog := bfw p (fun _ _ _ => Write "z" boom) k.

Example inside :
  forallb (fun hp => holds cf2 (fst hp) (snd hp))
    [ ([], b1);
      ([B b1], b1);
      ([B b1], failing ["x"; "k2"; "k1"] ok);
      ([B b1], failing ["x"; "k2"; "k1"] (fun _ => bf ["y"; "k2"; "k1"] ok));
      ([B (bf ["o"; "k2"; "k1"] ok)], failing ["x"; "k3"; "k2"; "k1"] ok);
      ([B (bf ["o"; "k3"; "k2"; "k1"] ok)], failing ["x"; "k3"; "k2"; "k1"] ok);
      ([B (bf ["o"; "k3"; "k2"; "k1"] ok)], failing ["x"; "k3"; "k2"; "k1"] (fun _ => bf ["o"; "k3"; "k2"; "k1"] ok));
      ([], failing ["x"; "k3"; "k2"; "k1"] (fun _ => bf ["o"; "k4"; "k2"; "k1"] ok));
      ([B b1; HMutate [FWrite ["ff"; "k2"; "k1"] "foreign"]], failing ["x"; "k2"; "k1"] ok) ] = true.
Proof. vm_compute. reflexivity. Qed.

Example outside :
  forallb (fun hp => holds cfp (fst hp) (snd hp))
    [ ([], bf ["out"; LONG; "c"] ok);
      ([], bf ["out"; "x"; LONG] ok);
      ([], bf [LONG; "d"; "c"] ok);
      ([], bf ["o1"; "c"] (fun _ => bf ["out"; LONG; "c"] ok));
      ([], bf ["out"; LONG; "c"] (fun _ => bf ["o1"; "c"] ok));
      ([], bf ["out"; LONG; "d"; "c"] (fun _ => bf ["o1"; "c"] ok));
      ([], bf [LONG; "d"; "c"] (fun _ => bf ["o1"; "c"] ok));
      ([B (bf ["o1"; "d"; "c"] ok)], bf ["out"; LONG; "d"; "c"] ok);
      ([B (bf ["o1"; "d"; "c"] ok)], bf ["out"; LONG; "d"; "c"] (fun _ => bf ["o2"; "c"] ok));
      ([B (bf ["o1"; "d"; "c"] ok)], bf [LONG; "d"; "c"] (fun _ => bf ["o2"; "c"] ok));
      ([], bfw ["top"; "t"] (fun _ _ _ => bf ["out"; LONG; "d"; "c"] (fun _ => Write "x" (Ret PNone))) ok);
      ([], bfw ["top"; "d"; "c"] (fun _ _ _ => bf ["out"; LONG; "d"; "c"] (fun _ => Write "x" boom)) ok);
      ([], bfw ["top"; "d"; "c"] (fun _ _ _ => bf ["out"; LONG; "e"; "d"; "c"] (fun _ => Write "x" boom)) ok) ] = true.
Proof. vm_compute. reflexivity. Qed.

(* the same with the cache file in new directories *)
Example outside_cf2 :
  forallb (fun hp => holds cf2 (fst hp) (snd hp))
    [ ([], bf ["out"; LONG; "k2"; "k1"] ok);
      ([B b1], bf ["out"; LONG; "k2"; "k1"] ok);
      ([B b1], bf ["out"; LONG; "k3"; "k2"; "k1"] (fun _ => failing ["x"; "k3"; "k2"; "k1"] ok)) ] = true.
Proof. vm_compute. reflexivity. Qed.

(* previous caches that are NOT old_ok (hand-made: the list of created directories also names the
   root, an output, a path below an output, the cache file, a path below the cache file, a path
   that does not exist): whenever the build commits, the statement holds *)
Definition poke (cf : path) (f : cache -> cache) (w : world) : world :=
  match lookup (w_fs w) cf with
  | Some (NFile g) =>
      match cache_of_json (f_json g) with
      | ReadOk c => set_fs (upd cf (Some (NFile {| f_bytes := f_bytes g; f_mtime := f_mtime g; f_id := f_id g;
                                                   f_json := cache_to_json (f c) |})) (w_fs w)) w
      | _ => w
      end
  | _ => w
  end.
Definition adddirs (l : list path) (c : cache) : cache := cache_with c (c_files c) (c_subs c) (c_dirs c ++ l) (c_built c).
Definition holdsw (cf : path) (w : world) (pr : prog) : bool :=
  let '(w', r) := run_build cf "n" (PDict []) pr w in
  negb (committed r) || chkB1 (w_new w') (w_fs w) (w_fs w').
Definition progs : list prog :=
  [b1; failing ["x"; "d"; "c"] ok; bf ["q"; "out"; "d"; "c"] ok; failing ["q"; "sub"; "out"; "d"; "c"] ok;
   bf ["q"; "sub"; "out"; "d"; "c"] ok; failing ["q"; "zz"] ok; bf ["q"; "zz"] ok; bf ["q"; "cache.gz"] ok; Ret PNone].

Example outside_ill_formed_previous_cache :
  forallb (fun extra => let w := poke cfp (adddirs extra) (steps cfp [B b1] init_world) in
                        forallb (holdsw cfp w) progs)
    [ [["zz"]]; [[]]; [["sub"; "out"; "d"; "c"]]; [["out"; "d"; "c"]]; [["cache.gz"]]; [["k"; "cache.gz"]] ] = true.
Proof. vm_compute. reflexivity. Qed.

(* ------------------------------------------------------------------ the theorem is not vacuous *)
Definition t1 : path := ["x"; "k3"; "k2"; "k1"].
Definition t2 : path := ["o"; "k4"; "k2"; "k1"].
Definition pr0 : prog := failing t1 (fun _ => bf t2 ok).
Definition P0 (p : path) : Prop := p = t1 \/ p = t2.


Example first_build_instance :
  let w' := fst (run_build cf2 "n" (PDict []) pr0 init_world) in
  forall d, lookup (w_fs w') d = Some NDir -> d <> [] -> In d (c_dirs (w_new w')).
Proof.
  intros w' d Hd Hne.
  assert (Eold : old_cache_of (w_fs init_world) cf2 "n" (PDict []) = empty_cache "n" (PDict [])) by reflexivity.
  apply (no_unrecorded_directory_survives cf2 "n" (PDict []) (PDict []) pr0 init_world w' PNone P0).
  - reflexivity.
  - vm_compute. reflexivity.
  - unfold pr0, failing, bfw, bf, bfw, wr, ok, boom.
    apply AT_BuildFile; [left; reflexivity| |].
    + intros. apply AT_Write. apply AT_Raise.
    + intros o. apply AT_BuildFile; [right; reflexivity| |].
      * intros. apply AT_Write. apply AT_Ret.
      * intros. apply AT_Ret.
  - intros p n H. destruct p as [|m p]; [reflexivity|]. cbn in H. discriminate H.
  - rewrite Eold. intros a t Ht Hb. split.
    + intros f Hl. destruct a as [|m a]; cbn in Hl; discriminate Hl.
    + assert (Ht' : t = t1 \/ t = t2 \/ t = cf2).
      { destruct Ht as [[Y|Y]|[Y|Y]]; auto. cbn in Y. destruct Y. }
      unfold P0, t1, t2, cf2 in *. intros [Y|Y]; subst a;
        destruct Ht' as [Y|[Y|Y]]; subst t; vm_compute in Hb; discriminate Hb.
  - rewrite Eold. intros d0 [].
  - rewrite Eold. split; intros; discriminate.
  - rewrite Eold. constructor; cbn.
    + constructor.
    + intros [].
    + intros a d0 _ [].
  - intros p [->| ->]; vm_compute; reflexivity.
  - cbn. unfold walk_fuel. lia.
  - cbn. unfold walk_fuel. lia.
  - vm_compute. reflexivity.
  - exact Hd.
  - intro Y. destruct d as [|m d]; [exact (Hne eq_refl)|]. cbn in Y. discriminate Y.
Qed.

Print Assumptions first_build_instance.
