(* Proofs/SimC11.v — glue SimA/SimB, part 11: the subbuild node for the relation Sim5, for
   previous caches of the class okc, with no hypothesis about cache hits (the analogue of
   SimC10.bf_node5; the proof follows SimA2Sub.sb_node_proof).                               *)
From Coq Require Import List String Ascii NArith ZArith Bool Arith Lia.
From FB.Base Require Import PyVal Fs.
From FB.Gen Require Import JsonUtilGen.
From FB.Spec Require Import JsonSpec Prog Ref Oracle Faithful.
From FB.Model Require Import Types Monad CreatedFiles BuildDirs SimpleOps Builder Persist Build Run Frame Core CoreOracle.
From FB.Proofs Require Import FsLemmas JsonLaws ReplayLaws CleanLaws BuildFileLaws HashMemoInv HashMemoRun CoreLaws1 CoreLaws2 CoreLaws3 CoreLaws4
     ViewDefs ViewLemmas ViewFrame ViewInit ViewPres ViewXDefs ViewXFrame ViewXError ViewXQuery ViewXSteps ViewXMake1 ViewXMake2 ViewXFail ViewXSetup ViewXRun
     ViewH7 ViewR1 ViewR2 ViewR3 ViewR9 ViewK1 ViewK2 ViewK3 ViewK4 ViewK5 ViewK7 ViewK8
     SimA0 SimARun SimA1 SimA1Keys SimA1Vlog SimA2Base SimA2 SimA3 SimA3Built SimA2Sub
     SimC0 SimC8 SimC9 SimC10.
Import ListNotations.
Open Scope list_scope.
Open Scope m_scope.

Local Notation RInv2' := (RInv2 (fun _ => True)).

Section SubNode5.
  Variable c0 : N.

  Lemma node_post5_same : forall st tg pend T W w s r o o',
    Sim5 c0 T W w s -> Ctx4 st tg pend w -> orec_rel o o' -> node_post5 c0 st tg pend W w w r o s s r o'.
  Proof.
    intros st tg pend T W w s r o o' HS HC Ho. exists T, W. split; [exact HS|]. split; [exact HC|].
    split; [intros; reflexivity|]. split; [reflexivity|]. split; [exact Ho|]. split; [apply Wincl_refl|].
    split; [reflexivity|apply N.le_refl].
  Qed.

  Theorem sb_node5 : forall st fname a kw fn T W w s tg pend w1 r o,
    okc c0 (w_old w) ->
    pv_wf a = true -> pv_wf kw = true ->
    sb_body_ok5 c0 st (w_old w) fn ->
    Sim5 c0 T W w s -> Ctx4 st tg pend w ->
    m_subbuild fname a kw (fun sa skw w' => run (fn sa skw) None [] w') w = (w1, (r, o)) ->
    forall s1 r' o',
      core_sb_node fname a kw (fun sa skw => core_run (fn sa skw) None None []) s = (s1, (r', o')) ->
      node_post5 c0 st tg pend W w w1 r o s s1 r' o'.
  Proof.
    intros st f a kw fn T W w s tg pend w1 r o Hokc Wa Wk Hbody [HS HE] HC Hm s1 r' o' Hc.
    pose proof HS as [[HP HL] [HI [HK HB]]].
    pose proof (s4_sim _ _ _ _ HP) as HS3. pose proof (s4_rinv _ _ _ _ HP) as HR2.
    assert (HI1: HInv w1).
    { apply (m_subbuild_HInv f a kw (fun sa skw w' => run (fn sa skw) None [] w') w w1 (r, o)); [|exact Hm|exact HI|exact HK].
      intros sa skw w2 w3 r0 Hi2 Hk2 E. apply (run_HInv (fn sa skw) None [] w2 w3 r0 Hi2 Hk2); [|exact E].
      intros t Et. discriminate. }
    assert (HO1: w_old w1 = w_old w).
    { refine (m_subbuild_O f a kw (fun sa skw w' => run (fn sa skw) None [] w') _ w w1 _ Hm).
      intros sa skw. apply run_O. }
    assert (HT1: TSA tg w1).
    { apply (TSA_call tg w w1 HK); [|apply (c4_tsa _ _ _ _ HC)].
      intros t Et. refine (m_subbuild_P t f a kw (fun sa skw w' => run (fn sa skw) None [] w') _ w w1 _ Hm).
      intros sa skw. apply (run_P t (fn sa skw) None []). discriminate. }
    pose proof (subnode_tq _ _ _ _ _ _ _ Hm) as Htq1.
    pose proof (subnode_claims_has _ _ _ _ _ _ _ Hm) as Hcl1.
    destruct (extra_mech c0 W w s w1 HE Htq1 Hcl1) as (M1 & M2 & M3).
    rewrite m_subbuild_unfold in Hm. unfold core_sb_node in Hc.
    destruct (sanitize a) as [sa|] eqn:Sa.
    2:{ inversion Hm; inversion Hc; subst. apply (node_post5_same st tg pend T W); [split; assumption|exact HC|exact I]. }
    destruct (sanitize kw) as [skw|] eqn:Sk.
    2:{ inversion Hm; inversion Hc; subst. apply (node_post5_same st tg pend T W); [split; assumption|exact HC|exact I]. }
    cbv zeta in Hc.
    pose proof (wfkey_subbuild_key f a kw sa skw Wa Wk Sa Sk) as Hw.
    rewrite (s3_claimsS _ _ _ HS3 (subbuild_key f sa skw)) in Hc.
    destruct (sb_setup f sa skw w) as [w1' r1] eqn:Hs.
    destruct (sb_setup_cases _ _ _ _ _ _ Hs) as [(Hdup & -> & ->)|(Hunc & wl & x & El & Hx)].
    - rewrite Hdup in Hc. inversion Hm; inversion Hc; subst.
      apply (node_post5_same st tg pend T W); [split; assumption|exact HC|apply orec_rel_refl].
    - rewrite Hunc in Hc.
      destruct x as [cached|e]; [|exfalso; exact (proj2 (noraise_holds (fun _ => True) T w HR2) _ _ _ _ El)].
      assert (HWcl: forall q, mem_path q W = true -> cache_has_file (w_new w) q = true) by (apply (ex_cl _ _ _ _ HE)).
      assert (Hnew: forall q g, mem_path q W = true ->
                lookup (w_fs w) q = Some (NFile g) \/ lookup (k_fs s) q = Some (NFile g) -> (c0 < f_mtime g)%N).
      { intros q g Hq [Hg|Hg]; [apply (ex_wnew _ _ _ _ HE q g Hq Hg)|apply (ex_knew _ _ _ _ HE q g Hq Hg)]. }
      pose proof (sub_lookup5 c0 T W w s (subbuild_key f sa skw) Hokc (conj HP HL) HWcl Hnew f wl cached El) as Hdec.
      destruct cached as [co|].
      + (* the lookup found a record *)
        destruct (core_subhit s f (subbuild_key f sa skw)) as [[[subs' ret'] rr]|] eqn:Eh.
        2:{ exfalso. destruct Hdec as [_ D]. discriminate (D eq_refl). }
        destruct r1 as [r1|e1].
        2:{ exfalso. destruct (sub_hit5 c0 T W w s Hokc (conj HP HL) HWcl Hnew f sa skw wl co w1' (inr e1) subs' ret' rr Hw Hunc El Eh Hx)
              as (T' & X & _). discriminate. }
        destruct (sub_hit5 c0 T W w s Hokc (conj HP HL) HWcl Hnew f sa skw wl co w1' (inl r1) subs' ret' rr Hw Hunc El Eh Hx)
          as (T' & X & HS' & Hprog & Hfs' & Hold & Hk').
        inversion X; subst r1. clear X.
        inversion Hm; subst w1' r o. inversion Hc; subst s1 r' o'.
        exists T', W. split; [|split; [|split; [|split; [|split; [|split; [|split]]]]]].
        * split.
          -- split; [exact HS'|]. split; [exact HI1|]. split; [rewrite Hold; exact HK|].
             rewrite (sb_setup_built built _ _ _ _ _ _ Hs). exact HB.
          -- constructor; [exact M1|exact M2|apply (ex_kclock _ _ _ _ HE)|exact M3|].
             intros q g Hq Hg. apply (ex_knew _ _ _ _ HE q g Hq). apply (Hk' q g Hq Hg).
        * apply (ctx4_restore st tg pend w w1 HC Hprog); [|exact HT1].
          intros y Hy. rewrite Hfs'. reflexivity.
        * intros y Hy. rewrite Hfs'. reflexivity.
        * reflexivity.
        * apply rec_rel_refl.
        * apply Wincl_refl.
        * exact Hold.
        * apply N.le_refl.
      + (* the lookup missed: the function runs *)
        destruct Hx as [-> ->].
        destruct (core_subhit s f (subbuild_key f sa skw)) as [[[subs' ret'] rr]|] eqn:Eh.
        { exfalso. destruct Hdec as [D _]. discriminate (D eq_refl). }
        unfold sb_rebuild in Hm.
        destruct (run (fn sa skw) None [] (sb_invoke_world f sa skw (start_world (subbuild_key f sa skw) wl))) as [w3 [res l3]] eqn:Er.
        destruct (core_run (fn sa skw) None None [] (core_substart s f sa skw)) as [s2 [[res' pend3] l3']] eqn:Ec.
        destruct (sb_claim_sim T W w s f sa skw wl HS Hw Hunc El Hs) as (HS2 & Ffs & Fnew & Fold).
        set (key := subbuild_key f sa skw) in *.
        set (w2 := sb_invoke_world f sa skw (start_world key wl)) in *.
        assert (HC2: Ctx4 st None None w2).
        { constructor.
          - intro y. rewrite <- (c4_prog _ _ _ _ HC y). unfold inprog.
            change (c_files (w_new w2)) with (c_files (w_new wl)). rewrite Fnew. reflexivity.
          - intros p Ep. discriminate.
          - exact I.
          - intros y Hy. change (w_fs w2) with (w_fs wl). rewrite Ffs. apply (c4_nodir _ _ _ _ HC y Hy).
          - intros t Et. discriminate. }
        assert (Hold2: w_old w2 = w_old w) by exact Fold.
        assert (Eclk: w_clock w2 = w_clock w).
        { change (w_clock w2) with (w_clock wl).
          pose proof (subbuild_cache_lookup_svb _ _ _ _ _ El) as (_ & A2 & _). exact A2. }
        assert (HE2: Extra c0 W w2 (core_substart s f sa skw)).
        { constructor.
          - intros q Hq. change (cache_has_file (w_new w2) q) with (cache_has_file (w_new wl) q). rewrite Fnew. apply HWcl. exact Hq.
          - rewrite Eclk. apply (ex_wclock _ _ _ _ HE).
          - apply (ex_kclock _ _ _ _ HE).
          - intros q g Hq Hg. change (w_fs w2) with (w_fs wl) in Hg. rewrite Ffs in Hg. apply (ex_wnew _ _ _ _ HE q g Hq Hg).
          - apply (ex_knew _ _ _ _ HE). }
        destruct (Hbody sa skw T W w2 (core_substart s f sa skw) w3 res l3 s2 res' pend3 l3' Hold2 (conj HS2 HE2) HC2 Er Ec)
          as (T3 & W3 & [HS3' HE3] & HC3 & Hfr & <- & Hrecs & HWi & Hold3 & Hck3 & _).
        assert (Hunc': cache_has_subbuild (w_new wl) key = false) by (rewrite Fnew; exact Hunc).
        pose proof (start_world_subs _ _ Hunc') as E2. rewrite Fnew in E2.
        destruct (run_S (fn sa skw) None [] w2 w3 _ Er) as [ext E3].
        change (c_subs (w_new w2)) with (c_subs (w_new (start_world key wl))) in E3. rewrite E2, <- app_assoc in E3.
        cbn [app] in E3.
        pose proof (sb_finish_gl walk_fuel _ _ _ _ _ _ _ _ Hm) as G.
        destruct (sb_finish_world _ _ _ _ _ _ _ _ _ Hm) as (oo & -> & Ew1 & Hcases).
        fold key in Ew1. fold (finish_world key oo w3) in Ew1. subst w1.
        assert (Hrel: rec_rel oo (sub_rec f sa skw l3' res) /\ r = sub_out res).
        { unfold sub_rec, sub_out. destruct Hcases as [(e & -> & -> & ->)|[(v & -> & Ev & -> & ->)|(v & sv & -> & Ev & -> & ->)]].
          - split; [apply rec_rel_SB; exact Hrecs|reflexivity].
          - rewrite Ev. split; [apply rec_rel_SB; exact Hrecs|reflexivity].
          - rewrite Ev. split; [apply rec_rel_SB; exact Hrecs|reflexivity]. }
        destruct Hrel as [Hrel Hr].
        inversion Hc; subst s1 r' o'.
        assert (Hprog: forall y, inprog (finish_world key oo w3) y <-> inprog w y).
        { intro y. rewrite (c4_prog _ _ _ _ HC y). rewrite <- (c4_prog _ _ _ _ HC3 y). reflexivity. }
        assert (Hfiles: forall y, In y st -> lookup (w_fs (finish_world key oo w3)) y = lookup (w_fs w) y).
        { intros y Hy. change (w_fs (finish_world key oo w3)) with (w_fs w3).
          rewrite (Hfr y Hy) by discriminate. change (w_fs w2) with (w_fs wl). rewrite Ffs. reflexivity. }
        exists T3, W3. split; [|split; [|split; [|split; [|split; [|split; [|split]]]]]].
        * split.
          -- apply (sb_finish_sim T3 W3 w3 s2 key (c_subs (w_new w)) ext oo); try assumption.
             apply has_false_none. exact Hunc.
          -- destruct HE3 as [E31 E32 E33 E34 E35]. constructor.
             ++ exact E31.
             ++ exact E32.
             ++ exact E33.
             ++ exact E34.
             ++ exact E35.
        * apply (ctx4_restore st tg pend w _ HC Hprog Hfiles HT1).
        * exact Hfiles.
        * exact Hr.
        * exact Hrel.
        * exact HWi.
        * exact HO1.
        * exact Hck3.
  Qed.
End SubNode5.

Print Assumptions sb_node5.
