(* Proofs/SimA1.v — C04, the link to Core, run level: the statements about the mechanism model
   alone (no Core state) that the node lemmas use.  Each is proved in its own file SimA1*.v;
   here only the statements, so that the assembly (SimA2*.v) can be developed against them. *)
From Coq Require Import List String Ascii NArith ZArith Bool Arith Lia.
From FB.Base Require Import PyVal Fs.
From FB.Gen Require Import JsonUtilGen.
From FB.Spec Require Import JsonSpec Prog Ref.
From FB.Model Require Import Types Monad CreatedFiles BuildDirs SimpleOps Builder Persist Build Run.
From FB.Proofs Require Import FsLemmas JsonLaws BuildFileLaws
     ViewDefs ViewLemmas ViewXDefs ViewXQuery ViewXMake2 ViewXFail ViewXSetup ViewK3 SimA0.
Import ListNotations.
Open Scope list_scope.

(* ------------------------------------------------------------------ (D1) _dirs_to_make raises what missing_dirs answers *)
Definition dirs_to_make_err_statement : Prop :=
  forall d T w w1 e, XInv T w -> path_ok d = true ->
    dirs_to_make d None w = (w1, inr e) ->
    exists c, e = XOS c /\ missing_dirs (view_fs w) (w_cachefile w) d = inr c.

(* (D2) once _dirs_to_make has answered, making the directories cannot fail: no fault is
   injected, and no directory to make is the file of a target in progress *)
Definition make_dirs_noerr_statement : Prop :=
  forall d T w w1 e, RInv T w -> path_ok d = true ->
    (forall y, suffix y d -> isfile (w_fs w) y = true -> files_get (c_files (w_new w)) y <> Some None) ->
    make_dirs d w = (w1, inr e) -> dirs_to_make d None w = (w1, inr e).

(* ------------------------------------------------------------------ (D3) _make_room on a dead directory *)
(* succeeds; BuildDirs' reservations and the visible log are untouched (the tree and [dead]
   change only at and below the directory: ViewXRoom2.make_room_ok) *)
Definition make_room_clear_statement : Prop :=
  forall T p w w1 r, RInv T w -> maxlen (w_fs w) < room_fuel + List.length p ->
    isdir (w_fs w) p = true -> dead w p = true ->
    make_room room_fuel p w = (w1, r) ->
    r = inl tt /\ bd_counts (w_bd w1) = bd_counts (w_bd w) /\ bd_created (w_bd w1) = bd_created (w_bd w) /\
    vis_log (w_log w1) = vis_log (w_log w).

(* ------------------------------------------------------------------ (D4) the library calls log only LEffect entries *)
Definition vq (w w' : world) : Prop := vis_log (w_log w') = vis_log (w_log w).

Definition vlog_statement : Prop :=
  (forall p w w' r, prepare_file_creation p w = (w', r) -> vq w w') /\
  (forall p w w' r, bf_claim p w = (w', r) -> vq w w') /\
  (forall p w w' r, try_to_remove_file p w = (w', r) -> vq w w') /\
  (forall p c f sa skw w w' r, bf_setup p c f sa skw w = (w', r) -> vq w w') /\
  (forall p c f sa skw res subs w w' r, bf_finish p c f sa skw res subs w = (w', r) -> vq w w') /\
  (forall f sa skw w w' r, sb_setup f sa skw w = (w', r) -> vq w w') /\
  (forall f sa skw res subs w w' r, sb_finish f sa skw res subs w = (w', r) -> vq w w').

(* ------------------------------------------------------------------ (D5) started_building_file: the created directories *)
Definition bd_started_created_statement : Prop :=
  forall b n d ds, (forall x, cnt_get (bd_counts b) x <> Some 0) ->
    (forall y, In y ds -> suffix y d /\ in_counts b y = false) ->
    (forall y x, In y ds -> suffix y x -> suffix x d -> In x ds) ->
    forall x, mem_path x (bd_created (fst (bd_started b (n :: d) ds))) = mem_path x (bd_created b) || mem_path x ds.

(* (D6) every reserved directory lies above a live target (the counting law, downwards) *)
Definition reserved_has_live_statement : Prop :=
  forall T w x, XInv T w -> in_counts (w_bd w) x = true -> exists t, In t T /\ psuffix x t.

(* ------------------------------------------------------------------ (D7) error_building_file: the view afterwards *)
(* [D]: the directories whose last reservation is released and that this build had created.
   They disappear from the view, nothing else changes; they form the lower end of the chain of
   ancestors of the target, and in the view each of them holds at most the next one. *)
Definition bd_error_view_statement : Prop :=
  forall T w n d b', XInv T w -> In (n :: d) T -> lookup (w_fs w) (n :: d) = None ->
    (forall x, suffix x d -> isdir (w_fs w) x = true) ->
    m_bd_error (n :: d) w = (set_bd b' w, inl tt) ->
    let D := fun x => in_counts (w_bd w) x && negb (in_counts b' x) && mem_path x (bd_created (w_bd w)) in
    (forall a, lookup (view_fs (set_bd b' w)) a = if D a then None else lookup (view_fs w) a) /\
    (forall x, D x = true <->
               (suffix x d /\ mem_path x (bd_created (w_bd w)) = true /\
                ~ exists t, In t (rm1 (n :: d) T) /\ psuffix x t)) /\
    (forall x, mem_path x (bd_created b') = mem_path x (bd_created (w_bd w)) && negb (D x)) /\
    (forall x, D x = true -> lookup (view_fs w) x = Some NDir /\
                             forall m, lexists (view_fs w) (m :: x) = true -> D (m :: x) = true).

(* ------------------------------------------------------------------ (D8) subbuild keys: == is an equivalence on them *)
Definition key_laws_statement : Prop :=
  (forall k, wfkey k -> py_eq k k = true) /\
  (forall k, wfkey k -> forall x, py_eq k x = py_eq x k) /\
  (forall a c, wfkey a -> wfkey c -> forall x, py_eq a x = true -> py_eq c x = true -> py_eq a c = true).
