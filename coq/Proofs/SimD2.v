(* Proofs/SimD2.v — the whole build of the mechanism model, part 2: the view through the commit
   phase.  A step that changes the tree only at HIDDEN regular files (removes one, rewrites one,
   or creates one that BuildDirs lists among the hidden files) keeps BInv and [dead]
   (HidChange; ViewFrame.v has the analogous statement for changes inside reserved directories).
   Instances: Cache.write and the first loop of _commit.  With BInv the second loop of _commit
   (is_dir on the directories recorded by the previous build) answers by the view.           *)
From Coq Require Import List String Ascii NArith ZArith Bool Arith Lia.
From FB.Base Require Import PyVal Fs.
From FB.Model Require Import Types Monad CreatedFiles BuildDirs SimpleOps Builder Persist Build.
From FB.Proofs Require Import FsLemmas CleanLaws JsonLaws CoreLawsChildren ViewDefs ViewLemmas ViewScan ViewQueries ViewFrame
     ReplayLaws RollbackDirsLaws RollbackDirsView RollbackDirsBase CommitDirsRun CommitDirsMain.
Import ListNotations.
Local Open Scope list_scope.

Lemma invis_cases : forall w a,
  invis w a = match lookup (w_fs w) a with Some (NFile _) => hid w a | Some NDir => dead w a | None => true end.
Proof. reflexivity. Qed.

Lemma allinv_iff : forall w d,
  forallb (fun n => invis w (n :: d)) (children (w_fs w) d) = true <-> forall n, invis w (n :: d) = true.
Proof.
  intros w d. rewrite forallb_forall. split.
  - intros H n. destruct (lexists (w_fs w) (n :: d)) eqn:E.
    + apply H. apply children_In. exact E.
    + rewrite invis_cases. unfold lexists in E. destruct (lookup (w_fs w) (n :: d)); [discriminate|reflexivity].
  - intros H n _. apply H.
Qed.

Section HidChange.
  Variables w w' : world.
  Hypothesis HB : BInv w.
  Hypothesis Hwf : fs_wf (w_fs w').
  Hypothesis Hbd : w_bd w' = w_bd w.
  Hypothesis Hhid : forall a, hid w' a = hid w a.
  Hypothesis Hch : forall q, lookup (w_fs w') q = lookup (w_fs w) q \/
     (hid w q = true /\ isdir (w_fs w) q = false /\ isdir (w_fs w') q = false /\
      (isfile (w_fs w') q = true -> isfile (w_fs w) q = true \/ mem_path q (bd_removed_files (w_bd w)) = true \/
                                    in_counts (w_bd w) (dirname q) = true)).

  Lemma hc_isdir : forall q, isdir (w_fs w') q = isdir (w_fs w) q.
  Proof.
    intro q. destruct (Hch q) as [E|(_ & A & B & _)]; [unfold isdir; rewrite E; reflexivity|congruence].
  Qed.

  Lemma hc_dead_k : forall k d, S (Nat.max (maxlen (w_fs w)) (maxlen (w_fs w'))) - List.length d <= k ->
    dead w' d = dead w d.
  Proof.
    induction k as [|k IH]; intros d Hk.
    - (* too deep to exist *)
      assert (A : isdir (w_fs w) d = false).
      { unfold isdir. destruct (lookup (w_fs w) d) as [[g|]|] eqn:E; try reflexivity. apply lookup_maxlen in E. lia. }
      rewrite (dead_notdir w d A). apply dead_notdir. rewrite hc_isdir. exact A.
    - rewrite (dead_unfold w' d), (dead_unfold w d), Hbd. destruct (trk (w_bd w) d); [cbn [andb]|reflexivity].
      pose proof (hc_isdir d) as Ed. unfold isdir in Ed.
      destruct (lookup (w_fs w') d) as [[g'|]|] eqn:E'; destruct (lookup (w_fs w) d) as [[g|]|] eqn:E; try discriminate Ed; try reflexivity.
      apply Bool.eq_iff_eq_true. rewrite !allinv_iff.
      assert (X : forall n, invis w' (n :: d) = invis w (n :: d)).
      { intro n. rewrite !invis_cases. destruct (Hch (n :: d)) as [El|(A1 & A2 & A3 & _)].
        - rewrite El. destruct (lookup (w_fs w) (n :: d)) as [[g|]|] eqn:En; [apply Hhid| |reflexivity].
          apply IH. apply lookup_maxlen in En. simpl List.length in *. lia.
        - unfold isdir in A2, A3.
          destruct (lookup (w_fs w') (n :: d)) as [[g'|]|]; try discriminate A3;
            destruct (lookup (w_fs w) (n :: d)) as [[g|]|]; try discriminate A2; rewrite ?Hhid, ?A1; reflexivity. }
      split; intros H n; [rewrite <- X|rewrite X]; apply H.
  Qed.

  Lemma hc_dead : forall d, dead w' d = dead w d.
  Proof. intro d. eapply hc_dead_k. apply Nat.le_refl. Qed.

  Theorem hc_BInv : BInv w'.
  Proof.
    constructor.
    - exact Hwf.
    - rewrite Hbd. apply (bi_root _ HB).
    - rewrite Hbd. apply (bi_counts_up _ HB).
    - intros d Hd Hi. rewrite Hbd in *. rewrite hc_dead. rewrite hc_isdir in Hi. apply (bi_removed _ HB d Hd Hi).
    - intros a H1 H2 H3. rewrite Hbd in *. rewrite Hhid. destruct (Hch a) as [E|(A & _)]; [|exact A].
      apply (bi_rf_hid _ HB a H1); [|exact H3]. unfold isfile in *. rewrite <- E. exact H2.
    - intros a H1 H2 H3. rewrite Hbd in *. rewrite Hhid in H2. destruct (Hch a) as [E|(_ & _ & _ & A)].
      + apply (bi_hid_rf _ HB a); [|exact H2|exact H3]. unfold isfile in *. rewrite <- E. exact H1.
      + destruct (A H1) as [Z|[Z|Z]]; [apply (bi_hid_rf _ HB a Z H2 H3)|exact Z|congruence].
    - intros a d. rewrite Hbd. apply (bi_rf_trk _ HB).
    - intros q x H1 H2. rewrite Hbd in H1. rewrite hc_dead. apply (bi_exists _ HB q x H1 H2).
  Qed.
End HidChange.

(* ------------------------------------------------------------------ the first loop of _commit *)
Lemma rm_old_view : forall L w w' r, mapM_ rm_old L w = (w', r) -> w_faults w = [] -> BInv w ->
  BInv w' /\ (forall x, dead w' x = dead w x) /\ (forall x, isdir (w_fs w') x = isdir (w_fs w) x).
Proof.
  induction L as [|f L IH]; intros w w' r H Hf HB; cbn [mapM_] in H.
  - inversion H; subst. split; [exact HB|]. split; reflexivity.
  - assert (Step : forall w1 r1, rm_old f w = (w1, r1) ->
              w_faults w1 = [] /\ BInv w1 /\ (forall x, dead w1 x = dead w x) /\ (forall x, isdir (w_fs w1) x = isdir (w_fs w) x)).
    { intros w1 r1 E. unfold rm_old in E.
      destruct (ViewQueries.m_is_file_view w f HB) as (wa & Ea & Ga).
      unfold bind at 1 in E. rewrite Ea in E.
      pose proof (good_BInv _ _ Ga) as Ba. pose proof (good_sv _ _ Ga) as Sa.
      pose proof (RollbackDirsView.m_is_file_view _ _ _ _ _ Ea) as ((F1 & _ & _ & F4 & F5 & _ & _ & F8 & _ & F10 & _) & _).
      assert (Hfa : w_faults wa = []) by congruence.
      unfold bind at 1, is_cache_file in E.
      destruct (negb (vfile w f) && negb (path_eqb f (w_cachefile wa))) eqn:Eg.
      - apply andb_true_iff in Eg. destruct Eg as [G1 G2]. apply negb_true_iff in G1, G2.
        destruct (try_to_remove_file_full _ _ _ _ E Hfa) as (R0 & N1 & N2 & N3 & K1 & K2).
        destruct (try_to_remove_file_new f _ _ _ E) as (_ & Y1 & Y2).
        assert (Hfw1 : w_faults w1 = []).
        { unfold try_to_remove_file in E. unfold bind at 1, get in E. destruct (isfile (w_fs wa) f).
          - unfold catch in E. rewrite (effect_nofault' _ _ _ _ Hfa) in E.
            destruct (remove (w_fs wa) f); inversion E; subst; cbn; exact Hfa.
          - inversion E; subst. exact Hfa. }
        assert (Hh : forall a, hid w1 a = hid wa a) by (intro a; unfold hid; rewrite N1, Y1, Y2; reflexivity).
        assert (Lf : isfile (w_fs wa) f = true -> lookup (w_fs w1) f = None).
        { intro Y. unfold try_to_remove_file in E. unfold bind at 1, get in E. rewrite Y in E.
          unfold catch in E. rewrite (effect_nofault' _ _ _ _ Hfa) in E.
          apply isfile_lookup in Y. destruct Y as [g Hg].
          destruct f as [|n d]; [cbn in Hg; discriminate Hg|].
          unfold remove in E. rewrite Hg in E. inversion E; subst. cbn [w_fs set_log set_fs set_effects].
          apply lookup_upd_eq. discriminate. }
        assert (Lf2 : isfile (w_fs wa) f = false -> w_fs w1 = w_fs wa).
        { intro Y. unfold try_to_remove_file in E. unfold bind at 1, get in E. rewrite Y in E. inversion E; subst. reflexivity. }
        assert (Hch : forall q, lookup (w_fs w1) q = lookup (w_fs wa) q \/
                  (hid wa q = true /\ isdir (w_fs wa) q = false /\ isdir (w_fs w1) q = false /\
                   (isfile (w_fs w1) q = true -> isfile (w_fs wa) q = true \/ mem_path q (bd_removed_files (w_bd wa)) = true \/
                                                  in_counts (w_bd wa) (dirname q) = true))).
        { intro q. destruct (path_eq_dec q f) as [->|Nq]; [|left; apply K2; exact Nq].
          destruct (isfile (w_fs wa) f) eqn:Y; [|left; rewrite (Lf2 eq_refl); reflexivity].
          right. split.
          - unfold vfile in G1. rewrite <- (sv_fs _ _ Sa) in G1. rewrite Y in G1. cbn [andb] in G1. apply negb_false_iff in G1.
            unfold hid in *. rewrite (sv_old _ _ Sa), (sv_new _ _ Sa), (sv_cf _ _ Sa). exact G1.
          - split; [apply isfile_not_dir; exact Y|]. unfold isdir, isfile. rewrite (Lf eq_refl). split; [reflexivity|discriminate]. }
        assert (Wf1 : fs_wf (w_fs w1)).
        { destruct (isfile (w_fs wa) f) eqn:Y; [|rewrite (Lf2 eq_refl); apply (bi_wf _ Ba)].
          assert (Hne : f <> []) by (intro; subst f; discriminate Y).
          apply (wf_change_one (w_fs wa) (w_fs w1) f (bi_wf _ Ba) Hne K2).
          - intro Z. rewrite (Lf eq_refl) in Z. congruence.
          - intros n Hn. exfalso. destruct (lookup (w_fs wa) (n :: f)) as [x|] eqn:En; [|congruence].
            pose proof (bi_wf _ Ba _ _ En) as Hd. cbn [dirname tl] in Hd.
            apply isfile_lookup in Y. destruct Y as [g Hg]. congruence. }
        split; [exact Hfw1|]. split; [apply (hc_BInv wa w1 Ba Wf1 N3 Hh Hch)|]. split.
        + intro x. rewrite (hc_dead wa w1 N3 Hh Hch). apply (sv_dead _ _ Sa).
        + intro x. rewrite (hc_isdir wa w1 Hch). unfold isdir. rewrite (sv_fs _ _ Sa). reflexivity.
      - inversion E; subst w1 r1; clear E.
        split; [exact Hfa|]. split; [exact Ba|]. split; [apply (sv_dead _ _ Sa)|].
        intro x. unfold isdir. rewrite (sv_fs _ _ Sa). reflexivity. }
    apply bind_inv in H. destruct H as [(w1 & u & E1 & H) | (e & E1 & H)].
    + destruct (Step _ _ E1) as (S1 & S2 & S3 & S4).
      destruct (IH _ _ _ H S1 S2) as (I1 & I2 & I3).
      split; [exact I1|]. split; intro x; [rewrite I2; apply S3 | rewrite I3; apply S4].
    + inversion H; subst. destruct (Step _ _ E1) as (_ & S2 & S3 & S4). split; [exact S2|]. split; assumption.
Qed.

(* ------------------------------------------------------------------ the second loop of _commit *)
Lemma vdirs_absent_view : forall ds w, BInv w -> (forall d, In d ds -> path_ok d = true) ->
  exists w', vdirs_absent ds w = (w', inl (filter (fun d => negb (vdir w d)) ds)) /\ good w w'.
Proof.
  induction ds as [|d ds IH]; intros w HB Hok; cbn [vdirs_absent filter].
  - exists w. split; [reflexivity|apply good_refl; exact HB].
  - destruct (ViewQueries.m_is_dir_view w d HB (or_introl (Hok d (or_introl eq_refl)))) as (w1 & E1 & G1).
    destruct (IH w1 (good_BInv _ _ G1) (fun x Hx => Hok x (or_intror Hx))) as (w2 & E2 & G2).
    exists w2. split; [|eapply good_trans; eassumption].
    unfold bind at 1. rewrite E1. unfold bind at 1. rewrite E2. unfold ret.
    assert (X : filter (fun d0 => negb (vdir w1 d0)) ds = filter (fun d0 => negb (vdir w d0)) ds).
    { apply filter_ext. intro a. rewrite (same_view_vdir _ _ _ (good_sv _ _ G1)). reflexivity. }
    rewrite X. destruct (vdir w d); reflexivity.
Qed.

Print Assumptions rm_old_view.
Print Assumptions vdirs_absent_view.
