(* Proofs/ViewXStart2.v — C04, reachability: started_building_file, after the directories
   [ds] of a target have been made, preserves XInv with the target as one more live target
   (abstract form: what is assumed of [ds] and of the new tree is listed as hypotheses and
   discharged for _prepare_file_creation in ViewXMake.v). *)
From Coq Require Import List String Ascii NArith ZArith Bool Arith Lia.
From FB.Base Require Import PyVal Fs.
From FB.Model Require Import Types Monad CreatedFiles BuildDirs SimpleOps Builder.
From FB.Proofs Require Import FsLemmas CleanLaws JsonLaws CoreLawsChildren
     ViewDefs ViewLemmas ViewScan ViewQueries ViewAnswers ViewFrame
     ViewXDefs ViewXFrame ViewXCount ViewXErr1 ViewXError ViewXSteps ViewXStart1.
Import ListNotations.
Open Scope list_scope.

Section Started.
  Variables (T : list path) (wa : world) (n : name) (d : path) (ds : list path) (w' : world).
  Local Notation p := (n :: d).
  Local Notation fs := (w_fs wa).
  Local Notation fs' := (w_fs w').
  Local Notation ba := (w_bd wa).
  Local Notation b' := (w_bd w').
  Hypothesis HX : XInv T wa.
  Hypothesis Ebd : w_bd w' = fst (bd_started ba p ds).
  Hypothesis Eold : w_old w' = w_old wa.
  Hypothesis Enew : w_new w' = w_new wa.
  Hypothesis Ecf : w_cachefile w' = w_cachefile wa.
  Hypothesis H1 : fs_wf fs'.
  Hypothesis H2 : forall q, mem_path q ds = false -> lookup fs' q = lookup fs q.
  Hypothesis H3 : forall y, mem_path y ds = true ->
    suffix y d /\ y <> [] /\ vdir wa y = false /\ lexists fs' y = true /\
    (isdir fs' y = true \/ lookup fs' y = lookup fs y) /\ (isfile fs' y = true -> In y T).
  Hypothesis H4 : forall y, suffix y d -> mem_path y ds = false ->
    mem_path y (bd_exists ba) = true /\ vdir wa y = true.
  Hypothesis H6 : isdir fs p = false.

  Let HB : BInv wa := x_binv _ _ HX.
  Let HS : SInv ba := x_sinv _ _ HX.

  Lemma s_p_not_ds : mem_path p ds = false.
  Proof.
    destruct (mem_path p ds) eqn:E; [|reflexivity]. destruct (H3 p E) as (Hs & _). apply suffix_length in Hs. simpl in Hs. lia.
  Qed.

  Lemma s_oth : forall q, ~ suffix q d -> lookup fs' q = lookup fs q.
  Proof. intros q Hq. apply H2. destruct (mem_path q ds) eqn:E; [|reflexivity]. destruct (H3 q E) as (Hs & _). contradiction. Qed.

  (* the pieces already proved *)
  Lemma s_base : BInv w' /\ (forall x, in_counts b' x = false -> dead w' x = dead wa x) /\
                 (forall x, suffix x d -> in_counts b' x = true).
  Proof. apply (started_BInv wa n d ds fs' w' HB H1 s_oth eq_refl Ebd Eold Enew Ecf). Qed.

  Lemma s_frame1 : bd_maybe b' = bd_maybe ba /\ bd_removed b' = bd_removed ba /\ bd_exists b' = bd_exists ba /\
    (forall x, in_counts ba x = true -> in_counts b' x = true) /\
    (forall x, in_counts b' x = true -> in_counts ba x = true \/ suffix x d) /\
    (forall a, mem_path a (bd_removed_files b') = true -> mem_path a (bd_removed_files ba) = true).
  Proof.
    set (b0 := bd_with ba (bd_counts ba) (bd_created ba) (bd_err_created ba) (bd_removed ba) (bd_exists ba) (bd_maybe ba)
                       (del_path p (bd_removed_files ba))).
    assert (Eb: b' = fst (bd_started_from b0 ds d [])) by (rewrite Ebd; reflexivity).
    assert (Hcl0: forall x y, suffix x d -> in_counts b0 x = true -> suffix y x -> in_counts b0 y = true).
    { intros x y _ Hx Hy. change (in_counts ba y = true). change (in_counts ba x = true) in Hx. eapply counts_up_suffix; eassumption. }
    pose proof (bd_started_from_frame d b0 ds [] Hcl0) as F. rewrite <- Eb in F. destruct F as [F1 F2 F3 F4 F5 F6 F7 F8].
    repeat split; try assumption.
    intros a H. apply F7 in H. unfold b0 in H. cbn in H. eapply del_mem_sub. exact H.
  Qed.

  Lemma s_frame2 :
    (forall x, mem_path x (bd_created ba) = true -> mem_path x (bd_created b') = true) /\
    (forall x, mem_path x (bd_created b') = true ->
               mem_path x (bd_created ba) = true \/ (mem_path x ds = true /\ in_counts ba x = false /\ in_counts b' x = true)) /\
    (forall x, in_counts ba x = false -> in_counts b' x = true -> mem_path x ds = true ->
               mem_path x (bd_created b') = true /\ mem_path x (bd_removed_files b') = false) /\
    (forall a, mem_path a (bd_removed_files ba) = true -> mem_path a (bd_removed_files b') = false ->
               a = p \/ (mem_path a ds = true /\ in_counts ba a = false /\ in_counts b' a = true)) /\
    mem_path p (bd_removed_files b') = false.
  Proof. rewrite Ebd. apply (bd_started_frame2 ba n d ds (x_pos _ _ HX)). Qed.

  Lemma s_claw : claw (p :: T) b'.
  Proof. rewrite Ebd. apply bd_started_claw. apply XInv_claw. exact HX. Qed.

  Lemma s_hid : forall a, hid w' a = hid wa a.
  Proof. intro a. unfold hid. rewrite Eold, Enew, Ecf. reflexivity. Qed.

  (* a newly reserved path outside ds is a visible directory, unchanged, and settled *)
  Lemma s_new_visible : forall x, in_counts ba x = false -> in_counts b' x = true -> mem_path x ds = false ->
    mem_path x (bd_exists ba) = true /\ vdir wa x = true /\ lookup fs' x = lookup fs x /\ untracked ba x.
  Proof.
    intros x A B C. destruct s_frame1 as (_ & _ & _ & _ & Fnew & _).
    destruct (Fnew x B) as [K|K]; [congruence|]. destruct (H4 x K C) as [E V].
    split; [exact E|]. split; [exact V|]. split; [apply H2; exact C|].
    destruct (s_ex _ HS x E) as ([X|X] & _); [congruence|exact X].
  Qed.

  Lemma s_unchanged_invis : forall a, mem_path a ds = false -> in_counts b' a = false -> invis w' a = invis wa a.
  Proof.
    intros a A B. destruct s_base as (_ & Hd & _). rewrite !invis_unfold, (H2 a A), (Hd a B), s_hid. reflexivity.
  Qed.

  Lemma s_SInv : SInv b'.
  Proof.
    destruct s_frame1 as (M1 & M2 & M3 & Fmono & Fnew & Frf).
    destruct s_frame2 as (G1 & G2 & G3 & G4 & G5).
    assert (Hunt: forall x, untracked ba x -> untracked b' x).
    { intros x [U1 U2]. split; [rewrite M1|rewrite M2]; assumption. }
    constructor.
    - intros x H. destruct (G2 x H) as [K|(K1 & K2 & K3)].
      + destruct (s_created _ HS x K) as [A B]. split; [apply Fmono; exact A|exact B].
      + split; [exact K3|]. destruct (H3 x K1) as (_ & X & _). exact X.
    - intros x H. destruct (in_counts ba x) eqn:E.
      + destruct (s_nc _ HS x E) as [K|K]; [left; apply G1; exact K|right; apply Hunt; exact K].
      + destruct (mem_path x ds) eqn:Ed.
        * left. apply (G3 x E H Ed).
        * right. apply Hunt. apply (s_new_visible x E H Ed).
    - intros q Hq. rewrite M3 in Hq. destruct (s_ex _ HS q Hq) as (A & B & C). split; [|split].
      + destruct A as [A|A]; [left; apply Fmono; exact A|right; apply Hunt; exact A].
      + destruct (mem_path q (bd_removed_files b')) eqn:E; [|reflexivity]. apply Frf in E. congruence.
      + rewrite M3. exact C.
    - intros x H. destruct (mem_path x (bd_removed_files b')) eqn:E; [|reflexivity]. pose proof (Frf x E) as E0.
      destruct (in_counts ba x) eqn:Ec.
      + rewrite (s_c_rf _ HS x Ec) in E0. discriminate.
      + destruct (mem_path x ds) eqn:Ed.
        * destruct (G3 x Ec H Ed) as [_ X]. congruence.
        * destruct (s_new_visible x Ec H Ed) as (X & _). destruct (s_ex _ HS x X) as (_ & Y & _). congruence.
  Qed.

  Theorem started_XInv : XInv (p :: T) w'.
  Proof.
    destruct s_base as (HB' & Hdead & Hall).
    destruct s_frame1 as (M1 & M2 & M3 & Fmono & Fnew & Frf).
    destruct s_frame2 as (G1 & G2 & G3 & G4 & G5).
    pose proof s_claw as C'.
    constructor.
    - exact HB'.
    - exact s_SInv.
    - apply (cl_keys _ _ C').
    - apply (cl_pos _ _ C').
    - apply (cl_count _ _ C').
    - (* reserved paths are directories, live targets or absent *)
      intros x H. destruct (mem_path x ds) eqn:Ed.
      + destruct (H3 x Ed) as (_ & _ & _ & Hex & Hch & Hfile).
        destruct (isdir fs' x) eqn:E; [left; reflexivity|]. right. left. right. apply Hfile.
        unfold lexists in Hex. unfold isdir in E. unfold isfile. destruct (lookup fs' x) as [[g|]|]; try discriminate; reflexivity.
      + unfold isdir, lexists. rewrite (H2 x Ed). destruct (in_counts ba x) eqn:Ec.
        * destruct (x_cdir _ _ HX x Ec) as [A|[A|A]]; [left; exact A|right; left; right; exact A|right; right; exact A].
        * destruct (s_new_visible x Ec H Ed) as (_ & V & _). left. unfold vdir in V. apply andb_true_iff in V. apply V.
    - intros x Hc Hcr. destruct (mem_path x ds) eqn:Ed.
      + exfalso. destruct (in_counts ba x) eqn:Ec.
        * (* already reserved and in ds: it was created *)
          destruct (mem_path x (bd_created ba)) eqn:Ek; [rewrite (G1 x Ek) in Hcr; discriminate|].
          pose proof (x_ncdir _ _ HX x Ec Ek) as Hd. destruct (H3 x Ed) as (_ & _ & V & _).
          unfold vdir in V. rewrite Hd, (dead_counts _ _ Ec) in V. discriminate.
        * destruct (G3 x Ec Hc Ed) as [X _]. congruence.
      + unfold isdir. rewrite (H2 x Ed). destruct (in_counts ba x) eqn:Ec.
        * apply (x_ncdir _ _ HX x Ec). destruct (mem_path x (bd_created ba)) eqn:Ek; [|reflexivity]. rewrite (G1 x Ek) in Hcr. discriminate.
        * destruct (s_new_visible x Ec Hc Ed) as (_ & V & _). unfold vdir in V. apply andb_true_iff in V. apply V.
    - (* live targets *)
      intros t [<-|Ht].
      + split; [discriminate|]. split; [exact G5|]. intro Hd. exfalso. unfold isdir in Hd. rewrite (H2 p s_p_not_ds) in Hd.
        unfold isdir in H6. congruence.
      + destruct (x_tgt _ _ HX t Ht) as (A & B & C). split; [exact A|]. split.
        * destruct (mem_path t (bd_removed_files b')) eqn:E; [|reflexivity]. apply Frf in E. congruence.
        * intro Hd. destruct (mem_path t ds) eqn:Ed.
          -- left. pose proof (Hall t (proj1 (H3 t Ed))) as Hc. split; [exact Hc|].
             destruct (in_counts ba t) eqn:Ec.
             ++ apply G1. destruct (mem_path t (bd_created ba)) eqn:Ek; [reflexivity|].
                pose proof (x_ncdir _ _ HX t Ec Ek) as Hd0. destruct (H3 t Ed) as (_ & _ & V & _).
                unfold vdir in V. rewrite Hd0, (dead_counts _ _ Ec) in V. discriminate.
             ++ apply (G3 t Ec Hc Ed).
          -- unfold isdir in Hd. rewrite (H2 t Ed) in Hd. destruct (C Hd) as [[C1 C2]|[C1 C2]].
             ++ left. split; [apply Fmono; exact C1|apply G1; exact C2].
             ++ destruct (in_counts b' t) eqn:Ec.
                ** exfalso. destruct (s_new_visible t C1 Ec Ed) as (_ & V & _). unfold vdir in V. rewrite C2, andb_false_r in V. discriminate.
                ** right. split; [reflexivity|]. rewrite (Hdead t Ec). exact C2.
    - (* a created directory holds reserved, live and invisible entries *)
      intros x m Hcr Hex.
      destruct (mem_path (m :: x) ds) eqn:Ed.
      { left. apply Hall. apply (H3 _ Ed). }
      destruct (in_counts b' (m :: x)) eqn:Ec; [left; reflexivity|].
      unfold lexists in Hex. rewrite (H2 _ Ed) in Hex. fold (lexists fs (m :: x)) in Hex.
      rewrite (s_unchanged_invis _ Ed Ec).
      destruct (G2 x Hcr) as [K|(K1 & K2 & K3)].
      + destruct (x_kids _ _ HX x m K Hex) as [A|[A|A]]; [apply Fmono in A; congruence|right; left; right; exact A|right; right; exact A].
      + (* newly created: it was a dead directory, or had no entry *)
        destruct (path_eqb (m :: x) p) eqn:Ep; [apply path_eqb_eq in Ep; right; left; left; symmetry; exact Ep|].
        right. right. pose proof (wf_parent_dir _ _ _ (bi_wf _ HB) Hex) as Hxd.
        destruct (H3 x K1) as (_ & _ & V & _). unfold vdir, isdir in V. rewrite Hxd in V. cbn [andb] in V.
        apply negb_false_iff in V. rewrite dead_unfold, Hxd in V. apply andb_true_iff in V. destruct V as [_ V].
        rewrite forallb_forall in V. apply V. apply children_In. exact Hex.
    - (* reserved entries of created directories are created *)
      intros x m Hcr Hc. destruct (mem_path (m :: x) ds) eqn:Ed.
      + destruct (in_counts ba (m :: x)) eqn:Ec.
        * apply G1. destruct (mem_path (m :: x) (bd_created ba)) eqn:Ek; [reflexivity|].
          pose proof (x_ncdir _ _ HX _ Ec Ek) as Hd0. destruct (H3 _ Ed) as (_ & _ & V & _).
          unfold vdir in V. rewrite Hd0, (dead_counts _ _ Ec) in V. discriminate.
        * apply (G3 _ Ec Hc Ed).
      + destruct (in_counts ba (m :: x)) eqn:Ec.
        * destruct (G2 x Hcr) as [K|(K1 & K2 & K3)].
          -- apply G1. apply (x_cc _ _ HX x m K Ec).
          -- rewrite (bi_counts_up _ HB m x Ec) in K2. discriminate.
        * (* a visible directory newly reserved below a created one: impossible *)
          exfalso. destruct (s_new_visible _ Ec Hc Ed) as (_ & V & _ & _).
          pose proof (vdir_visible _ _ V) as Vv.
          pose proof (view_parent_is_dir wa m x HB Vv) as Vx.
          destruct (G2 x Hcr) as [K|(K1 & K2 & K3)].
          -- assert (Hex: lexists fs (m :: x) = true) by (apply visible_lexists; exact Vv).
             destruct (x_kids _ _ HX x m K Hex) as [A|[A|A]]; [congruence| |].
             ++ destruct (x_tgt _ _ HX _ A) as (_ & _ & C). unfold vdir in V. apply andb_true_iff in V. destruct V as [V1 V2].
                destruct (C V1) as [[C1 _]|[_ C2]]; [congruence|]. rewrite C2 in V2. discriminate.
             ++ rewrite invis_visible, Vv in A by exact Hex. discriminate.
          -- destruct (H3 x K1) as (_ & _ & V0 & _). congruence.
    - (* hidden files are recorded *)
      intros a Hf Hh Hn. rewrite s_hid in Hh.
      assert (Ed: mem_path a ds = false).
      { destruct (mem_path a ds) eqn:E; [|reflexivity]. exfalso. apply Hn. right. apply (H3 a E). exact Hf. }
      unfold isfile in Hf. rewrite (H2 a Ed) in Hf.
      assert (Hn0: ~ In a T) by (intro K; apply Hn; right; exact K).
      pose proof (x_hid_rf _ _ HX a Hf Hh Hn0) as Hr.
      destruct (mem_path a (bd_removed_files b')) eqn:E; [reflexivity|]. exfalso.
      destruct (G4 a Hr E) as [K|(K & _)]; [apply Hn; left; symmetry; exact K|congruence].
    - intros a Hr Hf. rewrite s_hid. pose proof (Frf a Hr) as Hr0.
      assert (Ed: mem_path a ds = false).
      { destruct (mem_path a ds) eqn:E; [|reflexivity]. exfalso.
        destruct (x_tgt _ _ HX a (proj2 (proj2 (proj2 (proj2 (proj2 (H3 a E))))) Hf)) as (_ & X & _). congruence. }
      unfold isfile in Hf. rewrite (H2 a Ed) in Hf. apply (x_rf_hid _ _ HX a Hr0 Hf).
  Qed.
End Started.

Print Assumptions started_XInv.
