(* Proofs/PathNormLaws.v — laws of the posixpath.normpath / abspath model
   (Model/PathNorm.v): component-skipping laws of the normalisation loop,
   split/join round trip, and idempotence of abspath under an absolute cwd. *)
From Coq Require Import List String Ascii Bool Arith Lia.
From FB.Model Require Import PathNorm.
Import ListNotations.
Open Scope string_scope. Open Scope list_scope.

(* ------------------------------------------------------------------ *)
(* Part 1-3: the component loop                                        *)
(* ------------------------------------------------------------------ *)

Lemma norm_loop_cons : forall rooted c r acc,
  norm_loop rooted (c :: r) acc =
  if String.eqb c "" || String.eqb c "." then norm_loop rooted r acc
  else if negb (String.eqb c "..") then norm_loop rooted r (c :: acc)
  else match acc with
       | [] => if rooted then norm_loop rooted r acc else norm_loop rooted r (c :: acc)
       | top :: acc' => if String.eqb top ".." then norm_loop rooted r (c :: acc)
                        else norm_loop rooted r acc'
       end.
Proof. reflexivity. Qed.

(* Two suffixes that the loop cannot distinguish (for any accumulator)
   remain indistinguishable behind any common prefix. *)
Lemma norm_loop_pre : forall rooted pre l1 l2,
  (forall acc, norm_loop rooted l1 acc = norm_loop rooted l2 acc) ->
  forall acc, norm_loop rooted (pre ++ l1) acc = norm_loop rooted (pre ++ l2) acc.
Proof.
  induction pre as [|c pre IH]; intros l1 l2 H acc; simpl app.
  - apply H.
  - rewrite !norm_loop_cons.
    destruct (String.eqb c "" || String.eqb c "."); [apply IH; exact H|].
    destruct (negb (String.eqb c "..")); [apply IH; exact H|].
    destruct acc as [|top acc'].
    + destruct rooted; apply IH; exact H.
    + destruct (String.eqb top ".."); apply IH; exact H.
Qed.

Theorem norm_comps_skip_empty : forall rooted pre post,
  norm_comps rooted (pre ++ "" :: post) = norm_comps rooted (pre ++ post).
Proof.
  intros rooted pre post. unfold norm_comps. apply norm_loop_pre.
  intros acc. rewrite norm_loop_cons. reflexivity.
Qed.

Theorem norm_comps_skip_dot : forall rooted pre post,
  norm_comps rooted (pre ++ "." :: post) = norm_comps rooted (pre ++ post).
Proof.
  intros rooted pre post. unfold norm_comps. apply norm_loop_pre.
  intros acc. rewrite norm_loop_cons. reflexivity.
Qed.

Lemma norm_loop_push : forall rooted x r acc,
  x <> "" -> x <> "." -> x <> ".." ->
  norm_loop rooted (x :: r) acc = norm_loop rooted r (x :: acc).
Proof.
  intros rooted x r acc H1 H2 H3. rewrite norm_loop_cons.
  apply String.eqb_neq in H1. apply String.eqb_neq in H2. apply String.eqb_neq in H3.
  rewrite H1, H2, H3. reflexivity.
Qed.

Theorem norm_comps_dotdot : forall rooted pre x post,
  x <> "" -> x <> "." -> x <> ".." ->
  norm_comps rooted (pre ++ x :: ".." :: post) = norm_comps rooted (pre ++ post).
Proof.
  intros rooted pre x post H1 H2 H3. unfold norm_comps. apply norm_loop_pre.
  intros acc. rewrite norm_loop_push by assumption.
  rewrite norm_loop_cons.
  apply String.eqb_neq in H3. rewrite H3. reflexivity.
Qed.

(* ------------------------------------------------------------------ *)
(* Part 4: split / join                                                *)
(* ------------------------------------------------------------------ *)

Lemma sapp_assoc : forall a b c : string,
  ((a ++ b) ++ c)%string = (a ++ (b ++ c))%string.
Proof. induction a as [|x a IH]; intros b c; simpl; [reflexivity|]. rewrite IH. reflexivity. Qed.

Lemma sapp_nil_r : forall a : string, (a ++ "")%string = a.
Proof. induction a as [|x a IH]; simpl; [reflexivity|]. rewrite IH. reflexivity. Qed.

Lemma split_on_slash_noslash : forall c cur,
  no_slash c = true -> split_on_slash c cur = [(cur ++ c)%string].
Proof.
  induction c as [|a c IH]; intros cur H; simpl in *.
  - rewrite sapp_nil_r. reflexivity.
  - apply andb_true_iff in H. destruct H as [Ha Hc].
    apply negb_true_iff in Ha. rewrite Ha.
    rewrite IH by assumption. rewrite sapp_assoc. reflexivity.
Qed.

Lemma split_on_slash_app : forall c rest cur,
  no_slash c = true ->
  split_on_slash (c ++ String "/" rest)%string cur
  = (cur ++ c)%string :: split_on_slash rest "".
Proof.
  induction c as [|a c IH]; intros rest cur H; simpl in *.
  - rewrite sapp_nil_r. reflexivity.
  - apply andb_true_iff in H. destruct H as [Ha Hc].
    apply negb_true_iff in Ha. rewrite Ha.
    rewrite IH by assumption. rewrite sapp_assoc. reflexivity.
Qed.

Lemma join_slash_cons2 : forall x y r,
  join_slash (x :: y :: r) = (x ++ String "/" (join_slash (y :: r)))%string.
Proof. reflexivity. Qed.

Theorem split_join : forall l, l <> [] ->
  Forall (fun c => no_slash c = true) l -> split_slash (join_slash l) = l.
Proof.
  induction l as [|x l IH]; intros Hne HF; [congruence|].
  inversion HF as [|x' l' Hx Hl]; subst.
  destruct l as [|y r].
  - simpl join_slash. unfold split_slash.
    rewrite split_on_slash_noslash by assumption. reflexivity.
  - rewrite join_slash_cons2. unfold split_slash.
    rewrite split_on_slash_app by assumption. simpl append.
    f_equal. apply IH; [discriminate | assumption].
Qed.

(* ------------------------------------------------------------------ *)
(* Part 5: abspath is idempotent under an absolute cwd                 *)
(* ------------------------------------------------------------------ *)

(* A "normal" component: what the rooted loop can emit. *)
Definition normalc (c : string) : Prop :=
  c <> "" /\ c <> "." /\ c <> ".." /\ no_slash c = true.

(* -- prefix / starts_with ------------------------------------------- *)

Lemma prefix_cons : forall a p b s,
  String.prefix (String a p) (String b s)
  = if Ascii.eqb a b then String.prefix p s else false.
Proof.
  intros a p b s. simpl.
  destruct (ascii_dec a b) as [E|E]; destruct (Ascii.eqb_spec a b) as [E'|E'];
    try reflexivity; contradiction.
Qed.

Lemma prefix_nil_r : forall a p, String.prefix (String a p) "" = false.
Proof. reflexivity. Qed.

Lemma prefix_nil_l : forall s, String.prefix "" s = true.
Proof. destruct s; reflexivity. Qed.

Lemma starts_with_slash_inv : forall s,
  starts_with "/" s = true -> exists r, s = String "/" r.
Proof.
  intros s H. unfold starts_with in H. destruct s as [|b s]; [discriminate|].
  rewrite prefix_cons in H. destruct (Ascii.eqb_spec "/"%char b) as [E|E]; [|discriminate].
  subst b. exists s. reflexivity.
Qed.

Lemma starts_with_slash_cons : forall r, starts_with "/" (String "/" r) = true.
Proof.
  intros r. unfold starts_with. rewrite prefix_cons.
  rewrite Ascii.eqb_refl. apply prefix_nil_l.
Qed.

(* -- no_slash -------------------------------------------------------- *)

Lemma no_slash_app : forall a b,
  no_slash (a ++ b)%string = no_slash a && no_slash b.
Proof.
  induction a as [|x a IH]; intros b; simpl; [reflexivity|].
  rewrite IH. rewrite andb_assoc. reflexivity.
Qed.

Lemma split_on_slash_all_noslash : forall s cur,
  no_slash cur = true ->
  Forall (fun c => no_slash c = true) (split_on_slash s cur).
Proof.
  induction s as [|a s IH]; intros cur H; simpl.
  - constructor; [assumption|constructor].
  - destruct (Ascii.eqb a "/") eqn:E.
    + constructor; [assumption|]. apply IH. reflexivity.
    + apply IH. rewrite no_slash_app, H. simpl. rewrite E. reflexivity.
Qed.

Lemma split_slash_all_noslash : forall s,
  Forall (fun c => no_slash c = true) (split_slash s).
Proof. intros s. apply split_on_slash_all_noslash. reflexivity. Qed.

(* -- the rooted loop only emits normal components -------------------- *)

Lemma norm_loop_rooted_normal : forall l acc,
  Forall (fun c => no_slash c = true) l ->
  Forall normalc acc ->
  Forall normalc (norm_loop true l acc).
Proof.
  induction l as [|c l IH]; intros acc Hl Hacc.
  - simpl. apply Forall_rev. assumption.
  - inversion Hl as [|c' l' Hc Hl']; subst.
    rewrite norm_loop_cons.
    destruct (String.eqb c "") eqn:E1; [apply IH; assumption|].
    destruct (String.eqb c ".") eqn:E2; [apply IH; assumption|].
    destruct (String.eqb c "..") eqn:E3; simpl.
    + destruct acc as [|top acc']; [apply IH; assumption|].
      inversion Hacc as [|t a' Ht Ha']; subst.
      destruct Ht as (_ & _ & Ht & _). apply String.eqb_neq in Ht. rewrite Ht.
      apply IH; assumption.
    + apply IH; [assumption|]. constructor; [|assumption].
      apply String.eqb_neq in E1. apply String.eqb_neq in E2. apply String.eqb_neq in E3.
      repeat split; assumption.
Qed.

Lemma norm_comps_rooted_normal : forall s,
  Forall normalc (norm_comps true (split_slash s)).
Proof.
  intros s. unfold norm_comps. apply norm_loop_rooted_normal.
  - apply split_slash_all_noslash.
  - constructor.
Qed.

(* -- normal components are just pushed ------------------------------- *)

Lemma norm_loop_normal_id : forall rooted l acc,
  Forall normalc l -> norm_loop rooted l acc = rev acc ++ l.
Proof.
  induction l as [|c l IH]; intros acc H.
  - simpl. rewrite app_nil_r. reflexivity.
  - inversion H as [|c' l' Hc Hl]; subst.
    destruct Hc as (H1 & H2 & H3 & _).
    rewrite norm_loop_push by assumption.
    rewrite IH by assumption. simpl rev. rewrite <- app_assoc. reflexivity.
Qed.

Lemma norm_comps_normal_id : forall rooted l,
  Forall normalc l -> norm_comps rooted l = l.
Proof. intros rooted l H. unfold norm_comps. rewrite norm_loop_normal_id by assumption. reflexivity. Qed.

Lemma Forall_normalc_noslash : forall l,
  Forall normalc l -> Forall (fun c => no_slash c = true) l.
Proof.
  intros l H. eapply Forall_impl; [|exact H]. intros c (_ & _ & _ & Hc). exact Hc.
Qed.

(* -- (a) shape of normpath on absolute input ------------------------- *)

Lemma initial_slashes_abs : forall t,
  starts_with "/" t = true -> initial_slashes t = 1 \/ initial_slashes t = 2.
Proof.
  intros t H. unfold initial_slashes. rewrite H.
  destruct (starts_with "//" t && negb (starts_with "///" t)); auto.
Qed.

Lemma normpath_abs : forall t,
  starts_with "/" t = true ->
  normpath t
  = (slashes (initial_slashes t) ++ join_slash (norm_comps true (split_slash t)))%string.
Proof.
  intros t H. destruct (initial_slashes_abs t H) as [E|E];
  destruct (starts_with_slash_inv t H) as [r Hr];
  unfold normpath; rewrite E; subst t; reflexivity.
Qed.

(* -- head of a joined list of normal components ---------------------- *)

Lemma join_slash_head : forall x l,
  normalc x -> exists a b, join_slash (x :: l) = String a b /\ Ascii.eqb a "/" = false.
Proof.
  intros x l (H1 & _ & _ & H4).
  destruct x as [|a x']; [congruence|].
  simpl in H4. apply andb_true_iff in H4. destruct H4 as [Ha _].
  apply negb_true_iff in Ha.
  destruct l as [|y r].
  - exists a, x'. split; [reflexivity|assumption].
  - rewrite join_slash_cons2. simpl. eexists _, _. split; [reflexivity|assumption].
Qed.

Lemma initial_slashes_1 : forall a b,
  Ascii.eqb a "/" = false -> initial_slashes (String "/" (String a b)) = 1.
Proof.
  intros a b H. unfold initial_slashes, starts_with.
  rewrite !prefix_cons. rewrite Ascii.eqb_refl. rewrite prefix_nil_l.
  rewrite (Ascii.eqb_sym "/"%char a), H. reflexivity.
Qed.

Lemma initial_slashes_2 : forall a b,
  Ascii.eqb a "/" = false -> initial_slashes (String "/" (String "/" (String a b))) = 2.
Proof.
  intros a b H. unfold initial_slashes, starts_with.
  rewrite !prefix_cons. rewrite !Ascii.eqb_refl. rewrite prefix_nil_l.
  rewrite (Ascii.eqb_sym "/"%char a), H. reflexivity.
Qed.

Lemma split_slash_slash : forall r, split_slash (String "/" r) = "" :: split_slash r.
Proof. reflexivity. Qed.

Lemma norm_comps_nil_cons : forall rooted l,
  norm_comps rooted ("" :: l) = norm_comps rooted l.
Proof. reflexivity. Qed.

(* -- (c) normpath fixes every string of the shape produced in (a) ----- *)

Lemma normpath_fix : forall n comps,
  n = 1 \/ n = 2 -> Forall normalc comps ->
  normpath (slashes n ++ join_slash comps)%string
  = (slashes n ++ join_slash comps)%string.
Proof.
  intros n comps Hn HF.
  destruct comps as [|x l].
  - destruct Hn; subst n; reflexivity.
  - assert (Hsplit : split_slash (join_slash (x :: l)) = x :: l).
    { apply split_join; [discriminate|]. apply Forall_normalc_noslash. assumption. }
    assert (Hhd : exists a b, join_slash (x :: l) = String a b /\ Ascii.eqb a "/" = false).
    { apply join_slash_head. inversion HF; assumption. }
    destruct Hhd as (a & b & Hj & Ha).
    destruct Hn; subst n.
    + change (slashes 1 ++ join_slash (x :: l))%string with (String "/" (join_slash (x :: l))).
      rewrite normpath_abs by apply starts_with_slash_cons.
      rewrite split_slash_slash, norm_comps_nil_cons, Hsplit.
      rewrite norm_comps_normal_id by assumption.
      rewrite Hj at 1. rewrite initial_slashes_1 by assumption. reflexivity.
    + change (slashes 2 ++ join_slash (x :: l))%string
        with (String "/" (String "/" (join_slash (x :: l)))).
      rewrite normpath_abs by apply starts_with_slash_cons.
      rewrite !split_slash_slash, !norm_comps_nil_cons, Hsplit.
      rewrite norm_comps_normal_id by assumption.
      rewrite Hj at 1. rewrite initial_slashes_2 by assumption. reflexivity.
Qed.

(* -- (b) the argument of normpath inside abspath is absolute ---------- *)

Lemma abspath_arg_abs : forall cwd s,
  starts_with "/" cwd = true ->
  starts_with "/" (if starts_with "/" s then s else path_join cwd s) = true.
Proof.
  intros cwd s Hc. destruct (starts_with "/" s) eqn:E; [assumption|].
  unfold path_join. rewrite E.
  destruct (starts_with_slash_inv cwd Hc) as [c Hcwd]. subst cwd.
  change (String.eqb (String "/" c) "") with false. cbv iota.
  destruct (String.eqb _ "/"); simpl append; apply starts_with_slash_cons.
Qed.

Lemma normpath_abs_starts : forall t,
  starts_with "/" t = true -> starts_with "/" (normpath t) = true.
Proof.
  intros t H. rewrite normpath_abs by assumption.
  destruct (initial_slashes_abs t H) as [E|E]; rewrite E; apply starts_with_slash_cons.
Qed.

Theorem abspath_idem : forall cwd s,
  starts_with "/" cwd = true -> abspath cwd (abspath cwd s) = abspath cwd s.
Proof.
  intros cwd s Hc. unfold abspath at 1.
  assert (Ht : starts_with "/" (if starts_with "/" s then s else path_join cwd s) = true)
    by (apply abspath_arg_abs; assumption).
  assert (Hr : starts_with "/" (abspath cwd s) = true)
    by (unfold abspath; apply normpath_abs_starts; assumption).
  rewrite Hr.
  unfold abspath. rewrite (normpath_abs _ Ht).
  apply normpath_fix.
  - apply initial_slashes_abs. assumption.
  - apply norm_comps_rooted_normal.
Qed.
