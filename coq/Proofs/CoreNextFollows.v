(* Proofs/CoreNextFollows.v — [follows] and the claims it starts with: a successful trace is free of its
   initial claims, and can be restarted with any other claims it is free of. *)
From Coq Require Import List String Ascii NArith ZArith Bool Arith Lia.
From FB.Base Require Import PyVal Fs.
From FB.Gen Require Import JsonUtilGen.
From FB.Spec Require Import JsonSpec Prog Ref Oracle Faithful.
From FB.Model Require Import Types SimpleOps Builder Persist Core.
From FB.Proofs Require Import FsLemmas JsonLaws CoreLawsJson CoreLaws1 CoreLaws2 CoreLaws3 CoreLaws4 CoreNextDefs.
Import ListNotations.
Local Open Scope list_scope.

Lemma mem_path_incl : forall p a b, incl a b -> mem_path p a = true -> mem_path p b = true.
Proof. intros p a b H Hm. apply mem_path_In. apply H. apply mem_path_In. exact Hm. Qed.

Lemma existsb_incl : forall {A} (f : A -> bool) a b, incl a b -> existsb f a = true -> existsb f b = true.
Proof. intros A f a b H He. apply existsb_exists in He. destruct He as [x [Hx Hf]]. apply existsb_exists. exists x. split; auto. Qed.

Lemma false_incl : forall (x y : bool), (x = true -> y = true) -> y = false -> x = false.
Proof. intros [|] y H Hy; [rewrite H in Hy by reflexivity; discriminate|reflexivity]. Qed.

Lemma free_incl : forall eF eS eF' eS' o, incl eF' eF -> incl eS' eS -> free eF eS o = true -> free eF' eS' o = true.
Proof.
  intros eF eS eF' eS' o HF HS.
  induction o as [q r e|p c f a k subs r cr ra sf IH|f a k subs r ra sf IH] using op_ind'; intro H; [reflexivity| |].
  - cbn [free] in *. apply andb_true_iff in H. destruct H as [H H3]. apply andb_true_iff in H. destruct H as [H1 H2].
    apply negb_true_iff in H1, H2.
    rewrite (false_incl _ _ (mem_path_incl p _ _ HF) H1), (false_incl _ _ (existsb_incl _ _ _ HF) H2). cbn [negb andb].
    rewrite forallb_forall in *. rewrite Forall_forall in IH. intros x Hx. apply IH; auto.
  - cbn [free] in *. apply andb_true_iff in H. destruct H as [H1 H3]. apply negb_true_iff in H1.
    rewrite (false_incl _ _ (existsb_incl _ _ _ HS) H1). cbn [negb andb].
    rewrite forallb_forall in *. rewrite Forall_forall in IH. intros x Hx. apply IH; auto.
Qed.

Lemma free_union : forall a c b d o, free a c o = true -> free b d o = true -> free (a ++ b) (c ++ d) o = true.
Proof.
  intros a c b d o.
  induction o as [q r e|p cm f ar k subs r cr ra sf IH|f ar k subs r ra sf IH] using op_ind'; intros H1 H2; [reflexivity| |].
  - cbn [free] in *. apply andb_true_iff in H1, H2. destruct H1 as [H1 H13], H2 as [H2 H23].
    apply andb_true_iff in H1, H2. destruct H1 as [H11 H12], H2 as [H21 H22].
    apply negb_true_iff in H11, H12, H21, H22.
    rewrite mem_path_app, existsb_app, H11, H12, H21, H22. cbn [negb orb andb].
    rewrite forallb_forall in *. rewrite Forall_forall in IH. intros x Hx. apply IH; auto.
  - cbn [free] in *. apply andb_true_iff in H1, H2. destruct H1 as [H11 H13], H2 as [H21 H23].
    apply negb_true_iff in H11, H21. rewrite existsb_app, H11, H21. cbn [negb orb andb].
    rewrite forallb_forall in *. rewrite Forall_forall in IH. intros x Hx. apply IH; auto.
Qed.

Lemma frees_incl : forall eF eS eF' eS' l, incl eF' eF -> incl eS' eS ->
  forallb (free eF eS) l = true -> forallb (free eF' eS') l = true.
Proof. intros. rewrite forallb_forall in *. intros x Hx. eapply free_incl; eauto. Qed.
Lemma frees_union : forall a c b d l, forallb (free a c) l = true -> forallb (free b d) l = true ->
  forallb (free (a ++ b) (c ++ d)) l = true.
Proof. intros. rewrite forallb_forall in *. intros x Hx. apply free_union; auto. Qed.

Lemma free_nil : forall o, free [] [] o = true.
Proof.
  induction o as [q r e|p cm f ar k subs r cr ra sf IH|f ar k subs r ra sf IH] using op_ind'; [reflexivity| |];
    cbn [free mem_path existsb negb andb]; rewrite forallb_forall; rewrite Forall_forall in IH; auto.
Qed.

Section Follows.
  Variable kp : kappa.

  (* a successful trace is free of the claims it started with *)
  Lemma follows_free : forall pr tgt subs w cl out w' cl',
    follows kp tgt pr subs w cl = Some (out, w', [], cl') -> forallb (free (fst cl) (snd cl)) subs = true.
  Proof.
    induction pr as [v|e|st q k IHk|c k IHk|st p c fname a kw fn IHfn k IHk|st fname a kw fn IHfn k IHk];
      intros tgt subs w cl out w' cl' H; cbn [follows] in H.
    - inversion H; subst. reflexivity.
    - inversion H; subst. reflexivity.
    - destruct st; [eapply IHk; eauto|].
      destruct subs as [|[q' r ex| |] rest]; try discriminate.
      destruct (negb (query_beq q q')); [discriminate|]. cbn [forallb free andb].
      destruct ex as [c|]; [eapply IHk; eauto|].
      destruct (user_value kp q r); [eapply IHk; eauto|discriminate].
    - destruct tgt as [p|]; [|eapply IHk; eauto].
      destruct (path_ok p); [eapply IHk; eauto|]. inversion H; subst. reflexivity.
    - destruct st; [eapply IHk; eauto|].
      destruct (sanitize a) as [sa|]; [|eapply IHk; eauto]. destruct (sanitize kw) as [skw|]; [|eapply IHk; eauto].
      destruct subs as [|[|p' c' f' a' k' nsubs ret_ cmpres raised sf|] rest]; try discriminate.
      destruct (negb (path_eqb p p')) eqn:Ep; [discriminate|]. apply negb_false_iff, path_eqb_eq in Ep. subst p'.
      destruct sf; [discriminate|].
      destruct (mem_path p (fst cl) || existsb (is_ancestor p) (fst cl)) eqn:Ecl; [discriminate|].
      apply orb_false_iff in Ecl. destruct Ecl as [E1 E2].
      destruct (follows kp (Some p) (fn p sa skw) nsubs None (fst cl ++ [p], snd cl)) as [[[[out_n bytes_n] rest_n] cl2]|] eqn:En; [|discriminate].
      destruct rest_n; [|discriminate].
      destruct (bf_end kp p c' nsubs ret_ cmpres raised out_n bytes_n cl2) as [o|]; [|discriminate].
      pose proof (follows_claims _ _ _ _ _ _ _ _ _ En) as Hcl2.
      pose proof (IHfn _ _ _ _ _ _ _ _ _ _ En) as F1. cbn [fst snd] in F1.
      pose proof (IHk _ _ _ _ _ _ _ _ H) as F2. subst cl2. cbn [fst snd] in F2.
      cbn [forallb free]. rewrite E1, E2. cbn [negb andb].
      rewrite (frees_incl _ _ (fst cl) (snd cl) nsubs (incl_appl _ (incl_refl _)) (incl_refl _) F1). cbn [andb].
      refine (frees_incl _ _ _ _ rest _ _ F2).
      + apply incl_appl, incl_appl, incl_refl.
      + apply incl_appl, incl_refl.
    - destruct st; [eapply IHk; eauto|].
      destruct (sanitize a) as [sa|]; [|eapply IHk; eauto]. destruct (sanitize kw) as [skw|]; [|eapply IHk; eauto].
      destruct subs as [|[| |f' a' k' nsubs ret_ raised sf] rest]; try discriminate.
      destruct (String.eqb fname f' && pyval_same a' sa && pyval_same k' skw) eqn:Ek; [|discriminate]. cbn [negb] in H.
      apply andb_true_iff in Ek. destruct Ek as [Ek E3]. apply andb_true_iff in Ek. destruct Ek as [E1 E2].
      apply String.eqb_eq in E1. apply pyval_same_eq in E2, E3. subst f' a' k'.
      destruct sf; [discriminate|].
      destruct (existsb (py_eq (subbuild_key fname sa skw)) (snd cl)) eqn:Ecl; [discriminate|].
      destruct (follows kp None (fn sa skw) nsubs None (fst cl, snd cl ++ [subbuild_key fname sa skw])) as [[[[out_n bytes_n] rest_n] cl2]|] eqn:En; [|discriminate].
      destruct rest_n; [|discriminate].
      destruct (sb_end ret_ raised out_n) as [o|]; [|discriminate].
      pose proof (follows_claims _ _ _ _ _ _ _ _ _ En) as Hcl2.
      pose proof (IHfn _ _ _ _ _ _ _ _ _ En) as F1. cbn [fst snd] in F1.
      pose proof (IHk _ _ _ _ _ _ _ _ H) as F2. subst cl2. cbn [fst snd] in F2.
      cbn [forallb free]. rewrite Ecl. cbn [negb andb].
      rewrite (frees_incl _ _ (fst cl) (snd cl) nsubs (incl_refl _) (incl_appl _ (incl_refl _)) F1). cbn [andb].
      refine (frees_incl _ _ _ _ rest _ _ F2).
      + apply incl_appl, incl_refl.
      + apply incl_appl, incl_appl, incl_refl.
  Qed.

  Lemma bf_end_reclaim : forall p c nsubs ret_ cmpres raised out_n bytes_n clA clB o,
    (existsb (is_ancestor p) (fst clA) = false -> existsb (is_ancestor p) (fst clB) = false) ->
    bf_end kp p c nsubs ret_ cmpres raised out_n bytes_n clA = Some o ->
    bf_end kp p c nsubs ret_ cmpres raised out_n bytes_n clB = Some o.
  Proof.
    intros p c nsubs ret_ cmpres raised out_n bytes_n clA clB o Hc H. unfold bf_end in *.
    destruct out_n as [v|e]; [|exact H]. destruct (sanitize v) as [sv|]; [|exact H].
    destruct bytes_n as [b|]; [|exact H].
    destruct (existsb (is_ancestor p) (flat_map tree_outputs nsubs)); [exact H|].
    destruct (existsb (is_ancestor p) (fst clA)); [discriminate|]. rewrite (Hc eq_refl). exact H.
  Qed.

  (* a successful trace can be restarted with any claims it is free of *)
  Lemma follows_reclaim : forall pr tgt subs w cl out w' cl' cl2,
    follows kp tgt pr subs w cl = Some (out, w', [], cl') ->
    forallb (free (fst cl2) (snd cl2)) subs = true ->
    follows kp tgt pr subs w cl2 = Some (out, w', [], (fst cl2 ++ fst (cll subs), snd cl2 ++ snd (cll subs))).
  Proof.
    induction pr as [v|e|st q k IHk|c k IHk|st p c fname a kw fn IHfn k IHk|st fname a kw fn IHfn k IHk];
      intros tgt subs w cl out w' cl' cl2 H Hf; cbn [follows] in H |- *.
    - inversion H; subst. cbn. rewrite !app_nil_r. destruct cl2; reflexivity.
    - inversion H; subst. cbn. rewrite !app_nil_r. destruct cl2; reflexivity.
    - destruct st; [eapply IHk; eauto|].
      destruct subs as [|[q' r ex| |] rest]; try discriminate.
      destruct (negb (query_beq q q')); [discriminate|].
      rewrite cll_cons. cbn [tree_claims fst snd app]. cbn [forallb free andb] in Hf.
      destruct ex as [c|]; [eapply IHk; eauto|].
      destruct (user_value kp q r); [eapply IHk; eauto|discriminate].
    - destruct tgt as [p|]; [|eapply IHk; eauto].
      destruct (path_ok p); [eapply IHk; eauto|].
      inversion H; subst. cbn. rewrite !app_nil_r. destruct cl2; reflexivity.
    - destruct st; [eapply IHk; eauto|].
      destruct (sanitize a) as [sa|]; [|eapply IHk; eauto]. destruct (sanitize kw) as [skw|]; [|eapply IHk; eauto].
      destruct subs as [|[|p' c' f' a' k' nsubs ret_ cmpres raised sf|] rest]; try discriminate.
      destruct (negb (path_eqb p p')) eqn:Ep; [discriminate|]. apply negb_false_iff, path_eqb_eq in Ep. subst p'.
      destruct sf; [discriminate|].
      destruct (mem_path p (fst cl) || existsb (is_ancestor p) (fst cl)) eqn:Ecl; [discriminate|].
      apply orb_false_iff in Ecl. destruct Ecl as [E1 E2].
      destruct (follows kp (Some p) (fn p sa skw) nsubs None (fst cl ++ [p], snd cl)) as [[[[out_n bytes_n] rest_n] cl1]|] eqn:En; [|discriminate].
      destruct rest_n; [|discriminate].
      destruct (bf_end kp p c' nsubs ret_ cmpres raised out_n bytes_n cl1) as [o|] eqn:Eo; [|discriminate].
      cbn [forallb free] in Hf. apply andb_true_iff in Hf. destruct Hf as [Hf Hf3].
      apply andb_true_iff in Hf. destruct Hf as [Hf Hf2]. apply andb_true_iff in Hf. destruct Hf as [G1 G2].
      apply negb_true_iff in G1, G2. rewrite G1, G2. cbn [orb].
      pose proof (follows_claims _ _ _ _ _ _ _ _ _ En) as Hcl1.
      pose proof (follows_free _ _ _ _ _ _ _ _ En) as F1. cbn [fst snd] in F1.
      pose proof (follows_free _ _ _ _ _ _ _ _ H) as F2. subst cl1. cbn [fst snd] in F2, Eo, H.
      assert (Hn : forallb (free (fst cl2 ++ [p]) (snd cl2)) nsubs = true).
      { rewrite <- (app_nil_r (snd cl2)). apply frees_union; [exact Hf2|].
        refine (frees_incl _ _ _ _ nsubs _ _ F1); [apply incl_appr, incl_refl|intros x []]. }
      pose proof (IHfn _ _ _ _ _ _ _ _ _ _ (fst cl2 ++ [p], snd cl2) En Hn) as R1. cbn [fst snd] in R1. rewrite R1.
      assert (HX : existsb (is_ancestor p) (fst ((fst cl ++ [p]) ++ fst (cll nsubs), snd cl ++ snd (cll nsubs))) = false ->
                   existsb (is_ancestor p) (fst ((fst cl2 ++ [p]) ++ fst (cll nsubs), snd cl2 ++ snd (cll nsubs))) = false).
      { cbn [fst]. rewrite !existsb_app. intro Hx. apply orb_false_iff in Hx. destruct Hx as [Hx Hy].
        rewrite G2, Hy. cbn. rewrite is_ancestor_irrefl. reflexivity. }
      rewrite (bf_end_reclaim _ _ _ _ _ _ _ _ _ _ _ HX Eo).
      assert (Hr : forallb (free ((fst cl2 ++ [p]) ++ fst (cll nsubs)) (snd cl2 ++ snd (cll nsubs))) rest = true).
      { rewrite <- app_assoc. apply frees_union; [exact Hf3|].
        refine (frees_incl _ _ _ _ rest _ _ F2).
        - rewrite <- app_assoc. apply incl_appr, incl_refl.
        - apply incl_appr, incl_refl. }
      pose proof (IHk _ _ _ _ _ _ _ _ ((fst cl2 ++ [p]) ++ fst (cll nsubs), snd cl2 ++ snd (cll nsubs)) H Hr) as R2. cbn [fst snd] in R2. rewrite R2.
      rewrite cll_cons, tree_claims_BF. cbn [fst snd]. rewrite <- !app_assoc. reflexivity.
    - destruct st; [eapply IHk; eauto|].
      destruct (sanitize a) as [sa|]; [|eapply IHk; eauto]. destruct (sanitize kw) as [skw|]; [|eapply IHk; eauto].
      destruct subs as [|[| |f' a' k' nsubs ret_ raised sf] rest]; try discriminate.
      destruct (String.eqb fname f' && pyval_same a' sa && pyval_same k' skw) eqn:Ek; [|discriminate]. cbn [negb] in H |- *.
      apply andb_true_iff in Ek. destruct Ek as [Ek E3]. apply andb_true_iff in Ek. destruct Ek as [E1 E2].
      apply String.eqb_eq in E1. apply pyval_same_eq in E2, E3. subst f' a' k'.
      destruct sf; [discriminate|].
      destruct (existsb (py_eq (subbuild_key fname sa skw)) (snd cl)) eqn:Ecl; [discriminate|].
      destruct (follows kp None (fn sa skw) nsubs None (fst cl, snd cl ++ [subbuild_key fname sa skw])) as [[[[out_n bytes_n] rest_n] cl1]|] eqn:En; [|discriminate].
      destruct rest_n; [|discriminate].
      destruct (sb_end ret_ raised out_n) as [o|] eqn:Eo; [|discriminate].
      cbn [forallb free] in Hf. apply andb_true_iff in Hf. destruct Hf as [Hf Hf3].
      apply andb_true_iff in Hf. destruct Hf as [G1 Hf2]. apply negb_true_iff in G1. rewrite G1.
      pose proof (follows_claims _ _ _ _ _ _ _ _ _ En) as Hcl1.
      pose proof (follows_free _ _ _ _ _ _ _ _ En) as F1. cbn [fst snd] in F1.
      pose proof (follows_free _ _ _ _ _ _ _ _ H) as F2. subst cl1. cbn [fst snd] in F2, H.
      assert (Hn : forallb (free (fst cl2) (snd cl2 ++ [subbuild_key fname sa skw])) nsubs = true).
      { rewrite <- (app_nil_r (fst cl2)). apply frees_union; [exact Hf2|].
        refine (frees_incl _ _ _ _ nsubs _ _ F1); [intros x []|apply incl_appr, incl_refl]. }
      pose proof (IHfn _ _ _ _ _ _ _ _ _ (fst cl2, snd cl2 ++ [subbuild_key fname sa skw]) En Hn) as R1. cbn [fst snd] in R1. rewrite R1.
      rewrite Eo.
      assert (Hr : forallb (free (fst cl2 ++ fst (cll nsubs)) ((snd cl2 ++ [subbuild_key fname sa skw]) ++ snd (cll nsubs))) rest = true).
      { rewrite <- app_assoc. apply frees_union; [exact Hf3|].
        refine (frees_incl _ _ _ _ rest _ _ F2).
        - apply incl_appr, incl_refl.
        - rewrite <- app_assoc. apply incl_appr, incl_refl. }
      pose proof (IHk _ _ _ _ _ _ _ _ (fst cl2 ++ fst (cll nsubs), (snd cl2 ++ [subbuild_key fname sa skw]) ++ snd (cll nsubs)) H Hr) as R2. cbn [fst snd] in R2. rewrite R2.
      rewrite cll_cons, tree_claims_SB. cbn [fst snd app]. rewrite <- !app_assoc. reflexivity.
  Qed.
End Follows.

Print Assumptions follows_reclaim.
