(* Proofs/RollbackFaultsEx.v — concrete runs with injected faults (vm_compute) for
   Proofs/RollbackFaultsMain.v:
   - [every_single_fault]: one build (a foreign file overwritten, an old output rebuilt,
     new directories, the cache file rewritten) run once per fault ordinal k = 0..39: every
     run that ends with an exception and whose fault lies before the undo has exactly the
     regular files of the pre-state; this covers mkdir, rename, remove and both writes
     of the cache file;
   - [fault_in_undo_loses_file]: a fault that hits restore_all (out of scope of the
     theorem) does lose a file: the hypothesis "faults before the undo" cannot be dropped;
   - FINDING [double_fault_leaves_partial_cache]: Cache.write fails after creating the file
     (fault 1) and the removal of the partial file fails too (fault 2), first build: the
     truncated cache file stays and the next build is refused (RuntimeError: bad cache).
     This is why the undo is taken to start with that removal. *)
From Coq Require Import List String NArith ZArith Bool Arith.
From FB.Base Require Import PyVal Fs.
From FB.Gen Require Import JsonUtilGen.
From FB.Spec Require Import Prog.
From FB.Model Require Import Types Monad SimpleOps Builder Persist Build Run Dsl Frame.
From FB.Proofs Require Import RollbackFaultsMain.
Import ListNotations.
Open Scope string_scope.

Definition cfp : path := ["cache.gz"].
Definition wr (c : string) : path -> pyval -> pyval -> prog := fun _ _ _ => Write c (Ret PNone).
(* build_file whose failure propagates *)
Definition bfp (p : path) (c : string) (k : prog) : prog :=
  BuildFile false p METADATA "f" (PList [PStr (path_str p); PStr c]) (PDict []) (wr c)
            (fun o => match o with inl _ => k | inr e => Raise e end).

Definition node_eqb (a b : option node) : bool :=
  match a, b with
  | Some (NFile f), Some (NFile g) =>
      String.eqb (f_bytes f) (f_bytes g) && N.eqb (f_mtime f) (f_mtime g) && N.eqb (f_id f) (f_id g)
  | Some NDir, Some NDir => true
  | None, None => true
  | _, _ => false
  end.
Definition same_files (fs0 fs' : fsT) : bool :=
  forallb (fun p => if isfile fs' p then node_eqb (lookup fs' p) (lookup fs0 p) else true) (all_paths fs') &&
  forallb (fun p => if isfile fs0 p then node_eqb (lookup fs' p) (lookup fs0 p) else true) (all_paths fs0).

(* the pre-state: a foreign file u/t, and a first build with outputs c/d/out and e/o2 *)
Definition build1 : prog := bfp ["out"; "d"; "c"] "v1" (bfp ["o2"; "e"] "v1" (Ret PNone)).
Definition pre : world :=
  fst (run_build cfp "n" (PDict []) build1 (fold_left apply_fsop [FWrite ["t"; "u"] "foreign"] init_world)).
(* the second build: overwrites u/t, rebuilds c/d/out with new content, makes a/b/x, drops e/o2 *)
Definition build2 : prog :=
  bfp ["t"; "u"] "mine" (bfp ["out"; "d"; "c"] "v2" (bfp ["x"; "b"; "a"] "v2" (Ret PNone))).

Definition run_with (l : list nat) : world * build_result :=
  run_build cfp "n" (PDict []) build2 (with_faults (map (fun k => k + w_effects pre) l) pre).

Definition entry_effects (l : list nat) : option nat :=
  let w := with_faults (map (fun k => k + w_effects pre) l) pre in
  match undo_entry cfp "n" (PDict []) (fun w0 => run build2 None [] w0) w (old_cache_of (w_fs w) cfp "n" (PDict [])) with
  | Some (_, wx) => Some (w_effects wx - w_effects pre)
  | None => None
  end.

(* the verdict for the fault list l (ordinals relative to the start of the build):
   0 = the build committed; 1 = failed, faults before the undo, files exactly restored;
   2 = failed, faults before the undo, files NOT restored; 3 = failed, a fault in the undo *)
Definition verdict (l : list nat) : nat :=
  let '(w', r) := run_with l in
  match r with
  | Done (inr _) =>
      match entry_effects l with
      | Some n => if forallb (fun k => Nat.ltb k n) l
                  then (if same_files (w_fs pre) (w_fs w') then 1 else 2) else 3
      | None => 2
      end
  | _ => 0
  end.

Example no_fault_commits : verdict [] = 0.
Proof. vm_compute. reflexivity. Qed.

(* no single fault gives verdict 2 *)
Example every_single_fault : forallb (fun k => negb (Nat.eqb (verdict [k]) 2)) (seq 0 40) = true.
Proof. vm_compute. reflexivity. Qed.

(* faults 0..11 hit a call of the forward phase (the build fails and is rolled back);
   from 12 on the fault hits _commit, which swallows OSError: the build commits *)
Example single_fault_census :
  map (fun k => verdict [k]) (seq 0 16) = [1;1;1;1;1;1;1;1;1;1;1;1;0;0;0;0].
Proof. vm_compute. reflexivity. Qed.

(* the same build with a root function that raises at the end: the undo starts after 8
   mutating calls; a fault at ordinal 10 hits os.replace in restore_all and the old output
   c/d/out is not restored (out of scope of the theorem: the fault is inside the undo) *)
Definition build3 : prog :=
  bfp ["t"; "u"] "mine" (bfp ["out"; "d"; "c"] "v2" (bfp ["x"; "b"; "a"] "v2" (Raise (XUser 7)))).
Definition run3 (l : list nat) : world * build_result :=
  run_build cfp "n" (PDict []) build3 (with_faults (map (fun k => k + w_effects pre) l) pre).

Example fault_in_undo_loses_file :
  match undo_entry cfp "n" (PDict []) (fun w0 => run build3 None [] w0) (with_faults [10 + w_effects pre] pre)
          (old_cache_of (w_fs pre) cfp "n" (PDict [])) with
  | Some (_, wx) => w_effects wx - w_effects pre
  | None => 0
  end = 8 /\
  snd (run3 [10]) = Done (inr (XUser 7)) /\
  same_files (w_fs pre) (w_fs (fst (run3 [10]))) = false /\
  same_files (w_fs pre) (w_fs (fst (run3 [7]))) = true.
Proof. vm_compute. repeat split; reflexivity. Qed.

(* FINDING.  First build (no previous cache): the second write of Cache.write fails
   (ordinal 1) and so does the removal of the partial file (ordinal 2).  The build raises
   OSError, the truncated cache file stays, and the next build is refused. *)
Definition first_build (l : list nat) (w : world) : world * build_result :=
  run_build cfp "n" (PDict []) (bfp ["x"] "v" (Ret PNone)) (with_faults l w).

Example double_fault_leaves_partial_cache :
  snd (first_build [1] init_world) = Done (inr (XOS XOSError)) /\
  show_tree [] (w_fs (fst (first_build [1] init_world))) cfp = [] /\
  snd (first_build [1; 2] init_world) = Done (inr (XOS XOSError)) /\
  show_tree [] (w_fs (fst (first_build [1; 2] init_world))) cfp = ["/cache.gz|CACHE"] /\
  snd (first_build [] (fst (first_build [1; 2] init_world))) = Refused (XRuntime RBadCache).
Proof. vm_compute. repeat split; reflexivity. Qed.
