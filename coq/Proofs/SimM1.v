(* Proofs/SimM1.v — SimF2 (RS_regs for the new cache) for the class okcH of SimJ4 and programs
   that may compare by HASH: the registered targets of a recorded tree are pairwise different and
   differ from the record's own target.  Copy of SimF2's run invariant with the hits discharged
   from okcH; no condition on comparison modes (QueriesOkP of SimG5, no CmpMeta).            *)
From Coq Require Import List String Ascii NArith ZArith Bool Arith Lia.
From FB.Base Require Import PyVal Fs.
From FB.Gen Require Import JsonUtilGen.
From FB.Spec Require Import JsonSpec Prog Ref Oracle Faithful.
From FB.Model Require Import Types Monad CreatedFiles BuildDirs SimpleOps Builder Persist Build Run Frame Core CoreOracle.
From FB.Proofs Require Import FsLemmas JsonLaws ReplayLaws BuildFileLaws CoreLaws1 CoreLaws2 CoreLaws3 CoreLaws4
     CoreNextRegs CoreNextState
     HashMemoInv ViewDefs ViewLemmas ViewInit ViewXDefs ViewH4 ViewH6 ViewR2 ViewR3 ViewK3 ViewK4 ViewK8
     SimA0 SimA2Base SimAMain SimB2 SimB7 SimB9 SimB11 SimC0 SimC5 SimC12 SimC14 SimC15 SimD5 SimD7 SimF1 SimF2 SimG5 SimJ4 SimJ9.
Import ListNotations.
Open Scope list_scope.
Lemma hitF_ndH : forall c0 old s s0 p c fname sa skw f subs' ret' r,
  okcH c0 old -> k_old s = old -> core_hit s s0 p fname sa skw = Some (f, subs', ret', r) ->
  NDall (deep (OBuildFile p c fname sa skw subs' ret' (cmp_of c f) false false)).
Proof.
  intros c0 old s s0 p c fname sa skw f subs' ret' r [Hokc _] Hold H. unfold core_hit in H. rewrite Hold in H.
  destruct (cache_get_file old p) as [[|p' c' fname' a' k' subs0 ret0 cmpres' raised' sf'|]|] eqn:Eg; try discriminate.
  destruct raised'; [discriminate|].
  destruct (negb (String.eqb fname' fname)); [discriminate|].
  destruct (negb (kversion_equal s fname)); [discriminate|].
  destruct (negb (is_equal a' sa) || negb (is_equal k' skw)); [discriminate|].
  destruct (phys (k_fs s0) (k_stale s0) p) as [f0|]; [|discriminate].
  destruct (negb (is_equal cmpres' (cmp_of c' f0))); [discriminate|].
  destruct (kreplay_list s0 subs0 (start_replay s0)) as [rpx|]; [|discriminate].
  inversion H; subst f0 subs0 ret0 rpx. clear H.
  pose proof (Hokc _ _ Eg) as K. cbn [frec_staticH orb] in K.
  apply andb_true_iff in K. destruct K as [_ K]. apply andb_true_iff in K. destruct K as [_ K].
  unfold subs_staticH in K.
  apply andb_true_iff in K. destruct K as [K _]. apply andb_true_iff in K. destruct K as [K _].
  apply andb_true_iff in K. destruct K as [K K5]. apply andb_true_iff in K. destruct K as [_ K4].
  apply NDall_deep. cbn [regp app]. constructor; [exact (forallb_notself p _ K5)|exact (nodupb_NoDup _ K4)].
Qed.

Lemma hitS_ndH : forall c0 old s fname sa skw subs' ret' r,
  okcH c0 old -> k_old s = old -> core_subhit s fname (subbuild_key fname sa skw) = Some (subs', ret', r) ->
  NDall (deep (OSubbuild fname sa skw subs' ret' false false)).
Proof.
  intros c0 old s fname sa skw subs' ret' r [_ Hokc] Hold H. unfold core_subhit in H. rewrite Hold in H.
  destruct (subs_get (c_subs old) (subbuild_key fname sa skw)) as [[[| |f' a' k' subs0 ret0 raised' sf']|]|] eqn:Eg; try discriminate.
  destruct raised'; [discriminate|]. destruct (negb (kversion_equal s fname)); [discriminate|].
  destruct (kreplay_list s subs0 (start_replay s)) as [rpx|]; [|discriminate]. inversion H; subst subs0 ret0 rpx. clear H.
  destruct (Hokc _ _ Eg) as (q & _ & K). cbn [srec_staticH orb] in K.
  do 6 (apply andb_true_iff in K; destruct K as [K _]).
  unfold subs_staticH in K.
  apply andb_true_iff in K. destruct K as [K _]. apply andb_true_iff in K. destruct K as [K _].
  apply andb_true_iff in K. destruct K as [K _]. apply andb_true_iff in K. destruct K as [_ K4].
  apply NDall_deep. cbn [regp]. exact (nodupb_NoDup _ K4).
Qed.

Section RunH.
  Variable c0 : N.
  Variable old : cache.
  Hypothesis Hokc : okcH c0 old.

  Definition run_nd_atH (pr : prog) : Prop :=
    forall tgt pend subs s s' out pend' subs',
      k_old s = old ->
      core_run pr tgt pend subs s = (s', (out, pend', subs')) ->
      exists produced, subs' = subs ++ produced /\ Ext s s' (fst (cll produced)) (snd (cll produced)) (deepl produced) /\
                       NoDup (fst (cll produced)) /\ NDall (deepl produced).

  Lemma nd_nilH : forall s subs, exists produced : list op, subs = subs ++ produced /\ Ext s s (fst (cll produced)) (snd (cll produced)) (deepl produced) /\
                       NoDup (fst (cll produced)) /\ NDall (deepl produced).
  Proof. intros. exists []. split; [rewrite app_nil_r; reflexivity|]. split; [apply Ext_refl|]. split; [constructor|intros x []]. Qed.

  Lemma nd_consH : forall s s1 s' o subs subs' pk,
    Ext s s1 (fst (tree_claims o)) (snd (tree_claims o)) (deep o) -> NDall (deep o) ->
    subs' = (subs ++ [o]) ++ pk -> Ext s1 s' (fst (cll pk)) (snd (cll pk)) (deepl pk) ->
    NoDup (fst (cll pk)) -> NDall (deepl pk) ->
    exists produced, subs' = subs ++ produced /\ Ext s s' (fst (cll produced)) (snd (cll produced)) (deepl produced) /\
                     NoDup (fst (cll produced)) /\ NDall (deepl produced).
  Proof.
    intros s s1 s' o subs subs' pk E1 N1 -> E2 N2 N3. exists (o :: pk). split; [rewrite <- app_assoc; reflexivity|].
    split; [eapply ext_step; eauto|]. split.
    - rewrite cll_cons. cbn [fst]. apply NoDup_app_intro.
      + rewrite <- regp_claims. apply N1. apply deep_self.
      + exact N2.
      + intros q H1 H2. pose proof (x_fresh _ _ _ _ _ E2 q H2) as K.
        destruct (x_clF _ _ _ _ _ E1) as (eF & EeF & HeF). rewrite EeF in K.
        assert (In q (eF ++ k_claimedF s)) by (apply in_or_app; left; apply HeF; exact H1).
        apply (proj2 (ViewLemmas.mem_path_In q _)) in H. congruence.
    - intros x Hx. cbn [deepl flat_map] in Hx. apply in_app_or in Hx. destruct Hx as [Hx|Hx]; [exact (N1 x Hx)|exact (N3 x Hx)].
  Qed.

  Lemma nd_sameH : forall q a, NDall (deep (record_of q a)).
  Proof. intros q [v|c] x [<-|[]]; constructor. Qed.

  Theorem core_run_ndH : forall pr, run_nd_atH pr.
  Proof.
    induction pr as [v|e|st q k IHk|c k IHk|st p c fname a kw fn IHfn k IHk|st fname a kw fn IHfn k IHk];
      intros tgt pend subs s s' out pend' subs' Ho H.
    - inversion H; subst. apply nd_nilH.
    - inversion H; subst. apply nd_nilH.
    - rewrite core_run_Ask in H. destruct st; [eapply IHk; eauto|]. cbv zeta in H.
      destruct (spec_answer (k_fs s) q) as [v|cl].
      + eapply IHk in H; [|exact Ho]. destruct H as (pk & E1 & E2 & E3 & E4).
        eapply nd_consH; [|apply nd_sameH|exact E1|exact E2|exact E3|exact E4]. rewrite record_of_claims. apply Ext_same; reflexivity.
      + eapply IHk in H; [|exact Ho]. destruct H as (pk & E1 & E2 & E3 & E4).
        eapply nd_consH; [|apply nd_sameH|exact E1|exact E2|exact E3|exact E4]. rewrite record_of_claims. apply Ext_same; reflexivity.
    - rewrite core_run_Write in H. destruct tgt as [p|]; [|eapply IHk; eauto].
      destruct (path_ok p).
      + eapply IHk in H; [|exact Ho]. destruct H as (pk & E1 & E2 & E3 & E4). exists pk. split; [exact E1|]. split; [|split; assumption].
        change (fst (cll pk)) with ([] ++ fst (cll pk)). change (snd (cll pk)) with ([] ++ snd (cll pk)).
        eapply Ext_trans; [|exact E2]. apply Ext_same; reflexivity.
      + inversion H; subst. apply nd_nilH.
    - rewrite core_run_BuildFile in H. destruct st; [eapply IHk; eauto|].
      destruct (sanitize a) as [sa|]; [|eapply IHk; eauto]. destruct (sanitize kw) as [skw|]; [|eapply IHk; eauto].
      cbv zeta in H.
      assert (Nsf : NDall (deep (OBuildFile p c fname sa skw [] PNone PNone true true))) by (intros x [<-|[]]; constructor).
      destruct (claim_check (k_claimedF s) (k_cachefile s) p) as [ec|] eqn:Ecc.
      { destruct (IHk _ _ _ _ _ _ _ _ _ Ho H) as (pk & E1 & E2 & E3 & E4).
        eapply nd_consH; [|exact Nsf|exact E1|exact E2|exact E3|exact E4]. apply Ext_refl. }
      destruct (setup_fs (k_fs s) (k_cachefile s) p) as [[fs1 dirs]|e1] eqn:Esk.
      2:{ destruct (IHk _ _ _ _ _ _ _ _ _ Ho H) as (pk & E1 & E2 & E3 & E4).
          eapply nd_consH; [|exact Nsf|exact E1|exact E2|exact E3|exact E4]. apply Ext_refl. }
      destruct (core_hit s (core_s0 s p fs1 dirs) p fname sa skw) as [[[[fh subs1] ret1] rp1]|] eqn:Ehit.
      + pose proof (Ext_hitF s p fs1 dirs c fname sa skw fh subs1 ret1 rp1 Ecc Esk Ehit) as X. cbv zeta in X.
        assert (Ho1 : k_old (core_put (adopt (core_s0 s p fs1 dirs) rp1 (OBuildFile p c fname sa skw subs1 ret1 (cmp_of c fh) false false)) p fh) = old)
          by (rewrite (proj1 (x_const _ _ _ _ _ X)); exact Ho).
        destruct (IHk _ _ _ _ _ _ _ _ _ Ho1 H) as (pk & E1 & E2 & E3 & E4).
        eapply nd_consH; [exact X| |exact E1|exact E2|exact E3|exact E4].
        exact (hitF_ndH c0 old s _ p c fname sa skw fh subs1 ret1 rp1 Hokc Ho Ehit).
      + destruct (core_run (fn p sa skw) (Some p) None [] (CoreLaws3.core_start (core_s0 s p fs1 dirs) p fname sa skw)) as [s2 [[res pend2] bsubs]] eqn:Ec2.
        destruct (core_finish s2 p c fname sa skw bsubs res pend2) as [[s3 out3] o3] eqn:Ef.
        pose proof (Ext_start s p fs1 dirs fname sa skw [] Ecc Esk) as Xs.
        assert (Ho0 : k_old (CoreLaws3.core_start (core_s0 s p fs1 dirs) p fname sa skw) = old)
          by (rewrite (proj1 (x_const _ _ _ _ _ Xs)); exact Ho).
        destruct (IHfn _ _ _ _ _ _ _ _ _ _ _ Ho0 Ec2) as (pn & En1 & En2 & En3 & En4). cbn [app] in En1. subst pn.
        destruct (core_finish_rec _ _ _ _ _ _ _ _ _ _ _ _ Ef) as (r & cr & ra & Hrec).
        pose proof (Ext_wrapBF _ _ _ _ _ _ _ _ _ _ _ _ _ _ _ _ _ _ Ecc Esk En2 Ef) as W.
        assert (Ho3 : k_old s3 = old) by (rewrite (proj1 (x_const _ _ _ _ _ W)); exact Ho).
        destruct (IHk _ _ _ _ _ _ _ _ _ Ho3 H) as (pk & E1 & E2 & E3 & E4).
        eapply nd_consH; [| |exact E1|exact E2|exact E3|exact E4].
        * rewrite Hrec. rewrite tree_regs_claims_BF_nonsf. cbn [fst snd deep]. rewrite <- Hrec. exact W.
        * rewrite Hrec. intros x Hx. cbn [deep] in Hx. destruct Hx as [<-|Hx]; [|exact (En4 x Hx)].
          cbn [regp app]. rewrite flat_regp_cll. constructor; [|exact En3].
          intro K. pose proof (x_fresh _ _ _ _ _ En2 p K) as K2.
          destruct (x_clF _ _ _ _ _ Xs) as (eF & EeF & HeF). rewrite EeF in K2.
          assert (In p (eF ++ k_claimedF s)) by (apply in_or_app; left; apply HeF; left; reflexivity).
          apply (proj2 (ViewLemmas.mem_path_In p _)) in H0. congruence.
    - rewrite core_run_Subbuild in H. destruct st; [eapply IHk; eauto|].
      destruct (sanitize a) as [sa|]; [|eapply IHk; eauto]. destruct (sanitize kw) as [skw|]; [|eapply IHk; eauto].
      cbv zeta in H.
      destruct (existsb (py_eq (subbuild_key fname sa skw)) (k_claimedS s)) eqn:Edup.
      { destruct (IHk _ _ _ _ _ _ _ _ _ Ho H) as (pk & E1 & E2 & E3 & E4).
        eapply nd_consH; [| |exact E1|exact E2|exact E3|exact E4]; [apply Ext_refl|intros x [<-|[]]; constructor]. }
      destruct (core_subhit s fname (subbuild_key fname sa skw)) as [[[subs1 ret1] rp1]|] eqn:Ehit.
      + pose proof (Ext_hitS s fname sa skw subs1 ret1 rp1 Ehit) as X. cbv zeta in X.
        assert (Ho1 : k_old (adopt s rp1 (OSubbuild fname sa skw subs1 ret1 false false)) = old)
          by (rewrite (proj1 (x_const _ _ _ _ _ X)); exact Ho).
        destruct (IHk _ _ _ _ _ _ _ _ _ Ho1 H) as (pk & E1 & E2 & E3 & E4).
        eapply nd_consH; [exact X| |exact E1|exact E2|exact E3|exact E4].
        exact (hitS_ndH c0 old s fname sa skw subs1 ret1 rp1 Hokc Ho Ehit).
      + destruct (core_run (fn sa skw) None None [] (core_substart s fname sa skw)) as [s2 [[res pd] bsubs]] eqn:Ec2.
        assert (Ho0 : k_old (core_substart s fname sa skw) = old) by exact Ho.
        destruct (IHfn _ _ _ _ _ _ _ _ _ _ Ho0 Ec2) as (pn & En1 & En2 & En3 & En4). cbn [app] in En1. subst pn.
        destruct (sub_rec_shape fname sa skw bsubs res) as (r & ra & Hrec).
        assert (W : Ext s (core_subreg s2 (subbuild_key fname sa skw) (sub_rec fname sa skw bsubs res))
                      (fst (tree_claims (sub_rec fname sa skw bsubs res))) (snd (tree_claims (sub_rec fname sa skw bsubs res)))
                      (deep (sub_rec fname sa skw bsubs res))).
        { rewrite Hrec. rewrite tree_claims_SB. cbn [fst snd deep]. rewrite <- Hrec.
          apply Ext_subreg.
          * change (fst (cll bsubs)) with ([] ++ fst (cll bsubs)).
            change (subbuild_key fname sa skw :: snd (cll bsubs)) with ([subbuild_key fname sa skw] ++ snd (cll bsubs)).
            eapply Ext_trans; [apply Ext_substart|]. eapply Ext_D; [|exact En2]. intros x Hx. right. exact Hx.
          * left. reflexivity.
          * rewrite Hrec. repeat eexists.
          * left. reflexivity. }
        assert (Ho3 : k_old (core_subreg s2 (subbuild_key fname sa skw) (sub_rec fname sa skw bsubs res)) = old)
          by (rewrite (proj1 (x_const _ _ _ _ _ W)); exact Ho).
        destruct (IHk _ _ _ _ _ _ _ _ _ Ho3 H) as (pk & E1 & E2 & E3 & E4).
        eapply nd_consH; [exact W| |exact E1|exact E2|exact E3|exact E4].
        rewrite Hrec. intros x Hx. cbn [deep] in Hx. destruct Hx as [<-|Hx]; [|exact (En4 x Hx)].
        cbn [regp]. rewrite flat_regp_cll. exact En3.
  Qed.
End RunH.

(* ------------------------------------------------------------------ the new cache of the mechanism model *)
Theorem new_cache_regsH : forall w cachefile old nm svers root w1 w2 r l,
  okcH (w_clock w) old -> fs_wf (w_fs w) -> old_ok old cachefile -> WfCache old -> old_keys_ok old -> w_faults w = [] ->
  path_ok (dirname cachefile) = true -> isdir (w_fs w) cachefile = false -> maxlen (w_fs w) < walk_fuel ->
  vdir (Build.start_world w cachefile old nm svers) (dirname cachefile) = true ->
  AllTargets tgtP root -> NoNest [] root -> QueriesOkP root -> WfArgs root ->
  TargetsClear old root -> TargetsApart old root ->
  make_dirs (dirname cachefile) (Build.start_world w cachefile old nm svers) = (w1, inl []) ->
  run root None [] (set_log (LInvoke "<root>"%string None PNone PNone :: w_log w1) w1) = (w2, (r, l)) ->
  RS_regs (w_new w2).
Proof.
  intros w cachefile old nm svers root w1 w2 r l Hokc Hwf Hok HW HKo HF Hp Hnc Hml Hd Hat Hnn Hqk Hwa Hcl Hap Emk Erun.
  destruct (build_run_hash w cachefile old nm svers root w1 w2 r l Hokc Hwf Hok HW HKo HF Hp Hnc Hml Hd Hat Hnn Hqk Hwa Hcl Hap Emk Erun)
    as (s1 & pd & sb & T' & W' & Ecore & [HS _]).
  pose proof (Sim4_sim3 _ _ _ _ HS) as HS3.
  assert (Ho0 : k_old (ViewK4.core_start (w_fs w) cachefile old svers (w_clock w) (w_nextid w) (LInvoke "<root>"%string None PNone PNone :: w_log w1)) = old)
    by reflexivity.
  destruct (core_run_ndH (w_clock w) old Hokc root _ _ _ _ _ _ _ _ Ho0 Ecore) as (produced & _ & HX & _ & HN).
  destruct (x_newF _ _ _ _ _ HX) as (nF & EnF & HnF). cbn [ViewK4.core_start k_newF app] in EnF.
  destruct (x_newS _ _ _ _ _ HX) as (nS & EnS & HnS). cbn [ViewK4.core_start k_newS app] in EnS.
  split.
  - intros p p' c' f' a' k' subs r' cr' sf' Hg.
    pose proof (s3_recF _ _ _ HS3 p) as K. rewrite Hg in K.
    destruct (kf_get (k_newF s1) p) as [o'|] eqn:E; [|contradiction].
    apply kf_get_in in E. rewrite EnF in E. destruct (HnF p o' E) as (Hd' & (c & f & a & k & subs0 & r0 & cr & ra & ->) & _).
    pose proof (HN _ Hd') as ND. rewrite (rec_rel_regp _ _ K) in ND.
    cbn [rec_rel] in K. destruct K as (Ep & _ & _ & _ & _ & _ & _ & _ & _ & ->). subst p'.
    cbn [regp app] in ND. inversion ND as [|? ? Hnotin Hnd]; subst. split; [exact (NoDup_nodupb _ Hnd)|].
    apply forallb_forall. intros t Ht. cbn [opath_eqb]. apply negb_true_iff.
    destruct (path_eqb t p) eqn:Et; [|reflexivity]. apply path_eqb_eq in Et. subst t. exfalso. exact (Hnotin Ht).
  - intros k f a kk subs r0 sf Hg.
    pose proof (s3_recS _ _ _ HS3 k) as K. rewrite Hg in K.
    destruct (ks_get (k_newS s1) k) as [o'|] eqn:E; [|contradiction].
    destruct (ks_get_in _ _ _ E) as [q Hq]. rewrite EnS in Hq. destruct (HnS q o' Hq) as (Hd' & _ & _).
    pose proof (HN _ Hd') as ND. rewrite (rec_rel_regp _ _ K) in ND. cbn [regp] in ND. exact (NoDup_nodupb _ ND).
Qed.

Print Assumptions new_cache_regsH.
