(* Proofs/SimGEx.v — validation by evaluation (vm_compute) of SimG6.mech_commit_first_build_anycmp
   on a concrete program in which EVERY build_file call and EVERY read compares by HASH (the program
   of SimCEx.Ex with METADATA replaced by HASH).
   First build (empty previous cache): the checks of SimCEx (previous cache in the class, Sim4 and
   Extra when the root function returns, the conclusion of mech_C01) and the conclusion of the
   whole-build theorem (tree after the commit = reference tree, up to times, except the cache file).
   Later builds: the cache written by this program is NOT in the class okc (it records HASH
   comparisons: SimB2.cmp_okb false HASH = false), so the theorems of SimG6 say nothing; the
   conclusions are nevertheless observed to hold on this history (evidence only).          *)
From Coq Require Import List String Ascii NArith ZArith Bool Arith Lia.
From FB.Base Require Import PyVal Fs.
From FB.Gen Require Import JsonUtilGen.
From FB.Spec Require Import JsonSpec Prog Ref Oracle Faithful.
From FB.Model Require Import Types Monad CreatedFiles BuildDirs SimpleOps Builder Persist Build Run Frame Dsl Core CoreOracle.
From FB.Proofs Require Import FsLemmas ViewDefs ViewK2 ViewK3 SimA0 SimAEx SimB1 SimC0 SimCEx.
Import ListNotations.
Open Scope string_scope.
Open Scope list_scope.

(* the conclusion of the whole-build theorems, as a checker *)
Definition commit_c01b (cf : path) (nm : string) (vers : pyval) (root : prog) (w : world) : bool :=
  match sanitize vers, run_build cf nm vers root w with
  | Some svers, (w', Done (inl v)) =>
      let old := old_cache_of (w_fs w) cf nm svers in
      let rr := ref_build (w_fs w) cf (prev_of_cache old) (w_clock w) (w_nextid w) root in
      let ps := map fst (w_fs w') ++ map fst (rr_tree rr) in
      (outcome_sameb (inl v) (rr_outcome rr) &&
       forallb (fun p => path_eqb p cf || node_equivb (lookup (w_fs w') p) (lookup (rr_tree rr) p)) ps)%bool
  | _, _ => false
  end.

Module ExH.
  Definition CF : path := ["cache"].
  Definition V : pyval := PDict [].

  Definition cc (src obj : path) (k : outcome -> prog) : prog :=
    BuildFile false obj HASH "cc" (PStr "x") PNone
      (fun _ _ _ => Ask false (QRead src HASH)
         (fun o => match o with inl (PStr b) => Write (b ++ "!")%string (Ret PNone) | _ => Raise (XUser 1) end)) k.

  Definition ld (k : outcome -> prog) : prog :=
    BuildFile false ["prog"] HASH "ld" PNone PNone
      (fun _ _ _ => Ask false (QRead ["a.o"; "obj"] HASH)
         (fun o1 => Ask false (QRead ["b.o"; "obj"] HASH)
            (fun o2 => match o1, o2 with
                       | inl (PStr x), inl (PStr y) => Write (x ++ y)%string (Ret (PStr "linked"))
                       | _, _ => Raise (XUser 2)
                       end))) k.

  Definition root : prog :=
    Subbuild false "all" (PList [PInt 1]) (PDict [(PStr "k", PFloat (FFin false 3%positive 1%Z))])
      (fun _ _ => cc ["a.c"] ["a.o"; "obj"] (fun _ => cc ["b.c"] ["b.o"; "obj"] (fun _ => Ask false (QIsDir ["obj"]) (fun _ => Ret PNone))))
      (fun _ => ld (fun o => match o with inl v => Ret v | inr _ => Ret (PStr "failed") end)).

  Definition w0 : world := fold_left apply_fsop [FWrite ["a.c"] "int a;"; FWrite ["b.c"] "int b;"] init_world.
  Definition w1 : world := fst (run_build CF "n" V root w0).
  Definition w2 : world := fst (run_build CF "n" V root w1).
  Definition w2' : world := apply_fsop w2 (FWrite ["a.c"] "long a;").
  Definition w3 : world := fst (run_build CF "n" V root w2').

  Example results :
    map (fun w => show_result (snd (run_build CF "n" V root w))) [w0; w1; w2'; w3] =
    ["ok:'linked'"; "ok:'linked'"; "ok:'linked'"; "ok:'linked'"].
  Proof. vm_compute. reflexivity. Qed.

  (* the first build: inside the hypotheses of SimG6.mech_commit_first_build_anycmp *)
  Example first_build : (all_checks CF "n" V root w0, commit_c01b CF "n" V root w0) = ((true, true, true, true), true).
  Proof. vm_compute. reflexivity. Qed.

  (* later builds: the previous cache is outside the class; the conclusions hold on this history *)
  Example later_builds :
    map (fun w => (okc_at CF "n" V w, mech_c01b CF "n" V root w, commit_c01b CF "n" V root w)) [w1; w2'; w3] =
    [(false, true, true); (false, true, true); (false, true, true)].
  Proof. vm_compute. reflexivity. Qed.
End ExH.
