(* Proofs/CacheRTRefuse.v — C16, refusals: what Cache.read_immutable does with a
   file that is not a cache file of this software, format version and shape, and
   what build / clean do then (nothing: the call is refused, the world untouched). *)
From Coq Require Import List String Ascii NArith ZArith Bool Arith.
From FB.Base Require Import PyVal Fs.
From FB.Gen Require Import JsonUtilGen.
From FB.Spec Require Import JsonSpec.
From FB.Model Require Import Types Monad SimpleOps Builder PathNorm Persist PersistSpec Build.
From FB.Proofs Require Import CacheRTDefs CacheRTLaws.
Import ListNotations.
Local Open Scope string_scope.
Local Open Scope list_scope.

(* not gzip / truncated / not JSON *)
Theorem refuse_not_json : cache_of_json None = ReadRuntime.
Proof. reflexivity. Qed.

(* JSON, but not an object *)
Theorem refuse_not_dict : forall j, (forall d, j <> PDict d) -> cache_of_json (Some j) = ReadRuntime.
Proof. intros j H. destruct j; try reflexivity. exfalso. eapply H. reflexivity. Qed.

(* an object that does not say software = "file_builder" *)
Theorem refuse_wrong_software : forall d,
  top_get "software" d <> Some (PStr "file_builder") -> cache_of_json (Some (PDict d)) = ReadRuntime.
Proof.
  intros d H. cbn [cache_of_json].
  destruct (top_get "software" d) as [[| | | |s| | | |]|]; try reflexivity.
  destruct (String.eqb s "file_builder") eqn:E; [|reflexivity].
  apply String.eqb_eq in E. subst s. exfalso. apply H. reflexivity.
Qed.

Section Software.
  Variable d : list (pyval * pyval).
  Hypothesis Hsw : top_get "software" d = Some (PStr "file_builder").

  (* written by a newer format version (anything not JSON-equal to this version's null) *)
  Theorem refuse_other_version : forall ver,
    top_get "cacheFileVersion" d = Some ver -> is_equal ver PNone = false ->
    cache_of_json (Some (PDict d)) = ReadRuntime.
  Proof. intros ver Hv He. cbn [cache_of_json]. rewrite Hsw. cbn [String.eqb Ascii.eqb Bool.eqb negb]. rewrite Hv, He. reflexivity. Qed.

  (* no version field: KeyError in the implementation, not a RuntimeError *)
  Theorem refuse_no_version : top_get "cacheFileVersion" d = None -> cache_of_json (Some (PDict d)) = ReadMalformed.
  Proof. intros Hv. cbn [cache_of_json]. rewrite Hsw. cbn [String.eqb Ascii.eqb Bool.eqb negb]. rewrite Hv. reflexivity. Qed.

  Section Version.
    Variable ver : pyval.
    Hypothesis Hver : top_get "cacheFileVersion" d = Some ver.
    Hypothesis Heq : is_equal ver PNone = true.

    (* the exact condition under which the reader returns a cache *)
    Theorem read_ok_iff : forall c,
      cache_of_json (Some (PDict d)) = ReadOk c <->
      exists roots nm dirs fv ov ops ds,
        top_get "rootOperations" d = Some (PList roots) /\ top_get "buildName" d = Some (PStr nm) /\
        top_get "createdDirs" d = Some (PList dirs) /\ top_get "funcVersions" d = Some fv /\
        top_get "operationVersions" d = Some ov /\
        sequence (map op_of_json roots) = Some ops /\ sequence (map parse_dir dirs) = Some ds /\
        c = tables_of nm fv (dedup_paths ds) ops.
    Proof.
      intro c. cbn [cache_of_json]. rewrite Hsw. cbn [String.eqb Ascii.eqb Bool.eqb negb]. rewrite Hver, Heq.
      cbn [negb]. fold parse_dir. split.
      - intro H.
        destruct (top_get "rootOperations" d) as [[| | | | |roots| | |]|]; try discriminate H.
        destruct (top_get "buildName" d) as [[| | | |nm| | | |]|]; try discriminate H.
        destruct (top_get "createdDirs" d) as [[| | | | |dirs| | |]|]; try discriminate H.
        destruct (top_get "funcVersions" d) as [fv|]; try discriminate H.
        destruct (top_get "operationVersions" d) as [ov|]; try discriminate H.
        change (fun x : pyval => match x with PStr s => Some (str_path s) | _ => None end) with parse_dir in H.
        destruct (sequence (map op_of_json roots)) as [ops|] eqn:E1; try discriminate H.
        destruct (sequence (map parse_dir dirs)) as [ds|] eqn:E2; try discriminate H.
        injection H as H. exists roots, nm, dirs, fv, ov, ops, ds. repeat split; try reflexivity; auto.
      - intros (roots & nm & dirs & fv & ov & ops & ds & H1 & H2 & H3 & H4 & H5 & H6 & H7 & ->).
        rewrite H1, H2, H3, H4, H5.
        change (fun x : pyval => match x with PStr s => Some (str_path s) | _ => None end) with parse_dir.
        rewrite H6, H7. reflexivity.
    Qed.

    (* ... and in every other case (a field missing or of the wrong type, a record or
       a directory that does not parse) the file is refused as malformed *)
    Theorem refuse_wrong_shape : forall r,
      cache_of_json (Some (PDict d)) = r -> (forall c, r <> ReadOk c) -> r = ReadMalformed.
    Proof.
      intros r H Hn. subst r. revert Hn. cbn [cache_of_json]. rewrite Hsw.
      cbn [String.eqb Ascii.eqb Bool.eqb negb]. rewrite Hver, Heq. cbn [negb].
      destruct (top_get "rootOperations" d) as [[| | | | |roots| | |]|]; try reflexivity.
      destruct (top_get "buildName" d) as [[| | | |nm| | | |]|]; try reflexivity.
      destruct (top_get "createdDirs" d) as [[| | | | |dirs| | |]|]; try reflexivity.
      destruct (top_get "funcVersions" d) as [fv|]; try reflexivity.
      destruct (top_get "operationVersions" d) as [ov|]; try reflexivity.
      destruct (sequence (map op_of_json roots)) as [ops|]; try reflexivity.
      match goal with |- context [sequence ?x] => destruct (sequence x) as [ds|] end; try reflexivity.
      intro Hn. exfalso. eapply Hn. reflexivity.
    Qed.
  End Version.
End Software.

(* the reader never answers anything but: a cache, RuntimeError, malformed *)
Theorem read_runtime_cases : forall j, cache_of_json j = ReadRuntime ->
  j = None \/ (exists v, j = Some v /\ forall d, v <> PDict d) \/
  (exists d, j = Some (PDict d) /\
     (top_get "software" d <> Some (PStr "file_builder") \/
      exists ver, top_get "cacheFileVersion" d = Some ver /\ is_equal ver PNone = false)).
Proof.
  intros j H. destruct j as [v|]; [|left; reflexivity]. right.
  destruct v; try (left; eexists; split; [reflexivity | intros d0 X; discriminate X]).
  right. exists d. split; [reflexivity|]. cbn [cache_of_json] in H.
  destruct (top_get "software" d) as [[| | | |s| | | |]|] eqn:Es; try (left; intro X; discriminate X).
  destruct (String.eqb s "file_builder") eqn:E.
  2:{ left. intro X. injection X as X. subst s. discriminate E. }
  cbn [negb] in H. right.
  destruct (top_get "cacheFileVersion" d) as [ver|]; [|discriminate H].
  exists ver. split; [reflexivity|]. destruct (is_equal ver PNone); [|reflexivity]. cbn [negb] in H.
  repeat match type of H with context [match ?x with _ => _ end] => destruct x; try discriminate H end.
Qed.

(* ================================================================== *)
(** * build and clean refuse, and touch nothing                         *)
(* ================================================================== *)

Theorem build_refuses_bad_cache : forall cf nm vers svers root w f,
  sanitize vers = Some svers -> lookup (w_fs w) cf = Some (NFile f) ->
  match cache_of_json (f_json f) with
  | ReadRuntime => m_build cf nm vers root w = (w, Refused (XRuntime RBadCache))
  | ReadMalformed => m_build cf nm vers root w = (w, Refused (XCrash "malformed cache"))
  | ReadOk old => c_name old <> nm -> m_build cf nm vers root w = (w, Refused (XRuntime RBuildName))
  end.
Proof.
  intros cf nm vers svers root w f Hs Hl. unfold m_build. rewrite Hs, Hl.
  destruct (cache_of_json (f_json f)) as [old| |]; try reflexivity.
  intro Hn. destruct (String.eqb (c_name old) nm) eqn:E; [|reflexivity].
  apply String.eqb_eq in E. contradiction.
Qed.

Theorem clean_refuses_bad_cache : forall cf nm w f,
  lookup (w_fs w) cf = Some (NFile f) ->
  match cache_of_json (f_json f) with
  | ReadRuntime => m_clean cf nm w = (w, Refused (XRuntime RBadCache))
  | ReadMalformed => m_clean cf nm w = (w, Refused (XCrash "malformed cache"))
  | ReadOk old => forall n, nm = Some n -> c_name old <> n -> m_clean cf nm w = (w, Refused (XRuntime RBuildName))
  end.
Proof.
  intros cf nm w f Hl. unfold m_clean. rewrite Hl.
  destruct (cache_of_json (f_json f)) as [old| |]; try reflexivity.
  intros n -> Hn. destruct (String.eqb (c_name old) n) eqn:E; [|reflexivity].
  apply String.eqb_eq in E. contradiction.
Qed.

(* a cache file written for another build name: read back with that name, hence refused *)
Corollary build_refuses_other_name : forall cf nm vers svers root w f c roots,
  sanitize vers = Some svers -> lookup (w_fs w) cf = Some (NFile f) ->
  writable c roots -> f_json f = cache_to_json c -> c_name c <> nm ->
  m_build cf nm vers root w = (w, Refused (XRuntime RBuildName)).
Proof.
  intros cf nm vers svers root w f c roots Hs Hl Hw Hj Hn.
  pose proof (build_refuses_bad_cache cf nm vers svers root w f Hs Hl) as H.
  destruct (write_read c roots Hw) as (j & E1 & E2). rewrite Hj, E1, E2 in H.
  apply H. destruct (read_back_fields c roots) as (-> & _). exact Hn.
Qed.
