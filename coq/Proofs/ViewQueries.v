(* Proofs/ViewQueries.v — C04: the answers of the live queries (overlay cf = None) are
   the ordinary POSIX answers on the view tree; they leave the view unchanged and
   preserve the invariant. *)
From Coq Require Import List String Ascii NArith ZArith Bool Arith Lia.
From FB.Base Require Import PyVal Fs.
From FB.Model Require Import Types Monad CreatedFiles BuildDirs SimpleOps.
From FB.Spec Require Import Ref.
From FB.Proofs Require Import FsLemmas CleanLaws JsonLaws CoreLawsChildren ViewDefs ViewLemmas ViewScan.
Import ListNotations.
Open Scope list_scope.
Open Scope m_scope.

(* [yields m w r]: run from w, m produces r and a world with the same view that satisfies BInv *)
Definition yields {A} (m : M A) (w : world) (r : A + exn) : Prop :=
  exists w', m w = (w', r) /\ good w w'.

Lemma yields_ret : forall A (a : A) w, BInv w -> yields (ret a) w (inl a).
Proof. intros A a w H. exists w. split; [reflexivity|apply good_refl; exact H]. Qed.

Lemma yields_raise : forall A e w, BInv w -> yields (@raise A e) w (inr e).
Proof. intros A e w H. exists w. split; [reflexivity|apply good_refl; exact H]. Qed.

Lemma yields_bind : forall A B (m : M A) (f : A -> M B) w a r,
  yields m w (inl a) -> (forall w1, good w w1 -> yields (f a) w1 r) -> yields (bind m f) w r.
Proof.
  intros A B m f w a r [w1 [E G]] H. destruct (H w1 G) as [w2 [E2 G2]].
  exists w2. split; [unfold bind; rewrite E; exact E2|eapply good_trans; eassumption].
Qed.

Lemma yields_bind_err : forall A B (m : M A) (f : A -> M B) w e,
  yields m w (inr e) -> yields (bind m f) w (inr e).
Proof.
  intros A B m f w e [w1 [E G]]. exists w1. split; [unfold bind; rewrite E; reflexivity|exact G].
Qed.

Lemma yields_get : forall B (f : world -> M B) w r, yields (f w) w r -> yields (bind get f) w r.
Proof. intros B f w r H. exact H. Qed.

Lemma yields_pure : forall A B (m : M A) (f : A -> M B) w a r,
  m w = (w, inl a) -> yields (f a) w r -> yields (bind m f) w r.
Proof. intros A B m f w a r E [w' [E' G]]. exists w'. split; [unfold bind; rewrite E; exact E'|exact G]. Qed.

Lemma yields_good : forall A (m : M A) w0 w r, good w0 w -> yields m w r ->
  exists w', m w = (w', r) /\ good w0 w'.
Proof. intros A m w0 w r G [w' [E G']]. exists w'. split; [exact E|eapply good_trans; eassumption]. Qed.

(* paths on which the scan cannot fail *)
Definition pok (w : world) (p : path) : Prop := path_ok p = true \/ lexists (w_fs w) p = true.

Lemma pok_good : forall w w' p, good w w' -> pok w p -> pok w' p.
Proof. intros w w' p G [H|H]; [left; exact H|right]. rewrite (sv_fs _ _ (good_sv _ _ G)). exact H. Qed.

(* ------------------------------------------------------------------ is_dir *)
Lemma m_hde_yields : forall w p, BInv w -> hde_ok w p -> yields (m_handle_dir_exists p) w (inl tt).
Proof.
  intros w p HB H. exists (set_bd (handle_dir_exists (w_bd w) p) w). split; [reflexivity|].
  apply hde_good; assumption.
Qed.

Theorem m_is_dir_view : forall w p, BInv w -> pok w p -> yields (m_is_dir p None) w (inl (vdir w p)).
Proof.
  intros w p HB Hp. unfold m_is_dir. cbn [cf_has_dir cf_has_file].
  destruct (m_is_removed_sound w p HB) as [w1 [G [[r [E Hr]]|[E [El Eo]]]]].
  - eapply yields_bind; [exists w1; split; [exact E|exact G]|].
    intros w2 G2. pose proof (good_sv _ _ G2) as S2. pose proof (good_BInv _ _ G2) as B2.
    unfold vdir. destruct (isdir (w_fs w) p) eqn:Ei.
    + rewrite (Hr eq_refl). cbn [andb]. destruct (dead w p) eqn:Ed; cbn [negb].
      * apply yields_ret. exact B2.
      * apply yields_get. rewrite (sv_fs _ _ S2), Ei.
        eapply yields_bind; [|intros w3 G3; apply yields_ret; apply (good_BInv _ _ G3)].
        apply m_hde_yields; [exact B2|]. apply hde_ok_vdir; [apply (bi_wf _ B2)|].
        rewrite (same_view_vdir _ _ _ S2). unfold vdir. rewrite Ei, Ed. reflexivity.
    + cbn [andb]. destruct r; [apply yields_ret; exact B2|].
      apply yields_get. rewrite (sv_fs _ _ S2), Ei. apply yields_ret. exact B2.
  - exfalso. destruct Hp as [Hp|Hp]; [congruence|]. unfold lexists in Hp. rewrite El in Hp. discriminate.
Qed.

(* ------------------------------------------------------------------ is_file *)
Lemma is_file_no_read_None : forall p w,
  is_file_no_read p None w = (w, inl (if hid w p then Some false else None)).
Proof.
  intros p w. unfold is_file_no_read, hid. cbn [cf_has_file cf_has_dir].
  destruct (path_eqb p (w_cachefile w)); [reflexivity|]. cbn [orb].
  destruct (cache_has_file (w_new w) p).
  - destruct (cache_get_file (w_new w) p); reflexivity.
  - destruct (cache_created_file (w_old w) p); reflexivity.
Qed.

Theorem m_is_file_view : forall w p, BInv w -> yields (m_is_file p None) w (inl (vfile w p)).
Proof.
  intros w p HB. unfold m_is_file. eapply yields_pure; [apply is_file_no_read_None|].
  unfold vfile. destruct (hid w p) eqn:Eh.
  - rewrite andb_false_r. apply yields_ret. exact HB.
  - rewrite andb_true_r. apply yields_get. destruct (isfile (w_fs w) p) eqn:Ei.
    + eapply yields_bind; [|intros w3 G3; apply yields_ret; apply (good_BInv _ _ G3)].
      apply m_hde_yields; [exact HB|].
      destruct p as [|n d]; [discriminate|]. cbn [dirname tl].
      apply (hde_ok_parent w n d (bi_wf _ HB)). apply vfile_visible. unfold vfile. rewrite Ei, Eh. reflexivity.
    + apply yields_ret. exact HB.
Qed.

(* ------------------------------------------------------------------ exists *)
Theorem m_exists_view : forall w p, BInv w -> pok w p -> yields (m_exists p None) w (inl (visible w p)).
Proof.
  intros w p HB Hp. unfold m_exists. eapply yields_bind; [apply m_is_file_view; exact HB|].
  intros w1 G1. rewrite visible_split. destruct (vfile w p).
  - apply yields_ret. apply (good_BInv _ _ G1).
  - cbn [orb]. rewrite <- (same_view_vdir _ _ _ (good_sv _ _ G1)).
    apply m_is_dir_view; [apply (good_BInv _ _ G1)|eapply pok_good; eassumption].
Qed.

(* ------------------------------------------------------------------ get_size *)
Definition size_answer (fs : fsT) (p : path) : pyval + exn :=
  match lookup fs p with
  | Some (NFile f) => inl (PInt (Z.of_nat (String.length (f_bytes f))))
  | Some NDir => inl (PInt (-1))
  | None => inr (XOS XFileNotFound)
  end.

Theorem m_get_size_view : forall w p, BInv w -> pok w p ->
  yields (m_get_size p None) w (if visible w p then size_answer (w_fs w) p else inr (XOS XFileNotFound)).
Proof.
  intros w p HB Hp. unfold m_get_size. eapply yields_bind; [apply m_exists_view; assumption|].
  intros w1 G1. destruct (visible w p) eqn:Ev; cbn [negb].
  - apply yields_get. rewrite (sv_fs _ _ (good_sv _ _ G1)). unfold size_answer.
    apply visible_lexists in Ev. unfold lexists in Ev.
    destruct (lookup (w_fs w) p) as [[f|]|]; try discriminate; apply yields_ret; apply (good_BInv _ _ G1).
  - apply yields_raise. apply (good_BInv _ _ G1).
Qed.

(* ------------------------------------------------------------------ list_dir *)
Lemma filterM_view : forall w0 (g : name -> bool) (f : name -> M bool) l,
  (forall n w1, In n l -> good w0 w1 -> yields (f n) w1 (inl (g n))) ->
  forall w1, good w0 w1 -> yields (filterM f l) w1 (inl (filter g l)).
Proof.
  intros w0 g f l. induction l as [|n r IH]; intros H w1 G1.
  - apply yields_ret. apply (good_BInv _ _ G1).
  - cbn [filterM filter]. eapply yields_bind; [apply H; [left; reflexivity|exact G1]|].
    intros w2 G2. pose proof (good_trans _ _ _ G1 G2) as G02.
    eapply yields_bind; [apply IH; [intros m w3 Hm G3; apply H; [right; exact Hm|exact G3]|exact G02]|].
    intros w3 G3. apply yields_ret. apply (good_BInv _ _ G3).
Qed.

Lemma list_dir_superset_dir : forall w d, lookup (w_fs w) d = Some NDir ->
  list_dir_superset d None w = (w, inl (children (w_fs w) d)).
Proof.
  intros w d H. unfold list_dir_superset, listdir. rewrite H, app_nil_r.
  rewrite sort_strs_sorted_id by apply children_strict_sorted. reflexivity.
Qed.

Theorem m_assert_is_dir_view : forall w p, BInv w -> pok w p ->
  yields (m_assert_is_dir p None) w
         (if vdir w p then inl tt else if vfile w p then inr (XOS XNotADirectory) else inr (XOS XFileNotFound)).
Proof.
  intros w p HB Hp. unfold m_assert_is_dir. eapply yields_bind; [apply m_is_dir_view; assumption|].
  intros w1 G1. destruct (vdir w p).
  - apply yields_ret. apply (good_BInv _ _ G1).
  - eapply yields_bind; [apply m_is_file_view; apply (good_BInv _ _ G1)|].
    intros w2 G2. rewrite (same_view_vfile _ _ _ (good_sv _ _ G1)).
    destruct (vfile w p); apply yields_raise; apply (good_BInv _ _ G2).
Qed.

Definition vnames (w : world) (d : path) : list name :=
  filter (fun n => visible w (n :: d)) (children (w_fs w) d).

Theorem m_list_dir_view : forall w d, BInv w -> pok w d ->
  yields (m_list_dir d None) w
         (if vdir w d then inl (PList (map PStr (vnames w d)))
          else if vfile w d then inr (XOS XNotADirectory) else inr (XOS XFileNotFound)).
Proof.
  intros w d HB Hp. unfold m_list_dir.
  pose proof (m_assert_is_dir_view w d HB Hp) as HA.
  destruct (vdir w d) eqn:Ed.
  2:{ destruct (vfile w d); apply yields_bind_err; exact HA. }
  eapply yields_bind; [exact HA|]. intros w1 G1.
  assert (Hl: lookup (w_fs w) d = Some NDir).
  { unfold vdir in Ed. apply andb_true_iff in Ed. apply isdir_lookup. tauto. }
  pose proof (sv_fs _ _ (good_sv _ _ G1)) as F1.
  eapply yields_bind.
  { exists w1. split; [apply list_dir_superset_dir; rewrite F1; exact Hl|apply good_refl, (good_BInv _ _ G1)]. }
  intros w2 G2. rewrite F1. pose proof (good_trans _ _ _ G1 G2) as G02.
  eapply yields_bind.
  { apply (filterM_view w (fun n => visible w (n :: d)) (fun n => m_exists (n :: d) None) (children (w_fs w) d)); [|exact G02].
    intros n w3 Hn G3. rewrite <- (same_view_visible _ _ _ (good_sv _ _ G3)).
    apply m_exists_view; [apply (good_BInv _ _ G3)|]. right.
    rewrite (sv_fs _ _ (good_sv _ _ G3)). apply children_In. exact Hn. }
  intros w3 G3. apply yields_ret. apply (good_BInv _ _ G3).
Qed.
