(* Proofs/CoreNextAux.v — auxiliary facts for the invariance proof: values, canonical answers, tame records,
   what a successful replay has checked, keys. *)
From Coq Require Import List String Ascii NArith ZArith Bool Arith Lia.
From FB.Base Require Import PyVal Fs.
From FB.Gen Require Import JsonUtilGen.
From FB.Spec Require Import JsonSpec Prog Ref Oracle Faithful.
From FB.Model Require Import Types SimpleOps Builder Persist Core CoreOracle CoreCache.
From FB.Proofs Require Import FsLemmas JsonLaws CleanLaws CoreLawsJson CoreLaws1 CoreLaws2 CoreLaws3 CoreLaws4 CoreLaws5
     CoreNextDefs CoreNextJson CoreNextMono CoreNextFollows CoreNextRegs CoreNextState.
Import ListNotations.
Local Open Scope list_scope.

(* ------------------------------------------------------------------ *)
(* values                                                             *)
(* ------------------------------------------------------------------ *)
Lemma fl_same_refl : forall f, fl_same f f = true.
Proof. destruct f; cbn; rewrite ?eqb_reflx, ?Pos.eqb_refl, ?Z.eqb_refl; reflexivity. Qed.

Lemma all2_same_refl : forall l, Forall (fun a => pyval_same a a = true) l -> all2 pyval_same l l = true.
Proof. induction 1; cbn; [reflexivity|]. rewrite H, IHForall. reflexivity. Qed.

Lemma pyval_same_refl : forall a, pyval_same a a = true.
Proof.
  induction a using pyval_ind'.
  - reflexivity.
  - cbn. apply eqb_reflx.
  - cbn. apply Z.eqb_refl.
  - cbn. apply fl_same_refl.
  - cbn. apply String.eqb_refl.
  - rewrite pyval_same_list_eq. apply all2_same_refl. exact H.
  - rewrite pyval_same_tuple_eq. apply all2_same_refl. exact H.
  - induction H as [|[k v] d [Hk Hv] Hd IH]; [reflexivity|].
    change (pyval_same (PDict ((k, v) :: d)) (PDict ((k, v) :: d)))
      with (pyval_same k k && pyval_same v v && pyval_same (PDict d) (PDict d)).
    cbn [fst snd] in Hk, Hv. rewrite Hk, Hv, IH. reflexivity.
  - cbn. apply Nat.eqb_refl.
Qed.

Lemma cmp_refl : forall c g, is_equal (cmp_of c g) (cmp_of c g) = true.
Proof. intros c g. apply is_equal_refl. destruct c; reflexivity. Qed.

Lemma query_beq_refl : forall q, query_beq q q = true.
Proof.
  destruct q; cbn [query_beq]; rewrite ?path_eqb_refl; try reflexivity.
  - destruct top_down; reflexivity.
  - destruct c; reflexivity.
Qed.

(* ------------------------------------------------------------------ *)
(* the canonical form of an actual answer is the answer               *)
(* ------------------------------------------------------------------ *)
Lemma strs_of_map : forall l, strs_of (map PStr l) = Some l.
Proof. induction l as [|x l IH]; cbn; [reflexivity|]. rewrite IH. reflexivity. Qed.

Lemma canon_names : forall l, canon_strlist (names_val l) = Some (names_val l).
Proof. intro l. unfold names_val. cbn [canon_strlist]. rewrite strs_of_map. reflexivity. Qed.

Lemma canon_entry_shape_id : forall e, walk_shape e -> canon_entry e = Some e.
Proof. intros e [d [a [b ->]]]. cbn [canon_entry]. rewrite !canon_names. reflexivity. Qed.

Lemma canon_entries_id : forall l, Forall walk_shape l -> canon_entries l = Some l.
Proof.
  induction 1 as [|e l He Hl IH]; [reflexivity|]. cbn [canon_entries]. rewrite (canon_entry_shape_id e He), IH. reflexivity.
Qed.

Lemma uv_nonread : forall (kp : kappa) fs q v, (forall p c, q <> QRead p c) ->
  spec_answer_raw fs q = inl v -> user_value kp q v = Some v.
Proof.
  intros kp fs q v Hnr H. destruct q; cbn [spec_answer_raw user_value] in *.
  - inversion H; reflexivity.
  - inversion H; reflexivity.
  - inversion H; reflexivity.
  - destruct (lookup fs p) as [[f|]|]; try discriminate. inversion H; subst. apply canon_names.
  - assert (Hw : Forall walk_shape (if isdir fs p then ref_walk 32 fs p top_down else [])).
    { destruct (isdir fs p); [apply ref_walk_shape | constructor]. }
    remember (if isdir fs p then ref_walk 32 fs p top_down else []) as w eqn:Ew. clear Ew.
    injection H as <-. cbn [canon_walk]. rewrite (canon_entries_id w Hw). reflexivity.
  - destruct (lookup fs p) as [[f|]|]; try discriminate; inversion H; reflexivity.
  - exfalso. exact (Hnr p c eq_refl).
Qed.

(* ------------------------------------------------------------------ *)
(* tame                                                               *)
(* ------------------------------------------------------------------ *)
Lemma tame_go_eq : forall subs cl,
  (fix go (subs : list op) (cl : list path) {struct subs} : bool :=
     match subs with [] => true | x :: rest => tame cl x && go rest (cl ++ fst (tree_claims x)) end) subs cl
  = tame_list subs cl.
Proof. induction subs as [|x rest IH]; intro cl; cbn [tame_list]; [reflexivity|]. rewrite IH. reflexivity. Qed.

Lemma tame_BF : forall cl p c f a k subs r cr ra sf,
  tame cl (OBuildFile p c f a k subs r cr ra sf) =
  negb sf && negb (existsb (is_ancestor p) cl) && tame_list subs (cl ++ [p]) &&
  (negb (existsb (is_ancestor p) (fst (cll subs))) || existsb (is_ancestor p) (flat_map tree_outputs subs)).
Proof. intros. cbn [tame]. rewrite tame_go_eq. reflexivity. Qed.

Lemma tame_SB : forall cl f a k subs r ra sf,
  tame cl (OSubbuild f a k subs r ra sf) = negb sf && tame_list subs cl.
Proof. intros. cbn [tame]. rewrite tame_go_eq. reflexivity. Qed.

Lemma tame_anti : forall o cl cl', incl cl' cl -> tame cl o = true -> tame cl' o = true.
Proof.
  induction o as [q r e|p c f a k subs r cr ra sf IH|f a k subs r ra sf IH] using op_ind'; intros cl cl' Hi H; [reflexivity| |].
  - rewrite tame_BF in *. apply andb_true_iff in H. destruct H as [H H4]. apply andb_true_iff in H. destruct H as [H H3].
    apply andb_true_iff in H. destruct H as [H1 H2]. rewrite H1, H4. apply negb_true_iff in H2.
    rewrite (false_incl _ _ (existsb_incl _ _ _ Hi) H2). cbn [negb andb]. rewrite andb_true_r.
    assert (Hi' : incl (cl' ++ [p]) (cl ++ [p])) by (apply incl_app; [apply incl_appl; exact Hi|apply incl_appr, incl_refl]).
    revert Hi' H3. generalize (cl ++ [p]) (cl' ++ [p]). clear -IH.
    induction subs as [|x rest IHl]; intros c1 c2 Hi H; [reflexivity|]. inversion IH as [|? ? Hx Hrest]; subst.
    cbn [tame_list] in *. apply andb_true_iff in H. destruct H as [A B]. rewrite (Hx _ _ Hi A). cbn [andb].
    apply (IHl Hrest (c1 ++ fst (tree_claims x))); [|exact B].
    apply incl_app; [apply incl_appl; exact Hi|apply incl_appr, incl_refl].
  - rewrite tame_SB in *. apply andb_true_iff in H. destruct H as [H1 H3]. rewrite H1. cbn [andb].
    revert Hi H3. generalize cl cl'. clear -IH.
    induction subs as [|x rest IHl]; intros c1 c2 Hi H; [reflexivity|]. inversion IH as [|? ? Hx Hrest]; subst.
    cbn [tame_list] in *. apply andb_true_iff in H. destruct H as [A B]. rewrite (Hx _ _ Hi A). cbn [andb].
    apply (IHl Hrest (c1 ++ fst (tree_claims x))); [|exact B].
    apply incl_app; [apply incl_appl; exact Hi|apply incl_appr, incl_refl].
Qed.

Lemma tame_list_top : forall l cl x, tame_list l cl = true -> In x l -> tame [] x = true.
Proof.
  induction l as [|y l IH]; intros cl x H Hin; [destruct Hin|]. cbn [tame_list] in H. apply andb_true_iff in H. destruct H as [A B].
  destruct Hin as [->|Hin]; [eapply tame_anti; [|exact A]; intros z []|eapply IH; eauto].
Qed.

Lemma tame_list_anti : forall l cl cl', incl cl' cl -> tame_list l cl = true -> tame_list l cl' = true.
Proof.
  induction l as [|y l IH]; intros cl cl' Hi H; [reflexivity|]. cbn [tame_list] in *. apply andb_true_iff in H. destruct H as [A B].
  rewrite (tame_anti _ _ _ Hi A). cbn [andb]. apply (IH (cl ++ fst (tree_claims y))); [|exact B].
  apply incl_app; [apply incl_appl; exact Hi|apply incl_appr, incl_refl].
Qed.

(* no target inside a tame record is an ancestor of a path claimed before *)
Definition bf_path (o : op) : option path := match o with OBuildFile p _ _ _ _ _ _ _ _ _ => Some p | _ => None end.

Lemma tame_anc : forall o cl, tame cl o = true -> forall x p', In x (deep o) -> bf_path x = Some p' -> existsb (is_ancestor p') cl = false.
Proof.
  induction o as [q r e|p c f a k subs r cr ra sf IH|f a k subs r ra sf IH] using op_ind'; intros cl H x p' Hx Hp.
  - destruct Hx as [<-|[]]. discriminate.
  - rewrite tame_BF in H. apply andb_true_iff in H. destruct H as [H H4]. apply andb_true_iff in H. destruct H as [H H3].
    apply andb_true_iff in H. destruct H as [H1 H2]. cbn [deep] in Hx. destruct Hx as [<-|Hx].
    + cbn in Hp. inversion Hp; subst. apply negb_true_iff in H2. exact H2.
    + assert (G : existsb (is_ancestor p') (cl ++ [p]) = false).
      { revert Hx H3. generalize (cl ++ [p]). clear -IH Hp.
        induction subs as [|y rest IHl]; intros c1 Hx H; [destruct Hx|]. inversion IH as [|? ? Hy Hrest]; subst.
        cbn [tame_list] in H. apply andb_true_iff in H. destruct H as [A B]. cbn [flat_map] in Hx. apply in_app_or in Hx.
        destruct Hx as [Hx|Hx]; [eapply Hy; eauto|].
        pose proof (IHl Hrest _ Hx B) as G. rewrite existsb_app in G. apply orb_false_iff in G. tauto. }
      rewrite existsb_app in G. apply orb_false_iff in G. tauto.
  - rewrite tame_SB in H. apply andb_true_iff in H. destruct H as [H1 H3]. cbn [deep] in Hx. destruct Hx as [<-|Hx]; [discriminate|].
    revert Hx H3. generalize cl. clear -IH Hp.
    induction subs as [|y rest IHl]; intros c1 Hx H; [destruct Hx|]. inversion IH as [|? ? Hy Hrest]; subst.
    cbn [tame_list] in H. apply andb_true_iff in H. destruct H as [A B]. cbn [flat_map] in Hx. apply in_app_or in Hx.
    destruct Hx as [Hx|Hx]; [eapply Hy; eauto|].
    pose proof (IHl Hrest _ Hx B) as G. rewrite existsb_app in G. apply orb_false_iff in G. tauto.
Qed.

(* ------------------------------------------------------------------ *)
(* free, record by record                                             *)
(* ------------------------------------------------------------------ *)
Definition free1 (eF : list path) (eS : list pyval) (o : op) : bool :=
  match o with
  | OSimple _ _ _ => true
  | OBuildFile p _ _ _ _ _ _ _ _ _ => negb (mem_path p eF) && negb (existsb (is_ancestor p) eF)
  | OSubbuild f a k _ _ _ _ => negb (existsb (py_eq (subbuild_key f a k)) eS)
  end.

Lemma free_deep : forall eF eS o, free eF eS o = true <-> (forall x, In x (deep o) -> free1 eF eS x = true).
Proof.
  intros eF eS. induction o as [q r e|p c f a k subs r cr ra sf IH|f a k subs r ra sf IH] using op_ind'.
  - split; [intros _ x [<-|[]]; reflexivity|reflexivity].
  - cbn [free deep]. rewrite andb_true_iff, forallb_forall. split.
    + intros [H1 H2] x [<-|Hx]; [exact H1|]. apply in_flat_map in Hx. destruct Hx as [y [Hy Hx]].
      rewrite Forall_forall in IH. apply (proj1 (IH y Hy) (H2 y Hy)). exact Hx.
    + intro H. split; [apply (H _ (or_introl eq_refl))|]. intros y Hy. rewrite Forall_forall in IH. apply (IH y Hy).
      intros x Hx. apply H. right. apply in_flat_map. eauto.
  - cbn [free deep]. rewrite andb_true_iff, forallb_forall. split.
    + intros [H1 H2] x [<-|Hx]; [exact H1|]. apply in_flat_map in Hx. destruct Hx as [y [Hy Hx]].
      rewrite Forall_forall in IH. apply (proj1 (IH y Hy) (H2 y Hy)). exact Hx.
    + intro H. split; [apply (H _ (or_introl eq_refl))|]. intros y Hy. rewrite Forall_forall in IH. apply (IH y Hy).
      intros x Hx. apply H. right. apply in_flat_map. eauto.
Qed.

Lemma frees_deep : forall eF eS l, forallb (free eF eS) l = true <-> (forall x, In x (deepl l) -> free1 eF eS x = true).
Proof.
  intros eF eS l. rewrite forallb_forall. split.
  - intros H x Hx. apply in_flat_map in Hx. destruct Hx as [y [Hy Hx]]. apply (proj1 (free_deep eF eS y) (H y Hy)). exact Hx.
  - intros H y Hy. apply free_deep. intros x Hx. apply H. eapply deepl_in; eauto.
Qed.

(* ------------------------------------------------------------------ *)
(* what a successful replay has checked                               *)
(* ------------------------------------------------------------------ *)
Lemma kreplay_checks : forall s o rp rp', kreplay s o rp = Some rp' ->
  forall x, In x (deep o) ->
    match x with
    | OSimple _ _ _ => True
    | OBuildFile p' _ _ _ _ _ _ _ _ _ => mem_path p' (rp_claimedF rp) = false
    | OSubbuild f a k _ _ _ _ => existsb (py_eq (subbuild_key f a k)) (rp_claimedS rp) = false
    end.
Proof.
  intros s o. induction o as [q r e|p c f a k subs r cr ra sf IH|f a k subs r ra sf IH] using op_ind'; intros rp rp' H x Hx.
  - destruct Hx as [<-|[]]. exact I.
  - assert (L : forall rp rp', kreplay_list s subs rp = Some rp' -> forall x, In x (deepl subs) ->
              match x with
              | OSimple _ _ _ => True
              | OBuildFile p' _ _ _ _ _ _ _ _ _ => mem_path p' (rp_claimedF rp) = false
              | OSubbuild f a k _ _ _ _ => existsb (py_eq (subbuild_key f a k)) (rp_claimedS rp) = false
              end).
    { clear -IH. induction subs as [|y rest IHl]; intros rp rp' H x Hx; [destruct Hx|].
      inversion IH as [|? ? Hy Hrest]; subst. rewrite kreplay_list_cons in H. destruct (kreplay s y rp) as [r1|] eqn:E; [|discriminate].
      cbn [deepl flat_map] in Hx. apply in_app_or in Hx. destruct Hx as [Hx|Hx]; [eapply Hy; eauto|].
      pose proof (kreplay_facts _ _ _ _ E) as [K1 K2 _ _ _]. rewrite <- K1, <- K2. eapply IHl; eauto. }
    rewrite kreplay_BF in H.
    destruct (negb (kversion_equal s f)); [discriminate|]. destruct sf; [discriminate|].
    destruct (on_disk s p c cr ra); [|discriminate].
    destruct (mem_path p (rp_claimedF rp) || path_eqb p (k_cachefile s)) eqn:Ecc; [discriminate|].
    apply orb_false_iff in Ecc. destruct Ecc as [Ecc _].
    destruct (missing_dirs (rp_fs rp) (k_cachefile s) (dirname p)) as [dirs|]; [|discriminate].
    destruct (mkdir_all (rp_fs rp) dirs) as [fs1|]; [|discriminate].
    destruct (kreplay_list s subs (rp_start rp p fs1 dirs)) as [r2|] eqn:Ekn; [|discriminate].
    cbn [deep] in Hx. destruct Hx as [<-|Hx]; [exact Ecc|]. exact (L _ _ Ekn x Hx).
  - assert (L : forall rp rp', kreplay_list s subs rp = Some rp' -> forall x, In x (deepl subs) ->
              match x with
              | OSimple _ _ _ => True
              | OBuildFile p' _ _ _ _ _ _ _ _ _ => mem_path p' (rp_claimedF rp) = false
              | OSubbuild f a k _ _ _ _ => existsb (py_eq (subbuild_key f a k)) (rp_claimedS rp) = false
              end).
    { clear -IH. induction subs as [|y rest IHl]; intros rp rp' H x Hx; [destruct Hx|].
      inversion IH as [|? ? Hy Hrest]; subst. rewrite kreplay_list_cons in H. destruct (kreplay s y rp) as [r1|] eqn:E; [|discriminate].
      cbn [deepl flat_map] in Hx. apply in_app_or in Hx. destruct Hx as [Hx|Hx]; [eapply Hy; eauto|].
      pose proof (kreplay_facts _ _ _ _ E) as [K1 K2 _ _ _]. rewrite <- K1, <- K2. eapply IHl; eauto. }
    rewrite kreplay_SB in H.
    destruct (negb (kversion_equal s f)); [discriminate|]. destruct sf; [discriminate|]. cbn [orb] in H.
    destruct (existsb (py_eq (subbuild_key f a k)) (rp_claimedS rp)) eqn:Ecc; [discriminate|].
    cbn [deep] in Hx. destruct Hx as [<-|Hx]; [exact Ecc|]. exact (L _ _ H x Hx).
Qed.

Lemma kreplay_list_checks : forall s subs rp rp', kreplay_list s subs rp = Some rp' ->
  forall x, In x (deepl subs) ->
    match x with
    | OSimple _ _ _ => True
    | OBuildFile p' _ _ _ _ _ _ _ _ _ => mem_path p' (rp_claimedF rp) = false
    | OSubbuild f a k _ _ _ _ => existsb (py_eq (subbuild_key f a k)) (rp_claimedS rp) = false
    end.
Proof.
  intros s subs. induction subs as [|y rest IHl]; intros rp rp' H x Hx; [destruct Hx|].
  rewrite kreplay_list_cons in H. destruct (kreplay s y rp) as [r1|] eqn:E; [|discriminate].
  cbn [deepl flat_map] in Hx. apply in_app_or in Hx. destruct Hx as [Hx|Hx]; [eapply kreplay_checks; eauto|].
  pose proof (kreplay_facts _ _ _ _ E) as [K1 K2 _ _ _]. rewrite <- K1, <- K2. eapply IHl; eauto.
Qed.

(* outputs and keys of a list of records belong to records inside it *)
Lemma outputs_deep : forall o q, In q (tree_outputs o) -> exists x, In x (deep o) /\ bf_path x = Some q.
Proof.
  induction o as [q0 r e|p c f a k subs r cr ra sf IH|f a k subs r ra sf IH] using op_ind'; intros q Hq.
  - destruct Hq.
  - cbn [tree_outputs] in Hq. apply in_app_or in Hq. destruct Hq as [Hq|Hq].
    + destruct ra; [destruct Hq|]. destruct Hq as [<-|[]]. eexists. split; [left; reflexivity|reflexivity].
    + apply in_flat_map in Hq. destruct Hq as [y [Hy Hq]]. rewrite Forall_forall in IH. destruct (IH y Hy q Hq) as [x [Hx Hp]].
      exists x. split; [right; apply in_flat_map; eauto|exact Hp].
  - cbn [tree_outputs] in Hq. apply in_flat_map in Hq. destruct Hq as [y [Hy Hq]]. rewrite Forall_forall in IH.
    destruct (IH y Hy q Hq) as [x [Hx Hp]]. exists x. split; [right; apply in_flat_map; eauto|exact Hp].
Qed.

Lemma outputs_deepl : forall l q, In q (flat_map tree_outputs l) -> exists x, In x (deepl l) /\ bf_path x = Some q.
Proof.
  intros l q Hq. apply in_flat_map in Hq. destruct Hq as [y [Hy Hq]]. destruct (outputs_deep y q Hq) as [x [Hx Hp]].
  exists x. split; [eapply deepl_in; eauto|exact Hp].
Qed.

Lemma claims_keys_deep : forall o k0, In k0 (snd (tree_claims o)) ->
  exists f a k subs r ra sf, In (OSubbuild f a k subs r ra sf) (deep o) /\ k0 = subbuild_key f a k.
Proof.
  induction o as [q0 r e|p c f a k subs r cr ra sf IH|f a k subs r ra sf IH] using op_ind'; intros k0 Hk.
  - destruct Hk.
  - assert (L : forall k0, In k0 (snd (cll subs)) -> exists f a k subs' r ra sf, In (OSubbuild f a k subs' r ra sf) (deepl subs) /\ k0 = subbuild_key f a k).
    { clear -IH. induction subs as [|y rest IHl]; intros k0 Hk; [destruct Hk|]. inversion IH as [|? ? Hy Hrest]; subst.
      rewrite cll_cons in Hk. cbn [snd] in Hk. apply in_app_or in Hk. cbn [deepl flat_map]. destruct Hk as [Hk|Hk].
      - destruct (Hy _ Hk) as (f & a & k & s' & r & ra & sf & H1 & H2). exists f, a, k, s', r, ra, sf. split; [apply in_or_app; left; exact H1|exact H2].
      - destruct (IHl Hrest _ Hk) as (f & a & k & s' & r & ra & sf & H1 & H2). exists f, a, k, s', r, ra, sf. split; [apply in_or_app; right; exact H1|exact H2]. }
    rewrite tree_claims_BF in Hk. assert (Hk' : In k0 (snd (cll subs))) by (destruct sf; exact Hk).
    destruct (L _ Hk') as (f0 & a0 & k1 & s' & r0 & ra0 & sf0 & H1 & H2). exists f0, a0, k1, s', r0, ra0, sf0. split; [right; exact H1|exact H2].
  - assert (L : forall k0, In k0 (snd (cll subs)) -> exists f a k subs' r ra sf, In (OSubbuild f a k subs' r ra sf) (deepl subs) /\ k0 = subbuild_key f a k).
    { clear -IH. induction subs as [|y rest IHl]; intros k0 Hk; [destruct Hk|]. inversion IH as [|? ? Hy Hrest]; subst.
      rewrite cll_cons in Hk. cbn [snd] in Hk. apply in_app_or in Hk. cbn [deepl flat_map]. destruct Hk as [Hk|Hk].
      - destruct (Hy _ Hk) as (f & a & k & s' & r & ra & sf & H1 & H2). exists f, a, k, s', r, ra, sf. split; [apply in_or_app; left; exact H1|exact H2].
      - destruct (IHl Hrest _ Hk) as (f & a & k & s' & r & ra & sf & H1 & H2). exists f, a, k, s', r, ra, sf. split; [apply in_or_app; right; exact H1|exact H2]. }
    rewrite tree_claims_SB in Hk. destruct sf.
    + destruct (L _ Hk) as (f0 & a0 & k1 & s' & r0 & ra0 & sf0 & H1 & H2). exists f0, a0, k1, s', r0, ra0, sf0. split; [right; exact H1|exact H2].
    + cbn [snd] in Hk. destruct Hk as [<-|Hk].
      * exists f, a, k, subs, r, ra, false. split; [left; reflexivity|reflexivity].
      * destruct (L _ Hk) as (f0 & a0 & k1 & s' & r0 & ra0 & sf0 & H1 & H2). exists f0, a0, k1, s', r0, ra0, sf0. split; [right; exact H1|exact H2].
Qed.

Lemma cll_keys_deep : forall l k0, In k0 (snd (cll l)) ->
  exists f a k subs r ra sf, In (OSubbuild f a k subs r ra sf) (deepl l) /\ k0 = subbuild_key f a k.
Proof.
  induction l as [|y rest IHl]; intros k0 Hk; [destruct Hk|].
  rewrite cll_cons in Hk. cbn [snd] in Hk. apply in_app_or in Hk. cbn [deepl flat_map]. destruct Hk as [Hk|Hk].
  - destruct (claims_keys_deep _ _ Hk) as (f & a & k & s' & r & ra & sf & H1 & H2). exists f, a, k, s', r, ra, sf. split; [apply in_or_app; left; exact H1|exact H2].
  - destruct (IHl _ Hk) as (f & a & k & s' & r & ra & sf & H1 & H2). exists f, a, k, s', r, ra, sf. split; [apply in_or_app; right; exact H1|exact H2].
Qed.

(* ------------------------------------------------------------------ *)
(* deep faithfulness reaches every record inside                      *)
(* ------------------------------------------------------------------ *)
Definition wfrec (o : op) : Prop :=
  match o with
  | OSubbuild _ a k _ _ _ _ => sanitized a = true /\ sanitized k = true /\ pv_wf a = true /\ pv_wf k = true
  | _ => True
  end.

Lemma dfaith_deep : forall kp F o, dfaith kp F o -> forall x, In x (deep o) -> dfaith kp F x.
Proof.
  intros kp F. induction o as [q r e|p c f a k subs r cr ra sf IH|f a k subs r ra sf IH] using op_ind'; intros H x Hx.
  - destruct Hx as [<-|[]]. exact H.
  - cbn [deep] in Hx. destruct Hx as [<-|Hx]; [exact H|]. apply dfaith_BF in H. destruct H as [_ H].
    apply in_flat_map in Hx. destruct Hx as [y [Hy Hx]]. rewrite Forall_forall in IH. apply (IH y Hy); [|exact Hx].
    clear -H Hy. induction subs as [|z rest IHl]; [destruct Hy|]. destruct H as [A B]. destruct Hy as [->|Hy]; auto.
  - cbn [deep] in Hx. destruct Hx as [<-|Hx]; [exact H|]. apply dfaith_SB in H. destruct H as [_ [_ H]].
    apply in_flat_map in Hx. destruct Hx as [y [Hy Hx]]. rewrite Forall_forall in IH. apply (IH y Hy); [|exact Hx].
    clear -H Hy. induction subs as [|z rest IHl]; [destruct Hy|]. destruct H as [A B]. destruct Hy as [->|Hy]; auto.
Qed.

Lemma dfaith_list_deep : forall kp F l, dfaith_list kp F l -> forall x, In x (deepl l) -> dfaith kp F x.
Proof.
  intros kp F l H x Hx. apply in_flat_map in Hx. destruct Hx as [y [Hy Hx]]. apply (dfaith_deep kp F y); [|exact Hx].
  clear -H Hy. induction l as [|z rest IHl]; [destruct Hy|]. destruct H as [A B]. destruct Hy as [->|Hy]; auto.
Qed.

Lemma dfaith_list_of : forall kp F l, (forall x, In x l -> dfaith kp F x) -> dfaith_list kp F l.
Proof. intros kp F l. induction l as [|z rest IH]; intro H; [exact I|]. split; [apply H; left; reflexivity|apply IH; intros; apply H; right; assumption]. Qed.

Lemma dfaith_wfrec : forall kp F x, dfaith kp F x -> wfrec x.
Proof. intros kp F x H. destruct x; try exact I. apply dfaith_SB in H. exact (proj1 H). Qed.

(* ------------------------------------------------------------------ *)
(* keys                                                               *)
(* ------------------------------------------------------------------ *)
Definition goodkey (k0 : pyval) : Prop := exists f a k, k0 = subbuild_key f a k /\ sanitized a = true /\ sanitized k = true.

Lemma goodkey_sym : forall x y, goodkey x -> goodkey y -> py_eq x y = py_eq y x.
Proof.
  intros x y (f1 & a1 & k1 & -> & S1 & S2) (f2 & a2 & k2 & -> & S3 & S4). unfold subbuild_key.
  rewrite !subbuild_key_iff by assumption.
  rewrite (String.eqb_sym f1 f2), (is_equal_sym a1 a2), (is_equal_sym k1 k2) by (apply sanitized_t_of; assumption). reflexivity.
Qed.

Lemma goodkey_refl : forall x, goodkey x -> py_eq x x = true.
Proof.
  intros x (f1 & a1 & k1 & -> & S1 & S2). unfold subbuild_key. rewrite subbuild_key_iff by assumption.
  rewrite String.eqb_refl, !is_equal_refl by (apply sanitized_t_of; assumption). reflexivity.
Qed.

(* the pending bytes of a run change only when the target can be created *)
Lemma core_run_pend : forall pr p pend subs s s' out pend' subs',
  core_run pr (Some p) pend subs s = (s', (out, pend', subs')) -> pend' = pend \/ path_ok p = true.
Proof.
  induction pr as [v|e|st q k IHk|c k IHk|st p0 c fname a kw fn IHfn k IHk|st fname a kw fn IHfn k IHk];
    intros p pend subs s s' out pend' subs' H.
  - inversion H; auto.
  - inversion H; auto.
  - rewrite core_run_Ask in H. destruct st; [eapply IHk; eauto|]. cbv zeta in H.
    destruct (spec_answer (k_fs s) q); eapply IHk; eauto.
  - rewrite core_run_Write in H. destruct (path_ok p) eqn:E; [right; reflexivity|]. inversion H; auto.
  - rewrite core_run_BuildFile in H. destruct st; [eapply IHk; eauto|].
    destruct (sanitize a) as [sa|]; [|eapply IHk; eauto]. destruct (sanitize kw) as [skw|]; [|eapply IHk; eauto].
    cbv zeta in H.
    destruct (claim_check (k_claimedF s) (k_cachefile s) p0); [eapply IHk; eauto|].
    destruct (setup_fs (k_fs s) (k_cachefile s) p0) as [[fs1 dirs]|e1]; [|eapply IHk; eauto].
    destruct (core_hit s (core_s0 s p0 fs1 dirs) p0 fname sa skw) as [[[[fh subs1] ret1] rp1]|]; [eapply IHk; eauto|].
    destruct (core_run (fn p0 sa skw) (Some p0) None [] (core_start (core_s0 s p0 fs1 dirs) p0 fname sa skw)) as [s2 [[res pend2] bsubs]].
    destruct (core_finish s2 p0 c fname sa skw bsubs res pend2) as [[s3 out3] o3]. eapply IHk; eauto.
  - rewrite core_run_Subbuild in H. destruct st; [eapply IHk; eauto|].
    destruct (sanitize a) as [sa|]; [|eapply IHk; eauto]. destruct (sanitize kw) as [skw|]; [|eapply IHk; eauto].
    cbv zeta in H.
    destruct (existsb (py_eq (subbuild_key fname sa skw)) (k_claimedS s)); [eapply IHk; eauto|].
    destruct (core_subhit s fname (subbuild_key fname sa skw)) as [[[subs1 ret1] rp1]|]; [eapply IHk; eauto|].
    destruct (core_run (fn sa skw) None None [] (core_substart s fname sa skw)) as [s2 [[res pd] bsubs]]. eapply IHk; eauto.
Qed.

Print Assumptions tame_anc.
Print Assumptions kreplay_list_checks.
Print Assumptions core_run_pend.
