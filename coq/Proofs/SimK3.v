(* Proofs/SimK3.v — the get_size latitude of the overlay (SimK1.overlay_get_size_dir_counterexample)
   is reachable by a whole build, and changes the hit/miss decision.
   Program: f builds "o"; it calls build_file("x/t", h) and catches its failure; h asks one
   query about "x" - the directory made for its own target - and raises.  After the first build
   "x" is gone again (removed with the failed target).  Second build, nothing changed:
   the validation of the record of f enters "x" in the overlay (started_building_file for the
   record of h, which raised: nothing is checked on disk) and re-asks the query of h:
   - is_dir("x"): answered on the overlay, True as recorded: HIT, only <root> runs;
   - get_size("x"): exists says True on the overlay, then os.path.getsize stats the physical
     path: FileNotFoundError instead of the recorded size: MISS, f and h run again.
   Core (exact hit model on a scratch tree) hits in both cases.  The result and the tree are the
   same either way (a miss is always allowed by C01: the reference runs everything), so this is
   a lost cache hit, not a wrong build; it is a divergence between the mechanism model and Core,
   which is why SimB2.qry_ok excludes get_size (SimK2.simple_corr_K covers get_size under
   DirsPhys, which fails exactly here). *)
From Coq Require Import List String Ascii NArith ZArith Bool Arith Lia.
From FB.Base Require Import PyVal Fs.
From FB.Spec Require Import Prog Ref Oracle.
From FB.Model Require Import Types Monad CreatedFiles BuildDirs SimpleOps Builder Persist Build Run Frame Dsl Core CoreOracle.
Import ListNotations.
Open Scope string_scope. Open Scope list_scope.

Module Scenario.
  Definition CF : path := ["cache"].
  Definition h (q : query) : prog := Ask false q (fun _ => Raise (XUser 1)).
  Definition root (q : query) : prog :=
    BuildFile false ["o"] METADATA "f" PNone PNone
      (fun _ _ _ => BuildFile false ["t"; "x"] METADATA "h" PNone PNone (fun _ _ _ => h q)
                      (fun _ => Write "z" (Ret PNone)))
      (fun _ => Ret PNone).
  Definition w1 (q : query) : world := fst (run_build CF "n" (PDict []) (root q) init_world).
  Definition build2 (q : query) : world * build_result := run_build CF "n" (PDict []) (root q) (w1 q).
  (* what the second build logs, oldest first *)
  Definition log2 (q : query) : list string := flat_map show_log1 (new_log (w1 q) (fst (build2 q))).
  Definition core_log2 (q : query) : list string := sq_log (core_build_req (w1 q) CF "n" (PDict []) (root q)).

  (* after the first build the directory of the failed target is gone *)
  Example x_gone : lookup (w_fs (w1 (QGetSize ["x"]))) ["x"] = None /\ isfile (w_fs (w1 (QGetSize ["x"]))) ["o"] = true.
  Proof. vm_compute. auto. Qed.

  Example second_build_is_dir_hits : log2 (QIsDir ["x"]) = ["invoke <root> - N N"].
  Proof. vm_compute. reflexivity. Qed.

  Example second_build_get_size_misses :
    log2 (QGetSize ["x"]) =
    ["invoke <root> - N N"; "invoke f /o N N"; "invoke h /x/t N N"; "answer get_size('/x') = -1"].
  Proof. vm_compute. reflexivity. Qed.

  Example core_hits_both :
    core_log2 (QIsDir ["x"]) = ["invoke <root> - N N"] /\ core_log2 (QGetSize ["x"]) = ["invoke <root> - N N"].
  Proof. vm_compute. auto. Qed.

  (* same result, same files either way *)
  Example same_outcome :
    snd (build2 (QGetSize ["x"])) = Done (inl PNone) /\ snd (build2 (QIsDir ["x"])) = Done (inl PNone) /\
    red_tree (w_fs (fst (build2 (QGetSize ["x"])))) CF = red_tree (w_fs (fst (build2 (QIsDir ["x"])))) CF.
  Proof. vm_compute. auto. Qed.
End Scenario.

Theorem get_size_of_overlay_only_dir_loses_a_hit :
  Scenario.log2 (QGetSize ["x"]) <> Scenario.core_log2 (QGetSize ["x"]) /\
  Scenario.log2 (QIsDir ["x"]) = Scenario.core_log2 (QIsDir ["x"]).
Proof.
  split.
  - rewrite Scenario.second_build_get_size_misses, (proj2 Scenario.core_hits_both). intro H. discriminate H.
  - rewrite Scenario.second_build_is_dir_hits, (proj1 Scenario.core_hits_both). reflexivity.
Qed.

Print Assumptions get_size_of_overlay_only_dir_loses_a_hit.
