(* Proofs/ViewK6.v — C04, the link to Core, part 6: the setup of a target.  The view after
   _make_dirs(dirname p) and started_building_file(p) is the view before with the missing
   directories made: exactly what Core (and the specification) do on their tree —
   missing_dirs, then mkdir_all.  The directories that _dirs_to_make returns ARE
   missing_dirs of the view; afterwards each of them is a directory on disk (newly made, or
   a dead one that was there) and reserved, hence visible; every other entry of the view is
   unchanged.  Side condition: none of these directories is the hidden file of a target in
   progress (a target below the target of a running function: see ViewK3.Differ).         *)
From Coq Require Import List String Ascii NArith ZArith Bool Arith Lia.
From FB.Base Require Import PyVal Fs.
From FB.Gen Require Import JsonUtilGen.
From FB.Spec Require Import Prog Ref Oracle Faithful.
From FB.Model Require Import Types Monad CreatedFiles BuildDirs SimpleOps Builder Persist Build Run Frame Core CoreOracle.
From FB.Proofs Require Import FsLemmas CleanLaws JsonLaws CoreLawsChildren ReplayLaws FrameLaws CoreLaws1
     ViewDefs ViewLemmas ViewScan ViewQueries ViewAnswers ViewInit ViewPres ViewFrame ViewPrepare
     ViewXDefs ViewXFrame ViewXQuery ViewXSteps ViewXStart2 ViewXMake1 ViewXMake2 ViewXFail ViewXRun
     ViewK1 ViewK2 ViewK3 ViewK4 ViewK5.
Import ListNotations.
Open Scope list_scope.
Open Scope m_scope.

(* ------------------------------------------------------------------ _dirs_to_make = missing_dirs of the view *)
Lemma view_kind_none : forall w p, BInv w -> vdir w p = false -> vfile w p = false -> lookup (view_fs w) p = None.
Proof. intros w p HB H1 H2. rewrite (lookup_view_kind w p HB), H1, H2. reflexivity. Qed.

Lemma view_kind_dir : forall w p, BInv w -> vdir w p = true -> lookup (view_fs w) p = Some NDir.
Proof.
  intros w p HB H1. rewrite (lookup_view_kind w p HB), H1.
  assert (vfile w p = false) as ->; [|reflexivity].
  unfold vdir in H1. apply andb_true_iff in H1. destruct H1 as [H1 _]. unfold vfile, isfile, isdir in *.
  destruct (lookup (w_fs w) p) as [[f|]|]; try discriminate; reflexivity.
Qed.

Theorem dirs_to_make_missing : forall d T w w1 ds, XInv T w -> dirs_to_make d None w = (w1, inl ds) ->
  missing_dirs (view_fs w) (w_cachefile w) d = inl ds.
Proof.
  induction d as [|n d IH]; intros T w w1 ds HX H; cbn [dirs_to_make] in H; pose proof (x_binv _ _ HX) as HB.
  - apply bind_inv in H. destruct H as [[wa [isd [Ed H]]]|[e [_ H]]]; [|discriminate].
    destruct (m_is_dir_inl _ _ _ _ _ HX Ed) as [Eisd _]. rewrite (vdir_root _ HB) in Eisd. subst isd.
    apply bind_inv in H. destruct H as [[wb [isf [Ef H]]]|[e [_ H]]]; [|discriminate].
    inversion Ef; subst wb isf. inversion H; subst. reflexivity.
  - apply bind_inv in H. destruct H as [[wa [isd [Ed H]]]|[e [_ H]]]; [|discriminate].
    destruct (m_is_dir_inl _ _ _ _ _ HX Ed) as [Eisd _]. pose proof (m_is_dir_q _ _ _ _ _ Ed) as Qa.
    destruct (qrel_facts _ _ _ HX Qa) as (HXa & Sa & _ & _).
    apply bind_inv in H. destruct H as [[wb [isf [Ef H]]]|[e [_ H]]]; [|discriminate].
    cbn [missing_dirs].
    destruct isd.
    + inversion Ef; subst wb isf. inversion H; subst. rewrite (view_kind_dir w (n :: d) HB (eq_sym Eisd)). reflexivity.
    + pose proof (m_is_file_inl _ _ _ _ (x_binv _ _ HXa) Ef) as Eisf. pose proof (m_is_file_q _ _ _ _ _ Ef) as Qb.
      destruct (qrel_facts _ _ _ HXa Qb) as (HXb & Sb & _ & _).
      destruct isf; [discriminate|].
      rewrite (same_view_vfile _ _ _ Sa) in Eisf.
      rewrite (view_kind_none w (n :: d) HB (eq_sym Eisd) (eq_sym Eisf)).
      apply bind_inv in H. destruct H as [[wc [icf [Ec H]]]|[e [_ H]]]; [|discriminate].
      unfold is_cache_file in Ec.
      assert (E1: wc = wb) by congruence. assert (E2: icf = path_eqb (n :: d) (w_cachefile wb)) by congruence.
      subst wc icf. clear Ec.
      pose proof (same_view_trans _ _ _ Sa Sb) as Sab.
      rewrite (sv_cf _ _ Sab) in H.
      destruct (path_eqb (n :: d) (w_cachefile w)) eqn:Ecf; [unfold raise in H; discriminate|].
      apply bind_inv in H. destruct H as [[wd [r [Er H]]]|[e [_ H]]]; [|discriminate].
      inversion H; subst w1 ds.
      pose proof (IH T wb wd r HXb Er) as K.
      rewrite (same_view_view_fs _ _ Sab), (sv_cf _ _ Sab) in K. rewrite K. reflexivity.
Qed.

(* ------------------------------------------------------------------ mkdir_all of missing_dirs *)
Lemma missing_made : forall fs cf d l, path_ok d = true -> missing_dirs fs cf d = inl l ->
  exists fs1, mkdir_all fs l = inl fs1 /\
              (forall a, lookup fs1 a = if mem_path a l then Some NDir else lookup fs a) /\
              lookup fs1 d = Some NDir /\ (forall y, mem_path y l = true -> suffix y d).
Proof.
  intros fs cf. induction d as [|n up IH]; intros l Hok H; cbn [missing_dirs] in H.
  - cbn [lookup] in H. inversion H; subst. exists fs. split; [reflexivity|]. split; [intro a; reflexivity|].
    split; [reflexivity|]. intros y Hy. discriminate.
  - destruct (lookup fs (n :: up)) as [[f|]|] eqn:El; try discriminate.
    + inversion H; subst. exists fs. split; [reflexivity|]. split; [intro a; reflexivity|]. split; [exact El|]. intros y Hy. discriminate.
    + destruct (path_eqb (n :: up) cf); [discriminate|].
      destruct (missing_dirs fs cf up) as [l0|e] eqn:Em; [|discriminate]. inversion H; subst l.
      cbn [path_ok forallb] in Hok. apply andb_true_iff in Hok. destruct Hok as [Hn Hup].
      destruct (IH l0 Hup eq_refl) as (fs0 & M0 & L0 & D0 & S0).
      assert (Hnot: mem_path (n :: up) l0 = false).
      { destruct (mem_path (n :: up) l0) eqn:K; [|reflexivity]. apply S0 in K. apply suffix_length in K. simpl in K. lia. }
      assert (Hmk: mkdir fs0 (n :: up) = inl (upd (n :: up) (Some NDir) fs0)).
      { unfold mkdir. rewrite (L0 (n :: up)), Hnot, El, D0, Hn. reflexivity. }
      exists (upd (n :: up) (Some NDir) fs0).
      split; [rewrite mkdir_all_app1, M0; exact Hmk|]. split; [|split].
      * intro a. rewrite mem_path_app. cbn [mem_path]. rewrite orb_false_r.
        destruct (path_eqb (n :: up) a) eqn:Ea.
        -- apply path_eqb_eq in Ea. subst a. rewrite lookup_upd_eq by discriminate. rewrite orb_true_r. reflexivity.
        -- rewrite orb_false_r. rewrite lookup_upd_neq; [apply L0|]. intro; subst. rewrite path_eqb_refl in Ea. discriminate.
      * apply lookup_upd_eq. discriminate.
      * intros y Hy. rewrite mem_path_app in Hy. apply orb_true_iff in Hy. destruct Hy as [Hy|Hy].
        -- apply suffix_cons. apply S0. exact Hy.
        -- cbn [mem_path] in Hy. rewrite orb_false_r in Hy. apply path_eqb_eq in Hy. subst y. apply suffix_refl.
Qed.

(* ------------------------------------------------------------------ the view after the setup *)
Theorem view_setup : forall T w n d w1 ds w2 locked,
  XInv T w -> PInv T w -> isdir (w_fs w) (n :: d) = false -> path_ok d = true ->
  make_dirs d w = (w1, inl ds) ->
  m_bd_started (n :: d) ds w1 = (w2, inl locked) ->
  (* no directory to make is the (hidden) file of a target in progress *)
  (forall y, In y ds -> isfile (w_fs w2) y = false) ->
  missing_dirs (view_fs w) (w_cachefile w) d = inl ds /\
  exists fs1, mkdir_all (view_fs w) ds = inl fs1 /\ forall a, lookup (view_fs w2) a = lookup fs1 a.
Proof.
  intros T w n d w1 ds w2 locked HX HP Hnd Hok Hmk Hst Hnf.
  unfold make_dirs in Hmk. apply bind_inv in Hmk. destruct Hmk as [[wa [ds0 [Eds H]]]|[e [_ H]]]; [|discriminate].
  apply bind_inv in H. destruct H as [[wb [u [Eloop H]]]|[e [_ H]]]; [|discriminate].
  inversion H; subst wb ds0. clear H.
  pose proof (dirs_to_make_missing d T w wa ds HX Eds) as Hmiss.
  split; [exact Hmiss|].
  destruct (missing_made _ _ _ _ Hok Hmiss) as (fs1 & M1 & L1 & _ & _).
  exists fs1. split; [exact M1|].
  destruct (dirs_to_make_spec d T w wa ds HX Eds) as [Q I O].
  destruct (qrel_facts _ _ _ HX Q) as (HXa & Sa & SVa & _).
  destruct (make_dirs_loop_res _ _ _ _ _ Eloop) as [((C1 & C2 & C3 & C4) & S2 & S3) M].
  unfold m_bd_started in Hst. destruct (bd_started (w_bd w1) (n :: d) ds) as [b' l] eqn:Eb. inversion Hst; subst w2 locked.
  pose proof (x_binv _ _ HXa) as HBa.
  assert (Efa: w_fs wa = w_fs w) by (apply (sv_fs _ _ Sa)).
  assert (Enew: w_new wa = w_new w) by (apply (sv_new _ _ Sa)).
  assert (Eold: w_old wa = w_old w) by (apply (sv_old _ _ Sa)).
  assert (Ecf: w_cachefile wa = w_cachefile w) by (apply (sv_cf _ _ Sa)).
  assert (Hmem: forall q, mem_path q ds = false -> ~ In q ds).
  { intros q Hq Hin. apply mem_path_In in Hin. congruence. }
  set (w' := set_bd b' w1) in *.
  (* the hypotheses of the section Started of ViewXStart2 *)
  assert (A_bd: w_bd w' = fst (bd_started (w_bd wa) (n :: d) ds)) by (cbn [w' w_bd set_bd]; rewrite <- C1, Eb; reflexivity).
  assert (A_old: w_old w' = w_old wa) by exact C2.
  assert (A_new: w_new w' = w_new wa) by exact C3.
  assert (A_cf: w_cachefile w' = w_cachefile wa) by exact C4.
  assert (A_wf: fs_wf (w_fs w')) by (apply S2; apply (bi_wf _ HBa)).
  assert (A_oth: forall q, mem_path q ds = false -> lookup (w_fs w') q = lookup (w_fs wa) q).
  { intros q Hq. apply S3. apply Hmem. exact Hq. }
  assert (A_in: forall y, mem_path y ds = true ->
            suffix y d /\ y <> [] /\ vdir wa y = false /\ lexists (w_fs w') y = true /\
            (isdir (w_fs w') y = true \/ lookup (w_fs w') y = lookup (w_fs wa) y) /\ (isfile (w_fs w') y = true -> In y T)).
  { intros y Hy. apply mem_path_In in Hy. destruct (I y Hy) as (A & B & C & D & E).
    split; [exact A|]. split; [exact B|]. split; [rewrite (same_view_vdir _ _ _ Sa); exact C|].
    pose proof (Hnf y Hy) as Hnofile.
    destruct (M y Hy) as [K|(K1 & K2 & K3)].
    - split; [unfold lexists; cbn [w' w_fs set_bd]; rewrite K; reflexivity|].
      split; [left; unfold isdir; cbn [w' w_fs set_bd]; rewrite K; reflexivity|].
      intro Hf. rewrite Hnofile in Hf. discriminate.
    - split; [unfold lexists; cbn [w' w_fs set_bd]; rewrite K1; exact K2|]. split; [right; exact K1|].
      intro Hf. rewrite Hnofile in Hf. discriminate. }
  assert (A_out: forall y, suffix y d -> mem_path y ds = false -> mem_path y (bd_exists (w_bd wa)) = true /\ vdir wa y = true).
  { intros y Hy Hn. destruct (O y Hy) as [A B]; [intro K; apply mem_path_In in K; congruence|].
    split; [exact A|]. rewrite (same_view_vdir _ _ _ Sa). exact B. }
  assert (A_nd: isdir (w_fs wa) (n :: d) = false) by (rewrite Efa; exact Hnd).
  destruct (s_base T wa n d ds w' HXa A_bd A_old A_new A_cf A_wf A_oth A_in) as (HB' & Hdead & Hcounted).
  pose proof (s_hid wa w' A_old A_new A_cf) as Hhid.
  (* the entries *)
  intro a. rewrite (L1 a). rewrite <- (same_view_view_fs _ _ Sa).
  destruct a as [|m q]; [cbn [lookup mem_path]; destruct (mem_path [] ds); reflexivity|].
  rewrite !lookup_view_invis by discriminate.
  destruct (mem_path (m :: q) ds) eqn:Em.
  - (* a directory that was made: on disk, reserved, hence visible *)
    destruct (A_in _ Em) as (Hs & _ & _ & Hex & Hdir & _).
    assert (Hd: isdir (w_fs w') (m :: q) = true).
    { destruct Hdir as [K|K]; [exact K|]. apply mem_path_In in Em. pose proof (Hnf _ Em) as Hnofile.
      unfold lexists in Hex. unfold isfile in Hnofile. unfold isdir.
      destruct (lookup (w_fs w') (m :: q)) as [[g|]|]; try discriminate; reflexivity. }
    rewrite invis_unfold. apply isdir_lookup in Hd. rewrite Hd.
    assert (Hnd': dead w' (m :: q) = false).
    { rewrite dead_unfold. unfold trk. rewrite (Hcounted _ Hs). rewrite andb_false_r. reflexivity. }
    rewrite Hnd'. reflexivity.
  - rewrite (A_oth _ Em).
    destruct (in_counts (w_bd w') (m :: q)) eqn:Ec.
    + (* reserved: not dead, before and after *)
      destruct (in_counts (w_bd wa) (m :: q)) eqn:Ec0.
      * rewrite !invis_unfold, (A_oth _ Em), Hhid.
        assert (D1: dead w' (m :: q) = false) by (rewrite dead_unfold; unfold trk; rewrite Ec, andb_false_r; reflexivity).
        assert (D0: dead wa (m :: q) = false) by (rewrite dead_unfold; unfold trk; rewrite Ec0, andb_false_r; reflexivity).
        rewrite D1, D0. reflexivity.
      * destruct (s_new_visible T wa n d ds w' HXa A_bd A_oth A_out (m :: q) Ec0 Ec Em) as (_ & Hv & _ & _).
        unfold vdir in Hv. apply andb_true_iff in Hv. destruct Hv as [Hv1 Hv2]. apply negb_true_iff in Hv2.
        rewrite !invis_unfold, (A_oth _ Em). apply isdir_lookup in Hv1. rewrite Hv1, Hv2.
        assert (D1: dead w' (m :: q) = false) by (rewrite dead_unfold; unfold trk; rewrite Ec, andb_false_r; reflexivity).
        rewrite D1. reflexivity.
    + rewrite (s_unchanged_invis T wa n d ds w' HXa A_bd A_old A_new A_cf A_wf A_oth A_in (m :: q) Em Ec). reflexivity.
Qed.

Print Assumptions dirs_to_make_missing.
Print Assumptions view_setup.
