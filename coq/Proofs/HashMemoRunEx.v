(* Proofs/HashMemoRunEx.v — non-vacuity of HashMemoRun.run_HInv on the repaired
   model: the programs of the former counterexample (HashMemoEx.v: write the
   target, call build_file, write the target again) are now covered; the
   invariant holds when their user code returns, with a non-empty memo. *)
From Coq Require Import List String Ascii NArith ZArith Bool Arith.
From FB.Base Require Import PyVal Fs.
From FB.Gen Require Import JsonUtilGen.
From FB.Spec Require Import Prog.
From FB.Model Require Import Types Monad SimpleOps Builder Persist Build Run Dsl.
From FB.Proofs Require Import CmpLaws HashMemoInv HashMemoRun HashMemoEx.
Import ListNotations.
Import HashMemoEx.
Local Open Scope string_scope.
Local Open Scope list_scope.

(* user code of the second build of the first history (root2: p is built by fp2,
   which writes "X", asks for q — whose old record mentions p — and writes "B"),
   from the world m_build starts it in: the cache file of the first build is
   read, the directory of the cache file is made, the root function is called *)
Definition w_done2 : world := fst (run root2 None [] w_user).

Theorem root2_HInv :
  HInv w_done2 /\ HashOk w_done2 /\
  hash_get (w_hash w_done2) P = Some (hash_of "B", true) /\
  (exists f, lookup (w_fs w_done2) P = Some (NFile f) /\ f_bytes f = "B").
Proof.
  assert (H : HInv w_done2).
  { destruct (lookup (w_fs w1) CF) as [[f|]|] eqn:El; try (vm_compute in El; discriminate El).
    destruct (cache_of_json (f_json f)) as [old| |] eqn:Ej.
    2,3: (exfalso; revert Ej; vm_compute in El; inversion El; subst f; vm_compute; discriminate).
    destruct (make_dirs (dirname CF) (start_world w1 CF old "n" V)) as [wd [ccd|e]] eqn:Em.
    2:{ exfalso. revert Em. revert Ej. vm_compute in El. inversion El; subst f.
        vm_compute. intro X. inversion X; subst old. vm_compute. discriminate. }
    destruct (run root2 None [] (set_log (LInvoke "<root>" None PNone PNone :: w_log wd) wd)) as [wz res] eqn:Er.
    pose proof (build_from_cache_file_HInv CF f "n" V w1 root2 old wd ccd wz res Ej Em Er) as X.
    assert (Ew : w_done2 = wz).
    { unfold w_done2, w_user, old2. rewrite El, Ej, Em. cbn [fst]. rewrite Er. reflexivity. }
    rewrite Ew. exact X. }
  split; [exact H|]. split; [exact (proj1 H)|].
  split; [vm_compute; reflexivity|]. vm_compute. eexists. split; reflexivity.
Qed.

(* the general consequence, instantiated: whatever program calls build_file for p
   with fp2 as its function in an HInv world, the record of the rebuilt p carries
   the hash of its final contents *)
Theorem fp2_records_final_hash : forall w wc w' v o,
  HInv w -> old_keys_ok (w_old w) ->
  BuildFileLaws.bf_setup P HASH "fp2" E K w = (wc, inl None) ->
  BuildFileLaws.bf_rebuild P HASH "fp2" E K (fun p' a k w0 => run (fp2 p' a k) (Some p') [] w0) wc
    = (w', (inl v, Some o)) ->
  exists fl subs, lookup (w_fs w') P = Some (NFile fl) /\
                  o = OBuildFile P HASH "fp2" E K subs v (hash_of (f_bytes fl)) false false.
Proof. intros. eapply every_rebuilt_output_hash; eauto. Qed.
