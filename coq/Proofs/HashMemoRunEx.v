(* Proofs/HashMemoRunEx.v — the hypothesis of HashMemoRun.run_HInv is what
   separates the counterexamples of HashMemoEx.v from the programs the theorem
   covers; non-vacuity of the theorem. *)
From Coq Require Import List String Ascii NArith ZArith Bool Arith.
From FB.Base Require Import PyVal Fs.
From FB.Gen Require Import JsonUtilGen.
From FB.Spec Require Import Prog.
From FB.Model Require Import Types Monad SimpleOps Builder Persist Build Run Dsl.
From FB.Proofs Require Import CmpLaws HashMemoInv HashMemoRun HashMemoEx.
Import ListNotations.
Import HashMemoEx.
Local Open Scope string_scope.
Local Open Scope list_scope.

(* the function of the counterexample writes, calls build_file, writes again *)
Theorem fp2_not_wsafe : forall p sa skw, ~ wsafe S0 (fp2 p sa skw).
Proof.
  intros p sa skw H. unfold fp2 in H.
  inversion H as [| | | st c k Hst Hk | |]; subst. cbn [after_write] in Hk.
  inversion Hk as [| | | | st s p0 c0 f a kw fn k0 Hfn Hk0 |]; subst.
  specialize (Hk0 (inl PNone)). cbn [after_call] in Hk0.
  inversion Hk0 as [| | | st c k Hst' Hk' | |]; subst. apply Hst'. reflexivity.
Qed.

Theorem root2_not_wsafe : forall st, ~ wsafe st root2.
Proof.
  intros st H. unfold root2 in H.
  inversion H as [| | | | st0 s p0 c0 f a kw fn k0 Hfn Hk0 |]; subst.
  exact (fp2_not_wsafe P E K (Hfn P E K)).
Qed.

Theorem fp3_not_wsafe : forall p sa skw, ~ wsafe S0 (fp3 p sa skw).
Proof.
  intros p sa skw H. unfold fp3 in H.
  inversion H as [| | | st c k Hst Hk | |]; subst. cbn [after_write] in Hk.
  inversion Hk as [| | | | st s p0 c0 f a kw fn k0 Hfn Hk0 |]; subst.
  specialize (Hk0 (inl PNone)). cbn [after_call] in Hk0.
  inversion Hk0 as [| | st s q k Hq | | |]; subst.
  specialize (Hq (inl (PBool true))). cbn [is_true_o] in Hq.
  inversion Hq as [| | | st c k Hst' Hk' | |]; subst. apply Hst'. reflexivity.
Qed.

(* the first build of the counterexample is inside the class: fq calls build_file
   first and writes its target afterwards; fp writes once *)
Theorem root1_wsafe : wsafe SN root1.
Proof.
  unfold root1. apply WS_BuildFile; [|intro r; apply WS_Ret].
  intros p' sa skw. unfold fq. apply WS_BuildFile.
  - intros p'' sa' skw'. apply WS_Write; [discriminate | apply WS_Ret].
  - intro r. cbn [after_call]. apply WS_Write; [discriminate | apply WS_Ret].
Qed.

(* instance: user code of the first build, from the world m_build starts it in *)
Definition w_start : world := start_world init_world CF (empty_cache "n" V) "n" V.
Definition w_dirs : world := fst (make_dirs (dirname CF) w_start).
Definition w_user : world := set_log (LInvoke "<root>" None PNone PNone :: w_log w_dirs) w_dirs.
Definition w_done : world := fst (run root1 None [] w_user).

Theorem root1_HInv : HInv w_done /\ HashOk w_done /\ w_hash w_done <> [].
Proof.
  assert (H : HInv w_done).
  { destruct (make_dirs (dirname CF) w_start) as [w1 [ccd|e]] eqn:Em.
    2:{ vm_compute in Em. discriminate Em. }
    destruct (run root1 None [] (set_log (LInvoke "<root>" None PNone PNone :: w_log w1) w1)) as [w2 res] eqn:Er.
    destruct (build_user_code_HInv CF (empty_cache "n" V) "n" V init_world root1 w1 ccd w2 res root1_wsafe Em Er)
      as [_ H2].
    unfold w_done, w_user, w_dirs. fold w_start. rewrite Em. cbn [fst]. rewrite Er. exact H2. }
  split; [exact H|]. split; [exact (proj1 H)|]. vm_compute. discriminate.
Qed.
