(* Proofs/RollbackDirsEx.v — concrete histories (vm_compute) for the directory half of
   the rollback law (Proofs/RollbackDirsMain.v):
   - the three statements of [rollback_leaves_nothing_new] checked on failing builds that
     make directories, re-make recorded ones, overwrite foreign files, swap files and
     directories;
   - FINDING 1: the exception clause of statement (2) is needed: a foreign directory that
     the user deleted comes back when the failed build re-made it on the way to a
     directory the previous build recorded ([ancestor_of_recorded_dir_remains]);
   - FINDING 2: side condition A cannot simply be dropped: with a (hand-made) cache that
     lists D as an output and D/s as a created directory, a failing build of D/s/x loses
     the old output D ([swap_below_recorded_dir_loses_output]). *)
From Coq Require Import List String NArith ZArith Bool Arith.
From FB.Base Require Import PyVal Fs.
From FB.Gen Require Import JsonUtilGen.
From FB.Spec Require Import Prog.
From FB.Model Require Import Types Monad SimpleOps Builder Persist Build Run Dsl Frame.
Import ListNotations.
Open Scope string_scope.

Definition cfp : path := ["cache.gz"].
Definition wr (c : string) : path -> pyval -> pyval -> prog := fun _ _ _ => Write c (Ret PNone).
Definition bfw (p : path) (fn : path -> pyval -> pyval -> prog) (k : outcome -> prog) : prog :=
  BuildFile false p METADATA "f" (PList [PStr (path_str p)]) (PDict []) fn k.
Definition bf (p : path) (k : outcome -> prog) : prog := bfw p (wr "data") k.
Definition boom : prog := Raise (XUser 7).
Definition ok : outcome -> prog := fun _ => Ret PNone.
Definition B (p : prog) := HBuild (PDict []) p.

Fixpoint steps (cf : path) (h : list hstep) (w : world) : world :=
  match h with
  | [] => w
  | HMutate ops :: r => steps cf r (fold_left apply_fsop ops w)
  | HBuild vers root :: r => steps cf r (fst (run_build cf "n" vers root w))
  | HClean n :: r => steps cf r (fst (m_clean cf n w))
  end.

Definition node_eqb (a b : option node) : bool :=
  match a, b with
  | Some (NFile f), Some (NFile g) =>
      String.eqb (f_bytes f) (f_bytes g) && N.eqb (f_mtime f) (f_mtime g) && N.eqb (f_id f) (f_id g)
  | Some NDir, Some NDir => true
  | None, None => true
  | _, _ => false
  end.

(* (1) and the first half: the regular files are the same, same nodes *)
Definition chk1 (fs0 fs' : fsT) : bool :=
  forallb (fun p => if isfile fs' p then node_eqb (lookup fs' p) (lookup fs0 p) else true) (all_paths fs') &&
  forallb (fun p => if isfile fs0 p then node_eqb (lookup fs' p) (lookup fs0 p) else true) (all_paths fs0).
(* (2) *)
Definition chk2 (old : cache) (fs0 fs' : fsT) : bool :=
  forallb (fun d => if isdir fs' d then isdir fs0 d || mem_path d (c_dirs old) ||
                       existsb (fun r => below d r && isdir fs' r) (c_dirs old) else true) (all_paths fs').
(* (2) without the exception for ancestors *)
Definition chk2strict (old : cache) (fs0 fs' : fsT) : bool :=
  forallb (fun d => if isdir fs' d then isdir fs0 d || mem_path d (c_dirs old) else true) (all_paths fs').
(* (3) *)
Definition chk3 (fs0 fs' : fsT) : bool :=
  forallb (fun d => if isdir fs0 d then isdir fs' d else true) (all_paths fs0).

Definition failed (r : build_result) : bool := match r with Done (inr (XUser 7)) => true | _ => false end.

(* history h, then the failing build pr: the build fails with the exception of the root
   function and the three statements hold *)
Definition trialw (cf : path) (w : world) (pr : prog) : bool * bool * bool * bool :=
  let '(w', r) := run_build cf "n" (PDict []) pr w in
  let old := old_cache_of (w_fs w) cf "n" (PDict []) in
  (failed r && chk1 (w_fs w) (w_fs w'), chk2 old (w_fs w) (w_fs w'), chk2strict old (w_fs w) (w_fs w'),
   chk3 (w_fs w) (w_fs w')).
Definition trialc (cf : path) (h : list hstep) (pr : prog) := trialw cf (steps cf h init_world) pr.
Definition trial := trialc cfp.

Definition b1 : prog := bf ["out"; "d"; "c"] ok.
Definition all4 : bool * bool * bool * bool := (true, true, true, true).

(* a failing build that made a/b *)
Example plain : trial [HMutate [FWrite ["keep.txt"] "k"]; B b1] (bf ["x"; "b"; "a"] (fun _ => boom)) = all4.
Proof. vm_compute. reflexivity. Qed.
(* the previous build recorded c, c/d; the user removed them: they reappear, empty *)
Example recorded_reappear : trial [B b1; HMutate [FRmtree ["c"]]] (bf ["x"; "b"; "a"] (fun _ => boom)) = all4.
Proof. vm_compute. reflexivity. Qed.
(* a failing nested build_file caught by the root, then the root raises (error_created_dirs) *)
Example error_created :
  trial [B b1] (bfw ["x"; "b"; "a"] (fun _ _ _ => Write "z" boom) (fun _ => bf ["y"; "e"; "a"] (fun _ => boom))) = all4.
Proof. vm_compute. reflexivity. Qed.
(* a foreign file overwritten by a target *)
Example foreign_overwritten :
  trial [HMutate [FWrite ["t"; "u"] "foreign"]] (bf ["t"; "u"] (fun _ => bf ["q"; "v"; "u"] (fun _ => boom))) = all4.
Proof. vm_compute. reflexivity. Qed.
(* directories made for the cache file *)
Example cache_dirs : trialc ["cache.gz"; "k2"; "k1"] [] (bf ["x"; "b"; "a"] (fun _ => boom)) = all4.
Proof. vm_compute. reflexivity. Qed.
(* swaps outside side condition A that the model rolls back all the same *)
Example swap_dir_to_file : trial [B b1] (bf ["c"] (fun _ => boom)) = all4.            (* _make_room *)
Proof. vm_compute. reflexivity. Qed.
Example swap_file_to_dir : trial [B (bf ["D"] ok)] (bf ["x"; "D"] (fun _ => boom)) = all4.
Proof. vm_compute. reflexivity. Qed.
Example swap_both :
  trial [B (bf ["D"] ok)] (bfw ["x"; "D"] (fun _ _ _ => Write "z" boom) (fun _ => bf ["D"] (fun _ => boom))) = all4.
Proof. vm_compute. reflexivity. Qed.
Example foreign_file_at_recorded_dir :
  trial [B b1; HMutate [FRmtree ["d"; "c"]; FWrite ["d"; "c"] "ff"]] (bf ["d"; "c"] (fun _ => boom)) = all4.
Proof. vm_compute. reflexivity. Qed.

(* FINDING 1.  c is a foreign directory (made by the user before the first build), the
   first build records c/d only; the user deletes c; the failing build makes c and c/d
   again for its target c/d/y.  _roll_back does not remove c/d (recorded: it would be
   re-created anyway), so rmdir c fails: c, which the failed build created and no build
   ever recorded, remains.  Statement (2) holds only with its exception clause.
   (Reproduced on the implementation: /repo at b1e64af.) *)
Example ancestor_of_recorded_dir_remains :
  trial [HMutate [FMkdir ["c"]]; B b1; HMutate [FRmtree ["c"]]] (bf ["y"; "d"; "c"] (fun _ => boom))
  = (true, true, false, true).
Proof. vm_compute. reflexivity. Qed.

(* FINDING 2.  A cache that lists D as an output and D/s as a created directory (no
   history of builds writes such a cache; the file was edited).  The failing build of
   D/s/x moves D to the backups and makes D, D/s; _roll_back leaves D/s alone (recorded),
   cannot remove D, and restore_all skips D because a directory sits there: the previous
   output D is lost.  This is exactly what the weak side condition A1w of
   [rollback_leaves_nothing_new] excludes: D, a regular file of the pre-state and a proper
   ancestor of a target, is a proper ancestor of the recorded directory D/s.  (The plain
   swap [swap_file_to_dir] above, with nothing recorded below D, satisfies A1w and A2 and
   is covered by the theorem; [swap_dir_to_file] and [swap_both] violate A2 and are not.) *)
Definition crafted : cache :=
  {| c_name := "n";
     c_files := [(["D"], Some (OBuildFile ["D"] METADATA "f" (PList [PStr "/D"]) (PDict []) [] PNone
                                 (PDict [(PStr "size", PInt 4); (PStr "timeNs", PInt 1)]) false false))];
     c_subs := []; c_dirs := [["s"; "D"]]; c_fvers := PDict []; c_built := [] |}.
Definition w_crafted : world :=
  fold_left apply_fsop [FWrite ["D"] "data"; FWrite cfp "x"; FCorruptCache cfp (cache_to_json crafted)] init_world.

Example swap_below_recorded_dir_loses_output :
  trialw cfp w_crafted (bf ["x"; "s"; "D"] (fun _ => boom)) = (false, true, false, true) /\
  isfile (w_fs w_crafted) ["D"] = true /\
  isdir (w_fs (fst (run_build cfp "n" (PDict []) (bf ["x"; "s"; "D"] (fun _ => boom)) w_crafted))) ["D"] = true.
Proof. vm_compute. repeat split; reflexivity. Qed.
