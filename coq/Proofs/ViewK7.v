(* Proofs/ViewK7.v — C04, the link to Core, part 7: more view equations for build_file —
   claiming the target (the view loses the regular file at the target path: Core's
   try_remove), moving the old file away (nothing), finishing (the written file appears:
   Core's write at the end of the function) — and the steps of a subbuild that misses.   *)
From Coq Require Import List String Ascii NArith ZArith Bool Arith Lia.
From FB.Base Require Import PyVal Fs.
From FB.Gen Require Import JsonUtilGen.
From FB.Spec Require Import Prog Ref Oracle Faithful.
From FB.Model Require Import Types Monad CreatedFiles BuildDirs SimpleOps Builder Persist Build Run Frame Core CoreOracle.
From FB.Proofs Require Import FsLemmas CleanLaws JsonLaws CoreLawsChildren ReplayLaws BuildFileLaws FrameLaws CoreLaws1
     ViewDefs ViewLemmas ViewScan ViewQueries ViewAnswers ViewInit ViewPres ViewFrame ViewPrepare
     ViewXDefs ViewXFrame ViewXQuery ViewXSteps ViewXMake1 ViewXMake2 ViewXFail ViewXRun
     ViewK1 ViewK2 ViewK3 ViewK4 ViewK5.
Import ListNotations.
Open Scope list_scope.
Open Scope m_scope.

(* the view depends on five components of the world *)
Lemma view_fs_fields : forall w1 w2, w_fs w1 = w_fs w2 -> w_bd w1 = w_bd w2 -> w_new w1 = w_new w2 ->
  w_old w1 = w_old w2 -> w_cachefile w1 = w_cachefile w2 -> view_fs w1 = view_fs w2.
Proof. intros w1 w2 A B C D E. destruct w1, w2. cbn in *. subst. reflexivity. Qed.

(* ------------------------------------------------------------------ claiming *)
(* new_start_building_file(p), p a live target that is not claimed and not a directory *)
Theorem view_claim_start : forall T w p,
  XInv T w -> In p T -> p <> [] -> isdir (w_fs w) p = false ->
  let c := w_new w in
  let w' := set_new (cache_with c (files_set (c_files c) p None) (c_subs c) (c_dirs c) (c_built c ++ [p])) w in
  forall a, lookup (view_fs w') a = lookup (try_remove (view_fs w) p) a.
Proof.
  intros T w p HX Hin Hne Hnd c w' a.
  assert (Hf: forall x, x <> p -> files_get (c_files (cache_with c (files_set (c_files c) p None) (c_subs c) (c_dirs c) (c_built c ++ [p]))) x
                                  = files_get (c_files (w_new w)) x).
  { intros x Hx. cbn. apply files_get_set_other. exact Hx. }
  destruct (list_eq_dec string_dec a p) as [->|Ha].
  - pose proof (view_claim_at T w p _ HX (or_introl Hin) Hf Hne) as K. fold w' in K. rewrite K. clear K.
    assert (Hh: hid w' p = true).
    { unfold hid, cache_has_file, cache_get_file. cbn [w' w_new set_new c_files cache_with]. rewrite files_get_set_same. cbn. apply orb_true_r. }
    rewrite Hh.
    assert (Hview: lookup (view_fs w) p = match lookup (w_fs w) p with Some (NFile f) => lookup (view_fs w) p | _ => None end).
    { rewrite (lookup_view w p Hne). unfold isdir in Hnd. destruct (lookup (w_fs w) p) as [[f|]|]; try discriminate; try reflexivity.
      destruct (visible w p); reflexivity. }
    destruct (try_remove_char (view_fs w) p p) as [E|(_ & E & _)].
    + rewrite E. unfold try_remove in E.
      destruct (lookup (w_fs w) p) as [[f|]|] eqn:El.
      * (* a regular file on disk: either it was visible (then try_remove removed it) or hidden *)
        destruct (isfile (view_fs w) p) eqn:Ev.
        -- destruct (remove (view_fs w) p) as [fs'|e] eqn:Er.
           ++ apply remove_frame in Er. destruct Er as (_ & Hn & _). rewrite Hn in E. exact E.
           ++ exfalso. unfold remove in Er. apply isfile_lookup in Ev. destruct Ev as [g Eg]. rewrite Eg in Er.
              destruct p; [contradiction|discriminate].
        -- unfold isfile in Ev. rewrite (lookup_view w p Hne), El in *. destruct (visible w p); [discriminate|reflexivity].
      * unfold isdir in Hnd. rewrite El in Hnd. discriminate.
      * rewrite Hview. reflexivity.
    + rewrite E. destruct (lookup (w_fs w) p) as [[f|]|] eqn:El; [reflexivity| |exact Hview].
      unfold isdir in Hnd. rewrite El in Hnd. discriminate.
  - rewrite (try_remove_frame _ _ _ Ha). exact (view_claim_other T w p _ HX (or_introl Hin) Hf a Ha).
Qed.

(* back_up_and_remove of the (hidden) file of a live target *)
Theorem view_back_up_target : forall T w p w1 bb, RInv T w -> In p T -> isfile (w_fs w) p = true -> hid w p = true ->
  back_up_and_remove p w = (w1, inl bb) ->
  (forall a, lookup (view_fs w1) a = lookup (view_fs w) a) /\
  lookup (w_fs w1) p = None /\ (forall q, q <> p -> lookup (w_fs w1) q = lookup (w_fs w) q) /\
  w_new w1 = w_new w /\ w_old w1 = w_old w /\ w_cachefile w1 = w_cachefile w /\ w_bd w1 = w_bd w /\
  vis_log (w_log w1) = vis_log (w_log w).
Proof.
  intros T w p w1 bb (HX & HP & HF) Hin Hf Hh H. unfold back_up_and_remove in H. apply bind_inv in H.
  destruct H as [[wa [u [E H]]]|[e [_ K]]]; [|discriminate K].
  destruct (effect_nofault_inv _ _ _ _ _ _ HF E) as (Fa & (C1 & C2 & C3 & C4) & [[fs' (R1 & R2 & _)]|[e3 (R1 & _ & _)]]); [|discriminate].
  assert (Efa: w_fs wa = w_fs w) by (inversion R1; congruence).
  assert (Ela: vis_log (w_log wa) = vis_log (w_log w)).
  { unfold effect in E. rewrite HF in E. cbn [existsb w_fs set_effects] in E. inversion E; subst. reflexivity. }
  rewrite Fa in H. cbn [existsb] in H. cbn [w_fs set_effects] in H.
  assert (Hfa: isfile (w_fs wa) p = true) by (rewrite Efa; exact Hf).
  apply isfile_lookup in Hfa. destruct Hfa as [g Hg].
  unfold rename_out in H. rewrite Hg in H. destruct p as [|n d]; [cbn in Hg; discriminate|].
  inversion H; subst w1 bb. cbn [w_fs w_new w_old w_cachefile w_bd w_log set_log set_backups set_fs set_effects].
  assert (HXa: XInv T wa) by (eapply XInv_fields; [exact HX|..]; assumption).
  assert (Hha: hid wa (n :: d) = true) by (unfold hid; rewrite C2, C3, C4; exact Hh).
  assert (Hview: forall a, lookup (view_fs (set_fs (upd (n :: d) None (w_fs wa)) wa)) a = lookup (view_fs wa) a).
  { apply (view_target_change T wa (n :: d) _ HXa Hin Hha).
    - apply (wf_change_one (w_fs wa) _ (n :: d) (bi_wf _ (x_binv _ _ HXa))).
      + discriminate.
      + intros q Hq. apply lookup_upd_neq. exact Hq.
      + intro K. rewrite lookup_upd_eq in K by discriminate. contradiction.
      + intros m Hm. rewrite lookup_upd_eq by discriminate. exfalso.
        destruct (lookup (w_fs wa) (m :: n :: d)) as [x|] eqn:Ex; [|congruence].
        pose proof (bi_wf _ (x_binv _ _ HXa) _ _ Ex) as K. cbn [dirname tl] in K. congruence.
    - intros q Hq. apply lookup_upd_neq. exact Hq.
    - unfold isdir. rewrite Hg. reflexivity.
    - unfold isdir. rewrite lookup_upd_eq by discriminate. reflexivity. }
  split; [|split; [apply lookup_upd_eq; discriminate|split; [intros q Hq; rewrite lookup_upd_neq by exact Hq; rewrite Efa; reflexivity|]]].
  - intro a. rewrite <- (view_fs_fields wa w); try congruence. rewrite <- (Hview a).
    first [reflexivity | f_equal; apply view_fs_fields; reflexivity].
  - repeat split; try assumption.
Qed.

(* ------------------------------------------------------------------ finishing *)
(* new_finish_building_file(p, o): the file of the target becomes visible *)
Theorem view_finish : forall T w p o,
  XInv T w -> In p T -> p <> [] -> p <> w_cachefile w ->
  let c := w_new w in
  let w' := set_new (cache_with c (files_set (c_files c) p (Some o)) (c_subs c) (c_dirs c) (c_built c)) w in
  (forall a, a <> p -> lookup (view_fs w') a = lookup (view_fs w) a) /\
  (forall f, lookup (w_fs w) p = Some (NFile f) -> lookup (view_fs w') p = Some (NFile f)).
Proof.
  intros T w p o HX Hin Hne Hcf c w'.
  assert (Hf: forall x, x <> p -> files_get (c_files (cache_with c (files_set (c_files c) p (Some o)) (c_subs c) (c_dirs c) (c_built c))) x
                                  = files_get (c_files (w_new w)) x).
  { intros x Hx. cbn. apply files_get_set_other. exact Hx. }
  split.
  - intros a Ha. exact (view_claim_other T w p _ HX (or_introl Hin) Hf a Ha).
  - intros f El. pose proof (view_claim_at T w p _ HX (or_introl Hin) Hf Hne) as K. fold w' in K. rewrite K, El. clear K.
    assert (Hh: hid w' p = false).
    { unfold hid, cache_has_file, cache_get_file. cbn [w' w_new w_cachefile set_new c_files cache_with]. rewrite files_get_set_same.
      apply path_eqb_neq in Hcf. rewrite Hcf. reflexivity. }
    rewrite Hh. reflexivity.
Qed.

(* ------------------------------------------------------------------ changes of the subbuild table *)
Lemma view_subs_change : forall T w c', XInv T w -> c_files c' = c_files (w_new w) ->
  forall a, lookup (view_fs (set_new c' w)) a = lookup (view_fs w) a.
Proof.
  intros T w c' HX E a. destruct a as [|m q]; [reflexivity|].
  apply (view_claim_other T w [] c' HX (or_intror eq_refl)); [|discriminate].
  intros x _. rewrite E. reflexivity.
Qed.

(* the relation is carried along a step that leaves the view, the tree, the caches and the
   visible log alone *)
Lemma Sim3_transport : forall W w w' s, Sim3 W w s ->
  (forall a, lookup (view_fs w') a = lookup (view_fs w) a) ->
  w_fs w' = w_fs w -> w_new w' = w_new w -> w_old w' = w_old w -> w_cachefile w' = w_cachefile w ->
  vis_log (w_log w') = vis_log (w_log w) -> Sim3 W w' s.
Proof.
  intros W w w' s [S1 S2 S3 S4 S5 S6 S7 S8 S9 S10] Hv F1 F2 F3 F4 F5.
  constructor; rewrite ?F1, ?F2, ?F3, ?F4, ?F5; try assumption.
  intro p. specialize (S1 p). rewrite (Hv p). exact S1.
Qed.

(* read-only steps (lookups in the view) *)
Lemma Sim3_qrel : forall T W w w' s, XInv T w -> qrel w w' -> Sim3 W w s -> Sim3 W w' s.
Proof.
  intros T W w w' s HX Q HS. destruct (qrel_facts _ _ _ HX Q) as (_ & Sa & SV & _).
  destruct SV as (V1 & V2 & V3 & V4 & V5 & V6 & V7 & V8 & V9 & V10 & V11).
  apply (Sim3_transport W w w' s HS); try assumption.
  - intro a. rewrite (same_view_view_fs _ _ Sa). reflexivity.
  - rewrite V9. reflexivity.
Qed.

Print Assumptions view_claim_start.
Print Assumptions view_back_up_target.
Print Assumptions view_finish.
Print Assumptions Sim3_qrel.
