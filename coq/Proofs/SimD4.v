(* Proofs/SimD4.v — C01 (cache transparency) for the MECHANISM model, the WHOLE build:
   [run_build cachefile nm vers root w = (w', Done (inl v))] against the from-scratch build of the
   specification [ref_build]: v is the reference outcome and, at every path except the cache file,
   the tree after the commit is the reference tree up to modification times / inode numbers
   [mech_commit].  SimC13.mech_C01 (up to the return of the root function) composed with
   SimD3.commit_is_view (the commit phase turns the view into the real tree).
   The failing case [mech_fail]: the exception of a rolled-back build is the reference outcome
   (RollbackDirsMain.failed_build_same_exception), unless the root function returned and the
   commit phase itself failed (Cache.write on a cache that cannot be serialized).

   Hypotheses, besides those of mech_C01 (user obligations, content/time, previous cache in the
   class okc, the world, the program):
   PROGRAM / WORLD    P: the targets of the program (AllTargets P root, P p -> tgtP p);
                      A: neither a regular file of the pre-state nor a target is a proper ancestor
                         of a target, of the cache file, of a target recorded in the previous cache;
                      E: the directories recorded by the previous cache have creatable names
                      (the hypotheses of CommitDirs3Main.commit_leaves_exact_wf)
   END OF THE RUN     [EndInv]: two invariants of BuildDirs in the world in which the root function
                      returned, needed ONLY when the previous cache records directories
                      (c_dirs old <> []), and then only for recorded directories that were on disk
                      before the build:
                        CfListed  the cache file is still in BuildDirs' list of hidden files (where
                                  bd_init puts it) or still on disk;
                        ErrDead   a recorded directory of the pre-state that a failing build_file
                                  call re-created (error_created_dirs) is dead in the view.
                      Not proved here for all runs: [end_inv_statement]; checked by evaluation on the
                      example histories (SimDEx).  For a previous cache without recorded directories
                      (every first build) nothing is assumed: [mech_commit_nodirs], [mech_commit_first_build]. *)
From Coq Require Import List String Ascii NArith ZArith Bool Arith Lia.
From FB.Base Require Import PyVal Fs.
From FB.Gen Require Import JsonUtilGen.
From FB.Spec Require Import JsonSpec Prog Ref Oracle Faithful.
From FB.Model Require Import Types Monad CreatedFiles BuildDirs SimpleOps Builder Persist Build Run Frame Core CoreOracle.
From FB.Proofs Require Import FsLemmas JsonLaws BuildFileLaws HashMemoInv CoreLaws1 CoreLaws2 CoreLaws6
     ViewDefs ViewLemmas ViewInit ViewXDefs ViewXFail ViewR2 ViewR3 ViewK3 ViewK4 ViewK8 SimA0 SimAMain SimC0 SimC12 SimC13 SimC15.
From FB.Proofs Require Import ReplayLaws RollbackLaws RollbackDirsLaws RollbackDirsBase RollbackDirsInv RollbackDirsMain
     CommitDirsInv CommitDirsMain CommitDirs2FileMain CommitDirs2Y CommitDirs3Main SimA3Cf SimD1 SimD2 SimD3.
Import ListNotations.
Open Scope list_scope.

(* ------------------------------------------------------------------ the end of the run *)
Definition CfListed (cf : path) (w2 : world) : Prop :=
  mem_path cf (bd_removed_files (w_bd w2)) = true \/ isfile (w_fs w2) cf = true.

Definition ErrDead (fs0 : fsT) (old : cache) (w2 : world) : Prop :=
  forall d, In d (c_dirs old) -> In d (bd_err_created (w_bd w2)) -> lookup fs0 d = Some NDir ->
    lookup (w_fs w2) d = Some NDir -> dead w2 d = true.

(* for every run of the root function from the world in which Build.m_build starts it *)
Definition EndInv (cf : path) (nm : string) (svers : pyval) (root : prog) (w : world) : Prop :=
  let old := old_cache_of (w_fs w) cf nm svers in
  c_dirs old <> [] ->
  forall w1 w2 r l,
    make_dirs (dirname cf) (Build.start_world w cf old nm svers) = (w1, inl []) ->
    run root None [] (set_log (LInvoke "<root>"%string None PNone PNone :: w_log w1) w1) = (w2, (r, l)) ->
    CfListed cf w2 /\ ErrDead (w_fs w) old w2.

(* ------------------------------------------------------------------ a committed build, step by step *)
Lemma run_build_committed : forall cf nm vers svers root w w' v (P : path -> Prop),
  w_faults w = [] -> sanitize vers = Some svers -> AllTargets P root -> fs_wf (w_fs w) ->
  (forall a t, (P t \/ t = cf \/ In t (cache_targets (old_cache_of (w_fs w) cf nm svers))) ->
     below a t = true -> (forall f, lookup (w_fs w) a <> Some (NFile f)) /\ ~ P a) ->
  (forall d, In d (c_dirs (old_cache_of (w_fs w) cf nm svers)) -> path_ok d = true) ->
  WfCache (old_cache_of (w_fs w) cf nm svers) -> old_ok (old_cache_of (w_fs w) cf nm svers) cf ->
  (forall p, P p -> tgtP p) -> isdir (w_fs w) cf = false -> maxlen (w_fs w) < walk_fuel ->
  path_ok (dirname cf) = true ->
  vdir (Build.start_world w cf (old_cache_of (w_fs w) cf nm svers) nm svers) (dirname cf) = true ->
  run_build cf nm vers root w = (w', Done (inl v)) ->
  exists wfin w1 w2 x, w' = end_build wfin /\
    Committed (w_fs w) (old_cache_of (w_fs w) cf nm svers) cf P root w nm svers wfin v w1 w2 x.
Proof.
  intros cf nm vers svers root w w' v P Hf Hsv Hat Hwf HA HE HW Hok HPt Hnc Hml Hpo Hvd H.
  set (old := old_cache_of (w_fs w) cf nm svers) in *.
  unfold run_build in H.
  destruct (m_build cf nm vers (fun w0 => run root None [] w0) w) as [wf r1] eqn:E.
  inversion H; subst w' r1; clear H.
  assert (HA2 : forall a t, Tgt old cf P t -> below a t = true -> ~ P a) by (intros a t Ht Hb; exact (proj2 (HA a t Ht Hb))).
  assert (HS : forall a t, Tgt old cf P t -> below a t = true -> notorig (w_fs w) a) by (intros a t Ht Hb; exact (proj1 (HA a t Ht Hb))).
  assert (Hentry : forall wx ccd, make_dirs (dirname cf) (start_world w cf old nm svers) = (wx, inl ccd) ->
            ccd = [] /\ ViewR2.RInv2 (fun _ : cache => True) [] (set_log (LInvoke "<root>" None PNone PNone :: w_log wx) wx)).
  { intros wx ccd Ex.
    destruct (RInv2_root_entry (fun _ => True) w cf old nm svers Hwf Hok Hf Hpo Hnc Hml HW I Hvd) as (wy & Ey & HRy).
    rewrite Ey in Ex. inversion Ex; subst wx ccd. split; [reflexivity|exact HRy]. }
  assert (G : forall old0, old0 = old -> m_accept cf nm svers (fun w0 => run root None [] w0) w old0 = (wf, Done (inl v)) ->
              exists w1 w2 x, Committed (w_fs w) old cf P root w nm svers wf v w1 w2 x).
  { intros old0 -> Y.
    exact (accept_committed (w_fs w) old cf P HA2 HS Hwf HE HPt nm svers root w wf v eq_refl Hf Hat Hentry Y). }
  assert (G2 : exists w1 w2 x, Committed (w_fs w) old cf P root w nm svers wf v w1 w2 x).
  { rewrite m_build_unfold, Hsv in E. subst old. unfold old_cache_of in G |- *.
    destruct (lookup (w_fs w) cf) as [[g|]|].
    - destruct (cache_of_json (f_json g)) as [old0| |]; try discriminate E.
      destruct (String.eqb (c_name old0) nm); [|discriminate E]. exact (G old0 eq_refl E).
    - discriminate E.
    - exact (G _ eq_refl E). }
  destruct G2 as (w1 & w2 & x & HC). exists wf, w1, w2, x. split; [reflexivity|exact HC].
Qed.

(* ------------------------------------------------------------------ what Sim5 gives at the end of the run *)
Lemma sim5_end : forall c0 T W w2 s, Sim5 c0 T W w2 s ->
  BInv w2 /\ dead w2 (dirname (w_cachefile w2)) = false.
Proof.
  intros c0 T W w2 s [[[HP4 _] _] _].
  pose proof (s4_rinv _ _ _ _ HP4) as (HR & _). destruct HR as (HX & _).
  pose proof (XInv_BInv _ _ HX) as HB. split; [exact HB|].
  set (d := dirname (w_cachefile w2)).
  assert (Hk : lookup (k_fs s) d = Some NDir) by (apply (s4_cfdir _ _ _ _ HP4); exists []; reflexivity).
  assert (Hv : lookup (view_fs w2) d = Some NDir).
  { pose proof (s3_tree _ _ _ (s4_sim _ _ _ _ HP4) d) as Y. rewrite Hk in Y.
    destruct (mem_path d W); [|exact Y].
    destruct (lookup (view_fs w2) d) as [[g|]|]; cbn in Y; try contradiction. reflexivity. }
  rewrite lookup_view_vis in Hv. destruct d as [|n d']; [apply (dead_root _ HB)|].
  unfold visible in Hv. destruct (lookup (w_fs w2) (n :: d')) as [[g|]|]; try discriminate Hv.
  - destruct (hid w2 (n :: d')); discriminate Hv.
  - destruct (dead w2 (n :: d')); [discriminate Hv|reflexivity].
Qed.

(* ------------------------------------------------------------------ C01 for the whole build *)
Section Whole.

Variables (kp : kappa) (F : ftable) (w : world) (cachefile : path) (nm : string) (vers svers : pyval) (root : prog).
Variable P : path -> Prop.
Let old := old_cache_of (w_fs w) cachefile nm svers.
Let rr := ref_build (w_fs w) cachefile (prev_of_cache old) (w_clock w) (w_nextid w) root.

Hypothesis Hsv : sanitize vers = Some svers.
(* user obligations *)
Hypothesis HO : Obeys F root.
Hypothesis HR : Respects F.
(* content / time *)
Hypothesis HI : kp_init kp (w_fs w).
Hypothesis HN : kp_new kp (w_clock w).
(* the previous cache *)
Hypothesis HCw : cache_wf old.
Hypothesis HF : faithful_cache kp F old svers.
Hypothesis Hokc : okc (w_clock w) old.
Hypothesis Hok : old_ok old cachefile.
Hypothesis HW : WfCache old.
(* the world *)
Hypothesis Hwf : fs_wf (w_fs w).
Hypothesis Hfa : w_faults w = [].
Hypothesis Hp : path_ok (dirname cachefile) = true.
Hypothesis Hnc : isdir (w_fs w) cachefile = false.
Hypothesis Hml : maxlen (w_fs w) < walk_fuel.
Hypothesis Hd : vdir (Build.start_world w cachefile old nm svers) (dirname cachefile) = true.
(* the program *)
Hypothesis Hat : AllTargets tgtP root.
Hypothesis Hnn : NoNest [] root.
Hypothesis Hqk : QueriesOk root.
Hypothesis Hwa : WfArgs root.
Hypothesis Hcm : CmpMeta root.
Hypothesis Hcl : TargetsClear old root.
Hypothesis Hap : TargetsApart old root.
(* the targets *)
Hypothesis HatP : AllTargets P root.
Hypothesis HPt : forall p, P p -> tgtP p.
Hypothesis HA : forall a t, (P t \/ t = cachefile \/ In t (cache_targets old)) ->
     below a t = true -> (forall f, lookup (w_fs w) a <> Some (NFile f)) /\ ~ P a.
Hypothesis HE : forall d, In d (c_dirs old) -> path_ok d = true.

Lemma whole_keys : old_keys_ok old.
Proof. apply old_cache_keys_ok. Qed.

Theorem mech_commit : forall w' v,
  EndInv cachefile nm svers root w ->
  run_build cachefile nm vers root w = (w', Done (inl v)) ->
  rr_outcome rr = inl v /\
  forall p, p <> cachefile -> node_equiv (lookup (w_fs w') p) (lookup (rr_tree rr) p).
Proof.
  intros w' v HEnd H.
  destruct (run_build_committed cachefile nm vers svers root w w' v P Hfa Hsv HatP Hwf HA HE HW Hok HPt Hnc Hml Hp Hd H)
    as (wfin & w1 & w2 & x & -> & HC).
  fold old in HC.
  pose proof (cm_mk _ _ _ _ _ _ _ _ _ _ _ _ _ HC) as Emk. pose proof (cm_run _ _ _ _ _ _ _ _ _ _ _ _ _ HC) as Erun.
  destruct (mech_C01 kp F w cachefile old nm svers root w1 w2 (inl v) x HO HR HI HN HCw HF Hokc Hok HW whole_keys Hwf Hfa
              Hp Hnc Hml Hd Hat Hnn Hqk Hwa Hcm Hcl Hap Emk Erun) as (A1 & _ & A3).
  fold rr in A1, A3. split; [symmetry; exact A1|].
  destruct (build_run_okc w cachefile old nm svers root w1 w2 (inl v) x Hokc Hwf Hok HW whole_keys Hfa Hp Hnc Hml Hd
              Hat Hnn Hqk Hwa Hcm Hcl Hap Emk Erun) as (s1 & pd & sb & T' & W' & _ & HS5).
  destruct (sim5_end _ _ _ _ _ HS5) as [HB Hcfd].
  assert (Ecf : w_cachefile w2 = cachefile).
  { destruct (cm_rinv _ _ _ _ _ _ _ _ _ _ _ _ _ HC) as (_ & _ & Y & _). exact Y. }
  rewrite Ecf in Hcfd.
  assert (Hcfpre : lookup (w_fs w) (dirname cachefile) = Some NDir).
  { unfold vdir in Hd. apply andb_true_iff in Hd. destruct Hd as [Y _]. apply isdir_lookup in Y. exact Y. }
  assert (Hexact : forall d, lookup (w_fs wfin) d = Some NDir -> lookup (w_fs w) d = Some NDir \/ In d (c_dirs (w_new wfin))).
  { exact (commit_leaves_exact_wf cachefile nm vers svers root w (end_build wfin) v P Hfa Hsv HatP Hwf HA HE HW Hok HPt Hnc Hml Hp Hd H). }
  assert (R1 : c_dirs old <> [] -> mem_path cachefile (bd_removed_files (w_bd w2)) = true \/ isfile (w_fs w2) cachefile = true).
  { intro Hne. exact (proj1 (HEnd Hne w1 w2 (inl v) x Emk Erun)). }
  assert (R2 : forall d, In d (c_dirs old) -> In d (bd_err_created (w_bd w2)) -> lookup (w_fs w) d = Some NDir ->
                 lookup (w_fs w2) d = Some NDir -> dead w2 d = true).
  { intros d Hin. assert (Hne : c_dirs old <> []) by (intro Z; rewrite Z in Hin; destruct Hin).
    exact (proj2 (HEnd Hne w1 w2 (inl v) x Emk Erun) d Hin). }
  intros p Np. change (w_fs (end_build wfin)) with (w_fs wfin).
  rewrite (commit_is_view (w_fs w) old cachefile P root w nm svers wfin v w1 w2 x Hwf HE HC HB Hcfpre Hcfd Hexact R1 R2 p Np).
  apply A3.
Qed.

(* nothing is assumed about the end of the run when the previous cache records no directory *)
Corollary mech_commit_nodirs : forall w' v,
  c_dirs old = [] ->
  run_build cachefile nm vers root w = (w', Done (inl v)) ->
  rr_outcome rr = inl v /\
  forall p, p <> cachefile -> node_equiv (lookup (w_fs w') p) (lookup (rr_tree rr) p).
Proof.
  intros w' v Hnil. apply mech_commit. intro Hne. contradiction.
Qed.

(* ------------------------------------------------------------------ the failing case *)
Theorem mech_fail : forall w' e,
  run_build cachefile nm vers root w = (w', Done (inr e)) ->
  exists w1 w2 r l,
    make_dirs (dirname cachefile) (Build.start_world w cachefile old nm svers) = (w1, inl []) /\
    run root None [] (set_log (LInvoke "<root>"%string None PNone PNone :: w_log w1) w1) = (w2, (r, l)) /\
    rr_outcome rr = r /\
    (r = inr e \/ exists v, r = inl v).
Proof.
  intros w' e H.
  destruct (RInv2_root_entry (fun _ => True) w cachefile old nm svers Hwf Hok Hfa Hp Hnc Hml HW I Hd) as (w1 & Emk & _).
  destruct (run root None [] (set_log (LInvoke "<root>"%string None PNone PNone :: w_log w1) w1)) as [w2 [r l]] eqn:Erun.
  destruct (mech_C01 kp F w cachefile old nm svers root w1 w2 r l HO HR HI HN HCw HF Hokc Hok HW whole_keys Hwf Hfa
              Hp Hnc Hml Hd Hat Hnn Hqk Hwa Hcm Hcl Hap Emk Erun) as (A1 & _ & _).
  fold rr in A1. exists w1, w2, r, l. split; [exact Emk|]. split; [exact Erun|]. split; [symmetry; exact A1|].
  destruct r as [v|e2]; [right; exists v; reflexivity|left].
  rewrite (failed_build_same_exception cachefile nm vers svers root w w' e w1 [] w2 e2 l Hsv H Emk Erun). reflexivity.
Qed.

End Whole.

(* ------------------------------------------------------------------ every first build *)
(* no cache file yet: the previous cache is the empty cache; the conditions on the previous cache
   that remain are those that mention the version table (cf. SimC13.mech_C01_first_build) *)
Corollary mech_commit_first_build : forall (kp : kappa) (F : ftable) w cachefile nm vers svers root (P : path -> Prop) w' v,
  let old := empty_cache nm svers in
  lookup (w_fs w) cachefile = None ->
  sanitize vers = Some svers ->
  Obeys F root -> Respects F -> kp_init kp (w_fs w) -> kp_new kp (w_clock w) ->
  cache_wf old -> faithful_cache kp F old svers -> old_ok old cachefile ->
  fs_wf (w_fs w) -> w_faults w = [] ->
  path_ok (dirname cachefile) = true -> maxlen (w_fs w) < walk_fuel ->
  vdir (Build.start_world w cachefile old nm svers) (dirname cachefile) = true ->
  AllTargets tgtP root -> NoNest [] root -> QueriesOk root -> WfArgs root -> CmpMeta root ->
  AllTargets P root -> (forall p, P p -> tgtP p) ->
  (forall a t, (P t \/ t = cachefile) -> below a t = true -> (forall f, lookup (w_fs w) a <> Some (NFile f)) /\ ~ P a) ->
  run_build cachefile nm vers root w = (w', Done (inl v)) ->
  let rr := ref_build (w_fs w) cachefile (prev_of_cache old) (w_clock w) (w_nextid w) root in
  rr_outcome rr = inl v /\
  forall p, p <> cachefile -> node_equiv (lookup (w_fs w') p) (lookup (rr_tree rr) p).
Proof.
  intros kp F w cachefile nm vers svers root P w' v old Hnone Hsv HO HR HI HN HCw HF Hok Hwf Hfa Hp Hml Hd
         Hat Hnn Hqk Hwa Hcm HatP HPt HA H rr.
  assert (Eold : old_cache_of (w_fs w) cachefile nm svers = old) by (unfold old_cache_of; rewrite Hnone; reflexivity).
  assert (Hnc : isdir (w_fs w) cachefile = false) by (unfold isdir; rewrite Hnone; reflexivity).
  assert (HW : WfCache old) by (split; [intros p rec H0; discriminate|intros k rec H0; discriminate]).
  assert (Hcl : TargetsClear old root).
  { unfold TargetsClear. clear. induction root; constructor; auto; intros a0 []. }
  assert (Hap : TargetsApart old root).
  { unfold TargetsApart. clear. induction root; constructor; auto; intros a0 []. }
  unfold rr. rewrite <- Eold.
  refine (mech_commit_nodirs kp F w cachefile nm vers svers root P Hsv HO HR HI HN _ _ _ _ _ Hwf Hfa Hp Hnc Hml _
            Hat Hnn Hqk Hwa Hcm _ _ HatP HPt _ _ w' v _ H); rewrite ?Eold; try assumption.
  - apply okc_empty.
  - intros a t [Z|[Z|Z]]; [apply HA; left; exact Z|apply HA; right; exact Z|destruct Z].
  - intros d [].
  - reflexivity.
Qed.

(* ------------------------------------------------------------------ what remains *)
Definition end_inv_statement : Prop :=
  forall w cachefile nm svers root (P : path -> Prop),
    let old := old_cache_of (w_fs w) cachefile nm svers in
    okc (w_clock w) old -> old_ok old cachefile -> WfCache old ->
    fs_wf (w_fs w) -> w_faults w = [] ->
    path_ok (dirname cachefile) = true -> isdir (w_fs w) cachefile = false -> maxlen (w_fs w) < walk_fuel ->
    vdir (Build.start_world w cachefile old nm svers) (dirname cachefile) = true ->
    AllTargets tgtP root -> NoNest [] root -> QueriesOk root -> WfArgs root -> CmpMeta root ->
    TargetsClear old root -> TargetsApart old root ->
    AllTargets P root -> (forall p, P p -> tgtP p) ->
    (forall a t, (P t \/ t = cachefile \/ In t (cache_targets old)) ->
       below a t = true -> (forall f, lookup (w_fs w) a <> Some (NFile f)) /\ ~ P a) ->
    (forall d, In d (c_dirs old) -> path_ok d = true) ->
    EndInv cachefile nm svers root w.

Print Assumptions mech_commit.
Print Assumptions mech_commit_first_build.
Print Assumptions mech_fail.
