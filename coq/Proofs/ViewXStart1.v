(* Proofs/ViewXStart1.v — C04, reachability: what started_building_file does to
   bd_created and bd_removed_files (complements ViewFrame.started_frame). *)
From Coq Require Import List String Ascii NArith ZArith Bool Arith Lia.
From FB.Base Require Import PyVal Fs.
From FB.Model Require Import Types Monad CreatedFiles BuildDirs SimpleOps Builder.
From FB.Proofs Require Import FsLemmas ViewDefs ViewLemmas ViewScan ViewFrame ViewXDefs ViewXCount.
Import ListNotations.
Open Scope list_scope.

Record started_frame2 (b : bdirs) (cr : list path) (b' : bdirs) : Prop := {
  sg_cr_keep : forall x, mem_path x (bd_created b) = true -> mem_path x (bd_created b') = true;
  sg_cr_new : forall x, mem_path x (bd_created b') = true ->
              mem_path x (bd_created b) = true \/
              (mem_path x cr = true /\ in_counts b x = false /\ in_counts b' x = true);
  sg_cr_get : forall x, in_counts b x = false -> in_counts b' x = true -> mem_path x cr = true ->
              mem_path x (bd_created b') = true /\ mem_path x (bd_removed_files b') = false;
  sg_rf_del : forall a, mem_path a (bd_removed_files b) = true -> mem_path a (bd_removed_files b') = false ->
              mem_path a cr = true /\ in_counts b a = false /\ in_counts b' a = true
}.

Lemma st_b2_created : forall b cr parent x,
  mem_path x (bd_created (st_b2 b cr parent)) =
  (mem_path parent cr && path_eqb parent x) || mem_path x (bd_created b).
Proof.
  intros b cr parent x. unfold st_b2. destruct (mem_path parent cr); cbn [bd_created bd_with st_b1 andb orb].
  - apply mem_add_path.
  - reflexivity.
Qed.

Lemma st_b2_rf : forall b cr parent x,
  mem_path x (bd_removed_files (st_b2 b cr parent)) =
  negb (mem_path parent cr && path_eqb parent x) && mem_path x (bd_removed_files b).
Proof.
  intros b cr parent x. unfold st_b2. destruct (mem_path parent cr); cbn [bd_removed_files bd_with st_b1 andb negb].
  - apply mem_del_path.
  - reflexivity.
Qed.

Lemma st_b1_frame2 : forall b cr parent, in_counts b parent = true -> started_frame2 b cr (st_b1 b parent).
Proof.
  intros b cr parent Hp.
  assert (Hc: forall x, in_counts (st_b1 b parent) x = in_counts b x).
  { intro x. rewrite in_counts_b1. destruct (path_eqb parent x) eqn:E; [|reflexivity]. apply path_eqb_eq in E. subst. rewrite Hp. reflexivity. }
  constructor; cbn [st_b1 bd_created bd_removed_files bd_with].
  - auto.
  - intros x H. left. exact H.
  - intros x H1 H2. rewrite Hc in H2. congruence.
  - intros a H1 H2. congruence.
Qed.

Lemma started_mono : forall parent b cr acc x, in_counts b x = true ->
  in_counts (fst (bd_started_from b cr parent acc)) x = true.
Proof.
  induction parent as [|m d IH]; intros b cr acc x Hx; rewrite bd_started_from_eq.
  - destruct (Nat.ltb 0 (st_count b [])); cbn [fst].
    + rewrite in_counts_b1, Hx. apply orb_true_r.
    + destruct (st_b2_facts b cr []) as (_ & _ & _ & M & _ & _). rewrite M, Hx. apply orb_true_r.
  - destruct (Nat.ltb 0 (st_count b (m :: d))); cbn [fst].
    + rewrite in_counts_b1, Hx. apply orb_true_r.
    + apply IH. destruct (st_b2_facts b cr (m :: d)) as (_ & _ & _ & M & _ & _). rewrite M, Hx. apply orb_true_r.
Qed.

Lemma started_rf_sub : forall parent b cr acc a,
  mem_path a (bd_removed_files (fst (bd_started_from b cr parent acc))) = true -> mem_path a (bd_removed_files b) = true.
Proof.
  induction parent as [|m d IH]; intros b cr acc a H; rewrite bd_started_from_eq in H.
  - destruct (Nat.ltb 0 (st_count b [])); cbn [fst] in H.
    + exact H.
    + rewrite st_b2_rf in H. apply andb_true_iff in H. tauto.
  - destruct (Nat.ltb 0 (st_count b (m :: d))); cbn [fst] in H.
    + exact H.
    + apply IH in H. rewrite st_b2_rf in H. apply andb_true_iff in H. tauto.
Qed.

Lemma not_counted_pos : forall b x, (forall y, cnt_get (bd_counts b) y <> Some 0) ->
  Nat.ltb 0 (st_count b x) = false -> in_counts b x = false.
Proof.
  intros b x Hpos E. unfold in_counts. unfold st_count in E. specialize (Hpos x).
  destruct (cnt_get (bd_counts b) x) as [[|k]|]; [congruence|discriminate|reflexivity].
Qed.

Lemma counted_pos : forall b x, Nat.ltb 0 (st_count b x) = true -> in_counts b x = true.
Proof.
  intros b x E. unfold in_counts. unfold st_count in E. destruct (cnt_get (bd_counts b) x); [reflexivity|discriminate].
Qed.

(* the step that newly reserves [parent] *)
Lemma st_b2_frame2 : forall b cr parent, in_counts b parent = false -> started_frame2 b cr (st_b2 b cr parent).
Proof.
  intros b cr parent Hnc. destruct (st_b2_facts b cr parent) as (_ & _ & _ & M4 & _ & _).
  constructor.
  - intros x H. rewrite st_b2_created, H. apply orb_true_r.
  - intros x H. rewrite st_b2_created in H. apply orb_true_iff in H. destruct H as [H|H]; [right|left; exact H].
    apply andb_true_iff in H. destruct H as [H1 H2]. apply path_eqb_eq in H2. subst x.
    split; [exact H1|]. split; [exact Hnc|]. rewrite M4, path_eqb_refl. reflexivity.
  - intros x H1 H2 H3. rewrite M4, H1, orb_false_r in H2. apply path_eqb_eq in H2. subst x.
    rewrite st_b2_created, st_b2_rf, H3, path_eqb_refl. split; reflexivity.
  - intros a H1 H2. rewrite st_b2_rf, H1, andb_true_r in H2. apply negb_false_iff in H2.
    apply andb_true_iff in H2. destruct H2 as [H2 H3]. apply path_eqb_eq in H3. subst a.
    split; [exact H2|]. split; [exact Hnc|]. rewrite M4, path_eqb_refl. reflexivity.
Qed.

Lemma bd_started_from_frame2 : forall parent b cr acc,
  (forall x, cnt_get (bd_counts b) x <> Some 0) ->
  started_frame2 b cr (fst (bd_started_from b cr parent acc)).
Proof.
  induction parent as [|n d IH]; intros b cr acc Hpos; rewrite bd_started_from_eq.
  - destruct (Nat.ltb 0 (st_count b [])) eqn:Epos; cbn [fst].
    + apply st_b1_frame2. apply counted_pos. exact Epos.
    + apply st_b2_frame2. apply not_counted_pos; assumption.
  - destruct (Nat.ltb 0 (st_count b (n :: d))) eqn:Epos; cbn [fst].
    + apply st_b1_frame2. apply counted_pos. exact Epos.
    + pose proof (not_counted_pos b (n :: d) Hpos Epos) as Hnc.
      destruct (st_b2_facts b cr (n :: d)) as (_ & _ & _ & M4 & _ & _).
      pose proof (st_b2_frame2 b cr (n :: d) Hnc) as [J1 J2 J3 J4].
      assert (Hpos2: forall x, cnt_get (bd_counts (st_b2 b cr (n :: d))) x <> Some 0).
      { intro x. rewrite st_b2_counts. unfold st_b1. cbn [bd_counts bd_with]. rewrite cnt_get_set.
        destruct (path_eqb (n :: d) x); [discriminate|apply Hpos]. }
      specialize (IH (st_b2 b cr (n :: d)) cr (st_acc cr (n :: d) acc) Hpos2).
      pose proof (started_mono d (st_b2 b cr (n :: d)) cr (st_acc cr (n :: d) acc)) as Hmono.
      pose proof (started_rf_sub d (st_b2 b cr (n :: d)) cr (st_acc cr (n :: d) acc)) as Hsub.
      set (b' := fst (bd_started_from (st_b2 b cr (n :: d)) cr d (st_acc cr (n :: d) acc))) in *.
      destruct IH as [I1 I2 I3 I4].
      constructor.
      * intros x H. apply I1, J1, H.
      * intros x H. destruct (I2 x H) as [H0|(A & B & C)].
        -- destruct (J2 x H0) as [H1|(A & B & C)]; [left; exact H1|right].
           split; [exact A|]. split; [exact B|]. apply Hmono. exact C.
        -- right. split; [exact A|]. split; [|exact C]. rewrite M4 in B. apply orb_false_iff in B. tauto.
      * intros x H1 H2 H3. destruct (in_counts (st_b2 b cr (n :: d)) x) eqn:E.
        -- destruct (J3 x H1 E H3) as [A B]. split; [apply I1; exact A|].
           destruct (mem_path x (bd_removed_files b')) eqn:E2; [|reflexivity]. apply Hsub in E2. congruence.
        -- apply I3; assumption.
      * intros a H1 H2. destruct (mem_path a (bd_removed_files (st_b2 b cr (n :: d)))) eqn:E.
        -- destruct (I4 a E H2) as (A & B & C). split; [exact A|]. split; [|exact C].
           rewrite M4 in B. apply orb_false_iff in B. tauto.
        -- destruct (J4 a H1 E) as (A & B & C). split; [exact A|]. split; [exact B|]. apply Hmono. exact C.
Qed.

(* started_building_file itself: the target is discarded from bd_removed_files first *)
Theorem bd_started_frame2 : forall b n d cr, (forall x, cnt_get (bd_counts b) x <> Some 0) ->
  let b' := fst (bd_started b (n :: d) cr) in
  (forall x, mem_path x (bd_created b) = true -> mem_path x (bd_created b') = true) /\
  (forall x, mem_path x (bd_created b') = true ->
             mem_path x (bd_created b) = true \/ (mem_path x cr = true /\ in_counts b x = false /\ in_counts b' x = true)) /\
  (forall x, in_counts b x = false -> in_counts b' x = true -> mem_path x cr = true ->
             mem_path x (bd_created b') = true /\ mem_path x (bd_removed_files b') = false) /\
  (forall a, mem_path a (bd_removed_files b) = true -> mem_path a (bd_removed_files b') = false ->
             a = n :: d \/ (mem_path a cr = true /\ in_counts b a = false /\ in_counts b' a = true)) /\
  mem_path (n :: d) (bd_removed_files b') = false.
Proof.
  intros b n d cr Hpos. cbv zeta. unfold bd_started.
  set (b0 := bd_with b (bd_counts b) (bd_created b) (bd_err_created b) (bd_removed b) (bd_exists b) (bd_maybe b)
                     (del_path (n :: d) (bd_removed_files b))).
  pose proof (bd_started_from_frame2 d b0 cr [] Hpos) as [I1 I2 I3 I4].
  pose proof (started_rf_sub d b0 cr []) as Hsub.
  split; [exact I1|]. split; [exact I2|]. split; [exact I3|]. split.
  - intros a H1 H2. destruct (mem_path a (bd_removed_files b0)) eqn:E.
    + right. apply (I4 a E H2).
    + left. unfold b0 in E. cbn in E. rewrite mem_del_path, H1, andb_true_r in E. apply negb_false_iff in E.
      apply path_eqb_eq in E. auto.
  - destruct (mem_path (n :: d) (bd_removed_files (fst (bd_started_from b0 cr d [])))) eqn:E; [|reflexivity].
    apply Hsub in E. unfold b0 in E. cbn in E. rewrite mem_del_path, path_eqb_refl in E. discriminate.
Qed.

Print Assumptions bd_started_frame2.
