(* Proofs/SimQ1.v — Core does not look at the representation of its tree, at the node its stale store
   keeps for the cache-file path, nor at the order of the entries of the previous cache:
     KR cf a b : the two Core states have pointwise equal trees (leq), stale stores that answer alike away
                 from the cache file, previous caches that answer alike (cache_get_file, subs_get of c_subs,
                 c_fvers), and are equal in every other field;
     kreplay_KR / kreplay_list_KR : the replay test gives related scratch states;
     core_run_KR : every run of a program from related states ends in related states with the same outcome,
                 pending bytes and records (induction over the program). *)
From Coq Require Import List String Ascii NArith ZArith Bool Arith Lia.
From FB.Base Require Import PyVal Fs.
From FB.Gen Require Import JsonUtilGen.
From FB.Spec Require Import JsonSpec Prog Ref Oracle Faithful.
From FB.Model Require Import Types SimpleOps Builder Persist Core CoreOracle CoreCache.
From FB.Proofs Require Import FsLemmas CleanLaws CoreLawsChildren CoreLaws1 CoreLaws2 CoreLaws3 CoreLaws4 CoreRebuildDefs CoreRebuild1.
Import ListNotations.
Local Open Scope list_scope.

(* ------------------------------------------------------------------ relations *)
Record KR (cf : path) (a b : kstate) : Prop := mkKR {
  kr_fs : leq (k_fs a) (k_fs b);
  kr_stale : forall p, p <> cf -> stale_get (k_stale a) p = stale_get (k_stale b) p;
  kr_sd : k_staledirs a = k_staledirs b;
  kr_cF : k_claimedF a = k_claimedF b;
  kr_cS : k_claimedS a = k_claimedS b;
  kr_need : k_need a = k_need b;
  kr_made : k_made a = k_made b;
  kr_clock : k_clock a = k_clock b;
  kr_nextid : k_nextid a = k_nextid b;
  kr_log : k_log a = k_log b;
  kr_cfa : k_cachefile a = cf;
  kr_cfb : k_cachefile b = cf;
  kr_files : forall p, cache_get_file (k_old a) p = cache_get_file (k_old b) p;
  kr_subs : forall k, subs_get (c_subs (k_old a)) k = subs_get (c_subs (k_old b)) k;
  kr_fvers : c_fvers (k_old a) = c_fvers (k_old b);
  kr_vers : k_vers a = k_vers b;
  kr_newF : k_newF a = k_newF b;
  kr_newS : k_newS a = k_newS b }.

Definition RQ (x y : rstate') : Prop :=
  leq (rp_fs x) (rp_fs y) /\ rp_need x = rp_need y /\ rp_made x = rp_made y /\
  rp_claimedF x = rp_claimedF y /\ rp_claimedS x = rp_claimedS y.

Definition orel {A : Type} (R : A -> A -> Prop) (x y : option A) : Prop :=
  match x, y with Some u, Some v => R u v | None, None => True | _, _ => False end.

Definition hrel (x y : option (fnode * list op * pyval * rstate')) : Prop :=
  match x, y with
  | Some (f, s, r, q), Some (f', s', r', q') => f = f' /\ s = s' /\ r = r' /\ RQ q q'
  | None, None => True
  | _, _ => False
  end.

Definition srel (x y : option (list op * pyval * rstate')) : Prop :=
  match x, y with
  | Some (s, r, q), Some (s', r', q') => s = s' /\ r = r' /\ RQ q q'
  | None, None => True
  | _, _ => False
  end.

Lemma stale_del_get : forall l p q, stale_get (stale_del l p) q = if path_eqb p q then None else stale_get l q.
Proof.
  induction l as [|[q0 f] l IH]; intros p q; simpl.
  - destruct (path_eqb p q); reflexivity.
  - destruct (path_eqb q0 p) eqn:E.
    + apply path_eqb_eq in E. subst q0. rewrite IH. destruct (path_eqb p q); reflexivity.
    + simpl. rewrite IH. destruct (path_eqb p q) eqn:E2; [|reflexivity].
      apply path_eqb_eq in E2. subst q. rewrite E. reflexivity.
Qed.

Lemma stale_rel_del : forall (cf : path) la lb p,
  (forall q, q <> cf -> stale_get la q = stale_get lb q) ->
  forall q, q <> cf -> stale_get (stale_del la p) q = stale_get (stale_del lb p) q.
Proof. intros cf la lb p H q Hq. rewrite !stale_del_get. rewrite (H q Hq). reflexivity. Qed.

Lemma stale_rel_fold : forall (cf : path) ps la lb,
  (forall q, q <> cf -> stale_get la q = stale_get lb q) ->
  forall q, q <> cf -> stale_get (fold_left stale_del ps la) q = stale_get (fold_left stale_del ps lb) q.
Proof.
  intros cf ps. induction ps as [|p ps IH]; intros la lb H; simpl; [exact H|].
  apply IH. apply stale_rel_del. exact H.
Qed.

Lemma leq_write_file : forall a b p bytes js mt id, leq a b ->
  sum_leq (write_file a p bytes js mt id) (write_file b p bytes js mt id).
Proof.
  intros a b p bytes js mt id H. unfold write_file. destruct p as [|n d]; [reflexivity|].
  unfold stat_err. rewrite (leq_absent_err a b (n :: d) H), (H (n :: d)), (H d).
  destruct (lookup b (n :: d)) as [[f|]|]; simpl; try reflexivity.
  - apply leq_upd. exact H.
  - destruct (lookup b d) as [[f|]|]; simpl; try reflexivity.
    destruct (name_ok n); simpl; [apply leq_upd; exact H|reflexivity].
Qed.

Section Rel.
  Variable cf : path.

  Ltac krt H := destruct H; constructor; cbn; try assumption; try congruence.

  Lemma KR_klog : forall e a b, KR cf a b -> KR cf (klog e a) (klog e b).
  Proof. intros e a b H. unfold klog, ks_with. krt H. Qed.

  Lemma KR_ktick : forall a b, KR cf a b -> KR cf (ktick a) (ktick b).
  Proof. intros a b H. unfold ktick, ks_with. krt H. Qed.

  Lemma KR_s0 : forall a b p fa fb dirs, KR cf a b -> leq fa fb -> KR cf (core_s0 a p fa dirs) (core_s0 b p fb dirs).
  Proof. intros a b p fa fb dirs H L. unfold core_s0, ks_with. krt H. Qed.

  Lemma KR_start : forall a b p fname sa skw, KR cf a b -> KR cf (core_start a p fname sa skw) (core_start b p fname sa skw).
  Proof.
    intros a b p fname sa skw H. unfold core_start, klog, ks_with. krt H.
    - apply leq_try_remove. assumption.
    - apply stale_rel_del. assumption.
  Qed.

  Lemma KR_put : forall a b p f, KR cf a b -> KR cf (core_put a p f) (core_put b p f).
  Proof.
    intros a b p f H. unfold core_put, ks_with. krt H.
    - apply leq_upd. assumption.
    - apply stale_rel_del. assumption.
  Qed.

  Lemma KR_substart : forall a b fname sa skw, KR cf a b -> KR cf (core_substart a fname sa skw) (core_substart b fname sa skw).
  Proof. intros a b fname sa skw H. unfold core_substart, klog, ks_with. krt H. Qed.

  Lemma KR_subreg : forall a b key o, KR cf a b -> KR cf (core_subreg a key o) (core_subreg b key o).
  Proof. intros a b key o H. unfold core_subreg, ks_with. krt H. Qed.

  Lemma KR_prune : forall a b p o, KR cf a b -> KR cf (core_prune a p o) (core_prune b p o).
  Proof.
    intros a b p o H. unfold core_prune, ks_with. destruct H.
    constructor; cbn; rewrite ?kr_need0, ?kr_made0; try assumption; try congruence; try reflexivity.
    apply leq_fold; [apply leq_try_rmdir|assumption].
  Qed.

  Lemma KR_adopt : forall a b x y o, KR cf a b -> RQ x y -> KR cf (adopt a x o) (adopt b y o).
  Proof.
    intros a b x y o H (R1 & R2 & R3 & R4 & R5). unfold adopt, ks_with. krt H.
    apply stale_rel_fold. assumption.
  Qed.

  Lemma RQ_start : forall a b, KR cf a b -> RQ (start_replay a) (start_replay b).
  Proof. intros a b H. destruct H. unfold start_replay, RQ; cbn. auto. Qed.

  Lemma kversion_KR : forall a b f, KR cf a b -> kversion_equal a f = kversion_equal b f.
  Proof. intros a b f H. unfold kversion_equal, func_version. rewrite (kr_fvers _ _ _ H), (kr_vers _ _ _ H). reflexivity. Qed.

  Lemma phys_KR : forall a b p, KR cf a b -> p <> cf -> phys (k_fs a) (k_stale a) p = phys (k_fs b) (k_stale b) p.
  Proof. intros a b p H Hp. unfold phys. rewrite (kr_fs _ _ _ H p), (kr_stale _ _ _ H p Hp). reflexivity. Qed.

  Lemma on_disk_KR : forall a b p c cr ra, KR cf a b -> p <> cf -> on_disk a p c cr ra = on_disk b p c cr ra.
  Proof.
    intros a b p c cr ra H Hp. unfold on_disk, phys_exists. rewrite (phys_KR a b p H Hp).
    rewrite (leq_lexists _ _ p (kr_fs _ _ _ H)), (kr_stale _ _ _ H p Hp), (kr_sd _ _ _ H). reflexivity.
  Qed.

  Lemma kreplay_list_of : forall a b subs,
    Forall (fun o => forall x y, RQ x y -> orel RQ (kreplay a o x) (kreplay b o y)) subs ->
    forall x y, RQ x y -> orel RQ (kreplay_list a subs x) (kreplay_list b subs y).
  Proof.
    intros a b subs F. induction F as [|o subs Ho F IH]; intros x y R; simpl; [exact R|].
    specialize (Ho x y R). destruct (kreplay a o x) as [x'|], (kreplay b o y) as [y'|]; simpl in Ho; try contradiction; [|exact I].
    apply IH. exact Ho.
  Qed.

  Lemma kreplay_KR : forall a b, KR cf a b -> forall o x y, RQ x y -> orel RQ (kreplay a o x) (kreplay b o y).
  Proof.
    intros a b H. induction o as [q r e|p c f a0 k subs r cr ra sf IH|f a0 k subs r ra sf IH] using CoreLaws4.op_ind'; intros x y R.
    - rewrite !kreplay_Simple. destruct R as (R1 & R2 & R3 & R4 & R5). rewrite (leq_record_answer _ _ q R1).
      destruct (record_answer (rp_fs y) q) as [v|c0]; destruct e as [c1|]; try exact I.
      + destruct (is_equal v r); [unfold orel, RQ; auto|exact I].
      + destruct (is_equal PNone r && errclass_eqb c0 c1); [unfold orel, RQ; auto|exact I].
    - rewrite !kreplay_BF. rewrite (kversion_KR a b f H). destruct (negb (kversion_equal b f)); [exact I|].
      destruct sf; [exact I|]. rewrite (kr_cfa _ _ _ H), (kr_cfb _ _ _ H).
      destruct (path_eqb p cf) eqn:Ep.
      + rewrite !orb_true_r. destruct (on_disk a p c cr ra), (on_disk b p c cr ra); exact I.
      + apply path_eqb_neq in Ep. rewrite (on_disk_KR a b p c cr ra H Ep). destruct (on_disk b p c cr ra); [|exact I].
        destruct R as (R1 & R2 & R3 & R4 & R5). rewrite R4. destruct (mem_path p (rp_claimedF y) || false); [exact I|].
        rewrite (leq_missing_dirs _ _ cf (dirname p) R1).
        destruct (missing_dirs (rp_fs y) cf (dirname p)) as [dirs|c0]; [|exact I].
        pose proof (leq_mkdir_all dirs _ _ R1) as M.
        destruct (mkdir_all (rp_fs x) dirs) as [f1|e1], (mkdir_all (rp_fs y) dirs) as [f2|e2]; simpl in M; try contradiction; try exact I.
        assert (RS : RQ (rp_start x p f1 dirs) (rp_start y p f2 dirs)).
        { unfold rp_start, RQ; cbn. repeat split; try congruence. apply leq_try_remove. exact M. }
        pose proof (kreplay_list_of a b subs IH _ _ RS) as L.
        destruct (kreplay_list a subs (rp_start x p f1 dirs)) as [x2|], (kreplay_list b subs (rp_start y p f2 dirs)) as [y2|];
          simpl in L; try contradiction; try exact I.
        destruct L as (L1 & L2 & L3 & L4 & L5).
        destruct ra.
        * simpl. unfold rp_prune, RQ; cbn. rewrite L2, L3. repeat split; try assumption.
          apply leq_fold; [apply leq_try_rmdir|exact L1].
        * rewrite (phys_KR a b p H Ep). destruct (phys (k_fs b) (k_stale b) p) as [f0|]; [|exact I].
          simpl. unfold rp_put, RQ; cbn. repeat split; try assumption. apply leq_upd. exact L1.
    - rewrite !kreplay_SB. rewrite (kversion_KR a b f H). destruct (negb (kversion_equal b f) || sf); [exact I|].
      destruct R as (R1 & R2 & R3 & R4 & R5). rewrite R5.
      destruct (existsb (py_eq (subbuild_key f a0 k)) (rp_claimedS y)); [exact I|].
      apply kreplay_list_of; [exact IH|]. unfold RQ; auto.
  Qed.

  Lemma kreplay_list_KR : forall a b, KR cf a b -> forall subs x y, RQ x y -> orel RQ (kreplay_list a subs x) (kreplay_list b subs y).
  Proof.
    intros a b H subs. apply kreplay_list_of. apply Forall_forall. intros o _. apply kreplay_KR. exact H.
  Qed.

  Lemma core_hit_KR : forall a b a0 b0 p fname sa skw, KR cf a b -> KR cf a0 b0 -> p <> cf ->
    hrel (core_hit a a0 p fname sa skw) (core_hit b b0 p fname sa skw).
  Proof.
    intros a b a0 b0 p fname sa skw H H0 Hp. unfold core_hit. rewrite (kr_files _ _ _ H p).
    destruct (cache_get_file (k_old b) p) as [[q r e|p' c' f' a' k' subs' ret' cr' ra' sf'|f' a' k' subs' ret' ra' sf']|]; try exact I.
    destruct ra'; [exact I|]. destruct (negb (String.eqb f' fname)); [exact I|].
    rewrite (kversion_KR a b fname H). destruct (negb (kversion_equal b fname)); [exact I|].
    destruct (negb (is_equal a' sa) || negb (is_equal k' skw)); [exact I|].
    rewrite (phys_KR a0 b0 p H0 Hp). destruct (phys (k_fs b0) (k_stale b0) p) as [f|]; [|exact I].
    destruct (negb (is_equal cr' (cmp_of c' f))); [exact I|].
    pose proof (kreplay_list_KR a0 b0 H0 subs' _ _ (RQ_start a0 b0 H0)) as L.
    destruct (kreplay_list a0 subs' (start_replay a0)) as [x|], (kreplay_list b0 subs' (start_replay b0)) as [y|];
      simpl in L; try contradiction; simpl; auto.
  Qed.

  Lemma core_subhit_KR : forall a b fname key, KR cf a b -> srel (core_subhit a fname key) (core_subhit b fname key).
  Proof.
    intros a b fname key H. unfold core_subhit. rewrite (kr_subs _ _ _ H key).
    destruct (subs_get (c_subs (k_old b)) key) as [[[q r e|p' c' f' a' k' subs' ret' cr' ra' sf'|f' a' k' subs' ret' ra' sf']|]|]; try exact I.
    destruct ra'; [exact I|]. rewrite (kversion_KR a b fname H). destruct (negb (kversion_equal b fname)); [exact I|].
    pose proof (kreplay_list_KR a b H subs' _ _ (RQ_start a b H)) as L.
    destruct (kreplay_list a subs' (start_replay a)) as [x|], (kreplay_list b subs' (start_replay b)) as [y|];
      simpl in L; try contradiction; simpl; auto.
  Qed.

  Lemma core_finish_KR : forall a b p c fname sa skw bsubs res pend, KR cf a b ->
    KR cf (fst (fst (core_finish a p c fname sa skw bsubs res pend))) (fst (fst (core_finish b p c fname sa skw bsubs res pend))) /\
    snd (fst (core_finish a p c fname sa skw bsubs res pend)) = snd (fst (core_finish b p c fname sa skw bsubs res pend)) /\
    snd (core_finish a p c fname sa skw bsubs res pend) = snd (core_finish b p c fname sa skw bsubs res pend).
  Proof.
    intros a b p c fname sa skw bsubs res pend H. unfold core_finish.
    destruct res as [v|e]; [|cbn; split; [apply KR_prune; exact H|auto]].
    destruct (sanitize v) as [sv|]; [|cbn; split; [apply KR_prune; exact H|auto]].
    destruct pend as [bytes|]; [|cbn; split; [apply KR_prune; exact H|auto]].
    rewrite (kr_clock _ _ _ H), (kr_nextid _ _ _ H).
    pose proof (leq_write_file _ _ p bytes None (k_clock b) (k_nextid b) (kr_fs _ _ _ H)) as W.
    destruct (write_file (k_fs a) p bytes None (k_clock b) (k_nextid b)) as [f1|e1],
             (write_file (k_fs b) p bytes None (k_clock b) (k_nextid b)) as [f2|e2]; simpl in W; try contradiction.
    - cbn. rewrite (W p). split; [|auto]. unfold ks_with. destruct H. constructor; cbn; try assumption; try congruence.
    - subst e2. cbn. split; [apply KR_prune; exact H|auto].
  Qed.

  Theorem core_run_KR : forall pr tgt pend subs a b, KR cf a b ->
    KR cf (fst (core_run pr tgt pend subs a)) (fst (core_run pr tgt pend subs b)) /\
    snd (core_run pr tgt pend subs a) = snd (core_run pr tgt pend subs b).
  Proof.
    induction pr as [v|e|st q k IHk|c k IHk|st p c fname a0 kw fn IHfn k IHk|st fname a0 kw fn IHfn k IHk];
      intros tgt pend subs a b H.
    - simpl. auto.
    - simpl. auto.
    - rewrite !core_run_Ask. destruct st; [apply IHk; exact H|]. cbv zeta.
      rewrite (leq_record_answer _ _ q (kr_fs _ _ _ H)), (leq_spec_answer _ _ q (kr_fs _ _ _ H)).
      destruct (spec_answer (k_fs b) q); apply IHk; apply KR_klog; exact H.
    - rewrite !core_run_Write. destruct tgt as [p|]; [|apply IHk; exact H].
      destruct (path_ok p); [apply IHk; apply KR_ktick; exact H|]. simpl. auto.
    - rewrite !core_run_BuildFile. destruct st; [apply IHk; exact H|].
      destruct (sanitize a0) as [sa|]; [|apply IHk; exact H]. destruct (sanitize kw) as [skw|]; [|apply IHk; exact H].
      cbv zeta. rewrite (kr_cF _ _ _ H), (kr_cfa _ _ _ H), (kr_cfb _ _ _ H).
      destruct (claim_check (k_claimedF b) cf p) eqn:Ec; [apply IHk; exact H|].
      assert (Hp : p <> cf).
      { unfold claim_check in Ec. destruct (mem_path p (k_claimedF b)); [discriminate|].
        destruct (path_eqb p cf) eqn:E; [discriminate|]. apply path_eqb_neq. exact E. }
      pose proof (leq_setup_fs _ _ cf p (kr_fs _ _ _ H)) as S.
      destruct (setup_fs (k_fs a) cf p) as [[fa da]|ea], (setup_fs (k_fs b) cf p) as [[fb db]|eb]; simpl in S; try contradiction.
      2: { subst eb. apply IHk; exact H. }
      destruct S as [S1 S2]. subst db.
      pose proof (KR_s0 a b p fa fb da H S1) as H0.
      pose proof (core_hit_KR a b _ _ p fname sa skw H H0 Hp) as Hh.
      destruct (core_hit a (core_s0 a p fa da) p fname sa skw) as [[[[f1 s1] r1] q1]|],
               (core_hit b (core_s0 b p fb da) p fname sa skw) as [[[[f2 s2] r2] q2]|]; simpl in Hh; try contradiction.
      + destruct Hh as (E1 & E2 & E3 & Hq). subst f2 s2 r2. apply IHk. apply KR_put. apply KR_adopt; assumption.
      + destruct (IHfn p sa skw (Some p) None [] _ _ (KR_start _ _ p fname sa skw H0)) as [I1 I2].
        destruct (core_run (fn p sa skw) (Some p) None [] (core_start (core_s0 a p fa da) p fname sa skw)) as [s2a [[resa penda] bsa]].
        destruct (core_run (fn p sa skw) (Some p) None [] (core_start (core_s0 b p fb da) p fname sa skw)) as [s2b [[resb pendb] bsb]].
        simpl in I1, I2. inversion I2; subst resb pendb bsb.
        destruct (core_finish_KR s2a s2b p c fname sa skw bsa resa penda I1) as (F1 & F2 & F3).
        destruct (core_finish s2a p c fname sa skw bsa resa penda) as [[s3a outa] oa].
        destruct (core_finish s2b p c fname sa skw bsa resa penda) as [[s3b outb] ob].
        simpl in F1, F2, F3. subst outb ob. apply IHk. exact F1.
    - rewrite !core_run_Subbuild. destruct st; [apply IHk; exact H|].
      destruct (sanitize a0) as [sa|]; [|apply IHk; exact H]. destruct (sanitize kw) as [skw|]; [|apply IHk; exact H].
      cbv zeta. rewrite (kr_cS _ _ _ H).
      destruct (existsb (py_eq (subbuild_key fname sa skw)) (k_claimedS b)); [apply IHk; exact H|].
      pose proof (core_subhit_KR a b fname (subbuild_key fname sa skw) H) as Hh.
      destruct (core_subhit a fname (subbuild_key fname sa skw)) as [[[s1 r1] q1]|],
               (core_subhit b fname (subbuild_key fname sa skw)) as [[[s2 r2] q2]|]; simpl in Hh; try contradiction.
      + destruct Hh as (E1 & E2 & Hq). subst s2 r2. apply IHk. apply KR_adopt; assumption.
      + destruct (IHfn sa skw None None [] _ _ (KR_substart _ _ fname sa skw H)) as [I1 I2].
        destruct (core_run (fn sa skw) None None [] (core_substart a fname sa skw)) as [s2a [[resa penda] bsa]].
        destruct (core_run (fn sa skw) None None [] (core_substart b fname sa skw)) as [s2b [[resb pendb] bsb]].
        simpl in I1, I2. inversion I2; subst resb pendb bsb.
        apply IHk. apply KR_subreg. exact I1.
  Qed.
End Rel.

Print Assumptions core_run_KR.
