(* Proofs/SimF5.v — the recorded METADATA times of the new cache (SimF1.RS_times), for the
   mechanism model, by a mechanism-side invariant carried through [run].
     fixed bound c1 (at least the clock at the end of the run);
     NewT c1 new   : every record stored in the tables of [new] (files and subbuilds, raised or
                     not) has node_time c1 on all its nodes;
     tn c1 w w'    : the previous cache is the same, and NewT c1 is kept;
   [run_T]: along a run whose final clock is at most c1, from a world where no regular file is
   newer than the clock and whose previous cache satisfies RS_times c1, NewT c1 is kept and the
   list of recorded suboperations keeps node_time c1 on all nodes.
   A simple METADATA read records the modification time of a file of the current world
   (m_read_meta); a hit adopts the suboperations of a record of the previous cache (lookup_rec /
   sublookup_rec) and registers nodes of it (register_op_T); a miss wraps the list the function
   accumulated.                                                                              *)
From Coq Require Import List String Ascii NArith ZArith Bool Arith Lia.
From FB.Base Require Import PyVal Fs.
From FB.Gen Require Import JsonUtilGen.
From FB.Spec Require Import JsonSpec Prog Ref Oracle Faithful.
From FB.Model Require Import Types Monad CreatedFiles BuildDirs SimpleOps Builder Persist Build Run Frame Core CoreOracle.
From FB.Proofs Require Import FsLemmas JsonLaws ReplayLaws BuildFileLaws CoreLaws1 CoreLaws2 CoreLaws3 CoreLaws4
     CoreNextRegs CoreNextState
     HashMemoInv ViewDefs ViewLemmas ViewInit ViewXDefs ViewH4 ViewH6 ViewR2 ViewR3 ViewK3 ViewK4 ViewK8
     SimA0 SimA2Base SimAMain SimB2 SimB7 SimB9 SimB12 SimC0 SimC5 SimC8 SimC12 SimC14 SimC15 SimD5 SimD6 SimD7 SimF1.
Import ListNotations.
Open Scope list_scope.
Local Open Scope m_scope.

(* ------------------------------------------------------------------ monotone in the clock *)
Lemma older_mono : forall c c' t, (c <= c')%N -> older c t = true -> older c' t = true.
Proof.
  intros c c' t Hc H. unfold older in *.
  destruct t as [ | ? | ? | ? | ? | ? | ? | l | ? ]; try exact H.
  destruct l as [|[k1 v1] l]; try exact H. destruct k1; try exact H.
  destruct l as [|[k2 v2] l]; try exact H. destruct k2; try exact H. destruct v2; try exact H.
  destruct l; try exact H.
  apply andb_true_iff in H. destruct H as [H1 H2]. rewrite H1. cbn [andb].
  apply Z.leb_le in H2. apply Z.leb_le. lia.
Qed.

Lemma node_time_mono : forall c c' x, (c <= c')%N -> node_time c x = true -> node_time c' x = true.
Proof.
  intros c c' [q r e|p cm f a k subs r cr ra sf|f a k subs r ra sf] Hc H; cbn [node_time] in *; try reflexivity.
  destruct q as [x|x|x|x|x tf|x|x cm]; try reflexivity. destruct cm; try reflexivity.
  eapply older_mono; eassumption.
Qed.

Lemma node_static_time : forall old c x, node_static old c x = true -> node_time c x = true.
Proof. intros old c x H. rewrite node_static_split in H. apply andb_true_iff in H. exact (proj1 H). Qed.

Lemma forallb_imp : forall {A} (f g : A -> bool) l, (forall x, f x = true -> g x = true) ->
  forallb f l = true -> forallb g l = true.
Proof.
  intros A f g l Hfg H. rewrite forallb_forall in H. apply forallb_forall. intros x Hx. apply Hfg, H, Hx.
Qed.

(* the class of previous caches gives the recorded times of the previous cache *)
Lemma okc_RS_times : forall c0 c1 old, (c0 <= c1)%N -> okc c0 old -> RS_times c1 old.
Proof.
  intros c0 c1 old Hc [H1 H2]. split.
  - intros p p' c' f' a' k' subs r' cr' sf' Hg. pose proof (H1 _ _ Hg) as K. cbn [frec_static orb] in K.
    apply andb_true_iff in K. destruct K as [_ K]. apply andb_true_iff in K. destruct K as [_ K].
    unfold subs_static in K.
    do 4 (apply andb_true_iff in K; destruct K as [K _]).
    apply andb_true_iff in K. destruct K as [_ K].
    eapply forallb_imp; [|exact K]. intros x Hx. eapply node_time_mono; [exact Hc|]. eapply node_static_time; exact Hx.
  - intros k f a kk subs r sf Hg. destruct (H2 _ _ Hg) as (q & _ & K). cbn [srec_static orb] in K.
    do 6 (apply andb_true_iff in K; destruct K as [K _]).
    unfold subs_static in K.
    do 4 (apply andb_true_iff in K; destruct K as [K _]).
    apply andb_true_iff in K. destruct K as [_ K].
    eapply forallb_imp; [|exact K]. intros x Hx. eapply node_time_mono; [exact Hc|]. eapply node_static_time; exact Hx.
Qed.

(* ------------------------------------------------------------------ the invariant on the new cache *)
Definition goodo (c1 : N) (o : op) : Prop := forallb (node_time c1) (nodes o) = true.
Definition goodl (c1 : N) (l : list op) : Prop := forallb (node_time c1) (flat_map nodes l) = true.

Definition NewT (c1 : N) (new : cache) : Prop :=
  (forall p o, In (p, Some o) (c_files new) -> goodo c1 o) /\
  (forall k o, In (k, Some o) (c_subs new) -> goodo c1 o).

Lemma goodl_nil : forall c1, goodl c1 [].
Proof. reflexivity. Qed.

Lemma goodl_cons : forall c1 o l, goodl c1 (o :: l) <-> goodo c1 o /\ goodl c1 l.
Proof.
  intros c1 o l. unfold goodl, goodo. cbn [flat_map]. rewrite forallb_app. apply andb_true_iff.
Qed.

Lemma goodl_app : forall c1 a b, goodl c1 (a ++ b) <-> goodl c1 a /\ goodl c1 b.
Proof.
  intros c1 a b. unfold goodl. rewrite flat_map_app, forallb_app. apply andb_true_iff.
Qed.

Lemma goodl_app_op : forall c1 l o, goodl c1 l -> (forall x, o = Some x -> goodo c1 x) -> goodl c1 (app_op l o).
Proof.
  intros c1 l [x|] Hl Ho; cbn [app_op]; [|exact Hl].
  apply goodl_app. split; [exact Hl|]. apply goodl_cons. split; [apply Ho; reflexivity|apply goodl_nil].
Qed.

Lemma goodo_bf : forall c1 p c f a k subs r cr ra sf, goodo c1 (OBuildFile p c f a k subs r cr ra sf) <-> goodl c1 subs.
Proof. intros. unfold goodo, goodl. cbn [nodes forallb node_time andb]. reflexivity. Qed.

Lemma goodo_sb : forall c1 f a k subs r ra sf, goodo c1 (OSubbuild f a k subs r ra sf) <-> goodl c1 subs.
Proof. intros. unfold goodo, goodl. cbn [nodes forallb node_time andb]. reflexivity. Qed.

Lemma files_set_In : forall l p x q v, In (q, v) (files_set l p x) -> v = x \/ In (q, v) l.
Proof.
  induction l as [|[q0 v0] l IH]; intros p x q v H; cbn [files_set] in H.
  - destruct H as [H|[]]. inversion H; subst. left; reflexivity.
  - destruct (path_eqb q0 p).
    + destruct H as [H|H]; [inversion H; subst; left; reflexivity|right; right; exact H].
    + destruct H as [H|H]; [right; left; exact H|]. destruct (IH _ _ _ _ H) as [K|K]; [left; exact K|right; right; exact K].
Qed.

Lemma subs_set_In : forall l p x q v, In (q, v) (subs_set l p x) -> v = x \/ In (q, v) l.
Proof.
  induction l as [|[q0 v0] l IH]; intros p x q v H; cbn [subs_set] in H.
  - destruct H as [H|[]]. inversion H; subst. left; reflexivity.
  - destruct (py_eq q0 p).
    + destruct H as [H|H]; [inversion H; subst; left; reflexivity|right; right; exact H].
    + destruct H as [H|H]; [right; left; exact H|]. destruct (IH _ _ _ _ H) as [K|K]; [left; exact K|right; right; exact K].
Qed.

Lemma files_del_In : forall l p q v, In (q, v) (files_del l p) -> In (q, v) l.
Proof.
  induction l as [|[q0 v0] l IH]; intros p q v H; cbn [files_del] in H; [exact H|].
  destruct (path_eqb q0 p); [right; eapply IH; exact H|].
  destruct H as [H|H]; [left; exact H|right; eapply IH; exact H].
Qed.

Lemma NewT_files_set : forall c1 c p x fl, fl = files_set (c_files c) p x ->
  (forall o, x = Some o -> goodo c1 o) -> forall sb dd bb,
  NewT c1 c -> sb = c_subs c -> NewT c1 (cache_with c fl sb dd bb).
Proof.
  intros c1 c p x fl -> Hx sb dd bb [H1 H2] ->. split; cbn [cache_with c_files c_subs].
  - intros q o Hin. destruct (files_set_In _ _ _ _ _ Hin) as [K|K]; [apply Hx; symmetry; exact K|eapply H1; exact K].
  - exact H2.
Qed.

Lemma NewT_subs_set : forall c1 c k x sb, sb = subs_set (c_subs c) k x ->
  (forall o, x = Some o -> goodo c1 o) -> forall fl dd bb,
  NewT c1 c -> fl = c_files c -> NewT c1 (cache_with c fl sb dd bb).
Proof.
  intros c1 c p x sb -> Hx fl dd bb [H1 H2] ->. split; cbn [cache_with c_files c_subs].
  - exact H1.
  - intros q o Hin. destruct (subs_set_In _ _ _ _ _ Hin) as [K|K]; [apply Hx; symmetry; exact K|eapply H2; exact K].
Qed.

(* registering an adopted record *)
Lemma register_op_T : forall c1 o c, goodo c1 o -> NewT c1 c -> NewT c1 (register_op c o).
Proof.
  intros c1. induction o as [q r e | p cm f a k subs r cr ra sf IH | f a k subs r ra sf IH] using op_ind';
    intros c Ho Hc; cbn [register_op]; [exact Hc| |].
  - pose proof (proj1 (goodo_bf _ _ _ _ _ _ _ _ _ _ _) Ho) as Hs.
    match goal with |- NewT _ (fold_left _ _ ?c0) => assert (H0 : NewT c1 c0) end.
    { destruct sf; [exact Hc|]. eapply NewT_files_set; [reflexivity| |exact Hc|reflexivity].
      intros o E. inversion E; subst o. exact Ho. }
    match goal with |- NewT _ (fold_left _ _ ?c0) => generalize dependent c0 end.
    clear Ho Hc. induction IH as [|s rest Hs' HF IHl]; intros c0 H0; cbn [fold_left]; [exact H0|].
    apply goodl_cons in Hs. destruct Hs as [G1 G2]. apply IHl; [exact G2|]. apply Hs'; assumption.
  - pose proof (proj1 (goodo_sb _ _ _ _ _ _ _ _) Ho) as Hs.
    match goal with |- NewT _ (fold_left _ _ ?c0) => assert (H0 : NewT c1 c0) end.
    { destruct sf; [exact Hc|]. eapply NewT_subs_set; [reflexivity| |exact Hc|reflexivity].
      intros o E. inversion E; subst o. exact Ho. }
    match goal with |- NewT _ (fold_left _ _ ?c0) => generalize dependent c0 end.
    clear Ho Hc. induction IH as [|s rest Hs' HF IHl]; intros c0 H0; cbn [fold_left]; [exact H0|].
    apply goodl_cons in Hs. destruct Hs as [G1 G2]. apply IHl; [exact G2|]. apply Hs'; assumption.
Qed.

(* ------------------------------------------------------------------ the relation on worlds *)
Definition tn (c1 : N) (w w' : world) : Prop :=
  w_old w' = w_old w /\ (NewT c1 (w_new w) -> NewT c1 (w_new w')).

Lemma tn_refl : forall c1 w, tn c1 w w.
Proof. intros c1 w. split; [reflexivity|auto]. Qed.
Lemma tn_trans : forall c1 a b c, tn c1 a b -> tn c1 b c -> tn c1 a c.
Proof. intros c1 a b c [A1 A2] [B1 B2]. split; [congruence|auto]. Qed.
Definition tnPO (c1 : N) : PO := {| rel := tn c1; po_refl := tn_refl c1; po_trans := tn_trans c1 |}.

Lemma new_tn : forall c1 w w', newPO w w' -> tnPO c1 w w'.
Proof. cbn. unfold new_same, tn. intros c1 w w' (A1 & A2 & _). rewrite A1. split; [exact A2|auto]. Qed.

Lemma svb_tn : forall c1 w w', svbPO w w' -> tnPO c1 w w'.
Proof. intros c1 w w' H. apply new_tn, svb_new, H. Qed.

#[local] Hint Extern 8 (pres (tnPO _) _) => apply (pres_weaken newPO (tnPO _) _ _ (new_tn _)) : pres.
#[local] Hint Extern 8 (pres newPO _) => apply (pres_weaken svbPO newPO _ _ svb_new) : pres.
#[local] Hint Resolve m_handle_dir_exists_svb m_is_removed_svb is_file_no_read_svb is_cache_file_svb
  file_metadata_svb file_hash_svb list_dir_superset_svb file_comparison_result_svb
  m_is_file_svb m_is_dir_svb m_exists_svb noneable_cmp_svb version_equal_svb
  is_build_file_cached_svb dirs_to_make_svb build_file_cache_lookup_svb subbuild_cache_lookup_svb
  m_bd_started_svb m_bd_error_svb new_assert_no_file_svb new_assert_no_subbuild_svb : pres.
#[local] Hint Resolve effect_new effect_p_new back_up_and_remove_new try_to_remove_file_new remove_empty_dirs_new
  make_one_dir_new make_dirs_loop_new make_dirs_new make_room_new prepare_file_creation_new
  apply_cached_subs_of_new : pres.

Section Steps.
  Variable c1 : N.

  Lemma new_start_building_file_tn : forall p, pres (tnPO c1) (new_start_building_file p).
  Proof.
    intro p. unfold new_start_building_file. pres_auto. apply pres_modify. intro w. split; [reflexivity|].
    cbn [w_new set_new]. intro H. eapply NewT_files_set; [reflexivity| |exact H|reflexivity]. intros o E; discriminate.
  Qed.

  Lemma new_abort_building_file_tn : forall p, pres (tnPO c1) (new_abort_building_file p).
  Proof.
    intro p. unfold new_abort_building_file. apply pres_modify. intro w. split; [reflexivity|].
    cbn [w_new set_new]. intros [H1 H2]. split; cbn [cache_with c_files c_subs]; [|exact H2].
    intros q o Hin. eapply H1. eapply files_del_In. exact Hin.
  Qed.

  Lemma new_finish_building_file_tn : forall p o, goodo c1 o -> pres (tnPO c1) (new_finish_building_file p o).
  Proof.
    intros p o Ho. unfold new_finish_building_file. apply pres_modify. intro w. split; [reflexivity|].
    cbn [w_new set_new]. intro H. eapply NewT_files_set; [reflexivity| |exact H|reflexivity].
    intros o' E; inversion E; subst o'; exact Ho.
  Qed.

  Lemma new_start_subbuild_tn : forall k, pres (tnPO c1) (new_start_subbuild k).
  Proof.
    intro k. unfold new_start_subbuild. pres_auto. apply pres_modify. intro w. split; [reflexivity|].
    cbn [w_new set_new]. intro H. eapply NewT_subs_set; [reflexivity| |exact H|reflexivity]. intros o E; discriminate.
  Qed.

  Lemma new_finish_subbuild_tn : forall k o, goodo c1 o -> pres (tnPO c1) (new_finish_subbuild k o).
  Proof.
    intros k o Ho. unfold new_finish_subbuild. apply pres_modify. intro w. split; [reflexivity|].
    cbn [w_new set_new]. intro H. eapply NewT_subs_set; [reflexivity| |exact H|reflexivity].
    intros o' E; inversion E; subst o'; exact Ho.
  Qed.

  Lemma new_use_cached_operation_tn : forall o, goodo c1 o -> pres (tnPO c1) (new_use_cached_operation o).
  Proof.
    intros o Ho w w' r H. unfold new_use_cached_operation in H. minv H.
    - unfold put in H. inversion H; subst. split; [reflexivity|]. cbn [w_new set_new]. intro K. apply register_op_T; assumption.
    - apply tn_refl.
  Qed.
  #[local] Hint Resolve new_start_building_file_tn new_abort_building_file_tn new_start_subbuild_tn : pres.

  Lemma bf_claim_tn : forall p, pres (tnPO c1) (bf_claim p).
  Proof. intro p. unfold bf_claim. pres_auto. Qed.

  (* ---- triples: precondition on the previous cache, footprint tn, postcondition on the value *)
  Definition HT {A} (m : M A) (Q : A -> Prop) : Prop :=
    forall w w' r, RS_times c1 (w_old w) -> m w = (w', r) -> tn c1 w w' /\ (forall a, r = inl a -> Q a).

  Lemma HT_pres : forall A (m : M A), pres (tnPO c1) m -> HT m (fun _ => True).
  Proof. intros A m Hm w w' r _ H. split; [exact (Hm _ _ _ H)|auto]. Qed.

  Lemma HT_ret : forall A (a : A) (Q : A -> Prop), Q a -> HT (ret a) Q.
  Proof. intros A a Q Ha w w' r _ H. inversion H; subst. split; [apply tn_refl|]. intros a' E; inversion E; subst; exact Ha. Qed.

  Lemma HT_raise : forall A e (Q : A -> Prop), HT (@raise A e) Q.
  Proof. intros A e Q w w' r _ H. inversion H; subst. split; [apply tn_refl|]. intros a' E; discriminate. Qed.

  Lemma HT_bind : forall A B (m : M A) (f : A -> M B) (Q1 : A -> Prop) (Q2 : B -> Prop),
    HT m Q1 -> (forall a, Q1 a -> HT (f a) Q2) -> HT (bind m f) Q2.
  Proof.
    intros A B m f Q1 Q2 Hm Hf w w' r Hold H. apply bind_inv in H.
    destruct H as [(wa & a & E & H)|(e & E & ->)].
    - destruct (Hm _ _ _ Hold E) as [T1 P1].
      assert (Hold' : RS_times c1 (w_old wa)) by (rewrite (proj1 T1); exact Hold).
      destruct (Hf a (P1 a eq_refl) _ _ _ Hold' H) as [T2 P2]. split; [eapply tn_trans; eassumption|exact P2].
    - destruct (Hm _ _ _ Hold E) as [T1 _]. split; [exact T1|intros a X; discriminate].
  Qed.

  Lemma HT_catch : forall A (m : M A) (h : exn -> M A) (Q : A -> Prop),
    HT m Q -> (forall e, HT (h e) Q) -> HT (catch m h) Q.
  Proof.
    intros A m h Q Hm Hh w w' r Hold H. apply catch_inv in H.
    destruct H as [(a & E & ->)|(wa & e & E & H)].
    - exact (Hm _ _ _ Hold E).
    - destruct (Hm _ _ _ Hold E) as [T1 _].
      assert (Hold' : RS_times c1 (w_old wa)) by (rewrite (proj1 T1); exact Hold).
      destruct (Hh e _ _ _ Hold' H) as [T2 P2]. split; [eapply tn_trans; eassumption|exact P2].
  Qed.

  Lemma HT_attempt : forall A (m : M A) (Q : A -> Prop), HT m Q ->
    HT (attempt m) (fun x => match x with inl a => Q a | inr _ => True end).
  Proof.
    intros A m Q Hm w w' r Hold H. apply attempt_inv in H. destruct H as (x & E & ->).
    destruct (Hm _ _ _ Hold E) as [T1 P1]. split; [exact T1|]. intros a X. inversion X; subst a.
    destruct x as [a|e]; [apply P1; reflexivity|exact I].
  Qed.

  Definition Qres (r : option (op + exn * op)) : Prop :=
    forall x, r = Some x -> goodo c1 (match x with inl o => o | inr (_, o) => o end).

  Definition Qco (cached : option op) : Prop := forall co, cached = Some co -> goodl c1 (op_subs co).

  Lemma lookup_HT : forall p f sa skw, HT (build_file_cache_lookup p f sa skw) Qco.
  Proof.
    intros p f sa skw w w' r Hold H. split; [exact (svb_tn c1 _ _ (build_file_cache_lookup_svb _ _ _ _ _ _ _ H))|].
    intros cached -> co ->.
    pose proof (lookup_rec _ _ _ _ _ _ _ H) as Hg.
    destruct (lookup_some_shape _ _ _ _ _ _ _ H) as (p' & c' & f' & a' & k' & subs' & r' & cr' & sf' & ->).
    cbn [op_subs]. exact (proj1 Hold _ _ _ _ _ _ _ _ _ _ Hg).
  Qed.

  Lemma sublookup_HT : forall key f, HT (subbuild_cache_lookup key f) Qco.
  Proof.
    intros key f w w' r Hold H. split; [exact (svb_tn c1 _ _ (subbuild_cache_lookup_svb _ _ _ _ _ H))|].
    intros cached -> co ->.
    pose proof (sublookup_rec _ _ _ _ _ H) as Hg.
    destruct (sublookup_some_shape _ _ _ _ _ H) as (f' & a' & k' & subs' & r' & sf' & ->).
    cbn [op_subs]. exact (proj2 Hold _ _ _ _ _ _ _ Hg).
  Qed.

  Lemma bf_reuse_HT : forall p c f sa skw cached, Qco cached -> HT (bf_reuse p c f sa skw cached) Qres.
  Proof.
    intros p c f sa skw [co|] Hco; unfold bf_reuse.
    2:{ apply HT_ret. intros x E; discriminate. }
    pose proof (Hco co eq_refl) as Hs.
    eapply HT_bind; [apply HT_pres; pres_auto|]. intros cmp _.
    assert (G : HT (apply_cached_subs_of co ;;;
                    r <- attempt (new_use_cached_operation (OBuildFile p c f sa skw (op_subs co) (op_ret co) cmp false false)) ;;
                    match r with
                    | inl _ => ret (Some (inl (OBuildFile p c f sa skw (op_subs co) (op_ret co) cmp false false)))
                    | inr e => ret (Some (inr (e, OBuildFile p c f sa skw (op_subs co) (op_ret co) cmp true true)))
                    end) Qres).
    { eapply HT_bind; [apply HT_pres; pres_auto|]. intros _ _.
      eapply HT_bind; [apply HT_pres; apply pres_attempt; apply new_use_cached_operation_tn; apply goodo_bf; exact Hs|].
      intros [u|e] _; apply HT_ret; intros x E; inversion E; subst x; apply goodo_bf; exact Hs. }
    destruct cmp; try exact G. apply HT_ret. intros x E; discriminate.
  Qed.

  Lemma bf_setup_HT : forall p c f sa skw, HT (bf_setup p c f sa skw) Qres.
  Proof.
    intros p c f sa skw. unfold bf_setup.
    eapply HT_bind; [apply HT_pres; pres_auto|]. intros _ _.
    eapply HT_bind; [apply HT_pres; pres_auto|]. intros icf _.
    eapply HT_bind; [apply HT_pres; pres_auto|]. intros _ _.
    eapply HT_bind; [apply HT_pres; pres_auto|]. intros created _.
    eapply HT_bind; [apply HT_pres; pres_auto|]. intros locked _.
    apply HT_catch.
    2:{ intro e. eapply HT_bind; [apply HT_pres; pres_auto|]. intros _ _. apply HT_raise. }
    eapply HT_bind; [apply lookup_HT|]. intros cached Hco.
    eapply HT_bind; [apply bf_reuse_HT; exact Hco|]. intros reused Hre.
    destruct reused as [[o|eo]|].
    - apply HT_ret. exact Hre.
    - eapply HT_bind; [apply HT_pres; pres_auto|]. intros _ _. apply HT_ret. exact Hre.
    - unfold bf_claim.
      eapply HT_bind; [apply HT_pres; pres_auto|]. intros _ _.
      eapply HT_bind; [apply HT_pres; pres_auto|]. intros _ _.
      apply HT_ret. intros x E; discriminate.
  Qed.

  Lemma sb_setup_HT : forall f sa skw, HT (sb_setup f sa skw) Qres.
  Proof.
    intros f sa skw. unfold sb_setup. cbv zeta.
    eapply HT_bind; [apply HT_pres; pres_auto|]. intros _ _.
    eapply HT_bind; [apply sublookup_HT|]. intros [co|] Hco.
    - pose proof (Hco co eq_refl) as Hs.
      eapply HT_bind; [apply HT_pres; pres_auto|]. intros _ _.
      eapply HT_bind; [apply HT_pres; apply pres_attempt; apply new_use_cached_operation_tn; apply goodo_sb; exact Hs|].
      intros [u|e] _; apply HT_ret; intros x E; inversion E; subst x; apply goodo_sb; exact Hs.
    - eapply HT_bind; [apply HT_pres; pres_auto|]. intros _ _.
      apply HT_ret. intros x E; discriminate.
  Qed.

  (* ---- after the function returned *)
  Lemma bf_fail_T : forall p c f sa skw subs e w w' r oo, goodl c1 subs ->
    bf_fail p c f sa skw subs e w = (w', (r, oo)) -> tn c1 w w' /\ (forall o, oo = Some o -> goodo c1 o).
  Proof.
    intros p c f sa skw subs e w w' r oo Hs H. unfold bf_fail in H. cbv zeta in H.
    match type of H with (match ?X with _ => _ end) = _ => destruct X as [w1 [u|e1]] eqn:E end;
      inversion H; subst.
    all: split; [|intros o X; inversion X; subst o; apply goodo_bf; exact Hs].
    all: refine ((_ : pres (tnPO c1) _) _ _ _ E); pres_auto.
    all: apply new_finish_building_file_tn; apply goodo_bf; exact Hs.
  Qed.

  Lemma bf_finish_T : forall p c f sa skw res subs w w' r oo, goodl c1 subs ->
    bf_finish p c f sa skw res subs w = (w', (r, oo)) -> tn c1 w w' /\ (forall o, oo = Some o -> goodo c1 o).
  Proof.
    intros p c f sa skw res subs w w' r oo Hs H. unfold bf_finish in H.
    assert (F : forall e w0, bf_fail p c f sa skw subs e w0 = (w', (r, oo)) -> tn c1 w0 w' /\ (forall o, oo = Some o -> goodo c1 o)).
    { intros e w0 H0. eapply bf_fail_T; eassumption. }
    destruct res as [v|e]; [|eapply F; eassumption].
    destruct (sanitize v) as [sv|]; [|eapply F; eassumption].
    destruct (noneable_cmp p c w) as [w4 [cmp|e]] eqn:E;
      assert (Q : tn c1 w w4) by exact (svb_tn c1 _ _ (noneable_cmp_svb p c w w4 _ E)).
    - assert (F' : forall e, bf_fail p c f sa skw subs e w4 = (w', (r, oo)) -> tn c1 w w' /\ (forall o, oo = Some o -> goodo c1 o)).
      { intros e H0. destruct (F _ _ H0) as [T1 P1]. split; [eapply tn_trans; eassumption|exact P1]. }
      destruct cmp; try (eapply F'; eassumption).
      all: cbv zeta in H; unfold new_finish_building_file, modify in H; inversion H; subst.
      all: split; [|intros o X; inversion X; subst o; apply goodo_bf; exact Hs].
      all: eapply tn_trans; [exact Q|].
      all: refine (new_finish_building_file_tn p _ _ w4 _ (inl tt) eq_refl); apply goodo_bf; exact Hs.
    - destruct (F _ _ H) as [T1 P1]. split; [eapply tn_trans; eassumption|exact P1].
  Qed.

  Lemma sb_finish_T : forall f sa skw res subs w w' r oo, goodl c1 subs ->
    sb_finish f sa skw res subs w = (w', (r, oo)) -> tn c1 w w' /\ (forall o, oo = Some o -> goodo c1 o).
  Proof.
    intros f sa skw res subs w w' r oo Hs H. unfold sb_finish in H. cbv zeta in H.
    unfold new_finish_subbuild, modify in H.
    destruct res as [v|e]; [destruct (sanitize v)|]; inversion H; subst.
    all: split; [|intros o X; inversion X; subst o; apply goodo_sb; exact Hs].
    all: refine (new_finish_subbuild_tn _ _ _ w _ (inl tt) eq_refl); apply goodo_sb; exact Hs.
  Qed.
End Steps.

(* ------------------------------------------------------------------ a simple METADATA read *)
Lemma svb_fs : forall w w', same_but_view w w' -> w_fs w' = w_fs w.
Proof. intros w w' H. exact (proj1 H). Qed.

Lemma m_read_meta : forall p w w1 v, m_read p METADATA None w = (w1, inl v) ->
  exists f, lookup (w_fs w) p = Some (NFile f) /\
            v = PDict [(PStr "size", PInt (Z.of_nat (String.length (f_bytes f)))); (PStr "timeNs", PInt (Z.of_N (f_mtime f)))].
Proof.
  intros p w w1 v H. unfold m_read in H.
  apply bind_inv in H. destruct H as [(wa & nr & E1 & H)|(e & _ & H)]; [|discriminate].
  pose proof (svb_fs _ _ (is_file_no_read_svb _ _ _ _ _ E1)) as F1.
  apply bind_inv in H. destruct H as [(wb & u & E2 & H)|(e & _ & H)]; [|discriminate].
  assert (F2 : w_fs wb = w_fs wa).
  { destruct nr as [[|]|]; try (inversion E2; subst; reflexivity).
    apply bind_inv in E2. destruct E2 as [(wc & d & _ & E2)|(e & _ & E2)]; [destruct d|]; discriminate. }
  apply bind_inv in H. destruct H as [(wc & result & E3 & H)|(e & _ & H)]; [|discriminate].
  apply bind_inv in H. destruct H as [(wd & u' & _ & H)|(e & _ & H)]; [|discriminate].
  inversion H; subst wd v. clear H.
  apply catch_inv in E3. cbn [file_comparison_result] in E3. unfold file_metadata in E3.
  destruct E3 as [(a & E3 & X)|(wx & e & E3 & X)].
  - inversion X; subst a. clear X.
    destruct (lookup (w_fs wb) p) as [[f|]|] eqn:L; try discriminate.
    inversion E3; subst. exists f. split; [rewrite <- F1, <- F2; exact L|reflexivity].
  - exfalso.
    destruct (is_os_class XFileNotFound e || is_os_class XNotADirectory e); [discriminate|].
    destruct (is_os_class XIsADirectory e); [|discriminate].
    apply bind_inv in X. destruct X as [(wy & d & _ & X)|(e' & _ & X)]; [destruct d|]; discriminate.
Qed.

Lemma m_query_T : forall c1 q w w1 r o, m_query q w = (w1, (r, o)) ->
  files_old (w_fs w) (w_clock w) -> (w_clock w <= c1)%N -> forall x, o = Some x -> goodo c1 x.
Proof.
  intros c1 q w w1 r o H Hold Hc x ->. unfold m_query in H.
  destruct (exec_query q None w) as [w2 [v|e]] eqn:E.
  - inversion H; subst. unfold goodo. cbn [nodes forallb]. rewrite andb_true_r.
    destruct q as [y|y|y|y|y tf|y|y cm]; try reflexivity. destruct cm; try reflexivity.
    cbn [exec_query] in E. destruct (m_read_meta _ _ _ _ E) as (f & L & ->).
    cbn [node_time]. unfold older. cbn. apply Z.leb_le. pose proof (Hold _ _ L). lia.
  - assert (G : forall ec, goodo c1 (OSimple q PNone ec)).
    { intro ec. unfold goodo. cbn [nodes forallb]. rewrite andb_true_r.
      destruct q as [y|y|y|y|y tf|y|y cm]; try reflexivity. destruct cm; reflexivity. }
    destruct e; inversion H; subst; apply G.
Qed.

(* ------------------------------------------------------------------ nodes and programs *)
Definition bodyT (c1 : N) (b : body) : Prop :=
  forall w w' r l, b w = (w', (r, l)) -> (w_clock w' <= c1)%N -> files_old (w_fs w) (w_clock w) ->
    RS_times c1 (w_old w) -> tn c1 w w' /\ goodl c1 l.

Lemma tn_set_log : forall c1 l w, tn c1 w (set_log l w).
Proof. intros c1 l w. split; [reflexivity|auto]. Qed.

Lemma m_build_file_T : forall c1 p c f a kw (fn : path -> pyval -> pyval -> body),
  (forall sa skw, bodyT c1 (fn p sa skw)) -> (forall sa skw, pres tuPO (fn p sa skw)) ->
  forall w w' r oo, m_build_file p c f a kw fn w = (w', (r, oo)) ->
  (w_clock w' <= c1)%N -> files_old (w_fs w) (w_clock w) -> RS_times c1 (w_old w) ->
  tn c1 w w' /\ (forall o, oo = Some o -> goodo c1 o).
Proof.
  intros c1 p c f a kw fn Hfn Htu w w' r oo H Hc Hfo Hold. rewrite m_build_file_unfold in H.
  destruct (sanitize a) as [sa|]; [|inversion H; subst; split; [apply tn_refl|intros o X; discriminate]].
  destruct (sanitize kw) as [skw|]; [|inversion H; subst; split; [apply tn_refl|intros o X; discriminate]].
  destruct (bf_setup p c f sa skw w) as [w1 res] eqn:Es.
  destruct (bf_setup_HT c1 p c f sa skw w w1 res Hold Es) as [T1 P1].
  pose proof (bf_setup_tu p c f sa skw w w1 _ Es) as U1.
  destruct res as [[[o|[e o]]|]|e].
  - inversion H; subst. split; [exact T1|]. intros o' X; inversion X; subst o'. exact (P1 _ eq_refl _ eq_refl).
  - inversion H; subst. split; [exact T1|]. intros o' X; inversion X; subst o'. exact (P1 _ eq_refl _ eq_refl).
  - unfold bf_rebuild in H. destruct (fn p sa skw (bf_invoke_world p f sa skw w1)) as [w3 [res subs]] eqn:Ef.
    pose proof (Htu sa skw _ _ _ Ef) as U2. pose proof (bf_finish_tu p c f sa skw res subs w3 w' _ H) as U3.
    assert (Hc3 : (w_clock w3 <= c1)%N) by (eapply N.le_trans; [exact (proj1 U3)|exact Hc]).
    assert (Hfo1 : files_old (w_fs (bf_invoke_world p f sa skw w1)) (w_clock (bf_invoke_world p f sa skw w1))).
    { unfold bf_invoke_world. cbn [w_fs w_clock set_log]. exact (tu_files_old _ _ U1 Hfo). }
    assert (Hold1 : RS_times c1 (w_old (bf_invoke_world p f sa skw w1))).
    { unfold bf_invoke_world. cbn [w_old set_log]. rewrite (proj1 T1). exact Hold. }
    destruct (Hfn sa skw _ _ _ _ Ef Hc3 Hfo1 Hold1) as [T2 G2].
    destruct (bf_finish_T c1 p c f sa skw res subs w3 w' r oo G2 H) as [T3 P3].
    split; [|exact P3]. eapply tn_trans; [exact T1|]. eapply tn_trans; [apply (tn_set_log c1 (LInvoke f (Some p) sa skw :: w_log w1) w1)|].
    eapply tn_trans; [exact T2|exact T3].
  - inversion H; subst. split; [exact T1|]. intros o' X; inversion X; subst o'. apply goodo_bf. apply goodl_nil.
Qed.

Lemma m_subbuild_T : forall c1 f a kw (fn : pyval -> pyval -> body),
  (forall sa skw, bodyT c1 (fn sa skw)) -> (forall sa skw, pres tuPO (fn sa skw)) ->
  forall w w' r oo, m_subbuild f a kw fn w = (w', (r, oo)) ->
  (w_clock w' <= c1)%N -> files_old (w_fs w) (w_clock w) -> RS_times c1 (w_old w) ->
  tn c1 w w' /\ (forall o, oo = Some o -> goodo c1 o).
Proof.
  intros c1 f a kw fn Hfn Htu w w' r oo H Hc Hfo Hold. rewrite m_subbuild_unfold in H.
  destruct (sanitize a) as [sa|]; [|inversion H; subst; split; [apply tn_refl|intros o X; discriminate]].
  destruct (sanitize kw) as [skw|]; [|inversion H; subst; split; [apply tn_refl|intros o X; discriminate]].
  destruct (sb_setup f sa skw w) as [w1 res] eqn:Es.
  destruct (sb_setup_HT c1 f sa skw w w1 res Hold Es) as [T1 P1].
  pose proof (sb_setup_tu f sa skw w w1 _ Es) as U1.
  destruct res as [[[o|[e o]]|]|e].
  - inversion H; subst. split; [exact T1|]. intros o' X; inversion X; subst o'. exact (P1 _ eq_refl _ eq_refl).
  - inversion H; subst. split; [exact T1|]. intros o' X; inversion X; subst o'. exact (P1 _ eq_refl _ eq_refl).
  - unfold sb_rebuild in H. destruct (fn sa skw (sb_invoke_world f sa skw w1)) as [w3 [res subs]] eqn:Ef.
    pose proof (Htu sa skw _ _ _ Ef) as U2. pose proof (sb_finish_tu f sa skw res subs w3 w' _ H) as U3.
    assert (Hc3 : (w_clock w3 <= c1)%N) by (eapply N.le_trans; [exact (proj1 U3)|exact Hc]).
    assert (Hfo1 : files_old (w_fs (sb_invoke_world f sa skw w1)) (w_clock (sb_invoke_world f sa skw w1))).
    { unfold sb_invoke_world. cbn [w_fs w_clock set_log]. exact (tu_files_old _ _ U1 Hfo). }
    assert (Hold1 : RS_times c1 (w_old (sb_invoke_world f sa skw w1))).
    { unfold sb_invoke_world. cbn [w_old set_log]. rewrite (proj1 T1). exact Hold. }
    destruct (Hfn sa skw _ _ _ _ Ef Hc3 Hfo1 Hold1) as [T2 G2].
    destruct (sb_finish_T c1 f sa skw res subs w3 w' r oo G2 H) as [T3 P3].
    split; [|exact P3]. eapply tn_trans; [exact T1|]. eapply tn_trans; [apply (tn_set_log c1 (LInvoke f None sa skw :: w_log w1) w1)|].
    eapply tn_trans; [exact T2|exact T3].
  - inversion H; subst. split; [exact T1|]. intros o' X; inversion X; subst o'. apply goodo_sb. apply goodl_nil.
Qed.

Lemma log_answer_fields : forall q r w,
  w_fs (log_answer q r w) = w_fs w /\ w_clock (log_answer q r w) = w_clock w /\
  w_old (log_answer q r w) = w_old w /\ w_new (log_answer q r w) = w_new w.
Proof.
  intros q r w. unfold log_answer.
  repeat match goal with |- context [match ?y with _ => _ end] => destruct y end; repeat split; reflexivity.
Qed.

Theorem run_T : forall c1 pr target subs w w' r l, run pr target subs w = (w', (r, l)) ->
  (w_clock w' <= c1)%N -> files_old (w_fs w) (w_clock w) -> RS_times c1 (w_old w) -> goodl c1 subs ->
  tn c1 w w' /\ goodl c1 l.
Proof.
  intros c1.
  induction pr as [v | e | stale q k IH | c k IH | stale p c f a kw fn IHfn k IHk | stale f a kw fn IHfn k IHk];
    intros target subs w w' r l H Hc Hfo Hold Hs; cbn [run] in H.
  - inversion H; subst. split; [apply tn_refl|exact Hs].
  - inversion H; subst. split; [apply tn_refl|exact Hs].
  - destruct stale; [eapply IH; eassumption|].
    destruct (m_query q w) as [w1 [r1 o]] eqn:E.
    pose proof (m_query_svb _ _ _ _ E) as S1.
    destruct (log_answer_fields q (user_answer q r1 w1) w1) as (L1 & L2 & L3 & L4).
    pose proof (run_tu _ _ _ _ _ _ H) as U. destruct S1 as (A1 & A2 & A3 & A4 & A5 & _).
    assert (Hcw : (w_clock w <= c1)%N).
    { eapply N.le_trans; [|exact Hc]. rewrite <- A2, <- L2. exact (proj1 U). }
    destruct (IH _ _ _ _ _ _ _ H Hc) as [T G].
    + rewrite L1, L2, A1, A2. exact Hfo.
    + rewrite L3, A4. exact Hold.
    + apply goodl_app_op; [exact Hs|]. exact (m_query_T c1 q w w1 r1 o E Hfo Hcw).
    + split; [|exact G]. destruct T as [T1 T2]. split; [rewrite T1, L3, A4; reflexivity|].
      intro K. apply T2. rewrite L4, A5. exact K.
  - destruct target as [t|]; [|eapply IH; eassumption].
    destruct (write_file (w_fs w) t c None (N.succ (w_clock w)) (w_nextid w)) as [fs'|e] eqn:E;
      [|inversion H; subst; split; [apply tn_refl|exact Hs]].
    assert (U : tu w (set_clock (N.succ (w_clock w)) (N.succ (w_nextid w)) (set_fs fs' w))).
    { pose proof (run_tu (Write c (Ret PNone)) (Some t) subs w) as X. cbn [run] in X. rewrite E in X.
      exact (X _ _ eq_refl). }
    destruct (IH _ _ _ _ _ _ H Hc (tu_files_old _ _ U Hfo) Hold Hs) as [T G].
    split; [|exact G]. destruct T as [T1 T2]. split; [exact T1|exact T2].
  - destruct stale; [eapply IHk; eassumption|].
    match type of H with (let '(_, _) := ?X in _) = _ => destruct X as [w1 [r1 o]] eqn:E end.
    pose proof (run_tu _ _ _ _ _ _ H) as U2.
    assert (Hc1 : (w_clock w1 <= c1)%N) by (eapply N.le_trans; [exact (proj1 U2)|exact Hc]).
    assert (U1 : tu w w1).
    { refine (m_build_file_tu p c f a kw _ _ w w1 _ E). intros sa skw. apply run_tu. }
    destruct (m_build_file_T c1 p c f a kw (fun p' sa skw w' => run (fn p' sa skw) (Some p') [] w')) with (w := w) (w' := w1) (r := r1) (oo := o)
      as [T1 P1]; try assumption.
    { intros sa skw w0 w0' r0 l0 H0 Hc0 Hfo0 Hold0. eapply IHfn; try eassumption. apply goodl_nil. }
    { intros sa skw. apply run_tu. }
    destruct (IHk _ _ _ _ _ _ _ H Hc) as [T G].
    + exact (tu_files_old _ _ U1 Hfo).
    + rewrite (proj1 T1). exact Hold.
    + apply goodl_app_op; [exact Hs|exact P1].
    + split; [eapply tn_trans; eassumption|exact G].
  - destruct stale; [eapply IHk; eassumption|].
    match type of H with (let '(_, _) := ?X in _) = _ => destruct X as [w1 [r1 o]] eqn:E end.
    pose proof (run_tu _ _ _ _ _ _ H) as U2.
    assert (Hc1 : (w_clock w1 <= c1)%N) by (eapply N.le_trans; [exact (proj1 U2)|exact Hc]).
    assert (U1 : tu w w1).
    { refine (m_subbuild_tu f a kw _ _ w w1 _ E). intros sa skw. apply run_tu. }
    destruct (m_subbuild_T c1 f a kw (fun sa skw w' => run (fn sa skw) None [] w')) with (w := w) (w' := w1) (r := r1) (oo := o)
      as [T1 P1]; try assumption.
    { intros sa skw w0 w0' r0 l0 H0 Hc0 Hfo0 Hold0. eapply IHfn; try eassumption. apply goodl_nil. }
    { intros sa skw. apply run_tu. }
    destruct (IHk _ _ _ _ _ _ _ H Hc) as [T G].
    + exact (tu_files_old _ _ U1 Hfo).
    + rewrite (proj1 T1). exact Hold.
    + apply goodl_app_op; [exact Hs|exact P1].
    + split; [eapply tn_trans; eassumption|exact G].
Qed.

Print Assumptions run_T.

(* ------------------------------------------------------------------ the new cache of a build *)
Lemma NewT_RS_times : forall c1 new, NewT c1 new -> RS_times c1 new.
Proof.
  intros c1 new [H1 H2]. split.
  - intros p p' c' f' a' k' subs r' cr' sf' Hg. unfold cache_get_file in Hg.
    destruct (files_get (c_files new) p) as [[o|]|] eqn:E; try discriminate. inversion Hg; subst o.
    apply files_get_in in E. exact (proj1 (goodo_bf _ _ _ _ _ _ _ _ _ _ _) (H1 _ _ E)).
  - intros k f a kk subs r sf Hg. destruct (subs_get_in _ _ _ Hg) as (q & Hin & _).
    exact (proj1 (goodo_sb _ _ _ _ _ _ _ _) (H2 _ _ Hin)).
Qed.

(* what is used: the recorded times of the previous cache, no file newer than the clock, the two
   runs.  No condition on the program, none on the outcome of the root function. *)
Theorem new_cache_times_gen : forall w cachefile old nm svers root w1 w2 ccd r l c0 c1,
  RS_times c0 old -> (c0 <= c1)%N ->
  make_dirs (dirname cachefile) (Build.start_world w cachefile old nm svers) = (w1, ccd) ->
  run root None [] (set_log (LInvoke "<root>"%string None PNone PNone :: w_log w1) w1) = (w2, (r, l)) ->
  (forall p f, lookup (w_fs w) p = Some (NFile f) -> (f_mtime f <= w_clock w)%N) ->
  (w_clock w2 <= c1)%N ->
  RS_times c1 (w_new w2) /\ forallb (node_time c1) (flat_map nodes l) = true.
Proof.
  intros w cachefile old nm svers root w1 w2 ccd r l c0 c1 [O1 O2] Hc01 Emk Erun Hfo Hc.
  pose proof (make_dirs_tu _ _ _ _ Emk) as U1.
  pose proof (make_dirs_new _ _ _ _ Emk) as (N1 & N2 & _).
  assert (Hold : RS_times c1 old).
  { split.
    - intros p p' c' f' a' k' subs r' cr' sf' Hg. eapply forallb_imp; [|exact (O1 _ _ _ _ _ _ _ _ _ _ Hg)].
      intros x Hx. eapply node_time_mono; [exact Hc01|exact Hx].
    - intros k f a kk subs r0 sf Hg. eapply forallb_imp; [|exact (O2 _ _ _ _ _ _ _ Hg)].
      intros x Hx. eapply node_time_mono; [exact Hc01|exact Hx]. }
  destruct (run_T c1 root None [] _ w2 r l Erun Hc) as [[_ T] G].
  - cbn [w_fs w_clock set_log]. refine (tu_files_old _ _ U1 _). exact Hfo.
  - cbn [w_old set_log]. rewrite N2. exact Hold.
  - apply goodl_nil.
  - split; [|exact G]. apply NewT_RS_times. apply T. cbn [w_new set_log]. rewrite N1. cbn [Build.start_world w_new].
    split; intros k o [].
Qed.

Theorem new_cache_times : forall w cachefile old nm svers root w1 w2 v l c1,
  okc (w_clock w) old -> fs_wf (w_fs w) -> old_ok old cachefile -> WfCache old -> old_keys_ok old -> w_faults w = [] ->
  path_ok (dirname cachefile) = true -> isdir (w_fs w) cachefile = false -> maxlen (w_fs w) < walk_fuel ->
  vdir (Build.start_world w cachefile old nm svers) (dirname cachefile) = true ->
  AllTargets tgtP root -> NoNest [] root -> QueriesOk root -> WfArgs root -> CmpMeta root ->
  TargetsClear old root -> TargetsApart old root -> RkNew old [] root ->
  NoCatch root ->
  make_dirs (dirname cachefile) (Build.start_world w cachefile old nm svers) = (w1, inl []) ->
  run root None [] (set_log (LInvoke "<root>"%string None PNone PNone :: w_log w1) w1) = (w2, (inl v, l)) ->
  (forall p f, lookup (w_fs w) p = Some (NFile f) -> (f_mtime f <= w_clock w)%N) ->
  (w_clock w2 <= c1)%N ->
  RS_times c1 (w_new w2).
Proof.
  intros w cachefile old nm svers root w1 w2 v l c1 Hokc _ _ _ _ _ _ _ _ _ _ _ _ _ _ _ _ _ _ Emk Erun Hfo Hc.
  assert (Hc01 : (w_clock w <= c1)%N).
  { eapply N.le_trans; [|exact Hc]. pose proof (make_dirs_tu _ _ _ _ Emk) as [U1 _].
    pose proof (run_tu _ _ _ _ _ _ Erun) as [U2 _]. cbn [w_clock set_log Build.start_world] in U1, U2.
    eapply N.le_trans; eassumption. }
  exact (proj1 (new_cache_times_gen w cachefile old nm svers root w1 w2 _ _ l (w_clock w) c1
                 (okc_RS_times _ _ old (N.le_refl _) Hokc) Hc01 Emk Erun Hfo Hc)).
Qed.

Print Assumptions new_cache_times_gen.
Print Assumptions new_cache_times.
