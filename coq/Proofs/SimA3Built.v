(* Proofs/SimA3Built.v — (1) of SimA3.v: c_built of the new cache (the targets passed to
   start_building_file) along the routines of build_file / subbuild.  Only the claim appends
   the target; every other routine keeps the list.
   The analogue of the [quiet] footprint of BuildFileLaws.v with the relation [built_same]. *)
From Coq Require Import List String Ascii NArith ZArith Bool Arith Lia.
From FB.Base Require Import PyVal Fs.
From FB.Gen Require Import JsonUtilGen.
From FB.Spec Require Import JsonSpec Prog.
From FB.Model Require Import Types Monad CreatedFiles BuildDirs SimpleOps Builder.
From FB.Proofs Require Import FsLemmas JsonLaws CmpLaws ReplayLaws BuildFileLaws SimA0 SimA2 SimA3.
Import ListNotations.
Local Open Scope list_scope.
Local Open Scope m_scope.

Lemma built_refl : forall w, built_same w w.
Proof. intro w. reflexivity. Qed.
Lemma built_trans : forall a b c, built_same a b -> built_same b c -> built_same a c.
Proof. unfold built_same. intros a b c A B. congruence. Qed.

Definition builtPO : PO := {| rel := built_same; po_refl := built_refl; po_trans := built_trans |}.

Lemma svb_built : forall w w', svbPO w w' -> builtPO w w'.
Proof.
  cbn. unfold same_but_view, built_same. intros w w' H.
  destruct H as (A1 & A2 & A3 & A4 & A5 & A6 & A7 & A8 & A9 & A10 & A11). rewrite A5. reflexivity.
Qed.

#[local] Hint Extern 8 (pres builtPO _) => apply (pres_weaken svbPO builtPO _ _ svb_built) : pres.
#[local] Hint Resolve m_handle_dir_exists_svb m_is_removed_svb is_file_no_read_svb is_cache_file_svb
  file_metadata_svb file_hash_svb list_dir_superset_svb file_comparison_result_svb
  m_is_file_svb m_is_dir_svb m_exists_svb noneable_cmp_svb version_equal_svb
  is_build_file_cached_svb dirs_to_make_svb build_file_cache_lookup_svb subbuild_cache_lookup_svb
  m_bd_started_svb m_bd_error_svb new_assert_no_file_svb new_assert_no_subbuild_svb m_query_svb : pres.

Ltac built_solve :=
  lazymatch goal with |- rel builtPO ?a ?b => change (built_same a b) | _ => idtac end;
  first [ apply built_refl
        | unfold built_same; cbn; reflexivity ].

Ltac raw_built f :=
  intros w w' r H; unfold f in H; cbv zeta in H; repeat dm H; inversion H; subst; built_solve.

Lemma effect_built : forall what p f, pres builtPO (effect what p f).
Proof. intros what p f. raw_built effect. Qed.

Lemma effect_p_built : forall what p f, pres builtPO (effect_p what p f).
Proof. intros what p f. raw_built effect_p. Qed.
#[local] Hint Resolve effect_built effect_p_built : pres.

Lemma back_up_and_remove_built : forall p, pres builtPO (back_up_and_remove p).
Proof.
  intro p. unfold back_up_and_remove. apply pres_bind; [auto with pres|]. intros _.
  intros w w' r H. cbv zeta in H. repeat dm H; inversion H; subst; built_solve.
Qed.
#[local] Hint Resolve back_up_and_remove_built : pres.

Lemma try_to_remove_file_built : forall p, pres builtPO (try_to_remove_file p).
Proof. intro p. unfold try_to_remove_file. pres_auto. Qed.

Lemma remove_empty_dirs_built : forall ds, pres builtPO (remove_empty_dirs ds).
Proof. intro ds. unfold remove_empty_dirs. pres_auto. Qed.

Lemma make_one_dir_built : forall d, pres builtPO (make_one_dir d).
Proof. intro d. unfold make_one_dir. pres_auto. Qed.
#[local] Hint Resolve try_to_remove_file_built remove_empty_dirs_built make_one_dir_built : pres.

Lemma make_dirs_loop_built : forall ds made, pres builtPO (make_dirs_loop ds made).
Proof.
  induction ds as [|d ds IH]; intro made; cbn [make_dirs_loop]; pres_auto.
Qed.
#[local] Hint Resolve make_dirs_loop_built : pres.

Lemma make_dirs_built : forall d, pres builtPO (make_dirs d).
Proof. intro d. unfold make_dirs. pres_auto. Qed.
#[local] Hint Resolve make_dirs_built : pres.

Lemma make_room_built : forall fuel d, pres builtPO (make_room fuel d).
Proof.
  induction fuel as [|fuel IH]; intro d; cbn [make_room]; pres_auto.
Qed.
#[local] Hint Resolve make_room_built : pres.

Lemma prepare_file_creation_built : forall p, pres builtPO (prepare_file_creation p).
Proof. intro p. unfold prepare_file_creation. pres_auto. Qed.
#[local] Hint Resolve prepare_file_creation_built : pres.

Lemma apply_cached_subs_of_built : forall o, pres builtPO (apply_cached_subs_of o).
Proof.
  induction o as [q r e | p c f a k subs r cr ra sf IH | f a k subs r ra sf IH] using op_ind';
    cbn [apply_cached_subs_of].
  - apply pres_ret.
  - induction IH as [|s rest Hs HF IHl]; cbn beta iota fix; [apply pres_ret|].
    apply pres_bind; [|intros _; exact IHl]. pres_auto.
  - induction IH as [|s rest Hs HF IHl]; cbn beta iota fix; [apply pres_ret|].
    apply pres_bind; [|intros _; exact IHl]. pres_auto.
Qed.
#[local] Hint Resolve apply_cached_subs_of_built : pres.

(* updates of the new cache that keep c_built *)
Lemma modify_new_built : forall f : world -> cache,
  (forall w, c_built (f w) = c_built (w_new w)) ->
  pres builtPO (modify (fun w => set_new (f w) w)).
Proof. intros f Hf. apply pres_modify. intro w. cbn. unfold built_same. cbn. apply Hf. Qed.

Lemma new_finish_building_file_built : forall p o, pres builtPO (new_finish_building_file p o).
Proof. intros p o. unfold new_finish_building_file. apply modify_new_built. intro w. reflexivity. Qed.

Lemma new_start_subbuild_built : forall k, pres builtPO (new_start_subbuild k).
Proof. intro k. unfold new_start_subbuild. pres_auto. apply modify_new_built. intro w. reflexivity. Qed.

Lemma new_finish_subbuild_built : forall k o, pres builtPO (new_finish_subbuild k o).
Proof. intros k o. unfold new_finish_subbuild. apply modify_new_built. intro w. reflexivity. Qed.

Lemma fold_register_op_built : forall subs,
  Forall (fun o => forall c, c_built (register_op c o) = c_built c) subs ->
  forall c, c_built (fold_left register_op subs c) = c_built c.
Proof.
  intros subs HF. induction HF as [|s rest Hs HF IH]; intro c; cbn [fold_left]; [reflexivity|].
  rewrite IH. apply Hs.
Qed.

Lemma register_op_built : forall o c, c_built (register_op c o) = c_built c.
Proof.
  induction o as [q r e | p cm f a k subs r cr ra sf IH | f a k subs r ra sf IH] using op_ind';
    intro c; cbn [register_op].
  - reflexivity.
  - cbv zeta. rewrite (fold_register_op_built subs IH). destruct sf; reflexivity.
  - cbv zeta. rewrite (fold_register_op_built subs IH). destruct sf; reflexivity.
Qed.

Lemma new_use_cached_operation_built : forall o, pres builtPO (new_use_cached_operation o).
Proof.
  intros o w w' r H. unfold new_use_cached_operation in H. minv H.
  - unfold put in H. inversion H; subst. cbn. unfold built_same. cbn. apply register_op_built.
  - built_solve.
Qed.
#[local] Hint Resolve new_finish_building_file_built new_start_subbuild_built new_finish_subbuild_built
  new_use_cached_operation_built : pres.

Lemma bf_pre_built : forall p, pres builtPO (bf_pre p).
Proof. intro p. unfold bf_pre. pres_auto. Qed.

Lemma build_file_cache_lookup_built : forall p f sa skw, pres builtPO (build_file_cache_lookup p f sa skw).
Proof. intros. auto with pres. Qed.

Lemma bf_reuse_built : forall p c f sa skw cached, pres builtPO (bf_reuse p c f sa skw cached).
Proof. intros p c f sa skw cached. unfold bf_reuse. pres_auto. Qed.

Lemma sb_setup_built : forall f sa skw, pres builtPO (sb_setup f sa skw).
Proof. intros f sa skw. unfold sb_setup. cbv zeta. pres_auto. Qed.

Lemma sb_reuse_built : forall f sa skw co, pres builtPO (sb_reuse f sa skw co).
Proof. intros f sa skw co. unfold sb_reuse. cbv zeta. pres_auto. Qed.

Lemma bf_fail_built : forall p c f sa skw subs e w w' r,
  bf_fail p c f sa skw subs e w = (w', r) -> built_same w w'.
Proof.
  intros p c f sa skw subs e w w' r H. unfold bf_fail in H. cbv zeta in H.
  match type of H with (match ?X with _ => _ end) = _ => destruct X as [w1 [u|e1]] eqn:E end;
    inversion H; subst.
  all: refine ((_ : pres builtPO _) _ _ _ E); pres_auto.
Qed.

Lemma bf_finish_built : forall p c f sa skw res subs, pres builtPO (bf_finish p c f sa skw res subs).
Proof.
  intros p c f sa skw res subs w w' r H. unfold bf_finish in H.
  assert (F : forall e w0, bf_fail p c f sa skw subs e w0 = (w', r) -> built_same w0 w').
  { intros e w0 H0. eapply bf_fail_built; eassumption. }
  destruct res as [v|e]; [|eapply F; eassumption].
  destruct (sanitize v) as [sv|]; [|eapply F; eassumption].
  destruct (noneable_cmp p c w) as [w4 [cmp|e]] eqn:E.
  - assert (Q : built_same w w4) by (apply svb_built; exact (noneable_cmp_svb p c w w4 _ E)).
    eapply built_trans; [exact Q|].
    destruct cmp; try (eapply F; eassumption).
    all: cbv zeta in H; unfold new_finish_building_file, modify in H; inversion H; subst; built_solve.
  - assert (Q : built_same w w4) by (apply svb_built; exact (noneable_cmp_svb p c w w4 _ E)).
    eapply built_trans; [exact Q|]. eapply F; eassumption.
Qed.

Lemma sb_finish_built : forall f sa skw res subs, pres builtPO (sb_finish f sa skw res subs).
Proof.
  intros f sa skw res subs w w' r H. unfold sb_finish in H. cbv zeta in H.
  unfold new_finish_subbuild, modify in H.
  destruct res as [v|e]; [destruct (sanitize v)|]; inversion H; subst; built_solve.
Qed.

Lemma m_query_built : forall q, pres builtPO (m_query q).
Proof. intro q. auto with pres. Qed.

(* the claim: the target is appended, and stays when the guarded part succeeds *)
Lemma new_start_building_file_appends : forall p w w' u,
  new_start_building_file p w = (w', inl u) -> c_built (w_new w') = c_built (w_new w) ++ [p].
Proof.
  intros p w w' u H. unfold new_start_building_file, new_assert_no_file in H.
  apply bind_inv in H. destruct H as [(w1 & u1 & E1 & H) | (e & _ & H)]; [|discriminate].
  apply bind_inv in E1. unfold get in E1. destruct E1 as [(w2 & w0 & E0 & E1) | (e & E0 & _)]; [|discriminate].
  inversion E0; subst w2 w0.
  destruct (cache_has_file (w_new w) p); [discriminate|]. inversion E1; subst w1 u1.
  unfold modify in H. inversion H; subst w'. reflexivity.
Qed.

Lemma bf_claim_built : forall p w w' r,
  bf_claim p w = (w', inl r) -> c_built (w_new w') = c_built (w_new w) ++ [p].
Proof.
  intros p w w' r H. unfold bf_claim in H.
  apply bind_inv in H. destruct H as [(wa & u & E1 & H) | (e & _ & H)]; [|discriminate].
  apply new_start_building_file_appends in E1.
  apply bind_inv in H. destruct H as [(wb & u' & E2 & H) | (e & _ & H)]; [|discriminate].
  inversion H; subst w' r. rewrite <- E1.
  unfold catch in E2.
  destruct ((w0 <- get ;; (if isfile (w_fs w0) p then b <- back_up_and_remove p ;; ret tt else ret tt)) wa)
    as [wc [u2|e2]] eqn:E3.
  - inversion E2; subst wc u2.
    refine ((_ : pres builtPO _) _ _ _ E3). pres_auto.
  - apply bind_inv in E2. destruct E2 as [(wd & u3 & _ & E2) | (e & _ & E2)]; discriminate.
Qed.

Theorem built : built_statement.
Proof.
  unfold built_statement. repeat split; intros.
  - eapply bf_claim_built; eassumption.
  - eapply (bf_pre_built p); eassumption.
  - eapply (build_file_cache_lookup_built p f sa skw); eassumption.
  - eapply (bf_reuse_built p c f sa skw cached); eassumption.
  - eapply (bf_finish_built p c f sa skw res subs); eassumption.
  - eapply (sb_setup_built f sa skw); eassumption.
  - eapply (sb_finish_built f sa skw res subs); eassumption.
  - eapply (m_query_built q); eassumption.
Qed.

Print Assumptions built.
