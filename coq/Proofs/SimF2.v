(* Proofs/SimF2.v — RS_regs for the cache a build of the mechanism model writes: in every record
   that can be looked up, the registered targets of the tree are pairwise different and differ
   from the record's own target.  Core side: an invariant through core_run next to
   CoreNextState.core_run_ext (targets are claimed once; an adopted tree comes from a previous
   cache of the class okc); transferred through Sim3 (rec_rel keeps regp).                    *)
From Coq Require Import List String Ascii NArith ZArith Bool Arith Lia.
From FB.Base Require Import PyVal Fs.
From FB.Gen Require Import JsonUtilGen.
From FB.Spec Require Import JsonSpec Prog Ref Oracle Faithful.
From FB.Model Require Import Types Monad CreatedFiles BuildDirs SimpleOps Builder Persist Build Run Frame Core CoreOracle.
From FB.Proofs Require Import FsLemmas JsonLaws ReplayLaws BuildFileLaws CoreLaws1 CoreLaws2 CoreLaws3 CoreLaws4
     CoreNextRegs CoreNextState
     HashMemoInv ViewDefs ViewLemmas ViewInit ViewXDefs ViewH4 ViewH6 ViewR2 ViewR3 ViewK3 ViewK4 ViewK8
     SimA0 SimA2Base SimAMain SimB2 SimB7 SimB9 SimB11 SimC0 SimC5 SimC12 SimC14 SimC15 SimD5 SimD7 SimF1.
Import ListNotations.
Open Scope list_scope.

(* ------------------------------------------------------------------ lists *)
Lemma NoDup_mid : forall {A} (l1 m l2 : list A), NoDup (l1 ++ m ++ l2) -> NoDup m.
Proof.
  intros A l1 m l2. induction l1 as [|x l1 IH]; cbn [app]; intro H.
  - induction m as [|y m IHm]; [constructor|]. cbn [app] in H. inversion H as [|? ? Hy Hm]; subst. constructor.
    + intro K. apply Hy. apply in_or_app. left. exact K.
    + exact (IHm Hm).
  - inversion H; subst. auto.
Qed.

Lemma NoDup_app_intro : forall {A} (a b : list A), NoDup a -> NoDup b -> (forall x, In x a -> In x b -> False) -> NoDup (a ++ b).
Proof.
  intros A a b Ha. induction Ha as [|x a Hx Ha IH]; intros Hb Hd; [exact Hb|].
  cbn [app]. constructor.
  - intro K. apply in_app_or in K. destruct K as [K|K]; [exact (Hx K)|]. apply (Hd x); [left; reflexivity|exact K].
  - apply IH; [exact Hb|]. intros y H1 H2. apply (Hd y); [right; exact H1|exact H2].
Qed.

Lemma NoDup_nodupb : forall l, NoDup l -> nodupb l = true.
Proof.
  induction l as [|x l IH]; intro H; [reflexivity|]. inversion H as [|? ? Hx Hl]; subst. cbn [nodupb].
  rewrite (IH Hl), andb_true_r. apply negb_true_iff. destruct (mem_path x l) eqn:E; [|reflexivity].
  exfalso. apply Hx. apply (proj1 (ViewLemmas.mem_path_In x l)). exact E.
Qed.

(* ------------------------------------------------------------------ the targets of a nested record: a piece of the parent's *)
Lemma flat_regp_piece : forall subs y, In y subs -> exists l1 l2, flat_map regp subs = l1 ++ regp y ++ l2.
Proof.
  induction subs as [|z rest IH]; intros y Hy0; [destruct Hy0|]. destruct Hy0 as [<-|Hy]; cbn [flat_map].
  - exists [], (flat_map regp rest). reflexivity.
  - destruct (IH y Hy) as (l1 & l2 & E). exists (regp z ++ l1), l2. rewrite E, app_assoc. reflexivity.
Qed.

Lemma regp_piece : forall o x, In x (deep o) -> exists l1 l2, regp o = l1 ++ regp x ++ l2.
Proof.
  induction o as [q r e|p c f a k subs r cr ra sf IH|f a k subs r ra sf IH] using op_ind'; intros x Hx; cbn [deep] in Hx.
  - destruct Hx as [<-|[]]. exists [], []. reflexivity.
  - destruct Hx as [<-|Hx]; [exists [], []; rewrite app_nil_r; reflexivity|].
    apply in_flat_map in Hx. destruct Hx as (y & Hy & Hx). rewrite Forall_forall in IH.
    destruct (IH y Hy x Hx) as (l1 & l2 & E). destruct (flat_regp_piece subs y Hy) as (m1 & m2 & E2).
    cbn [regp]. rewrite E2, E. exists ((if sf then [] else [p]) ++ m1 ++ l1), (l2 ++ m2).
    rewrite <- !app_assoc. reflexivity.
  - destruct Hx as [<-|Hx]; [exists [], []; rewrite app_nil_r; reflexivity|].
    apply in_flat_map in Hx. destruct Hx as (y & Hy & Hx). rewrite Forall_forall in IH.
    destruct (IH y Hy x Hx) as (l1 & l2 & E). destruct (flat_regp_piece subs y Hy) as (m1 & m2 & E2).
    cbn [regp]. rewrite E2, E. exists (m1 ++ l1), (l2 ++ m2).
    rewrite <- !app_assoc. reflexivity.
Qed.

Definition NDall (l : list op) : Prop := forall x, In x l -> NoDup (regp x).

Lemma NDall_deep : forall o, NoDup (regp o) -> NDall (deep o).
Proof. intros o H x Hx. destruct (regp_piece o x Hx) as (l1 & l2 & E). rewrite E in H. exact (NoDup_mid _ _ _ H). Qed.

Lemma flat_regp_cll : forall subs, flat_map regp subs = fst (cll subs).
Proof.
  induction subs as [|x rest IH]; [reflexivity|]. rewrite cll_cons. cbn [flat_map fst]. rewrite IH, regp_claims. reflexivity.
Qed.

(* ------------------------------------------------------------------ rec_rel keeps regp *)
Lemma rec_rel_regp : forall o o', rec_rel o o' -> regp o' = regp o.
Proof.
  induction o as [q r e|p c f a k subs r cr ra sf IH|f a k subs r ra sf IH] using op_ind'; intros o' H;
    destruct o' as [q' r' e'|p' c' f' a' k' subs' r' cr' ra' sf'|f' a' k' subs' r' ra' sf']; cbn [rec_rel] in H; try contradiction.
  - reflexivity.
  - destruct H as (-> & -> & -> & -> & -> & Hs & -> & Hv & -> & ->). cbn [regp]. f_equal.
    revert subs' Hs. induction IH as [|x rest Hx Hrest IHl]; intros [|y subs'] Hs; cbn in Hs; try contradiction; [reflexivity|].
    destruct Hs as [H1 H2]. cbn [flat_map]. rewrite (Hx y H1), (IHl subs' H2). reflexivity.
  - destruct H as (-> & -> & -> & Hs & -> & -> & ->). cbn [regp].
    revert subs' Hs. induction IH as [|x rest Hx Hrest IHl]; intros [|y subs'] Hs; cbn in Hs; try contradiction; [reflexivity|].
    destruct Hs as [H1 H2]. cbn [flat_map]. rewrite (Hx y H1), (IHl subs' H2). reflexivity.
Qed.

(* ------------------------------------------------------------------ a hit adopts a tree of the class *)
Lemma forallb_notself : forall (p : path) l, forallb (fun t => negb (opath_eqb t (Some p))) l = true -> ~ In p l.
Proof.
  intros p l H K. rewrite forallb_forall in H. specialize (H p K). cbn [opath_eqb] in H.
  rewrite (proj2 (path_eqb_eq p p) eq_refl) in H. discriminate.
Qed.

Lemma hitF_nd : forall c0 old s s0 p c fname sa skw f subs' ret' r,
  okc c0 old -> k_old s = old -> core_hit s s0 p fname sa skw = Some (f, subs', ret', r) ->
  NDall (deep (OBuildFile p c fname sa skw subs' ret' (cmp_of c f) false false)).
Proof.
  intros c0 old s s0 p c fname sa skw f subs' ret' r [Hokc _] Hold H. unfold core_hit in H. rewrite Hold in H.
  destruct (cache_get_file old p) as [[|p' c' fname' a' k' subs0 ret0 cmpres' raised' sf'|]|] eqn:Eg; try discriminate.
  destruct raised'; [discriminate|].
  destruct (negb (String.eqb fname' fname)); [discriminate|].
  destruct (negb (kversion_equal s fname)); [discriminate|].
  destruct (negb (is_equal a' sa) || negb (is_equal k' skw)); [discriminate|].
  destruct (phys (k_fs s0) (k_stale s0) p) as [f0|]; [|discriminate].
  destruct (negb (is_equal cmpres' (cmp_of c' f0))); [discriminate|].
  destruct (kreplay_list s0 subs0 (start_replay s0)) as [rpx|]; [|discriminate].
  inversion H; subst f0 subs0 ret0 rpx. clear H.
  pose proof (Hokc _ _ Eg) as K. cbn [frec_static orb] in K.
  apply andb_true_iff in K. destruct K as [_ K]. apply andb_true_iff in K. destruct K as [_ K].
  unfold subs_static in K.
  apply andb_true_iff in K. destruct K as [K _]. apply andb_true_iff in K. destruct K as [K _].
  apply andb_true_iff in K. destruct K as [K K5]. apply andb_true_iff in K. destruct K as [_ K4].
  apply NDall_deep. cbn [regp app]. constructor; [exact (forallb_notself p _ K5)|exact (nodupb_NoDup _ K4)].
Qed.

Lemma hitS_nd : forall c0 old s fname sa skw subs' ret' r,
  okc c0 old -> k_old s = old -> core_subhit s fname (subbuild_key fname sa skw) = Some (subs', ret', r) ->
  NDall (deep (OSubbuild fname sa skw subs' ret' false false)).
Proof.
  intros c0 old s fname sa skw subs' ret' r [_ Hokc] Hold H. unfold core_subhit in H. rewrite Hold in H.
  destruct (subs_get (c_subs old) (subbuild_key fname sa skw)) as [[[| |f' a' k' subs0 ret0 raised' sf']|]|] eqn:Eg; try discriminate.
  destruct raised'; [discriminate|]. destruct (negb (kversion_equal s fname)); [discriminate|].
  destruct (kreplay_list s subs0 (start_replay s)) as [rpx|]; [|discriminate]. inversion H; subst subs0 ret0 rpx. clear H.
  destruct (Hokc _ _ Eg) as (q & _ & K). cbn [srec_static orb] in K.
  do 6 (apply andb_true_iff in K; destruct K as [K _]).
  unfold subs_static in K.
  apply andb_true_iff in K. destruct K as [K _]. apply andb_true_iff in K. destruct K as [K _].
  apply andb_true_iff in K. destruct K as [K _]. apply andb_true_iff in K. destruct K as [_ K4].
  apply NDall_deep. cbn [regp]. exact (nodupb_NoDup _ K4).
Qed.

(* ------------------------------------------------------------------ the run *)
Section Run.
  Variable c0 : N.
  Variable old : cache.
  Hypothesis Hokc : okc c0 old.

  Definition run_nd_at (pr : prog) : Prop :=
    forall tgt pend subs s s' out pend' subs',
      k_old s = old ->
      core_run pr tgt pend subs s = (s', (out, pend', subs')) ->
      exists produced, subs' = subs ++ produced /\ Ext s s' (fst (cll produced)) (snd (cll produced)) (deepl produced) /\
                       NoDup (fst (cll produced)) /\ NDall (deepl produced).

  Lemma nd_nil : forall s subs, exists produced : list op, subs = subs ++ produced /\ Ext s s (fst (cll produced)) (snd (cll produced)) (deepl produced) /\
                       NoDup (fst (cll produced)) /\ NDall (deepl produced).
  Proof. intros. exists []. split; [rewrite app_nil_r; reflexivity|]. split; [apply Ext_refl|]. split; [constructor|intros x []]. Qed.

  Lemma nd_cons : forall s s1 s' o subs subs' pk,
    Ext s s1 (fst (tree_claims o)) (snd (tree_claims o)) (deep o) -> NDall (deep o) ->
    subs' = (subs ++ [o]) ++ pk -> Ext s1 s' (fst (cll pk)) (snd (cll pk)) (deepl pk) ->
    NoDup (fst (cll pk)) -> NDall (deepl pk) ->
    exists produced, subs' = subs ++ produced /\ Ext s s' (fst (cll produced)) (snd (cll produced)) (deepl produced) /\
                     NoDup (fst (cll produced)) /\ NDall (deepl produced).
  Proof.
    intros s s1 s' o subs subs' pk E1 N1 -> E2 N2 N3. exists (o :: pk). split; [rewrite <- app_assoc; reflexivity|].
    split; [eapply ext_step; eauto|]. split.
    - rewrite cll_cons. cbn [fst]. apply NoDup_app_intro.
      + rewrite <- regp_claims. apply N1. apply deep_self.
      + exact N2.
      + intros q H1 H2. pose proof (x_fresh _ _ _ _ _ E2 q H2) as K.
        destruct (x_clF _ _ _ _ _ E1) as (eF & EeF & HeF). rewrite EeF in K.
        assert (In q (eF ++ k_claimedF s)) by (apply in_or_app; left; apply HeF; exact H1).
        apply (proj2 (ViewLemmas.mem_path_In q _)) in H. congruence.
    - intros x Hx. cbn [deepl flat_map] in Hx. apply in_app_or in Hx. destruct Hx as [Hx|Hx]; [exact (N1 x Hx)|exact (N3 x Hx)].
  Qed.

  Lemma nd_same : forall q a, NDall (deep (record_of q a)).
  Proof. intros q [v|c] x [<-|[]]; constructor. Qed.

  Theorem core_run_nd : forall pr, run_nd_at pr.
  Proof.
    induction pr as [v|e|st q k IHk|c k IHk|st p c fname a kw fn IHfn k IHk|st fname a kw fn IHfn k IHk];
      intros tgt pend subs s s' out pend' subs' Ho H.
    - inversion H; subst. apply nd_nil.
    - inversion H; subst. apply nd_nil.
    - rewrite core_run_Ask in H. destruct st; [eapply IHk; eauto|]. cbv zeta in H.
      destruct (spec_answer (k_fs s) q) as [v|cl].
      + eapply IHk in H; [|exact Ho]. destruct H as (pk & E1 & E2 & E3 & E4).
        eapply nd_cons; [|apply nd_same|exact E1|exact E2|exact E3|exact E4]. rewrite record_of_claims. apply Ext_same; reflexivity.
      + eapply IHk in H; [|exact Ho]. destruct H as (pk & E1 & E2 & E3 & E4).
        eapply nd_cons; [|apply nd_same|exact E1|exact E2|exact E3|exact E4]. rewrite record_of_claims. apply Ext_same; reflexivity.
    - rewrite core_run_Write in H. destruct tgt as [p|]; [|eapply IHk; eauto].
      destruct (path_ok p).
      + eapply IHk in H; [|exact Ho]. destruct H as (pk & E1 & E2 & E3 & E4). exists pk. split; [exact E1|]. split; [|split; assumption].
        change (fst (cll pk)) with ([] ++ fst (cll pk)). change (snd (cll pk)) with ([] ++ snd (cll pk)).
        eapply Ext_trans; [|exact E2]. apply Ext_same; reflexivity.
      + inversion H; subst. apply nd_nil.
    - rewrite core_run_BuildFile in H. destruct st; [eapply IHk; eauto|].
      destruct (sanitize a) as [sa|]; [|eapply IHk; eauto]. destruct (sanitize kw) as [skw|]; [|eapply IHk; eauto].
      cbv zeta in H.
      assert (Nsf : NDall (deep (OBuildFile p c fname sa skw [] PNone PNone true true))) by (intros x [<-|[]]; constructor).
      destruct (claim_check (k_claimedF s) (k_cachefile s) p) as [ec|] eqn:Ecc.
      { destruct (IHk _ _ _ _ _ _ _ _ _ Ho H) as (pk & E1 & E2 & E3 & E4).
        eapply nd_cons; [|exact Nsf|exact E1|exact E2|exact E3|exact E4]. apply Ext_refl. }
      destruct (setup_fs (k_fs s) (k_cachefile s) p) as [[fs1 dirs]|e1] eqn:Esk.
      2:{ destruct (IHk _ _ _ _ _ _ _ _ _ Ho H) as (pk & E1 & E2 & E3 & E4).
          eapply nd_cons; [|exact Nsf|exact E1|exact E2|exact E3|exact E4]. apply Ext_refl. }
      destruct (core_hit s (core_s0 s p fs1 dirs) p fname sa skw) as [[[[fh subs1] ret1] rp1]|] eqn:Ehit.
      + pose proof (Ext_hitF s p fs1 dirs c fname sa skw fh subs1 ret1 rp1 Ecc Esk Ehit) as X. cbv zeta in X.
        assert (Ho1 : k_old (core_put (adopt (core_s0 s p fs1 dirs) rp1 (OBuildFile p c fname sa skw subs1 ret1 (cmp_of c fh) false false)) p fh) = old)
          by (rewrite (proj1 (x_const _ _ _ _ _ X)); exact Ho).
        destruct (IHk _ _ _ _ _ _ _ _ _ Ho1 H) as (pk & E1 & E2 & E3 & E4).
        eapply nd_cons; [exact X| |exact E1|exact E2|exact E3|exact E4].
        exact (hitF_nd c0 old s _ p c fname sa skw fh subs1 ret1 rp1 Hokc Ho Ehit).
      + destruct (core_run (fn p sa skw) (Some p) None [] (CoreLaws3.core_start (core_s0 s p fs1 dirs) p fname sa skw)) as [s2 [[res pend2] bsubs]] eqn:Ec2.
        destruct (core_finish s2 p c fname sa skw bsubs res pend2) as [[s3 out3] o3] eqn:Ef.
        pose proof (Ext_start s p fs1 dirs fname sa skw [] Ecc Esk) as Xs.
        assert (Ho0 : k_old (CoreLaws3.core_start (core_s0 s p fs1 dirs) p fname sa skw) = old)
          by (rewrite (proj1 (x_const _ _ _ _ _ Xs)); exact Ho).
        destruct (IHfn _ _ _ _ _ _ _ _ _ _ _ Ho0 Ec2) as (pn & En1 & En2 & En3 & En4). cbn [app] in En1. subst pn.
        destruct (core_finish_rec _ _ _ _ _ _ _ _ _ _ _ _ Ef) as (r & cr & ra & Hrec).
        pose proof (Ext_wrapBF _ _ _ _ _ _ _ _ _ _ _ _ _ _ _ _ _ _ Ecc Esk En2 Ef) as W.
        assert (Ho3 : k_old s3 = old) by (rewrite (proj1 (x_const _ _ _ _ _ W)); exact Ho).
        destruct (IHk _ _ _ _ _ _ _ _ _ Ho3 H) as (pk & E1 & E2 & E3 & E4).
        eapply nd_cons; [| |exact E1|exact E2|exact E3|exact E4].
        * rewrite Hrec. rewrite tree_regs_claims_BF_nonsf. cbn [fst snd deep]. rewrite <- Hrec. exact W.
        * rewrite Hrec. intros x Hx. cbn [deep] in Hx. destruct Hx as [<-|Hx]; [|exact (En4 x Hx)].
          cbn [regp app]. rewrite flat_regp_cll. constructor; [|exact En3].
          intro K. pose proof (x_fresh _ _ _ _ _ En2 p K) as K2.
          destruct (x_clF _ _ _ _ _ Xs) as (eF & EeF & HeF). rewrite EeF in K2.
          assert (In p (eF ++ k_claimedF s)) by (apply in_or_app; left; apply HeF; left; reflexivity).
          apply (proj2 (ViewLemmas.mem_path_In p _)) in H0. congruence.
    - rewrite core_run_Subbuild in H. destruct st; [eapply IHk; eauto|].
      destruct (sanitize a) as [sa|]; [|eapply IHk; eauto]. destruct (sanitize kw) as [skw|]; [|eapply IHk; eauto].
      cbv zeta in H.
      destruct (existsb (py_eq (subbuild_key fname sa skw)) (k_claimedS s)) eqn:Edup.
      { destruct (IHk _ _ _ _ _ _ _ _ _ Ho H) as (pk & E1 & E2 & E3 & E4).
        eapply nd_cons; [| |exact E1|exact E2|exact E3|exact E4]; [apply Ext_refl|intros x [<-|[]]; constructor]. }
      destruct (core_subhit s fname (subbuild_key fname sa skw)) as [[[subs1 ret1] rp1]|] eqn:Ehit.
      + pose proof (Ext_hitS s fname sa skw subs1 ret1 rp1 Ehit) as X. cbv zeta in X.
        assert (Ho1 : k_old (adopt s rp1 (OSubbuild fname sa skw subs1 ret1 false false)) = old)
          by (rewrite (proj1 (x_const _ _ _ _ _ X)); exact Ho).
        destruct (IHk _ _ _ _ _ _ _ _ _ Ho1 H) as (pk & E1 & E2 & E3 & E4).
        eapply nd_cons; [exact X| |exact E1|exact E2|exact E3|exact E4].
        exact (hitS_nd c0 old s fname sa skw subs1 ret1 rp1 Hokc Ho Ehit).
      + destruct (core_run (fn sa skw) None None [] (core_substart s fname sa skw)) as [s2 [[res pd] bsubs]] eqn:Ec2.
        assert (Ho0 : k_old (core_substart s fname sa skw) = old) by exact Ho.
        destruct (IHfn _ _ _ _ _ _ _ _ _ _ Ho0 Ec2) as (pn & En1 & En2 & En3 & En4). cbn [app] in En1. subst pn.
        destruct (sub_rec_shape fname sa skw bsubs res) as (r & ra & Hrec).
        assert (W : Ext s (core_subreg s2 (subbuild_key fname sa skw) (sub_rec fname sa skw bsubs res))
                      (fst (tree_claims (sub_rec fname sa skw bsubs res))) (snd (tree_claims (sub_rec fname sa skw bsubs res)))
                      (deep (sub_rec fname sa skw bsubs res))).
        { rewrite Hrec. rewrite tree_claims_SB. cbn [fst snd deep]. rewrite <- Hrec.
          apply Ext_subreg.
          * change (fst (cll bsubs)) with ([] ++ fst (cll bsubs)).
            change (subbuild_key fname sa skw :: snd (cll bsubs)) with ([subbuild_key fname sa skw] ++ snd (cll bsubs)).
            eapply Ext_trans; [apply Ext_substart|]. eapply Ext_D; [|exact En2]. intros x Hx. right. exact Hx.
          * left. reflexivity.
          * rewrite Hrec. repeat eexists.
          * left. reflexivity. }
        assert (Ho3 : k_old (core_subreg s2 (subbuild_key fname sa skw) (sub_rec fname sa skw bsubs res)) = old)
          by (rewrite (proj1 (x_const _ _ _ _ _ W)); exact Ho).
        destruct (IHk _ _ _ _ _ _ _ _ _ Ho3 H) as (pk & E1 & E2 & E3 & E4).
        eapply nd_cons; [exact W| |exact E1|exact E2|exact E3|exact E4].
        rewrite Hrec. intros x Hx. cbn [deep] in Hx. destruct Hx as [<-|Hx]; [|exact (En4 x Hx)].
        cbn [regp]. rewrite flat_regp_cll. exact En3.
  Qed.
End Run.

(* ------------------------------------------------------------------ the new cache of the mechanism model *)
Theorem new_cache_regs : forall w cachefile old nm svers root w1 w2 r l,
  okc (w_clock w) old -> fs_wf (w_fs w) -> old_ok old cachefile -> WfCache old -> old_keys_ok old -> w_faults w = [] ->
  path_ok (dirname cachefile) = true -> isdir (w_fs w) cachefile = false -> maxlen (w_fs w) < walk_fuel ->
  vdir (Build.start_world w cachefile old nm svers) (dirname cachefile) = true ->
  AllTargets tgtP root -> NoNest [] root -> QueriesOk root -> WfArgs root -> CmpMeta root ->
  TargetsClear old root -> TargetsApart old root ->
  make_dirs (dirname cachefile) (Build.start_world w cachefile old nm svers) = (w1, inl []) ->
  run root None [] (set_log (LInvoke "<root>"%string None PNone PNone :: w_log w1) w1) = (w2, (r, l)) ->
  RS_regs (w_new w2).
Proof.
  intros w cachefile old nm svers root w1 w2 r l Hokc Hwf Hok HW HKo HF Hp Hnc Hml Hd Hat Hnn Hqk Hwa Hcm Hcl Hap Emk Erun.
  destruct (build_run_okc w cachefile old nm svers root w1 w2 r l Hokc Hwf Hok HW HKo HF Hp Hnc Hml Hd Hat Hnn Hqk Hwa Hcm Hcl Hap Emk Erun)
    as (s1 & pd & sb & T' & W' & Ecore & [HS _]).
  pose proof (Sim4_sim3 _ _ _ _ HS) as HS3.
  assert (Ho0 : k_old (ViewK4.core_start (w_fs w) cachefile old svers (w_clock w) (w_nextid w) (LInvoke "<root>"%string None PNone PNone :: w_log w1)) = old)
    by reflexivity.
  destruct (core_run_nd (w_clock w) old Hokc root _ _ _ _ _ _ _ _ Ho0 Ecore) as (produced & _ & HX & _ & HN).
  destruct (x_newF _ _ _ _ _ HX) as (nF & EnF & HnF). cbn [ViewK4.core_start k_newF app] in EnF.
  destruct (x_newS _ _ _ _ _ HX) as (nS & EnS & HnS). cbn [ViewK4.core_start k_newS app] in EnS.
  split.
  - intros p p' c' f' a' k' subs r' cr' sf' Hg.
    pose proof (s3_recF _ _ _ HS3 p) as K. rewrite Hg in K.
    destruct (kf_get (k_newF s1) p) as [o'|] eqn:E; [|contradiction].
    apply kf_get_in in E. rewrite EnF in E. destruct (HnF p o' E) as (Hd' & (c & f & a & k & subs0 & r0 & cr & ra & ->) & _).
    pose proof (HN _ Hd') as ND. rewrite (rec_rel_regp _ _ K) in ND.
    cbn [rec_rel] in K. destruct K as (Ep & _ & _ & _ & _ & _ & _ & _ & _ & ->). subst p'.
    cbn [regp app] in ND. inversion ND as [|? ? Hnotin Hnd]; subst. split; [exact (NoDup_nodupb _ Hnd)|].
    apply forallb_forall. intros t Ht. cbn [opath_eqb]. apply negb_true_iff.
    destruct (path_eqb t p) eqn:Et; [|reflexivity]. apply path_eqb_eq in Et. subst t. exfalso. exact (Hnotin Ht).
  - intros k f a kk subs r0 sf Hg.
    pose proof (s3_recS _ _ _ HS3 k) as K. rewrite Hg in K.
    destruct (ks_get (k_newS s1) k) as [o'|] eqn:E; [|contradiction].
    destruct (ks_get_in _ _ _ E) as [q Hq]. rewrite EnS in Hq. destruct (HnS q o' Hq) as (Hd' & _ & _).
    pose proof (HN _ Hd') as ND. rewrite (rec_rel_regp _ _ K) in ND. cbn [regp] in ND. exact (NoDup_nodupb _ ND).
Qed.

Print Assumptions new_cache_regs.
