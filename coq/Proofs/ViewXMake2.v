(* Proofs/ViewXMake2.v — C04, reachability: _make_dirs in detail, and the setup of a target
   (_prepare_file_creation without _make_room, then started_building_file) preserves XInv
   with the target as a new live target. *)
From Coq Require Import List String Ascii NArith ZArith Bool Arith Lia.
From FB.Base Require Import PyVal Fs.
From FB.Model Require Import Types Monad CreatedFiles BuildDirs SimpleOps Builder.
From FB.Proofs Require Import FsLemmas CleanLaws JsonLaws CoreLawsChildren ReplayLaws
     ViewDefs ViewLemmas ViewScan ViewQueries ViewAnswers ViewPres ViewFrame ViewPrepare
     ViewXDefs ViewXFrame ViewXQuery ViewXSteps ViewXStart2 ViewXMake1.
Import ListNotations.
Open Scope list_scope.
Open Scope m_scope.

(* targets in progress are live *)
Definition PInv (T : list path) (w : world) : Prop :=
  forall x, files_get (c_files (w_new w)) x = Some None -> In x T.

(* ---- one directory ---- *)
Definition made_ok (w w1 : world) (q : path) : Prop :=
  lookup (w_fs w1) q = Some NDir \/
  (lookup (w_fs w1) q = lookup (w_fs w) q /\ lexists (w_fs w) q = true /\
   (isfile (w_fs w) q = true -> cache_created_file (w_old w) q = false)).

Lemma back_up_file_gone : forall q w w1 bb, isfile (w_fs w) q = true ->
  back_up_and_remove q w = (w1, inl bb) -> lookup (w_fs w1) q = None.
Proof.
  intros q w w1 bb Hf H. unfold back_up_and_remove in H. apply bind_inv in H.
  destruct H as [[wa [u [E H]]]|[e [_ H]]]; [|discriminate].
  apply effect_ok in E. destruct E as [E1 _]. inversion E1 as [E1'].
  rewrite E1' in Hf.
  destruct (existsb (Nat.eqb (w_effects wa)) (w_faults wa)); [discriminate|].
  cbn [w_fs set_effects] in H. apply isfile_lookup in Hf. destruct Hf as [f Hf].
  unfold rename_out in H. rewrite Hf in H. destruct q as [|n d]; [discriminate|].
  inversion H; subst. cbn [w_fs set_log set_backups set_fs]. apply lookup_upd_eq. discriminate.
Qed.

Lemma mkdir_exists_err : forall fs q, mkdir fs q = inr EEXIST -> lexists fs q = true.
Proof.
  intros fs q H. unfold mkdir in H. destruct q as [|n d]; [reflexivity|]. unfold lexists.
  destruct (lookup fs (n :: d)); [reflexivity|].
  destruct (lookup fs d) as [[f|]|]; try discriminate.
  - destruct (name_ok n); discriminate.
  - unfold stat_err in H. destruct (absent_err_cases fs (n :: d)) as [K|[K|K]]; rewrite K in H; discriminate.
Qed.

Lemma make_one_dir_res : forall q w w1 bb, make_one_dir q w = (w1, inl bb) -> step_at q w w1 /\ made_ok w w1 q.
Proof.
  intros q w w1 bb H. split; [eapply make_one_dir_step; exact H|].
  unfold make_one_dir in H. apply bind_inv in H. unfold get in H.
  destruct H as [[wa [w0 [E H]]]|[e [E _]]]; [|discriminate]. inversion E; subst wa w0.
  apply bind_inv in H. destruct H as [[wa [u [E1 H]]]|[e [_ H]]]; [|discriminate].
  (* the mkdir, from wa *)
  assert (Hmk: lookup (w_fs w1) q = Some NDir \/ (lookup (w_fs w1) q = lookup (w_fs wa) q /\ lexists (w_fs wa) q = true)).
  { unfold catch in H.
    destruct ((effect "mkdir" q (fun fs => mkdir fs q) ;;; ret true) wa) as [wb [b0|e]] eqn:E2.
    - inversion H; subst. apply bind_inv in E2. destruct E2 as [[wc [u' [E3 E4]]]|[e [_ E4]]]; [|discriminate].
      inversion E4; subst. apply effect_ok in E3. destruct E3 as [E3 _]. left. apply (mkdir_frame _ _ _ E3).
    - apply bind_inv in E2. destruct E2 as [[wc [u' [_ E4]]]|[e' [E3 E4]]]; [discriminate|].
      inversion E4; subst e'. destruct (is_os_class XFileExists e) eqn:Ex; [|discriminate]. inversion H; subst.
      right. unfold effect in E3.
      destruct (existsb (Nat.eqb (w_effects wa)) (w_faults wa)).
      + inversion E3; subst. cbn in Ex. discriminate.
      + cbn [w_fs set_effects] in E3. destruct (mkdir (w_fs wa) q) as [fs'|er] eqn:Em; [discriminate|].
        inversion E3; subst. cbn [w_fs set_effects]. split; [reflexivity|].
        destruct er; cbn in Ex; try discriminate. apply mkdir_exists_err. exact Em. }
  destruct (isfile (w_fs w) q && cache_created_file (w_old w) q) eqn:Ec.
  - apply andb_true_iff in Ec. destruct Ec as [Ec _].
    apply bind_inv in E1. destruct E1 as [[wb [b0 [Eb E1]]]|[e [_ E1]]]; [|discriminate].
    inversion E1; subst. pose proof (back_up_file_gone _ _ _ _ Ec Eb) as Hg.
    destruct Hmk as [K|[_ K]]; [left; exact K|]. unfold lexists in K. rewrite Hg in K. discriminate.
  - inversion E1; subst. destruct Hmk as [K|[K1 K2]]; [left; exact K|right].
    split; [exact K1|]. split; [exact K2|]. intro Hf. rewrite Hf in Ec. exact Ec.
Qed.

(* ---- the loop ---- *)
Lemma make_dirs_loop_res : forall ds made w w1 u, make_dirs_loop ds made w = (w1, inl u) ->
  steps_in ds w w1 /\ forall y, In y ds -> made_ok w w1 y.
Proof.
  induction ds as [|q ds IH]; intros made w w1 u H.
  - split; [eapply make_dirs_loop_ok; exact H|intros y []].
  - split; [eapply make_dirs_loop_ok; exact H|].
    cbn [make_dirs_loop] in H. apply bind_inv in H. destruct H as [[wa [res [E H]]]|[e [E _]]].
    2:{ unfold attempt in E. destruct (make_one_dir q w); discriminate. }
    unfold attempt in E. destruct (make_one_dir q w) as [wb rr] eqn:E1. inversion E; subst wb res.
    destruct rr as [bb|e].
    2:{ destruct (is_os e); [|discriminate]. apply bind_inv in H. destruct H as [[wc [u' [_ H]]]|[e' [_ H]]]; discriminate. }
    destruct (make_one_dir_res _ _ _ _ E1) as [(S1 & S2 & S3) M1].
    destruct (IH _ _ _ _ H) as [(T1 & T2 & T3) M2].
    assert (Eold: w_old wa = w_old w) by (apply S1).
    intros y Hy.
    assert (Hq: made_ok w w1 q).
    { destruct (in_dec (list_eq_dec string_dec) q ds) as [Hin|Hin].
      - destruct (M2 q Hin) as [K|(K1 & K2 & K3)]; [left; exact K|].
        destruct M1 as [M|(M & N1 & N2)]; [left; congruence|right].
        split; [congruence|]. split; [exact N1|exact N2].
      - unfold made_ok in *. rewrite (T3 q Hin). exact M1. }
    destruct Hy as [<-|Hy]; [exact Hq|].
    destruct (list_eq_dec string_dec y q) as [->|Hne]; [exact Hq|].
    destruct (M2 y Hy) as [K|(K1 & K2 & K3)]; [left; exact K|right].
    unfold lexists, isfile in *. rewrite (S3 y Hne) in *. rewrite Eold in K3. auto.
Qed.

(* ---- the setup of a target that is not a directory on disk ---- *)
Theorem make_dirs_started_XInv : forall T w n d w1 ds w2 locked,
  XInv T w -> PInv T w -> isdir (w_fs w) (n :: d) = false ->
  make_dirs d w = (w1, inl ds) ->
  m_bd_started (n :: d) ds w1 = (w2, inl locked) ->
  XInv ((n :: d) :: T) w2 /\ PInv ((n :: d) :: T) w2 /\
  w_new w2 = w_new w /\ w_old w2 = w_old w /\ w_cachefile w2 = w_cachefile w /\
  (forall q, ~ suffix q d -> lookup (w_fs w2) q = lookup (w_fs w) q).
Proof.
  intros T w n d w1 ds w2 locked HX HP Hnd Hmk Hst.
  unfold make_dirs in Hmk. apply bind_inv in Hmk. destruct Hmk as [[wa [ds0 [Eds H]]]|[e [_ H]]]; [|discriminate].
  apply bind_inv in H. destruct H as [[wb [u [Eloop H]]]|[e [_ H]]]; [|discriminate].
  inversion H; subst wb ds0. clear H.
  destruct (dirs_to_make_spec d T w wa ds HX Eds) as [Q I O].
  destruct (qrel_facts _ _ _ HX Q) as (HXa & Sa & SVa & _).
  destruct (make_dirs_loop_res _ _ _ _ _ Eloop) as [((C1 & C2 & C3 & C4) & S2 & S3) M].
  unfold m_bd_started in Hst. destruct (bd_started (w_bd w1) (n :: d) ds) as [b' l] eqn:Eb. inversion Hst; subst w2 locked.
  pose proof (x_binv _ _ HXa) as HBa.
  assert (Efa: w_fs wa = w_fs w) by (apply (sv_fs _ _ Sa)).
  assert (Enew: w_new wa = w_new w) by (apply (sv_new _ _ Sa)).
  assert (Eold: w_old wa = w_old w) by (apply (sv_old _ _ Sa)).
  assert (Ecf: w_cachefile wa = w_cachefile w) by (apply (sv_cf _ _ Sa)).
  assert (Hmem: forall q, mem_path q ds = false -> ~ In q ds).
  { intros q Hq Hin. apply mem_path_In in Hin. congruence. }
  assert (HX2: XInv ((n :: d) :: T) (set_bd b' w1)).
  { apply (started_XInv T wa n d ds (set_bd b' w1) HXa); cbn [w_fs w_bd w_old w_new w_cachefile set_bd].
    - rewrite <- C1, Eb. reflexivity.
    - exact C2.
    - exact C3.
    - exact C4.
    - apply S2. apply (bi_wf _ HBa).
    - intros q Hq. apply S3. apply Hmem. exact Hq.
    - intros y Hy. apply mem_path_In in Hy. destruct (I y Hy) as (A & B & C & D & E).
      split; [exact A|]. split; [exact B|]. split; [rewrite (same_view_vdir _ _ _ Sa); exact C|].
      destruct (M y Hy) as [K|(K1 & K2 & K3)].
      + split; [unfold lexists; rewrite K; reflexivity|]. split; [left; unfold isdir; rewrite K; reflexivity|].
        intro Hf. unfold isfile in Hf. rewrite K in Hf. discriminate.
      + split; [unfold lexists; rewrite K1; exact K2|]. split; [right; exact K1|].
        intro Hf. unfold isfile in Hf. rewrite K1 in Hf. fold (isfile (w_fs wa) y) in Hf.
        (* a hidden regular file that is neither the cache file nor a previous output: in progress *)
        apply HP. rewrite <- Enew.
        assert (Hh: hid wa y = true).
        { rewrite <- (same_view_vfile _ _ _ Sa) in D. unfold vfile in D. rewrite Hf in D. cbn [andb] in D.
          apply negb_false_iff in D. exact D. }
        unfold hid in Hh. rewrite Ecf in Hh. apply path_eqb_neq in E. rewrite E in Hh. cbn [orb] in Hh.
        unfold cache_has_file, cache_get_file in Hh.
        destruct (files_get (c_files (w_new wa)) y) as [[o|]|]; [discriminate|reflexivity|].
        rewrite (K3 Hf) in Hh. discriminate.
    - intros y Hy Hn. destruct (O y Hy) as [A B]; [intro K; apply mem_path_In in K; congruence|].
      split; [exact A|]. rewrite (same_view_vdir _ _ _ Sa). exact B.
    - rewrite Efa. exact Hnd. }
  split; [exact HX2|]. cbn [w_new w_old w_cachefile w_faults w_fs set_bd].
  destruct SVa as (V1 & V2 & V3 & V4 & V5 & V6 & V7 & V8 & V9 & V10 & V11).
  split; [intros x Hx; right; apply HP; rewrite <- Enew, <- C3; exact Hx|].
  split; [congruence|]. split; [congruence|]. split; [congruence|].
  intros q Hq. rewrite S3; [congruence|]. intro Hin. apply Hq. apply (I q Hin).
Qed.

Print Assumptions make_dirs_started_XInv.

