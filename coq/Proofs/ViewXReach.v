(* Proofs/ViewXReach.v — C04, reachability: every query asked at any point of any program
   run by Model/Run.v answers like POSIX on the view of the world it is asked in.
   [AskAt pr target subs w q wq]: while [run pr target subs] executes from w, a (live) query
   q is asked in the world wq. *)
From Coq Require Import List String Ascii NArith ZArith Bool Arith Lia.
From FB.Base Require Import PyVal Fs.
From FB.Gen Require Import JsonUtilGen.
From FB.Spec Require Import Prog Ref.
From FB.Model Require Import Types Monad CreatedFiles BuildDirs SimpleOps Builder Build Run.
From FB.Proofs Require Import FsLemmas CleanLaws JsonLaws CoreLawsChildren ReplayLaws BuildFileLaws
     ViewDefs ViewLemmas ViewScan ViewQueries ViewAnswers ViewInit ViewPres ViewFrame
     ViewXDefs ViewXFrame ViewXQuery ViewXInit ViewXSteps ViewXMake1 ViewXMake2 ViewXFail ViewXSetup ViewXOld
     ViewXRun ViewXMkfail.
Import ListNotations.
Open Scope list_scope.
Open Scope m_scope.

Inductive AskAt : prog -> option path -> list op -> world -> query -> world -> Prop :=
| AA_here : forall q k tg subs w, AskAt (Ask false q k) tg subs w q w
| AA_stale_ask : forall q k tg subs w q' wq,
    AskAt (k (inr (XRuntime RFinished))) tg subs w q' wq -> AskAt (Ask true q k) tg subs w q' wq
| AA_after_ask : forall q k tg subs w w1 r o q' wq,
    m_query q w = (w1, (r, o)) ->
    AskAt (k (user_answer q r w1)) tg (app_op subs o) (log_answer q (user_answer q r w1) w1) q' wq ->
    AskAt (Ask false q k) tg subs w q' wq
| AA_write_none : forall c k subs w q' wq, AskAt k None subs w q' wq -> AskAt (Write c k) None subs w q' wq
| AA_write : forall c k p subs w fs' q' wq,
    write_file (w_fs w) p c None (N.succ (w_clock w)) (w_nextid w) = inl fs' ->
    AskAt k (Some p) subs (set_clock (N.succ (w_clock w)) (N.succ (w_nextid w)) (set_fs fs' w)) q' wq ->
    AskAt (Write c k) (Some p) subs w q' wq
| AA_stale_bf : forall p c f a kw fn k tg subs w q' wq,
    AskAt (k (inr (XRuntime RFinished))) tg subs w q' wq -> AskAt (BuildFile true p c f a kw fn k) tg subs w q' wq
| AA_in_bf : forall p c f a kw fn k tg subs w sa skw w1 q' wq,
    sanitize a = Some sa -> sanitize kw = Some skw -> bf_setup p c f sa skw w = (w1, inl None) ->
    AskAt (fn p sa skw) (Some p) [] (bf_invoke_world p f sa skw w1) q' wq ->
    AskAt (BuildFile false p c f a kw fn k) tg subs w q' wq
| AA_after_bf : forall p c f a kw fn k tg subs w w1 r o q' wq,
    m_build_file p c f a kw (fun p' sa skw w' => run (fn p' sa skw) (Some p') [] w') w = (w1, (r, o)) ->
    AskAt (k r) tg (app_op subs o) w1 q' wq ->
    AskAt (BuildFile false p c f a kw fn k) tg subs w q' wq
| AA_stale_sb : forall f a kw fn k tg subs w q' wq,
    AskAt (k (inr (XRuntime RFinished))) tg subs w q' wq -> AskAt (Subbuild true f a kw fn k) tg subs w q' wq
| AA_in_sb : forall f a kw fn k tg subs w sa skw w1 q' wq,
    sanitize a = Some sa -> sanitize kw = Some skw -> sb_setup f sa skw w = (w1, inl None) ->
    AskAt (fn sa skw) None [] (sb_invoke_world f sa skw w1) q' wq ->
    AskAt (Subbuild false f a kw fn k) tg subs w q' wq
| AA_after_sb : forall f a kw fn k tg subs w w1 r o q' wq,
    m_subbuild f a kw (fun sa skw w' => run (fn sa skw) None [] w') w = (w1, (r, o)) ->
    AskAt (k r) tg (app_op subs o) w1 q' wq ->
    AskAt (Subbuild false f a kw fn k) tg subs w q' wq.

Section Reach.
  Variable ok : cache -> Prop.
  Hypothesis HH : hit_statement_for ok.
  Hypothesis HS : sbhit_statement_for ok.

  (* the invariant holds wherever a query is asked *)
  Theorem reachable_RInv : forall pr tg subs w q wq, AskAt pr tg subs w q wq ->
    forall T, ok (w_old w) -> RInv T w -> (forall p, tg = Some p -> In p T) ->
    exists T', RInv T' wq.
  Proof.
    intros pr tg subs w q wq H. induction H; intros T Hok HR Htg.
    - exists T. exact HR.
    - eapply IHAskAt; eauto.
    - destruct (query_old _ _ _ _ H) as [O1 _].
      eapply (IHAskAt T); [|apply log_answer_RInv; eapply m_query_RInv; eassumption|exact Htg].
      assert (E: w_old (log_answer q (user_answer q r w1) w1) = w_old w1) by (unfold log_answer; destruct (user_answer q r w1) as [?|[]]; reflexivity).
      congruence.
    - eapply IHAskAt; eauto.
    - eapply (IHAskAt T); [exact Hok| |exact Htg]. destruct HR as (HX & HP & HF).
      pose proof (write_target_XInv T w p _ _ _ _ _ HX (Htg p eq_refl) H) as HX'.
      split; [eapply XInv_fields; [exact HX'|..]; reflexivity|]. split; [exact HP|exact HF].
    - eapply IHAskAt; eauto.
    - pose proof (bf_setup_RInv ok mkfail_holds HH T p c f sa skw w w1 (inl None) Hok HR H1) as (A & B & C & D).
      eapply (IHAskAt (p :: T)).
      + cbn. rewrite D. exact Hok.
      + eapply RInv_fields; [exact A|..]; reflexivity.
      + intros p0 Hp0. inversion Hp0; subst. left. reflexivity.
    - destruct (build_file_old _ _ _ _ _ _ _ _ _ H) as [O1 _].
      destruct (m_build_file_RInv ok mkfail_holds HH T p c f a kw (fun p' sa skw w' => run (fn p' sa skw) (Some p') [] w') w w1 (r, o))
        as (T1 & HR1 & M1); [|exact Hok|exact HR|exact H|].
      { intros sa skw T0 w0 w2 r0 Hok0 HR0 Hin Hf. eapply (run_RInv ok mkfail_holds HH HS); [exact Hok0|exact HR0| |exact Hf].
        intros p0 Hp0. inversion Hp0; subst. exact Hin. }
      eapply (IHAskAt T1); [congruence|exact HR1|]. intros p0 Hp0. apply (msub_in _ _ _ M1). apply Htg. exact Hp0.
    - eapply IHAskAt; eauto.
    - destruct (HS T f sa skw w w1 (inl None) Hok HR H1) as (T1 & HR1 & M1 & D).
      eapply (IHAskAt T1).
      + cbn. rewrite D. exact Hok.
      + eapply RInv_fields; [exact HR1|..]; reflexivity.
      + intros p0 Hp0. discriminate.
    - destruct (subbuild_old _ _ _ _ _ _ _ H) as [O1 _].
      destruct (m_subbuild_RInv ok HS T f a kw (fun sa skw w' => run (fn sa skw) None [] w') w w1 (r, o))
        as (T1 & HR1 & M1); [|exact Hok|exact HR|exact H|].
      { intros sa skw T0 w0 w2 r0 Hok0 HR0 Hf. eapply (run_RInv ok mkfail_holds HH HS); [exact Hok0|exact HR0| |exact Hf].
        intros p0 Hp0. discriminate. }
      eapply (IHAskAt T1); [congruence|exact HR1|]. intros p0 Hp0. apply (msub_in _ _ _ M1). apply Htg. exact Hp0.
  Qed.

  (* hence it answers like POSIX on the view of that world *)
  Theorem reachable_answers_view_for : forall pr tg subs w q wq T,
    AskAt pr tg subs w q wq -> ok (w_old w) -> RInv T w -> (forall p, tg = Some p -> In p T) ->
    path_ok (spec_query_path q) = true ->
    (forall p c, q <> QRead p c) ->
    (forall p td, q = QWalk p td -> vdir wq p = true -> maxlen (w_fs wq) < walk_fuel + List.length p) ->
    BInv wq /\ yields (exec_query q None) wq (to_res (spec_answer (view_fs wq) q)).
  Proof.
    intros pr tg subs w q wq T HA Hok HR Htg Hp Hnr Hwalk.
    destruct (reachable_RInv _ _ _ _ _ _ HA T Hok HR Htg) as (T' & (HX & _ & _)).
    pose proof (x_binv _ _ HX) as HB. split; [exact HB|]. apply exec_query_spec_answer; assumption.
  Qed.
End Reach.

(* ------------------------------------------------------------------ builds whose previous cache holds no records *)
Theorem RInv_start_world : forall w cachefile old nm vers,
  fs_wf (w_fs w) -> old_ok old cachefile -> w_faults w = [] -> RInv [] (start_world w cachefile old nm vers).
Proof.
  intros w cachefile old nm vers Hwf Hok HF. split; [apply XInv_start_world; assumption|]. split.
  - intros x Hx. cbn in Hx. discriminate.
  - exact HF.
Qed.

Theorem reachable_answers_view : forall w0 cachefile old nm vers pr subs q wq,
  fs_wf (w_fs w0) -> old_ok old cachefile -> norec old -> w_faults w0 = [] ->
  AskAt pr None subs (start_world w0 cachefile old nm vers) q wq ->
  path_ok (spec_query_path q) = true ->
  (forall p c, q <> QRead p c) ->
  (forall p td, q = QWalk p td -> vdir wq p = true -> maxlen (w_fs wq) < walk_fuel + List.length p) ->
  BInv wq /\ yields (exec_query q None) wq (to_res (spec_answer (view_fs wq) q)).
Proof.
  intros w0 cachefile old nm vers pr subs q wq Hwf Hok Hnr HF HA Hp Hnread Hwalk.
  apply (reachable_answers_view_for norec hit_norec sbhit_norec pr None subs _ q wq [] HA); auto.
  - apply RInv_start_world; assumption.
  - intros p Hp0. discriminate.
Qed.

(* the general statement: for any previous cache, relative to the analysis of cache hits *)
Theorem reachable_answers_view_general : hit_statement -> sbhit_statement ->
  forall w0 cachefile old nm vers pr subs q wq,
  fs_wf (w_fs w0) -> old_ok old cachefile -> w_faults w0 = [] ->
  AskAt pr None subs (start_world w0 cachefile old nm vers) q wq ->
  path_ok (spec_query_path q) = true ->
  (forall p c, q <> QRead p c) ->
  (forall p td, q = QWalk p td -> vdir wq p = true -> maxlen (w_fs wq) < walk_fuel + List.length p) ->
  BInv wq /\ yields (exec_query q None) wq (to_res (spec_answer (view_fs wq) q)).
Proof.
  intros HH HS w0 cachefile old nm vers pr subs q wq Hwf Hok HF HA Hp Hnread Hwalk.
  apply (reachable_answers_view_for (fun _ => True) HH HS pr None subs _ q wq [] HA); auto.
  - apply RInv_start_world; assumption.
  - intros p Hp0. discriminate.
Qed.

Print Assumptions reachable_RInv.
Print Assumptions reachable_answers_view.
Print Assumptions reachable_answers_view_general.
