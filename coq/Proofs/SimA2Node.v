(* Proofs/SimA2Node.v — C04, the link to Core, run level: the build_file node, assembled from
   its pieces (SimA2.v: setup up to the reservation, claim, end of the function) and the
   hypotheses about cache hits (ViewK8.lookup_agree_statement: the decision; SimA0.hit_agree_hyp:
   the state after a hit). *)
From Coq Require Import List String Ascii NArith ZArith Bool Arith Lia.
From FB.Base Require Import PyVal Fs.
From FB.Gen Require Import JsonUtilGen.
From FB.Spec Require Import JsonSpec Prog Ref Oracle Faithful.
From FB.Model Require Import Types Monad CreatedFiles BuildDirs SimpleOps Builder Persist Build Run Frame Core CoreOracle.
From FB.Proofs Require Import FsLemmas JsonLaws ReplayLaws CleanLaws BuildFileLaws HashMemoInv HashMemoRun CoreLaws1 CoreLaws2 CoreLaws3
     ViewDefs ViewLemmas ViewFrame ViewInit ViewXDefs ViewXError ViewXQuery ViewXMake1 ViewXMake2 ViewXFail ViewXSetup ViewXRun
     ViewH7 ViewR1 ViewR2 ViewR3 ViewR9 ViewK1 ViewK2 ViewK3 ViewK4 ViewK5 ViewK7 ViewK8 SimA0 SimARun SimA2Base SimA2 SimA3 SimA3Cf SimA2Finish.
Import ListNotations.
Open Scope list_scope.
Open Scope m_scope.

Local Notation RInv2' := (RInv2 (fun _ => True)).

(* ------------------------------------------------------------------ Core's lookup, as in ViewK8 *)
Lemma core_hit_none_iff : forall s p f sa skw,
  core_hit s s p f sa skw = None <->
  match cache_get_file (k_old s) p with
  | Some (OBuildFile p' c' fname' a' k' subs' ret' cmpres' raised' sf') =>
      raised' = true \/ String.eqb fname' f = false \/ kversion_equal s f = false \/
      is_equal a' sa = false \/ is_equal k' skw = false \/
      match phys (k_fs s) (k_stale s) p with
      | Some g => is_equal cmpres' (cmp_of c' g) = false \/ kreplay_list s subs' (start_replay s) = None
      | None => True
      end
  | _ => True
  end.
Proof.
  intros s p f sa skw. unfold core_hit.
  destruct (cache_get_file (k_old s) p) as [[q r e|p' c' fname' a' k' subs' ret' cmpres' raised' sf'|f' a' k' subs' r' ra' sf']|];
    try (split; [intros _; exact I|intros _; reflexivity]).
  destruct raised'; [split; [intros _; left; reflexivity|intros _; reflexivity]|].
  destruct (String.eqb fname' f); cbn [negb]; [|split; [intros _; right; left; reflexivity|intros _; reflexivity]].
  destruct (kversion_equal s f); cbn [negb]; [|split; [intros _; right; right; left; reflexivity|intros _; reflexivity]].
  destruct (is_equal a' sa); cbn [negb orb]; [|split; [intros _; do 3 right; left; reflexivity|intros _; reflexivity]].
  destruct (is_equal k' skw); cbn [negb orb]; [|split; [intros _; do 4 right; left; reflexivity|intros _; reflexivity]].
  destruct (phys (k_fs s) (k_stale s) p) as [g|]; [|split; [intros _; do 5 right; exact I|intros _; reflexivity]].
  destruct (is_equal cmpres' (cmp_of c' g)); cbn [negb]; [|split; [intros _; do 5 right; left; reflexivity|intros _; reflexivity]].
  destruct (kreplay_list s subs' (start_replay s)) as [rr|].
  - split; [discriminate|]. intros [H|[H|[H|[H|[H|[H|H]]]]]]; discriminate.
  - split; [intros _; do 5 right; right; reflexivity|intros _; reflexivity].
Qed.

(* ------------------------------------------------------------------ read-only steps *)
Lemma sim4pre_qrel : forall T W w w' s, Sim4pre T W w s -> qrel w w' -> Sim4pre T W w' s.
Proof.
  intros T W w w' s HP Q. pose proof (s4_rinv _ _ _ _ HP) as HR2. pose proof (RInv2_R' _ _ HR2) as HR.
  pose proof (RInv_X _ _ HR) as HX.
  destruct (qrel_facts _ _ _ HX Q) as (_ & Sa & SV & _).
  destruct HP as [P1 P2 P5 P6 P7 P8 P9 P10 P11 P12 P13 P14].
  constructor; try assumption.
  - apply (Sim3_qrel T W w w' s HX Q P1).
  - apply (RInv2_step _ _ _ _ HR2); [apply svb_gl; exact SV|apply (qrel_RInv _ _ _ Q HR)].
  - intro x. rewrite (sv_created _ _ Sa). apply P7.
  - intros x Hx. rewrite (sv_cf _ _ Sa) in Hx. apply P10. exact Hx.
  - intros x Hx. rewrite (sv_cf _ _ Sa). apply P11. exact Hx.
  - intros q v Hin. rewrite (sv_new _ _ Sa) in Hin. eapply P12. exact Hin.
  - rewrite (sv_new _ _ Sa). exact P13.
Qed.

Lemma simsetup_qrel : forall T W p w w' s0, SimSetup T W p w s0 -> qrel w w' -> SimSetup T W p w' s0.
Proof.
  intros T W p w w' s0 (HP & HL & Hunc & Hnd) Q.
  pose proof (RInv_X _ _ (RInv2_R' _ _ (s4_rinv _ _ _ _ HP))) as HX.
  destruct (qrel_facts _ _ _ HX Q) as (_ & Sa & _ & _).
  split; [apply (sim4pre_qrel _ _ _ _ _ HP Q)|]. split; [|split].
  - intros x Hx. rewrite (sv_new _ _ Sa). apply HL. exact Hx.
  - rewrite (sv_new _ _ Sa). exact Hunc.
  - rewrite (sv_fs _ _ Sa). exact Hnd.
Qed.

(* ------------------------------------------------------------------ the setup up to the reservation: no file is written *)
Lemma bf_pre_fstep : forall p w wb r, bf_pre p w = (wb, r) -> fstep w wb.
Proof.
  intros p w wb r H. unfold bf_pre in H.
  apply bind_inv in H. destruct H as [[w1 [u [E H]]]|[e [E _]]].
  2:{ unfold new_assert_no_file, bind, get in E. destruct (cache_has_file (w_new w) p); inversion E; subst; apply fstep_refl. }
  assert (w1 = w) by (unfold new_assert_no_file, bind, get in E; destruct (cache_has_file (w_new w) p); inversion E; reflexivity).
  subst w1. clear E.
  apply bind_inv in H. destruct H as [[w1 [icf [E H]]]|[e [E _]]]; [|discriminate].
  unfold is_cache_file in E. inversion E; subst w1 icf. clear E.
  apply bind_inv in H. destruct H as [[w1 [u1 [E H]]]|[e [E _]]].
  2:{ destruct (path_eqb p (w_cachefile w)); inversion E; subst; apply fstep_refl. }
  assert (w1 = w) by (destruct (path_eqb p (w_cachefile w)); inversion E; reflexivity). subst w1. clear E.
  apply bind_inv in H. destruct H as [[w1 [created [E H]]]|[e [E _]]].
  2:{ apply (prepare_file_creation_fs p _ _ _ E). }
  pose proof (prepare_file_creation_fs p _ _ _ E) as F1.
  apply bind_inv in H. destruct H as [[w2 [locked [E2 H]]]|[e [E2 _]]].
  - inversion H; subst. eapply fstep_trans; [exact F1|].
    unfold m_bd_started in E2. destruct (bd_started (w_bd w1) p created). inversion E2; subst.
    split; [reflexivity|]. split; [reflexivity|]. split; [reflexivity|]. intros x f X. exact X.
  - unfold m_bd_started in E2. destruct (bd_started (w_bd w1) p created). discriminate.
Qed.

(* ------------------------------------------------------------------ the memo and the context after a whole node *)
Lemma node_HInv : forall p c f a kw fn w w1 ro,
  HInv w -> old_keys_ok (w_old w) ->
  m_build_file p c f a kw (fun p' sa skw w' => run (fn p' sa skw) (Some p') [] w') w = (w1, ro) -> HInv w1.
Proof.
  intros p c f a kw fn w w1 ro Hi Hk H.
  refine (m_build_file_HInv p c f a kw _ w w1 _ _ H Hi Hk).
  intros sa skw w2 w3 r0 Hi2 Hk2 P2 N2 R2. cbv beta in R2.
  refine (run_HInv (fn p sa skw) (Some p) [] w2 w3 r0 Hi2 Hk2 _ R2).
  intros t Et. inversion Et; subst t. split; assumption.
Qed.

Lemma node_old : forall p c f a kw fn w w1 ro,
  m_build_file p c f a kw (fun p' sa skw w' => run (fn p' sa skw) (Some p') [] w') w = (w1, ro) -> w_old w1 = w_old w.
Proof.
  intros p c f a kw fn w w1 ro H. refine (m_build_file_O p c f a kw _ _ w w1 _ H). intros sa skw. apply run_O.
Qed.

Lemma node_TSA : forall tg p c f a kw fn w w1 ro,
  old_keys_ok (w_old w) -> TSA tg w ->
  m_build_file p c f a kw (fun p' sa skw w' => run (fn p' sa skw) (Some p') [] w') w = (w1, ro) -> TSA tg w1.
Proof.
  intros tg p c f a kw fn w w1 ro Hk Ht H. apply (TSA_call tg w w1 Hk); [|exact Ht]. intros t Et.
  refine (m_build_file_P t p c f a kw _ _ _ w w1 _ H).
  - intros sa skw Hne. cbv beta. apply run_P. intro X. inversion X. contradiction.
  - intros sa skw. apply run_O.
Qed.

(* ------------------------------------------------------------------ the node *)
Section Node.
  Variable ok : cache -> Prop.
  Hypothesis Hpre : pre_statement.
  Hypothesis Hclaim : claim_statement.
  Hypothesis Hfin : finish_statement_cf.
  Hypothesis Hbuilt : built_statement.
  Hypothesis Hlook : lookup_agree_hyp_for ok.
  Hypothesis Hhit : hit_agree_hyp_for ok.

  Theorem bf_node : bf_node_statement_for ok.
  Proof.
    intros st p c fname a kw fn T W w s tg pend w1 r o Hokc Hconds Hbody HS HC E1 s1 r' o' E2.
    pose proof HS as [[HP HL] [HI [HK HWb]]].
    destruct Hbuilt as (Bclaim & Bpre & Blook & Breuse & Bfin & _).
    pose proof (node_HInv _ _ _ _ _ _ _ _ _ HI HK E1) as HI1.
    pose proof (node_old _ _ _ _ _ _ _ _ _ E1) as Hold1.
    pose proof (node_TSA tg _ _ _ _ _ _ _ _ _ HK (c4_tsa _ _ _ _ HC) E1) as HT1.
    assert (HK1: old_keys_ok (w_old w1)) by (rewrite Hold1; exact HK).
    (* the common end: the relation, the in-progress set and the files of the running functions *)
    assert (Hend: forall T' W' ro,
              Sim4c T' W' w1 s1 -> (forall y, inprog w1 y <-> inprog w y) ->
              (forall y, In y st -> lookup (w_fs w1) y = lookup (w_fs w) y) ->
              r = ro -> r' = ro -> orec_rel o o' -> Wincl W W' -> Wincl W' (c_built (w_new w1)) ->
              node_post st tg pend W w w1 r o s1 r' o').
    { intros T' W' ro HS1 Hp1 Hf1 Er Er' Ho HW HWb1. exists T', W'.
      split; [split; [exact HS1|split; [exact HI1|split; [exact HK1|exact HWb1]]]|].
      split; [apply (ctx4_restore st tg pend w w1 HC Hp1 Hf1 HT1)|].
      split; [exact Hf1|]. split; [congruence|]. split; [exact Ho|]. split; [exact HW|exact Hold1]. }
    rewrite m_build_file_unfold in E1. unfold core_bf_node in E2.
    destruct (sanitize a) as [sa|].
    2:{ inversion E1; inversion E2; subst.
        apply (Hend T W (inr XType) (conj HP HL)); [intro; reflexivity|intros; reflexivity|reflexivity|reflexivity|exact I|apply Wincl_refl|exact HWb]. }
    destruct (sanitize kw) as [skw|].
    2:{ inversion E1; inversion E2; subst.
        apply (Hend T W (inr XType) (conj HP HL)); [intro; reflexivity|intros; reflexivity|reflexivity|reflexivity|exact I|apply Wincl_refl|exact HWb]. }
    cbv zeta in E2.
    destruct (bf_setup p c fname sa skw w) as [wS rS] eqn:Es.
    pose proof Es as Es0. rewrite bf_setup_pre in Es.
    apply bind_inv in Es. destruct Es as [[wb [u [Epre Es]]]|[e [Epre Er]]].
    2:{ (* the setup fails before the reservation *)
        subst rS. pose proof (Hpre st tg pend T W w s p wS (inr e) (conj HP HL) HC Hconds Epre) as (Hcore & HS1 & Hn1 & Hf1 & Ho1).
        inversion E1; subst w1 r o.
        assert (E2': (s, (@inr pyval exn e, Some (OBuildFile p c fname sa skw [] PNone PNone true true))) = (s1, (r', o'))).
        { destruct Hcore as [Hc|[Hc Hs]]; [rewrite Hc in E2; exact E2|rewrite Hc, Hs in E2; exact E2]. }
        inversion E2'; subst s1 r' o'.
        apply (Hend T W (inr e) HS1); [|exact Hf1|reflexivity|reflexivity|apply rec_rel_refl|apply Wincl_refl|rewrite Hn1; exact HWb].
        intro y. unfold inprog. rewrite Hn1. reflexivity. }
    destruct u.
    pose proof (Hpre st tg pend T W w s p wb (inl tt) (conj HP HL) HC Hconds Epre)
      as (Hcc & fs1 & dirs & Hsf & HSS & Hnb & Hfb & Hob).
    rewrite Hcc, Hsf in E2.
    set (s0 := core_s0 s p fs1 dirs) in *.
    pose proof HSS as (HPb & HLb & Huncb & Hndb).
    pose proof (s4_rinv _ _ _ _ HPb) as HR2b.
    (* the lookup *)
    unfold catch in Es. destruct (bf_try p c fname sa skw wb) as [wt rt] eqn:Et.
    unfold bf_try in Et. apply bind_inv in Et.
    destruct Et as [[wl [cached [El Et]]]|[e [El _]]].
    2:{ exfalso. apply (proj1 (noraise_holds (fun _ => True) _ _ HR2b) p fname sa skw wt e). exact El. }
    pose proof (build_file_cache_lookup_q _ _ _ _ _ _ _ El) as Ql.
    pose proof (simsetup_qrel _ _ _ _ _ _ HSS Ql) as HSSl.
    pose proof (RInv_X _ _ (RInv2_R' _ _ HR2b)) as HXb.
    destruct (qrel_facts _ _ _ HXb Ql) as (_ & Sl & _ & _).
    assert (Hprogb: forall y, inprog wb y <-> In y st).
    { intro y. unfold inprog. rewrite Hnb. apply (c4_prog _ _ _ _ HC y). }
    assert (Hcondsb: tgt_conds st (w_old wb) p) by (rewrite Hob; exact Hconds).
    assert (HIb: HInv wb) by (apply (fstep_brel _ _ (bf_pre_fstep _ _ _ _ Epre)); exact HI).
    assert (HKb: old_keys_ok (w_old wb)) by (rewrite Hob; exact HK).
    assert (Hokb: ok (w_old wb)) by (rewrite Hob; exact Hokc).
    pose proof (Hlook st T W wb s0 p fname sa skw wl cached Hokb HSS HIb HKb Hprogb Hcondsb El) as Hdec.
    change (core_hit s s0 p fname sa skw) with (core_hit s0 s0 p fname sa skw) in E2.
    apply bind_inv in Et.
    destruct cached as [co|].
    - (* both sides accept the record *)
      destruct (core_hit s0 s0 p fname sa skw) as [[[[fnode subs'] ret'] rr]|] eqn:Eh.
      2:{ exfalso. destruct Hdec as [_ Hdec]. specialize (Hdec eq_refl). discriminate. }
      assert (Hreuse: forall w2 r2, bf_reuse p c fname sa skw (Some co) wl = (w2, r2) ->
                exists o2 T', r2 = inl (Some (inl o2)) /\
                  rec_rel o2 (OBuildFile p c fname sa skw subs' ret' (cmp_of c fnode) false false) /\
                  Sim4c T' W w2 (core_put (adopt s0 rr (OBuildFile p c fname sa skw subs' ret' (cmp_of c fnode) false false)) p fnode) /\
                  (forall y, inprog w2 y <-> inprog wb y) /\
                  (forall y, inprog wb y -> lookup (w_fs w2) y = lookup (w_fs wb) y) /\ w_old w2 = w_old wb).
      { intros w2 r2 Hr.
        exact (Hhit st T W wb s0 p c fname sa skw wl co w2 r2 fnode subs' ret' rr Hokb HSS HIb HKb Hprogb Hcondsb El Eh Hr). }
      destruct Et as [[wr [reused [Er Et]]]|[e [Er _]]].
      2:{ exfalso. destruct (Hreuse _ _ Er) as (o2 & T' & X & _). discriminate. }
      destruct (Hreuse _ _ Er) as (o2 & T' & X & Hrec & HS2 & Hp2 & Hf2 & Ho2). inversion X; subst reused. clear X.
      inversion Et; subst wt rt. inversion Es; subst wS rS.
      inversion E1; subst w1 r o. inversion E2; subst s1 r' o'.
      assert (Hret: op_ret o2 = ret').
      { destruct o2 as [q0 r0 e0|p0 c0 f0 a0 k0 sb0 r0 cr0 ra0 sf0|f0 a0 k0 sb0 r0 ra0 sf0]; cbn [rec_rel] in Hrec; try contradiction.
        cbn [op_ret]. apply Hrec. }
      apply (Hend T' W (inl ret') HS2); [| |rewrite Hret; reflexivity|reflexivity|exact Hrec|apply Wincl_refl|].
      3:{ rewrite (Breuse _ _ _ _ _ _ _ _ _ Er), (Blook _ _ _ _ _ _ _ El), (Bpre _ _ _ _ Epre). exact HWb. }
      + intro y. rewrite Hp2. unfold inprog. rewrite Hnb. reflexivity.
      + intros y Hy. rewrite <- (Hfb y Hy). apply Hf2. unfold inprog. rewrite Hnb. apply (proj2 (c4_prog _ _ _ _ HC y) Hy).
    - (* both sides miss: the function runs *)
      destruct Hdec as [Hdec _]. specialize (Hdec eq_refl). rewrite Hdec in E2.
      destruct Et as [[wr [reused [Er Et]]]|[e [Er _]]]; [|cbn in Er; discriminate].
      cbn [bf_reuse] in Er. inversion Er; subst wr reused.
      destruct (Hclaim T W wl s0 p fname sa skw wt rt HSSl (proj1 Hconds) Et) as (Ert & HS2 & Hp2 & Hf2 & Hnone2 & Ho2).
      subst rt. inversion Es; subst wS rS.
      (* the memo when the function starts *)
      destruct (bf_setup_None _ _ _ _ _ _ _ Es0 HI) as (HIt & Hpt & Hnft & Hnot).
      unfold bf_rebuild in E1. cbv beta in E1.
      destruct (run (fn p sa skw) (Some p) [] (bf_invoke_world p fname sa skw wt)) as [w3 [res subs3]] eqn:Ef.
      destruct (core_run (fn p sa skw) (Some p) None [] (CoreLaws3.core_start s0 p fname sa skw)) as [s2 [[res' pend2] bsubs]] eqn:Ec.
      destruct (core_finish s2 p c fname sa skw bsubs res' pend2) as [[s3 out] o3] eqn:Efin.
      inversion E2; subst s1 r' o'.
      assert (Holdt: w_old wt = w_old w).
      { rewrite Ho2. rewrite (sv_old _ _ Sl). exact Hob. }
      assert (Hpst: ~ In p st).
      { intro Hin. apply (proj2 (c4_prog _ _ _ _ HC p)) in Hin. unfold inprog in Hin.
        pose proof HSS as (_ & _ & Hu & _). unfold cache_has_file in Hu. rewrite Hnb, Hin in Hu. discriminate. }
      assert (HS0: Sim4 (p :: T) (p :: W) (bf_invoke_world p fname sa skw wt) (CoreLaws3.core_start s0 p fname sa skw)).
      { split; [exact HS2|]. split; [apply HInv_set_log; exact HIt|]. split; [cbn [bf_invoke_world w_old set_log]; rewrite Holdt; exact HK|].
        cbn [bf_invoke_world w_new set_log]. rewrite (Bclaim _ _ _ _ Et), (Blook _ _ _ _ _ _ _ El), (Bpre _ _ _ _ Epre).
        intros x Hx. cbn [mem_path] in Hx. rewrite ViewXMkfail.mem_app_path. cbn [mem_path]. rewrite orb_false_r.
        destruct (path_eqb p x) eqn:Epx; [rewrite orb_true_r; reflexivity|]. cbn [orb] in Hx. rewrite (HWb x Hx). reflexivity. }
      assert (HC0: Ctx4 (p :: st) (Some p) None (bf_invoke_world p fname sa skw wt)).
      { constructor.
        - intro y. change (inprog (bf_invoke_world p fname sa skw wt) y) with (inprog wt y). rewrite Hp2.
          assert (Hwl: inprog wl y <-> inprog w y) by (unfold inprog; rewrite (sv_new _ _ Sl), Hnb; reflexivity).
          rewrite Hwl, (c4_prog _ _ _ _ HC y). cbn [In]. split; [intros [H|H]; [right; exact H|left; symmetry; exact H]|intros [H|H]; [right; symmetry; exact H|left; exact H]].
        - intros q Eq. inversion Eq; subst q. split; [left; reflexivity|exact (proj1 Hconds)].
        - cbn [pend_rel bf_invoke_world w_new w_fs set_log]. split; [exact Hpt|exact Hnft].
        - intros y Hy. cbn [bf_invoke_world w_fs set_log]. destruct Hy as [<-|Hy].
          + unfold isdir. rewrite Hnone2. reflexivity.
          + assert (Hne: y <> p) by (intro; subst; contradiction).
            unfold isdir. rewrite (Hf2 y Hne), (sv_fs _ _ Sl), (Hfb y Hy). apply (c4_nodir _ _ _ _ HC y Hy).
        - intros t Et0. inversion Et0; subst t. split; [exact Hpt|exact Hnot]. }
      destruct (Hbody sa skw (p :: T) (p :: W) (bf_invoke_world p fname sa skw wt) (CoreLaws3.core_start s0 p fname sa skw)
                      w3 res subs3 s2 res' pend2 bsubs Holdt HS0 HC0 Ef Ec)
        as (T3 & W3 & HS3 & HC3 & Hfr3 & Eres & Hsubs3 & HW3 & Ho3).
      subst res'. destruct HS3 as [HS3c [HI3 [HK3 HWb3]]].
      assert (Hpcf: p <> w_cachefile w3).
      { rewrite (run_cf _ _ _ _ _ _ Ef).
        rewrite <- (s3_cf _ _ _ (s4_sim _ _ _ _ (proj1 HS2))). cbn [CoreLaws3.core_start klog ks_with k_cachefile core_s0 s0].
        unfold claim_check in Hcc. destruct (mem_path p (k_claimedF s)); [discriminate|].
        destruct (path_eqb p (k_cachefile s)) eqn:Ecf; [discriminate|]. apply path_eqb_neq. exact Ecf. }
      destruct (Hfin st T3 W3 w3 s2 p c fname sa skw res subs3 bsubs pend2 w1 r o s3 out o3 HS3c HI3 HC3
                       (HW3 p (eq_trans (f_equal (fun b => b || mem_path p W) (path_eqb_refl p)) eq_refl)) Hpcf Hsubs3 E1 Efin)
        as (T' & HS' & Eout & Horec & Hp' & Hf' & Ho').
      apply (Hend T' W3 out HS'); [| |exact Eout|reflexivity| | |rewrite (Bfin _ _ _ _ _ _ _ _ _ _ E1); exact HWb3].
      + intro y. rewrite Hp'. rewrite (c4_prog _ _ _ _ HC3 y), (c4_prog _ _ _ _ HC y). cbn [In].
        split; [intros [[H|H] Hne]; [exfalso; apply Hne; symmetry; exact H|exact H]|intro H; split; [right; exact H|intro; subst; contradiction]].
      + intros y Hy. assert (Hne: y <> p) by (intro; subst; contradiction).
        rewrite (Hf' y Hne). rewrite (Hfr3 y (or_intror Hy)) by (intro X; inversion X; subst; contradiction).
        cbn [bf_invoke_world w_fs set_log]. rewrite (Hf2 y Hne), (sv_fs _ _ Sl). apply Hfb. exact Hy.
      + destruct o as [x|]; [exact Horec|destruct Horec].
      + intros x Hx. apply HW3. cbn [mem_path]. rewrite Hx. apply orb_true_r.
  Qed.
End Node.

Print Assumptions bf_node.
