(* Proofs/CommitDirs2Y.v — the invariant about ERROR-CREATED directories that the commit
   side needs and that neither FInv/EInv (RollbackDirs.., CommitDirs..) nor XInv (ViewX..)
   contain: XInv does not mention bd_err_created at all.

   Call a directory d of the current tree UNREGISTERED when it is no directory of the
   pre-state fs0, is not in created_dirs of BuildDirs, and is not an ancestor of the cache
   file (by FInv such a d is in error_created_dirs).  [YInv w]:
     Y4  an unregistered directory contains nothing but unregistered directories;
     Y5  a locked path (a key of the lock counts) is in created_dirs, or a directory of
         fs0, or an ancestor of the cache file;
     Y6  an unregistered directory is a candidate (maybe_removed / removed).
   Together they say that an unregistered directory is DEAD in the sense of the virtual
   view (ViewDefs.dead): [N_dead].  That is what keeps the invariant going: a dead
   directory is never taken for existing by _dirs_to_make, so it is re-created -- and
   registered -- as soon as a target below it is started, and the scans of the virtual view
   never drop it from the candidates.
   This file: the definitions, N_dead, and the steps that do not make directories
   (queries, writes, removals, _make_room). *)
From Coq Require Import List String Ascii NArith ZArith Bool Arith Lia.
From FB.Base Require Import PyVal Fs.
From FB.Gen Require Import JsonUtilGen.
From FB.Spec Require Import Prog.
From FB.Model Require Import Types Monad CreatedFiles BuildDirs SimpleOps Builder Persist Build Run Frame.
From FB.Proofs Require Import CoreLawsChildren ViewDefs ViewLemmas ViewXDefs ViewXQuery ViewXMake1 ViewXRoom2.
From FB.Proofs Require Import FsLemmas ReplayLaws FrameLaws CleanLaws RollbackDirsLaws
  RollbackDirsView RollbackDirsBase RollbackDirsInv.
Import ListNotations.
Local Open Scope list_scope.

Section Y.

Variable fs0 : fsT.
Variable cf : path.
Hypothesis Hwf0 : fs_wf fs0.

Definition Nn (w : world) (d : path) : Prop :=
  lookup (w_fs w) d = Some NDir /\ lookup fs0 d <> Some NDir /\
  ~ In d (bd_created (w_bd w)) /\ below d cf = false.

Definition YInv (w : world) : Prop :=
  (forall d, Nn w d -> forall n x, lookup (w_fs w) (n :: d) = Some x ->
     x = NDir /\ ~ In (n :: d) (bd_created (w_bd w))) /\
  (forall a, in_counts (w_bd w) a = true ->
     In a (bd_created (w_bd w)) \/ lookup fs0 a = Some NDir \/ below a cf = true) /\
  (forall d, Nn w d -> In d (bd_maybe (w_bd w)) \/ In d (bd_removed (w_bd w))).

Lemma Nn_not_counted : forall w d, YInv w -> Nn w d -> in_counts (w_bd w) d = false.
Proof.
  intros w d (_ & Y5 & _) (_ & N2 & N3 & N4). destruct (in_counts (w_bd w) d) eqn:E; [|reflexivity].
  destruct (Y5 d E) as [Z|[Z|Z]]; [contradiction | contradiction | congruence].
Qed.

Lemma Nn_child : forall w d n, YInv w -> Nn w d -> lexists (w_fs w) (n :: d) = true -> Nn w (n :: d).
Proof.
  intros w d n (Y4 & _) HN Hex. pose proof HN as (N1 & N2 & N3 & N4).
  unfold lexists in Hex. destruct (lookup (w_fs w) (n :: d)) as [x|] eqn:E; [|discriminate Hex].
  destruct (Y4 d HN n x E) as [-> Hc]. split; [exact E|]. split; [|split; [exact Hc|]].
  - intro Z. apply N2. exact (Hwf0 _ _ Z).
  - destruct (below (n :: d) cf) eqn:Eb; [|reflexivity]. rewrite (below_trans d (n :: d) cf (below_self_cons n d) Eb) in N4. discriminate N4.
Qed.

(* an unregistered directory is dead *)
Theorem N_dead : forall w, YInv w -> forall d, Nn w d -> dead w d = true.
Proof.
  intros w HY. apply (depth_ind (w_fs w) (fun d => Nn w d -> dead w d = true)).
  intros d IH HN. pose proof HN as (N1 & _). pose proof HY as (_ & _ & Y6).
  rewrite dead_unfold, N1. apply andb_true_iff. split.
  - unfold trk. rewrite (Nn_not_counted w d HY HN). cbn [negb]. rewrite andb_true_r.
    apply orb_true_iff. destruct (Y6 d HN) as [Z|Z]; [left | right]; apply ViewLemmas.mem_path_In; exact Z.
  - apply forallb_forall. intros n Hn.
    pose proof (proj1 (children_In _ _ _) Hn) as Hex.
    pose proof (Nn_child w d n HY HN Hex) as HNc. pose proof HNc as (C1 & _).
    unfold invis, invis_gen. rewrite C1. exact (IH n Hn HNc).
Qed.

(* ---- a query: the tree and the core of the bookkeeping are unchanged, a dead directory
   stays a candidate ---- *)
Lemma Y_query : forall T w w', XInv T w -> qrel w w' -> YInv w -> YInv w'.
Proof.
  intros T w w' HX Q HY.
  destruct (qrel_facts _ _ _ HX Q) as (_ & SV & _ & _).
  pose proof (sv_fs _ _ SV) as Ef. pose proof (sv_counts _ _ SV) as Ec. pose proof (sv_created _ _ SV) as Ek.
  assert (HN : forall d, Nn w' d -> Nn w d) by (intros d H; unfold Nn in *; rewrite Ef, Ek in H; exact H).
  pose proof HY as (Y4 & Y5 & Y6). unfold YInv. split; [|split].
  - intros d Hd n x Hx. rewrite Ef in Hx. rewrite Ek. exact (Y4 d (HN d Hd) n x Hx).
  - intros a Ha. unfold in_counts in Ha. rewrite Ec in Ha. rewrite Ek. exact (Y5 a Ha).
  - intros d Hd. pose proof (N_dead w HY d (HN d Hd)) as Dd. rewrite <- (sv_dead _ _ SV) in Dd.
    apply dead_true_inv in Dd. destruct Dd as [Dd _]. unfold trk in Dd. apply andb_true_iff in Dd. destruct Dd as [Dd _].
    apply orb_true_iff in Dd. destruct Dd as [Z|Z]; [left | right]; apply ViewLemmas.mem_path_In; exact Z.
Qed.

(* ---- a step that changes the tree below locked directories only, makes no directory,
   and leaves the bookkeeping alone ---- *)
Lemma Y_fs_step : forall w w', YInv w -> w_bd w' = w_bd w ->
  (forall q, lookup (w_fs w') q = Some NDir -> lookup (w_fs w) q = Some NDir) ->
  (forall n d x, lookup (w_fs w') (n :: d) = Some x ->
     lookup (w_fs w) (n :: d) = Some x \/ in_counts (w_bd w) d = true) ->
  YInv w'.
Proof.
  intros w w' HY Eb Hdir Hch. pose proof HY as (Y4 & Y5 & Y6).
  assert (HN : forall d, Nn w' d -> Nn w d).
  { intros d (N1 & N2 & N3 & N4). rewrite Eb in N3. split; [exact (Hdir d N1)|]. auto. }
  unfold YInv. rewrite Eb. split; [|split; [exact Y5|]].
  - intros d Hd n x Hx. destruct (Hch n d x Hx) as [Z|Z]; [exact (Y4 d (HN d Hd) n x Z)|].
    rewrite (Nn_not_counted w d HY (HN d Hd)) in Z. discriminate Z.
  - intros d Hd. exact (Y6 d (HN d Hd)).
Qed.

(* a directory inside a dead directory is dead *)
Lemma dead_desc : forall w p, fs_wf (w_fs w) -> dead w p = true -> forall d, suffix p d ->
  lookup (w_fs w) d = Some NDir -> dead w d = true.
Proof.
  intros w p Hwf Hp d [l ->]. induction l as [|n l IH]; intro Hd; [exact Hp|].
  cbn [app] in Hd |- *.
  pose proof (Hwf _ _ Hd) as El. cbn [dirname tl] in El.
  pose proof (IH El) as Dp. rewrite dead_unfold in Dp. apply andb_true_iff in Dp. destruct Dp as [_ Dp].
  rewrite El in Dp. rewrite forallb_forall in Dp.
  assert (Hin : In n (children (w_fs w) (l ++ p))) by (apply children_In; unfold lexists; rewrite Hd; reflexivity).
  pose proof (Dp n Hin) as Z. unfold invis, invis_gen in Z. rewrite Hd in Z. exact Z.
Qed.

(* ---- _make_room: the tree shrinks, the core of the bookkeeping stays ---- *)
Definition room_frame (w w' : world) : Prop :=
  w_faults w' = [] /\ bd_counts (w_bd w') = bd_counts (w_bd w) /\ bd_created (w_bd w') = bd_created (w_bd w) /\
  (forall q, lookup (w_fs w') q = lookup (w_fs w) q \/ lookup (w_fs w') q = None).

Lemma room_frame_refl : forall w, w_faults w = [] -> room_frame w w.
Proof. intros w H. unfold room_frame. repeat split; auto. Qed.

Lemma room_frame_trans : forall a b c, room_frame a b -> room_frame b c -> room_frame a c.
Proof.
  intros a b c (A1 & A2 & A3 & A4) (B1 & B2 & B3 & B4). unfold room_frame.
  split; [exact B1|]. split; [congruence|]. split; [congruence|].
  intro q. destruct (B4 q) as [Y|Y]; [|right; exact Y]. destruct (A4 q) as [Z|Z]; [left | right]; congruence.
Qed.

Lemma view_room_frame : forall w w', w_faults w = [] -> viewPO w w' -> room_frame w w'.
Proof.
  intros w w' Hf ((F1 & _ & _ & _ & _ & _ & _ & _ & _ & F10 & _) & (C1 & C2 & _)). unfold room_frame.
  split; [congruence|]. split; [exact C1|]. split; [exact C2|]. intro q. left. rewrite F1. reflexivity.
Qed.

Lemma make_room_frame : forall fuel d w w' r, make_room fuel d w = (w', r) -> w_faults w = [] -> room_frame w w'.
Proof.
  induction fuel as [|fuel IH]; intros d w w' r H Hf; cbn [make_room] in H.
  - inversion H; subst. apply room_frame_refl. exact Hf.
  - apply bind_inv in H. unfold get in H. destruct H as [(wa & w0 & E & H) | (e & E & _)]; [|discriminate E].
    inversion E; subst wa w0; clear E.
    destruct (listdir (w_fs w) d) as [names|e]; [|inversion H; subst; apply room_frame_refl; exact Hf].
    assert (Loop : forall ns u u' x, mapM_ (fun n =>
                let a := n :: d in
                bind get (fun w' => if isdir (w_fs w') a then
                   bind (m_is_dir a None) (fun vd => if vd then raise (XOS XIsADirectory) else make_room fuel a)
                 else bind (m_is_file a None) (fun vf => if vf then raise (XOS XIsADirectory) else
                      bind (back_up_and_remove a) (fun b => ret tt)))) ns u = (u', x) ->
              w_faults u = [] -> room_frame u u').
    { induction ns as [|n ns IHn]; intros u u' x E Hu; cbn [mapM_] in E.
      - inversion E; subst. apply room_frame_refl. exact Hu.
      - assert (Step : forall u1 x1, (let a := n :: d in
                bind get (fun w' => if isdir (w_fs w') a then
                   bind (m_is_dir a None) (fun vd => if vd then raise (XOS XIsADirectory) else make_room fuel a)
                 else bind (m_is_file a None) (fun vf => if vf then raise (XOS XIsADirectory) else
                      bind (back_up_and_remove a) (fun b => ret tt)))) u = (u1, x1) -> room_frame u u1).
        { intros u1 x1 E1. cbv zeta in E1. unfold bind at 1, get in E1.
          destruct (isdir (w_fs u) (n :: d)) eqn:Ed.
          - apply bind_inv in E1. destruct E1 as [(ub & vd & Eq & E1) | (e & Eq & _)].
            + pose proof (view_room_frame _ _ Hu (m_is_dir_view _ _ _ _ _ Eq)) as R1.
              destruct vd; [inversion E1; subst; exact R1|].
              eapply room_frame_trans; [exact R1|]. eapply IH; [exact E1 | exact (proj1 R1)].
            + exact (view_room_frame _ _ Hu (m_is_dir_view _ _ _ _ _ Eq)).
          - apply bind_inv in E1. destruct E1 as [(ub & vf & Eq & E1) | (e & Eq & _)].
            + pose proof (m_is_file_view _ _ _ _ _ Eq) as V1.
              pose proof (view_room_frame _ _ Hu V1) as R1.
              destruct vf; [inversion E1; subst; exact R1|].
              eapply room_frame_trans; [exact R1|].
              assert (Ffs : w_fs ub = w_fs u) by (destruct V1 as ((F & _) & _); exact F).
              assert (Hdb : isdir (w_fs ub) (n :: d) = false) by (rewrite Ffs; exact Ed).
              assert (K : forall uc b, back_up_and_remove (n :: d) ub = (uc, b) -> room_frame ub uc).
              { intros uc b Eb. pose proof (back_up_dkeep _ _ _ _ Eb Hdb) as (Kb & _ & _).
                destruct (back_up_spec _ _ _ _ Eb (proj1 R1) Hdb) as (F1 & _ & _ & _ & [(f & _ & _ & G2 & G3 & _) | (G1 & _ & _)]).
                - unfold room_frame. rewrite Kb. split; [exact F1|]. split; [reflexivity|]. split; [reflexivity|].
                  intro q. destruct (path_eq_dec q (n :: d)) as [->|N]; [right; exact G2 | left; apply G3; exact N].
                - unfold room_frame. rewrite Kb, G1. repeat split; auto. }
              apply bind_inv in E1. destruct E1 as [(uc & b & Eb & E1) | (e & Eb & _)].
              * inversion E1; subst. exact (K _ _ Eb).
              * exact (K _ _ Eb).
            + exact (view_room_frame _ _ Hu (m_is_file_view _ _ _ _ _ Eq)). }
        apply bind_inv in E. destruct E as [(u1 & y & E1 & E) | (e & E1 & _)].
        + pose proof (Step _ _ E1) as R1. eapply room_frame_trans; [exact R1|]. eapply IHn; [exact E | exact (proj1 R1)].
        + exact (Step _ _ E1). }
    apply bind_inv in H. destruct H as [(wa & u & E1 & H) | (e & E1 & _)]; [|exact (Loop _ _ _ _ E1 Hf)].
    pose proof (Loop _ _ _ _ E1 Hf) as R1. eapply room_frame_trans; [exact R1|].
    unfold catch in H. rewrite (effect_nofault' _ _ _ _ (proj1 R1)) in H.
    destruct (rmdir (w_fs wa) d) as [fs'|e] eqn:Er.
    + inversion H; subst. unfold room_frame. cbn [w_faults w_bd w_fs set_log set_fs set_effects].
      split; [exact (proj1 R1)|]. split; [reflexivity|]. split; [reflexivity|].
      apply rmdir_frame in Er. destruct Er as (_ & _ & _ & G4 & G5).
      intro q. destruct (path_eq_dec q d) as [->|N]; [right; exact G4 | left; apply G5; exact N].
    + cbn [is_os] in H. inversion H; subst. unfold room_frame. cbn. split; [exact (proj1 R1)|]. repeat split; auto.
Qed.

Lemma suffix_dec : forall p d, suffix p d \/ ~ suffix p d.
Proof.
  intros p d. induction d as [|n d IH].
  - destruct (path_eq_dec p []) as [->|N]; [left; apply suffix_refl | right; intro H; apply suffix_nil in H; contradiction].
  - destruct (path_eq_dec p (n :: d)) as [->|N]; [left; apply suffix_refl|].
    destruct IH as [IH|IH]; [left; apply suffix_cons; exact IH|].
    right. intro H. apply suffix_inv in H. destruct H as [H|H]; [contradiction | exact (IH H)].
Qed.

Lemma Y_make_room : forall T f p w w1 r, RI T p w -> YInv w -> make_room f p w = (w1, r) -> YInv w1.
Proof.
  intros T f p w w1 r HR HY H. pose proof HR as (HX & Hd & Hdead & HF).
  pose proof (make_room_frame _ _ _ _ _ H HF) as (_ & Fc & Fk & Fs).
  pose proof HY as (Y4 & Y5 & Y6).
  assert (HN : forall d, Nn w1 d -> Nn w d).
  { intros d (N1 & N2 & N3 & N4). rewrite Fk in N3. split; [|auto]. destruct (Fs d) as [Z|Z]; congruence. }
  unfold YInv. rewrite Fk. split; [|split].
  - intros d Hn n x Hx. apply (Y4 d (HN d Hn) n x). destruct (Fs (n :: d)) as [Z|Z]; congruence.
  - intros a Ha. unfold in_counts in Ha. rewrite Fc in Ha. exact (Y5 a Ha).
  - (* an unregistered directory that survives is still dead *)
    intros d Hn. pose proof (N_dead w HY d (HN d Hn)) as Dd. pose proof Hn as (N1 & _).
    assert (Dd1 : trk (w_bd w1) d = true).
    { destruct f as [|f]; [cbn [make_room] in H; inversion H; subst; exact (proj1 (dead_true_inv _ _ Dd))|].
      rewrite make_room_eq in H. apply bind_inv in H. unfold get in H.
      destruct H as [(wa & w0 & E & H) | (e & E & _)]; [|discriminate E]. inversion E; subst wa w0; clear E.
      unfold listdir in H. pose proof Hd as Hd'. apply isdir_lookup in Hd'. rewrite Hd' in H.
      assert (After : forall wa x, mapM_ (room_step f p) (children (w_fs w) p) w = (wa, x) ->
                lookup (w_fs wa) d = Some NDir -> trk (w_bd wa) d = true).
      { intros wa x E1 Hda.
        destruct (room_loop_ok T f (make_room_ok T f) p _ _ _ _ HR E1) as [HXa Ra].
        destruct (suffix_dec p d) as [Hs|Hs].
        - assert (Hnp : ~ below_strict p p) by (intro Z; apply psuffix_neq in Z; congruence).
          destruct (rr_same _ _ _ Ra p Hnp) as [Ep Edp].
          assert (Dpa : dead wa p = true) by congruence.
          pose proof (dead_desc wa p (bi_wf _ (x_binv _ _ HXa)) Dpa d Hs Hda) as Z.
          exact (proj1 (dead_true_inv _ _ Z)).
        - assert (Hnd : ~ below_strict p d) by (intro Z; apply Hs; apply psuffix_suffix; exact Z).
          destruct (rr_same _ _ _ Ra d Hnd) as [_ Edd].
          assert (Z : dead wa d = true) by congruence. exact (proj1 (dead_true_inv _ _ Z)). }
      apply bind_inv in H. destruct H as [(wa & u & E1 & H) | (e & E1 & _)].
      + assert (Hbd : w_bd w1 = w_bd wa /\ (lookup (w_fs w1) d = Some NDir -> lookup (w_fs wa) d = Some NDir)).
        { destruct (room_loop_ok T f (make_room_ok T f) p _ _ _ _ HR E1) as [HXa Ra].
          assert (Hfa : w_faults wa = []) by (rewrite (rr_faults _ _ _ Ra); exact HF).
          unfold catch in H. rewrite (effect_nofault' _ _ _ _ Hfa) in H.
          destruct (rmdir (w_fs wa) p) as [fs'|e] eqn:Er.
          - inversion H; subst. cbn [w_bd w_fs set_log set_fs set_effects]. split; [reflexivity|].
            apply rmdir_frame in Er. destruct Er as (_ & _ & _ & G4 & G5). intro Z.
            destruct (path_eq_dec d p) as [->|N]; [congruence | rewrite <- (G5 d N); exact Z].
          - cbn [is_os] in H. inversion H; subst. cbn. auto. }
        destruct Hbd as [Eb Ed]. rewrite Eb. exact (After _ _ E1 (Ed N1)).
      + exact (After _ _ E1 N1). }
    unfold trk in Dd1. apply andb_true_iff in Dd1. destruct Dd1 as [Z _].
    apply orb_true_iff in Z. destruct Z as [Z|Z]; [left | right]; apply ViewLemmas.mem_path_In; exact Z.
Qed.

End Y.
