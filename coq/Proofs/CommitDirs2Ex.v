(* Proofs/CommitDirs2Ex.v -- concrete committed builds (vm_compute) for CommitDirs2FileMain.v
   and CommitDirs2Write.v: for every built path whose record is not marked raised, the record
   holds cmp_of of the node on disk (METADATA and HASH), also when the function writes twice,
   when a nested build_file runs in between, and on a rebuild over a previous cache.
   ((b1) without its third alternative is checked on concrete histories in CommitDirsEx.v.)
   New file of round 3; edits nothing. *)
From Coq Require Import List String NArith ZArith Bool Arith.
From FB.Base Require Import PyVal Fs.
From FB.Gen Require Import JsonUtilGen.
From FB.Spec Require Import Prog.
From FB.Model Require Import Types Monad SimpleOps Builder Persist Build Run Dsl Frame Core.
From FB.Proofs Require Import CommitDirsEx.
Import ListNotations.
Open Scope string_scope.

Definition bfm (m : cmpmode) (p : path) (fn : path -> pyval -> pyval -> prog) (k : outcome -> prog) : prog :=
  BuildFile false p m "f" (PList [PStr (path_str p)]) (PDict []) fn k.

(* the record of every built, not raised path carries cmp_of of the node that is there, and
   that node has the expected bytes *)
Definition chkW (newc : cache) (fs' : fsT) (want : list (path * string)) : bool :=
  forallb (fun p =>
    match cache_get_file newc p with
    | Some (OBuildFile _ c _ _ _ _ _ cmpres false _) =>
        match lookup fs' p with
        | Some (NFile g) => is_equal cmpres (cmp_of c g)
        | _ => false
        end
    | Some (OBuildFile _ _ _ _ _ _ _ _ true _) => negb (isfile fs' p)
    | _ => false
    end) (c_built newc) &&
  forallb (fun pb => match lookup fs' (fst pb) with Some (NFile g) => String.eqb (f_bytes g) (snd pb) | _ => false end) want.

Definition trialw (h : list hstep) (pr : prog) (want : list (path * string)) : bool :=
  let w := steps cfp h init_world in
  let '(w', r) := run_build cfp "n" (PDict []) pr w in
  committed r && chkW (w_new w') (w_fs w') want.

(* the function writes twice, with a nested build_file in between: the last Write counts *)
Definition twice (m : cmpmode) : prog :=
  bfm m ["out"; "d"] (fun _ _ _ => Write "first" (bfm m ["in"; "e"] (wr "inner") (fun _ => Write "second" (Ret PNone)))) ok.

Example last_write_metadata : trialw [] (twice METADATA) [(["out"; "d"], "second"); (["in"; "e"], "inner")] = true.
Proof. vm_compute. reflexivity. Qed.
Example last_write_hash : trialw [] (twice HASH) [(["out"; "d"], "second"); (["in"; "e"], "inner")] = true.
Proof. vm_compute. reflexivity. Qed.

(* a rebuild over a previous cache: one output is served from the cache (not in c_built), one is
   rebuilt with new content, one call fails *)
Definition second (m : cmpmode) : prog :=
  bfm m ["out"; "d"] (fun _ _ _ => Write "first" (bfm m ["in"; "e"] (wr "inner") (fun _ => Write "second" (Ret PNone))))
    (fun _ => bfm m ["new"; "d"] (wr "fresh") (fun _ => bfm m ["bad"; "q"] (fun _ _ _ => Write "zz" boom) ok)).

Example rebuild_metadata : trialw [B (twice METADATA)] (second METADATA) [(["out"; "d"], "second"); (["new"; "d"], "fresh")] = true.
Proof. vm_compute. reflexivity. Qed.
Example rebuild_hash : trialw [B (twice HASH); HMutate [FWrite ["out"; "d"] "tampered"]] (second HASH)
  [(["out"; "d"], "second"); (["new"; "d"], "fresh")] = true.
Proof. vm_compute. reflexivity. Qed.
