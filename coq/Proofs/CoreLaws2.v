(* Proofs/CoreLaws2.v — the reference run, one node at a time: unfolding equations
   for ref_run, and the invariant [RInv] of the reference state (the tree is a tree,
   every needed target has its parent directory and is claimed). *)
From Coq Require Import List String Ascii NArith ZArith Bool Arith Lia.
From FB.Base Require Import PyVal Fs.
From FB.Gen Require Import JsonUtilGen.
From FB.Spec Require Import JsonSpec Prog Ref Faithful.
From FB.Model Require Import Types SimpleOps Builder Persist Core.
From FB.Proofs Require Import FsLemmas CleanLaws CoreLawsChildren CoreLaws1.
Import ListNotations.
Local Open Scope list_scope.

(* ------------------------------------------------------------------ *)
(* the steps of a build_file call on a tree                           *)
(* ------------------------------------------------------------------ *)
Definition setup_fs (fs : fsT) (cf p : path) : (fsT * list path) + exn :=
  if isdir fs p then inr (XOS XIsADirectory) else
  match missing_dirs fs cf (dirname p) with
  | inr c => inr (XOS c)
  | inl dirs => match mkdir_all fs dirs with inr e => inr (XOS (err_of e)) | inl fs1 => inl (fs1, dirs) end
  end.

Definition claim_check (claimed : list path) (cf p : path) : option exn :=
  if mem_path p claimed then Some (XRuntime RDupFile) else
  if path_eqb p cf then Some (XRuntime RCacheFileTarget) else None.

Definition ref_start (s : rstate) (p : path) (fname : string) (sa skw : pyval) (fs1 : fsT) (dirs : list path) : rstate :=
  rlog (LInvoke fname (Some p) sa skw)
       (rs_with s (try_remove fs1 p) (p :: r_claimedF s) (r_claimedS s) (p :: r_need s)
                (r_made s ++ dirs) (r_clock s) (r_nextid s) (r_log s)).

Definition ref_finish (s2 : rstate) (p : path) (res : outcome) (pend : option string) : rstate * outcome :=
  let fail (e : exn) := (prune_made s2 p, @inr pyval exn e) in
  match res with
  | inr e => fail e
  | inl v =>
      match sanitize v with
      | None => fail XType
      | Some sv =>
          match pend with
          | None => fail (if path_ok p then XRuntime RNotCreated else XOS XOSError)
          | Some bytes =>
              match write_file (r_fs s2) p bytes None (r_clock s2) (r_nextid s2) with
              | inl fs3 =>
                  (rs_with s2 fs3 (r_claimedF s2) (r_claimedS s2) (r_need s2) (r_made s2)
                           (r_clock s2) (N.succ (r_nextid s2)) (r_log s2), inl sv)
              | inr e => fail (XOS (err_of e))
              end
          end
      end
  end.

Lemma ref_run_Ask : forall st q k tgt pend s,
  ref_run (Ask st q k) tgt pend s =
  if st then ref_run (k (inr (XRuntime RFinished))) tgt pend s else
  match spec_answer (r_fs s) q with
  | inl v => ref_run (k (inl v)) tgt pend (rlog (LAnswer q (inl v)) s)
  | inr c => ref_run (k (inr (XOS c))) tgt pend (rlog (LAnswer q (inr c)) s)
  end.
Proof. reflexivity. Qed.

Definition rtick (s : rstate) : rstate :=
  rs_with s (r_fs s) (r_claimedF s) (r_claimedS s) (r_need s) (r_made s) (N.succ (r_clock s)) (r_nextid s) (r_log s).

Lemma ref_run_Write : forall c k tgt pend s,
  ref_run (Write c k) tgt pend s =
  match tgt with
  | None => ref_run k tgt pend s
  | Some p => if path_ok p then ref_run k tgt (Some c) (rtick s) else (s, (inr (XOS XOSError), pend))
  end.
Proof. reflexivity. Qed.

Lemma ref_run_BuildFile : forall st p c fname a kw fn k tgt pend s,
  ref_run (BuildFile st p c fname a kw fn k) tgt pend s =
  if st then ref_run (k (inr (XRuntime RFinished))) tgt pend s else
  match sanitize a, sanitize kw with
  | Some sa, Some skw =>
      match claim_check (r_claimedF s) (r_cachefile s) p with
      | Some e => ref_run (k (inr e)) tgt pend s
      | None =>
          match setup_fs (r_fs s) (r_cachefile s) p with
          | inr e => ref_run (k (inr e)) tgt pend s
          | inl (fs1, dirs) =>
              let '(s2, (res, pend2)) := ref_run (fn p sa skw) (Some p) None (ref_start s p fname sa skw fs1 dirs) in
              let '(s3, o) := ref_finish s2 p res pend2 in
              ref_run (k o) tgt pend s3
          end
      end
  | _, _ => ref_run (k (inr XType)) tgt pend s
  end.
Proof.
  intros. cbn [ref_run]. destruct st; [reflexivity|].
  destruct (sanitize a) as [sa|]; [|reflexivity]. destruct (sanitize kw) as [skw|]; [|reflexivity].
  unfold claim_check, setup_fs.
  destruct (mem_path p (r_claimedF s)); [reflexivity|].
  destruct (path_eqb p (r_cachefile s)); [reflexivity|].
  destruct (isdir (r_fs s) p); [reflexivity|].
  destruct (missing_dirs (r_fs s) (r_cachefile s) (dirname p)) as [dirs|e]; [|reflexivity].
  destruct (mkdir_all (r_fs s) dirs) as [fs1|e]; [|reflexivity].
  fold (ref_start s p fname sa skw fs1 dirs).
  destruct (ref_run (fn p sa skw) (Some p) None (ref_start s p fname sa skw fs1 dirs)) as [s2 [res pend2]].
  unfold ref_finish. destruct res as [v|e]; [|reflexivity].
  destruct (sanitize v) as [sv|]; [|reflexivity].
  destruct pend2 as [bytes|]; [|reflexivity].
  destruct (write_file (r_fs s2) p bytes None (r_clock s2) (r_nextid s2)); reflexivity.
Qed.

Definition sub_out (res : outcome) : outcome :=
  match res with
  | inr e => inr e
  | inl v => match sanitize v with None => inr XType | Some sv => inl sv end
  end.

Definition ref_substart (s : rstate) (fname : string) (sa skw : pyval) : rstate :=
  rlog (LInvoke fname None sa skw)
       (rs_with s (r_fs s) (r_claimedF s) (subbuild_key fname sa skw :: r_claimedS s) (r_need s) (r_made s)
                (r_clock s) (r_nextid s) (r_log s)).

Lemma ref_run_Subbuild : forall st fname a kw fn k tgt pend s,
  ref_run (Subbuild st fname a kw fn k) tgt pend s =
  if st then ref_run (k (inr (XRuntime RFinished))) tgt pend s else
  match sanitize a, sanitize kw with
  | Some sa, Some skw =>
      if existsb (py_eq (subbuild_key fname sa skw)) (r_claimedS s)
      then ref_run (k (inr (XRuntime RDupSubbuild))) tgt pend s
      else
        let '(s2, (res, _)) := ref_run (fn sa skw) None None (ref_substart s fname sa skw) in
        ref_run (k (sub_out res)) tgt pend s2
  | _, _ => ref_run (k (inr XType)) tgt pend s
  end.
Proof.
  intros. cbn [ref_run]. destruct st; [reflexivity|].
  destruct (sanitize a) as [sa|]; [|reflexivity]. destruct (sanitize kw) as [skw|]; [|reflexivity].
  fold (subbuild_key fname sa skw).
  destruct (existsb (py_eq (subbuild_key fname sa skw)) (r_claimedS s)); [reflexivity|].
  fold (ref_substart s fname sa skw).
  destruct (ref_run (fn sa skw) None None (ref_substart s fname sa skw)) as [s2 [res pd]].
  unfold sub_out. destruct res as [v|e]; [|reflexivity]. destruct (sanitize v); reflexivity.
Qed.

(* ------------------------------------------------------------------ *)
(* tree-level facts about the steps                                   *)
(* ------------------------------------------------------------------ *)
Definition setup_rel (x y : (fsT * list path) + exn) : Prop :=
  match x, y with
  | inl (a, d), inl (b, d') => tree_equiv a b /\ d = d'
  | inr e, inr e' => e = e'
  | _, _ => False
  end.

Lemma setup_fs_te : forall a b cf p, tree_equiv a b -> setup_rel (setup_fs a cf p) (setup_fs b cf p).
Proof.
  intros a b cf p H. unfold setup_fs. rewrite (te_isdir a b p H), (missing_dirs_te a b cf (dirname p) H).
  destruct (isdir b p); [reflexivity|].
  destruct (missing_dirs b cf (dirname p)) as [dirs|e]; [|reflexivity].
  pose proof (mkdir_all_te dirs a b H) as R.
  destruct (mkdir_all a dirs), (mkdir_all b dirs); simpl in R; try contradiction; simpl; auto. congruence.
Qed.

(* what a successful set-up gives *)
Lemma setup_fs_ok : forall fs cf p fs1 dirs, fs_wf fs -> setup_fs fs cf p = inl (fs1, dirs) ->
  p <> [] /\ isdir fs p = false /\ missing_dirs fs cf (dirname p) = inl dirs /\ mkdir_all fs dirs = inl fs1 /\
  fs_wf fs1 /\ lookup fs1 (dirname p) = Some NDir /\
  (forall q n, lookup fs q = Some n -> lookup fs1 q = Some n) /\
  (forall q, isdir fs1 q = true -> isdir fs q = true \/ is_ancestor q p = true) /\
  (forall q, isfile fs1 q = isfile fs q).
Proof.
  intros fs cf p fs1 dirs W H. unfold setup_fs in H.
  destruct (isdir fs p) eqn:Ed; [discriminate|].
  destruct (missing_dirs fs cf (dirname p)) as [dirs'|e] eqn:Em; [|discriminate].
  destruct (mkdir_all fs dirs') as [fs1'|e] eqn:Ek; [|discriminate]. inversion H; subst.
  assert (Hne : p <> []) by (intro; subst; discriminate).
  destruct (setup_dirs _ _ _ _ _ W Em Ek) as [Hd [W1 _]].
  repeat split; auto.
  - intros q n. eapply setup_dirs_keeps; eauto.
  - intros q Hq. destruct (setup_dirs_newdir _ _ _ _ _ q W Em Ek Hq) as [Hx|[Hx|Hx]]; [left; exact Hx| |].
    + right. destruct p as [|x d]; [congruence|]. simpl in Hx. subst q. apply is_ancestor_dirname.
    + right. destruct p as [|x d]; [congruence|]. simpl in Hx. simpl. rewrite Hx. apply orb_true_r.
  - intro q. eapply setup_dirs_isfile; eauto.
Qed.

Lemma write_file_ok : forall fs p b j m i fs', write_file fs p b j m i = inl fs' ->
  p <> [] /\ lookup fs p <> Some NDir /\
  (exists f, lookup fs' p = Some (NFile f) /\ f_bytes f = b /\ f_mtime f = m) /\
  (forall q, q <> p -> lookup fs' q = lookup fs q).
Proof.
  intros fs p b j m i fs' H. destruct (write_file_frame _ _ _ _ _ _ _ H) as [[f [Hf [Hb [Hm _]]]] Hoth].
  split; [|split; [|split; [eauto|exact Hoth]]].
  - intro; subst; discriminate.
  - unfold write_file in H. destruct p; [discriminate|]. intro E. rewrite E in H. discriminate.
Qed.

(* when does the final write succeed *)
Lemma write_file_succeeds : forall fs p b j m i,
  p <> [] -> path_ok p = true -> lookup fs (dirname p) = Some NDir -> isdir fs p = false ->
  exists fs', write_file fs p b j m i = inl fs'.
Proof.
  intros fs p b j m i Hne Hok Hpar Hnd. destruct p as [|n d]; [congruence|]. unfold write_file.
  unfold isdir in Hnd. simpl in Hpar. simpl in Hok. apply andb_true_iff in Hok. destruct Hok as [Hn _].
  destruct (lookup fs (n :: d)) as [[f|]|]; try discriminate; [eauto|].
  rewrite Hpar, Hn. eauto.
Qed.

Lemma write_file_isdir : forall fs p b j m i, isdir fs p = true -> write_file fs p b j m i = inr EISDIR.
Proof.
  intros fs p b j m i H. unfold isdir in H. unfold write_file. destruct p; [reflexivity|].
  destruct (lookup fs (n :: p)) as [[f|]|]; try discriminate. reflexivity.
Qed.

(* ------------------------------------------------------------------ *)
(* the reference invariant                                            *)
(* ------------------------------------------------------------------ *)
Definition RInv' (tgt : option path) (r : rstate) : Prop :=
  RInv tgt r /\ (forall n, In n (r_need r) -> mem_path n (r_claimedF r) = true).

(* what a run may change of the bookkeeping *)
Definition rext (r r' : rstate) : Prop :=
  (forall n, In n (r_need r) -> In n (r_need r')) /\
  (forall q, mem_path q (r_claimedF r) = true -> mem_path q (r_claimedF r') = true) /\
  r_cachefile r' = r_cachefile r /\
  (exists ex, r_log r' = ex ++ r_log r).

Lemma rext_refl : forall r, rext r r.
Proof. intro r. repeat split; auto. exists []. reflexivity. Qed.

Lemma rext_trans : forall a b c, rext a b -> rext b c -> rext a c.
Proof.
  intros a b c [H1 [H2 [H3 [e1 H4]]]] [K1 [K2 [K3 [e2 K4]]]]. repeat split; auto; try congruence.
  exists (e2 ++ e1). rewrite K4, H4, app_assoc. reflexivity.
Qed.

Lemma RInv_rlog : forall tgt e r, RInv' tgt r -> RInv' tgt (rlog e r).
Proof. intros tgt e r H. exact H. Qed.
Lemma rext_rlog : forall e r, rext r (rlog e r).
Proof. intros e r. repeat split; auto. exists [e]. reflexivity. Qed.
Lemma RInv_rtick : forall tgt r, RInv' tgt r -> RInv' tgt (rtick r).
Proof. intros tgt r H. exact H. Qed.
Lemma rext_rtick : forall r, rext r (rtick r).
Proof. intros r. repeat split; auto. exists []. reflexivity. Qed.

Lemma RInv_target : forall t t' r, RInv' t r -> (forall p, t' = Some p -> In p (r_need r)) -> RInv' t' r.
Proof. intros t t' r [[W [N _]] C] H. repeat split; auto; apply N; auto. Qed.

Lemma claim_check_none : forall cl cf p, claim_check cl cf p = None -> mem_path p cl = false /\ p <> cf.
Proof.
  intros cl cf p H. unfold claim_check in H. destruct (mem_path p cl); [discriminate|].
  destruct (path_eqb p cf) eqn:E; [discriminate|]. split; [reflexivity|]. apply path_eqb_neq. exact E.
Qed.

Lemma RInv_start : forall tgt s p fname sa skw fs1 dirs,
  RInv' tgt s -> claim_check (r_claimedF s) (r_cachefile s) p = None ->
  setup_fs (r_fs s) (r_cachefile s) p = inl (fs1, dirs) ->
  RInv' (Some p) (ref_start s p fname sa skw fs1 dirs) /\ rext s (ref_start s p fname sa skw fs1 dirs).
Proof.
  intros tgt s p fname sa skw fs1 dirs [[W [N T]] C] Hc Hs.
  destruct (setup_fs_ok _ _ _ _ _ W Hs) as [Hne [_ [_ [_ [W1 [Hpar [Hkeep _]]]]]]].
  split.
  - split; [split; [|split]|].
    + cbn. apply wf_try_remove. exact W1.
    + cbn. intros n [Hn|Hn].
      * subst n. split; [exact Hne|]. apply try_remove_keeps_dir. exact Hpar.
      * destruct (N n Hn) as [N1 N2]. split; [exact N1|]. apply try_remove_keeps_dir. apply Hkeep. exact N2.
    + cbn. intros q Hq. inversion Hq; subst. left. reflexivity.
    + cbn. intros n [Hn|Hn]; [subst; rewrite path_eqb_refl; reflexivity|]. rewrite (C n Hn). apply orb_true_r.
  - repeat split; cbn; auto.
    + intros q Hq. rewrite Hq. apply orb_true_r.
    + eexists [_]. reflexivity.
Qed.

Lemma In_need_anc : forall (n : path), n <> [] -> is_ancestor (dirname n) n = true.
Proof. intros n H. destruct n; [congruence|]. apply is_ancestor_dirname. Qed.

Lemma RInv_prune : forall tgt s2 p s,
  RInv' (Some p) s2 -> rext s s2 -> RInv' tgt s -> mem_path p (r_claimedF s) = false ->
  RInv' tgt (prune_made s2 p) /\ rext s (prune_made s2 p).
Proof.
  intros tgt s2 p s [[W2 [N2 T2]] C2] [E1 [E2 [E3 E4]]] [[W [N T]] C] Hp.
  assert (Hkeep : forall n, In n (r_need s) -> In n (del_path p (r_need s2))).
  { intros n Hn. apply In_del_path. split; [apply E1; exact Hn|]. intro; subst n. rewrite (C p Hn) in Hp. discriminate. }
  split.
  - split; [split; [|split]|].
    + rewrite prune_made_fs. apply prune_fs_wf. exact W2.
    + cbn [prune_made r_need rs_with]. intros n Hn. pose proof Hn as Hn'. apply In_del_path in Hn'. destruct Hn' as [Hn1 Hn2].
      destruct (N2 n Hn1) as [K1 K2]. split; [exact K1|].
      change (lookup (r_fs (prune_made s2 p)) (dirname n) = Some NDir).
      rewrite prune_made_fs, prune_fs_frame; [exact K2|]. exists n. split; [exact Hn|]. apply In_need_anc. exact K1.
    + cbn [prune_made r_need rs_with]. intros q Hq. apply Hkeep. apply T. exact Hq.
    + cbn [prune_made r_need r_claimedF rs_with]. intros n Hn. apply In_del_path in Hn. apply C2. tauto.
  - repeat split; auto.
Qed.

Lemma RInv_finish : forall tgt s s2 p res pend s3 o,
  RInv' (Some p) s2 -> rext s s2 -> RInv' tgt s -> mem_path p (r_claimedF s) = false ->
  ref_finish s2 p res pend = (s3, o) -> RInv' tgt s3 /\ rext s s3.
Proof.
  intros tgt s s2 p res pend s3 o I2 X I Hp H. unfold ref_finish in H.
  assert (F : forall e, (prune_made s2 p, @inr pyval exn e) = (s3, o) -> RInv' tgt s3 /\ rext s s3).
  { intros e He. inversion He; subst. eapply RInv_prune; eauto. }
  destruct res as [v|e]; [|eapply F; eauto].
  destruct (sanitize v) as [sv|]; [|eapply F; eauto].
  destruct pend as [bytes|]; [|eapply F; eauto].
  destruct (write_file (r_fs s2) p bytes None (r_clock s2) (r_nextid s2)) as [fs3|e] eqn:Ew; [|eapply F; eauto].
  inversion H; subst. clear F H.
  destruct I2 as [[W2 [N2 T2]] C2]. destruct X as [E1 [E2 [E3 E4]]]. destruct I as [[W [N T]] C].
  destruct (write_file_ok _ _ _ _ _ _ _ Ew) as [Hne [Hnd [_ Hoth]]].
  split.
  - split; [split; [|split]|]; cbn.
    + exact (wf_write_file _ _ _ _ _ _ _ W2 Ew).
    + intros n Hn. destruct (N2 n Hn) as [K1 K2]. split; [exact K1|].
      rewrite Hoth; [exact K2|]. intro Ex. rewrite Ex in K2. contradiction.
    + intros q Hq. apply E1. apply T. exact Hq.
    + exact C2.
  - repeat split; auto.
Qed.

Lemma RInv_substart : forall tgt s fname sa skw,
  RInv' tgt s -> RInv' None (ref_substart s fname sa skw) /\ rext s (ref_substart s fname sa skw).
Proof.
  intros tgt s fname sa skw [[W [N T]] C]. split.
  - split; [split; [|split]|]; cbn; auto. intros p Hp. discriminate.
  - repeat split; cbn; auto. eexists [_]. reflexivity.
Qed.

Theorem ref_run_inv : forall pr tgt pend r r' out pend',
  RInv' tgt r -> ref_run pr tgt pend r = (r', (out, pend')) -> RInv' tgt r' /\ rext r r'.
Proof.
  induction pr as [v|e|st q k IHk|c k IHk|st p c fname a kw fn IHfn k IHk|st fname a kw fn IHfn k IHk];
    intros tgt pend r r' out pend' I H.
  - inversion H; subst. split; [exact I|apply rext_refl].
  - inversion H; subst. split; [exact I|apply rext_refl].
  - rewrite ref_run_Ask in H. destruct st; [eapply IHk; eauto|].
    destruct (spec_answer (r_fs r) q) as [v|c].
    + destruct (IHk _ _ _ _ _ _ _ (RInv_rlog _ _ _ I) H) as [I' X]. split; [exact I'|].
      eapply rext_trans; [apply rext_rlog|exact X].
    + destruct (IHk _ _ _ _ _ _ _ (RInv_rlog _ _ _ I) H) as [I' X]. split; [exact I'|].
      eapply rext_trans; [apply rext_rlog|exact X].
  - rewrite ref_run_Write in H. destruct tgt as [p|]; [|eapply IHk; eauto].
    destruct (path_ok p).
    + destruct (IHk _ _ _ _ _ _ (RInv_rtick _ _ I) H) as [I' X]. split; [exact I'|].
      eapply rext_trans; [apply rext_rtick|exact X].
    + inversion H; subst. split; [exact I|apply rext_refl].
  - rewrite ref_run_BuildFile in H. destruct st; [eapply IHk; eauto|].
    destruct (sanitize a) as [sa|]; [|eapply IHk; eauto]. destruct (sanitize kw) as [skw|]; [|eapply IHk; eauto].
    destruct (claim_check (r_claimedF r) (r_cachefile r) p) as [e|] eqn:Ec; [eapply IHk; eauto|].
    destruct (setup_fs (r_fs r) (r_cachefile r) p) as [[fs1 dirs]|e] eqn:Es; [|eapply IHk; eauto].
    destruct (ref_run (fn p sa skw) (Some p) None (ref_start r p fname sa skw fs1 dirs)) as [s2 [res pend2]] eqn:Er.
    destruct (ref_finish s2 p res pend2) as [s3 o] eqn:Ef.
    destruct (RInv_start tgt r p fname sa skw fs1 dirs I Ec Es) as [I1 X1].
    destruct (IHfn _ _ _ _ _ _ _ _ _ I1 Er) as [I2 X2].
    destruct (claim_check_none _ _ _ Ec) as [Hp _].
    destruct (RInv_finish tgt r s2 p res pend2 s3 o I2 (rext_trans _ _ _ X1 X2) I Hp Ef) as [I3 X3].
    destruct (IHk _ _ _ _ _ _ _ I3 H) as [I4 X4]. split; [exact I4|eapply rext_trans; eauto].
  - rewrite ref_run_Subbuild in H. destruct st; [eapply IHk; eauto|].
    destruct (sanitize a) as [sa|]; [|eapply IHk; eauto]. destruct (sanitize kw) as [skw|]; [|eapply IHk; eauto].
    destruct (existsb (py_eq (subbuild_key fname sa skw)) (r_claimedS r)); [eapply IHk; eauto|].
    destruct (ref_run (fn sa skw) None None (ref_substart r fname sa skw)) as [s2 [res pd]] eqn:Er.
    destruct (RInv_substart tgt r fname sa skw I) as [I1 X1].
    destruct (IHfn _ _ _ _ _ _ _ _ I1 Er) as [I2 X2].
    assert (I2' : RInv' tgt s2).
    { eapply RInv_target; [exact I2|]. intros q Hq. destruct X2 as [X2 _]. destruct X1 as [X1 _].
      apply X2, X1. destruct I as [[_ [_ T]] _]. apply T. exact Hq. }
    destruct (IHk _ _ _ _ _ _ _ I2' H) as [I3 X3]. split; [exact I3|].
    eapply rext_trans; [exact X1|]. eapply rext_trans; eauto.
Qed.
