(* Proofs/CacheRTDefs.v — vocabulary for the cache-level persistence theorems
   (C16): the operation forest a cache is written as, the tables the reader
   derives from a forest, what the reader returns for the file written from a
   cache, and the well-formedness hypotheses.  Definitions only. *)
From Coq Require Import List String Ascii NArith ZArith Bool Arith Permutation.
From FB.Base Require Import PyVal Fs.
From FB.Gen Require Import JsonUtilGen.
From FB.Spec Require Import JsonSpec.
From FB.Model Require Import Types Monad SimpleOps Builder PathNorm Persist PersistSpec.
Import ListNotations.
Local Open Scope list_scope.

(* an entry of the file table / the subbuild table with its record normalised *)
Definition norm_fentry (e : path * option op) : path * option op :=
  (fst e, option_map norm_op (snd e)).
Definition norm_sentry (e : pyval * option op) : pyval * option op :=
  (fst e, option_map norm_op (snd e)).

(* set(createdDirs), in first-occurrence order *)
Definition dedup_paths (ds : list path) : list path :=
  fold_left (fun acc p => add_path p acc) ds [].

Fixpoint paths_nodup (l : list path) : bool :=
  match l with [] => true | p :: r => negb (mem_path p r) && paths_nodup r end.

(* the cache Cache.read_immutable builds from a forest: the file table and the
   subbuild table are filled by walking the records (Cache._operation_from_json:
   children first, then the record itself unless its setup failed) *)
Definition base_cache (nm : string) (fv : pyval) (dirs : list path) : cache :=
  {| c_name := nm; c_files := []; c_subs := []; c_dirs := dirs; c_fvers := fv; c_built := [] |}.
Definition tables_of (nm : string) (fv : pyval) (dirs : list path) (roots : list op) : cache :=
  fold_left register_parsed roots (base_cache nm fv dirs).

(* the forest Cache.write serialises: the records of the two tables that are not
   a suboperation of a record of the tables *)
Definition cache_forest (c : cache) : option (list op) :=
  option_map root_operations (cache_operations c).

(* what comes back: same name, created directories (as a set), versions in
   normal form, every record of the forest in normal form, tables of that forest *)
Definition read_back (c : cache) (roots : list op) : cache :=
  tables_of (c_name c) (norm_val (c_fvers c)) (dedup_paths (c_dirs c)) (map norm_op roots).

(* hypotheses under which Cache.write produces a file: no entry in progress;
   the records, the created directories and the versions dict are what a build
   records (legal paths, sanitized values) *)
Definition writable (c : cache) (roots : list op) : Prop :=
  cache_forest c = Some roots /\
  forallb op_wf roots = true /\
  forallb path_wf (c_dirs c) = true /\
  sanitized_t (c_fvers c) = true.

Definition writable_b (c : cache) : bool :=
  match cache_forest c with
  | Some roots => forallb op_wf roots && forallb path_wf (c_dirs c) && sanitized_t (c_fvers c)
  | None => false
  end.

(* "the tables of the cache are those of its forest", by lookup *)
Definition tables_from_forest (c : cache) (roots : list op) : Prop :=
  let d := tables_of (c_name c) (c_fvers c) (c_dirs c) roots in
  (forall p, files_get (c_files c) p = files_get (c_files d) p) /\
  (forall k, subs_get (c_subs c) k = subs_get (c_subs d) k).

(* ... and as lists: the same entries, in some order *)
Definition tables_perm_forest (c : cache) (roots : list op) : Prop :=
  let d := tables_of (c_name c) (c_fvers c) (c_dirs c) roots in
  Permutation (c_files c) (c_files d) /\ Permutation (c_subs c) (c_subs d).

(* ---- decidable structural equality of records (Leibniz), for checkers ---- *)
Definition query_beq (a b : query) : bool :=
  match a, b with
  | QExists p, QExists q | QIsFile p, QIsFile q | QIsDir p, QIsDir q
  | QListDir p, QListDir q | QGetSize p, QGetSize q => path_eqb p q
  | QWalk p t, QWalk q u => path_eqb p q && Bool.eqb t u
  | QRead p c, QRead q d => path_eqb p q && cmp_eqb c d
  | _, _ => false
  end.

Fixpoint op_beq (a b : op) {struct a} : bool :=
  let subs_beq :=
    fix go (xs ys : list op) : bool :=
      match xs, ys with
      | [], [] => true
      | x :: xs', y :: ys' => op_beq x y && go xs' ys'
      | _, _ => false
      end in
  match a, b with
  | OSimple q r e, OSimple q' r' e' => query_beq q q' && pyval_same r r' && oerr_eqb e e'
  | OBuildFile p c f a1 k1 s r cr ra sf, OBuildFile p' c' f' a1' k1' s' r' cr' ra' sf' =>
      path_eqb p p' && cmp_eqb c c' && String.eqb f f' && pyval_same a1 a1' && pyval_same k1 k1' &&
      subs_beq s s' && pyval_same r r' && pyval_same cr cr' && Bool.eqb ra ra' && Bool.eqb sf sf'
  | OSubbuild f a1 k1 s r ra sf, OSubbuild f' a1' k1' s' r' ra' sf' =>
      String.eqb f f' && pyval_same a1 a1' && pyval_same k1 k1' && subs_beq s s' && pyval_same r r' &&
      Bool.eqb ra ra' && Bool.eqb sf sf'
  | _, _ => false
  end.

Definition oop_beq (a b : option op) : bool :=
  match a, b with
  | None, None => true
  | Some x, Some y => op_beq x y
  | _, _ => false
  end.
Definition ooop_beq (a b : option (option op)) : bool :=
  match a, b with
  | None, None => true
  | Some x, Some y => oop_beq x y
  | _, _ => false
  end.

(* remove the first element equal to x *)
Fixpoint remove1 {A} (eqb : A -> A -> bool) (x : A) (l : list A) : option (list A) :=
  match l with
  | [] => None
  | y :: r => if eqb x y then Some r
              else match remove1 eqb x r with Some r' => Some (y :: r') | None => None end
  end.
Fixpoint perm_check {A} (eqb : A -> A -> bool) (l1 l2 : list A) : bool :=
  match l1 with
  | [] => match l2 with [] => true | _ => false end
  | x :: r => match remove1 eqb x l2 with Some l2' => perm_check eqb r l2' | None => false end
  end.

Definition fentry_beq (a b : path * option op) : bool := path_eqb (fst a) (fst b) && oop_beq (snd a) (snd b).
Definition sentry_beq (a b : pyval * option op) : bool := pyval_same (fst a) (fst b) && oop_beq (snd a) (snd b).

Definition tables_perm_forest_b (c : cache) (roots : list op) : bool :=
  let d := tables_of (c_name c) (c_fvers c) (c_dirs c) roots in
  perm_check fentry_beq (c_files c) (c_files d) && perm_check sentry_beq (c_subs c) (c_subs d).

(* the file table agrees with the forest's on every key of either *)
Definition files_from_forest_b (c : cache) (roots : list op) : bool :=
  let d := tables_of (c_name c) (c_fvers c) (c_dirs c) roots in
  forallb (fun p => ooop_beq (files_get (c_files c) p) (files_get (c_files d) p))
          (map fst (c_files c) ++ map fst (c_files d)).
